(* Client/ClKeepalive.v — the keep-alive loop of the client library (client/net.go keepaliveLoop,
   client/client.go ping / setState / notifyStateChange) as a wrapper around the client model
   cl_step.  The loop is a goroutine that
     - waits for a tick of a time.Ticker (period KeepAlive) and then runs c.ping(): the same exchange
       as the API call Ping (store slot PINGREQ, RetryTransaction), blocking until it is over;
       an error of the exchange ends the loop with that error, which cancels the client's group;
     - receives the client's state changes over a channel of capacity 1: every change stops the
       ticker, a change to "active" restarts it.
   The wrapper keeps the loop's state (ticker, pending tick, channel content, busy flag), injects
   the loop's pings into cl_step as internal API calls (identifiers from INTERNAL upwards, their
   returns are consumed by the loop and not shown), and splits a time advance at the ticks.

   Two situations are outside this sequential model and flagged in ka_excl (the comparison with the
   implementation stops there, see DESIGN.md): (1) a state change while the loop is busy in a ping
   AND the channel already holds an unread change - the sender (receive loop, timer goroutine or
   API goroutine) blocks in notifyStateChange; (2) the loop comes back from a ping and finds both a
   pending tick and a state change (or a tick and a timer of the client fall on one instant): Go's
   select takes either. *)
From stdpp Require Import base option list numbers fin_maps nmap.
From RecordUpdate Require Import RecordSet.
From Verif.Base Require Import Bytes.
From Verif.Codec Require Import Packets Decode Encode.
From Verif.Topics Require Import Predefined.
From Verif.Gateway Require Import GwTypes.
From Verif.Match Require Import Match.
From Verif.Client Require Import ClTypes ClStep.
Import RecordSetNotations.
Open Scope N_scope.

Definition INTERNAL : N := 1000000.
Definition is_internal (id : N) : bool := INTERNAL <=? id.
Definition ka_period (cfg : cl_cfg) : N := k_keepalive cfg * 1000.

Record ka_state := {
  ka_cl : cl_state;
  ka_seen : cstate;          (* the client's state after the last step (setState notifies changes only) *)
  ka_next : option N;        (* ticker: time of the next tick; None = stopped *)
  ka_tick : bool;            (* a tick became due while the loop was busy *)
  ka_chan : option cstate;   (* stateChangeCh, capacity 1 *)
  ka_busy : option N;        (* the loop is inside c.ping(): identifier of the internal call *)
  ka_done : bool;            (* the loop has returned *)
  ka_count : N;              (* pings started by the loop so far *)
  ka_excl : bool;            (* the history has left the modelled domain *)
  ka_victims : list N        (* API calls whose exchange a keep-alive exchange has interfered with *)
}.
#[export] Instance eta_ka_state : Settable _ :=
  settable! Build_ka_state <ka_cl; ka_seen; ka_next; ka_tick; ka_chan; ka_busy; ka_done; ka_count; ka_excl; ka_victims>.

Definition ka_init : ka_state :=
  {| ka_cl := cl_init; ka_seen := Disconnected; ka_next := None; ka_tick := false; ka_chan := None;
     ka_busy := None; ka_done := false; ka_count := 0; ka_excl := false; ka_victims := [] |}.

(* what a step shows: the client's outputs (without the returns of internal calls), the state
   changes with their times, and the pings the loop started *)
Inductive ka_out :=
| KoCl (o : cl_out)
| KoState (t : N) (st : cstate)
| KoPing (t : N) (id : N).

Definition ko_cl (os : list ka_out) : list cl_out := os ≫= (fun o => match o with KoCl c => [c] | _ => [] end).

Definition min_opt (a b : option N) : option N :=
  match a, b with Some x, Some y => Some (N.min x y) | Some x, None => Some x | None, y => y end.
Definition cl_deadline (s : cl_state) : option N :=
  min_opt (match c_min_timer (cl_timers s) with Some tm => Some (ctm_at tm) | None => None end)
          (if cl_exited s then None else cl_cancelled s).

Definition is_some {A} (o : option A) : bool := match o with Some _ => true | None => false end.

(* the loop's select takes a state change: ticker.Stop(); Reset for "active" *)
Definition ka_take_change (cfg : cl_cfg) (k : ka_state) (st : cstate) : ka_state :=
  k <| ka_chan := None |> <| ka_tick := false |>
    <| ka_next := if cstate_eqb st Active then Some (cl_now (ka_cl k) + ka_period cfg) else None |>.

(* the return of the internal call the loop waits for, if it is among the outputs *)
Definition internal_ret (busy : option N) (os : list cl_out) : option cres :=
  match busy with
  | None => None
  | Some b => match os ≫= (fun o => match o with CoRet _ id r => if id =? b then [r] else [] | _ => [] end) with
              | r :: _ => Some r | [] => None end
  end.
Definition user_outs (os : list cl_out) : list cl_out :=
  List.filter (fun o => match o with CoRet _ id _ => negb (is_internal id) | _ => true end) os.

(* after cl_step produced (s', os): the loop learns the result of its ping, sees the cancellation of
   the group, and the state change (if any) goes to the channel *)
Definition ka_absorb (cfg : cl_cfg) (k : ka_state) (r : cl_state * list cl_out) : ka_state * list ka_out :=
  let '(s', os) := r in
  let k := k <| ka_cl := s' |> in
  let k := match internal_ret (ka_busy k) os with
           | None => k
           | Some ROk => k <| ka_busy := None |>
           | Some RCancelled => k <| ka_busy := None |> <| ka_done := true |>       (* errPingInterrupted: return nil *)
           | Some _ =>
             (* the loop returns the error: the errgroup cancels the group context (from this goroutine:
                the receive loop notices at its next poll) and remembers the error *)
             k <| ka_busy := None |> <| ka_done := true |>
               <| ka_cl := match cl_cancelled s' with
                           | Some _ => s'
                           | None => c_cancel_from_api s' <| cl_group_err := true |> end |>
           end in
  let k := if is_some (cl_cancelled (ka_cl k))
           then k <| ka_done := true |> <| ka_busy := None |> <| ka_next := None |> <| ka_tick := false |> <| ka_chan := None |>
           else k in
  let st' := cl_st (ka_cl k) in
  if cstate_eqb st' (ka_seen k) then (k, map KoCl (user_outs os)) else
  let k := k <| ka_seen := st' |> in
  let k := if ka_done k || (k_keepalive cfg =? 0) then k
           else match ka_busy k, ka_chan k with
                | None, _ => ka_take_change cfg k st'
                | Some _, None => k <| ka_chan := Some st' |>
                | Some _, Some _ => k <| ka_excl := true |>
                end in
  (k, map KoCl (user_outs os) ++ [KoState (cl_now (ka_cl k)) st']).

(* c.ping() by the loop; a ping of the API that waits in the PINGREQ slot loses the slot (see stolen_pingresp) *)
Definition ka_start_ping (cfg : cl_cfg) (k : ka_state) : ka_state * list ka_out :=
  let id := INTERNAL + ka_count k in
  let s := ka_cl k in
  let k := k <| ka_busy := Some id |> <| ka_count := ka_count k + 1 |> in
  let '(k, o) := ka_absorb cfg k (cl_step cfg s (CCall id APing)) in
  (k, KoPing (cl_now s) id :: o).

(* the loop's select when it is not inside a ping *)
Fixpoint ka_settle (fuel : nat) (cfg : cl_cfg) (k : ka_state) : ka_state * list ka_out :=
  match fuel with
  | O => (k <| ka_excl := true |>, [])
  | S f =>
    if ka_done k || is_some (ka_busy k) then (k, []) else
    match ka_chan k, ka_tick k with
    | Some _, true => (k <| ka_excl := true |>, [])
    | Some st, false => ka_settle f cfg (ka_take_change cfg k st)
    | None, true =>
      let '(k1, o1) := ka_start_ping cfg (k <| ka_tick := false |>) in
      let '(k2, o2) := ka_settle f cfg k1 in (k2, o1 ++ o2)
    | None, false => (k, [])
    end
  end.

Definition ka_do (cfg : cl_cfg) (k : ka_state) (ev : cl_event) : ka_state * list ka_out :=
  let '(k1, o1) := ka_absorb cfg k (cl_step cfg (ka_cl k) ev) in
  let '(k2, o2) := ka_settle 4 cfg k1 in
  (k2, o1 ++ o2).

Fixpoint ka_advance (fuel : nat) (cfg : cl_cfg) (k : ka_state) (target : N) : ka_state * list ka_out :=
  match fuel with
  | O => (k <| ka_excl := true |>, [])
  | S f =>
    let now := cl_now (ka_cl k) in
    let tk := if ka_done k then None else ka_next k in
    let tc := cl_deadline (ka_cl k) in
    let go_cl (t : N) := ka_do cfg k (CAdv (t - now)) in
    match tk, tc with
    | Some t, _ =>
      let cl_first := match tc with Some c => c <=? t | None => false end in
      if cl_first then
        match tc with
        | Some c =>
          if target <? c then go_cl target else
          let '(k1, o1) := go_cl c in
          let k1 := if c =? t then k1 <| ka_excl := true |> else k1 in
          let '(k2, o2) := ka_advance f cfg k1 target in (k2, o1 ++ o2)
        | None => (k, [])
        end
      else
        if target <? t then go_cl target else
        (* the tick *)
        let '(k1, o1) := ka_absorb cfg k (cl_step cfg (ka_cl k) (CAdv (t - now))) in
        let k1 := k1 <| ka_next := Some (t + ka_period cfg) |> in
        let '(k2, o2) := if is_some (ka_busy k1) then (k1 <| ka_tick := true |>, [])
                         else ka_settle 4 cfg (k1 <| ka_tick := true |>) in
        let '(k3, o3) := ka_advance f cfg k2 target in (k3, o1 ++ o2 ++ o3)
    | None, Some c =>
      if target <? c then go_cl target else
      let '(k1, o1) := go_cl c in
      let '(k2, o2) := ka_advance f cfg k1 target in (k2, o1 ++ o2)
    | None, None => go_cl target
    end
  end.

Definition ka_fuel (cfg : cl_cfg) (k : ka_state) (d : N) : nat :=
  N.to_nat (N.min 100000 (8 + (N.of_nat (length (cl_timers (ka_cl k))) + 2) *
                              (4 + d / N.max 1 (N.min (N.min (k_rdelay cfg) (k_ctimeout cfg)) (N.max 1 (ka_period cfg)))))).

Definition is_pingresp (dg : bytes) : bool :=
  match read_dgram dg with Ok Pingresp => true | _ => false end.

(* a PINGRESP goes to the transaction in the PINGREQ slot (client/net.go looks there first).  When that is a
   keep-alive ping of the loop, the PINGRESP is lost for the Sleep call whose sleep transaction waits for it,
   and for every Ping call of the API that is still in progress (its slot was taken over by the loop's ping):
   these calls are the victims of the keep-alive exchange. *)
Definition pending_user_pings (s : cl_state) (slot : N) : list N :=
  map_to_list (cl_objs s) ≫= (fun gt => match snd gt with
                                         | CxRetry call 5 _ _ _ _ _ => if negb (is_internal call) && negb (fst gt =? slot) then [call] else []
                                         | _ => [] end).
Definition stolen_pingresp (k : ka_state) (ev : cl_event) : list N :=
  match ev with
  | CGw dg =>
    if is_pingresp dg then
      match c_get_type (ka_cl k) TY_PINGREQ with
      | Some (g, CxRetry call 5 _ _ _ _ _) =>
        if is_internal call then
          pending_user_pings (ka_cl k) g ++
          match c_get_type (ka_cl k) TY_DISCONNECT with
          | Some (_, CxSleep scall CtAwaitPingresp _ _) => [scall]
          | _ => [] end
        else []
      | _ => []
      end
    else []
  | _ => []
  end.

Definition ka_step (cfg : cl_cfg) (k : ka_state) (ev : cl_event) : ka_state * list ka_out :=
  if k_keepalive cfg =? 0 then
    let '(s', os) := cl_step cfg (ka_cl k) ev in (k <| ka_cl := s' |> <| ka_seen := cl_st s' |>, map KoCl os)
  else
  match ev with
  | CAdv d => ka_advance (ka_fuel cfg k d) cfg k (cl_now (ka_cl k) + d)
  | _ => ka_do cfg (k <| ka_victims := ka_victims k ++ stolen_pingresp k ev |>) ev
  end.

Fixpoint ka_run (cfg : cl_cfg) (k : ka_state) (evs : list cl_event) : list (list ka_out) * ka_state :=
  match evs with
  | [] => ([], k)
  | ev :: evs' =>
    let '(k', o) := ka_step cfg k ev in
    let '(os, kf) := ka_run cfg k' evs' in (o :: os, kf)
  end.
