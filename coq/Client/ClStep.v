(* Client/ClStep.v — the client library (client/client.go, net.go, *_transaction.go) as a
   step function over API calls, gateway datagrams and the passing of time.
   Granularity: one API call start / received datagram / timer expiry handled to completion.
   The keep-alive loop (KeepAlive > 0) is modelled in ClKeepalive.v; here k_keepalive is only
   the duration announced in CONNECT. *)
From stdpp Require Import base option list numbers fin_maps nmap.
From RecordUpdate Require Import RecordSet.
From Verif.Base Require Import Bytes.
From Verif.Codec Require Import Packets Decode Encode.
From Verif.Topics Require Import Predefined.
From Verif.Gateway Require Import GwTypes.
From Verif.Match Require Import Match.
From Verif.Client Require Import ClTypes.
Import RecordSetNotations.
Open Scope N_scope.

#[export] Instance eta_cl_state : Settable _ := settable! Build_cl_state
  <cl_st; cl_registered; cl_handlers; cl_objs; cl_by_id; cl_by_type; cl_next_obj; cl_next_mid;
   cl_timers; cl_next_seq; cl_now; cl_last_read; cl_cancelled; cl_exited; cl_group_err; cl_waiting_group;
   cl_conn_closed>.

Definition readTimeout := 1000.
Definition maxPingrespWait := 60000.
Definition TY_CONNECT := 4. Definition TY_PINGREQ := 22. Definition TY_DISCONNECT := 24.

Definition CR := (cl_state * list cl_out)%type.

(* ------------------------------------------------------------------ basics *)

(* Client.send: false = the packet was too long and nothing was written *)
Definition c_send (s : cl_state) (p : packet) : list cl_out * bool :=
  if cl_conn_closed s then ([], false) else
  if len (pack p) <=? MaxPacketLen then ([CoSn (cl_now s) (pack p)], true) else ([], false).

Definition c_arm (s : cl_state) (k : ctimer_kind) (delay : N) : cl_state :=
  s <| cl_timers := cl_timers s ++ [{| ctm_at := cl_now s + delay; ctm_seq := cl_next_seq s; ctm_kind := k |}] |>
    <| cl_next_seq := cl_next_seq s + 1 |>.

Definition ctimer_obj (k : ctimer_kind) : N :=
  match k with CtmConnect g | CtmRetry g | CtmSleepResend g | CtmSleepWake g | CtmSleepPingresp g => g end.

Definition c_disarm (s : cl_state) (g : N) : cl_state :=
  s <| cl_timers := List.filter (fun t => negb (ctimer_obj (ctm_kind t) =? g)) (cl_timers s) |>.

Definition c_new_obj (s : cl_state) (t : ctxn) : cl_state * N :=
  (s <| cl_objs := <[cl_next_obj s := t]> (cl_objs s) |> <| cl_next_obj := cl_next_obj s + 1 |>, cl_next_obj s).

Definition c_set_obj (s : cl_state) (g : N) (t : ctxn) : cl_state := s <| cl_objs := <[g := t]> (cl_objs s) |>.

(* util.IDSequence over 1..65535 (the overflow flag is ignored by the client) *)
Definition c_next_mid (s : cl_state) : cl_state * N :=
  (s <| cl_next_mid := if cl_next_mid s =? 65535 then 1 else cl_next_mid s + 1 |>, cl_next_mid s).

(* finish of object g: timers stopped, finally deletes its store slot (whoever is in it) *)
Definition c_finish_obj (s : cl_state) (g : N) : cl_state :=
  match cl_objs s !! g with
  | None => s
  | Some t =>
    let s := c_disarm s g in
    let s := s <| cl_objs := delete g (cl_objs s) |> in
    match t with
    | CxConnect _ _ => s <| cl_by_type := delete TY_CONNECT (cl_by_type s) |>
    | CxRetry _ kind key _ _ _ _ =>
      if kind =? 5 then s <| cl_by_type := delete TY_PINGREQ (cl_by_type s) |>
      else if (kind =? 6) || (kind =? 7) then s <| cl_by_type := delete TY_DISCONNECT (cl_by_type s) |>
      else s <| cl_by_id := delete key (cl_by_id s) |>
    | CxSleep _ _ _ _ => s <| cl_by_type := delete TY_DISCONNECT (cl_by_type s) |>
    | CxBrokerPub2 mid _ => s <| cl_by_id := delete mid (cl_by_id s) |>
    end
  end.

Definition c_get_id (s : cl_state) (mid : N) : option (N * ctxn) :=
  match cl_by_id s !! mid with
  | Some g => match cl_objs s !! g with Some t => Some (g, t) | None => None end
  | None => None
  end.
Definition c_get_type (s : cl_state) (ty : N) : option (N * ctxn) :=
  match cl_by_type s !! ty with
  | Some g => match cl_objs s !! g with Some t => Some (g, t) | None => None end
  | None => None
  end.

Fixpoint reg_lookup (l : list (bytes * N)) (name : bytes) : option N :=
  match l with
  | [] => None
  | (n, i) :: l' => if beq n name then Some i else reg_lookup l' name
  end.
Fixpoint reg_set (l : list (bytes * N)) (name : bytes) (i : N) : list (bytes * N) :=
  match l with
  | [] => [(name, i)]
  | (n, j) :: l' => if beq n name then (n, i) :: l' else (n, j) :: reg_set l' name i
  end.
(* findTopic: any name with this ID (map order unspecified); the first in the model *)
Fixpoint reg_find_id (l : list (bytes * N)) (i : N) : option bytes :=
  match l with
  | [] => None
  | (n, j) :: l' => if j =? i then Some n else reg_find_id l' i
  end.

(* c.setState *)
Definition c_set_state (s : cl_state) (st : cstate) : cl_state := s <| cl_st := st |>.

(* the group context is cancelled now by an API goroutine (c.cancel()): the receive loop
   notices at its next poll tick *)
Definition next_poll (start t : N) : N := start + readTimeout * ((t - start) / readTimeout + 1).
(* the transactions' context watchers stop the connect and retry timers; the sleep
   transaction's timers are not bound to the context *)
Definition ctx_bound (k : ctimer_kind) : bool :=
  match k with CtmConnect _ | CtmRetry _ => true | _ => false end.
Definition c_stop_ctx_timers (s : cl_state) : cl_state :=
  s <| cl_timers := List.filter (fun t => negb (ctx_bound (ctm_kind t))) (cl_timers s) |>.
Definition c_cancel_from_api (s : cl_state) : cl_state :=
  match cl_cancelled s with
  | Some _ => s
  | None => c_stop_ctx_timers (s <| cl_cancelled := Some (next_poll (cl_last_read s) (cl_now s)) |>)
  end.
(* ... or by the receive loop itself (handlePacket): it exits at once *)
Definition c_cancel_from_loop (s : cl_state) (err : bool) : cl_state :=
  match cl_cancelled s with
  | Some _ => s
  | None => c_stop_ctx_timers (s <| cl_cancelled := Some (cl_now s) |> <| cl_group_err := err |>)
  end.

(* an API call returns *)
Definition ret (s : cl_state) (call : N) (r : cres) : list cl_out := [CoRet (cl_now s) call r].

(* ------------------------------------------------------------------ API calls *)

Definition connect_pkt (cfg : cl_cfg) : packet :=
  Connect (negb (len (k_will cfg) =? 0)) (k_clean cfg) 1 (u16 (k_keepalive cfg)) (k_cid cfg).
Definition auth_pkt (cfg : cl_cfg) : packet :=
  Auth 0 [80; 76; 65; 73; 78] ([0] ++ k_user cfg ++ [0] ++ k_pass cfg).

(* one iteration of the loop in Client.Connect *)
Definition connect_attempt (cfg : cl_cfg) (s : cl_state) (call attempt : N) : CR :=
  match c_new_obj s (CxConnect call attempt) with
  | (s, g) =>
    let s := s <| cl_by_type := <[TY_CONNECT := g]> (cl_by_type s) |> in
    let s := c_arm s (CtmConnect g) (k_ctimeout cfg) in
    match c_send s (connect_pkt cfg) with
    | (o1, false) => (s, o1 ++ ret s call RInvalid)
    | (o1, true) =>
      if len (k_user cfg) =? 0 then (s, o1)
      else match c_send s (auth_pkt cfg) with
           | (o2, false) => (s, o1 ++ o2 ++ ret s call RInvalid)
           | (o2, true) => (s, o1 ++ o2)
           end
    end
  end.

(* common shape of Register / subscribe / unsubscribe / publish QoS 1,2 / Ping / Disconnect:
   create the RetryTransaction, store it, Proceed (arms the retry timer), send *)
Definition start_retry (cfg : cl_cfg) (s : cl_state) (call kind key : N) (st : ct_state) (p : packet)
           (by_type : bool) : cl_state * N * list cl_out * bool :=
  match c_new_obj s (CxRetry call kind key st p 0 call) with
  | (s, g) =>
    let s := if by_type then s <| cl_by_type := <[key := g]> (cl_by_type s) |>
             else s <| cl_by_id := <[key := g]> (cl_by_id s) |> in
    let s := c_arm s (CtmRetry g) (k_rdelay cfg) in
    match c_send s p with (o, ok) => (s, g, o, ok) end
  end.

Definition call_simple (cfg : cl_cfg) (s : cl_state) (call kind : N) (st : ct_state) (mk : N -> packet) : CR :=
  match c_next_mid s with
  | (s, mid) =>
    match start_retry cfg s call kind mid st (mk mid) false with
    | (s, g, o, true) => (s, o)
    | (s, g, o, false) => (c_finish_obj s g, o ++ ret s call RInvalid)     (* transaction.Fail(err) *)
    end
  end.

Definition do_publish (cfg : cl_cfg) (s : cl_state) (call : N) (tit tid qos : N) (retain : bool) (payload : bytes) : CR :=
  match c_next_mid s with
  | (s, mid) =>
    let p := Publish false qos retain tit tid mid payload in
    if (qos =? 0) || (qos =? 3) then
      match c_send s p with
      | (o, true) => (s, o ++ ret s call ROk)
      | (o, false) => (s, o ++ ret s call RInvalid)
      end
    else if qos =? 1 then
      match start_retry cfg s call 3 mid CtAwaitPuback p false with
      | (s, g, o, true) => (s, o)
      | (s, g, o, false) => (c_finish_obj s g, o ++ ret s call RInvalid)
      end
    else if qos =? 2 then
      match start_retry cfg s call 4 mid CtAwaitPubrec p false with
      | (s, g, o, true) => (s, o)
      | (s, g, o, false) => (c_finish_obj s g, o ++ ret s call RInvalid)
      end
    else (s, ret s call RInvalid)
  end.

Definition do_call (cfg : cl_cfg) (s : cl_state) (call : N) (a : api) : CR :=
  match a with
  | AConnect => connect_attempt cfg s call 0
  (* Register, Subscribe and Unsubscribe refuse an empty topic name (ErrEmptyTopic) *)
  | ARegister topic =>
    if len topic =? 0 then (s, ret s call RInvalid) else
    call_simple cfg s call 0 CtNone (fun mid => Register 0 mid topic)
  | ASubscribe topic qos =>
    if len topic =? 0 then (s, ret s call RInvalid) else
    if is_short_topic topic
    then call_simple cfg s call 1 CtNone (fun mid => Subscribe false qos TIT_SHORT mid (encode_short topic) [])
    else call_simple cfg s call 1 CtNone (fun mid => Subscribe false qos TIT_STRING mid 0 topic)
  | ASubPre tid qos => call_simple cfg s call 1 CtNone (fun mid => Subscribe false qos TIT_PREDEFINED mid tid [])
  | AUnsub topic =>
    if len topic =? 0 then (s, ret s call RInvalid) else
    if is_short_topic topic
    then call_simple cfg s call 2 CtNone (fun mid => Unsubscribe TIT_SHORT mid (encode_short topic) [])
    else call_simple cfg s call 2 CtNone (fun mid => Unsubscribe TIT_STRING mid 0 topic)
  | AUnsubPre tid => call_simple cfg s call 2 CtNone (fun mid => Unsubscribe TIT_PREDEFINED mid tid [])
  | APublish topic qos retain payload =>
    if is_short_topic topic then do_publish cfg s call TIT_SHORT (encode_short topic) qos retain payload
    else match reg_lookup (cl_registered s) topic with
         | Some tid => do_publish cfg s call TIT_REGISTERED tid qos retain payload
         | None => (s, ret s call RNotRegistered)
         end
  | APubPre tid qos retain payload => do_publish cfg s call TIT_PREDEFINED tid qos retain payload
  | APing =>
    match start_retry cfg s call 5 TY_PINGREQ CtNone (Pingreq []) true with
    | (s, g, o, true) => (s, o)
    | (s, g, o, false) => (c_finish_obj s g, o ++ ret s call RInvalid)
    end
  | ASleep ms =>
    (* the state is checked before the transaction is created *)
    if negb (cstate_eqb (cl_st s) Active || cstate_eqb (cl_st s) Awake) then (s, ret s call RState) else
    match c_new_obj s (CxSleep call CtNone 0 ms) with
    | (s, g) =>
      let s := s <| cl_by_type := <[TY_DISCONNECT := g]> (cl_by_type s) |> in
      match cl_st s with
      | Active =>
        let d := Disconnect (u16 (ms / 1000)) in
        match c_send s d with
        | (o, true) =>
          (c_arm (c_set_obj s g (CxSleep call CtAwaitDisconnect 0 ms)) (CtmSleepResend g) (k_rdelay cfg), o)
        | (o, false) => (c_finish_obj s g, o ++ ret s call RInvalid)
        end
      | Awake =>
        (* startSleep *)
        (c_arm (c_set_state (c_set_obj s g (CxSleep call CtSleeping 0 ms)) Asleep) (CtmSleepWake g) ms, [])
      | _ => (s, ret s call RState)       (* the dead transaction stays in the DISCONNECT slot *)
      end
    end
  | ADisconnect | AClose =>
    match cl_st s with
    | Active | Awake =>
      match start_retry cfg s call (match a with AClose => 7 | _ => 6 end) TY_DISCONNECT CtAwaitDisconnect (Disconnect 0) true with
      | (s, g, o, true) => (c_set_state s Disconnected, o)
      | (s, g, o, false) => (c_finish_obj s g, o ++ ret s call RInvalid)
      end
    | _ =>
      match a with
      | AClose =>
        (* Disconnect() returned nil at once; cancel(); conn.Close(): the blocked Read fails, the
           receive loop returns the error immediately *)
        (c_cancel_from_loop s true <| cl_conn_closed := true |>, ret s call ROk)
      | _ => (s, ret s call ROk)
      end
    end
  end.

(* ------------------------------------------------------------------ transaction completion *)

(* the API call waiting for object g learns its result *)
Definition txn_call (t : ctxn) : list N :=
  match t with
  | CxConnect call _ => [2 * call]
  | CxRetry call kind _ _ _ _ _ => if (kind =? 6) || (kind =? 7) then [2 * call + 1] else [2 * call]
  | CxSleep call _ _ _ => [2 * call]
  | CxBrokerPub2 _ _ => []
  end.

Definition complete (cfg : cl_cfg) (s : cl_state) (g : N) (t : ctxn) (r : cres) (is_close : bool) : CR :=
  let s := c_finish_obj s g in
  (* once the group context is cancelled the API call has left its select for group.Wait():
     it no longer looks at the transaction and returns when the client has exited (even
     numbers: ordinary calls, odd: Disconnect/Close, which return the result of Wait()) *)
  match cl_cancelled s with
  | Some _ => (if cl_exited s then s else s <| cl_waiting_group := cl_waiting_group s ++ txn_call t |>, [])
  | None =>
  match t with
  | CxConnect call attempt =>
    match r with
    | RTimeout =>
      if attempt + 1 <=? k_rcount cfg then connect_attempt cfg s call (attempt + 1)
      else (s, ret s call RTimeout)
    | _ => (s, ret s call r)
    end
  | CxRetry call kind _ _ _ _ _ =>
    if kind =? 6 then
      (* Client.Disconnect: nil and ErrNoMoreRetries both mean "quit": c.cancel(); return nil *)
      match r with
      | ROk | RNoRetries => (c_cancel_from_api s, ret s call ROk)
      | _ => (s, ret s call r)
      end
    else if kind =? 7 then
      (* Client.Close: Disconnect as above, then cancel() and conn.Close(): the blocked Read fails
         and the receive loop returns at once *)
      match r with
      | ROk | RNoRetries => (c_cancel_from_loop s true <| cl_conn_closed := true |>, ret s call ROk)
      | _ => (s, ret s call r)
      end
    else (s, ret s call r)
  | CxSleep call _ _ _ => (s, ret s call r)
  | CxBrokerPub2 _ _ => (s, [])
  end
  end.

(* ------------------------------------------------------------------ received packets *)

(* Client.topicForPublish *)
Definition topic_for_publish (cfg : cl_cfg) (s : cl_state) (tit tid : N) : option bytes :=
  if tit =? TIT_REGISTERED then reg_find_id (cl_registered s) tid
  else if tit =? TIT_PREDEFINED then get_name (k_predef cfg) (k_cid cfg) tid
  else if tit =? TIT_SHORT then Some (decode_short tid)
  else None.

(* messageHandlers.handle: the callback of the first matching handler (map order unspecified) *)
Definition dispatch (s : cl_state) (topic : bytes) (p : packet) : list cl_out :=
  match p with
  | Publish dup qos retain _ _ mid data =>
    match handle_set (cl_handlers s) topic with
    | sub :: _ => [CoCb (cl_now s) sub topic data qos retain dup mid]
    | [] => []
    end
  | _ => []
  end.

(* result of handlePacket: the loop goes on, or returns an error (the group is cancelled) *)
Definition loop_err (s : cl_state) (o : list cl_out) : CR := (c_cancel_from_loop s true, o).

Definition topic_name_of (cfg : cl_cfg) (tit tid : N) (name : bytes) : option bytes :=
  if tit =? TIT_STRING then Some name
  else if tit =? TIT_PREDEFINED then get_name (k_predef cfg) (k_cid cfg) tid
  else if tit =? TIT_SHORT then Some (decode_short tid)
  else None.

Definition handle_packet (cfg : cl_cfg) (s : cl_state) (p : packet) : CR :=
  match p with
  | Connack rc =>
    match c_get_type s TY_CONNECT with
    | Some (g, (CxConnect _ _) as t) =>
      if negb (rc =? RC_ACCEPTED) then complete cfg s g t RRejected false
      else complete cfg (c_set_state s Active) g t ROk false
    | _ => (s, [])
    end
  | Register tid mid name =>
    match reg_lookup (cl_registered s) name with
    | Some i =>
      (* the same registration again (the gateway retransmits its REGISTER when the REGACK got lost)
         is accepted again; another topic ID for a known name is rejected *)
      match c_send s (Regack tid mid (if i =? tid then RC_ACCEPTED else RC_INVALID_TOPIC_ID)) with
      | (o, true) => (s, o) | (o, false) => loop_err s o end
    | None =>
      let s := s <| cl_registered := reg_set (cl_registered s) name tid |> in
      match c_send s (Regack tid mid RC_ACCEPTED) with (o, true) => (s, o) | (o, false) => loop_err s o end
    end
  | Regack tid mid rc =>
    match c_get_id s mid with
    | Some (g, (CxRetry _ 0 _ _ (Register _ _ name) _ _) as t) =>
      if negb (rc =? RC_ACCEPTED) then complete cfg s g t RRejected false
      else complete cfg (s <| cl_registered := reg_set (cl_registered s) name tid |>) g t ROk false
    | _ => (s, [])
    end
  | Suback _ tid mid rc =>
    match c_get_id s mid with
    | Some (g, (CxRetry _ 1 _ _ (Subscribe _ _ tit _ stid name) _ sub) as t) =>
      if negb (rc =? RC_ACCEPTED) then complete cfg s g t RRejected false else
      match topic_name_of cfg tit stid name with
      | None => complete cfg s g t RInvalid false
      | Some topic =>
        let s := if (tit =? TIT_STRING) && negb (tid =? 0)
                 then s <| cl_registered := reg_set (cl_registered s) name tid |> else s in
        let s := s <| cl_handlers := tbl_store (cl_handlers s) (split topic) sub |> in
        complete cfg s g t ROk false
      end
    | _ => (s, [])
    end
  | Unsuback mid =>
    match c_get_id s mid with
    | Some (g, (CxRetry _ 2 _ _ (Unsubscribe tit _ stid name) _ _) as t) =>
      match topic_name_of cfg tit stid name with
      | None => complete cfg s g t RInvalid false
      | Some topic => complete cfg (s <| cl_handlers := tbl_remove (cl_handlers s) (split topic) |>) g t ROk false
      end
    | _ => (s, [])
    end
  | Publish dup qos retain tit tid mid data =>
    if qos =? 0 then
      match topic_for_publish cfg s tit tid with
      | Some topic => (s, dispatch s topic p)
      | None => loop_err s []
      end
    else if qos =? 1 then
      match c_send s (Puback tid mid RC_ACCEPTED) with
      | (o, false) => loop_err s o
      | (o, true) =>
        match topic_for_publish cfg s tit tid with
        | Some topic => (s, o ++ dispatch s topic p)
        | None => loop_err s o
        end
      end
    else if qos =? 2 then
      match c_get_id s mid with
      | Some (g, CxBrokerPub2 _ _) =>
        (* resent PUBLISH: remember it again, PUBREC again *)
        match c_send s (Pubrec mid) with
        | (o, true) => (c_set_obj s g (CxBrokerPub2 mid p), o)
        | (o, false) => loop_err s o
        end
      | Some _ => (s, [])                       (* another kind of transaction holds this ID *)
      | None =>
        match c_new_obj s (CxBrokerPub2 mid p) with
        | (s, g) =>
          let s := s <| cl_by_id := <[mid := g]> (cl_by_id s) |> in
          match c_send s (Pubrec mid) with (o, true) => (s, o) | (o, false) => loop_err s o end
        end
      end
    else loop_err s []                           (* "invalid QOS" *)
  | Pubrel mid =>
    match cl_by_id s !! mid with
    | None =>
      (* PUBREL of an exchange already finished: PUBCOMP again *)
      match c_send s (Pubcomp mid) with (o, true) => (s, o) | (o, false) => loop_err s o end
    | Some g =>
      match cl_objs s !! g with
      | Some (CxBrokerPub2 _ (Publish _ _ _ tit tid _ _ as pub)) =>
        match topic_for_publish cfg s tit tid with
        | None => (s, [])                        (* Pubrel returns the error; the caller drops it *)
        | Some topic =>
          let o1 := dispatch s topic pub in
          match c_send s (Pubcomp mid) with
          | (o2, true) => (c_finish_obj s g, o1 ++ o2)
          | (o2, false) => (s, o1 ++ o2)
          end
        end
      | _ => (s, [])
      end
    end
  | Puback _ mid _ =>
    match c_get_id s mid with
    | Some (g, (CxRetry _ 3 _ st _ _ _) as t) =>
      if negb (ct_state_eqb st CtAwaitPuback) then (s, [])
      else match p with
           | Puback _ _ rc => if rc =? RC_ACCEPTED then complete cfg s g t ROk false
                              else complete cfg s g t RRejected false
           | _ => (s, [])
           end
    | _ => (s, [])
    end
  | Pubrec mid =>
    match c_get_id s mid with
    | Some (g, CxRetry call 4 key st _ _ sub) =>
      if negb (ct_state_eqb st CtAwaitPubrec) then (s, []) else
      (* Proceed(awaitingPubcomp, pubrel): retry budget reset, timer restarted *)
      let s := c_set_obj s g (CxRetry call 4 key CtAwaitPubcomp (Pubrel mid) 0 sub) in
      let s := c_arm (c_disarm s g) (CtmRetry g) (k_rdelay cfg) in
      match c_send s (Pubrel mid) with (o, true) => (s, o) | (o, false) => loop_err s o end
    | _ => (s, [])
    end
  | Pubcomp mid =>
    match c_get_id s mid with
    | Some (g, (CxRetry _ 4 _ st _ _ _) as t) =>
      if ct_state_eqb st CtAwaitPubcomp then complete cfg s g t ROk false else (s, [])
    | _ => (s, [])
    end
  | Disconnect _ =>
    match cl_by_type s !! TY_DISCONNECT with
    | None =>
      (* unsolicited DISCONNECT: state disconnected, c.cancel(); the loop sees it at once *)
      (c_cancel_from_loop (c_set_state s Disconnected) false, [])
    | Some g =>
      match cl_objs s !! g with
      | Some ((CxRetry _ 6 _ _ _ _ _) as t) | Some ((CxRetry _ 7 _ _ _ _ _) as t) => complete cfg s g t ROk false
      | Some (CxSleep call st n ms) =>
        if negb (ct_state_eqb st CtAwaitDisconnect) then (s, []) else
        (* stopTimer; startSleep (which records that the transaction is sleeping: a repeated
           DISCONNECT does not restart the sleep) *)
        let s := c_disarm s g in
        (c_arm (c_set_state (c_set_obj s g (CxSleep call CtSleeping n ms)) Asleep) (CtmSleepWake g) ms, [])
      | _ => (s, [])
      end
    end
  | WillTopicReq =>
    match c_send s (WillTopic (k_wqos cfg) (k_wretain cfg) (k_will cfg)) with (o, true) => (s, o) | (o, false) => loop_err s o end
  | WillMsgReq =>
    match c_send s (WillMsg (k_wmsg cfg)) with (o, true) => (s, o) | (o, false) => loop_err s o end
  | Pingresp =>
    match c_get_type s TY_PINGREQ with
    | Some (g, (CxRetry _ 5 _ _ _ _ _) as t) => complete cfg s g t ROk false
    | Some _ => (s, [])
    | None =>
      match c_get_type s TY_DISCONNECT with
      | Some (g, (CxSleep _ st _ _) as t) =>
        if ct_state_eqb st CtAwaitPingresp then complete cfg s g t ROk false else (s, [])
      | _ => (s, [])
      end
    end
  | _ => loop_err s []                            (* "unhandled MQTT-SN packet" *)
  end.

(* ------------------------------------------------------------------ timers *)

Definition c_set_dup (p : packet) : packet :=
  match p with
  | Publish _ q r tit tid mid d => Publish true q r tit tid mid d
  | Subscribe _ q tit mid tid n => Subscribe true q tit mid tid n
  | _ => p
  end.

Definition c_fire (cfg : cl_cfg) (s : cl_state) (k : ctimer_kind) : CR :=
  match k with
  | CtmConnect g =>
    match cl_objs s !! g with
    | Some ((CxConnect _ _) as t) => complete cfg s g t RTimeout false
    | _ => (s, [])
    end
  | CtmRetry g =>
    match cl_objs s !! g with
    | Some ((CxRetry call kind key st data n sub) as t) =>
      if k_rcount cfg <? n + 1 then complete cfg s g t RNoRetries false else
      (* the retry callback: PUBLISH and SUBSCRIBE are re-sent with DUP *)
      let data' := if (kind =? 1) || (kind =? 3) || (kind =? 4) then c_set_dup data else data in
      let s := c_set_obj s g (CxRetry call kind key st data' (n + 1) sub) in
      match c_send s data' with
      | (o, true) => (c_arm s (CtmRetry g) (k_rdelay cfg), o)
      | (o, false) => complete cfg s g (CxRetry call kind key st data' (n + 1) sub) RInvalid false
      end
    | _ => (s, [])
    end
  | CtmSleepResend g =>
    match cl_objs s !! g with
    | Some ((CxSleep call st n ms) as t) =>
      if k_rcount cfg <? n + 1 then complete cfg s g t RNoRetries false else
      let s := c_set_obj s g (CxSleep call st (n + 1) ms) in
      match c_send s (Disconnect (u16 (ms / 1000))) with
      | (o, true) => (c_arm s (CtmSleepResend g) (k_rdelay cfg), o)
      | (o, false) => complete cfg s g (CxSleep call st (n + 1) ms) RInvalid false
      end
    | _ => (s, [])
    end
  | CtmSleepWake g =>
    match cl_objs s !! g with
    | Some ((CxSleep call st n ms) as t) =>
      let s := c_set_obj (c_set_state s Awake) g (CxSleep call CtAwaitPingresp n ms) in
      match c_send s (Pingreq (k_cid cfg)) with
      | (o, true) => (c_arm s (CtmSleepPingresp g) maxPingrespWait, o)
      | (o, false) => complete cfg s g (CxSleep call CtAwaitPingresp n ms) RInvalid false
      end
    | _ => (s, [])
    end
  | CtmSleepPingresp g =>
    match cl_objs s !! g with
    | Some ((CxSleep _ _ _ _) as t) => complete cfg s g t RTimeout false   (* "did not receive PINGRESP" *)
    | _ => (s, [])
    end
  end.

Definition c_earlier (a b : ctimer) : bool :=
  (ctm_at a <? ctm_at b) || ((ctm_at a =? ctm_at b) && (ctm_seq a <=? ctm_seq b)).
Fixpoint c_min_timer (l : list ctimer) : option ctimer :=
  match l with
  | [] => None
  | t :: l' => match c_min_timer l' with
               | Some u => if c_earlier t u then Some t else Some u
               | None => Some t
               end
  end.

(* everything blocked on the group returns when the group is done *)
Definition waiting_call (t : ctxn) : list N :=
  match t with
  | CxConnect call _ => [call]
  | CxRetry call kind _ _ _ _ _ => if (kind =? 6) || (kind =? 7) then [] else [call]   (* Disconnect returns Wait(): see below *)
  | CxSleep call _ _ _ => [call]
  | CxBrokerPub2 _ _ => []
  end.
Definition disconnect_call (t : ctxn) : list N :=
  match t with CxRetry call 6 _ _ _ _ _ | CxRetry call 7 _ _ _ _ _ => [call] | _ => [] end.

(* the group is done: every API call still blocked returns the error that terminated the client,
   or ErrTerminated (RCancelled) after a clean termination; a blocked Disconnect returns Wait() *)
Definition c_exit (s : cl_state) (t : N) : CR :=
  let objs := map snd (map_to_list (cl_objs s)) in
  let calls := (objs ≫= txn_call) ++ cl_waiting_group s in
  let rets := calls ≫= (fun c => if c mod 2 =? 0 then [CoRet t (c / 2) RCancelled]
                                 else [CoRet t (c / 2) (if cl_group_err s then RCancelled else ROk)]) in
  (* the sleep transaction's timers are plain time.AfterFunc timers: they keep firing *)
  let s := s <| cl_now := t |> <| cl_exited := true |> <| cl_waiting_group := [] |> in
  (s, CoExit t :: rets).

Fixpoint c_run_timers (fuel : nat) (cfg : cl_cfg) (s : cl_state) (t : N) : CR :=
  match fuel with
  | O => (s, [])
  | S fuel' =>
    let exit_at := if cl_exited s then None else cl_cancelled s in
    match c_min_timer (cl_timers s) with
    | Some tm =>
      let due := ctm_at tm <=? t in
      let before_exit := match exit_at with Some te => ctm_at tm <? te | None => true end in
      if due && before_exit then
        let s := s <| cl_now := ctm_at tm |>
                   <| cl_timers := List.filter (fun u => negb (ctm_seq u =? ctm_seq tm)) (cl_timers s) |> in
        match c_fire cfg s (ctm_kind tm) with
        | (s', o) => match c_run_timers fuel' cfg s' t with (s'', o') => (s'', o ++ o') end
        end
      else match exit_at with
           | Some te =>
             if te <=? t then
               match c_exit s te with
               | (s1, o1) => match c_run_timers fuel' cfg s1 t with (s2, o2) => (s2, o1 ++ o2) end
               end
             else (s, [])
           | None => (s, [])
           end
    | None =>
      match exit_at with
      | Some te => if te <=? t then c_exit s te else (s, [])
      | None => (s, [])
      end
    end
  end.

Definition c_advance_fuel (cfg : cl_cfg) (s : cl_state) (d : N) : nat :=
  N.to_nat (N.min 100000 (4 + (N.of_nat (length (cl_timers s)) + 1) * (3 + d / N.max 1 (N.min (k_rdelay cfg) (k_ctimeout cfg))))).

(* ------------------------------------------------------------------ the step *)

Definition cl_step (cfg : cl_cfg) (s : cl_state) (ev : cl_event) : CR :=
  match ev with
  | CAdv d =>
    let t := cl_now s + d in
    match c_run_timers (c_advance_fuel cfg s d) cfg s t with
    | (s', o) => (s' <| cl_now := t |>, o)
    end
  | _ =>
  if cl_exited s then (s, [])          (* calls and datagrams on a dead client are not modelled *)
  else
  match ev with
  | CAdv _ => (s, [])
  | CCall id a =>
    match cl_cancelled s with
    | Some _ => (s, [])
    | None =>
      match do_call cfg s id a with
      | (s', o) =>
        (* a cancellation that takes effect at this very instant (Close on a disconnected client) *)
        match cl_cancelled s' with
        | Some te => if te <=? cl_now s' then match c_exit s' te with (s'', o') => (s'', o ++ o') end else (s', o)
        | None => (s', o)
        end
      end
    end
  | CGw dg =>
    match cl_cancelled s with
    | Some _ => (s, [])
    | None =>
      let s := s <| cl_last_read := cl_now s |> in
      match read_dgram dg with
      | Ok p =>
        match handle_packet cfg s p with
        | (s', o) =>
          match cl_cancelled s' with
          | Some te => if te <=? cl_now s' then match c_exit s' te with (s'', o') => (s'', o ++ o') end else (s', o)
          | None => (s', o)
          end
        end
      | _ =>
        match c_exit (c_cancel_from_loop s true) (cl_now s) with (s', o) => (s', o) end
      end
    end
  end
  end.

Fixpoint cl_run (cfg : cl_cfg) (s : cl_state) (evs : list cl_event) : list (list cl_out) * cl_state :=
  match evs with
  | [] => ([], s)
  | ev :: evs' =>
    match cl_step cfg s ev with
    | (s', o) => match cl_run cfg s' evs' with (os, s'') => (o :: os, s'') end
    end
  end.
