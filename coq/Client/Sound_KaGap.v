(* Client/Sound_KaGap.v — C33 clause 1 (the gap clause of the keep-alive monitor, Checkers/ChkCl4.v): inside the
   sequential model of the keep-alive loop (Client/ClKeepalive.v) the monitor never reports (33,1).

     kmon_gap_sound : wf_cl_cfg cfg -> 0 < k_keepalive cfg ->
       ka_modelled cfg ka_init evs = true ->
       ka_run_allb cfg ka_user_ok ka_init evs = true ->
       ka_run_allb cfg (ka_clock_ok cfg) ka_init evs = true ->
       forall pc, In pc (kmon_run cfg ka_init kmon_init evs) -> pc <> (33, 1).

   Side conditions (executable, folded over the history by ka_run_allb):
     ka_modelled   the history stays inside the sequential model (ka_excl is never set);
     ka_user_ok    the identifier of an API call is below INTERNAL and is not the identifier of a pending call (cl_fresh);
     ka_clock_ok   in every sub-step of an advance (every cl_step (CAdv _) inside ka_advance, mirrored by ka_advance_ok) the
                   client's clock is not stuck (Sound_ClTimed.adv_ok: c_run_timers did not run out of fuel).

   The monitor this is proved for keeps, in a step in which the group is cancelled, only the marks that are at least
   readTimeout before the exit time (mark_time + readTimeout <= te).  With the former filter (mark_time <= te) the statement
   was false (found while testing it; KeepAlive 1 s, RetryDelay 700, RetryCount 1, history gap_cex below): the loop's ping
   fails at 2430, the group is cancelled with exit time 3030, and the wake-up timer of a sleep transaction left over from
   an earlier Sleep fires at 2820 (PINGREQ with client ID, state Awake), 1090 ms after the last PINGREQ: (33,1), while the
   same history with the advance split in two was accepted.  gap_cex_now_accepted: the repaired monitor accepts it.

   Structure of the proof
     1-2  marks at one instant (sa, fold_at) and the marks of a list of outputs;
     3    the invariant: BaseX (invariants of the client state, bound on the call identifiers, and about the loop:
          done -> cancelled; ticker running while active; busy with an empty channel -> active; a change in the channel
          is not "active"; next tick <= now + KeepAlive) and LiveInv k since (while the client is alive and
          km_since = Some s0: the client is active, with no tick pending the next tick is at most s0 + KeepAlive - the
          "idle half" -, and while the loop is inside its ping its transaction object exists with exactly one retry
          timer, due at most s0 + RetryDelay - the "busy half", from the frame lemmas of Sound_KaGap_aux.v);
          absorb_mine / settle_mine / do_mine / do_dead: one event of the client at an instant; tick_mine: the tick;
          advance_dead / advance_live: induction over ka_advance (every sub-step happens at one instant, the instants
          do not decrease: the marks are emitted in time order, so merge_marks agrees with the emission order,
          Sound_KaGap_aux.merge_fold_all / merge_fold_filter);
          step_gap: one step of the wrapper next to the monitor (gap_part = the clause-1 part of kmon_step);
     4    all histories: kmon_gap_invariant (GInv after every prefix), kmon_gap_sound. *)
From stdpp Require Import base option list numbers fin_maps nmap.
From Coq Require Import Lia ZArith ZifyN ZifyNat ZifyBool.
From RecordUpdate Require Import RecordSet.
From Verif.Base Require Import Bytes.
From Verif.Codec Require Import Packets Decode Encode.
From Verif.Topics Require Import Predefined.
From Verif.Gateway Require Import GwTypes.
From Verif.Match Require Import Match.
From Verif.Client Require Import ClTypes ClStep ClKeepalive Sound_Client_aux Sound_Client Sound_ClTimed_aux Sound_ClTimed Sound_Ka_aux Sound_Ka Sound_KaGap_aux.
From Verif.Checkers Require Import ChkCl4.
Import RecordSetNotations.
Open Scope N_scope.
Ltac Zify.zify_post_hook ::= Z.div_mod_to_equations.

(* ================================================================== 1. marks at one instant *)
Definition marks_at (T : N) (E : list mark) : Prop := forall m, In m E -> mark_time m = T.
(* km_since after marks that are all at the instant T *)
Fixpoint sa (T : N) (since : option N) (E : list mark) : option N :=
  match E with
  | [] => since
  | MkPing _ :: r => sa T (match since with Some _ => Some T | None => None end) r
  | MkChg _ st :: r => sa T (if cstate_eqb st Active then Some T else None) r
  end.

Lemma marks_at_nil T : marks_at T []. Proof. intros m []. Qed.
Lemma marks_at_app T a b : marks_at T a -> marks_at T b -> marks_at T (a ++ b).
Proof. intros Ha Hb m H. apply in_app_or in H. destruct H; [apply Ha|apply Hb]; assumption. Qed.
Lemma marks_at_sorted T E : marks_at T E -> tsorted E.
Proof.
  induction E as [|x E IH]; intros H; [exact I|]. cbn [tsorted]. split.
  - intros y Hy. rewrite (H x ltac:(left; reflexivity)), (H y ltac:(right; exact Hy)). lia.
  - apply IH. intros m Hm. apply H. right. exact Hm.
Qed.

Lemma fold_at b T E : forall since, marks_at T E -> (forall s0, since = Some s0 -> s0 <= T /\ T - s0 <= b) ->
  fold_left (gap_step b) E (since, []) = (sa T since E, []).
Proof.
  induction E as [|m E IH]; intros since Hat Hc; [reflexivity|]. cbn [fold_left].
  assert (Hat' : marks_at T E) by (intros x Hx; apply Hat; right; exact Hx).
  pose proof (Hat m ltac:(left; reflexivity)) as Hm.
  destruct m as [t|t st]; cbn [mark_time] in Hm; subst t; cbn [gap_step sa].
  - destruct since as [s0|].
    + destruct (Hc s0 eq_refl) as [H1 H2]. assert (E1 : (b <? T - s0) = false) by (apply N.ltb_ge; lia). rewrite E1. cbn [app].
      apply IH; [exact Hat'|]. intros s1 E2. injection E2 as <-. lia.
    + apply IH; [exact Hat'|]. intros s1 E2. discriminate E2.
  - assert (E1 : match since with Some s0 => if b <? T - s0 then [(33, 1)] else [] | None => [] end = []).
    { destruct since as [s0|]; [|reflexivity]. destruct (Hc s0 eq_refl) as [H1 H2].
      assert (E1 : (b <? T - s0) = false) by (apply N.ltb_ge; lia). rewrite E1. reflexivity. }
    rewrite E1. cbn [app]. apply IH; [exact Hat'|]. intros s1 E2. destruct (cstate_eqb st Active); [|discriminate E2]. injection E2 as <-. lia.
Qed.

Lemma sa_app T E1 : forall since E2, sa T since (E1 ++ E2) = sa T (sa T since E1) E2.
Proof. induction E1 as [|m E1 IH]; intros since E2; [reflexivity|]. destruct m; cbn [app sa]; apply IH. Qed.

Definition all_pings (E : list mark) : Prop := forall m, In m E -> is_ping m = true.
Lemma sa_pings T E : forall since, all_pings E ->
  sa T since E = match since with Some s0 => if match E with [] => true | _ => false end then Some s0 else Some T | None => None end.
Proof.
  induction E as [|m E IH]; intros since H; [destruct since; reflexivity|].
  assert (H' : all_pings E) by (intros x Hx; apply H; right; exact Hx).
  pose proof (H m ltac:(left; reflexivity)) as Hm. destruct m as [t|t st]; [|discriminate Hm]. cbn [sa]. rewrite (IH _ H').
  destruct since; [|reflexivity]. destruct E; reflexivity.
Qed.
Lemma sa_none_pings T E : all_pings E -> sa T None E = None.
Proof. intros H. rewrite (sa_pings T E None H). reflexivity. Qed.

(* from None, marks without a change to "active" leave None and never fail *)
Definition no_act (E : list mark) : Prop := forall t, ~ In (MkChg t Active) E.
Lemma fold_none b E : no_act E -> fold_left (gap_step b) E (None, []) = (None, []).
Proof.
  induction E as [|m E IH]; intros H; [reflexivity|]. cbn [fold_left].
  assert (H' : no_act E) by (intros t Ht; apply (H t); right; exact Ht).
  destruct m as [t|t st]; cbn [gap_step]; [apply IH, H'|].
  destruct st; cbn [cstate_eqb app]; try (apply IH, H'). exfalso. apply (H t). left. reflexivity.
Qed.

(* ================================================================== 2. the marks of outputs *)
Lemma pingreq_kind_ping0 : pingreq_kind (pack (Pingreq [])) = 1.
Proof. vm_compute. reflexivity. Qed.

Lemma emarks_cl xs : forall m, In m (emarks (map KoCl xs)) -> exists t dg, m = MkPing t /\ In (CoSn t dg) xs.
Proof.
  induction xs as [|x xs IH]; intros m H; [destruct H|]. cbn [map] in H. rewrite emarks_cons in H. apply in_app_or in H.
  destruct H as [H|H].
  - destruct x as [t dg|t id r|t sub tp pl q rt dp mid|t]; cbn [emark] in H; try destruct H.
    destruct (0 <? pingreq_kind dg); [|destruct H]. destruct H as [<-|[]]. exists t, dg. split; [reflexivity|left; reflexivity].
  - destruct (IH m H) as (t & dg & E & Hi). exists t, dg. split; [exact E|right; exact Hi].
Qed.
Lemma emarks_cl_pings xs : all_pings (emarks (map KoCl xs)).
Proof. intros m H. destruct (emarks_cl xs m H) as (t & dg & -> & _). reflexivity. Qed.
Lemma in_user_outs_sn os t dg : In (CoSn t dg) (user_outs os) <-> In (CoSn t dg) os.
Proof. unfold user_outs. rewrite filter_In. split; [intros [H _]; exact H|intros H; split; [exact H|reflexivity]]. Qed.
Lemma emarks_cl_at T os : sn_at T os -> marks_at T (emarks (map KoCl (user_outs os))).
Proof.
  intros H m Hm. destruct (emarks_cl _ m Hm) as (t & dg & -> & Hi). apply (proj1 (in_user_outs_sn _ _ _)) in Hi. cbn. eapply H, Hi.
Qed.
Lemma emarks_cl_ping T os : ping_at T os -> emarks (map KoCl (user_outs os)) <> [].
Proof.
  unfold ping_at. intros H. apply (proj2 (in_user_outs_sn _ _ _)) in H. induction (user_outs os) as [|x xs IH]; [destruct H|].
  cbn [map]. rewrite emarks_cons. destruct H as [->|H].
  - cbn [emark]. rewrite pingreq_kind_ping0. cbn. discriminate.
  - intros E. apply app_eq_nil in E. destruct E as [_ E]. exact (IH H E).
Qed.
Lemma no_act_cl xs : no_act (emarks (map KoCl xs)).
Proof. intros t H. destruct (emarks_cl xs _ H) as (t' & dg & E & _). discriminate E. Qed.

(* ================================================================== 3. the invariant *)
Record BaseCl (B : N) (s : cl_state) : Prop := {
  bc_si : SI s; bc_k : K (fun _ => True) s; bc_ia : InvA false s; bc_cb : CB B s }.

(* side condition: the clock of the client is not stuck in any sub-step of an advance (Sound_ClTimed.adv_ok) *)
Fixpoint ka_advance_ok (fuel : nat) (cfg : cl_cfg) (k : ka_state) (target : N) : bool :=
  match fuel with
  | O => true
  | S f =>
    let now := cl_now (ka_cl k) in
    let tk := if ka_done k then None else ka_next k in
    let tc := cl_deadline (ka_cl k) in
    let ok_cl (t : N) := adv_ok cfg (ka_cl k) (CAdv (t - now)) in
    let go_cl (t : N) := ka_do cfg k (CAdv (t - now)) in
    match tk, tc with
    | Some t, _ =>
      let cl_first := match tc with Some c => c <=? t | None => false end in
      if cl_first then
        match tc with
        | Some c =>
          if target <? c then ok_cl target else
          ok_cl c &&
          (let '(k1, o1) := go_cl c in
           let k1 := if c =? t then k1 <| ka_excl := true |> else k1 in
           ka_advance_ok f cfg k1 target)
        | None => true
        end
      else
        if target <? t then ok_cl target else
        ok_cl t &&
        (let '(k1, o1) := ka_absorb cfg k (cl_step cfg (ka_cl k) (CAdv (t - now))) in
         let k1 := k1 <| ka_next := Some (t + ka_period cfg) |> in
         let '(k2, o2) := if is_some (ka_busy k1) then (k1 <| ka_tick := true |>, [])
                          else ka_settle 4 cfg (k1 <| ka_tick := true |>) in
         ka_advance_ok f cfg k2 target)
    | None, Some c =>
      if target <? c then ok_cl target else
      ok_cl c && (let '(k1, o1) := go_cl c in ka_advance_ok f cfg k1 target)
    | None, None => ok_cl target
    end
  end.

Definition ka_clock_ok (cfg : cl_cfg) (k : ka_state) (ev : cl_event) : bool :=
  match ev with CAdv d => ka_advance_ok (ka_fuel cfg k d) cfg k (cl_now (ka_cl k) + d) | _ => true end.

(* the part of kmon_step that computes clause 1 *)
Definition gap_part (cfg : cl_cfg) (k k' : ka_state) (mouts : list ka_out) (ev : cl_event) (m : kmon) : option N * list (N * N) :=
  let t1 := match ev with CAdv d => cl_now (ka_cl k) + d | _ => cl_now (ka_cl k) end in
  let pings := mon_pings (ko_cl mouts) in
  let chs := ko_changes mouts in
  let marks := merge_marks (length pings + length chs) pings (mon_chgs mouts) in
  let marks := match cl_cancelled (ka_cl k') with
               | Some te => List.filter (fun mk => mark_time mk + readTimeout <=? te) marks
               | None => marks end in
  let '(since, f1) := fold_left (gap_step (ka_bound cfg)) marks (km_since m, []) in
  let alive := negb (is_some (cl_cancelled (ka_cl k'))) && negb (cl_exited (ka_cl k')) in
  if negb alive then (None, f1) else
  match since with
  | Some s0 => if ka_bound cfg <? t1 - s0 then (Some t1, f1 ++ [(33, 1)]) else (since, f1)
  | None => (None, f1)
  end.

Lemma kmon_step_eq cfg k k' o ev m : (k_keepalive cfg =? 0) = false ->
  exists f23, kmon_step cfg k k' o ev (ko_cl o) m = ({| km_since := fst (gap_part cfg k k' o ev m) |}, snd (gap_part cfg k k' o ev m) ++ f23) /\
              forall pc, In pc f23 -> pc <> (33, 1).
Proof.
  intros Hnz. unfold kmon_step, gap_part. rewrite Hnz. cbv zeta.
  change (map (fun c : N * cstate => MkChg (fst c) (snd c)) (ko_changes o)) with (mon_chgs o).
  change ((ko_cl o ≫= (fun o0 : cl_out => match o0 with CoSn t dg => [(t, dg)] | _ => [] end)) ≫=
          (fun td : N * bytes => if 0 <? pingreq_kind (snd td) then [MkPing (fst td)] else [])) with (mon_pings (ko_cl o)).
  match goal with |- context [fold_left ?g ?l ?a] => destruct (fold_left g l a) as [since f1] end.
  match goal with |- context [if negb ?a then _ else _] => destruct (if negb a then (None, f1) else
      match since with Some s0 => if ka_bound cfg <? match ev with CAdv d => cl_now (ka_cl k) + d | _ => cl_now (ka_cl k) end - s0
                                  then (Some match ev with CAdv d => cl_now (ka_cl k) + d | _ => cl_now (ka_cl k) end, f1 ++ [(33, 1)]) else (since, f1)
                       | None => (None, f1) end) as [since' f1'] end.
  cbn [fst snd]. eexists. split; [reflexivity|].
  intros pc Hi. apply in_app_or in Hi. destruct Hi as [Hi|Hi].
  - apply elem_of_list_In, elem_of_list_bind in Hi. destruct Hi as (td & Hi & _).
    match type of Hi with pc ∈ (if ?c then _ else _) => destruct c end; apply elem_of_list_In in Hi; [destruct Hi as [<-|[]]; discriminate|destruct Hi].
  - apply elem_of_list_In, elem_of_list_bind in Hi. destruct Hi as (x & Hi & _). destruct x; try (apply elem_of_list_In in Hi; destruct Hi).
    match type of Hi with pc ∈ (if ?c then _ else _) => destruct c end; apply elem_of_list_In in Hi; [destruct Hi as [<-|[]]; discriminate|destruct Hi].
Qed.

Lemma merge_in fuel : forall a b m, In m (merge_marks fuel a b) -> In m a \/ In m b.
Proof.
  induction fuel as [|fuel IH]; intros a b m H; [apply in_app_or, H|]. cbn [merge_marks] in H.
  destruct a as [|x a']; [right; exact H|]. destruct b as [|y b']; [left; exact H|].
  destruct (mark_time y <=? mark_time x).
  - destruct H as [<-|H]; [right; left; reflexivity|]. destruct (IH _ _ _ H) as [H1|H1]; [left; exact H1|right; right; exact H1].
  - destruct H as [<-|H]; [left; left; reflexivity|]. destruct (IH _ _ _ H) as [H1|H1]; [left; right; exact H1|right; exact H1].
Qed.

Definition tfilter (te : N) (mk : mark) : bool := mark_time mk + readTimeout <=? te.
Lemma tfilter_dclosed te : dclosed (tfilter te).
Proof. intros x y Hle H. unfold tfilter in *. apply N.leb_le in H. apply N.leb_le. lia. Qed.

Section Gap.
Variable cfg : cl_cfg.
Hypothesis Hcfg : wf_cl_cfg cfg.
Hypothesis Hka : 0 < k_keepalive cfg.

Record BaseX (k : ka_state) : Prop := {
  bx_cl : BaseCl (INTERNAL + ka_count k) (ka_cl k);
  bx_d1 : ka_done k = true -> cl_cancelled (ka_cl k) <> None;
  bx_x1 : ka_done k = false -> ka_chan k = None -> ka_seen k = Active -> ka_next k <> None;
  bx_x2 : ka_done k = false -> ka_busy k <> None -> ka_chan k = None -> ka_seen k = Active;
  bx_x3 : ka_done k = false -> forall st, ka_chan k = Some st -> st <> Active;
  bx_t1 : ka_done k = false -> forall t, ka_next k = Some t -> t <= cl_now (ka_cl k) + ka_period cfg }.

Definition LiveInv (k : ka_state) (since : option N) : Prop :=
  forall s0, since = Some s0 ->
    ka_seen k = Active /\ s0 <= cl_now (ka_cl k) /\
    (ka_tick k = false -> forall t, ka_next k = Some t -> t <= s0 + ka_period cfg) /\
    (forall b, ka_busy k = Some b -> exists g n tm, LO b g n tm (ka_cl k) /\ ctm_at tm <= s0 + k_rdelay cfg).

Lemma LiveInv_none k : LiveInv k None.
Proof. intros s0 E. discriminate E. Qed.

Lemma alive_not_done k : BaseX k -> cl_cancelled (ka_cl k) = None -> ka_done k = false.
Proof. intros HB Ha. destruct (ka_done k) eqn:E; [|reflexivity]. destruct (bx_d1 k HB E Ha). Qed.

Lemma LO_timer b g n tm s : LO b g n tm s -> In tm (cl_timers s).
Proof. intros (_ & H & _). assert (Hi : In tm (tmr s g)) by (rewrite H; left; reflexivity). apply tmr_in in Hi. apply Hi. Qed.

Lemma covered k since T : KInv cfg k -> BaseX k -> cl_cancelled (ka_cl k) = None -> LiveInv k since ->
  (forall tm, In tm (cl_timers (ka_cl k)) -> T <= ctm_at tm) -> (forall t, ka_next k = Some t -> T <= t) -> cl_now (ka_cl k) <= T ->
  forall s0, since = Some s0 -> s0 <= T /\ T - s0 <= ka_bound cfg.
Proof.
  intros [HK Hset] HB Ha HL Htm Hnx Hnow s0 Es.
  pose proof (alive_not_done k HB Ha) as Hd. destruct (HL s0 Es) as (L1 & L2 & L3 & L4).
  split; [lia|]. unfold ka_bound. destruct (ka_busy k) as [b|] eqn:Eb.
  - destruct (L4 b eq_refl) as (g & n & tm & Hlo & Hle). pose proof (Htm tm (LO_timer _ _ _ _ _ Hlo)). lia.
  - destruct (Hset Hd Eb) as [Hc Ht]. destruct (ka_next k) as [t|] eqn:En; [|destruct (bx_x1 k HB Hd Hc L1 En)].
    pose proof (Hnx t eq_refl). pose proof (L3 Ht t eq_refl). lia.
Qed.

(* ------------------------------------------------------------------ ka_absorb *)
Lemma internal_ret_none b os : internal_ret (Some b) os = None -> ~ retb b os.
Proof.
  unfold internal_ret. intros H (t & r & Hi).
  assert (Hin : In r (os ≫= (fun o => match o with CoRet _ id r => if id =? b then [r] else [] | _ => [] end))).
  { apply elem_of_list_In, elem_of_list_bind. exists (CoRet t b r). split; [|apply elem_of_list_In, Hi]. rewrite N.eqb_refl. left. }
  destruct (os ≫= _) as [|x l]; [destruct Hin|discriminate H].
Qed.
Lemma internal_ret_busy busy os r : internal_ret busy os = Some r -> exists b, busy = Some b.
Proof. destruct busy as [b|]; [intros _; exists b; reflexivity|intros H; discriminate H]. Qed.
Lemma internal_ret_rc busy os : internal_ret busy os = Some RCancelled -> rcancd os.
Proof. intros H. destruct (internal_ret_busy _ _ _ H) as [b ->]. destruct (internal_ret_in _ _ _ H) as [t Hi]. exists t, b. exact Hi. Qed.

Definition fail_cl (s' : cl_state) : cl_state := c_cancel_from_api s' <| cl_group_err := true |>.

Lemma ab12_cases k s' os : (rcancd os -> canc s') ->
  (cl_cancelled s' = None /\
   ((internal_ret (ka_busy k) os = None /\ ab2 (ab1 k s' os) = k <| ka_cl := s' |>) \/
    (internal_ret (ka_busy k) os = Some ROk /\ ab2 (ab1 k s' os) = k <| ka_cl := s' |> <| ka_busy := None |>))) \/
  (ka_done (ab2 (ab1 k s' os)) = true /\ cl_cancelled (ka_cl (ab2 (ab1 k s' os))) <> None /\
   (ka_cl (ab2 (ab1 k s' os)) = s' \/ (cl_cancelled s' = None /\ ka_cl (ab2 (ab1 k s' os)) = fail_cl s')) /\
   ka_seen (ab2 (ab1 k s' os)) = ka_seen k /\ ka_count (ab2 (ab1 k s' os)) = ka_count k /\ ka_excl (ab2 (ab1 k s' os)) = ka_excl k).
Proof.
  intros Hrc. unfold ab1. cbv zeta. change (ka_busy (k <| ka_cl := s' |>)) with (ka_busy k).
  assert (Hfail : cl_cancelled (fail_cl s') <> None).
  { unfold fail_cl. change (cl_cancelled (c_cancel_from_api s' <| cl_group_err := true |>)) with (cl_cancelled (c_cancel_from_api s')). apply canc_api. }
  assert (Hdead : forall kx, cl_cancelled (ka_cl kx) <> None ->
     ka_done (ab2 kx) = true /\ cl_cancelled (ka_cl (ab2 kx)) <> None /\ ka_cl (ab2 kx) = ka_cl kx /\ ka_seen (ab2 kx) = ka_seen kx /\
     ka_count (ab2 kx) = ka_count kx /\ ka_excl (ab2 kx) = ka_excl kx).
  { intros kx H. unfold ab2. destruct (cl_cancelled (ka_cl kx)) eqn:E; [|destruct (H eq_refl)]. cbn. rewrite E. repeat split; discriminate. }
  assert (Hfailcase : forall kx, ka_cl kx = ab_fail s' -> ka_seen kx = ka_seen k -> ka_count kx = ka_count k -> ka_excl kx = ka_excl k ->
     ka_done (ab2 kx) = true /\ cl_cancelled (ka_cl (ab2 kx)) <> None /\
     (ka_cl (ab2 kx) = s' \/ (cl_cancelled s' = None /\ ka_cl (ab2 kx) = fail_cl s')) /\
     ka_seen (ab2 kx) = ka_seen k /\ ka_count (ab2 kx) = ka_count k /\ ka_excl (ab2 kx) = ka_excl k).
  { intros kx E1 E2 E3 E4.
    assert (Hc : cl_cancelled (ka_cl kx) <> None).
    { rewrite E1. unfold ab_fail. destruct (cl_cancelled s') eqn:Ec; [rewrite Ec; discriminate|exact Hfail]. }
    destruct (Hdead kx Hc) as (D1 & D2 & D3 & D4 & D5 & D6). split; [exact D1|]. split; [exact D2|]. split; [|repeat split; congruence].
    rewrite D3, E1. unfold ab_fail. destruct (cl_cancelled s') eqn:Ec; [left; reflexivity|right; split; reflexivity]. }
  destruct (internal_ret (ka_busy k) os) as [r|] eqn:Ei.
  - destruct r;
      try (right; apply Hfailcase; reflexivity).
    + (* ROk *)
      destruct (cl_cancelled s') eqn:Ec.
      * right. destruct (Hdead (k <| ka_cl := s' |> <| ka_busy := None |>)) as (D1 & D2 & D3 & D4 & D5 & D6); [cbn; rewrite Ec; discriminate|].
        split; [exact D1|]. split; [exact D2|]. split; [left; exact D3|]. repeat split; assumption.
      * left. split; [reflexivity|]. right. split; [reflexivity|]. unfold ab2. cbn. rewrite Ec. reflexivity.
    + (* RCancelled *)
      right. pose proof (Hrc (internal_ret_rc _ _ Ei)) as Hc.
      destruct (Hdead (k <| ka_cl := s' |> <| ka_busy := None |> <| ka_done := true |>)) as (D1 & D2 & D3 & D4 & D5 & D6); [exact Hc|].
      split; [exact D1|]. split; [exact D2|]. split; [left; exact D3|]. repeat split; assumption.
  - destruct (cl_cancelled s') eqn:Ec.
    + right. destruct (Hdead (k <| ka_cl := s' |>)) as (D1 & D2 & D3 & D4 & D5 & D6); [cbn; rewrite Ec; discriminate|].
      split; [exact D1|]. split; [exact D2|]. split; [left; exact D3|]. repeat split; assumption.
    + left. split; [reflexivity|]. left. split; [reflexivity|]. unfold ab2. cbn. rewrite Ec. reflexivity.
Qed.

Lemma ab3_done k st : ka_done k = true -> ab3 cfg k st = k <| ka_seen := st |>.
Proof. intros H. unfold ab3. cbv zeta. cbn [ka_done]. change (ka_done (k <| ka_seen := st |>)) with (ka_done k). rewrite H. reflexivity. Qed.

Lemma BaseCl_fail B s' : BaseCl B s' -> cl_cancelled s' = None -> BaseCl B (fail_cl s').
Proof.
  intros [H1 H2 H3 H4] Hc. destruct (cancel_api_facts s' Hc H1) as (F1 & F2 & _). unfold fail_cl. split.
  - eapply SI_ext; [|exact F1]. reflexivity.
  - apply (K_frame _ (c_cancel_from_api s')); [reflexivity|reflexivity|apply K_cancel_api, H2].
  - apply (invA_frame false (c_cancel_from_api s')); [reflexivity|reflexivity|reflexivity|apply invA_cancel_api, H3].
  - eapply CB_ext; [|apply CB_cancel_api, H4]. reflexivity.
Qed.

Lemma fail_cl_te s' te : SI s' -> cl_cancelled s' = None -> cl_cancelled (fail_cl s') = Some te -> te <= cl_now s' + readTimeout.
Proof.
  intros Hsi Hc. destruct (cancel_api_facts s' Hc Hsi) as (_ & _ & F & _). unfold fail_cl.
  change (cl_cancelled (c_cancel_from_api s' <| cl_group_err := true |>)) with (cl_cancelled (c_cancel_from_api s')). rewrite F.
  intros E. injection E as <-. pose proof (next_poll_bounds _ _ (si_lr s' Hsi)). lia.
Qed.

Lemma absorb_mine k since s' os T :
  KInv cfg k -> BaseX k -> cl_cancelled (ka_cl k) = None -> LiveInv k since ->
  BaseCl (INTERNAL + ka_count k) s' ->
  sn_at T os -> (rcancd os -> canc s') -> cl_now s' = T -> cl_now (ka_cl k) <= T ->
  (forall tm, In tm (cl_timers (ka_cl k)) -> T <= ctm_at tm) -> (forall t, ka_next k = Some t -> T <= t) ->
  (forall b g n tm, LO b g n tm (ka_cl k) ->
     (exists n' tm', LO b g n' tm' s' /\ (tm' = tm \/ (ping_at T os /\ ctm_at tm' = T + k_rdelay cfg))) \/ retb b os \/ canc s') ->
  (forall te, cl_cancelled s' = Some te -> te <= T + readTimeout) ->
  ka_excl (fst (ka_absorb cfg k (s', os))) = false ->
  KInv' (fst (ka_absorb cfg k (s', os))) /\ BaseX (fst (ka_absorb cfg k (s', os))) /\
  marks_at T (emarks (snd (ka_absorb cfg k (s', os)))) /\
  (forall s0, since = Some s0 -> s0 <= T /\ T - s0 <= ka_bound cfg) /\
  (forall te, cl_cancelled (ka_cl (fst (ka_absorb cfg k (s', os)))) = Some te -> te <= T + readTimeout) /\
  (cl_cancelled (ka_cl (fst (ka_absorb cfg k (s', os)))) = None ->
     LiveInv (fst (ka_absorb cfg k (s', os))) (sa T since (emarks (snd (ka_absorb cfg k (s', os))))) /\
     ka_done (fst (ka_absorb cfg k (s', os))) = false) /\
  cl_now (ka_cl (fst (ka_absorb cfg k (s', os)))) = T /\
  ka_count (fst (ka_absorb cfg k (s', os))) = ka_count k /\ ka_excl k = false /\
  (cl_cancelled (ka_cl (fst (ka_absorb cfg k (s', os)))) <> None ->
   ka_cl (fst (ka_absorb cfg k (s', os))) = s' \/ (cl_cancelled s' = None /\ ka_cl (fst (ka_absorb cfg k (s', os))) = fail_cl s')).
Proof.
  intros HK HB Ha HL Hcl Hsn Hrc Hnow HT Htm Hnx Hlk Hct.
  pose proof (alive_not_done k HB Ha) as Hd.
  pose proof (covered k since T HK HB Ha HL Htm Hnx HT) as Hcov.
  destruct HK as [HK' Hset].
  assert (Hnle : forall t, ka_done k = false -> ka_next k = Some t -> cl_now s' <= t) by (intros t _ Et; rewrite Hnow; apply Hnx, Et).
  pose proof (absorb_spec cfg Hka k s' os HK' Hnle) as A.
  assert (HP1 : marks_at T (emarks (map KoCl (user_outs os)))) by (apply emarks_cl_at, Hsn).
  rewrite absorb_eq in *. cbv zeta in *.
  destruct (ab12_cases k s' os Hrc) as [(Hc' & Hcase)|(D1 & D2 & D3 & D4 & D5 & D6)].
  - (* the client is alive after the step *)
    assert (Hk2 : exists bz, ab2 (ab1 k s' os) = k <| ka_cl := s' |> <| ka_busy := bz |> /\
                 (bz = ka_busy k /\ internal_ret (ka_busy k) os = None \/ bz = None)).
    { destruct Hcase as [[E1 E2]|[E1 E2]]; [exists (ka_busy k)|exists None]; rewrite E2; split; auto. }
    destruct Hk2 as (bz & Ek2 & Hbz). rewrite Ek2 in *. clear Ek2 Hcase.
    set (k2 := k <| ka_cl := s' |> <| ka_busy := bz |>) in *.
    change (ka_cl k2) with s' in *. change (ka_seen k2) with (ka_seen k) in *.
    (* the loop's object after the step, while the loop stays inside its ping *)
    assert (Hobj : forall b s0, bz = Some b -> since = Some s0 -> forall s1, s0 <= s1 -> s1 <= T ->
              (emarks (map KoCl (user_outs os)) <> [] -> s1 = T) ->
              exists g n tm, LO b g n tm s' /\ ctm_at tm <= s1 + k_rdelay cfg).
    { intros b s0 Eb Es s1 H01 H1T Hp. destruct Hbz as [[-> Hir]| ->]; [|discriminate Eb].
      destruct (HL s0 Es) as (_ & _ & _ & L4). destruct (L4 b Eb) as (g & n & tm & Hlo & Hle).
      destruct (Hlk b g n tm Hlo) as [(n' & tm' & Hlo' & Hor)|[Hr|Hcn]].
      - exists g, n', tm'. split; [exact Hlo'|]. destruct Hor as [->|[Hpa Hat]]; [lia|].
        rewrite (Hp (emarks_cl_ping T os Hpa)). lia.
      - rewrite Eb in Hir. destruct (internal_ret_none b os Hir Hr).
      - destruct (Hcn Hc'). }
    destruct (cstate_eqb (cl_st s') (ka_seen k)) eqn:Eq.
    + (* no state change *)
      cbn [fst snd] in *. intros Hx. destruct (A Hx) as (A1 & _).
      split; [exact A1|]. split.
      { split; try (intros Hdd; cbn in Hdd; congruence); cbn.
        - exact Hcl.
        - exact (bx_x1 k HB).
        - intros _ Hb. destruct Hbz as [[-> _]| ->]; [exact (bx_x2 k HB Hd Hb)|destruct (Hb eq_refl)].
        - exact (bx_x3 k HB).
        - intros _ t Et. pose proof (bx_t1 k HB Hd t Et). lia. }
      split; [exact HP1|]. split; [exact Hcov|]. split; [intros te E; cbn in E; congruence|]. split; [|split; [exact Hnow|split; [reflexivity|]]].
      2:{ destruct (A Hx) as (_ & _ & _ & _ & _ & A7 & _). split; [exact A7|]. intros Hn. destruct (Hn Hc'). }
      intros _. split; [|exact Hd].
      rewrite (sa_pings T _ since (emarks_cl_pings _)). intros s1 Es1.
      destruct since as [s0|]; [|discriminate Es1]. destruct (Hcov s0 eq_refl) as [C1 C2].
      destruct (HL s0 eq_refl) as (L1 & L2 & L3 & L4).
      assert (Hs1 : s0 <= s1 /\ s1 <= T /\ (emarks (map KoCl (user_outs os)) <> [] -> s1 = T)).
      { destruct (emarks (map KoCl (user_outs os))); injection Es1 as <-.
        - split; [lia|]. split; [lia|]. intros H. destruct (H eq_refl).
        - split; [lia|]. split; [lia|]. intros _. reflexivity. }
      destruct Hs1 as (S1 & S2 & S3). cbn.
      split; [exact L1|]. split; [lia|]. split.
      * intros Ht t Et. specialize (L3 Ht t Et). lia.
      * intros b Eb. exact (Hobj b s0 Eb eq_refl s1 S1 S2 S3).
    + (* a state change *)
      assert (Hne : cl_st s' <> ka_seen k) by (apply cstate_eqb_false, Eq).
      cbn [fst snd] in *. rewrite emarks_app. change (emarks [KoState (cl_now (ka_cl (ab3 cfg k2 (cl_st s')))) (cl_st s')])
        with [MkChg (cl_now (ka_cl (ab3 cfg k2 (cl_st s')))) (cl_st s')].
      intros Hx. destruct (A Hx) as (A1 & A2 & _ & _ & _ & A7 & _). rewrite A2.
      rewrite sa_app. cbn [sa].
      (* what ab3 does *)
      unfold ab3 in *. cbv zeta in *. cbn [ka_done ka_busy ka_chan] in *.
      change (ka_done (k2 <| ka_seen := cl_st s' |>)) with (ka_done k) in *. rewrite Hd, ka_nz in * by exact Hka. cbn [orb] in *.
      change (ka_busy (k2 <| ka_seen := cl_st s' |>)) with bz in *.
      change (ka_chan (k2 <| ka_seen := cl_st s' |>)) with (ka_chan k) in *.
      split; [exact A1|].
      assert (Hmk : marks_at T (emarks (map KoCl (user_outs os)) ++ [MkChg (cl_now s') (cl_st s')])).
      { apply marks_at_app; [exact HP1|]. intros m [<-|[]]. exact Hnow. }
      destruct bz as [b|] eqn:Ebz.
      * (* the loop is inside its ping: the change goes to the channel *)
        destruct Hbz as [[Ebk _]|Ebk]; [|discriminate Ebk].
        destruct (ka_chan k) as [c|] eqn:Ech; [cbn in Hx; discriminate Hx|].
        assert (Hact : ka_seen k = Active) by (apply (bx_x2 k HB Hd); [rewrite <- Ebk; discriminate|exact Ech]).
        cbn. split.
        { split; try (intros Hdd; cbn in Hdd; congruence); cbn.
          - exact Hcl.
          - intros _ E. discriminate E.
          - intros _ _ E. discriminate E.
          - intros _ st E. injection E as <-. congruence.
          - intros _ t Et. pose proof (bx_t1 k HB Hd t Et). lia. }
        split; [exact Hmk|]. split; [exact Hcov|]. split; [intros te E; congruence|]. split; [|split; [exact Hnow|split; [reflexivity|split; [exact A7|intros Hn; destruct (Hn Hc')]]]].
        intros _. split; [|exact Hd]. destruct (cstate_eqb (cl_st s') Active) eqn:Ea; [apply cstate_eqb_true in Ea; congruence|apply LiveInv_none].
      * (* the loop takes the change at once *)
        unfold ka_take_change in *. cbn in *. split.
        { split; try (intros Hdd; cbn in Hdd; congruence); cbn.
          - exact Hcl.
          - intros _ _ Ea. rewrite Ea. cbn. discriminate.
          - intros _ Hb. destruct (Hb eq_refl).
          - intros _ st E. discriminate E.
          - intros _ t Et. destruct (cstate_eqb (cl_st s') Active); [|discriminate Et]. injection Et as <-. lia. }
        split; [exact Hmk|]. split; [exact Hcov|]. split; [intros te E; congruence|]. split; [|split; [exact Hnow|split; [reflexivity|split; [exact A7|intros Hn; destruct (Hn Hc')]]]].
        intros _. split; [|exact Hd]. intros s1 Es1.
        destruct (cstate_eqb (cl_st s') Active) eqn:Ea; [|discriminate Es1]. injection Es1 as <-. cbn.
        split; [apply cstate_eqb_true, Ea|]. split; [lia|]. split; [|intros b E; discriminate E].
        intros _ t Et. injection Et as <-. lia.
  - (* the client is dead after the step *)
    set (k2 := ab2 (ab1 k s' os)) in *. clearbody k2.
    assert (Hdead : forall k1, ka_done k1 = true -> ka_cl k1 = ka_cl k2 -> ka_count k1 = ka_count k ->
              BaseX k1 /\ (forall te, cl_cancelled (ka_cl k1) = Some te -> te <= T + readTimeout) /\
              (cl_cancelled (ka_cl k1) = None -> LiveInv k1 (sa T since (emarks (map KoCl (user_outs os)))) /\ ka_done k1 = false) /\
              cl_now (ka_cl k1) = T).
    { intros k1 Hd1 Ecl Ecn.
      assert (Hcl1 : BaseCl (INTERNAL + ka_count k1) (ka_cl k1)).
      { rewrite Ecn, Ecl. destruct D3 as [->|[Hc0 ->]]; [exact Hcl|apply BaseCl_fail; assumption]. }
      split; [|split; [|split]].
      - split; try (intros Hdd; congruence); try exact Hcl1. all: intros _; rewrite Ecl; exact D2.
      - rewrite Ecl. destruct D3 as [->|[Hc0 ->]]; [exact Hct|]. intros te E. rewrite <- Hnow. eapply fail_cl_te; [apply (bc_si _ _ Hcl)|exact Hc0|exact E].
      - intros E. rewrite Ecl in E. destruct (D2 E).
      - rewrite Ecl. destruct D3 as [->|[Hc0 ->]]; [exact Hnow|]. unfold fail_cl. cbn. rewrite cancel_api_now. exact Hnow. }
    destruct (cstate_eqb (cl_st (ka_cl k2)) (ka_seen k2)) eqn:Eq; cbn [fst snd] in *.
    + intros Hx. destruct (A Hx) as (A1 & _ & _ & _ & _ & A7 & _).
      destruct (Hdead k2 D1 eq_refl D5) as (B1 & B2 & B3 & B4).
      split; [exact A1|]. split; [exact B1|]. split; [exact HP1|]. split; [exact Hcov|]. split; [exact B2|]. split; [exact B3|]. split; [exact B4|].
      split; [exact D5|]. split; [exact A7|]. intros _. exact D3.
    + rewrite (ab3_done _ _ D1) in *. intros Hx. destruct (A Hx) as (A1 & A2 & _ & _ & _ & A7 & _).
      match goal with |- context [BaseX ?K] => destruct (Hdead K D1 eq_refl D5) as (B1 & B2 & B3 & B4) end.
      split; [exact A1|]. split; [exact B1|]. split.
      { rewrite emarks_app. apply marks_at_app; [exact HP1|]. intros m [<-|[]]. cbn. cbn in A2. rewrite A2. exact Hnow. }
      split; [exact Hcov|]. split; [exact B2|]. split; [|split; [exact B4|split; [exact D5|split; [exact A7|intros _; exact D3]]]].
      intros E. destruct (B3 E) as [_ B5]. cbn in B5. congruence.
Qed.

(* ------------------------------------------------------------------ the loop's select *)
Lemma absorb_plain k s' os : cl_cancelled s' = None -> cl_st s' = ka_seen k -> internal_ret (ka_busy k) os = None ->
  ka_absorb cfg k (s', os) = (k <| ka_cl := s' |>, map KoCl (user_outs os)).
Proof.
  intros Ec Es Ei. rewrite absorb_eq. cbv zeta. unfold ab1. cbv zeta.
  change (ka_busy (k <| ka_cl := s' |>)) with (ka_busy k). rewrite Ei.
  unfold ab2. cbn. rewrite Ec. cbn. rewrite Es, cstate_eqb_refl. reflexivity.
Qed.

Lemma CB_weaken B B' s : CB B s -> B <= B' -> CB B' s.
Proof. intros H Hle g t c Hg Hc. pose proof (H g t c Hg Hc). lia. Qed.

Lemma BaseCl_step B s ev : BaseCl B s -> adv_ok cfg s ev = true ->
  (forall id a, ev = CCall id a -> id < B /\ fresh s id) -> BaseCl B (fst (cl_step cfg s ev)).
Proof.
  intros [H1 H2 H3 H4] Hadv Hid. split.
  - destruct (step_ok cfg s ev Hcfg H1 H2 H3 Hadv) as [[G _ _ _] _ _ _]. exact G.
  - apply (cl_step_K (fun _ => True) cfg s ev H2); [|auto]. intros id a E. split; [apply (Hid id a E)|exact I].
  - apply cl_step_invA, H3.
  - apply CB_step; [exact H4|]. intros id a E. apply (Hid id a E).
Qed.

Lemma fresh_internal s B : SI s -> cl_cancelled s = None -> CB B s -> fresh s B.
Proof.
  intros Hsi Hc Hcb. destruct (si_c2 s Hsi Hc) as (Hwg & _). split.
  - intros g t Hg E. pose proof (Hcb g t B Hg E). lia.
  - rewrite Hwg. intros c' [].
Qed.

Definition ping_out (T id : N) : list ka_out := [KoPing T id; KoCl (CoSn T (pack (Pingreq [])))].

Lemma start_ping_eq k : KInv' k -> BaseX k -> cl_cancelled (ka_cl k) = None ->
  let id := INTERNAL + ka_count k in let s2 := fst (cl_step cfg (ka_cl k) (CCall id APing)) in
  ka_start_ping cfg k = (k <| ka_busy := Some id |> <| ka_count := ka_count k + 1 |> <| ka_cl := s2 |>, ping_out (cl_now (ka_cl k)) id) /\
  BaseCl (id + 1) s2 /\ cl_cancelled s2 = None /\ cl_now s2 = cl_now (ka_cl k) /\
  LO id (cl_next_obj (ka_cl k)) 0 {| ctm_at := cl_now (ka_cl k) + k_rdelay cfg; ctm_seq := cl_next_seq (ka_cl k); ctm_kind := CtmRetry (cl_next_obj (ka_cl k)) |} s2.
Proof.
  intros [Hs _] HB Ha. cbv zeta. destruct (bx_cl k HB) as [C1 C2 C3 C4].
  destruct (ping_start cfg (ka_cl k) (INTERNAL + ka_count k) C1 Ha) as (P1 & P2 & P3).
  destruct (ping_step cfg (ka_cl k) (INTERNAL + ka_count k)) as [[Q1 _] Q2].
  split; [|split; [|split; [exact P3|split; [exact Q2|exact P2]]]].
  - unfold ka_start_ping. cbv zeta.
    destruct (cl_step cfg (ka_cl k) (CCall (INTERNAL + ka_count k) APing)) as [s2 os] eqn:E. cbn [fst snd] in *. subst os.
    rewrite absorb_plain; [reflexivity|exact P3|cbn; congruence|].
    reflexivity.
  - apply BaseCl_step; [split; [exact C1|exact C2|exact C3|eapply CB_weaken; [exact C4|lia]]|reflexivity|].
    intros id a E. injection E as <- _. split; [lia|]. apply fresh_internal; assumption.
Qed.

Lemma emarks_ping_out T id : emarks (ping_out T id) = [MkPing T].
Proof. unfold ping_out, emarks. cbn [mbind list_bind emark app]. rewrite pingreq_kind_ping0. reflexivity. Qed.

Lemma excl_false_of cfg' f k : ka_excl (fst (ka_settle f cfg' k)) = false -> ka_excl k = false.
Proof. intros H. destruct (ka_excl k) eqn:E; [|reflexivity]. rewrite (settle_excl cfg' f k E) in H. discriminate H. Qed.

Lemma settle_mine T : forall f k since, KInv' k -> BaseX k -> cl_cancelled (ka_cl k) = None -> LiveInv k since ->
  cl_now (ka_cl k) = T -> ka_excl (fst (ka_settle f cfg k)) = false ->
  BaseX (fst (ka_settle f cfg k)) /\ marks_at T (emarks (snd (ka_settle f cfg k))) /\
  all_pings (emarks (snd (ka_settle f cfg k))) /\
  cl_cancelled (ka_cl (fst (ka_settle f cfg k))) = None /\
  LiveInv (fst (ka_settle f cfg k)) (sa T since (emarks (snd (ka_settle f cfg k)))) /\
  cl_now (ka_cl (fst (ka_settle f cfg k))) = T.
Proof.
  induction f as [|f IH]; intros k since HK HB Ha HL Hnow; cbn [ka_settle]; [intros Hx; discriminate Hx|].
  assert (Hstop : BaseX k /\ marks_at T (emarks []) /\ all_pings (emarks []) /\ cl_cancelled (ka_cl k) = None /\
                  LiveInv k (sa T since (emarks [])) /\ cl_now (ka_cl k) = T).
  { split; [exact HB|]. split; [apply marks_at_nil|]. split; [intros m []|]. auto. }
  destruct (ka_done k || is_some (ka_busy k)) eqn:Eor; [intros _; exact Hstop|].
  apply orb_false_elim in Eor. destruct Eor as [Hd Hb0].
  assert (Hb : ka_busy k = None) by (destruct (ka_busy k); [discriminate Hb0|reflexivity]). clear Hb0.
  destruct HK as [Hs Hl]. destruct (Hl Hd) as (L1 & L2 & L3). unfold TickerOK in L3.
  destruct (ka_chan k) as [st|] eqn:Hc; destruct (ka_tick k) eqn:Ht; cbn [fst snd].
  - intros Hx. discriminate Hx.
  - (* take the state change *)
    assert (Hst : st <> Active) by (apply (bx_x3 k HB Hd), Hc).
    assert (HK1 : KInv' (ka_take_change cfg k st)).
    { unfold ka_take_change. split; [exact Hs|]. intros _. cbn. split; [exact L1|]. split.
      - intros t E. cbn in E |- *. destruct (cstate_eqb st Active); [|discriminate E]. injection E as <-. lia.
      - unfold TickerOK. cbn. intros [H|H]; [|discriminate H]. rewrite <- L3.
        destruct (cstate_eqb st Active) eqn:Ea; [apply cstate_eqb_true, Ea|destruct H; reflexivity]. }
    assert (HB1 : BaseX (ka_take_change cfg k st)).
    { unfold ka_take_change. split; cbn.
      - exact (bx_cl k HB).
      - intros Hdd; congruence.
      - intros _ _ Ea. rewrite <- L3 in Ea. destruct (Hst Ea).
      - intros _ Hbb. destruct (Hbb Hb).
      - intros _ st' E. discriminate E.
      - intros _ t E. destruct (cstate_eqb st Active); [|discriminate E]. injection E as <-. lia. }
    assert (HL1 : LiveInv (ka_take_change cfg k st) since).
    { intros s0 Es. destruct (HL s0 Es) as (L1' & _). exfalso. apply Hst. congruence. }
    apply (IH _ since HK1 HB1 Ha HL1 Hnow).
  - (* the pending tick: a ping *)
    assert (Hact : ka_seen k = Active) by (apply L3; right; reflexivity).
    set (kp := k <| ka_tick := false |>).
    assert (HKp : KInv' kp) by (apply (KInv'_ext k); try reflexivity; [discriminate|split; [exact Hs|exact Hl]]).
    assert (HBp : BaseX kp) by (destruct HB as [B1 B2 B3 B4 B5 B6]; split; assumption).
    destruct (start_ping_eq kp HKp HBp Ha) as (Esp & Pcl & Pca & Pnow & Plo). cbv zeta in *.
    change (ka_cl kp) with (ka_cl k) in *. change (ka_count kp) with (ka_count k) in *.
    pose proof (start_ping_spec cfg Hka kp HKp) as SP. rewrite Esp in *. cbn [fst snd] in SP.
    set (id := INTERNAL + ka_count k) in *. set (s2 := fst (cl_step cfg (ka_cl k) (CCall id APing))) in *.
    set (k1 := kp <| ka_busy := Some id |> <| ka_count := ka_count k + 1 |> <| ka_cl := s2 |>) in *.
    destruct (ka_settle f cfg k1) as [k2 o2] eqn:E2. cbn [fst snd]. intros Hx.
    assert (Hx2 : ka_excl (fst (ka_settle f cfg k1)) = false) by (rewrite E2; exact Hx).
    destruct (SP (excl_false_of cfg f k1 Hx2)) as (HK1 & _).
    assert (HB1 : BaseX k1).
    { split; cbn.
      - replace (INTERNAL + (ka_count k + 1)) with (id + 1) by (unfold id; lia). exact Pcl.
      - intros Hdd; congruence.
      - exact (bx_x1 k HB).
      - intros _ _ _. exact Hact.
      - intros _ st' E. congruence.
      - intros _ t Et. rewrite Pnow. exact (bx_t1 k HB Hd t Et). }
    assert (HL1 : LiveInv k1 (sa T since [MkPing T])).
    { intros s1 Es1. cbn [sa] in Es1. destruct since as [s0|]; [|discriminate Es1]. injection Es1 as <-. cbn.
      split; [exact Hact|]. split; [lia|]. split.
      - intros _ t Et. pose proof (bx_t1 k HB Hd t Et). lia.
      - intros b Eb. injection Eb as <-. eexists _, _, _. split; [exact Plo|]. cbn. lia. }
    assert (Hn1 : cl_now (ka_cl k1) = T) by (cbn; congruence).
    destruct (IH k1 _ HK1 HB1 Pca HL1 Hn1 Hx2) as (I1 & I2 & I3 & I4 & I5 & I6). rewrite E2 in *. cbn [fst snd] in *.
    rewrite emarks_app, emarks_ping_out. rewrite Hnow. split; [exact I1|]. split.
    { apply marks_at_app; [intros m [<-|[]]; reflexivity|exact I2]. }
    split; [intros m Hm; apply in_app_or in Hm; destruct Hm as [[<-|[]]|Hm]; [reflexivity|apply I3, Hm]|].
    split; [exact I4|]. split; [rewrite sa_app; exact I5|exact I6].
  - intros _. exact Hstop.
Qed.

(* ------------------------------------------------------------------ one event of the client at an instant T (the client is alive before) *)
Lemma settle_done f k : ka_done k = true -> ka_settle (S f) cfg k = (k, []).
Proof. intros H. cbn [ka_settle]. rewrite H. reflexivity. Qed.

Lemma dead_done k : KInv' k -> cl_cancelled (ka_cl k) <> None -> ka_done k = true.
Proof. intros [_ Hl] Hc. destruct (ka_done k) eqn:E; [reflexivity|]. destruct (Hl eq_refl) as (L1 & _). destruct (Hc L1). Qed.

Definition LKh (k : ka_state) (s' : cl_state) (os : list cl_out) (T : N) : Prop :=
  forall b g n tm, LO b g n tm (ka_cl k) ->
    (exists n' tm', LO b g n' tm' s' /\ (tm' = tm \/ (ping_at T os /\ ctm_at tm' = T + k_rdelay cfg))) \/ retb b os \/ canc s'.

Lemma do_mine k since ev T :
  KInv cfg k -> BaseX k -> cl_cancelled (ka_cl k) = None -> LiveInv k since ->
  BaseCl (INTERNAL + ka_count k) (fst (cl_step cfg (ka_cl k) ev)) ->
  sn_at T (snd (cl_step cfg (ka_cl k) ev)) -> (rcancd (snd (cl_step cfg (ka_cl k) ev)) -> canc (fst (cl_step cfg (ka_cl k) ev))) ->
  cl_now (fst (cl_step cfg (ka_cl k) ev)) = T -> cl_now (ka_cl k) <= T ->
  (forall tm, In tm (cl_timers (ka_cl k)) -> T <= ctm_at tm) -> (forall t, ka_next k = Some t -> T <= t) ->
  LKh k (fst (cl_step cfg (ka_cl k) ev)) (snd (cl_step cfg (ka_cl k) ev)) T ->
  (forall te, cl_cancelled (fst (cl_step cfg (ka_cl k) ev)) = Some te -> te <= T + readTimeout) ->
  ka_excl (fst (ka_do cfg k ev)) = false ->
  KInv cfg (fst (ka_do cfg k ev)) /\ BaseX (fst (ka_do cfg k ev)) /\
  marks_at T (emarks (snd (ka_do cfg k ev))) /\
  fold_left (gap_step (ka_bound cfg)) (emarks (snd (ka_do cfg k ev))) (since, []) = (sa T since (emarks (snd (ka_do cfg k ev))), []) /\
  (forall te, cl_cancelled (ka_cl (fst (ka_do cfg k ev))) = Some te -> te <= T + readTimeout) /\
  (cl_cancelled (ka_cl (fst (ka_do cfg k ev))) = None -> LiveInv (fst (ka_do cfg k ev)) (sa T since (emarks (snd (ka_do cfg k ev))))) /\
  cl_now (ka_cl (fst (ka_do cfg k ev))) = T /\ ka_excl k = false /\
  (cl_cancelled (ka_cl (fst (ka_do cfg k ev))) <> None ->
   ka_cl (fst (ka_do cfg k ev)) = fst (cl_step cfg (ka_cl k) ev) \/
   (cl_cancelled (fst (cl_step cfg (ka_cl k) ev)) = None /\ ka_cl (fst (ka_do cfg k ev)) = fail_cl (fst (cl_step cfg (ka_cl k) ev)))).
Proof.
  intros HK HB Ha HL Hcl Hsn Hrc Hnow HT Htm Hnx Hlk Hct Hx.
  assert (Hnle : forall t, ka_done k = false -> ka_next k = Some t -> cl_now (fst (cl_step cfg (ka_cl k) ev)) <= t)
    by (intros t _ Et; rewrite Hnow; apply Hnx, Et).
  destruct (do_spec cfg Hka k ev 0 (proj1 HK) Hnle ltac:(lia) Hx) as (D1 & _).
  split; [exact D1|]. revert Hx. unfold ka_do.
  destruct (cl_step cfg (ka_cl k) ev) as [s' os]. cbn [fst snd] in *.
  pose proof (absorb_mine k since s' os T HK HB Ha HL Hcl Hsn Hrc Hnow HT Htm Hnx Hlk Hct) as A.
  destruct (ka_absorb cfg k (s', os)) as [k1 o1]. cbn [fst snd] in A.
  pose proof (settle_mine T 4 k1 (sa T since (emarks o1))) as S. pose proof (settle_excl cfg 4 k1) as Hse.
  destruct (ka_settle 4 cfg k1) as [k2 o2] eqn:E2. cbn [fst snd] in *. intros Hx.
  assert (Hx1 : ka_excl k1 = false) by (destruct (ka_excl k1); [rewrite Hse in Hx by reflexivity; discriminate Hx|reflexivity]).
  destruct (A Hx1) as (A1 & A2 & A3 & A4 & A5 & A6 & A7 & A8 & A9 & A10).
  destruct (cl_cancelled (ka_cl k1)) as [te|] eqn:Ec1.
  - (* dead *)
    assert (Hd1 : ka_done k1 = true) by (apply dead_done; [exact A1|rewrite Ec1; discriminate]).
    rewrite (settle_done 3 k1 Hd1) in E2. injection E2 as <- <-. rewrite app_nil_r.
    split; [exact A2|]. split; [exact A3|]. split; [apply fold_at; assumption|]. split; [rewrite Ec1; exact A5|].
    split; [rewrite Ec1; intros E; discriminate E|]. split; [exact A7|]. split; [exact A9|]. intros _. apply A10. discriminate.
  - destruct (A6 eq_refl) as [A6a A6b].
    destruct (S A1 A2 eq_refl A6a A7 Hx) as (S1 & S2 & S3 & S4 & S5 & S6).
    rewrite emarks_app, sa_app.
    assert (Hmk : marks_at T (emarks o1 ++ emarks o2)) by (apply marks_at_app; assumption).
    split; [exact S1|]. split; [exact Hmk|]. split; [rewrite <- sa_app; apply fold_at; assumption|].
    split; [rewrite S4; intros te E; discriminate E|]. split; [intros _; exact S5|]. split; [exact S6|]. split; [exact A9|]. intros Hn. destruct (Hn S4).
Qed.

(* ------------------------------------------------------------------ one event of a dead client (the group is cancelled) *)
Lemma do_dead k ev T te :
  KInv cfg k -> BaseX k -> cl_cancelled (ka_cl k) = Some te ->
  BaseCl (INTERNAL + ka_count k) (fst (cl_step cfg (ka_cl k) ev)) ->
  sn_at T (snd (cl_step cfg (ka_cl k) ev)) -> cl_now (fst (cl_step cfg (ka_cl k) ev)) = T ->
  (cl_st (fst (cl_step cfg (ka_cl k) ev)) = Active -> cl_st (ka_cl k) = Active) ->
  cl_cancelled (fst (cl_step cfg (ka_cl k) ev)) = Some te ->
  ka_excl (fst (ka_do cfg k ev)) = false ->
  KInv cfg (fst (ka_do cfg k ev)) /\ BaseX (fst (ka_do cfg k ev)) /\
  marks_at T (emarks (snd (ka_do cfg k ev))) /\ no_act (emarks (snd (ka_do cfg k ev))) /\
  cl_cancelled (ka_cl (fst (ka_do cfg k ev))) = Some te /\ cl_now (ka_cl (fst (ka_do cfg k ev))) = T /\ ka_excl k = false /\
  ka_cl (fst (ka_do cfg k ev)) = fst (cl_step cfg (ka_cl k) ev).
Proof.
  intros HK HB Hca Hcl Hsn Hnow Hst Hca' Hx.
  assert (Hd : ka_done k = true) by (apply dead_done; [exact (proj1 HK)|rewrite Hca; discriminate]).
  assert (Hnle : forall t, ka_done k = false -> ka_next k = Some t -> cl_now (fst (cl_step cfg (ka_cl k) ev)) <= t)
    by (intros t E; congruence).
  destruct (do_spec cfg Hka k ev 0 (proj1 HK) Hnle ltac:(lia) Hx) as (D1 & _ & _ & _ & _ & _ & _ & D8 & _).
  split; [exact D1|]. revert Hx. unfold ka_do.
  destruct (cl_step cfg (ka_cl k) ev) as [s' os]. cbn [fst snd] in *.
  assert (HP1 : marks_at T (emarks (map KoCl (user_outs os)))) by (apply emarks_cl_at, Hsn).
  assert (Hcn : canc s') by (unfold canc; rewrite Hca'; discriminate).
  pose proof (settle_excl cfg 4 (fst (ka_absorb cfg k (s', os)))) as Hse.
  rewrite absorb_eq in *. cbv zeta in *.
  destruct (ab12_cases k s' os (fun _ => Hcn)) as [(Hc' & _)|(E1 & E2 & E3 & E4 & E5 & E6)]; [congruence|].
  assert (Ecl : ka_cl (ab2 (ab1 k s' os)) = s') by (destruct E3 as [E3|[E3 _]]; [exact E3|congruence]).
  set (k2 := ab2 (ab1 k s' os)) in *. clearbody k2.
  assert (Hdead : forall k1, ka_done k1 = true -> ka_cl k1 = s' -> ka_count k1 = ka_count k -> BaseX k1).
  { intros k1 Hd1 Ec1 En1. split; try (intros Hdd; congruence). rewrite Ec1, En1. exact Hcl. }
  destruct (cstate_eqb (cl_st (ka_cl k2)) (ka_seen k2)) eqn:Eq; cbn [fst snd] in *.
  - rewrite (settle_done 3 k2 E1). cbn [fst snd]. rewrite app_nil_r. intros _.
    split; [apply Hdead; assumption|]. split; [exact HP1|]. split; [apply no_act_cl|]. rewrite Ecl. auto 6.
  - rewrite (ab3_done _ _ E1) in *.
    match goal with |- context [ka_settle 4 cfg ?K] => rewrite (settle_done 3 K E1); pose proof (Hdead K E1 Ecl E5) as HB1 end.
    cbn [fst snd]. rewrite app_nil_r. intros _. split; [exact HB1|]. cbn. rewrite emarks_app, Ecl. split; [|split; [|auto 6]].
    + apply marks_at_app; [exact HP1|]. intros m [<-|[]]. exact Hnow.
    + intros t Hi. apply in_app_or in Hi. destruct Hi as [Hi|[Hi|[]]]; [exact (no_act_cl _ t Hi)|].
      injection Hi as _ Ea. apply cstate_eqb_false in Eq. apply Eq. rewrite Ecl, E4, Ea. destruct HK as [[Hs _] _]. rewrite Hs. symmetry. apply Hst, Ea.
Qed.

(* ------------------------------------------------------------------ the events of ka_step *)
Definition ka_user_ok (k : ka_state) (ev : cl_event) : bool :=
  match ev with CCall id _ => (id <? INTERNAL) && cl_fresh (ka_cl k) ev | _ => true end.

Lemma adv_ok_user s ev : (forall d, ev <> CAdv d) -> adv_ok cfg s ev = true.
Proof. intros H. destruct ev as [id a|dg|d]; [reflexivity|reflexivity|destruct (H d eq_refl)]. Qed.

Lemma user_ids k ev : ka_user_ok k ev = true ->
  forall id a, ev = CCall id a -> id < INTERNAL + ka_count k /\ fresh (ka_cl k) id.
Proof.
  intros H id a ->. cbn [ka_user_ok] in H. apply andb_true_iff in H. destruct H as [H1 H2]. apply N.ltb_lt in H1.
  split; [lia|]. eapply cl_fresh_spec, H2.
Qed.

Lemma user_mine k since ev : (forall d, ev <> CAdv d) -> ka_user_ok k ev = true ->
  KInv cfg k -> BaseX k -> cl_cancelled (ka_cl k) = None -> LiveInv k since ->
  ka_excl (fst (ka_do cfg k ev)) = false ->
  let T := cl_now (ka_cl k) in
  KInv cfg (fst (ka_do cfg k ev)) /\ BaseX (fst (ka_do cfg k ev)) /\
  marks_at T (emarks (snd (ka_do cfg k ev))) /\
  fold_left (gap_step (ka_bound cfg)) (emarks (snd (ka_do cfg k ev))) (since, []) = (sa T since (emarks (snd (ka_do cfg k ev))), []) /\
  (cl_cancelled (ka_cl (fst (ka_do cfg k ev))) = None -> LiveInv (fst (ka_do cfg k ev)) (sa T since (emarks (snd (ka_do cfg k ev))))) /\
  cl_now (ka_cl (fst (ka_do cfg k ev))) = T.
Proof.
  intros Hev Hok HK HB Ha HL Hx. cbv zeta.
  pose proof (alive_not_done k HB Ha) as Hd. destruct (bx_cl k HB) as [C1 C2 C3 C4].
  destruct (cl_step_user_out cfg (ka_cl k) ev Hev) as (U1 & U2 & _).
  pose proof (user_step_now_eq cfg (ka_cl k) ev (si_lr _ C1) Hev) as U3.
  assert (P1 : BaseCl (INTERNAL + ka_count k) (fst (cl_step cfg (ka_cl k) ev))).
  { apply BaseCl_step; [exact (bx_cl k HB)|apply adv_ok_user, Hev|apply user_ids, Hok]. }
  assert (P2 : forall t, ka_next k = Some t -> cl_now (ka_cl k) <= t).
  { destruct HK as [[_ Hl] _]. destruct (Hl Hd) as (_ & L2 & _). exact L2. }
  assert (P3 : LKh k (fst (cl_step cfg (ka_cl k) ev)) (snd (cl_step cfg (ka_cl k) ev)) (cl_now (ka_cl k))).
  { intros b g n tm Hlo. destruct (cl_step_user_LK b g cfg n tm (ka_cl k) ev Hev Hlo) as [H|[H|H]]; [left|right; left; exact H|right; right; exact H].
    exists n, tm. split; [exact H|left; reflexivity]. }
  assert (P4 : forall te, cl_cancelled (fst (cl_step cfg (ka_cl k) ev)) = Some te -> te <= cl_now (ka_cl k) + readTimeout).
  { intros te E. destruct (cl_step_CT cfg Hcfg (ka_cl k) ev C1 C2 C3 te E) as [H|[_ H]]; [congruence|].
    destruct ev as [id a|dg|d]; [exact H|exact H|destruct (Hev d eq_refl)]. }
  destruct (do_mine k since ev (cl_now (ka_cl k)) HK HB Ha HL P1 U1 U2 U3 (N.le_refl _) (si_t1 _ C1) P2 P3 P4 Hx)
    as (R1 & R2 & R3 & R4 & _ & R6 & R7 & _).
  auto 7.
Qed.

Lemma cl_step_dead_user s ev : (forall d, ev <> CAdv d) -> cl_cancelled s <> None -> cl_step cfg s ev = (s, []).
Proof.
  intros Hev Hc. unfold cl_step. destruct ev as [id a|dg|d]; [| |destruct (Hev d eq_refl)];
    (destruct (cl_exited s); [reflexivity|]); (destruct (cl_cancelled s); [reflexivity|destruct (Hc eq_refl)]).
Qed.

Lemma user_dead k ev te : (forall d, ev <> CAdv d) ->
  KInv cfg k -> BaseX k -> cl_cancelled (ka_cl k) = Some te ->
  ka_excl (fst (ka_do cfg k ev)) = false ->
  KInv cfg (fst (ka_do cfg k ev)) /\ BaseX (fst (ka_do cfg k ev)) /\ no_act (emarks (snd (ka_do cfg k ev))) /\
  cl_cancelled (ka_cl (fst (ka_do cfg k ev))) = Some te.
Proof.
  intros Hev HK HB Hca Hx.
  assert (E : cl_step cfg (ka_cl k) ev = (ka_cl k, [])) by (apply cl_step_dead_user; [exact Hev|rewrite Hca; discriminate]).
  destruct (do_dead k ev (cl_now (ka_cl k)) te HK HB Hca) as (R1 & R2 & _ & R4 & R5 & _); try (rewrite E; cbn [fst snd]); auto.
  - exact (bx_cl k HB).
  - apply sn_at_nil.
Qed.

(* ------------------------------------------------------------------ advances *)
Definition Strict (s : cl_state) : Prop :=
  (forall tm, In tm (cl_timers s) -> cl_now s < ctm_at tm) /\
  (forall te, cl_cancelled s = Some te -> cl_exited s = false -> cl_now s < te).

Lemma adv_ok_strict s d : adv_ok cfg s (CAdv d) = true -> Strict (fst (cl_step cfg s (CAdv d))).
Proof.
  unfold adv_ok. intros H. apply andb_true_iff in H. destruct H as [H1 H2]. rewrite forallb_forall in H1. split.
  - intros tm Hi. apply N.ltb_lt, H1, Hi.
  - intros te Hc He. rewrite He, Hc in H2. apply N.ltb_lt, H2.
Qed.
Lemma Strict_fail s : SI s -> cl_cancelled s = None -> Strict s -> Strict (fail_cl s).
Proof.
  intros Hsi Hc [H1 H2]. unfold fail_cl, c_cancel_from_api. rewrite Hc. unfold c_stop_ctx_timers. split; cbn.
  - intros tm Hi. apply filter_In in Hi. apply H1, Hi.
  - intros te E _. injection E as <-. pose proof (next_poll_bounds _ _ (si_lr s Hsi)). lia.
Qed.

Lemma min_timer_none l : c_min_timer l = None -> l = [].
Proof. destruct l as [|x l]; [reflexivity|]. cbn. destruct (c_min_timer l); [destruct (c_earlier _ _)|]; discriminate. Qed.

Lemma deadline_inst s T : cl_now s <= T -> (forall c, cl_deadline s = Some c -> T <= c) -> Inst s T.
Proof.
  intros Hn Hd. unfold cl_deadline in Hd. split; [exact Hn|]. split.
  - intros tm Hi. destruct (c_min_timer (cl_timers s)) as [u|] eqn:Emin.
    + destruct (c_min_timer_spec _ _ Emin) as [_ Hmin]. specialize (Hmin tm Hi).
      destruct (if cl_exited s then None else cl_cancelled s) as [te|]; cbn [min_opt] in Hd; specialize (Hd _ eq_refl); lia.
    + rewrite (min_timer_none _ Emin) in Hi. destruct Hi.
  - intros te Hc He. rewrite He, Hc in Hd. destruct (c_min_timer (cl_timers s)) as [u|]; cbn [min_opt] in Hd; specialize (Hd _ eq_refl); lia.
Qed.
Lemma Strict_deadline s c : Strict s -> cl_deadline s = Some c -> cl_now s < c.
Proof.
  intros [H1 H2]. unfold cl_deadline. destruct (c_min_timer (cl_timers s)) as [u|] eqn:Emin.
  - destruct (c_min_timer_spec _ _ Emin) as [Hin _]. specialize (H1 u Hin).
    destruct (cl_exited s) eqn:He; cbn [min_opt]; [intros E; injection E as <-; exact H1|].
    destruct (cl_cancelled s) as [te|] eqn:Hc; cbn [min_opt]; intros E; injection E as <-; [specialize (H2 te eq_refl eq_refl); lia|exact H1].
  - destruct (cl_exited s) eqn:He; cbn [min_opt]; [intros E; discriminate E|].
    destruct (cl_cancelled s) as [te|] eqn:Hc; cbn [min_opt]; intros E; [injection E as <-; exact (H2 te eq_refl eq_refl)|discriminate E].
Qed.

Lemma adv_mine k since d :
  KInv cfg k -> BaseX k -> cl_cancelled (ka_cl k) = None -> LiveInv k since ->
  adv_ok cfg (ka_cl k) (CAdv d) = true -> Inst (ka_cl k) (cl_now (ka_cl k) + d) ->
  (forall t, ka_next k = Some t -> cl_now (ka_cl k) + d <= t) ->
  ka_excl (fst (ka_do cfg k (CAdv d))) = false ->
  let T := cl_now (ka_cl k) + d in
  KInv cfg (fst (ka_do cfg k (CAdv d))) /\ BaseX (fst (ka_do cfg k (CAdv d))) /\
  marks_at T (emarks (snd (ka_do cfg k (CAdv d)))) /\
  fold_left (gap_step (ka_bound cfg)) (emarks (snd (ka_do cfg k (CAdv d)))) (since, []) = (sa T since (emarks (snd (ka_do cfg k (CAdv d)))), []) /\
  (forall te, cl_cancelled (ka_cl (fst (ka_do cfg k (CAdv d)))) = Some te -> te <= T + readTimeout /\ Strict (ka_cl (fst (ka_do cfg k (CAdv d))))) /\
  (cl_cancelled (ka_cl (fst (ka_do cfg k (CAdv d)))) = None -> LiveInv (fst (ka_do cfg k (CAdv d))) (sa T since (emarks (snd (ka_do cfg k (CAdv d)))))) /\
  cl_now (ka_cl (fst (ka_do cfg k (CAdv d)))) = T /\ ka_excl k = false.
Proof.
  intros HK HB Ha HL Hadv Hin Hnx Hx. cbv zeta.
  destruct (bx_cl k HB) as [C1 C2 C3 C4]. destruct Hin as (I1 & I2 & I3).
  destruct (cl_step_adv_inst cfg Hcfg (ka_cl k) d C1 C2 C3 (conj I1 (conj I2 I3))) as (U1 & U2 & _ & _).
  pose proof (step_end_now cfg (ka_cl k) d) as U3.
  assert (Hbc : BaseCl (INTERNAL + ka_count k) (fst (cl_step cfg (ka_cl k) (CAdv d)))).
  { apply BaseCl_step; [exact (bx_cl k HB)|exact Hadv|intros id a E; discriminate E]. }
  assert (P3 : LKh k (fst (cl_step cfg (ka_cl k) (CAdv d))) (snd (cl_step cfg (ka_cl k) (CAdv d))) (cl_now (ka_cl k) + d)).
  { intros b g n tm Hlo. exact (cl_step_adv_LO b g cfg Hcfg (ka_cl k) d C1 C2 C3 (conj I1 (conj I2 I3)) n tm Hlo). }
  assert (P4 : forall te, cl_cancelled (fst (cl_step cfg (ka_cl k) (CAdv d))) = Some te -> te <= cl_now (ka_cl k) + d + readTimeout).
  { intros te E. destruct (cl_step_CT cfg Hcfg (ka_cl k) (CAdv d) C1 C2 C3 te E) as [H|[_ H]]; [congruence|exact H]. }
  destruct (do_mine k since (CAdv d) (cl_now (ka_cl k) + d) HK HB Ha HL Hbc U1 U2 U3 ltac:(lia) I2 Hnx P3 P4 Hx)
    as (R1 & R2 & R3 & R4 & R5 & R6 & R7 & R8 & R9).
  split; [exact R1|]. split; [exact R2|]. split; [exact R3|]. split; [exact R4|]. split; [|auto].
  intros te E. split; [apply R5, E|]. pose proof (adv_ok_strict _ _ Hadv) as Hs.
  destruct (R9 ltac:(rewrite E; discriminate)) as [->|[Hc ->]]; [exact Hs|]. apply Strict_fail; [exact (bc_si _ _ Hbc)|exact Hc|exact Hs].
Qed.

Lemma adv_dead k d te :
  KInv cfg k -> BaseX k -> cl_cancelled (ka_cl k) = Some te ->
  adv_ok cfg (ka_cl k) (CAdv d) = true -> Inst (ka_cl k) (cl_now (ka_cl k) + d) ->
  ka_excl (fst (ka_do cfg k (CAdv d))) = false ->
  let T := cl_now (ka_cl k) + d in
  KInv cfg (fst (ka_do cfg k (CAdv d))) /\ BaseX (fst (ka_do cfg k (CAdv d))) /\
  marks_at T (emarks (snd (ka_do cfg k (CAdv d)))) /\ no_act (emarks (snd (ka_do cfg k (CAdv d)))) /\
  cl_cancelled (ka_cl (fst (ka_do cfg k (CAdv d)))) = Some te /\ cl_now (ka_cl (fst (ka_do cfg k (CAdv d)))) = T /\
  Strict (ka_cl (fst (ka_do cfg k (CAdv d)))) /\ ka_excl k = false.
Proof.
  intros HK HB Hca Hadv Hin Hx. cbv zeta.
  destruct (bx_cl k HB) as [C1 C2 C3 C4].
  destruct (cl_step_adv_inst cfg Hcfg (ka_cl k) d C1 C2 C3 Hin) as (U1 & _ & U3 & U4).
  pose proof (step_end_now cfg (ka_cl k) d) as U5.
  assert (Hbc : BaseCl (INTERNAL + ka_count k) (fst (cl_step cfg (ka_cl k) (CAdv d)))).
  { apply BaseCl_step; [exact (bx_cl k HB)|exact Hadv|intros id a E; discriminate E]. }
  destruct (do_dead k (CAdv d) (cl_now (ka_cl k) + d) te HK HB Hca Hbc U1 U5 U3 (U4 te Hca) Hx) as (R1 & R2 & R3 & R4 & R5 & R6 & R7 & R8).
  split; [exact R1|]. split; [exact R2|]. split; [exact R3|]. split; [exact R4|]. split; [exact R5|]. split; [exact R6|].
  split; [rewrite R8; apply adv_ok_strict, Hadv|exact R7].
Qed.

(* the tick of the loop's ticker: nothing of the client is due before it *)
Lemma LO_set_now b g n tm s t : LO b g n tm s -> LO b g n tm (s <| cl_now := t |>).
Proof. apply LO_ext; reflexivity. Qed.

Lemma tick_mine k since t :
  KInv cfg k -> BaseX k -> cl_cancelled (ka_cl k) = None -> LiveInv k since ->
  ka_next k = Some t -> before_deadline (ka_cl k) t -> adv_ok cfg (ka_cl k) (CAdv (t - cl_now (ka_cl k))) = true ->
  forall kt, kt = k <| ka_cl := ka_cl k <| cl_now := t |> |> <| ka_next := Some (t + ka_period cfg) |> <| ka_tick := true |> ->
  forall r, r = (if is_some (ka_busy kt) then (kt, []) else ka_settle 4 cfg kt) ->
  ka_excl (fst r) = false ->
  KInv cfg (fst r) /\ BaseX (fst r) /\ marks_at t (emarks (snd r)) /\
  fold_left (gap_step (ka_bound cfg)) (emarks (snd r)) (since, []) = (sa t since (emarks (snd r)), []) /\
  cl_cancelled (ka_cl (fst r)) = None /\ LiveInv (fst r) (sa t since (emarks (snd r))) /\ cl_now (ka_cl (fst r)) = t /\
  ka_excl kt = false.
Proof.
  intros HK HB Ha HL Ht Hbd Hadv kt Ekt r Er Hx.
  pose proof (alive_not_done k HB Ha) as Hd. destruct HK as [[Hs Hl] Hset]. destruct (Hl Hd) as (L1 & L2 & L3).
  specialize (L2 t Ht). unfold TickerOK in L3.
  assert (Earith : cl_now (ka_cl k) + (t - cl_now (ka_cl k)) = t) by lia.
  assert (Hcl : BaseCl (INTERNAL + ka_count k) (ka_cl k <| cl_now := t |>)).
  { pose proof (BaseCl_step _ _ (CAdv (t - cl_now (ka_cl k))) (bx_cl k HB) Hadv ltac:(intros id a E; discriminate E)) as H.
    rewrite quiet_adv in H by (rewrite Earith; exact Hbd). cbn [fst] in H. rewrite Earith in H. exact H. }
  assert (HKt : KInv' kt).
  { subst kt. split; [exact Hs|]. intros _. split; [exact L1|]. split.
    - intros t' E. cbn in E |- *. injection E as <-. lia.
    - unfold TickerOK in *. cbn. destruct (ka_chan k); [exact L3|]. intros _. apply L3. left. congruence. }
  assert (HBt : BaseX kt).
  { subst kt. split; cbn.
    - exact Hcl.
    - intros Hdd. congruence.
    - intros _ _ _ E. discriminate E.
    - exact (bx_x2 k HB).
    - exact (bx_x3 k HB).
    - intros _ t' E. injection E as <-. lia. }
  assert (HLt : LiveInv kt since).
  { intros s0 Es. destruct (HL s0 Es) as (A1 & A2 & A3 & A4). subst kt. cbn. split; [exact A1|]. split; [lia|]. split; [intros E; discriminate E|].
    intros b Eb. destruct (A4 b Eb) as (g & n & tm & Hlo & Hle). exists g, n, tm. split; [apply LO_set_now, Hlo|exact Hle]. }
  assert (Hat : cl_cancelled (ka_cl kt) = None) by (subst kt; exact L1).
  assert (Hnt : cl_now (ka_cl kt) = t) by (subst kt; reflexivity).
  destruct (ka_busy kt) as [b|] eqn:Eb; cbn [is_some] in Er; subst r; cbn [fst snd] in *.
  - split; [split; [exact HKt|intros _ E; congruence]|]. split; [exact HBt|]. split; [apply marks_at_nil|]. split; [reflexivity|].
    split; [exact Hat|]. split; [exact HLt|]. split; [exact Hnt|exact Hx].
  - destruct (settle_spec cfg Hka 4 kt HKt Hx) as (S1 & _ & _ & _ & _ & _ & S7 & _).
    destruct (settle_mine t 4 kt since HKt HBt Hat HLt Hnt Hx) as (M1 & M2 & M3 & M4 & M5 & M6).
    split; [exact S1|]. split; [exact M1|]. split; [exact M2|]. split; [|auto].
    apply fold_at; [exact M2|]. intros s0 Es. destruct (HL s0 Es) as (A1 & A2 & A3 & _).
    assert (Ebk : ka_busy k = None) by (subst kt; exact Eb). destruct (Hset Hd Ebk) as [_ Htk].
    specialize (A3 Htk t Ht). unfold ka_bound. lia.
Qed.

(* ------------------------------------------------------------------ ka_advance of a dead client *)
Definition gt_marks (lo : N) (E : list mark) : Prop := forall m, In m E -> lo < mark_time m.
Definition ge_marks (lo : N) (E : list mark) : Prop := forall m, In m E -> lo <= mark_time m.

Lemma no_act_app a b : no_act a -> no_act b -> no_act (a ++ b).
Proof. intros Ha Hb t H. apply in_app_or in H. destruct H; [eapply Ha|eapply Hb]; eassumption. Qed.

Lemma internal_ret_nil busy : internal_ret busy [] = None.
Proof. destruct busy; reflexivity. Qed.

(* a dead client and a step of the client that does nothing: no outputs *)
Lemma quiet_dead_out k ev s' : KInv' k -> ka_done k = true -> cl_step cfg (ka_cl k) ev = (s', []) -> cl_st s' = cl_st (ka_cl k) ->
  snd (ka_do cfg k ev) = [].
Proof.
  intros [Hs _] Hd E Est. unfold ka_do. rewrite E.
  assert (Ea : ka_done (fst (ka_absorb cfg k (s', []))) = true /\ snd (ka_absorb cfg k (s', [])) = []).
  { rewrite absorb_eq. cbv zeta. unfold ab1. cbv zeta. rewrite internal_ret_nil.
    assert (H2 : ka_done (ab2 (k <| ka_cl := s' |>)) = true /\ ka_cl (ab2 (k <| ka_cl := s' |>)) = s' /\ ka_seen (ab2 (k <| ka_cl := s' |>)) = ka_seen k).
    { unfold ab2. destruct (is_some _); cbn; auto. }
    destruct H2 as (H2a & H2b & H2c). rewrite H2b, H2c, Est, <- Hs, cstate_eqb_refl. cbn [fst snd]. auto. }
  destruct (ka_absorb cfg k (s', [])) as [k1 o1]. cbn [fst snd] in Ea. destruct Ea as [Ed ->].
  rewrite (settle_done 3 k1 Ed). reflexivity.
Qed.

Lemma deadline_ge_now s c : SI s -> cl_deadline s = Some c -> cl_now s <= c.
Proof.
  intros Hsi. unfold cl_deadline. destruct (c_min_timer (cl_timers s)) as [u|] eqn:Emin.
  - destruct (c_min_timer_spec _ _ Emin) as [Hin _]. pose proof (si_t1 s Hsi u Hin) as H1.
    destruct (cl_exited s) eqn:He; cbn [min_opt]; [intros E; injection E as <-; exact H1|].
    destruct (cl_cancelled s) as [te|] eqn:Hc; cbn [min_opt]; intros E; injection E as <-; [pose proof (si_c1 s Hsi te Hc He); lia|exact H1].
  - destruct (cl_exited s) eqn:He; cbn [min_opt]; [intros E; discriminate E|].
    destruct (cl_cancelled s) as [te|] eqn:Hc; cbn [min_opt]; intros E; [injection E as <-; exact (si_c1 s Hsi te Hc He)|discriminate E].
Qed.

Lemma before_deadline_lt s T : (forall c, cl_deadline s = Some c -> T < c) -> before_deadline s T.
Proof. unfold before_deadline. destruct (cl_deadline s); auto. Qed.

Definition DeadRes (lo te : N) (strict : Prop) (r : ka_state * list ka_out) : Prop :=
  KInv cfg (fst r) /\ BaseX (fst r) /\ no_act (emarks (snd r)) /\ cl_cancelled (ka_cl (fst r)) = Some te /\
  (strict -> tsorted (emarks (snd r)) /\ gt_marks lo (emarks (snd r))).

Lemma dead_final k te d : KInv cfg k -> BaseX k -> cl_cancelled (ka_cl k) = Some te ->
  adv_ok cfg (ka_cl k) (CAdv d) = true -> before_deadline (ka_cl k) (cl_now (ka_cl k) + d) ->
  ka_excl (fst (ka_do cfg k (CAdv d))) = false ->
  DeadRes (cl_now (ka_cl k)) te (Strict (ka_cl k)) (ka_do cfg k (CAdv d)) /\ ka_excl k = false.
Proof.
  intros HK HB Hca Hadv Hbd Hx.
  assert (Hin : Inst (ka_cl k) (cl_now (ka_cl k) + d)).
  { apply deadline_inst; [lia|]. intros c Ec. unfold before_deadline in Hbd. rewrite Ec in Hbd. lia. }
  destruct (adv_dead k d te HK HB Hca Hadv Hin Hx) as (R1 & R2 & R3 & R4 & R5 & R6 & R7 & R8).
  split; [|exact R8]. split; [exact R1|]. split; [exact R2|]. split; [exact R4|]. split; [exact R5|]. intros _.
  assert (Hd : ka_done k = true) by (apply dead_done; [exact (proj1 HK)|rewrite Hca; discriminate]).
  rewrite (quiet_dead_out k (CAdv d) _ (proj1 HK) Hd (quiet_adv cfg (ka_cl k) d Hbd) eq_refl).
  split; [exact I|intros m []].
Qed.

Lemma advance_dead target : forall f k te, KInv cfg k -> BaseX k -> cl_cancelled (ka_cl k) = Some te -> cl_now (ka_cl k) <= target ->
  ka_advance_ok f cfg k target = true -> ka_excl (fst (ka_advance f cfg k target)) = false ->
  DeadRes (cl_now (ka_cl k)) te (Strict (ka_cl k)) (ka_advance f cfg k target) /\ ka_excl k = false.
Proof.
  induction f as [|f IH]; intros k te HK HB Hca Hnt Hok Hx; [cbn in Hx; discriminate Hx|].
  assert (Hd : ka_done k = true) by (apply dead_done; [exact (proj1 HK)|rewrite Hca; discriminate]).
  cbn [ka_advance ka_advance_ok] in *. cbv zeta in *. rewrite Hd in *.
  pose proof (bc_si _ _ (bx_cl k HB)) as Hsi.
  destruct (cl_deadline (ka_cl k)) as [c|] eqn:Ec.
  - destruct (target <? c) eqn:Etc.
    + apply N.ltb_lt in Etc. apply dead_final; try assumption. apply before_deadline_lt. intros c' E'.
      pose proof (deadline_ge_now _ _ Hsi Ec). rewrite Ec in E'. injection E' as <-. lia.
    + apply N.ltb_ge in Etc. apply andb_true_iff in Hok. destruct Hok as [Hok1 Hok2].
      pose proof (deadline_ge_now _ _ Hsi Ec) as Hnc.
      assert (Earith : cl_now (ka_cl k) + (c - cl_now (ka_cl k)) = c) by lia.
      assert (Hin : Inst (ka_cl k) (cl_now (ka_cl k) + (c - cl_now (ka_cl k)))).
      { rewrite Earith. apply deadline_inst; [exact Hnc|]. intros c' E'. rewrite Ec in E'. injection E' as <-. lia. }
      pose proof (adv_dead k (c - cl_now (ka_cl k)) te HK HB Hca Hok1 Hin) as A.
      destruct (ka_do cfg k (CAdv (c - cl_now (ka_cl k)))) as [k1 o1]. cbn [fst snd] in *.
      pose proof (IH k1 te) as IH1. pose proof (advance_excl cfg target f k1) as Hae.
      destruct (ka_advance f cfg k1 target) as [k2 o2]. cbn [fst snd] in *.
      assert (Hx1 : ka_excl k1 = false) by (destruct (ka_excl k1); [rewrite Hae in Hx by reflexivity; discriminate Hx|reflexivity]).
      destruct (A Hx1) as (R1 & R2 & R3 & R4 & R5 & R6 & R7 & R8). rewrite Earith in R3, R6.
      destruct (IH1 R1 R2 R5 ltac:(lia) Hok2 Hx) as ((D1 & D2 & D3 & D4 & D5) & _). destruct (D5 R7) as [D5a D5b]. rewrite R6 in D5b.
      split; [|exact R8]. unfold DeadRes. cbn [fst snd]. split; [exact D1|]. split; [exact D2|]. rewrite emarks_app. split; [apply no_act_app; assumption|]. split; [exact D4|].
      intros Hst. pose proof (Strict_deadline _ _ Hst Ec) as Hlt. split.
      * apply tsorted_app. split; [apply (marks_at_sorted c), R3|]. split; [exact D5a|].
        intros x y Hx' Hy. rewrite (R3 x Hx'). specialize (D5b y Hy). lia.
      * intros m Hm. apply in_app_or in Hm. destruct Hm as [Hm|Hm]; [rewrite (R3 m Hm); exact Hlt|specialize (D5b m Hm); lia].
  - apply dead_final; try assumption. unfold before_deadline. rewrite Ec. exact I.
Qed.

(* ------------------------------------------------------------------ ka_advance of a live client *)
Notation gfold E since := (fold_left (gap_step (ka_bound cfg)) E (since, [])).

Definition AdvRes (lo target : N) (since : option N) (r : ka_state * list ka_out) : Prop :=
  KInv cfg (fst r) /\ BaseX (fst r) /\ tsorted (emarks (snd r)) /\ ge_marks lo (emarks (snd r)) /\
  ((cl_cancelled (ka_cl (fst r)) = None /\ snd (gfold (emarks (snd r)) since) = [] /\
    LiveInv (fst r) (fst (gfold (emarks (snd r)) since)) /\ cl_now (ka_cl (fst r)) = target) \/
   (exists te E1 E2, cl_cancelled (ka_cl (fst r)) = Some te /\ emarks (snd r) = E1 ++ E2 /\
      snd (gfold E1 since) = [] /\ forall m, In m E2 -> te < mark_time m + readTimeout)).

Lemma AdvRes_cons lo T target since since1 k' o1 o2 : lo <= T -> marks_at T (emarks o1) ->
  gfold (emarks o1) since = (since1, []) -> AdvRes T target since1 (k', o2) -> AdvRes lo target since (k', o1 ++ o2).
Proof.
  intros Hle Hat Hf (R1 & R2 & R3 & R4 & R5). unfold AdvRes. cbn [fst snd] in *. rewrite emarks_app.
  split; [exact R1|]. split; [exact R2|]. split.
  { apply tsorted_app. split; [apply (marks_at_sorted T), Hat|]. split; [exact R3|]. intros x y Hx Hy. rewrite (Hat x Hx). apply R4, Hy. }
  split.
  { intros m Hm. apply in_app_or in Hm. destruct Hm as [Hm|Hm]; [rewrite (Hat m Hm); exact Hle|specialize (R4 m Hm); lia]. }
  destruct R5 as [(A1 & A2 & A3 & A4)|(te & E1 & E2 & A1 & A2 & A3 & A4)].
  - left. rewrite fold_left_app, Hf. auto.
  - right. exists te, (emarks o1 ++ E1), E2. split; [exact A1|]. split; [rewrite A2, app_assoc; reflexivity|].
    split; [rewrite fold_left_app, Hf; exact A3|exact A4].
Qed.

Lemma AdvRes_dead lo T target since since1 te k' o1 o2 : lo <= T -> marks_at T (emarks o1) ->
  gfold (emarks o1) since = (since1, []) -> te <= T + readTimeout ->
  DeadRes T te True (k', o2) -> AdvRes lo target since (k', o1 ++ o2).
Proof.
  intros Hle Hat Hf Hte (R1 & R2 & R3 & R4 & R5). destruct (R5 I) as [R5a R5b]. unfold AdvRes. cbn [fst snd] in *. rewrite emarks_app.
  split; [exact R1|]. split; [exact R2|]. split.
  { apply tsorted_app. split; [apply (marks_at_sorted T), Hat|]. split; [exact R5a|]. intros x y Hx Hy. rewrite (Hat x Hx). specialize (R5b y Hy). lia. }
  split.
  { intros m Hm. apply in_app_or in Hm. destruct Hm as [Hm|Hm]; [rewrite (Hat m Hm); exact Hle|specialize (R5b m Hm); lia]. }
  right. exists te, (emarks o1), (emarks o2). split; [exact R4|]. split; [reflexivity|]. split; [rewrite Hf; reflexivity|].
  intros m Hm. specialize (R5b m Hm). lia.
Qed.

Lemma AdvRes_single lo T since since1 k' o1 : lo <= T -> marks_at T (emarks o1) -> KInv cfg k' -> BaseX k' ->
  gfold (emarks o1) since = (since1, []) ->
  (cl_cancelled (ka_cl k') = None -> LiveInv k' since1) -> cl_now (ka_cl k') = T -> AdvRes lo T since (k', o1).
Proof.
  intros Hle Hat HK HB Hf HL Hn. unfold AdvRes. cbn [fst snd]. split; [exact HK|]. split; [exact HB|].
  split; [apply (marks_at_sorted T), Hat|]. split; [intros m Hm; rewrite (Hat m Hm); exact Hle|].
  destruct (cl_cancelled (ka_cl k')) as [te|] eqn:Ec.
  - right. exists te, (emarks o1), []. split; [reflexivity|]. split; [rewrite app_nil_r; reflexivity|]. split; [rewrite Hf; reflexivity|intros m []].
  - left. rewrite Hf. cbn [fst snd]. auto.
Qed.

(* the last sub-step: to the target *)
Lemma live_final k since d target : KInv cfg k -> BaseX k -> cl_cancelled (ka_cl k) = None -> LiveInv k since ->
  adv_ok cfg (ka_cl k) (CAdv d) = true -> cl_now (ka_cl k) + d = target ->
  (forall c, cl_deadline (ka_cl k) = Some c -> target <= c) -> (forall t, ka_next k = Some t -> target <= t) ->
  ka_excl (fst (ka_do cfg k (CAdv d))) = false ->
  AdvRes (cl_now (ka_cl k)) target since (ka_do cfg k (CAdv d)) /\ ka_excl k = false.
Proof.
  intros HK HB Ha HL Hadv Et Hdl Hnx Hx. subst target.
  assert (Hin : Inst (ka_cl k) (cl_now (ka_cl k) + d)) by (apply deadline_inst; [lia|exact Hdl]).
  destruct (adv_mine k since d HK HB Ha HL Hadv Hin Hnx Hx) as (R1 & R2 & R3 & R4 & R5 & R6 & R7 & R8).
  split; [|exact R8]. destruct (ka_do cfg k (CAdv d)) as [k1 o1]. cbn [fst snd] in *.
  eapply AdvRes_single; try eassumption. lia.
Qed.

(* a sub-step to the client's next deadline, then the rest *)
Lemma live_rec f target k since d (b : bool) : KInv cfg k -> BaseX k -> cl_cancelled (ka_cl k) = None -> LiveInv k since ->
  cl_now (ka_cl k) + d <= target ->
  (forall c, cl_deadline (ka_cl k) = Some c -> cl_now (ka_cl k) + d <= c) -> (forall t, ka_next k = Some t -> cl_now (ka_cl k) + d <= t) ->
  (forall k1 since1, KInv cfg k1 -> BaseX k1 -> cl_cancelled (ka_cl k1) = None -> LiveInv k1 since1 -> cl_now (ka_cl k1) <= target ->
     ka_advance_ok f cfg k1 target = true -> ka_excl (fst (ka_advance f cfg k1 target)) = false ->
     AdvRes (cl_now (ka_cl k1)) target since1 (ka_advance f cfg k1 target) /\ ka_excl k1 = false) ->
  adv_ok cfg (ka_cl k) (CAdv d) &&
    (let '(k1, o1) := ka_do cfg k (CAdv d) in
     let k1 := if b then k1 <| ka_excl := true |> else k1 in ka_advance_ok f cfg k1 target) = true ->
  ka_excl (fst (let '(k1, o1) := ka_do cfg k (CAdv d) in
                let k1 := if b then k1 <| ka_excl := true |> else k1 in
                let '(k2, o2) := ka_advance f cfg k1 target in (k2, o1 ++ o2))) = false ->
  AdvRes (cl_now (ka_cl k)) target since
    (let '(k1, o1) := ka_do cfg k (CAdv d) in
     let k1 := if b then k1 <| ka_excl := true |> else k1 in
     let '(k2, o2) := ka_advance f cfg k1 target in (k2, o1 ++ o2)) /\ ka_excl k = false.
Proof.
  intros HK HB Ha HL Htg Hdl Hnx IH Hok Hx. apply andb_true_iff in Hok. destruct Hok as [Hadv Hok].
  assert (Hin : Inst (ka_cl k) (cl_now (ka_cl k) + d)) by (apply deadline_inst; [lia|exact Hdl]).
  pose proof (adv_mine k since d HK HB Ha HL Hadv Hin Hnx) as A.
  destruct (ka_do cfg k (CAdv d)) as [k1 o1]. cbn [fst snd] in *.
  destruct b.
  { exfalso. pose proof (advance_excl cfg target f (k1 <| ka_excl := true |>) eq_refl) as H.
    destruct (ka_advance f cfg (k1 <| ka_excl := true |>) target) as [k2 o2]. cbn [fst] in *. congruence. }
  pose proof (IH k1) as IH1. pose proof (advance_dead target f k1) as ID. pose proof (advance_excl cfg target f k1) as Hae.
  destruct (ka_advance f cfg k1 target) as [k2 o2]. cbn [fst snd] in *.
  assert (Hx1 : ka_excl k1 = false) by (destruct (ka_excl k1); [rewrite Hae in Hx by reflexivity; discriminate Hx|reflexivity]).
  destruct (A Hx1) as (R1 & R2 & R3 & R4 & R5 & R6 & R7 & R8). split; [|exact R8].
  destruct (cl_cancelled (ka_cl k1)) as [te|] eqn:Ec.
  - destruct (R5 te eq_refl) as [R5a R5b].
    destruct (ID te R1 R2 eq_refl ltac:(lia) Hok Hx) as ((D1 & D2 & D3 & D4 & D5) & _).
    eapply AdvRes_dead; [| exact R3 | exact R4 | exact R5a |]; [lia|].
    split; [exact D1|]. split; [exact D2|]. split; [exact D3|]. split; [exact D4|]. intros _. rewrite <- R7. apply D5, R5b.
  - destruct (IH1 _ R1 R2 eq_refl (R6 eq_refl) ltac:(lia) Hok Hx) as [I1 _]. rewrite R7 in I1.
    eapply AdvRes_cons; [| exact R3 | exact R4 | exact I1]. lia.
Qed.

(* the tick, then the rest *)
Lemma live_tick f target k since t : KInv cfg k -> BaseX k -> cl_cancelled (ka_cl k) = None -> LiveInv k since ->
  ka_next k = Some t -> before_deadline (ka_cl k) t -> t <= target ->
  (forall k1 since1, KInv cfg k1 -> BaseX k1 -> cl_cancelled (ka_cl k1) = None -> LiveInv k1 since1 -> cl_now (ka_cl k1) <= target ->
     ka_advance_ok f cfg k1 target = true -> ka_excl (fst (ka_advance f cfg k1 target)) = false ->
     AdvRes (cl_now (ka_cl k1)) target since1 (ka_advance f cfg k1 target) /\ ka_excl k1 = false) ->
  adv_ok cfg (ka_cl k) (CAdv (t - cl_now (ka_cl k))) &&
    (let '(k1, o1) := ka_absorb cfg k (cl_step cfg (ka_cl k) (CAdv (t - cl_now (ka_cl k)))) in
     let k1 := k1 <| ka_next := Some (t + ka_period cfg) |> in
     let '(k2, o2) := if is_some (ka_busy k1) then (k1 <| ka_tick := true |>, [])
                      else ka_settle 4 cfg (k1 <| ka_tick := true |>) in
     ka_advance_ok f cfg k2 target) = true ->
  ka_excl (fst (let '(k1, o1) := ka_absorb cfg k (cl_step cfg (ka_cl k) (CAdv (t - cl_now (ka_cl k)))) in
                let k1 := k1 <| ka_next := Some (t + ka_period cfg) |> in
                let '(k2, o2) := if is_some (ka_busy k1) then (k1 <| ka_tick := true |>, [])
                                 else ka_settle 4 cfg (k1 <| ka_tick := true |>) in
                let '(k3, o3) := ka_advance f cfg k2 target in (k3, o1 ++ o2 ++ o3))) = false ->
  AdvRes (cl_now (ka_cl k)) target since
    (let '(k1, o1) := ka_absorb cfg k (cl_step cfg (ka_cl k) (CAdv (t - cl_now (ka_cl k)))) in
     let k1 := k1 <| ka_next := Some (t + ka_period cfg) |> in
     let '(k2, o2) := if is_some (ka_busy k1) then (k1 <| ka_tick := true |>, [])
                      else ka_settle 4 cfg (k1 <| ka_tick := true |>) in
     let '(k3, o3) := ka_advance f cfg k2 target in (k3, o1 ++ o2 ++ o3)) /\ ka_excl k = false.
Proof.
  intros HK HB Ha HL Ht Hbd Htg IH Hok Hx. apply andb_true_iff in Hok. destruct Hok as [Hadv Hok].
  pose proof (alive_not_done k HB Ha) as Hd.
  assert (L2 : cl_now (ka_cl k) <= t) by (destruct HK as [[_ Hl] _]; destruct (Hl Hd) as (_ & L2 & _); apply L2, Ht).
  rewrite (tick_absorb cfg Hka k t (proj1 HK) Hd Ht Hbd) in *. cbv beta iota zeta in *.
  set (kt := k <| ka_cl := ka_cl k <| cl_now := t |> |> <| ka_next := Some (t + ka_period cfg) |> <| ka_tick := true |>) in *.
  change (ka_busy (k <| ka_cl := ka_cl k <| cl_now := t |> |> <| ka_next := Some (t + ka_period cfg) |>)) with (ka_busy kt) in *.
  pose proof (tick_mine k since t HK HB Ha HL Ht Hbd Hadv kt eq_refl _ eq_refl) as TM.
  destruct (if is_some (ka_busy kt) then (kt, []) else ka_settle 4 cfg kt) as [k2 o2]. cbn [fst snd] in TM.
  pose proof (IH k2) as IH1. pose proof (advance_excl cfg target f k2) as Hae.
  destruct (ka_advance f cfg k2 target) as [k3 o3]. cbn [fst snd app] in *.
  assert (Hx2 : ka_excl k2 = false) by (destruct (ka_excl k2); [rewrite Hae in Hx by reflexivity; discriminate Hx|reflexivity]).
  destruct (TM Hx2) as (T1 & T2 & T3 & T4 & T5 & T6 & T7 & T8).
  split; [|exact T8].
  destruct (IH1 _ T1 T2 T5 T6 ltac:(lia) Hok Hx) as [I1 _]. rewrite T7 in I1.
  eapply AdvRes_cons; [| exact T3 | exact T4 | exact I1]. exact L2.
Qed.

Lemma advance_live target : forall f k since, KInv cfg k -> BaseX k -> cl_cancelled (ka_cl k) = None -> LiveInv k since ->
  cl_now (ka_cl k) <= target -> ka_advance_ok f cfg k target = true -> ka_excl (fst (ka_advance f cfg k target)) = false ->
  AdvRes (cl_now (ka_cl k)) target since (ka_advance f cfg k target) /\ ka_excl k = false.
Proof.
  induction f as [|f IH]; intros k since HK HB Ha HL Hnt Hok Hx; [cbn in Hx; discriminate Hx|].
  pose proof (alive_not_done k HB Ha) as Hd. pose proof (bc_si _ _ (bx_cl k HB)) as Hsi.
  assert (Hl2 : forall t, ka_next k = Some t -> cl_now (ka_cl k) <= t).
  { destruct HK as [[_ Hl] _]. destruct (Hl Hd) as (_ & L2 & _). exact L2. }
  assert (Ear : forall x, cl_now (ka_cl k) <= x -> cl_now (ka_cl k) + (x - cl_now (ka_cl k)) = x) by (intros x Hx0; lia).
  cbn [ka_advance ka_advance_ok] in *. cbv zeta in *. rewrite Hd in *.
  destruct (ka_next k) as [t|] eqn:Ht.
  - specialize (Hl2 t eq_refl).
    destruct (cl_deadline (ka_cl k)) as [c|] eqn:Ec.
    + pose proof (deadline_ge_now _ _ Hsi Ec) as Hnc.
      destruct (c <=? t) eqn:Ect.
      * apply N.leb_le in Ect. destruct (target <? c) eqn:Etc.
        -- apply N.ltb_lt in Etc. apply live_final; try assumption; [apply Ear, Hnt| |].
           ++ intros c' E'. rewrite Ec in E'. injection E' as <-. lia.
           ++ intros t' E'. rewrite Ht in E'. injection E' as <-. lia.
        -- apply N.ltb_ge in Etc. apply live_rec; try assumption.
           ++ rewrite Ear by exact Hnc. exact Etc.
           ++ intros c' E'. rewrite Ec in E'. injection E' as <-. rewrite Ear by exact Hnc. lia.
           ++ intros t' E'. rewrite Ht in E'. injection E' as <-. rewrite Ear by exact Hnc. exact Ect.
      * apply N.leb_gt in Ect. destruct (target <? t) eqn:Ett.
        -- apply N.ltb_lt in Ett. apply live_final; try assumption; [apply Ear, Hnt| |].
           ++ intros c' E'. rewrite Ec in E'. injection E' as <-. lia.
           ++ intros t' E'. rewrite Ht in E'. injection E' as <-. lia.
        -- apply N.ltb_ge in Ett. apply live_tick; try assumption. unfold before_deadline. rewrite Ec. exact Ect.
    + cbn [andb] in *. destruct (target <? t) eqn:Ett.
      * apply N.ltb_lt in Ett. apply live_final; try assumption; [apply Ear, Hnt| |].
        -- intros c' E'. rewrite Ec in E'. discriminate E'.
        -- intros t' E'. rewrite Ht in E'. injection E' as <-. lia.
      * apply N.ltb_ge in Ett. apply live_tick; try assumption. unfold before_deadline. rewrite Ec. exact I.
  - destruct (cl_deadline (ka_cl k)) as [c|] eqn:Ec.
    + pose proof (deadline_ge_now _ _ Hsi Ec) as Hnc. destruct (target <? c) eqn:Etc.
      * apply N.ltb_lt in Etc. apply live_final; try assumption; [apply Ear, Hnt| |].
        -- intros c' E'. rewrite Ec in E'. injection E' as <-. lia.
        -- intros t' E'. rewrite Ht in E'. discriminate E'.
      * apply N.ltb_ge in Etc. apply (live_rec f target k since (c - cl_now (ka_cl k)) false); try assumption.
        -- rewrite Ear by exact Hnc. exact Etc.
        -- intros c' E'. rewrite Ec in E'. injection E' as <-. rewrite Ear by exact Hnc. lia.
        -- intros t' E'. rewrite Ht in E'. discriminate E'.
    + apply live_final; try assumption; [apply Ear, Hnt| |].
      * intros c' E'. rewrite Ec in E'. discriminate E'.
      * intros t' E'. rewrite Ht in E'. discriminate E'.
Qed.

(* ------------------------------------------------------------------ what the monitor computes *)
Lemma gap_fuel o : (length (pingsOf (emarks o)) + length (chgsOf (emarks o)) <= length (pingsOf (emarks o)) + length (ko_changes o))%nat.
Proof. rewrite <- mon_chgs_emarks. unfold mon_chgs. rewrite map_length. lia. Qed.

Lemma gap_alive k k' o ev m since' :
  tsorted (emarks o) -> gfold (emarks o) (km_since m) = (since', []) ->
  cl_cancelled (ka_cl k') = None -> cl_exited (ka_cl k') = false ->
  (forall s0, since' = Some s0 -> match ev with CAdv d => cl_now (ka_cl k) + d | _ => cl_now (ka_cl k) end - s0 <= ka_bound cfg) ->
  gap_part cfg k k' o ev m = (since', []).
Proof.
  intros Hs Hf Hc He Hb. unfold gap_part. cbv zeta. rewrite Hc, He.
  rewrite mon_pings_emarks, mon_chgs_emarks. rewrite (merge_fold_all _ _ _ _ Hs) by apply gap_fuel.
  rewrite Hf. cbn [is_some negb andb]. destruct since' as [s0|]; [|reflexivity].
  assert (E : (ka_bound cfg <? match ev with CAdv d => cl_now (ka_cl k) + d | _ => cl_now (ka_cl k) end - s0) = false)
    by (apply N.ltb_ge, Hb; reflexivity).
  rewrite E. reflexivity.
Qed.

Lemma gap_dead_split k k' o ev m te E1 E2 :
  tsorted (emarks o) -> emarks o = E1 ++ E2 -> snd (gfold E1 (km_since m)) = [] ->
  (forall x, In x E2 -> te < mark_time x + readTimeout) -> cl_cancelled (ka_cl k') = Some te ->
  gap_part cfg k k' o ev m = (None, []).
Proof.
  intros Hs EE Hf H2 Hc. unfold gap_part. cbv zeta. rewrite Hc.
  rewrite mon_pings_emarks, mon_chgs_emarks.
  change (fun mk : mark => mark_time mk + readTimeout <=? te) with (tfilter te).
  rewrite (merge_fold_filter _ _ _ _ _ (tfilter_dclosed te) Hs) by apply gap_fuel.
  rewrite EE, filter_app.
  assert (E2nil : List.filter (tfilter te) E2 = []).
  { clear -H2. induction E2 as [|x E2 IH]; [reflexivity|]. cbn [List.filter].
    assert (Ex : tfilter te x = false) by (unfold tfilter; apply N.leb_gt, H2; left; reflexivity). rewrite Ex.
    apply IH. intros y Hy. apply H2. right. exact Hy. }
  rewrite E2nil, app_nil_r.
  assert (Hs1 : tsorted E1) by (rewrite EE in Hs; apply tsorted_app in Hs; apply Hs).
  pose proof (nofail_filter (ka_bound cfg) (tfilter te) E1 (tfilter_dclosed te) Hs1 (km_since m) Hf) as Hn.
  destruct (gfold (List.filter (tfilter te) E1) (km_since m)) as [since f1]. cbn [snd] in Hn. subst f1.
  cbn [is_some negb andb]. reflexivity.
Qed.

Lemma gap_dead_none k k' o ev m te :
  km_since m = None -> no_act (emarks o) -> cl_cancelled (ka_cl k') = Some te -> gap_part cfg k k' o ev m = (None, []).
Proof.
  intros Hm Hna Hc. unfold gap_part. cbv zeta. rewrite Hc, Hm.
  rewrite mon_pings_emarks, mon_chgs_emarks. rewrite fold_none; [reflexivity|].
  intros t Hi. apply filter_In in Hi. destruct Hi as [Hi _]. apply merge_in in Hi. destruct Hi as [Hi|Hi]; apply filter_In in Hi; apply (Hna t), Hi.
Qed.

(* ------------------------------------------------------------------ one step of the wrapper next to the monitor *)
Definition GInv (k : ka_state) (since : option N) : Prop :=
  KInv cfg k /\ BaseX k /\ (cl_cancelled (ka_cl k) = None -> LiveInv k since) /\ (cl_cancelled (ka_cl k) <> None -> since = None).

Lemma GInv_final k' since' : KInv cfg k' -> BaseX k' -> cl_cancelled (ka_cl k') = None -> LiveInv k' since' ->
  forall s0, since' = Some s0 -> cl_now (ka_cl k') - s0 <= ka_bound cfg.
Proof.
  intros HK HB Ha HL s0 Es. pose proof (bc_si _ _ (bx_cl k' HB)) as Hsi. pose proof (alive_not_done k' HB Ha) as Hd.
  apply (covered k' since' (cl_now (ka_cl k')) HK HB Ha HL); [apply (si_t1 _ Hsi)| |lia|exact Es].
  destruct HK as [[_ Hl] _]. destruct (Hl Hd) as (_ & L2 & _). exact L2.
Qed.

Lemma BaseX_victims k v : BaseX k -> BaseX (k <| ka_victims := v |>).
Proof. intros [B1 B2 B3 B4 B5 B6]. split; assumption. Qed.

Lemma step_gap k m ev : GInv k (km_since m) -> ka_excl (fst (ka_step cfg k ev)) = false ->
  ka_user_ok k ev = true -> ka_clock_ok cfg k ev = true ->
  snd (gap_part cfg k (fst (ka_step cfg k ev)) (snd (ka_step cfg k ev)) ev m) = [] /\
  GInv (fst (ka_step cfg k ev)) (fst (gap_part cfg k (fst (ka_step cfg k ev)) (snd (ka_step cfg k ev)) ev m)).
Proof.
  intros (HK & HB & HL & HN) Hx Huo Hco. unfold ka_step in *. rewrite (ka_nz cfg Hka) in *.
  assert (Hfin : forall k' o since', KInv cfg k' -> BaseX k' -> cl_cancelled (ka_cl k') = None -> LiveInv k' since' ->
            tsorted (emarks o) -> gfold (emarks o) (km_since m) = (since', []) ->
            cl_now (ka_cl k') = match ev with CAdv d => cl_now (ka_cl k) + d | _ => cl_now (ka_cl k) end ->
            snd (gap_part cfg k k' o ev m) = [] /\ GInv k' (fst (gap_part cfg k k' o ev m))).
  { intros k' o since' HK' HB' Ha' HL' Hs Hf Hn.
    destruct (si_c2 _ (bc_si _ _ (bx_cl k' HB')) Ha') as (_ & He & _).
    rewrite (gap_alive k k' o ev m since' Hs Hf Ha' He) by (intros s0 Es; rewrite <- Hn; exact (GInv_final k' since' HK' HB' Ha' HL' s0 Es)).
    cbn [fst snd]. split; [reflexivity|]. split; [exact HK'|]. split; [exact HB'|]. split; [intros _; exact HL'|intros H; destruct (H Ha')]. }
  assert (Hdd : forall k' o, KInv cfg k' -> BaseX k' -> cl_cancelled (ka_cl k') <> None -> gap_part cfg k k' o ev m = (None, []) ->
            snd (gap_part cfg k k' o ev m) = [] /\ GInv k' (fst (gap_part cfg k k' o ev m))).
  { intros k' o HK' HB' Hc' E. rewrite E. cbn [fst snd]. split; [reflexivity|]. split; [exact HK'|]. split; [exact HB'|].
    split; [intros H; destruct (Hc' H)|reflexivity]. }
  destruct (cl_cancelled (ka_cl k)) as [te|] eqn:Eca.
  - (* a dead client *)
    specialize (HN ltac:(discriminate)).
    destruct ev as [id a|dg|d].
    + set (kv := k <| ka_victims := ka_victims k ++ stolen_pingresp k (CCall id a) |>) in *.
      destruct (user_dead kv (CCall id a) te ltac:(intros d E; discriminate E) HK (BaseX_victims _ _ HB) Eca Hx) as (R1 & R2 & R3 & R4).
      apply Hdd; [exact R1|exact R2|rewrite R4; discriminate|]. eapply gap_dead_none; eassumption.
    + set (kv := k <| ka_victims := ka_victims k ++ stolen_pingresp k (CGw dg) |>) in *.
      destruct (user_dead kv (CGw dg) te ltac:(intros d E; discriminate E) HK (BaseX_victims _ _ HB) Eca Hx) as (R1 & R2 & R3 & R4).
      apply Hdd; [exact R1|exact R2|rewrite R4; discriminate|]. eapply gap_dead_none; eassumption.
    + cbn [ka_clock_ok] in Hco.
      destruct (advance_dead (cl_now (ka_cl k) + d) (ka_fuel cfg k d) k te HK HB Eca ltac:(lia) Hco Hx) as ((R1 & R2 & R3 & R4 & _) & _).
      apply Hdd; [exact R1|exact R2|rewrite R4; discriminate|]. eapply gap_dead_none; eassumption.
  - (* a live client *)
    specialize (HL eq_refl).
    destruct ev as [id a|dg|d].
    + set (kv := k <| ka_victims := ka_victims k ++ stolen_pingresp k (CCall id a) |>) in *.
      destruct (user_mine kv (km_since m) (CCall id a) ltac:(intros d E; discriminate E) Huo HK (BaseX_victims _ _ HB) Eca HL Hx) as (R1 & R2 & R3 & R4 & R5 & R6).
      cbv zeta in *. change (ka_cl kv) with (ka_cl k) in *.
      destruct (cl_cancelled (ka_cl (fst (ka_do cfg kv (CCall id a))))) as [te'|] eqn:Ec'.
      * apply Hdd; [exact R1|exact R2|rewrite Ec'; discriminate|].
        apply (gap_dead_split k _ _ _ m te' (emarks (snd (ka_do cfg kv (CCall id a)))) []); [apply (marks_at_sorted _ _ R3)|rewrite app_nil_r; reflexivity|rewrite R4; reflexivity|intros x []|exact Ec'].
      * apply (Hfin _ _ _ R1 R2 Ec' (R5 eq_refl) (marks_at_sorted _ _ R3) R4 R6).
    + set (kv := k <| ka_victims := ka_victims k ++ stolen_pingresp k (CGw dg) |>) in *.
      destruct (user_mine kv (km_since m) (CGw dg) ltac:(intros d E; discriminate E) Huo HK (BaseX_victims _ _ HB) Eca HL Hx) as (R1 & R2 & R3 & R4 & R5 & R6).
      cbv zeta in *. change (ka_cl kv) with (ka_cl k) in *.
      destruct (cl_cancelled (ka_cl (fst (ka_do cfg kv (CGw dg))))) as [te'|] eqn:Ec'.
      * apply Hdd; [exact R1|exact R2|rewrite Ec'; discriminate|].
        apply (gap_dead_split k _ _ _ m te' (emarks (snd (ka_do cfg kv (CGw dg)))) []); [apply (marks_at_sorted _ _ R3)|rewrite app_nil_r; reflexivity|rewrite R4; reflexivity|intros x []|exact Ec'].
      * apply (Hfin _ _ _ R1 R2 Ec' (R5 eq_refl) (marks_at_sorted _ _ R3) R4 R6).
    + cbn [ka_clock_ok] in Hco.
      destruct (advance_live (cl_now (ka_cl k) + d) (ka_fuel cfg k d) k (km_since m) HK HB Eca HL ltac:(lia) Hco Hx) as ((R1 & R2 & R3 & R4 & R5) & _).
      destruct R5 as [(A1 & A2 & A3 & A4)|(te' & E1 & E2 & A1 & A2 & A3 & A4)].
      * apply (Hfin _ _ _ R1 R2 A1 A3 R3); [|exact A4].
        destruct (gfold (emarks (snd (ka_advance (ka_fuel cfg k d) cfg k (cl_now (ka_cl k) + d)))) (km_since m)) as [s1 f1]. cbn [fst snd] in *. subst f1. reflexivity.
      * apply Hdd; [exact R1|exact R2|rewrite A1; discriminate|]. eapply gap_dead_split; eassumption.
Qed.
End Gap.

(* ================================================================== 4. all histories *)
Fixpoint ka_run_allb (cfg : cl_cfg) (P : ka_state -> cl_event -> bool) (k : ka_state) (evs : list cl_event) : bool :=
  match evs with
  | [] => true
  | ev :: evs' => P k ev && ka_run_allb cfg P (fst (ka_step cfg k ev)) evs'
  end.

Lemma GInv_init cfg : GInv cfg ka_init None.
Proof.
  split; [apply KInv_init|]. split; [|split; [intros _; apply LiveInv_none|reflexivity]].
  split; cbn.
  - split; [exact SI_init|exact calls_uniq_init|apply invA_init|]. intros g t c H. cbn in H. rewrite lookup_empty in H. discriminate H.
  - intros H. discriminate H.
  - intros _ _ H. discriminate H.
  - intros _ H. destruct (H eq_refl).
  - intros _ st H. discriminate H.
  - intros _ t H. discriminate H.
Qed.

Lemma kmon_run_gap cfg (Hcfg : wf_cl_cfg cfg) (Hka : 0 < k_keepalive cfg) : forall evs k m, GInv cfg k (km_since m) ->
  ka_modelled cfg k evs = true -> ka_run_allb cfg ka_user_ok k evs = true -> ka_run_allb cfg (ka_clock_ok cfg) k evs = true ->
  forall pc, In pc (kmon_run cfg k m evs) -> pc <> (33, 1).
Proof.
  induction evs as [|ev evs' IH]; intros k m HG Hm Hu Hc pc Hi; [destruct Hi|].
  cbn [ka_modelled ka_run_allb kmon_run] in *.
  apply andb_true_iff in Hm. destruct Hm as [_ Hm]. apply andb_true_iff in Hu. destruct Hu as [Hu1 Hu2].
  apply andb_true_iff in Hc. destruct Hc as [Hc1 Hc2].
  pose proof (modelled_excl _ _ _ Hm) as Hx.
  destruct (step_gap cfg Hcfg Hka k m ev HG Hx Hu1 Hc1) as [S1 S2].
  destruct (kmon_step_eq cfg k (fst (ka_step cfg k ev)) (snd (ka_step cfg k ev)) ev m (ka_nz cfg Hka)) as (f23 & E & Hf).
  destruct (ka_step cfg k ev) as [k' o]. cbn [fst snd] in *. rewrite E in Hi. rewrite S1 in Hi. cbn [app] in Hi.
  apply in_app_or in Hi. destruct Hi as [Hi|Hi]; [apply Hf, Hi|].
  eapply (IH k' {| km_since := fst (gap_part cfg k k' o ev m) |}); try eassumption.
Qed.

(* Inside the sequential model the monitor never reports the gap clause (33,1).  Side conditions, all executable and
   checked along the run: the history stays inside the model (ka_modelled); the identifiers of the API calls are below
   INTERNAL and not those of pending calls (ka_user_ok); the client's clock is not stuck in any sub-step of an advance
   (ka_clock_ok: Sound_ClTimed.adv_ok for every cl_step (CAdv _) inside ka_advance; it can fail only when c_run_timers
   runs out of fuel). *)
Theorem kmon_gap_sound : forall cfg evs, wf_cl_cfg cfg -> 0 < k_keepalive cfg ->
  ka_modelled cfg ka_init evs = true ->
  ka_run_allb cfg ka_user_ok ka_init evs = true ->
  ka_run_allb cfg (ka_clock_ok cfg) ka_init evs = true ->
  forall pc, In pc (kmon_run cfg ka_init kmon_init evs) -> pc <> (33, 1).
Proof.
  intros cfg evs Hcfg Hka Hm Hu Hc. apply (kmon_run_gap cfg Hcfg Hka evs ka_init kmon_init); try assumption. apply GInv_init.
Qed.


(* the invariant holds after every prefix of the history (fst: the wrapper state, snd: the monitor state) *)
Fixpoint kmon_states (cfg : cl_cfg) (k : ka_state) (m : kmon) (evs : list cl_event) : list (ka_state * kmon) :=
  (k, m) :: match evs with
            | [] => []
            | ev :: evs' =>
              let '(k', o) := ka_step cfg k ev in
              let '(m', f) := kmon_step cfg k k' o ev (ko_cl o) m in
              kmon_states cfg k' m' evs'
            end.

Lemma kmon_states_inv cfg (Hcfg : wf_cl_cfg cfg) (Hka : 0 < k_keepalive cfg) : forall evs k m, GInv cfg k (km_since m) ->
  ka_modelled cfg k evs = true -> ka_run_allb cfg ka_user_ok k evs = true -> ka_run_allb cfg (ka_clock_ok cfg) k evs = true ->
  forall km, In km (kmon_states cfg k m evs) -> GInv cfg (fst km) (km_since (snd km)).
Proof.
  induction evs as [|ev evs' IH]; intros k m HG Hm Hu Hc km Hi; cbn [kmon_states] in Hi.
  { destruct Hi as [<-|[]]. exact HG. }
  destruct Hi as [<-|Hi]; [exact HG|].
  cbn [ka_modelled ka_run_allb] in *.
  apply andb_true_iff in Hm. destruct Hm as [_ Hm]. apply andb_true_iff in Hu. destruct Hu as [Hu1 Hu2].
  apply andb_true_iff in Hc. destruct Hc as [Hc1 Hc2].
  pose proof (modelled_excl _ _ _ Hm) as Hx.
  destruct (step_gap cfg Hcfg Hka k m ev HG Hx Hu1 Hc1) as [S1 S2].
  destruct (kmon_step_eq cfg k (fst (ka_step cfg k ev)) (snd (ka_step cfg k ev)) ev m (ka_nz cfg Hka)) as (f23 & E & Hf).
  destruct (ka_step cfg k ev) as [k' o]. cbn [fst snd] in *. rewrite E in Hi.
  eapply (IH k' {| km_since := fst (gap_part cfg k k' o ev m) |}); eassumption.
Qed.

Theorem kmon_gap_invariant : forall cfg evs, wf_cl_cfg cfg -> 0 < k_keepalive cfg ->
  ka_modelled cfg ka_init evs = true ->
  ka_run_allb cfg ka_user_ok ka_init evs = true ->
  ka_run_allb cfg (ka_clock_ok cfg) ka_init evs = true ->
  forall km, In km (kmon_states cfg ka_init kmon_init evs) -> GInv cfg (fst km) (km_since (snd km)).
Proof.
  intros cfg evs Hcfg Hka Hm Hu Hc. apply (kmon_states_inv cfg Hcfg Hka evs ka_init kmon_init); try assumption. apply GInv_init.
Qed.

(* ================================================================== 5. examples *)
(* the counterexample to the statement for the former monitor (marks kept up to the exit time): inside the model, all side
   conditions true; the repaired monitor reports nothing *)
Definition cfg_cex : cl_cfg :=
  {| k_cid := [99;108;49]; k_user := []; k_pass := []; k_keepalive := 1; k_ctimeout := 5000; k_rdelay := 700;
     k_rcount := 1; k_clean := true; k_will := []; k_wmsg := []; k_wqos := 0; k_wretain := false; k_predef := [] |}.
Definition gap_cex : list cl_event :=
  [CCall 1 AConnect; CAdv 10; G33 (Connack 0); CAdv 5; CCall 2 (ASleep 2800); CAdv 5; G33 (Disconnect 0); CAdv 5;
   CCall 3 AConnect; CAdv 5; G33 (Connack 0); CAdv 4000].
Example gap_cex_now_accepted :
  ka_modelled cfg_cex ka_init gap_cex = true /\ ka_run_allb cfg_cex ka_user_ok ka_init gap_cex = true /\
  ka_run_allb cfg_cex (ka_clock_ok cfg_cex) ka_init gap_cex = true /\
  kmon_run cfg_cex ka_init kmon_init gap_cex = [] /\
  List.last (fst (ka_run cfg_cex ka_init gap_cex)) [] =
    [KoPing 1030 1000000; KoCl (CoSn 1030 [2; 22]); KoCl (CoSn 1730 [2; 22]); KoCl (CoSn 2820 [5; 22; 99; 108; 49]);
     KoState 2820 Awake; KoCl (CoExit 3030); KoCl (CoRet 3030 2 RCancelled)].
Proof. repeat split; vm_compute; reflexivity. Qed.

(* the side conditions hold for the ordinary history of Sound_Ka.v (three answered keep-alive pings, a Sleep cycle)
   and for the two refutation histories: the theorem applies to them *)
Example gap_side_conditions_ordinary :
  ka_run_allb cfg33 ka_user_ok ka_init h_ordinary = true /\ ka_run_allb cfg33 (ka_clock_ok cfg33) ka_init h_ordinary = true /\
  ka_run_allb cfg33 ka_user_ok ka_init h_retransmit = true /\ ka_run_allb cfg33 (ka_clock_ok cfg33) ka_init h_retransmit = true /\
  ka_run_allb cfg33 ka_user_ok ka_init h_victim = true /\ ka_run_allb cfg33 (ka_clock_ok cfg33) ka_init h_victim = true.
Proof. repeat split; vm_compute; reflexivity. Qed.
Example gap_sound_ordinary : forall pc, In pc (kmon_run cfg33 ka_init kmon_init h_ordinary) -> pc <> (33, 1).
Proof.
  apply kmon_gap_sound; [exact wf_cfg33|reflexivity|vm_compute; reflexivity|vm_compute; reflexivity|vm_compute; reflexivity].
Qed.

Print Assumptions kmon_gap_invariant.
Print Assumptions gap_cex_now_accepted.
Print Assumptions kmon_gap_sound.
