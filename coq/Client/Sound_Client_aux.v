(* Client/Sound_Client_aux.v — codec facts used by Sound_Client.v: what the datagrams written by
   the client model decode to.  The packets are not assumed well-formed in the sense of wf_pkt:
   topic names and payloads come from the API caller and are only bounded by the size check of
   c_send; QoS values above 3 are masked by the encoder. *)
From Coq Require Import List NArith Bool Lia ZArith ZifyN ZifyNat ZifyBool.
From Verif.Base Require Import Bytes BytesProofs.
From Verif.Codec Require Import Packets Decode Encode EncodeProofs.
From Verif.Checkers Require Import ChkCodec.
Import ListNotations.
Open Scope N_scope.
Ltac Zify.zify_post_hook ::= Z.div_mod_to_equations.

(* ------------------------------------------------------------------ framed datagrams *)

(* Section Framed of Codec/EncodeProofs.v with the bound that the size check gives. *)
Section Framed2.
  Variables (t : N) (body : bytes).
  Hypothesis Ht : t < 256.
  Hypothesis Hlen : len body <= 9000.
  Hypothesis Hsz : len (hdr (len body) t ++ body) <= MaxPacketLen.

  Lemma framed2_read : known_type t = true -> read_dgram (hdr (len body) t ++ body) = unpack_body t body.
  Proof.
    intros Hk. unfold read_dgram.
    rewrite firstn_max by exact Hsz.
    destruct (N.le_gt_cases (len body + 2) 255) as [Hs|Hl].
    - rewrite hdr_short by assumption. cbn [app]. apply read_packet_short; [lia|exact Hk].
    - rewrite hdr_long by lia. cbn [app]. apply read_packet_long. exact Hk.
  Qed.

  Lemma framed2_announced :
    announced_len (hdr (len body) t ++ body) = Some (len (hdr (len body) t ++ body)).
  Proof.
    destruct (N.le_gt_cases (len body + 2) 255) as [Hs|Hl].
    - rewrite hdr_short by assumption. cbn [app]. unfold announced_len.
      assert (E : (len body + 2 =? 1) = false) by (apply N.eqb_neq; lia).
      rewrite E. rewrite !len_cons. destruct body as [|x l]; f_equal; lia.
    - rewrite hdr_long by lia. cbn [app]. unfold announced_len.
      rewrite N.eqb_refl, !len_cons. f_equal. lia.
  Qed.
End Framed2.

Lemma len_le_app_r {A} (a b : list A) : len b <= len (a ++ b).
Proof. rewrite len_app. lia. Qed.

(* ------------------------------------------------------------------ packets the client writes *)

(* The constructors the client model passes to c_send besides CONNECT and AUTH (which are
   well-formed in the sense of wf_pkt under wf_cl_cfg), with the field conditions the encoder
   needs.  No bound on names or payloads: the size check is a separate hypothesis. *)
Definition csend (p : packet) : Prop :=
  match p with
  | Register _ _ _ | Regack _ _ _ | Publish _ _ _ _ _ _ _ | Puback _ _ _ | Pubcomp _ | Pubrec _ | Pubrel _
  | Pingreq _ | Disconnect _ | WillMsg _ => True
  | WillTopic _ _ t => len t <= 7168
  | Subscribe _ _ tit _ _ _ | Unsubscribe tit _ _ _ => tit < 3
  | _ => False
  end.

(* a REGISTER / SUBSCRIBE / UNSUBSCRIBE that carries a topic name carries a non-empty one
   (the decoder rejects the empty one: "bad length") *)
Definition namedb (p : packet) : bool :=
  match p with
  | Register _ _ nm => negb (len nm =? 0)
  | Subscribe _ _ tit _ _ nm | Unsubscribe tit _ _ nm => negb (tit =? 0) || negb (len nm =? 0)
  | _ => true
  end.

(* what the decoder makes of the encoding *)
Definition norm (p : packet) : packet :=
  match p with
  | Register ti mi nm => Register (u16 ti) (u16 mi) nm
  | Regack ti mi rc => Regack (u16 ti) (u16 mi) (u8 rc)
  | Publish dup q r tit ti mi d => Publish dup (q mod 4) r (tit mod 4) (u16 ti) (u16 mi) d
  | Puback ti mi rc => Puback (u16 ti) (u16 mi) (u8 rc)
  | Pubcomp mi => Pubcomp (u16 mi)
  | Pubrec mi => Pubrec (u16 mi)
  | Pubrel mi => Pubrel (u16 mi)
  | Subscribe dup q tit mi ti nm =>
    if tit =? 0 then Subscribe dup (q mod 4) 0 (u16 mi) 0 nm else Subscribe dup (q mod 4) tit (u16 mi) (u16 ti) []
  | Unsubscribe tit mi ti nm =>
    if tit =? 0 then Unsubscribe 0 (u16 mi) 0 nm else Unsubscribe tit (u16 mi) (u16 ti) []
  | Disconnect d => Disconnect (u16 d)
  | WillTopic q r t => match t with [] => WillTopic 0 false [] | _ => WillTopic (q mod 4) r t end
  | _ => p
  end.

Lemma ptype_norm (p : packet) : ptype (norm p) = ptype p.
Proof.
  destruct p; cbn [norm ptype]; try reflexivity.
  - destruct topic; reflexivity.
  - destruct (tit =? 0); reflexivity.
  - destruct (tit =? 0); reflexivity.
Qed.

(* pack_eq without wf_pkt, under the size check *)
Lemma pack_eq3 (p : packet) : csend p -> len (pack p) <= MaxPacketLen ->
  pack p = hdr (len (pbody p)) (ptype p) ++ pbody p /\ len (pbody p) <= 9000.
Proof.
  unfold MaxPacketLen.
  intros Hs Hsz. destruct_pkt p; cbn [csend] in Hs; try contradiction; cbn [pack pbody ptype] in *;
    try (split; [first [reflexivity|symmetry; apply app_nil_r]|len_norm; lia]).
  - (* WillTopic *)
    destruct topic as [|x t]; [split; [symmetry; apply app_nil_r|len_norm; lia]|].
    cbv zeta in *. rewrite len_cons in *.
    rewrite (u16_small (1 + len t)) in * by lia.
    rewrite varpart_pos in * by lia.
    split; [|len_norm; lia]. f_equal. f_equal. len_norm. lia.
  - (* WillMsg *)
    assert (Hn : len msg <= 8192).
    { etransitivity; [|exact Hsz]. apply len_le_app_r. }
    rewrite u16_small by lia. split; [reflexivity|lia].
  - (* Register *)
    assert (Hn : len name <= 8192).
    { etransitivity; [|exact Hsz]. rewrite !app_assoc. apply len_le_app_r. }
    rewrite u16_small by lia. split; [|len_norm; lia].
    f_equal. f_equal. len_norm. lia.
  - (* Publish *)
    assert (Hn : len data <= 8192).
    { etransitivity; [|exact Hsz]. rewrite !app_assoc. apply len_le_app_r. }
    rewrite u16_small by lia. split; [|len_norm; lia].
    f_equal. f_equal. len_norm. lia.
  - (* Subscribe *)
    cbv zeta in *. fold (tail_sub tit tid name) in *.
    assert (Hc : tit = 0 \/ tit = 1 \/ tit = 2) by lia.
    destruct Hc as [-> | [-> | ->]]; unfold TIT_STRING, TIT_PREDEFINED, TIT_SHORT in *; cbn [N.eqb Pos.eqb orb] in *;
      rewrite ?tail_sub_string, ?tail_sub_predef, ?tail_sub_short in *.
    + assert (Hn : len name <= 8192).
      { etransitivity; [|exact Hsz]. rewrite !app_assoc. apply len_le_app_r. }
      rewrite u16_small by lia. split; [|len_norm; lia].
      f_equal. f_equal. len_norm. lia.
    + split; [reflexivity|len_norm; lia].
    + split; [reflexivity|len_norm; lia].
  - (* Unsubscribe *)
    cbv zeta in *. fold (tail_sub tit tid name) in *.
    assert (Hc : tit = 0 \/ tit = 1 \/ tit = 2) by lia.
    destruct Hc as [-> | [-> | ->]]; unfold TIT_STRING, TIT_PREDEFINED, TIT_SHORT in *; cbn [N.eqb Pos.eqb orb] in *;
      rewrite ?tail_sub_string, ?tail_sub_predef, ?tail_sub_short in *.
    + assert (Hn : len name <= 8192).
      { etransitivity; [|exact Hsz]. rewrite !app_assoc. apply len_le_app_r. }
      rewrite u16_small by lia. split; [|len_norm; lia].
      f_equal. f_equal. len_norm. lia.
    + split; [reflexivity|len_norm; lia].
    + split; [reflexivity|len_norm; lia].
  - (* Pingreq *)
    assert (Hn : len cid <= 8192).
    { etransitivity; [|exact Hsz]. apply len_le_app_r. }
    rewrite u16_small by lia. split; [reflexivity|lia].
  - (* Disconnect *)
    destruct (u16 dur =? 0); (split; [first [reflexivity|symmetry; apply app_nil_r]|len_norm; lia]).
Qed.

Lemma be16_enc16w (x : N) : be16 ((x / 256) mod 256) (x mod 256) = u16 x.
Proof. unfold be16, u16. lia. Qed.

Definition dec_res (p : packet) : outcome packet := if namedb p then Ok (norm p) else Err ErrBadLength.

Lemma len_eq0_nil {A} (l : list A) : (len l =? 0) = true -> l = [].
Proof. intros H. apply N.eqb_eq in H. apply len_zero_nil, H. Qed.

Lemma len_ne0_cons {A} (l : list A) : (len l =? 0) = false -> exists x l', l = x :: l'.
Proof. intros H. apply N.eqb_neq in H. apply len_pos_cons. lia. Qed.

(* the body decodes as the normalised packet, or not at all when an empty topic name was given *)
Lemma unpack_pbody3 (p : packet) : csend p -> unpack_body (ptype p) (pbody p) = dec_res p.
Proof.
  intros Hs. unfold dec_res.
  destruct_pkt p; cbn [csend] in Hs; try contradiction; cbn [pbody ptype namedb norm].
  - (* WillTopic *)
    destruct topic as [|x t]; [reflexivity|]. dispatch. run. destruct retain; fields.
  - (* WillMsg *) reflexivity.
  - (* Register *)
    destruct (len name =? 0) eqn:E; cbn [negb].
    + apply len_eq0_nil in E. subst name. reflexivity.
    + apply len_ne0_cons in E. destruct E as [x [tl ->]]. dispatch. run. rewrite !be16_enc16w. reflexivity.
  - (* Regack *) dispatch. run. rewrite !be16_enc16w. reflexivity.
  - (* Publish *) dispatch. run. rewrite !be16_enc16w. destruct dup, retain; fields.
  - (* Puback *) dispatch. run. rewrite !be16_enc16w. reflexivity.
  - (* Pubcomp *) dispatch. run. rewrite !be16_enc16w. reflexivity.
  - (* Pubrec *) dispatch. run. rewrite !be16_enc16w. reflexivity.
  - (* Pubrel *) dispatch. run. rewrite !be16_enc16w. reflexivity.
  - (* Subscribe *)
    assert (Hc : tit = 0 \/ tit = 1 \/ tit = 2) by lia.
    destruct Hc as [-> | [-> | ->]]; cbn [N.eqb Pos.eqb negb orb];
      rewrite ?tail_sub_string, ?tail_sub_predef, ?tail_sub_short.
    + destruct (len name =? 0) eqn:E; cbn [negb].
      * apply len_eq0_nil in E. subst name. reflexivity.
      * apply len_ne0_cons in E. destruct E as [x [tl ->]]. dispatch. run.
        match goal with
        | |- context [?f mod 4 =? TIT_STRING] => replace (f mod 4) with 0 by (destruct dup; fld)
        end.
        tit_consts. run. rewrite !be16_enc16w. destruct dup; fields.
    + dispatch. run.
      match goal with
      | |- context [?f mod 4 =? TIT_STRING] => replace (f mod 4) with 1 by (destruct dup; fld)
      end.
      tit_consts. run. rewrite !be16_enc16w. destruct dup; fields.
    + dispatch. run.
      match goal with
      | |- context [?f mod 4 =? TIT_STRING] => replace (f mod 4) with 2 by (destruct dup; fld)
      end.
      tit_consts. run. rewrite !be16_enc16w. destruct dup; fields.
  - (* Unsubscribe *)
    assert (Hc : tit = 0 \/ tit = 1 \/ tit = 2) by lia.
    destruct Hc as [-> | [-> | ->]]; cbn [N.eqb Pos.eqb negb orb];
      rewrite ?tail_sub_string, ?tail_sub_predef, ?tail_sub_short.
    + destruct (len name =? 0) eqn:E; cbn [negb].
      * apply len_eq0_nil in E. subst name. reflexivity.
      * apply len_ne0_cons in E. destruct E as [x [tl ->]]. dispatch. run.
        change (0 mod 4 mod 4) with 0. tit_consts. run. rewrite !be16_enc16w. reflexivity.
    + dispatch. run. change (1 mod 4 mod 4) with 1. tit_consts. run. rewrite !be16_enc16w. reflexivity.
    + dispatch. run. change (2 mod 4 mod 4) with 2. tit_consts. run. rewrite !be16_enc16w. reflexivity.
  - (* Pingreq *) reflexivity.
  - (* Disconnect *)
    destruct (N.eqb_spec (u16 dur) 0) as [E|E].
    + rewrite E. reflexivity.
    + dispatch. run. rewrite !be16_enc16w. reflexivity.
Qed.

(* decoding of a datagram the client writes *)
Lemma read_csend (p : packet) : csend p -> len (pack p) <= MaxPacketLen -> read_dgram (pack p) = dec_res p.
Proof.
  intros Hs Hsz. destruct (pack_eq3 p Hs Hsz) as [Heq Hb].
  assert (Hsz' : len (hdr (len (pbody p)) (ptype p) ++ pbody p) <= MaxPacketLen) by (rewrite <- Heq; exact Hsz).
  rewrite Heq. rewrite framed2_read; [apply unpack_pbody3, Hs|apply ptype_byte|exact Hb|exact Hsz'|apply ptype_known].
Qed.

Lemma announced_csend (p : packet) : csend p -> len (pack p) <= MaxPacketLen ->
  announced_len (pack p) = Some (len (pack p)).
Proof.
  intros Hs Hsz. destruct (pack_eq3 p Hs Hsz) as [Heq Hb].
  assert (Hsz' : len (hdr (len (pbody p)) (ptype p) ++ pbody p) <= MaxPacketLen) by (rewrite <- Heq; exact Hsz).
  rewrite Heq. apply framed2_announced; [apply ptype_byte|exact Hb|exact Hsz'].
Qed.

(* ------------------------------------------------------------------ what a decoded datagram guarantees *)

Lemma get16_lt (b : bytes) (i : nat) (s : panic_site) (x : N) :
  wf_bytes b -> get16 b i s = Ok x -> x < 65536.
Proof.
  unfold get16, idx. intros Hb H.
  destruct (nth_error b i) as [hi|] eqn:E1; cbn [obind] in H; [|discriminate H].
  destruct (nth_error b (S i)) as [lo|] eqn:E2; cbn [obind] in H; [|discriminate H].
  injection H as <-.
  apply nth_error_In in E1. apply nth_error_In in E2.
  pose proof (proj1 (List.Forall_forall _ _) Hb) as Hall.
  pose proof (Hall _ E1) as H1. pose proof (Hall _ E2) as H2.
  apply is_byte_lt in H1. apply is_byte_lt in H2. unfold be16. lia.
Qed.

(* the message ID of a decoded PUBREL is a 16-bit value *)
Definition mid_fact (p : packet) : Prop := match p with Pubrel mid => mid < 65536 | _ => True end.

Ltac inv_unpack H :=
  repeat (cbv zeta in H;
          match type of H with
          | (if ?c then _ else _) = Ok _ => destruct c eqn:?; try discriminate H
          | obind ?o _ = Ok _ =>
            let E := fresh "E" in destruct o eqn:E; cbn [obind] in H; try discriminate H
          | (match ?n with O => _ | S _ => _ end) = Ok _ => destruct n; try discriminate H
          end).

Ltac other_unpack f :=
  let H := fresh "H" in
  unfold f; intros _ H; inv_unpack H; injection H as <-; exact I.

Lemma unpack_pubrel_fact buf p : wf_bytes buf -> unpack_pubrel buf = Ok p -> mid_fact p.
Proof.
  unfold unpack_pubrel. intros Hb H. inv_unpack H. injection H as <-. cbn [mid_fact].
  eapply get16_lt; eassumption.
Qed.

Lemma unpack_body_fact t buf p : wf_bytes buf -> unpack_body t buf = Ok p -> mid_fact p.
Proof.
  unfold unpack_body.
  repeat (match goal with |- _ -> (if ?c then _ else _) = _ -> _ => destruct c end).
  all: try (intros _ H; discriminate H).
  all: try apply unpack_pubrel_fact.
  - other_unpack unpack_advertise.
  - other_unpack unpack_searchgw.
  - other_unpack unpack_gwinfo.
  - other_unpack unpack_auth.
  - other_unpack unpack_connect.
  - other_unpack unpack_connack.
  - other_unpack unpack_willtopicreq.
  - other_unpack unpack_willtopic.
  - other_unpack unpack_willmsgreq.
  - other_unpack unpack_willmsg.
  - other_unpack unpack_register.
  - other_unpack unpack_regack.
  - other_unpack unpack_publish.
  - other_unpack unpack_puback.
  - other_unpack unpack_pubcomp.
  - other_unpack unpack_pubrec.
  - other_unpack unpack_subscribe.
  - other_unpack unpack_suback.
  - other_unpack unpack_unsubscribe.
  - other_unpack unpack_unsuback.
  - other_unpack unpack_pingreq.
  - other_unpack unpack_pingresp.
  - other_unpack unpack_disconnect.
  - other_unpack unpack_willtopicupd.
  - other_unpack unpack_willtopicresp.
  - other_unpack unpack_willmsgupd.
  - other_unpack unpack_willmsgresp.
Qed.

Lemma wf_bytes_firstn (n : nat) (b : bytes) : wf_bytes b -> wf_bytes (firstn n b).
Proof.
  unfold wf_bytes. intros H. apply Forall_forall. intros x Hx.
  apply (proj1 (Forall_forall _ _) H). revert Hx. revert n. induction b as [|y b IH]; intros [|n]; cbn; try tauto.
  intros [E|Hx]; [left; exact E|right]. eapply IH. - inversion H; assumption. - exact Hx.
Qed.

Lemma wf_bytes_skipn (n : nat) (b : bytes) : wf_bytes b -> wf_bytes (skipn n b).
Proof.
  unfold wf_bytes. revert n. induction b as [|y b IH]; intros [|n] H; cbn [skipn]; try assumption.
  apply IH. inversion H; assumption.
Qed.

Lemma read_dgram_fact dg p : wf_bytes dg -> read_dgram dg = Ok p -> mid_fact p.
Proof.
  unfold read_dgram, read_packet. set (raw := firstn _ dg). intros Hwf H.
  assert (Hraw : wf_bytes raw) by (apply wf_bytes_firstn, Hwf).
  destruct (header_unpack raw) as [h|e|ps]; cbn [obind] in H; try discriminate H.
  destruct (negb (known_type (h_type h))); try discriminate H.
  unfold slice_from in H.
  destruct (Nat.leb (encoded_header_length raw) (length raw)); cbn [obind] in H; try discriminate H.
  eapply unpack_body_fact; [|exact H]. apply wf_bytes_skipn, Hraw.
Qed.
