(* Client/Sound_Client_aux.v — codec facts used by Sound_Client.v: what the datagrams written by
   the client model decode to.  The packets are not assumed well-formed in the sense of wf_pkt:
   topic names and payloads come from the API caller and are only bounded by the size check of
   c_send; QoS values above 3 are masked by the encoder.
   Second half: invariants of the client model (InvA: stored packets and the message-ID store;
   K: distinct ids of pending API calls) and their preservation by cl_step. *)
From Coq Require Import List NArith Bool Lia ZArith ZifyN ZifyNat ZifyBool.
From Verif.Base Require Import Bytes BytesProofs.
From Verif.Codec Require Import Packets Decode Encode EncodeProofs.
From Verif.Checkers Require Import ChkCodec.
Import ListNotations.
Open Scope N_scope.
Ltac Zify.zify_post_hook ::= Z.div_mod_to_equations.

(* ------------------------------------------------------------------ framed datagrams *)

(* Section Framed of Codec/EncodeProofs.v with the bound that the size check gives. *)
Section Framed2.
  Variables (t : N) (body : bytes).
  Hypothesis Ht : t < 256.
  Hypothesis Hlen : len body <= 9000.
  Hypothesis Hsz : len (hdr (len body) t ++ body) <= MaxPacketLen.

  Lemma framed2_read : known_type t = true -> read_dgram (hdr (len body) t ++ body) = unpack_body t body.
  Proof.
    intros Hk. unfold read_dgram.
    rewrite firstn_max by exact Hsz.
    destruct (N.le_gt_cases (len body + 2) 255) as [Hs|Hl].
    - rewrite hdr_short by assumption. cbn [app]. apply read_packet_short; [lia|exact Hk].
    - rewrite hdr_long by lia. cbn [app]. apply read_packet_long. exact Hk.
  Qed.

  Lemma framed2_announced :
    announced_len (hdr (len body) t ++ body) = Some (len (hdr (len body) t ++ body)).
  Proof.
    destruct (N.le_gt_cases (len body + 2) 255) as [Hs|Hl].
    - rewrite hdr_short by assumption. cbn [app]. unfold announced_len.
      assert (E : (len body + 2 =? 1) = false) by (apply N.eqb_neq; lia).
      rewrite E. rewrite !len_cons. destruct body as [|x l]; f_equal; lia.
    - rewrite hdr_long by lia. cbn [app]. unfold announced_len.
      rewrite N.eqb_refl, !len_cons. f_equal. lia.
  Qed.
End Framed2.

Lemma len_le_app_r {A} (a b : list A) : len b <= len (a ++ b).
Proof. rewrite len_app. lia. Qed.

(* ------------------------------------------------------------------ packets the client writes *)

(* The constructors the client model passes to c_send besides CONNECT and AUTH (which are
   well-formed in the sense of wf_pkt under wf_cl_cfg), with the field conditions the encoder
   needs.  No bound on names or payloads: the size check is a separate hypothesis. *)
Definition csend (p : packet) : Prop :=
  match p with
  | Register _ _ _ | Regack _ _ _ | Publish _ _ _ _ _ _ _ | Puback _ _ _ | Pubcomp _ | Pubrec _ | Pubrel _
  | Pingreq _ | Disconnect _ | WillMsg _ => True
  | WillTopic _ _ t => len t <= 7168
  | Subscribe _ _ tit _ _ _ | Unsubscribe tit _ _ _ => tit < 3
  | _ => False
  end.

(* a REGISTER / SUBSCRIBE / UNSUBSCRIBE that carries a topic name carries a non-empty one
   (the decoder rejects the empty one: "bad length") *)
Definition namedb (p : packet) : bool :=
  match p with
  | Register _ _ nm => negb (len nm =? 0)
  | Subscribe _ _ tit _ _ nm | Unsubscribe tit _ _ nm => negb (tit =? 0) || negb (len nm =? 0)
  | _ => true
  end.

(* what the decoder makes of the encoding *)
Definition norm (p : packet) : packet :=
  match p with
  | Register ti mi nm => Register (u16 ti) (u16 mi) nm
  | Regack ti mi rc => Regack (u16 ti) (u16 mi) (u8 rc)
  | Publish dup q r tit ti mi d => Publish dup (q mod 4) r (tit mod 4) (u16 ti) (u16 mi) d
  | Puback ti mi rc => Puback (u16 ti) (u16 mi) (u8 rc)
  | Pubcomp mi => Pubcomp (u16 mi)
  | Pubrec mi => Pubrec (u16 mi)
  | Pubrel mi => Pubrel (u16 mi)
  | Subscribe dup q tit mi ti nm =>
    if tit =? 0 then Subscribe dup (q mod 4) 0 (u16 mi) 0 nm else Subscribe dup (q mod 4) tit (u16 mi) (u16 ti) []
  | Unsubscribe tit mi ti nm =>
    if tit =? 0 then Unsubscribe 0 (u16 mi) 0 nm else Unsubscribe tit (u16 mi) (u16 ti) []
  | Disconnect d => Disconnect (u16 d)
  | WillTopic q r t => match t with [] => WillTopic 0 false [] | _ => WillTopic (q mod 4) r t end
  | _ => p
  end.

Lemma ptype_norm (p : packet) : ptype (norm p) = ptype p.
Proof.
  destruct p; cbn [norm ptype]; try reflexivity.
  - destruct topic; reflexivity.
  - destruct (tit =? 0); reflexivity.
  - destruct (tit =? 0); reflexivity.
Qed.

(* pack_eq without wf_pkt, under the size check *)
Lemma pack_eq3 (p : packet) : csend p -> len (pack p) <= MaxPacketLen ->
  pack p = hdr (len (pbody p)) (ptype p) ++ pbody p /\ len (pbody p) <= 9000.
Proof.
  unfold MaxPacketLen.
  intros Hs Hsz. destruct_pkt p; cbn [csend] in Hs; try contradiction; cbn [pack pbody ptype] in *;
    try (split; [first [reflexivity|symmetry; apply app_nil_r]|len_norm; lia]).
  - (* WillTopic *)
    destruct topic as [|x t]; [split; [symmetry; apply app_nil_r|len_norm; lia]|].
    cbv zeta in *. rewrite len_cons in *.
    rewrite (u16_small (1 + len t)) in * by lia.
    rewrite varpart_pos in * by lia.
    split; [|len_norm; lia]. f_equal. f_equal. len_norm. lia.
  - (* WillMsg *)
    assert (Hn : len msg <= 8192).
    { etransitivity; [|exact Hsz]. apply len_le_app_r. }
    rewrite u16_small by lia. split; [reflexivity|lia].
  - (* Register *)
    assert (Hn : len name <= 8192).
    { etransitivity; [|exact Hsz]. rewrite !app_assoc. apply len_le_app_r. }
    rewrite u16_small by lia. split; [|len_norm; lia].
    f_equal. f_equal. len_norm. lia.
  - (* Publish *)
    assert (Hn : len data <= 8192).
    { etransitivity; [|exact Hsz]. rewrite !app_assoc. apply len_le_app_r. }
    rewrite u16_small by lia. split; [|len_norm; lia].
    f_equal. f_equal. len_norm. lia.
  - (* Subscribe *)
    cbv zeta in *. fold (tail_sub tit tid name) in *.
    assert (Hc : tit = 0 \/ tit = 1 \/ tit = 2) by lia.
    destruct Hc as [-> | [-> | ->]]; unfold TIT_STRING, TIT_PREDEFINED, TIT_SHORT in *; cbn [N.eqb Pos.eqb orb] in *;
      rewrite ?tail_sub_string, ?tail_sub_predef, ?tail_sub_short in *.
    + assert (Hn : len name <= 8192).
      { etransitivity; [|exact Hsz]. rewrite !app_assoc. apply len_le_app_r. }
      rewrite u16_small by lia. split; [|len_norm; lia].
      f_equal. f_equal. len_norm. lia.
    + split; [reflexivity|len_norm; lia].
    + split; [reflexivity|len_norm; lia].
  - (* Unsubscribe *)
    cbv zeta in *. fold (tail_sub tit tid name) in *.
    assert (Hc : tit = 0 \/ tit = 1 \/ tit = 2) by lia.
    destruct Hc as [-> | [-> | ->]]; unfold TIT_STRING, TIT_PREDEFINED, TIT_SHORT in *; cbn [N.eqb Pos.eqb orb] in *;
      rewrite ?tail_sub_string, ?tail_sub_predef, ?tail_sub_short in *.
    + assert (Hn : len name <= 8192).
      { etransitivity; [|exact Hsz]. rewrite !app_assoc. apply len_le_app_r. }
      rewrite u16_small by lia. split; [|len_norm; lia].
      f_equal. f_equal. len_norm. lia.
    + split; [reflexivity|len_norm; lia].
    + split; [reflexivity|len_norm; lia].
  - (* Pingreq *)
    assert (Hn : len cid <= 8192).
    { etransitivity; [|exact Hsz]. apply len_le_app_r. }
    rewrite u16_small by lia. split; [reflexivity|lia].
  - (* Disconnect *)
    destruct (u16 dur =? 0); (split; [first [reflexivity|symmetry; apply app_nil_r]|len_norm; lia]).
Qed.

Lemma be16_enc16w (x : N) : be16 ((x / 256) mod 256) (x mod 256) = u16 x.
Proof. unfold be16, u16. lia. Qed.

Definition dec_res (p : packet) : outcome packet := if namedb p then Ok (norm p) else Err ErrBadLength.

Lemma len_eq0_nil {A} (l : list A) : (len l =? 0) = true -> l = [].
Proof. intros H. apply N.eqb_eq in H. apply len_zero_nil, H. Qed.

Lemma len_ne0_cons {A} (l : list A) : (len l =? 0) = false -> exists x l', l = x :: l'.
Proof. intros H. apply N.eqb_neq in H. apply len_pos_cons. lia. Qed.

(* the body decodes as the normalised packet, or not at all when an empty topic name was given *)
Lemma unpack_pbody3 (p : packet) : csend p -> unpack_body (ptype p) (pbody p) = dec_res p.
Proof.
  intros Hs. unfold dec_res.
  destruct_pkt p; cbn [csend] in Hs; try contradiction; cbn [pbody ptype namedb norm].
  - (* WillTopic *)
    destruct topic as [|x t]; [reflexivity|]. dispatch. run. destruct retain; fields.
  - (* WillMsg *) reflexivity.
  - (* Register *)
    destruct (len name =? 0) eqn:E; cbn [negb].
    + apply len_eq0_nil in E. subst name. reflexivity.
    + apply len_ne0_cons in E. destruct E as [x [tl ->]]. dispatch. run. rewrite !be16_enc16w. reflexivity.
  - (* Regack *) dispatch. run. rewrite !be16_enc16w. reflexivity.
  - (* Publish *) dispatch. run. rewrite !be16_enc16w. destruct dup, retain; fields.
  - (* Puback *) dispatch. run. rewrite !be16_enc16w. reflexivity.
  - (* Pubcomp *) dispatch. run. rewrite !be16_enc16w. reflexivity.
  - (* Pubrec *) dispatch. run. rewrite !be16_enc16w. reflexivity.
  - (* Pubrel *) dispatch. run. rewrite !be16_enc16w. reflexivity.
  - (* Subscribe *)
    assert (Hc : tit = 0 \/ tit = 1 \/ tit = 2) by lia.
    destruct Hc as [-> | [-> | ->]]; cbn [N.eqb Pos.eqb negb orb];
      rewrite ?tail_sub_string, ?tail_sub_predef, ?tail_sub_short.
    + destruct (len name =? 0) eqn:E; cbn [negb].
      * apply len_eq0_nil in E. subst name. reflexivity.
      * apply len_ne0_cons in E. destruct E as [x [tl ->]]. dispatch. run.
        match goal with
        | |- context [?f mod 4 =? TIT_STRING] => replace (f mod 4) with 0 by (destruct dup; fld)
        end.
        tit_consts. run. rewrite !be16_enc16w. destruct dup; fields.
    + dispatch. run.
      match goal with
      | |- context [?f mod 4 =? TIT_STRING] => replace (f mod 4) with 1 by (destruct dup; fld)
      end.
      tit_consts. run. rewrite !be16_enc16w. destruct dup; fields.
    + dispatch. run.
      match goal with
      | |- context [?f mod 4 =? TIT_STRING] => replace (f mod 4) with 2 by (destruct dup; fld)
      end.
      tit_consts. run. rewrite !be16_enc16w. destruct dup; fields.
  - (* Unsubscribe *)
    assert (Hc : tit = 0 \/ tit = 1 \/ tit = 2) by lia.
    destruct Hc as [-> | [-> | ->]]; cbn [N.eqb Pos.eqb negb orb];
      rewrite ?tail_sub_string, ?tail_sub_predef, ?tail_sub_short.
    + destruct (len name =? 0) eqn:E; cbn [negb].
      * apply len_eq0_nil in E. subst name. reflexivity.
      * apply len_ne0_cons in E. destruct E as [x [tl ->]]. dispatch. run.
        change (0 mod 4 mod 4) with 0. tit_consts. run. rewrite !be16_enc16w. reflexivity.
    + dispatch. run. change (1 mod 4 mod 4) with 1. tit_consts. run. rewrite !be16_enc16w. reflexivity.
    + dispatch. run. change (2 mod 4 mod 4) with 2. tit_consts. run. rewrite !be16_enc16w. reflexivity.
  - (* Pingreq *) reflexivity.
  - (* Disconnect *)
    destruct (N.eqb_spec (u16 dur) 0) as [E|E].
    + rewrite E. reflexivity.
    + dispatch. run. rewrite !be16_enc16w. reflexivity.
Qed.

(* decoding of a datagram the client writes *)
Lemma read_csend (p : packet) : csend p -> len (pack p) <= MaxPacketLen -> read_dgram (pack p) = dec_res p.
Proof.
  intros Hs Hsz. destruct (pack_eq3 p Hs Hsz) as [Heq Hb].
  assert (Hsz' : len (hdr (len (pbody p)) (ptype p) ++ pbody p) <= MaxPacketLen) by (rewrite <- Heq; exact Hsz).
  rewrite Heq. rewrite framed2_read; [apply unpack_pbody3, Hs|apply ptype_byte|exact Hb|exact Hsz'|apply ptype_known].
Qed.

Lemma announced_csend (p : packet) : csend p -> len (pack p) <= MaxPacketLen ->
  announced_len (pack p) = Some (len (pack p)).
Proof.
  intros Hs Hsz. destruct (pack_eq3 p Hs Hsz) as [Heq Hb].
  assert (Hsz' : len (hdr (len (pbody p)) (ptype p) ++ pbody p) <= MaxPacketLen) by (rewrite <- Heq; exact Hsz).
  rewrite Heq. apply framed2_announced; [apply ptype_byte|exact Hb|exact Hsz'].
Qed.

(* ------------------------------------------------------------------ what a decoded datagram guarantees *)

Lemma get16_lt (b : bytes) (i : nat) (s : panic_site) (x : N) :
  wf_bytes b -> get16 b i s = Ok x -> x < 65536.
Proof.
  unfold get16, idx. intros Hb H.
  destruct (nth_error b i) as [hi|] eqn:E1; cbn [obind] in H; [|discriminate H].
  destruct (nth_error b (S i)) as [lo|] eqn:E2; cbn [obind] in H; [|discriminate H].
  injection H as <-.
  apply nth_error_In in E1. apply nth_error_In in E2.
  pose proof (proj1 (List.Forall_forall _ _) Hb) as Hall.
  pose proof (Hall _ E1) as H1. pose proof (Hall _ E2) as H2.
  apply is_byte_lt in H1. apply is_byte_lt in H2. unfold be16. lia.
Qed.

(* the message ID of a decoded PUBREL is a 16-bit value *)
Definition mid_fact (p : packet) : Prop := match p with Pubrel mid => mid < 65536 | _ => True end.

Ltac inv_unpack H :=
  repeat (cbv zeta in H;
          match type of H with
          | (if ?c then _ else _) = Ok _ => destruct c eqn:?; try discriminate H
          | obind ?o _ = Ok _ =>
            let E := fresh "E" in destruct o eqn:E; cbn [obind] in H; try discriminate H
          | (match ?n with O => _ | S _ => _ end) = Ok _ => destruct n; try discriminate H
          end).

Ltac other_unpack f :=
  let H := fresh "H" in
  unfold f; intros _ H; inv_unpack H; injection H as <-; exact I.

Lemma unpack_pubrel_fact buf p : wf_bytes buf -> unpack_pubrel buf = Ok p -> mid_fact p.
Proof.
  unfold unpack_pubrel. intros Hb H. inv_unpack H. injection H as <-. cbn [mid_fact].
  eapply get16_lt; eassumption.
Qed.

Lemma unpack_body_fact t buf p : wf_bytes buf -> unpack_body t buf = Ok p -> mid_fact p.
Proof.
  unfold unpack_body.
  repeat (match goal with |- _ -> (if ?c then _ else _) = _ -> _ => destruct c end).
  all: try (intros _ H; discriminate H).
  all: try apply unpack_pubrel_fact.
  - other_unpack unpack_advertise.
  - other_unpack unpack_searchgw.
  - other_unpack unpack_gwinfo.
  - other_unpack unpack_auth.
  - other_unpack unpack_connect.
  - other_unpack unpack_connack.
  - other_unpack unpack_willtopicreq.
  - other_unpack unpack_willtopic.
  - other_unpack unpack_willmsgreq.
  - other_unpack unpack_willmsg.
  - other_unpack unpack_register.
  - other_unpack unpack_regack.
  - other_unpack unpack_publish.
  - other_unpack unpack_puback.
  - other_unpack unpack_pubcomp.
  - other_unpack unpack_pubrec.
  - other_unpack unpack_subscribe.
  - other_unpack unpack_suback.
  - other_unpack unpack_unsubscribe.
  - other_unpack unpack_unsuback.
  - other_unpack unpack_pingreq.
  - other_unpack unpack_pingresp.
  - other_unpack unpack_disconnect.
  - other_unpack unpack_willtopicupd.
  - other_unpack unpack_willtopicresp.
  - other_unpack unpack_willmsgupd.
  - other_unpack unpack_willmsgresp.
Qed.

Lemma wf_bytes_firstn (n : nat) (b : bytes) : wf_bytes b -> wf_bytes (firstn n b).
Proof.
  unfold wf_bytes. intros H. apply Forall_forall. intros x Hx.
  apply (proj1 (Forall_forall _ _) H). revert Hx. revert n. induction b as [|y b IH]; intros [|n]; cbn; try tauto.
  intros [E|Hx]; [left; exact E|right]. eapply IH. - inversion H; assumption. - exact Hx.
Qed.

Lemma wf_bytes_skipn (n : nat) (b : bytes) : wf_bytes b -> wf_bytes (skipn n b).
Proof.
  unfold wf_bytes. revert n. induction b as [|y b IH]; intros [|n] H; cbn [skipn]; try assumption.
  apply IH. inversion H; assumption.
Qed.

Lemma read_dgram_fact dg p : wf_bytes dg -> read_dgram dg = Ok p -> mid_fact p.
Proof.
  unfold read_dgram, read_packet. set (raw := firstn _ dg). intros Hwf H.
  assert (Hraw : wf_bytes raw) by (apply wf_bytes_firstn, Hwf).
  destruct (header_unpack raw) as [h|e|ps]; cbn [obind] in H; try discriminate H.
  destruct (negb (known_type (h_type h))); try discriminate H.
  unfold slice_from in H.
  destruct (Nat.leb (encoded_header_length raw) (length raw)); cbn [obind] in H; try discriminate H.
  eapply unpack_body_fact; [|exact H]. apply wf_bytes_skipn, Hraw.
Qed.

(* ================================================================== invariants of the client model *)
From stdpp Require Import base option list numbers fin_maps nmap.
From RecordUpdate Require Import RecordSet.
From Verif.Gateway Require Import GwTypes.
From Verif.Client Require Import ClTypes ClStep.
Import RecordSetNotations.
Open Scope N_scope.

(* a stored PUBLISH / SUBSCRIBE belongs to a transaction whose retries set DUP *)
Definition kd_ok (kind : N) (d : packet) : Prop :=
  match d with
  | Publish _ _ _ _ _ _ _ | Subscribe _ _ _ _ _ _ => kind = 1 \/ kind = 3 \/ kind = 4
  | _ => True
  end.
(* b = true: additionally, the stored packet carries a non-empty name *)
Definition obj_ok (b : bool) (t : ctxn) : Prop :=
  match t with
  | CxRetry _ kind _ _ d _ _ => csend d /\ kd_ok kind d /\ (b = true -> namedb d = true)
  | _ => True
  end.
(* the message-ID slot a transaction occupies *)
Definition id_key (t : ctxn) : option N :=
  match t with
  | CxRetry _ kind key _ _ _ _ => if (kind =? 5) || (kind =? 6) || (kind =? 7) then None else Some key
  | CxBrokerPub2 mid _ => Some mid
  | _ => None
  end.

Record InvA (b : bool) (s : cl_state) : Prop := {
  ia_obj : forall g t, cl_objs s !! g = Some t -> obj_ok b t;
  ia_id : forall k g, cl_by_id s !! k = Some g -> exists t, cl_objs s !! g = Some t /\ id_key t = Some k;
  ia_lt : forall g t, cl_objs s !! g = Some t -> g < cl_next_obj s }.

Lemma invA_init b : InvA b cl_init.
Proof. split; cbn; intros ? ? H; rewrite lookup_empty in H; discriminate. Qed.

Lemma invA_frame b s s' : cl_objs s' = cl_objs s -> cl_by_id s' = cl_by_id s -> cl_next_obj s' = cl_next_obj s ->
  InvA b s -> InvA b s'.
Proof. intros E1 E2 E3 [H1 H2 H3]. split; rewrite ?E1, ?E2, ?E3; assumption. Qed.

Lemma invA_arm b s k d : InvA b s -> InvA b (c_arm s k d).
Proof. apply invA_frame; reflexivity. Qed.
Lemma invA_disarm b s g : InvA b s -> InvA b (c_disarm s g).
Proof. apply invA_frame; reflexivity. Qed.
Lemma invA_set_state b s st : InvA b s -> InvA b (c_set_state s st).
Proof. apply invA_frame; reflexivity. Qed.
Lemma invA_cancel_api b s : InvA b s -> InvA b (c_cancel_from_api s).
Proof. unfold c_cancel_from_api. destruct (cl_cancelled s); [auto|apply invA_frame; reflexivity]. Qed.
Lemma invA_cancel_loop b s e : InvA b s -> InvA b (c_cancel_from_loop s e).
Proof. unfold c_cancel_from_loop. destruct (cl_cancelled s); [auto|apply invA_frame; reflexivity]. Qed.

Lemma invA_new_obj b s t : InvA b s -> obj_ok b t ->
  InvA b (fst (c_new_obj s t)) /\ cl_objs (fst (c_new_obj s t)) !! snd (c_new_obj s t) = Some t.
Proof.
  intros [H1 H2 H3] Ht. unfold c_new_obj. cbn [fst snd]. split; [split|]; cbn.
  - intros g t' H. destruct (N.eq_dec g (cl_next_obj s)) as [->|Hne].
    + rewrite lookup_insert in H. injection H as <-. exact Ht.
    + rewrite lookup_insert_ne in H by congruence. eapply H1, H.
  - intros k g H. destruct (H2 k g H) as (t' & Hg & Hk). exists t'. split; [|exact Hk].
    rewrite lookup_insert_ne; [exact Hg|]. apply H3 in Hg. lia.
  - intros g t' H. destruct (N.eq_dec g (cl_next_obj s)) as [->|Hne]; [lia|].
    rewrite lookup_insert_ne in H by congruence. apply H3 in H. lia.
  - apply lookup_insert.
Qed.

(* a message-ID slot is pointed at an object with that key *)
Lemma invA_slot b s g t k : InvA b s -> cl_objs s !! g = Some t -> id_key t = Some k ->
  InvA b (s <| cl_by_id := <[k := g]> (cl_by_id s) |>).
Proof.
  intros [H1 H2 H3] Hg Hk. split; cbn; [exact H1| |exact H3].
  intros k' g' H. destruct (N.eq_dec k' k) as [->|Hne].
  - rewrite lookup_insert in H. injection H as <-. exists t. auto.
  - rewrite lookup_insert_ne in H by congruence. apply H2, H.
Qed.

Lemma invA_set_obj b s g t t' : InvA b s -> cl_objs s !! g = Some t -> obj_ok b t' ->
  (id_key t' = id_key t \/ exists k, cl_by_id s !! k = Some g /\ id_key t' = Some k) ->
  InvA b (c_set_obj s g t').
Proof.
  intros [H1 H2 H3] Hg Ht Hk. unfold c_set_obj. split; cbn.
  - intros g' t'' H. destruct (N.eq_dec g' g) as [->|Hne].
    + rewrite lookup_insert in H. injection H as <-. exact Ht.
    + rewrite lookup_insert_ne in H by congruence. eapply H1, H.
  - intros k g' H. destruct (H2 k g' H) as (t0 & Hg0 & Hk0). destruct (N.eq_dec g' g) as [->|Hne].
    + exists t'. rewrite lookup_insert. split; [reflexivity|].
      rewrite Hg in Hg0. injection Hg0 as <-.
      destruct Hk as [Hk|(k1 & Hk1 & Hk2)]; [congruence|].
      destruct (H2 k1 g Hk1) as (t1 & Hg1 & Hk3). rewrite Hg in Hg1. injection Hg1 as <-. congruence.
    + exists t0. rewrite lookup_insert_ne by congruence. auto.
  - intros g' t'' H. destruct (N.eq_dec g' g) as [->|Hne]; [eapply H3, Hg|].
    rewrite lookup_insert_ne in H by congruence. eapply H3, H.
Qed.

Lemma invA_finish b s g : InvA b s -> InvA b (c_finish_obj s g).
Proof.
  intros Hi. unfold c_finish_obj. destruct (cl_objs s !! g) as [t|] eqn:Hg; [|exact Hi].
  destruct Hi as [H1 H2 H3].
  assert (Hobj : forall g' t', delete g (cl_objs s) !! g' = Some t' -> cl_objs s !! g' = Some t' /\ g' <> g).
  { intros g' t' H. destruct (N.eq_dec g' g) as [->|Hne]; [rewrite lookup_delete in H; discriminate|].
    rewrite lookup_delete_ne in H by congruence. auto. }
  (* the slot is by type: the message-ID store is untouched, and nothing in it points at g *)
  assert (Hty : id_key t = None ->
    forall s', cl_objs s' = delete g (cl_objs s) -> cl_by_id s' = cl_by_id s -> cl_next_obj s' = cl_next_obj s -> InvA b s').
  { intros Hn s' E1 E2 E3. split; rewrite ?E1, ?E2, ?E3.
    - intros g' t' H. apply Hobj in H. eapply H1, H.
    - intros k g' H. destruct (H2 k g' H) as (t0 & Hg0 & Hk0). exists t0. split; [|exact Hk0].
      destruct (N.eq_dec g' g) as [->|Hne]; [rewrite Hg in Hg0; injection Hg0 as <-; congruence|].
      rewrite lookup_delete_ne by congruence. exact Hg0.
    - intros g' t' H. apply Hobj in H. eapply H3, H. }
  assert (Hid : forall k, id_key t = Some k ->
    forall s', cl_objs s' = delete g (cl_objs s) -> cl_by_id s' = delete k (cl_by_id s) -> cl_next_obj s' = cl_next_obj s -> InvA b s').
  { intros k Hk s' E1 E2 E3. split; rewrite ?E1, ?E2, ?E3.
    - intros g' t' H. apply Hobj in H. eapply H1, H.
    - intros k' g' H. destruct (N.eq_dec k' k) as [->|Hnk]; [rewrite lookup_delete in H; discriminate|].
      rewrite lookup_delete_ne in H by congruence.
      destruct (H2 k' g' H) as (t0 & Hg0 & Hk0). exists t0. split; [|exact Hk0].
      destruct (N.eq_dec g' g) as [->|Hne]; [rewrite Hg in Hg0; injection Hg0 as <-; congruence|].
      rewrite lookup_delete_ne by congruence. exact Hg0.
    - intros g' t' H. apply Hobj in H. eapply H3, H. }
  destruct t as [call att|call kind key st data n sub|call st n ms|mid pub].
  - apply Hty; reflexivity.
  - cbn [id_key] in Hty, Hid.
    destruct (kind =? 5) eqn:E5; [apply Hty; reflexivity|].
    destruct ((kind =? 6) || (kind =? 7)) eqn:E67.
    + apply Hty; [|reflexivity..]. cbn [orb]. rewrite E67. reflexivity.
    + eapply Hid; [|reflexivity..]. cbn [orb]. rewrite E67. reflexivity.
  - apply Hty; reflexivity.
  - eapply Hid; reflexivity.
Qed.

Lemma c_get_id_Some s mid g t : c_get_id s mid = Some (g, t) -> cl_by_id s !! mid = Some g /\ cl_objs s !! g = Some t.
Proof.
  unfold c_get_id. destruct (cl_by_id s !! mid) as [g'|]; [|discriminate].
  destruct (cl_objs s !! g') as [t'|] eqn:E; [|discriminate]. intros H. injection H as <- <-. auto.
Qed.
Lemma c_get_type_Some s ty g t : c_get_type s ty = Some (g, t) -> cl_by_type s !! ty = Some g /\ cl_objs s !! g = Some t.
Proof.
  unfold c_get_type. destruct (cl_by_type s !! ty) as [g'|]; [|discriminate].
  destruct (cl_objs s !! g') as [t'|] eqn:E; [|discriminate]. intros H. injection H as <- <-. auto.
Qed.

(* a record update that leaves the object store, the message-ID store and the object counter alone *)
Ltac invA_raw :=
  match goal with
  | |- InvA ?b (set ?f ?v ?X) => apply (invA_frame b X (set f v X)); [reflexivity|reflexivity|reflexivity|]
  end.

Lemma connect_attempt_invA b cfg s call n : InvA b s -> InvA b (fst (connect_attempt cfg s call n)).
Proof.
  intros Hi. unfold connect_attempt.
  destruct (invA_new_obj b s (CxConnect call n) Hi I) as [Hi1 _].
  destruct (c_new_obj s (CxConnect call n)) as [s1 g1]. cbn [fst snd] in Hi1. cbv zeta.
  match goal with |- context [c_arm ?X ?k ?d] => assert (Hi2 : InvA b (c_arm X k d)) by (apply invA_arm; invA_raw; exact Hi1);
    generalize dependent (c_arm X k d) end.
  intros s2 Hi2. destruct (c_send s2 (connect_pkt cfg)) as [o1 [|]]; [|exact Hi2].
  destruct (len (k_user cfg) =? 0); [exact Hi2|]. destruct (c_send s2 (auth_pkt cfg)) as [o2 [|]]; exact Hi2.
Qed.

Lemma start_retry_invA b cfg s call kind key st p bt s' g o ok :
  start_retry cfg s call kind key st p bt = (s', g, o, ok) -> InvA b s ->
  obj_ok b (CxRetry call kind key st p 0 call) ->
  (bt = false -> (kind =? 5) || (kind =? 6) || (kind =? 7) = false) ->
  InvA b s'.
Proof.
  unfold start_retry. intros H Hi Ht Hk.
  destruct (invA_new_obj b s _ Hi Ht) as [Hi1 Hg1].
  destruct (c_new_obj s (CxRetry call kind key st p 0 call)) as [s1 g1]. cbn [fst snd] in Hi1, Hg1. cbv zeta in H.
  match type of H with context [c_arm ?X ?k ?d] => assert (Hi2 : InvA b (c_arm X k d)) end.
  { apply invA_arm. destruct bt; [invA_raw; exact Hi1|].
    eapply invA_slot; [exact Hi1|exact Hg1|]. cbn [id_key]. rewrite Hk by reflexivity. reflexivity. }
  match type of H with context [c_send ?X p] => destruct (c_send X p) as [o1 ok1] end.
  injection H as <- _ _ _. exact Hi2.
Qed.

Lemma call_simple_invA b cfg s call kind st mk :
  InvA b s -> (forall mid, obj_ok b (CxRetry call kind mid st (mk mid) 0 call)) ->
  (kind =? 5) || (kind =? 6) || (kind =? 7) = false ->
  InvA b (fst (call_simple cfg s call kind st mk)).
Proof.
  intros Hi Ht Hk. unfold call_simple, c_next_mid.
  match goal with |- context [start_retry ?a ?b ?c ?d ?e ?f ?g ?h] => destruct (start_retry a b c d e f g h) as [[[s' g'] o] ok] eqn:E end.
  eapply start_retry_invA in E; [|invA_raw; exact Hi|apply Ht|intros _; exact Hk].
  destruct ok; cbn [fst]; [exact E|apply invA_finish, E].
Qed.

Lemma do_publish_invA b cfg s call tit tid qos retain payload :
  InvA b s -> InvA b (fst (do_publish cfg s call tit tid qos retain payload)).
Proof.
  intros Hi. unfold do_publish, c_next_mid. cbv zeta.
  assert (Hi0 : InvA b (s <| cl_next_mid := if cl_next_mid s =? 65535 then 1 else cl_next_mid s + 1 |>)) by (invA_raw; exact Hi).
  destruct ((qos =? 0) || (qos =? 3)).
  { match goal with |- context [c_send ?X ?p] => destruct (c_send X p) as [o [|]] end; exact Hi0. }
  destruct (qos =? 1).
  { match goal with |- context [start_retry ?a ?b ?c ?d ?e ?f ?g ?h] => destruct (start_retry a b c d e f g h) as [[[s' g'] o] ok] eqn:E end.
    eapply start_retry_invA in E; [|exact Hi0| |intros _; reflexivity].
    - destruct ok; cbn [fst]; [exact E|apply invA_finish, E].
    - cbn [obj_ok csend kd_ok namedb]. auto. }
  destruct (qos =? 2).
  { match goal with |- context [start_retry ?a ?b ?c ?d ?e ?f ?g ?h] => destruct (start_retry a b c d e f g h) as [[[s' g'] o] ok] eqn:E end.
    eapply start_retry_invA in E; [|exact Hi0| |intros _; reflexivity].
    - destruct ok; cbn [fst]; [exact E|apply invA_finish, E].
    - cbn [obj_ok csend kd_ok namedb]. auto. }
  exact Hi0.
Qed.

Ltac sr_invA b :=
  match goal with |- context [start_retry ?a ?b0 ?c ?d ?e ?f ?g ?h] =>
    let E := fresh "E" in
    destruct (start_retry a b0 c d e f g h) as [[[? ?] ?] ok] eqn:E;
    eapply (start_retry_invA b) in E;
      [|eassumption|cbn [obj_ok csend kd_ok namedb]; auto|intros ?; first [reflexivity|discriminate]];
    destruct ok; cbn [fst]
  end.

Lemma do_call_invA b cfg s call a : InvA b s -> InvA b (fst (do_call cfg s call a)).
Proof.
  intros Hi. unfold do_call.
  destruct a as [|topic|topic qos|tid qos|topic qos retain payload|tid qos retain payload|topic|tid| |ms| |].
  - apply connect_attempt_invA, Hi.
  - destruct (len topic =? 0) eqn:Hn; [exact Hi|].
    apply call_simple_invA; [exact Hi| |reflexivity]. intros mid. cbn [obj_ok csend kd_ok namedb]. rewrite Hn. auto.
  - destruct (len topic =? 0) eqn:Hn; [exact Hi|].
    destruct (is_short_topic topic); (apply call_simple_invA; [exact Hi| |reflexivity]); intros mid;
      cbn [obj_ok csend kd_ok namedb]; rewrite ?Hn; unfold TIT_SHORT, TIT_STRING; cbn [N.eqb negb orb];
      (split; [lia|split; [auto|auto]]).
  - apply call_simple_invA; [exact Hi| |reflexivity]. intros mid.
    cbn [obj_ok csend kd_ok namedb]. unfold TIT_PREDEFINED. cbn [N.eqb Pos.eqb negb orb]. split; [lia|auto].
  - destruct (is_short_topic topic); [apply do_publish_invA, Hi|].
    destruct (reg_lookup (cl_registered s) topic); [apply do_publish_invA, Hi|exact Hi].
  - apply do_publish_invA, Hi.
  - destruct (len topic =? 0) eqn:Hn; [exact Hi|].
    destruct (is_short_topic topic); (apply call_simple_invA; [exact Hi| |reflexivity]); intros mid;
      cbn [obj_ok csend kd_ok namedb]; rewrite ?Hn; unfold TIT_SHORT, TIT_STRING; cbn [N.eqb negb orb];
      (split; [lia|split; [auto|auto]]).
  - apply call_simple_invA; [exact Hi| |reflexivity]. intros mid.
    cbn [obj_ok csend kd_ok namedb]. unfold TIT_PREDEFINED. cbn [N.eqb Pos.eqb negb orb]. split; [lia|auto].
  - sr_invA b; [exact E|apply invA_finish, E].
  - destruct (negb _); [exact Hi|].
    destruct (invA_new_obj b s (CxSleep call CtNone 0 ms) Hi I) as [Hi1 Hg1].
    destruct (c_new_obj s (CxSleep call CtNone 0 ms)) as [s1 g1]. cbn [fst snd] in Hi1, Hg1. cbv zeta.
    assert (Hi2 : InvA b (s1 <| cl_by_type := <[TY_DISCONNECT := g1]> (cl_by_type s1) |>)) by (invA_raw; exact Hi1).
    cbn [cl_st set]. destruct (cl_st s1); cbn [fst]; try exact Hi2.
    + match goal with |- context [c_send ?X ?p] => destruct (c_send X p) as [o [|]] end; cbn [fst].
      * apply invA_arm. eapply invA_set_obj; [exact Hi2|exact Hg1|exact I|left; reflexivity].
      * apply invA_finish, Hi2.
    + apply invA_arm, invA_set_state. eapply invA_set_obj; [exact Hi2|exact Hg1|exact I|left; reflexivity].
  - destruct (cl_st s); cbn [fst]; try exact Hi; (sr_invA b; [apply invA_set_state, E|apply invA_finish, E]).
  - destruct (cl_st s); cbn [fst]; try (invA_raw; apply invA_cancel_loop, Hi);
      (sr_invA b; [apply invA_set_state, E|apply invA_finish, E]).
Qed.

Lemma complete_invA b cfg s g t r ic : InvA b s -> InvA b (fst (complete cfg s g t r ic)).
Proof.
  intros Hi. unfold complete. cbv zeta.
  assert (Hf : InvA b (c_finish_obj s g)) by (apply invA_finish, Hi).
  destruct (cl_cancelled (c_finish_obj s g)).
  { cbn [fst]. destruct (cl_exited _); [exact Hf|invA_raw; exact Hf]. }
  destruct t as [call att|call kind key st data n sub|call st n ms|mid pub]; cbn [fst]; try exact Hf.
  - destruct r; cbn [fst]; try exact Hf.
    destruct (att + 1 <=? k_rcount cfg); [apply connect_attempt_invA, Hf|exact Hf].
  - destruct (kind =? 6); [destruct r; cbn [fst]; try exact Hf; apply invA_cancel_api, Hf|].
    destruct (kind =? 7); [destruct r; cbn [fst]; try exact Hf; invA_raw; apply invA_cancel_loop, Hf|]. exact Hf.
Qed.

Lemma c_exit_invA b s t : InvA b s -> InvA b (fst (c_exit s t)).
Proof. intros Hi. unfold c_exit. cbv zeta. cbn [fst]. repeat invA_raw. exact Hi. Qed.

Ltac invA_solve b :=
  repeat first
    [ assumption
    | apply invA_arm | apply invA_disarm | apply invA_set_state | apply invA_cancel_api | apply invA_cancel_loop
    | apply invA_finish | apply complete_invA | apply connect_attempt_invA
    | eapply invA_set_obj;
        [|eassumption|cbn [obj_ok csend kd_ok namedb]; auto
         |first [left; reflexivity|right; eexists; split; [eassumption|reflexivity]]]
    | eapply invA_slot; [|eassumption|reflexivity]
    | invA_raw
    | match goal with |- InvA _ (if ?c then _ else _) => destruct c end ].

Ltac invA_walk b :=
  repeat first
    [ progress cbn [fst snd loop_err]
    | match goal with H : c_get_id _ _ = Some (_, _) |- _ => apply c_get_id_Some in H; destruct H as [? ?] end
    | match goal with H : c_get_type _ _ = Some (_, _) |- _ => apply c_get_type_Some in H; destruct H as [? ?] end
    | match goal with |- context [c_new_obj ?X ?t] =>
        let Hi := fresh "Hi" in let Hg := fresh "Hg" in
        destruct (invA_new_obj b X t ltac:(assumption) I) as [Hi Hg];
        destruct (c_new_obj X t) as [? ?]; cbn [fst snd] in Hi, Hg
      end
    | match goal with |- InvA _ (fst (match ?x with _ => _ end)) => destruct x eqn:? end
    | match goal with |- InvA _ (fst (if ?x then _ else _)) => destruct x eqn:? end
    | match goal with |- InvA _ (fst (let (_, _) := ?x in _)) => destruct x eqn:? end ].

Lemma handle_packet_invA b cfg s p : InvA b s -> InvA b (fst (handle_packet cfg s p)).
Proof.
  intros Hi. unfold handle_packet. destruct p; cbv zeta; invA_walk b; invA_solve b.
Qed.

Lemma csend_set_dup d : csend d -> csend (c_set_dup d).
Proof. destruct d; cbn [c_set_dup csend]; auto. Qed.
Lemma kd_ok_set_dup k d : kd_ok k d -> kd_ok k (c_set_dup d).
Proof. destruct d; cbn [c_set_dup kd_ok]; auto. Qed.
Lemma namedb_set_dup d : namedb (c_set_dup d) = namedb d.
Proof. destruct d; reflexivity. Qed.

(* the packet a retry of a transaction of this kind writes *)
Definition retry_data (kind : N) (data : packet) : packet :=
  if (kind =? 1) || (kind =? 3) || (kind =? 4) then c_set_dup data else data.

Lemma obj_ok_retry b call kind key st data n sub st' n' :
  obj_ok b (CxRetry call kind key st data n sub) -> obj_ok b (CxRetry call kind key st' (retry_data kind data) n' sub).
Proof.
  cbn [obj_ok]. intros (H1 & H2 & H3). unfold retry_data. destruct ((kind =? 1) || (kind =? 3) || (kind =? 4)); [|auto].
  split; [apply csend_set_dup, H1|split; [apply kd_ok_set_dup, H2|rewrite namedb_set_dup; exact H3]].
Qed.

Lemma c_fire_invA b cfg s k : InvA b s -> InvA b (fst (c_fire cfg s k)).
Proof.
  intros Hi. unfold c_fire. destruct k as [g|g|g|g|g]; cbv zeta.
  - invA_walk b; invA_solve b.
  - destruct (cl_objs s !! g) as [[call att|call kind key st data n sub|call st n ms|mid pub]|] eqn:Hg; cbn [fst]; try exact Hi.
    destruct (k_rcount cfg <? n + 1); [apply complete_invA, Hi|].
    fold (retry_data kind data).
    assert (Hi1 : InvA b (c_set_obj s g (CxRetry call kind key st (retry_data kind data) (n + 1) sub))).
    { eapply invA_set_obj; [exact Hi|exact Hg| |left; reflexivity].
      eapply obj_ok_retry, (ia_obj b s Hi g _ Hg). }
    invA_walk b; invA_solve b.
  - invA_walk b; invA_solve b.
  - invA_walk b; invA_solve b.
  - invA_walk b; invA_solve b.
Qed.

Lemma c_run_timers_invA b cfg t fuel : forall s, InvA b s -> InvA b (fst (c_run_timers fuel cfg s t)).
Proof.
  induction fuel as [|fuel IH]; intros s Hi; cbn [c_run_timers]; [exact Hi|]. cbv zeta.
  destruct (c_min_timer (cl_timers s)) as [tm|].
  - match goal with |- context [if ?c then _ else _] => destruct c end.
    + match goal with |- context [c_fire cfg ?X ?k] =>
        assert (Hi1 : InvA b (fst (c_fire cfg X k))) by (apply c_fire_invA; repeat invA_raw; exact Hi);
        destruct (c_fire cfg X k) as [s1 o1] end.
      cbn [fst] in Hi1. specialize (IH s1 Hi1). destruct (c_run_timers fuel cfg s1 t) as [s2 o2]. exact IH.
    + destruct (if cl_exited s then None else cl_cancelled s) as [te|]; [|exact Hi].
      destruct (te <=? t); [|exact Hi].
      pose proof (c_exit_invA b s te Hi) as Hi1. destruct (c_exit s te) as [s1 o1]. cbn [fst] in Hi1.
      specialize (IH s1 Hi1). destruct (c_run_timers fuel cfg s1 t) as [s2 o2]. exact IH.
  - destruct (if cl_exited s then None else cl_cancelled s) as [te|]; [|exact Hi].
    destruct (te <=? t); [apply c_exit_invA, Hi|exact Hi].
Qed.

Lemma cl_step_invA b cfg s ev : InvA b s -> InvA b (fst (cl_step cfg s ev)).
Proof.
  intros Hi. unfold cl_step. destruct ev as [id a|dg|d].
  - destruct (cl_exited s); [exact Hi|]. destruct (cl_cancelled s); [exact Hi|].
    pose proof (do_call_invA b cfg s id a Hi) as Hi1. destruct (do_call cfg s id a) as [s1 o1]. cbn [fst] in Hi1.
    destruct (cl_cancelled s1) as [te|]; [|exact Hi1]. destruct (te <=? cl_now s1); [|exact Hi1].
    pose proof (c_exit_invA b s1 te Hi1) as Hi2. destruct (c_exit s1 te) as [s2 o2]. exact Hi2.
  - destruct (cl_exited s); [exact Hi|]. destruct (cl_cancelled s); [exact Hi|]. cbv zeta.
    assert (Hi0 : InvA b (s <| cl_last_read := cl_now s |>)) by (invA_raw; exact Hi).
    destruct (read_dgram dg) as [p|e|ps].
    + pose proof (handle_packet_invA b cfg _ p Hi0) as Hi1.
      destruct (handle_packet cfg (s <| cl_last_read := cl_now s |>) p) as [s1 o1]. cbn [fst] in Hi1.
      destruct (cl_cancelled s1) as [te|]; [|exact Hi1]. destruct (te <=? cl_now s1); [|exact Hi1].
      pose proof (c_exit_invA b s1 te Hi1) as Hi2. destruct (c_exit s1 te) as [s2 o2]. exact Hi2.
    + match goal with |- context [c_exit ?X ?t] =>
        pose proof (c_exit_invA b X t ltac:(apply invA_cancel_loop, Hi0)) as Hi2; destruct (c_exit X t) as [s2 o2] end. exact Hi2.
    + match goal with |- context [c_exit ?X ?t] =>
        pose proof (c_exit_invA b X t ltac:(apply invA_cancel_loop, Hi0)) as Hi2; destruct (c_exit X t) as [s2 o2] end. exact Hi2.
  - pose proof (c_run_timers_invA b cfg (cl_now s + d) (c_advance_fuel cfg s d) s Hi) as Hi1.
    destruct (c_run_timers (c_advance_fuel cfg s d) cfg s (cl_now s + d)) as [s1 o1]. cbn [fst] in *. invA_raw. exact Hi1.
Qed.

(* ================================================================== pending API calls *)
From Verif.Checkers Require Import ChkCl.

Definition call_of (t : ctxn) : option N :=
  match t with
  | CxConnect c _ | CxRetry c _ _ _ _ _ _ | CxSleep c _ _ _ => Some c
  | CxBrokerPub2 _ _ => None
  end.
(* the call is a Disconnect / Close: it may return nil when the client exits *)
Definition dcall (t : ctxn) : option N :=
  match t with
  | CxRetry c kind _ _ _ _ _ => if (kind =? 6) || (kind =? 7) then Some c else None
  | _ => None
  end.

(* no live transaction and no call blocked in group.Wait() belongs to call id c *)
Definition fresh (s : cl_state) (c : N) : Prop :=
  (forall g t, cl_objs s !! g = Some t -> call_of t <> Some c) /\
  (forall c', In c' (cl_waiting_group s) -> c' / 2 <> c).

(* pending calls have distinct ids (k_uo, k_uw); G holds of every call that may still return
   nil from the group's termination (k_jo, k_jw) *)
Record K (G : N -> Prop) (s : cl_state) : Prop := {
  k_uo : forall g1 g2 t1 t2 c, cl_objs s !! g1 = Some t1 -> cl_objs s !! g2 = Some t2 ->
           call_of t1 = Some c -> call_of t2 = Some c -> g1 = g2;
  k_uw : forall c' g t, In c' (cl_waiting_group s) -> cl_objs s !! g = Some t -> call_of t <> Some (c' / 2);
  k_jo : forall g t c, cl_objs s !! g = Some t -> dcall t = Some c -> G c;
  k_jw : forall c', In c' (cl_waiting_group s) -> c' mod 2 <> 0 -> G (c' / 2) }.

Definition RetsG (G : N -> Prop) (os : list cl_out) : Prop := forall c, In (c, ROk) (c_rets os) -> G c.

Lemma c_rets_app' a b : c_rets (a ++ b) = c_rets a ++ c_rets b.
Proof. unfold c_rets. apply bind_app. Qed.
Lemma RetsG_nil (G : N -> Prop) : RetsG G []. Proof. intros c []. Qed.
Lemma RetsG_app (G : N -> Prop) a b : RetsG G a -> RetsG G b -> RetsG G (a ++ b).
Proof. intros Ha Hb c H. rewrite c_rets_app' in H. apply in_app_or in H. destruct H; [apply Ha|apply Hb]; assumption. Qed.
Lemma RetsG_ret (G : N -> Prop) s call r : (r = ROk -> G call) -> RetsG G (ret s call r).
Proof. intros H c [E|[]]. injection E as E1 E2. subst c. apply H. exact E2. Qed.
Lemma RetsG_ret_ne (G : N -> Prop) s call r : r <> ROk -> RetsG G (ret s call r).
Proof. intros H. apply RetsG_ret. intros E. contradiction. Qed.
Lemma RetsG_send (G : N -> Prop) s p : RetsG G (fst (c_send s p)).
Proof. unfold c_send. destruct (cl_conn_closed s); [intros c []|]. destruct (_ <=? _); intros c []. Qed.

Lemma K_init (G : N -> Prop) : K G cl_init.
Proof.
  split; cbn.
  - intros ? ? ? ? ? H. rewrite lookup_empty in H. discriminate.
  - intros ? ? ? [].
  - intros ? ? ? H. rewrite lookup_empty in H. discriminate.
  - intros ? [].
Qed.

Lemma K_frame (G : N -> Prop) s s' : cl_objs s' = cl_objs s -> cl_waiting_group s' = cl_waiting_group s -> K G s -> K G s'.
Proof. intros E1 E2 [H1 H2 H3 H4]. split; rewrite ?E1, ?E2; assumption. Qed.
Lemma fresh_frame s s' c : cl_objs s' = cl_objs s -> cl_waiting_group s' = cl_waiting_group s -> fresh s c -> fresh s' c.
Proof. intros E1 E2 [H1 H2]. split; rewrite ?E1, ?E2; assumption. Qed.

Lemma K_arm (G : N -> Prop) s k d : K G s -> K G (c_arm s k d).
Proof. apply K_frame; reflexivity. Qed.
Lemma K_disarm (G : N -> Prop) s g : K G s -> K G (c_disarm s g).
Proof. apply K_frame; reflexivity. Qed.
Lemma K_set_state (G : N -> Prop) s st : K G s -> K G (c_set_state s st).
Proof. apply K_frame; reflexivity. Qed.
Lemma K_cancel_api (G : N -> Prop) s : K G s -> K G (c_cancel_from_api s).
Proof. unfold c_cancel_from_api. destruct (cl_cancelled s); [auto|apply K_frame; reflexivity]. Qed.
Lemma K_cancel_loop (G : N -> Prop) s e : K G s -> K G (c_cancel_from_loop s e).
Proof. unfold c_cancel_from_loop. destruct (cl_cancelled s); [auto|apply K_frame; reflexivity]. Qed.

Ltac K_raw :=
  match goal with
  | |- K ?G (set ?f ?v ?X) => apply (K_frame G X (set f v X)); [reflexivity|reflexivity|]
  end.

Lemma K_new_obj (G : N -> Prop) s t : K G s -> (forall c, call_of t = Some c -> fresh s c) -> (forall c, dcall t = Some c -> G c) ->
  K G (fst (c_new_obj s t)) /\ cl_objs (fst (c_new_obj s t)) !! snd (c_new_obj s t) = Some t.
Proof.
  intros [H1 H2 H3 H4] Hf Hd. unfold c_new_obj. cbn [fst snd]. split; [split|]; cbn.
  - intros g1 g2 t1 t2 c Hg1 Hg2 Hc1 Hc2.
    destruct (N.eq_dec g1 (cl_next_obj s)) as [->|Hn1]; destruct (N.eq_dec g2 (cl_next_obj s)) as [->|Hn2]; [reflexivity| | |].
    + rewrite lookup_insert in Hg1. injection Hg1 as <-. rewrite lookup_insert_ne in Hg2 by congruence.
      destruct (Hf c Hc1) as [Hf1 _]. exfalso. eapply Hf1; eassumption.
    + rewrite lookup_insert in Hg2. injection Hg2 as <-. rewrite lookup_insert_ne in Hg1 by congruence.
      destruct (Hf c Hc2) as [Hf1 _]. exfalso. eapply Hf1; eassumption.
    + rewrite lookup_insert_ne in Hg1, Hg2 by congruence. eapply H1; eassumption.
  - intros c' g t' Hin Hg. destruct (N.eq_dec g (cl_next_obj s)) as [->|Hn].
    + rewrite lookup_insert in Hg. injection Hg as <-. intros Hc. destruct (Hf _ Hc) as [_ Hf2]. eapply Hf2; [exact Hin|reflexivity].
    + rewrite lookup_insert_ne in Hg by congruence. eapply H2; eassumption.
  - intros g t' c Hg Hc. destruct (N.eq_dec g (cl_next_obj s)) as [->|Hn].
    + rewrite lookup_insert in Hg. injection Hg as <-. apply Hd, Hc.
    + rewrite lookup_insert_ne in Hg by congruence. eapply H3; eassumption.
  - exact H4.
  - apply lookup_insert.
Qed.

Lemma K_set_obj (G : N -> Prop) s g t t' : K G s -> cl_objs s !! g = Some t -> call_of t' = call_of t -> dcall t' = dcall t ->
  K G (c_set_obj s g t').
Proof.
  intros [H1 H2 H3 H4] Hg Hc Hd. unfold c_set_obj.
  assert (Hl : forall g0 t0, <[g := t']> (cl_objs s) !! g0 = Some t0 ->
     exists t1, cl_objs s !! g0 = Some t1 /\ call_of t0 = call_of t1 /\ dcall t0 = dcall t1).
  { intros g0 t0 H. destruct (N.eq_dec g0 g) as [->|Hn].
    - rewrite lookup_insert in H. injection H as <-. exists t. auto.
    - rewrite lookup_insert_ne in H by congruence. exists t0. auto. }
  split; cbn.
  - intros g1 g2 t1 t2 c Hg1 Hg2 Hc1 Hc2.
    destruct (Hl _ _ Hg1) as (u1 & Hu1 & Hcu1 & _). destruct (Hl _ _ Hg2) as (u2 & Hu2 & Hcu2 & _).
    apply (H1 g1 g2 u1 u2 c); [exact Hu1|exact Hu2|congruence|congruence].
  - intros c' g0 t0 Hin Hg0. destruct (Hl _ _ Hg0) as (u & Hu & Hcu & _). rewrite Hcu. eapply H2; eassumption.
  - intros g0 t0 c Hg0 Hd0. destruct (Hl _ _ Hg0) as (u & Hu & _ & Hdu). apply (H3 g0 u c); [exact Hu|congruence].
  - exact H4.
Qed.

Lemma c_finish_obj_objs s g : cl_objs (c_finish_obj s g) = delete g (cl_objs s).
Proof.
  unfold c_finish_obj. destruct (cl_objs s !! g) as [t|] eqn:E.
  - destruct t; cbn; try reflexivity. destruct (_ =? 5); [reflexivity|]. destruct (_ || _); reflexivity.
  - symmetry. apply delete_notin, E.
Qed.
Lemma c_finish_obj_wg s g : cl_waiting_group (c_finish_obj s g) = cl_waiting_group s.
Proof.
  unfold c_finish_obj. destruct (cl_objs s !! g) as [t|]; [|reflexivity].
  destruct t; cbn; try reflexivity. destruct (_ =? 5); [reflexivity|]. destruct (_ || _); reflexivity.
Qed.
Lemma c_finish_obj_cancelled s g : cl_cancelled (c_finish_obj s g) = cl_cancelled s.
Proof.
  unfold c_finish_obj. destruct (cl_objs s !! g) as [t|]; [|reflexivity].
  destruct t; cbn; try reflexivity. destruct (_ =? 5); [reflexivity|]. destruct (_ || _); reflexivity.
Qed.

Lemma lookup_delete_Some' (m : Nmap ctxn) g g' t : delete g m !! g' = Some t -> m !! g' = Some t /\ g' <> g.
Proof.
  intros H. destruct (N.eq_dec g' g) as [->|Hne]; [rewrite lookup_delete in H; discriminate|].
  rewrite lookup_delete_ne in H by congruence. auto.
Qed.

Lemma K_finish (G : N -> Prop) s g : K G s -> K G (c_finish_obj s g).
Proof.
  intros [H1 H2 H3 H4]. split; rewrite ?c_finish_obj_objs, ?c_finish_obj_wg.
  - intros g1 g2 t1 t2 c Hg1 Hg2. apply lookup_delete_Some' in Hg1, Hg2. eapply H1; [apply Hg1|apply Hg2].
  - intros c' g0 t0 Hin Hg0. apply lookup_delete_Some' in Hg0. eapply H2; [exact Hin|apply Hg0].
  - intros g0 t0 c Hg0. apply lookup_delete_Some' in Hg0. eapply H3, Hg0.
  - exact H4.
Qed.

Lemma fresh_finish (G : N -> Prop) s g t c : K G s -> cl_objs s !! g = Some t -> call_of t = Some c -> fresh (c_finish_obj s g) c.
Proof.
  intros [H1 H2 H3 H4] Hg Hc. split; rewrite ?c_finish_obj_objs, ?c_finish_obj_wg.
  - intros g0 t0 Hg0 Hc0. apply lookup_delete_Some' in Hg0. destruct Hg0 as [Hg0 Hne]. apply Hne. eapply H1; eassumption.
  - intros c' Hin E. eapply H2; [exact Hin|exact Hg|]. rewrite E. exact Hc.
Qed.

Lemma K_wg_add (G : N -> Prop) s cs : K G s ->
  (forall c', In c' cs -> (forall g t, cl_objs s !! g = Some t -> call_of t <> Some (c' / 2)) /\ (c' mod 2 <> 0 -> G (c' / 2))) ->
  K G (s <| cl_waiting_group := cl_waiting_group s ++ cs |>).
Proof.
  intros [H1 H2 H3 H4] Hcs. split; cbn; [exact H1| |exact H3|].
  - intros c' g t Hin. apply in_app_or in Hin. destruct Hin as [Hin|Hin]; [eapply H2, Hin|apply (Hcs c' Hin)].
  - intros c' Hin. apply in_app_or in Hin. destruct Hin as [Hin|Hin]; [apply H4, Hin|apply (Hcs c' Hin)].
Qed.

Definition KR (G : N -> Prop) (r : CR) : Prop := K G (fst r) /\ RetsG G (snd r).

Ltac rets :=
  repeat first
    [ apply RetsG_nil | assumption | apply RetsG_app | apply RetsG_send
    | apply RetsG_ret_ne; discriminate
    | apply RetsG_ret; intros _; assumption ].

Ltac K_send G :=
  match goal with
  | |- context [c_send ?X ?p] =>
    let Ho := fresh "Ho" in pose proof (RetsG_send G X p) as Ho; destruct (c_send X p) as [? [|]]; cbn [fst] in Ho
  end.

Lemma connect_attempt_K (G : N -> Prop) cfg s call n : K G s -> fresh s call -> KR G (connect_attempt cfg s call n).
Proof.
  intros Hk Hf. unfold connect_attempt.
  destruct (K_new_obj G s (CxConnect call n) Hk) as [Hk1 _].
  { cbn [call_of]. intros c E. injection E as <-. exact Hf. }
  { cbn [dcall]. discriminate. }
  destruct (c_new_obj s (CxConnect call n)) as [s1 g1]. cbn [fst snd] in Hk1. cbv zeta.
  match goal with |- context [c_arm ?X ?k ?d] => assert (Hk2 : K G (c_arm X k d)) by (apply K_arm; K_raw; exact Hk1);
    generalize dependent (c_arm X k d) end.
  intros s2 Hk2. K_send G; [|split; cbn [fst snd]; [exact Hk2|rets]].
  destruct (len (k_user cfg) =? 0); [split; cbn [fst snd]; [exact Hk2|rets]|].
  K_send G; (split; cbn [fst snd]; [exact Hk2|rets]).
Qed.

Lemma start_retry_K (G : N -> Prop) cfg s call kind key st p bt s' g o ok :
  start_retry cfg s call kind key st p bt = (s', g, o, ok) -> K G s -> fresh s call ->
  ((kind =? 6) || (kind =? 7) = true -> G call) ->
  K G s' /\ RetsG G o /\ cl_objs s' !! g = Some (CxRetry call kind key st p 0 call).
Proof.
  unfold start_retry. intros H Hk Hf Hd.
  destruct (K_new_obj G s (CxRetry call kind key st p 0 call) Hk) as [Hk1 Hg1].
  { cbn [call_of]. intros c E. injection E as <-. exact Hf. }
  { cbn [dcall]. intros c. destruct ((kind =? 6) || (kind =? 7)); [|discriminate]. intros E. injection E as <-. apply Hd. reflexivity. }
  destruct (c_new_obj s (CxRetry call kind key st p 0 call)) as [s1 g1]. cbn [fst snd] in Hk1, Hg1. cbv zeta in H.
  match type of H with context [c_arm ?X ?k ?d] =>
    assert (Hk2 : K G (c_arm X k d) /\ cl_objs (c_arm X k d) !! g1 = Some (CxRetry call kind key st p 0 call)) end.
  { split; [apply K_arm; destruct bt; K_raw; exact Hk1|destruct bt; exact Hg1]. }
  match type of H with context [c_send ?X p] => pose proof (RetsG_send G X p) as Ho; destruct (c_send X p) as [o1 ok1] end.
  injection H as <- <- <- _. destruct Hk2. auto.
Qed.

Ltac sr_K G :=
  match goal with |- context [start_retry ?a ?b0 ?c ?d ?e ?f ?g ?h] =>
    let E := fresh "E" in
    destruct (start_retry a b0 c d e f g h) as [[[? ?] ?] ok] eqn:E;
    eapply (start_retry_K G) in E;
      [destruct E as (? & ? & ?)|eassumption|eassumption|first [discriminate|intros _; assumption]];
    destruct ok
  end.

Lemma call_simple_K (G : N -> Prop) cfg s call kind st mk :
  K G s -> fresh s call -> (kind =? 6) || (kind =? 7) = false -> KR G (call_simple cfg s call kind st mk).
Proof.
  intros Hk Hf Hd. unfold call_simple, c_next_mid.
  match goal with |- context [start_retry ?a ?b ?c ?d ?e ?f ?g ?h] => destruct (start_retry a b c d e f g h) as [[[s' g'] o] ok] eqn:E end.
  eapply (start_retry_K G) in E; [|K_raw; exact Hk|exact Hf|rewrite Hd; discriminate].
  destruct E as (Hk1 & Ho & _). destruct ok; (split; cbn [fst snd]; [try apply K_finish; exact Hk1|rets]).
Qed.

Lemma do_publish_K (G : N -> Prop) cfg s call tit tid qos retain payload :
  K G s -> fresh s call -> G call -> KR G (do_publish cfg s call tit tid qos retain payload).
Proof.
  intros Hk Hf Hg. unfold do_publish, c_next_mid. cbv zeta.
  assert (Hk0 : K G (s <| cl_next_mid := if cl_next_mid s =? 65535 then 1 else cl_next_mid s + 1 |>)) by (K_raw; exact Hk).
  assert (Hf0 : fresh (s <| cl_next_mid := if cl_next_mid s =? 65535 then 1 else cl_next_mid s + 1 |>) call) by exact Hf.
  destruct ((qos =? 0) || (qos =? 3)).
  { K_send G; (split; cbn [fst snd]; [exact Hk0|rets]). }
  destruct (qos =? 1).
  { sr_K G; (split; cbn [fst snd]; [try apply K_finish; assumption|rets]). }
  destruct (qos =? 2).
  { sr_K G; (split; cbn [fst snd]; [try apply K_finish; assumption|rets]). }
  split; cbn [fst snd]; [exact Hk0|rets].
Qed.

Lemma do_call_K (G : N -> Prop) cfg s call a : K G s -> fresh s call -> G call -> KR G (do_call cfg s call a).
Proof.
  intros Hk Hf Hg. unfold do_call.
  destruct a as [|topic|topic qos|tid qos|topic qos retain payload|tid qos retain payload|topic|tid| |ms| |].
  - apply connect_attempt_K; assumption.
  - destruct (len topic =? 0); [split; cbn [fst snd]; [exact Hk|rets]|]. apply call_simple_K; auto.
  - destruct (len topic =? 0); [split; cbn [fst snd]; [exact Hk|rets]|].
    destruct (is_short_topic topic); apply call_simple_K; auto.
  - apply call_simple_K; auto.
  - destruct (is_short_topic topic); [apply do_publish_K; assumption|].
    destruct (reg_lookup (cl_registered s) topic); [apply do_publish_K; assumption|]. split; cbn [fst snd]; [exact Hk|rets].
  - apply do_publish_K; assumption.
  - destruct (len topic =? 0); [split; cbn [fst snd]; [exact Hk|rets]|].
    destruct (is_short_topic topic); apply call_simple_K; auto.
  - apply call_simple_K; auto.
  - sr_K G; (split; cbn [fst snd]; [try apply K_finish; assumption|rets]).
  - destruct (negb _); [split; cbn [fst snd]; [exact Hk|rets]|].
    destruct (K_new_obj G s (CxSleep call CtNone 0 ms) Hk) as [Hk1 Hg1].
    { cbn [call_of]. intros c E. injection E as <-. exact Hf. }
    { cbn [dcall]. discriminate. }
    destruct (c_new_obj s (CxSleep call CtNone 0 ms)) as [s1 g1]. cbn [fst snd] in Hk1, Hg1. cbv zeta.
    assert (Hk2 : K G (s1 <| cl_by_type := <[TY_DISCONNECT := g1]> (cl_by_type s1) |>)) by (K_raw; exact Hk1).
    cbn [cl_st set]. destruct (cl_st s1); try (split; cbn [fst snd]; [exact Hk2|rets]).
    + K_send G; (split; cbn [fst snd]; [|rets]).
      * apply K_arm. eapply K_set_obj; [exact Hk2|exact Hg1|reflexivity|reflexivity].
      * apply K_finish, Hk2.
    + split; cbn [fst snd]; [|rets]. apply K_arm, K_set_state. eapply K_set_obj; [exact Hk2|exact Hg1|reflexivity|reflexivity].
  - destruct (cl_st s); try (split; cbn [fst snd]; [exact Hk|rets]);
      (sr_K G; (split; cbn [fst snd]; [first [apply K_set_state|apply K_finish]; assumption|rets])).
  - destruct (cl_st s); try (split; cbn [fst snd]; [K_raw; apply K_cancel_loop, Hk|rets]);
      (sr_K G; (split; cbn [fst snd]; [first [apply K_set_state|apply K_finish]; assumption|rets])).
Qed.

Lemma txn_call_spec t c' : In c' (txn_call t) ->
  exists c, call_of t = Some c /\ c' / 2 = c /\ (c' mod 2 <> 0 -> dcall t = Some c).
Proof.
  destruct t as [call att|call kind key st data n sub|call st n ms|mid pub]; cbn [txn_call call_of dcall].
  - intros [<-|[]]. exists call. repeat split; lia.
  - destruct ((kind =? 6) || (kind =? 7)); intros [<-|[]]; exists call; repeat split; lia.
  - intros [<-|[]]. exists call. repeat split; lia.
  - intros [].
Qed.

Lemma complete_K (G : N -> Prop) cfg s g t r ic : K G s -> cl_objs s !! g = Some t ->
  (r = ROk -> dcall t = None -> forall c, call_of t = Some c -> G c) ->
  KR G (complete cfg s g t r ic).
Proof.
  intros Hk Hg Hok. unfold complete. cbv zeta.
  assert (Hf : K G (c_finish_obj s g)) by (apply K_finish, Hk).
  assert (Hfr : forall c, call_of t = Some c -> fresh (c_finish_obj s g) c) by (intros c Hc; eapply fresh_finish; eassumption).
  destruct (cl_cancelled (c_finish_obj s g)).
  { split; cbn [fst snd]; [|rets]. destruct (cl_exited _); [exact Hf|].
    apply K_wg_add; [exact Hf|]. intros c' Hin. apply txn_call_spec in Hin. destruct Hin as (c & Hc & Hc2 & Hd).
    rewrite Hc2. split; [apply (Hfr c Hc)|]. intros Hodd. eapply (k_jo G s Hk g t c Hg), Hd, Hodd. }
  destruct t as [call att|call kind key st data n sub|call st n ms|mid pub].
  - assert (Hr : forall r', (r' = ROk -> r = ROk) -> KR G (c_finish_obj s g, ret (c_finish_obj s g) call r')).
    { intros r' Hr'. split; cbn [fst snd]; [exact Hf|]. apply RetsG_ret. intros E. eapply Hok; [auto|reflexivity|reflexivity]. }
    destruct r; try (apply Hr; auto; discriminate).
    destruct (att + 1 <=? k_rcount cfg); [|apply Hr; discriminate].
    apply connect_attempt_K; [exact Hf|]. apply Hfr. reflexivity.
  - assert (Hd : (kind =? 6) || (kind =? 7) = true -> G call).
    { intros E. apply (k_jo G s Hk g _ call Hg). cbn [dcall]. rewrite E. reflexivity. }
    destruct (kind =? 6) eqn:E6.
    { destruct r; (split; cbn [fst snd]; [try apply K_cancel_api; exact Hf|]); try (apply RetsG_ret_ne; discriminate);
        apply RetsG_ret; intros _; apply Hd; reflexivity. }
    destruct (kind =? 7) eqn:E7.
    { destruct r; (split; cbn [fst snd]; [try (K_raw; apply K_cancel_loop); exact Hf|]); try (apply RetsG_ret_ne; discriminate);
        apply RetsG_ret; intros _; apply Hd; reflexivity. }
    split; cbn [fst snd]; [exact Hf|]. apply RetsG_ret. intros E. eapply Hok; [exact E| |reflexivity].
    cbn [dcall]. rewrite E6, E7. reflexivity.
  - split; cbn [fst snd]; [exact Hf|]. apply RetsG_ret. intros E. eapply Hok; [exact E|reflexivity|reflexivity].
  - split; cbn [fst snd]; [exact Hf|rets].
Qed.

Lemma c_exit_K (G : N -> Prop) s t : K G s -> KR G (c_exit s t).
Proof.
  intros Hk. unfold c_exit. cbv zeta. split; cbn [fst snd].
  - destruct Hk as [H1 H2 H3 H4]. split; cbn; [exact H1| |exact H3|]; intros; contradiction.
  - intros c Hin. cbn in Hin.
    assert (Hall : forall c', In c' ((map snd (map_to_list (cl_objs s)) ≫= txn_call) ++ cl_waiting_group s) ->
              c' mod 2 <> 0 -> G (c' / 2)).
    { intros c' Hin' Hodd. apply in_app_or in Hin'. destruct Hin' as [Hin'|Hin']; [|apply (k_jw G s Hk c' Hin' Hodd)].
      apply elem_of_list_In, elem_of_list_bind in Hin'. destruct Hin' as (t0 & Hc' & Ht0).
      apply elem_of_list_In, in_map_iff in Ht0. destruct Ht0 as ([g0 t1] & E & Hgt). cbn [snd] in E. subst t1.
      apply elem_of_list_In, elem_of_map_to_list in Hgt.
      apply elem_of_list_In, txn_call_spec in Hc'. destruct Hc' as (c0 & _ & E & Hd). rewrite E.
      apply (k_jo G s Hk g0 t0 c0 Hgt). apply Hd, Hodd. }
    revert Hall Hin. generalize ((map snd (map_to_list (cl_objs s)) ≫= txn_call) ++ cl_waiting_group s). intros l Hall.
    unfold c_rets. induction l as [|c' l IH]; [intros []|].
    cbn [mbind list_bind]. rewrite bind_app. intros Hin. apply in_app_or in Hin. destruct Hin as [Hin|Hin].
    + destruct (c' mod 2 =? 0) eqn:Em; cbn in Hin; [destruct Hin as [E|[]]; discriminate|].
      destruct (cl_group_err s); destruct Hin as [E|[]]; [discriminate|]. injection E as <-.
      apply Hall; [left; reflexivity|]. apply N.eqb_neq, Em.
    + apply IH; [|exact Hin]. intros c'' Hin'' Ho. apply Hall; [right; exact Hin''|exact Ho].
Qed.

(* what is known where a transaction is completed successfully by a received packet *)
Definition site_ok (s : cl_state) (p : packet) (g : N) (t : ctxn) : Prop :=
  match t with
  | CxRetry _ kind _ st _ _ _ =>
    if kind =? 3 then exists x mid, p = Puback x mid RC_ACCEPTED /\ cl_by_id s !! mid = Some g /\ st = CtAwaitPuback
    else if kind =? 4 then exists mid, p = Pubcomp mid /\ cl_by_id s !! mid = Some g /\ st = CtAwaitPubcomp
    else True
  | _ => True
  end.

Lemma RetsG_dispatch (G : N -> Prop) s topic p : RetsG G (dispatch s topic p).
Proof. unfold dispatch. destruct p; try apply RetsG_nil. match goal with |- context [match ?x with _ => _ end] => destruct x end; intros c []. Qed.

Lemma ct_state_eqb_eq a b : ct_state_eqb a b = true -> a = b.
Proof. destruct a, b; cbn; intros H; try discriminate; reflexivity. Qed.

Ltac K_solve G :=
  repeat first
    [ assumption
    | apply K_arm | apply K_disarm | apply K_set_state | apply K_cancel_api | apply K_cancel_loop | apply K_finish
    | eapply K_set_obj; [|eassumption|reflexivity|reflexivity]
    | K_raw
    | match goal with |- K _ (if ?c then _ else _) => destruct c end ].

Ltac K_leaf G := split; cbn [fst snd]; [K_solve G|repeat first [apply RetsG_dispatch|progress rets]].

Ltac K_walk G :=
  repeat first
    [ match goal with H : c_get_id _ _ = Some (_, _) |- _ => apply c_get_id_Some in H; destruct H as [? ?] end
    | match goal with H : c_get_type _ _ = Some (_, _) |- _ => apply c_get_type_Some in H; destruct H as [? ?] end
    | match goal with |- context [c_new_obj ?X ?t] =>
        let Hk := fresh "Hk" in let Hg := fresh "Hg" in
        destruct (K_new_obj G X t ltac:(assumption) ltac:(intros ?; discriminate) ltac:(intros ?; discriminate)) as [Hk Hg];
        destruct (c_new_obj X t) as [? ?]; cbn [fst snd] in Hk, Hg
      end
    | K_send G
    | match goal with |- KR _ (match ?x with _ => _ end) => destruct x eqn:? end
    | match goal with |- KR _ (if ?x then _ else _) => destruct x eqn:? end
    | match goal with |- KR _ (let (_, _) := ?x in _) => destruct x eqn:? end ].

Section HandlePacketK.
  Variables (G : N -> Prop) (cfg : cl_cfg) (s : cl_state) (p : packet).
  Hypothesis Hk : K G s.
  Hypothesis Hok : forall g t c, cl_objs s !! g = Some t -> call_of t = Some c -> site_ok s p g t -> G c.

  Ltac okc :=
    let E := fresh "E" in let c := fresh "c" in let Hc := fresh "Hc" in
    intros E _ c Hc;
    first [discriminate E
          |eapply Hok; [eassumption|exact Hc|cbn [site_ok N.eqb Pos.eqb]; try exact I]].

  Ltac K_complete :=
    repeat match goal with |- context [if ?c then (set ?f ?v ?X) else ?X] => destruct c end;
    (apply complete_K; [K_solve G|eassumption|okc]).

  Lemma handle_packet_K : forall q, q = p -> KR G (handle_packet cfg s q).
  Proof.
    intros q Eq. unfold handle_packet, loop_err. destruct q; cbv zeta; K_walk G; try K_complete; try K_leaf G.
    all: subst p.
    - (* Puback *)
      eexists _, _. split; [f_equal; apply N.eqb_eq; eassumption|]. split; [eassumption|].
      apply ct_state_eqb_eq. match goal with H : negb _ = false |- _ => apply negb_false_iff in H; exact H end.
    - (* Pubcomp *)
      eexists. split; [reflexivity|]. split; [eassumption|]. apply ct_state_eqb_eq. assumption.
  Qed.
End HandlePacketK.

Lemma c_set_obj_lookup s g t : cl_objs (c_set_obj s g t) !! g = Some t.
Proof. unfold c_set_obj. cbn. apply lookup_insert. Qed.

Lemma c_fire_K (G : N -> Prop) cfg s k : K G s -> KR G (c_fire cfg s k).
Proof.
  intros Hk. unfold c_fire.
  destruct k as [g|g|g|g|g]; cbv zeta; K_walk G;
    try (apply complete_K; [K_solve G|first [eassumption|apply c_set_obj_lookup]|intros E; discriminate E]);
    try K_leaf G.
Qed.

Lemma KR_app (G : N -> Prop) s o o' : RetsG G o -> KR G (s, o') -> KR G (s, o ++ o').
Proof. intros Ho [H1 H2]. split; [exact H1|apply RetsG_app; assumption]. Qed.

Lemma c_run_timers_K (G : N -> Prop) cfg t fuel : forall s, K G s -> KR G (c_run_timers fuel cfg s t).
Proof.
  induction fuel as [|fuel IH]; intros s Hk; cbn [c_run_timers]; [split; [exact Hk|apply RetsG_nil]|]. cbv zeta.
  destruct (c_min_timer (cl_timers s)) as [tm|].
  - match goal with |- context [if ?c then _ else _] => destruct c end.
    + match goal with |- context [c_fire cfg ?X ?k] =>
        assert (Hk1 : KR G (c_fire cfg X k)) by (apply c_fire_K; repeat K_raw; exact Hk);
        destruct (c_fire cfg X k) as [s1 o1] end.
      destruct Hk1 as [Hk1 Ho1]. cbn [fst snd] in Hk1, Ho1.
      specialize (IH s1 Hk1). destruct (c_run_timers fuel cfg s1 t) as [s2 o2]. apply KR_app; assumption.
    + destruct (if cl_exited s then None else cl_cancelled s) as [te|]; [|split; [exact Hk|apply RetsG_nil]].
      destruct (te <=? t); [|split; [exact Hk|apply RetsG_nil]].
      pose proof (c_exit_K G s te Hk) as [Hk1 Ho1]. destruct (c_exit s te) as [s1 o1]. cbn [fst snd] in Hk1, Ho1.
      specialize (IH s1 Hk1). destruct (c_run_timers fuel cfg s1 t) as [s2 o2]. apply KR_app; assumption.
  - destruct (if cl_exited s then None else cl_cancelled s) as [te|]; [|split; [exact Hk|apply RetsG_nil]].
    destruct (te <=? t); [apply c_exit_K, Hk|split; [exact Hk|apply RetsG_nil]].
Qed.

Lemma cl_step_K (G : N -> Prop) cfg s ev : K G s ->
  (forall id a, ev = CCall id a -> fresh s id /\ G id) ->
  (forall p, ev_pkt ev = Some p -> forall g t c, cl_objs s !! g = Some t -> call_of t = Some c -> site_ok s p g t -> G c) ->
  KR G (cl_step cfg s ev).
Proof.
  intros Hk Hc Hp. unfold cl_step. destruct ev as [id a|dg|d].
  - destruct (cl_exited s); [split; [exact Hk|apply RetsG_nil]|]. destruct (cl_cancelled s); [split; [exact Hk|apply RetsG_nil]|].
    destruct (Hc id a eq_refl) as [Hf Hg].
    pose proof (do_call_K G cfg s id a Hk Hf Hg) as [Hk1 Ho1]. destruct (do_call cfg s id a) as [s1 o1]. cbn [fst snd] in Hk1, Ho1.
    destruct (cl_cancelled s1) as [te|]; [|split; assumption]. destruct (te <=? cl_now s1); [|split; assumption].
    pose proof (c_exit_K G s1 te Hk1) as Hk2. destruct (c_exit s1 te) as [s2 o2]. apply KR_app; assumption.
  - destruct (cl_exited s); [split; [exact Hk|apply RetsG_nil]|]. destruct (cl_cancelled s); [split; [exact Hk|apply RetsG_nil]|]. cbv zeta.
    assert (Hk0 : K G (s <| cl_last_read := cl_now s |>)) by (K_raw; exact Hk).
    cbn [ev_pkt] in Hp.
    destruct (read_dgram dg) as [p|e|ps].
    + pose proof (handle_packet_K G cfg (s <| cl_last_read := cl_now s |>) p Hk0 (Hp p eq_refl) p eq_refl) as [Hk1 Ho1].
      destruct (handle_packet cfg (s <| cl_last_read := cl_now s |>) p) as [s1 o1]. cbn [fst snd] in Hk1, Ho1.
      destruct (cl_cancelled s1) as [te|]; [|split; assumption]. destruct (te <=? cl_now s1); [|split; assumption].
      pose proof (c_exit_K G s1 te Hk1) as Hk2. destruct (c_exit s1 te) as [s2 o2]. apply KR_app; assumption.
    + match goal with |- context [c_exit ?X ?t] =>
        pose proof (c_exit_K G X t ltac:(apply K_cancel_loop, Hk0)) as Hk2; destruct (c_exit X t) as [s2 o2] end. exact Hk2.
    + match goal with |- context [c_exit ?X ?t] =>
        pose proof (c_exit_K G X t ltac:(apply K_cancel_loop, Hk0)) as Hk2; destruct (c_exit X t) as [s2 o2] end. exact Hk2.
  - pose proof (c_run_timers_K G cfg (cl_now s + d) (c_advance_fuel cfg s d) s Hk) as [Hk1 Ho1].
    destruct (c_run_timers (c_advance_fuel cfg s d) cfg s (cl_now s + d)) as [s1 o1]. cbn [fst snd] in *.
    split; cbn [fst snd]; [K_raw; exact Hk1|exact Ho1].
Qed.
