(* Client/Sound_C27b.v — the client model's own outputs are accepted by chk_C27b (Checkers/ChkCl5.v),
   the "is delivered" half of C27: when a live client delivers a PUBLISH (QoS 0/1 on receipt, QoS 2 on
   PUBREL) whose topic resolves and matches at least one current subscription, the outputs of the very
   same step contain a callback.

     chk_C27b_sound     chk_C27b cfg s ev (snd (cl_step cfg s ev)) = []       (no hypothesis at all)
     chk_C27b_history   the same along every history from every state (cl_run_all)

   Why no hypothesis is needed:
   - QoS 1: the callback comes after the PUBACK was written; c_send fails only on a closed connection
     (excluded by c_live s) or when the packet exceeds MaxPacketLen, and PUBACK always packs to 7 bytes
     (puback_fits, for arbitrary — even out-of-range — topic / message IDs);
   - QoS 2: `delivered` looks the PUBREL's message ID up with c_get_id, exactly the two lookups
     handle_packet does; the callback is emitted before PUBCOMP is written, whatever c_send answers;
   - the step's trailing c_exit outputs (if the same step cancels the group) are appended, never
     substituted.
   The checker is silent on a client that is not live (exited, cancelled, connection closed): there the
   model emits nothing at all for CGw (exited / cancelled) or cannot write the PUBACK (closed). *)
From stdpp Require Import base option list numbers fin_maps nmap.
From Coq Require Import Lia ZArith ZifyN ZifyNat ZifyBool.
From RecordUpdate Require Import RecordSet.
From Verif.Base Require Import Bytes BytesProofs.
From Verif.Codec Require Import Packets Decode Encode EncodeProofs.
From Verif.Topics Require Import Predefined.
From Verif.Gateway Require Import GwTypes.
From Verif.Match Require Import Match MatchProofs.
From Verif.Client Require Import ClTypes ClStep Sound_Client_aux Sound_Client.
From Verif.Checkers Require Import ChkCodec ChkGw ChkCl ChkCl5.
Import RecordSetNotations.
Open Scope N_scope.
Ltac Zify.zify_post_hook ::= Z.div_mod_to_equations.

(* ------------------------------------------------------------------ callbacks in output lists *)

Definition hascb (os : list cl_out) : Prop := c_cbs os <> [].

Lemma hascb_app_l a b : hascb a -> hascb (a ++ b).
Proof. unfold hascb. rewrite c_cbs_app. intros Ha E. apply app_eq_nil in E. apply Ha, E. Qed.
Lemma hascb_app_r a b : hascb b -> hascb (a ++ b).
Proof. unfold hascb. rewrite c_cbs_app. intros Hb E. apply app_eq_nil in E. apply Hb, E. Qed.

Lemma hascb_dispatch s topic dup qos retain tit tid mid data :
  handle_set (cl_handlers s) topic <> [] -> hascb (dispatch s topic (Publish dup qos retain tit tid mid data)).
Proof.
  intros Hh. unfold dispatch. destruct (handle_set (cl_handlers s) topic) as [|sub rest]; [contradiction|].
  unfold hascb. cbn. discriminate.
Qed.

(* PUBACK is 7 bytes whatever the IDs are: on an open connection it is always written *)
Lemma puback_fits tid mid rc : len (pack (Puback tid mid rc)) <= MaxPacketLen.
Proof. vm_compute. discriminate. Qed.

(* ------------------------------------------------------------------ handle_packet *)

Lemma handle_packet_c27b cfg s p tit tid topic :
  cl_conn_closed s = false -> deliv s p = Some (tit, tid) -> topic_for_publish cfg s tit tid = Some topic ->
  handle_set (cl_handlers s) topic <> [] -> hascb (snd (handle_packet cfg s p)).
Proof.
  intros Hcc Hd Ht Hh. destruct p; try discriminate Hd.
  - (* Publish: QoS 0 / QoS 1 *)
    unfold deliv in Hd. unfold handle_packet. destruct (qos =? 0) eqn:E0.
    { cbn [orb] in Hd. inversion Hd; subst tit0 tid0. rewrite Ht. cbn [snd]. apply hascb_dispatch, Hh. }
    destruct (qos =? 1) eqn:E1; [|discriminate Hd].
    cbn [orb] in Hd. inversion Hd; subst tit0 tid0.
    rewrite (c_send_ok s (Puback tid mid RC_ACCEPTED) Hcc (puback_fits _ _ _)), Ht. cbn [snd].
    apply hascb_app_r, hascb_dispatch, Hh.
  - (* Pubrel: QoS 2 *)
    unfold deliv, c_get_id in Hd. unfold handle_packet.
    destruct (cl_by_id s !! mid) as [g|]; [|discriminate Hd].
    destruct (cl_objs s !! g) as [[call att|call kind key st data n sub|call st n ms|mid' pub]|]; try discriminate Hd.
    destruct pub; try discriminate Hd. inversion Hd; subst tit0 tid0. rewrite Ht. cbv zeta.
    destruct (c_send s (Pubcomp mid)) as [o2 [|]]; cbn [snd]; apply hascb_app_l, hascb_dispatch, Hh.
Qed.

(* ------------------------------------------------------------------ the step *)

Lemma cl_step_c27b cfg s ev tit tid topic :
  c_live s = true -> delivered cfg s ev = Some (tit, tid) -> topic_for_publish cfg s tit tid = Some topic ->
  handle_set (cl_handlers s) topic <> [] -> hascb (snd (cl_step cfg s ev)).
Proof.
  intros Hl Hd Ht Hh.
  unfold c_live in Hl. apply andb_true_iff in Hl. destruct Hl as [Hl Hcc]. apply andb_true_iff in Hl. destruct Hl as [Hex Hca].
  apply negb_true_iff in Hex. apply negb_true_iff in Hcc.
  destruct ev as [id a|dg|d]; [discriminate Hd| |discriminate Hd].
  unfold delivered, ev_pkt in Hd. unfold cl_step. rewrite Hex.
  destruct (cl_cancelled s); [discriminate Hca|]. cbv zeta.
  destruct (read_dgram dg) as [p|e|ps]; [|discriminate Hd|discriminate Hd].
  fold (deliv s p) in Hd.
  (* the receive loop's bookkeeping does not touch what the lemma looks at *)
  assert (Hcc' : cl_conn_closed (s <| cl_last_read := cl_now s |>) = false) by exact Hcc.
  assert (Hd' : deliv (s <| cl_last_read := cl_now s |>) p = Some (tit, tid)) by exact Hd.
  assert (Ht' : topic_for_publish cfg (s <| cl_last_read := cl_now s |>) tit tid = Some topic) by exact Ht.
  assert (Hh' : handle_set (cl_handlers (s <| cl_last_read := cl_now s |>)) topic <> []) by exact Hh.
  pose proof (handle_packet_c27b cfg _ p tit tid topic Hcc' Hd' Ht' Hh') as H1.
  destruct (handle_packet cfg (s <| cl_last_read := cl_now s |>) p) as [s1 o1]. cbn [snd] in H1.
  destruct (cl_cancelled s1) as [te|]; [|exact H1]. destruct (te <=? cl_now s1); [|exact H1].
  destruct (c_exit s1 te) as [s2 o2]. cbn [snd]. apply hascb_app_l, H1.
Qed.

(* no hypothesis is needed *)
Theorem chk_C27b_sound : forall cfg s ev, chk_C27b cfg s ev (snd (cl_step cfg s ev)) = [].
Proof.
  intros cfg s ev. unfold chk_C27b.
  destruct (c_live s) eqn:El; cbn [negb]; [|reflexivity].
  destruct (delivered cfg s ev) as [[tit tid]|] eqn:Ed; [|reflexivity].
  destruct (topic_for_publish cfg s tit tid) as [topic|] eqn:Et; [|reflexivity].
  destruct (handle_set (cl_handlers s) topic) as [|sub rest] eqn:Eh; [reflexivity|].
  destruct (c_cbs (snd (cl_step cfg s ev))) as [|cb cbs] eqn:Ec; [exfalso|reflexivity].
  apply (cl_step_c27b cfg s ev tit tid topic El Ed Et); [rewrite Eh; discriminate|exact Ec].
Qed.

Theorem chk_C27b_history : forall cfg evs s,
  cl_run_all cfg (fun s ev => chk_C27b cfg s ev (snd (cl_step cfg s ev)) = []) s evs.
Proof. intros cfg. apply cl_run_all_forall. intros s' ev. apply chk_C27b_sound. Qed.

(* ------------------------------------------------------------------ the clause is exercised *)

Definition ex27_cfg : cl_cfg :=
  {| k_cid := [99]; k_user := []; k_pass := []; k_keepalive := 0; k_ctimeout := 5000; k_rdelay := 1000; k_rcount := 2;
     k_clean := true; k_will := []; k_wmsg := []; k_wqos := 0; k_wretain := false; k_predef := [] |}.
(* an active client whose subscription 7 is on the short topic "ab" *)
Definition ex27_s : cl_state := cl_init <| cl_st := Active |> <| cl_handlers := tbl_store [] (split [97; 98]) 7 |>.
Definition ex27_pub (q : N) : packet := Publish false q false TIT_SHORT (encode_short [97; 98]) 5 [1; 2].

(* QoS 0 PUBLISH on "ab": the model invokes the callback of subscription 7; a step without any
   output (or with the PUBACK only) is rejected by clause 5 *)
Example chk_C27b_exercised :
  c_live ex27_s = true /\
  snd (cl_step ex27_cfg ex27_s (CGw (pack (ex27_pub 0)))) = [CoCb 0 7 [97; 98] [1; 2] 0 false false 5] /\
  chk_C27b ex27_cfg ex27_s (CGw (pack (ex27_pub 0))) (snd (cl_step ex27_cfg ex27_s (CGw (pack (ex27_pub 0))))) = [] /\
  chk_C27b ex27_cfg ex27_s (CGw (pack (ex27_pub 0))) [] = [5] /\
  (* QoS 1: PUBACK then callback; the PUBACK alone is rejected *)
  snd (cl_step ex27_cfg ex27_s (CGw (pack (ex27_pub 1)))) =
    [CoSn 0 (pack (Puback (encode_short [97; 98]) 5 RC_ACCEPTED)); CoCb 0 7 [97; 98] [1; 2] 1 false false 5] /\
  chk_C27b ex27_cfg ex27_s (CGw (pack (ex27_pub 1))) [CoSn 0 (pack (Puback (encode_short [97; 98]) 5 RC_ACCEPTED))] = [5] /\
  (* QoS 2: nothing is due on the PUBLISH, the callback is due on the PUBREL *)
  chk_C27b ex27_cfg ex27_s (CGw (pack (ex27_pub 2))) [] = [] /\
  (let s2 := fst (cl_step ex27_cfg ex27_s (CGw (pack (ex27_pub 2)))) in
   snd (cl_step ex27_cfg s2 (CGw (pack (Pubrel 5)))) =
     [CoCb 0 7 [97; 98] [1; 2] 2 false false 5; CoSn 0 (pack (Pubcomp 5))] /\
   chk_C27b ex27_cfg s2 (CGw (pack (Pubrel 5))) [CoSn 0 (pack (Pubcomp 5))] = [5]) /\
  (* no matching subscription: nothing is due *)
  chk_C27b ex27_cfg (ex27_s <| cl_handlers := [] |>) (CGw (pack (ex27_pub 0))) [] = [].
Proof. vm_compute. repeat split. Qed.

Print Assumptions chk_C27b_sound.
Print Assumptions chk_C27b_history.
