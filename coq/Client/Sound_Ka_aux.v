(* Client/Sound_Ka_aux.v — lemmas for Client/Sound_Ka.v (C33, the keep-alive loop of the client library):
   1. the facts about cl_step the keep-alive proofs need:
        ping_step       CCall id APing keeps cl_st and cl_now, and adds only retry timers;
        user_step_now   CCall / CGw steps do not increase cl_now;
        quiet_adv       an advance that ends before cl_deadline does nothing but set the clock, and every
                        timer is later than the new time;
        adv_rok         a CoRet _ _ ROk among the outputs of a CAdv step means the group context is cancelled
                        afterwards (timers complete transactions with errors only; Disconnect/Close cancel);
        adv0_same       an advance to an instant at which only retry timers are due keeps cl_st;
   2. the output judgment good st hc os ("every KoPing of os is emitted while the state is Active, state
      changes are in time order, and no state change at or before the instant of an earlier ping follows")
      and its link to state_at of Checkers/ChkCl4.v. *)
From stdpp Require Import base option list numbers fin_maps nmap.
From Coq Require Import Lia ZArith ZifyN ZifyNat ZifyBool.
From RecordUpdate Require Import RecordSet.
From Verif.Base Require Import Bytes.
From Verif.Codec Require Import Packets Decode Encode.
From Verif.Topics Require Import Predefined.
From Verif.Gateway Require Import GwTypes.
From Verif.Match Require Import Match.
From Verif.Client Require Import ClTypes ClStep ClKeepalive Sound_Client_aux Sound_Client Sound_ClTimed_aux Sound_ClTimed.
From Verif.Checkers Require Import ChkCl4.
Import RecordSetNotations.
Open Scope N_scope.
Ltac Zify.zify_post_hook ::= Z.div_mod_to_equations.

Lemma cstate_eqb_refl a : cstate_eqb a a = true.
Proof. destruct a; reflexivity. Qed.
Lemma cstate_eqb_true a b : cstate_eqb a b = true -> a = b.
Proof. destruct a, b; (reflexivity || discriminate). Qed.
Lemma cstate_eqb_false a b : cstate_eqb a b = false -> a <> b.
Proof. intros H ->. rewrite cstate_eqb_refl in H. discriminate. Qed.

(* ------------------------------------------------------------------ timers that cannot change the state *)
Definition is_retry (k : ctimer_kind) : bool := match k with CtmRetry _ => true | _ => false end.
(* every timer due at or before T is a retry timer *)
Definition TK (s : cl_state) (T : N) : Prop :=
  forall tm, In tm (cl_timers s) -> ctm_at tm <= T -> is_retry (ctm_kind tm) = true.
Definition TSub (s s' : cl_state) : Prop :=
  forall tm, In tm (cl_timers s') -> In tm (cl_timers s) \/ is_retry (ctm_kind tm) = true.
(* s' has the state of s and, apart from retry timers, only timers of s *)
Definition Same (s s' : cl_state) : Prop := cl_st s' = cl_st s /\ TSub s s'.

Lemma Same_refl s : Same s s.
Proof. split; [reflexivity|]. intros tm H. left. exact H. Qed.
Lemma Same_trans a b c : Same a b -> Same b c -> Same a c.
Proof.
  intros [E1 S1] [E2 S2]. split; [congruence|]. intros tm H. destruct (S2 tm H) as [H2|H2]; [|right; exact H2].
  apply S1, H2.
Qed.
Lemma Same_eq s s' : cl_st s' = cl_st s -> cl_timers s' = cl_timers s -> Same s s'.
Proof. intros E1 E2. split; [exact E1|]. intros tm H. left. rewrite <- E2. exact H. Qed.
Lemma Same_filter f s s' : cl_st s' = cl_st s -> cl_timers s' = List.filter f (cl_timers s) -> Same s s'.
Proof.
  intros E1 E2. split; [exact E1|]. intros tm H. left. rewrite E2 in H. apply List.filter_In in H. apply H.
Qed.
Lemma TK_Same s s' T : TK s T -> Same s s' -> TK s' T.
Proof. intros H [_ S] tm Hi Hle. destruct (S tm Hi) as [H1|H1]; [apply (H tm H1 Hle)|exact H1]. Qed.
Lemma TK_ext s s' T : cl_timers s' = cl_timers s -> TK s T -> TK s' T.
Proof. intros E H tm Hi. rewrite E in Hi. apply H, Hi. Qed.

Lemma Same_arm_retry s g d : Same s (c_arm s (CtmRetry g) d).
Proof.
  split; [reflexivity|]. intros tm H. unfold c_arm in H. cbn in H. apply in_app_or in H.
  destruct H as [H|[<-|[]]]; [left; exact H|right; reflexivity].
Qed.
Lemma Same_disarm s g : Same s (c_disarm s g).
Proof. eapply Same_filter; reflexivity. Qed.
Lemma Same_set_obj s g t : Same s (c_set_obj s g t).
Proof. apply Same_eq; reflexivity. Qed.
Lemma finish_st s g : cl_st (c_finish_obj s g) = cl_st s.
Proof.
  unfold c_finish_obj. destruct (cl_objs s !! g) as [t|]; [|reflexivity].
  destruct t; cbv zeta; try reflexivity.
  destruct (_ =? 5); [reflexivity|]. destruct (_ || _); reflexivity.
Qed.
Lemma Same_finish s g : Same s (c_finish_obj s g).
Proof.
  destruct (cl_objs s !! g) as [t|] eqn:E.
  - destruct (finish_facts s g t E) as (_ & Ht & _). eapply Same_filter; [apply finish_st|exact Ht].
  - rewrite c_finish_obj_none by exact E. apply Same_refl.
Qed.
Lemma Same_cancel_api s : Same s (c_cancel_from_api s).
Proof.
  unfold c_cancel_from_api. destruct (cl_cancelled s); [apply Same_refl|].
  eapply Same_filter; reflexivity.
Qed.
Lemma Same_cancel_loop s e : Same s (c_cancel_from_loop s e).
Proof.
  unfold c_cancel_from_loop. destruct (cl_cancelled s); [apply Same_refl|].
  eapply Same_filter; reflexivity.
Qed.
Lemma Same_exit s te : Same s (fst (c_exit s te)).
Proof. apply Same_eq; reflexivity. Qed.

(* completion of a transaction that is not a CONNECT attempt *)
Definition not_connect (t : ctxn) : Prop := match t with CxConnect _ _ => False | _ => True end.
Lemma Same_complete cfg s g t r ic : not_connect t -> Same s (fst (complete cfg s g t r ic)).
Proof.
  intros Hnc. unfold complete. cbv zeta. eapply Same_trans; [apply (Same_finish s g)|].
  generalize (c_finish_obj s g). intros s1.
  destruct (cl_cancelled s1).
  { destruct (cl_exited s1); cbn [fst]; [apply Same_refl|apply Same_eq; reflexivity]. }
  destruct t; try contradiction; cbn [fst]; try apply Same_refl.
  destruct (_ =? 6).
  { destruct r; cbn [fst]; try apply Same_refl; apply Same_cancel_api. }
  destruct (_ =? 7); [|apply Same_refl].
  destruct r; cbn [fst]; try apply Same_refl;
    (eapply Same_trans; [apply (Same_cancel_loop s1 true)|apply Same_eq; reflexivity]).
Qed.

Lemma Same_fire_retry cfg s g : Same s (fst (c_fire cfg s (CtmRetry g))).
Proof.
  cbn [c_fire]. destruct (cl_objs s !! g) as [t|]; [|apply Same_refl].
  destruct t; try apply Same_refl.
  destruct (_ <? _); [apply Same_complete; exact I|]. cbv zeta.
  match goal with |- context [c_send ?X ?p] => destruct (c_send X p) as [o [|]] end.
  - cbn [fst]. eapply Same_trans; [apply Same_set_obj|apply Same_arm_retry].
  - eapply Same_trans; [apply Same_set_obj|apply Same_complete; exact I].
Qed.

Lemma TK_run_timers cfg t : forall fuel s, TK s t -> Same s (fst (c_run_timers fuel cfg s t)).
Proof.
  induction fuel as [|fuel IH]; intros s Htk; cbn [c_run_timers]; [apply Same_refl|]. cbv zeta.
  destruct (c_min_timer (cl_timers s)) as [tm|] eqn:Emin.
  - destruct (c_min_timer_spec _ _ Emin) as [Hin _].
    destruct ((ctm_at tm <=? t) && _) eqn:Edue.
    + apply andb_true_iff in Edue. destruct Edue as [Ed _]. apply N.leb_le in Ed.
      pose proof (Htk tm Hin Ed) as Hr. destruct (ctm_kind tm) as [g|g|g|g|g] eqn:Ek; try discriminate Hr.
      set (s0 := s <| cl_now := ctm_at tm |> <| cl_timers := List.filter (fun u => negb (ctm_seq u =? ctm_seq tm)) (cl_timers s) |>).
      assert (H0 : Same s s0) by (eapply Same_filter; reflexivity).
      pose proof (Same_fire_retry cfg s0 g) as H1.
      destruct (c_fire cfg s0 (CtmRetry g)) as [s1 o1]. cbn [fst] in H1.
      assert (H01 : Same s s1) by (eapply Same_trans; eassumption).
      pose proof (IH s1 (TK_Same _ _ _ Htk H01)) as H2.
      destruct (c_run_timers fuel cfg s1 t) as [s2 o2]. cbn [fst] in *. eapply Same_trans; eassumption.
    + destruct (if cl_exited s then None else cl_cancelled s) as [te|]; [|apply Same_refl].
      destruct (te <=? t); [|apply Same_refl].
      pose proof (Same_exit s te) as H1. destruct (c_exit s te) as [s1 o1]. cbn [fst] in H1.
      pose proof (IH s1 (TK_Same _ _ _ Htk H1)) as H2.
      destruct (c_run_timers fuel cfg s1 t) as [s2 o2]. cbn [fst] in *. eapply Same_trans; eassumption.
  - destruct (if cl_exited s then None else cl_cancelled s) as [te|]; [|apply Same_refl].
    destruct (te <=? t); [|apply Same_refl]. apply Same_exit.
Qed.

(* F5: an advance by 0 at an instant where only retry timers are due *)
Lemma adv0_same cfg s : TK s (cl_now s) -> Same s (fst (cl_step cfg s (CAdv 0))).
Proof.
  intros Htk. unfold cl_step. rewrite N.add_0_r.
  pose proof (TK_run_timers cfg (cl_now s) (c_advance_fuel cfg s 0) s Htk) as H.
  destruct (c_run_timers _ _ _ _) as [s1 o1]. cbn [fst] in *.
  eapply Same_trans; [exact H|apply Same_eq; reflexivity].
Qed.

(* F1: the keep-alive ping *)
Lemma do_call_ping cfg s id :
  Same s (fst (do_call cfg s id APing)) /\ cl_cancelled (fst (do_call cfg s id APing)) = cl_cancelled s.
Proof.
  cbn [do_call]. unfold start_retry, c_new_obj. cbv zeta.
  match goal with |- context [c_send ?X ?p] => destruct (c_send X p) as [o [|]] end; cbn [fst].
  - split; [|reflexivity]. split; [reflexivity|]. intros tm H. cbn in H. apply in_app_or in H.
    destruct H as [H|[<-|[]]]; [left; exact H|right; reflexivity].
  - split.
    + eapply Same_trans; [|apply Same_finish]. split; [reflexivity|]. intros tm H. cbn in H. apply in_app_or in H.
      destruct H as [H|[<-|[]]]; [left; exact H|right; reflexivity].
    + rewrite c_finish_obj_cancelled. reflexivity.
Qed.

Lemma ping_step cfg s id :
  Same s (fst (cl_step cfg s (CCall id APing))) /\ cl_now (fst (cl_step cfg s (CCall id APing))) = cl_now s.
Proof.
  unfold cl_step. destruct (cl_exited s); [split; [apply Same_refl|reflexivity]|].
  destruct (cl_cancelled s) eqn:Ec; [split; [apply Same_refl|reflexivity]|].
  destruct (do_call_ping cfg s id) as [H1 H2]. pose proof (do_call_now cfg s id APing) as H3.
  destruct (do_call cfg s id APing) as [s1 o1]. cbn [fst] in *. rewrite H2, Ec. cbn [fst]. split; assumption.
Qed.

(* F2: calls and datagrams do not move the clock forward *)
Lemma user_step_now cfg s ev : (forall d, ev <> CAdv d) -> cl_now (fst (cl_step cfg s ev)) <= cl_now s.
Proof.
  intros Hev. unfold cl_step. destruct ev as [id a|dg|d]; [| |exfalso; eapply Hev; reflexivity].
  - destruct (cl_exited s); [cbn; lia|]. destruct (cl_cancelled s); [cbn; lia|].
    pose proof (do_call_now cfg s id a) as Hn. destruct (do_call cfg s id a) as [s1 o1]. cbn [fst] in Hn.
    destruct (cl_cancelled s1) as [te|]; [|cbn; lia]. destruct (te <=? cl_now s1) eqn:E; [|cbn; lia].
    apply N.leb_le in E. cbn. lia.
  - destruct (cl_exited s); [cbn; lia|]. destruct (cl_cancelled s); [cbn; lia|]. cbv zeta.
    destruct (read_dgram dg) as [p|e|ps].
    + pose proof (handle_packet_now cfg (s <| cl_last_read := cl_now s |>) p) as Hn.
      destruct (handle_packet cfg (s <| cl_last_read := cl_now s |>) p) as [s1 o1]. cbn [fst] in Hn.
      change (cl_now (s <| cl_last_read := cl_now s |>)) with (cl_now s) in Hn.
      destruct (cl_cancelled s1) as [te|]; [|cbn; lia]. destruct (te <=? cl_now s1) eqn:E; [|cbn; lia].
      apply N.leb_le in E. cbn. lia.
    + cbn. lia.
    + cbn. lia.
Qed.

(* F3: nothing happens before the deadline *)
Definition before_deadline (s : cl_state) (t : N) : Prop :=
  match cl_deadline s with Some c => t < c | None => True end.

Lemma quiet_run cfg s t fuel : before_deadline s t -> c_run_timers fuel cfg s t = (s, []).
Proof.
  unfold before_deadline, cl_deadline. intros H. destruct fuel as [|fuel]; [reflexivity|]. cbn [c_run_timers]. cbv zeta.
  destruct (c_min_timer (cl_timers s)) as [tm|].
  - destruct (if cl_exited s then None else cl_cancelled s) as [te|]; cbn [min_opt] in H.
    + assert (E1 : (ctm_at tm <=? t) = false) by (apply N.leb_gt; lia). rewrite E1. cbn [andb].
      assert (E2 : (te <=? t) = false) by (apply N.leb_gt; lia). rewrite E2. reflexivity.
    + assert (E1 : (ctm_at tm <=? t) = false) by (apply N.leb_gt; lia). rewrite E1. reflexivity.
  - destruct (if cl_exited s then None else cl_cancelled s) as [te|]; cbn [min_opt] in H; [|reflexivity].
    assert (E2 : (te <=? t) = false) by (apply N.leb_gt; lia). rewrite E2. reflexivity.
Qed.

Lemma quiet_adv cfg s d : before_deadline s (cl_now s + d) ->
  cl_step cfg s (CAdv d) = (s <| cl_now := cl_now s + d |>, []).
Proof. intros H. unfold cl_step. rewrite quiet_run by exact H. reflexivity. Qed.

Lemma before_deadline_TK s t : before_deadline s t -> forall tm, In tm (cl_timers s) -> t < ctm_at tm.
Proof.
  unfold before_deadline, cl_deadline. intros H tm Hi.
  destruct (c_min_timer (cl_timers s)) as [u|] eqn:Emin.
  - destruct (c_min_timer_spec _ _ Emin) as [_ Hmin]. specialize (Hmin tm Hi).
    destruct (if cl_exited s then None else cl_cancelled s); cbn [min_opt] in H; lia.
  - destruct (cl_timers s) as [|x l]; [destruct Hi|]. cbn in Emin.
    destruct (c_min_timer l); [destruct (c_earlier _ _)|]; discriminate.
Qed.

(* F4: timers complete transactions with errors only *)
Definition rok (o : list cl_out) : Prop := exists t id, In (CoRet t id ROk) o.
Lemma rok_app a b : rok (a ++ b) -> rok a \/ rok b.
Proof. intros (t & id & H). apply in_app_or in H. destruct H; [left|right]; exists t, id; assumption. Qed.
Lemma rok_nil : ~ rok [].
Proof. intros (t & id & []). Qed.
Lemma rok_send s p : ~ rok (fst (c_send s p)).
Proof.
  unfold c_send. destruct (cl_conn_closed s); [apply rok_nil|]. destruct (_ <=? _); [|apply rok_nil].
  intros (t & id & [H|[]]). discriminate H.
Qed.
Lemma rok_ret s call r : r <> ROk -> ~ rok (ret s call r).
Proof. intros Hr (t & id & [H|[]]). injection H as _ _ E. apply Hr. exact E. Qed.

Definition canc (s : cl_state) : Prop := cl_cancelled s <> None.
Lemma canc_api s : canc (c_cancel_from_api s).
Proof. unfold canc, c_cancel_from_api. destruct (cl_cancelled s) eqn:E; [rewrite E|]; discriminate. Qed.
Lemma canc_loop s e : canc (c_cancel_from_loop s e).
Proof. unfold canc, c_cancel_from_loop. destruct (cl_cancelled s) eqn:E; [rewrite E|]; discriminate. Qed.

Lemma connect_attempt_cancelled cfg s call n : cl_cancelled (fst (connect_attempt cfg s call n)) = cl_cancelled s.
Proof.
  unfold connect_attempt, c_new_obj. cbv zeta.
  repeat match goal with |- context [c_send ?X ?p] => destruct (c_send X p) as [? [|]] end;
    try destruct (_ =? 0); reflexivity.
Qed.
Lemma connect_attempt_rok cfg s call n : ~ rok (snd (connect_attempt cfg s call n)).
Proof.
  unfold connect_attempt, c_new_obj. cbv zeta.
  match goal with |- context [c_send ?X ?p] => pose proof (rok_send X p) as H1; destruct (c_send X p) as [o1 [|]] end; cbn [fst] in H1.
  - destruct (_ =? 0); [exact H1|].
    match goal with |- context [c_send ?X ?p] => pose proof (rok_send X p) as H2; destruct (c_send X p) as [o2 [|]] end; cbn [fst snd] in *.
    + intros H. apply rok_app in H. destruct H; contradiction.
    + intros H. apply rok_app in H. destruct H as [H|H]; [contradiction|]. apply rok_app in H. destruct H as [H|H]; [contradiction|].
      revert H. apply rok_ret. discriminate.
  - cbn [snd]. intros H. apply rok_app in H. destruct H as [H|H]; [contradiction|]. revert H. apply rok_ret. discriminate.
Qed.

(* completion: the result r is passed on, except that Disconnect / Close turn it into nil and cancel *)
Lemma complete_canc cfg s g t r ic : canc s -> canc (fst (complete cfg s g t r ic)).
Proof.
  unfold canc, complete. cbv zeta. rewrite <- (c_finish_obj_cancelled s g). generalize (c_finish_obj s g). intros s1 H.
  destruct (cl_cancelled s1) eqn:E; [|contradiction]. destruct (cl_exited s1); cbn [fst]; [rewrite E|cbn; rewrite E]; discriminate.
Qed.
Lemma complete_rok cfg s g t r ic : r <> ROk -> rok (snd (complete cfg s g t r ic)) -> canc (fst (complete cfg s g t r ic)).
Proof.
  intros Hr. unfold complete. cbv zeta. generalize (c_finish_obj s g). intros s1.
  destruct (cl_cancelled s1) eqn:E; [cbn [snd]; intros H; destruct (rok_nil H)|].
  destruct t.
  - destruct r; try (cbn [snd]; intros H; exfalso; revert H; apply rok_ret; (exact Hr || discriminate)).
    destruct (_ <=? _); [intros H; destruct (connect_attempt_rok _ _ _ _ H)|].
    cbn [snd]. intros H. exfalso. revert H. apply rok_ret. discriminate.
  - destruct (_ =? 6).
    { destruct r; cbn [fst snd]; intros H; try apply canc_api; exfalso; revert H; apply rok_ret; (exact Hr || discriminate). }
    destruct (_ =? 7).
    { destruct r; cbn [fst snd]; intros H; try (apply (canc_loop s1 true)); exfalso; revert H; apply rok_ret; (exact Hr || discriminate). }
    cbn [snd]. intros H. exfalso. revert H. apply rok_ret. exact Hr.
  - cbn [snd]. intros H. exfalso. revert H. apply rok_ret. exact Hr.
  - cbn [snd]. intros H. destruct (rok_nil H).
Qed.

Lemma c_fire_canc cfg s k : canc s -> canc (fst (c_fire cfg s k)).
Proof.
  intros Hc. unfold c_fire.
  destruct k as [g|g|g|g|g]; (destruct (cl_objs s !! g) as [t|]; [|exact Hc]); destruct t; try exact Hc;
    try (apply complete_canc; exact Hc).
  - destruct (_ <? _); [apply complete_canc; exact Hc|]. cbv zeta.
    match goal with |- context [c_send ?X ?p] => destruct (c_send X p) as [o [|]] end; [exact Hc|apply complete_canc; exact Hc].
  - destruct (_ <? _); [apply complete_canc; exact Hc|]. cbv zeta.
    match goal with |- context [c_send ?X ?p] => destruct (c_send X p) as [o [|]] end; [exact Hc|apply complete_canc; exact Hc].
  - cbv zeta.
    match goal with |- context [c_send ?X ?p] => destruct (c_send X p) as [o [|]] end; [exact Hc|apply complete_canc; exact Hc].
Qed.

Lemma c_fire_rok cfg s k : rok (snd (c_fire cfg s k)) -> canc (fst (c_fire cfg s k)).
Proof.
  unfold c_fire.
  destruct k as [g|g|g|g|g]; (destruct (cl_objs s !! g) as [t|]; [|intros H; destruct (rok_nil H)]); destruct t;
    try (intros H; destruct (rok_nil H)); try (apply complete_rok; discriminate).
  - destruct (_ <? _); [apply complete_rok; discriminate|]. cbv zeta.
    match goal with |- context [c_send ?X ?p] => pose proof (rok_send X p) as H1; destruct (c_send X p) as [o [|]] end;
      [cbn [snd fst] in *; intros H; contradiction|apply complete_rok; discriminate].
  - destruct (_ <? _); [apply complete_rok; discriminate|]. cbv zeta.
    match goal with |- context [c_send ?X ?p] => pose proof (rok_send X p) as H1; destruct (c_send X p) as [o [|]] end;
      [cbn [snd fst] in *; intros H; contradiction|apply complete_rok; discriminate].
  - cbv zeta.
    match goal with |- context [c_send ?X ?p] => pose proof (rok_send X p) as H1; destruct (c_send X p) as [o [|]] end;
      [cbn [snd fst] in *; intros H; contradiction|apply complete_rok; discriminate].
Qed.

Lemma run_timers_canc cfg t : forall fuel s, canc s -> canc (fst (c_run_timers fuel cfg s t)).
Proof.
  induction fuel as [|fuel IH]; intros s Hc; cbn [c_run_timers]; [exact Hc|]. cbv zeta.
  destruct (c_min_timer (cl_timers s)) as [tm|].
  - destruct (_ && _).
    + set (s0 := s <| cl_now := ctm_at tm |> <| cl_timers := List.filter (fun u => negb (ctm_seq u =? ctm_seq tm)) (cl_timers s) |>).
      pose proof (c_fire_canc cfg s0 (ctm_kind tm) Hc) as H1. destruct (c_fire cfg s0 (ctm_kind tm)) as [s1 o1]. cbn [fst] in H1.
      pose proof (IH s1 H1) as H2. destruct (c_run_timers fuel cfg s1 t) as [s2 o2]. exact H2.
    + destruct (if cl_exited s then None else cl_cancelled s) as [te|]; [|exact Hc]. destruct (te <=? t); [|exact Hc].
      assert (H1 : canc (fst (c_exit s te))) by exact Hc. destruct (c_exit s te) as [s1 o1]. cbn [fst] in H1.
      pose proof (IH s1 H1) as H2. destruct (c_run_timers fuel cfg s1 t) as [s2 o2]. exact H2.
  - destruct (if cl_exited s then None else cl_cancelled s) as [te|]; [|exact Hc]. destruct (te <=? t); exact Hc.
Qed.

Lemma run_timers_rok cfg t : forall fuel s, rok (snd (c_run_timers fuel cfg s t)) -> canc (fst (c_run_timers fuel cfg s t)).
Proof.
  induction fuel as [|fuel IH]; intros s; cbn [c_run_timers]; [intros H; destruct (rok_nil H)|]. cbv zeta.
  assert (Hx : forall te, (if cl_exited s then None else cl_cancelled s) = Some te -> canc s).
  { intros te H. unfold canc. destruct (cl_exited s); [discriminate|]. rewrite H. discriminate. }
  destruct (c_min_timer (cl_timers s)) as [tm|].
  - destruct (_ && _).
    + set (s0 := s <| cl_now := ctm_at tm |> <| cl_timers := List.filter (fun u => negb (ctm_seq u =? ctm_seq tm)) (cl_timers s) |>).
      pose proof (c_fire_rok cfg s0 (ctm_kind tm)) as H1. destruct (c_fire cfg s0 (ctm_kind tm)) as [s1 o1]. cbn [fst snd] in H1.
      pose proof (IH s1) as H2. pose proof (run_timers_canc cfg t fuel s1) as H3.
      destruct (c_run_timers fuel cfg s1 t) as [s2 o2]. cbn [fst snd] in *.
      intros H. apply rok_app in H. destruct H as [H|H]; [apply H3, H1, H|apply H2, H].
    + destruct (if cl_exited s then None else cl_cancelled s) as [te|] eqn:Ex; [|intros H; destruct (rok_nil H)].
      destruct (te <=? t); [|intros H; destruct (rok_nil H)]. intros _.
      assert (H1 : canc (fst (c_exit s te))) by (exact (Hx te eq_refl)). destruct (c_exit s te) as [s1 o1]. cbn [fst] in H1.
      pose proof (run_timers_canc cfg t fuel s1 H1) as H2. destruct (c_run_timers fuel cfg s1 t) as [s2 o2]. exact H2.
  - destruct (if cl_exited s then None else cl_cancelled s) as [te|] eqn:Ex; [|intros H; destruct (rok_nil H)].
    destruct (te <=? t); [|intros H; destruct (rok_nil H)]. intros _. exact (Hx te eq_refl).
Qed.

Lemma adv_rok cfg s d : rok (snd (cl_step cfg s (CAdv d))) -> canc (fst (cl_step cfg s (CAdv d))).
Proof.
  unfold cl_step. pose proof (run_timers_rok cfg (cl_now s + d) (c_advance_fuel cfg s d) s) as H.
  destruct (c_run_timers _ _ _ _) as [s1 o1]. cbn [fst snd] in *. exact H.
Qed.

(* ------------------------------------------------------------------ the outputs of the keep-alive model *)
Definition no_chg (os : list ka_out) : Prop := forall t st, ~ In (KoState t st) os.
Definition no_ping (os : list ka_out) : Prop := forall t id, ~ In (KoPing t id) os.
Definition chg_gt (os : list ka_out) (T : N) : Prop := forall t st, In (KoState t st) os -> T < t.
Definition chg_at (os : list ka_out) (T : N) : Prop := forall t st, In (KoState t st) os -> t = T.

Fixpoint last_st (st : cstate) (os : list ka_out) : cstate :=
  match os with
  | [] => st
  | KoState _ st' :: r => last_st st' r
  | _ :: r => last_st st r
  end.

(* st: the state before os; hc: a lower bound of the times of the state changes in os *)
Fixpoint good (st : cstate) (hc : N) (os : list ka_out) : Prop :=
  match os with
  | [] => True
  | KoCl _ :: r => good st hc r
  | KoState t st' :: r => hc <= t /\ good st' t r
  | KoPing t id :: r => st = Active /\ hc <= t /\ chg_gt r t /\ good st hc r
  end.

Lemma no_chg_nil : no_chg []. Proof. intros t st []. Qed.
Lemma no_ping_nil : no_ping []. Proof. intros t st []. Qed.
Lemma no_chg_app a b : no_chg a -> no_chg b -> no_chg (a ++ b).
Proof. intros Ha Hb t st H. apply in_app_or in H. destruct H as [H|H]; [eapply Ha|eapply Hb]; exact H. Qed.
Lemma no_ping_app a b : no_ping a -> no_ping b -> no_ping (a ++ b).
Proof. intros Ha Hb t st H. apply in_app_or in H. destruct H as [H|H]; [eapply Ha|eapply Hb]; exact H. Qed.
Lemma no_chg_cl xs : no_chg (map KoCl xs).
Proof. intros t st H. apply in_map_iff in H. destruct H as (x & E & _). discriminate E. Qed.
Lemma no_ping_cl xs : no_ping (map KoCl xs).
Proof. intros t st H. apply in_map_iff in H. destruct H as (x & E & _). discriminate E. Qed.
Lemma no_chg_gt os T : no_chg os -> chg_gt os T.
Proof. intros H t st Hi. destruct (H t st Hi). Qed.
Lemma no_chg_at os T : no_chg os -> chg_at os T.
Proof. intros H t st Hi. destruct (H t st Hi). Qed.
Lemma chg_gt_app a b T : chg_gt a T -> chg_gt b T -> chg_gt (a ++ b) T.
Proof. intros Ha Hb t st H. apply in_app_or in H. destruct H as [H|H]; [eapply Ha|eapply Hb]; exact H. Qed.

Lemma good_mono os : forall st hc hc', hc' <= hc -> good st hc os -> good st hc' os.
Proof.
  induction os as [|x r IH]; intros st hc hc' Hle H; [exact I|]. destruct x as [c|t st'|t id]; cbn [good] in *.
  - eapply IH; eassumption.
  - destruct H as [H1 H2]. split; [lia|exact H2].
  - destruct H as (H1 & H2 & H3 & H4). repeat split; try assumption; [lia|]. eapply IH; eassumption.
Qed.

Lemma good_chg_ge os : forall st hc, good st hc os -> forall t st', In (KoState t st') os -> hc <= t.
Proof.
  induction os as [|x r IH]; intros st hc H t st' Hi; [destruct Hi|]. destruct x as [c|t1 st1|t1 id1]; cbn [good] in H.
  - destruct Hi as [E|Hi]; [discriminate E|]. eapply IH; eassumption.
  - destruct H as [H1 H2]. destruct Hi as [E|Hi]; [injection E as <- <-; exact H1|].
    pose proof (IH _ _ H2 _ _ Hi). lia.
  - destruct H as (_ & _ & _ & H4). destruct Hi as [E|Hi]; [discriminate E|]. eapply IH; eassumption.
Qed.

Lemma good_ping_ge os : forall st hc, good st hc os -> forall t id, In (KoPing t id) os -> hc <= t.
Proof.
  induction os as [|x r IH]; intros st hc H t id Hi; [destruct Hi|]. destruct x as [c|t1 st1|t1 id1]; cbn [good] in H.
  - destruct Hi as [E|Hi]; [discriminate E|]. eapply IH; eassumption.
  - destruct H as [H1 H2]. destruct Hi as [E|Hi]; [discriminate E|]. pose proof (IH _ _ H2 _ _ Hi). lia.
  - destruct H as (_ & H2 & _ & H4). destruct Hi as [E|Hi]; [injection E as <- <-; exact H2|]. eapply IH; eassumption.
Qed.

Lemma good_app a : forall st hc b hb, good st hc a -> good (last_st st a) hb b -> chg_at a hb -> hc <= hb ->
  (forall t id, In (KoPing t id) a -> chg_gt b t) -> good st hc (a ++ b).
Proof.
  induction a as [|x r IH]; intros st hc b hb Ha Hb Hat Hle Hp; cbn [app].
  - eapply good_mono; eassumption.
  - destruct x as [c|t st'|t id]; cbn [good last_st] in *.
    + eapply IH; try eassumption.
      * intros t st' Hi. eapply Hat. right. exact Hi.
      * intros t id Hi. eapply Hp. right. exact Hi.
    + destruct Ha as [H1 H2]. split; [exact H1|].
      assert (E : t = hb) by (eapply Hat; left; reflexivity). subst t.
      eapply IH; try eassumption.
      * intros t st1 Hi. eapply Hat. right. exact Hi.
      * lia.
      * intros t id Hi. eapply Hp. right. exact Hi.
    + destruct Ha as (H1 & H2 & H3 & H4). repeat split; try assumption.
      * apply chg_gt_app; [exact H3|]. eapply Hp. left. reflexivity.
      * eapply IH; try eassumption.
        -- intros t1 st' Hi. eapply Hat. right. exact Hi.
        -- intros t1 id1 Hi. eapply Hp. right. exact Hi.
Qed.

Lemma last_st_app a : forall st b, last_st st (a ++ b) = last_st (last_st st a) b.
Proof. induction a as [|x r IH]; intros st b; [reflexivity|]. destruct x; cbn [app last_st]; apply IH. Qed.
Lemma last_st_no_chg os : forall st, no_chg os -> last_st st os = st.
Proof.
  induction os as [|x r IH]; intros st H; [reflexivity|]. destruct x as [c|t st'|t id]; cbn [last_st].
  - apply IH. intros t st' Hi. eapply H. right. exact Hi.
  - exfalso. eapply H. left. reflexivity.
  - apply IH. intros t1 st' Hi. eapply H. right. exact Hi.
Qed.

Lemma good_pings os : forall st hc, no_chg os -> (forall t id, In (KoPing t id) os -> hc <= t /\ st = Active) -> good st hc os.
Proof.
  induction os as [|x r IH]; intros st hc Hn Hp; [exact I|].
  assert (Hn' : no_chg r) by (intros t st' Hi; eapply Hn; right; exact Hi).
  assert (Hp' : forall t id, In (KoPing t id) r -> hc <= t /\ st = Active) by (intros t id Hi; eapply Hp; right; exact Hi).
  destruct x as [c|t st'|t id]; cbn [good].
  - apply IH; assumption.
  - exfalso. eapply Hn. left. reflexivity.
  - destruct (Hp t id ltac:(left; reflexivity)) as [H1 H2]. repeat split; try assumption.
    + apply no_chg_gt, Hn'.
    + apply IH; assumption.
Qed.

(* the outputs of one event: the client's outputs, at most one state change (at T), then the loop's pings (at T) *)
Lemma good_do xs chg o2 st0 st1 hc T :
  (chg = [] /\ st1 = st0 \/ chg = [KoState T st1]) -> no_chg o2 ->
  (forall t id, In (KoPing t id) o2 -> t = T /\ st1 = Active) -> hc <= T ->
  good st0 hc ((map KoCl xs ++ chg) ++ o2) /\ last_st st0 ((map KoCl xs ++ chg) ++ o2) = st1 /\
  chg_at ((map KoCl xs ++ chg) ++ o2) T.
Proof.
  intros Hc Hn Hp Hle.
  assert (G2 : forall h, h <= T -> good st1 h o2).
  { intros h Hh. apply good_pings; [exact Hn|]. intros t id Hi. destruct (Hp t id Hi) as [-> E]. split; assumption. }
  rewrite <- app_assoc. split; [|split].
  - induction xs as [|x xs IH]; cbn [map app good]; [|exact IH].
    destruct Hc as [[-> ->]| ->]; cbn [app good]; [apply G2, Hle|]. split; [exact Hle|apply G2; lia].
  - induction xs as [|x xs IH]; cbn [map app last_st]; [|exact IH].
    destruct Hc as [[-> ->]| ->]; cbn [app last_st]; apply last_st_no_chg, Hn.
  - intros t st Hi. apply in_app_or in Hi. destruct Hi as [Hi|Hi]; [destruct (no_chg_cl xs t st Hi)|].
    apply in_app_or in Hi. destruct Hi as [Hi|Hi]; [|destruct (Hn t st Hi)].
    destruct Hc as [[-> _]| ->]; [destruct Hi|]. destruct Hi as [E|[]]. injection E as <- _. reflexivity.
Qed.

(* the link to the monitor's state_at *)
Lemma ko_changes_cons x r : ko_changes (x :: r) = match x with KoState t st => [(t, st)] | _ => [] end ++ ko_changes r.
Proof. reflexivity. Qed.
Lemma in_ko_changes os t st : In (t, st) (ko_changes os) -> In (KoState t st) os.
Proof.
  induction os as [|x r IH]; intros H; [destruct H|]. rewrite ko_changes_cons in H. apply in_app_or in H.
  destruct H as [H|H]; [|right; apply IH, H]. destruct x as [c|t1 st1|t1 id1]; [destruct H| |destruct H].
  destruct H as [E|[]]. injection E as <- <-. left. reflexivity.
Qed.
Lemma state_at_gt st0 chs t : (forall tc st, In (tc, st) chs -> t < tc) -> state_at st0 chs t = st0.
Proof.
  intros H. destruct chs as [|[tc st] r]; [reflexivity|]. cbn [state_at].
  assert (E : (tc <=? t) = false) by (apply N.leb_gt; eapply H; left; reflexivity). rewrite E. reflexivity.
Qed.

Lemma good_state_at os : forall st0 hc, good st0 hc os -> forall t id, In (KoPing t id) os ->
  state_at st0 (ko_changes os) t = Active.
Proof.
  induction os as [|x r IH]; intros st0 hc H t id Hi; [destruct Hi|]. rewrite ko_changes_cons.
  destruct x as [c|t1 st1|t1 id1]; cbn [good app] in *.
  - destruct Hi as [E|Hi]; [discriminate E|]. eapply IH; eassumption.
  - destruct H as [H1 H2]. destruct Hi as [E|Hi]; [discriminate E|]. cbn [state_at].
    assert (E : (t1 <=? t) = true) by (apply N.leb_le; eapply good_ping_ge; eassumption). rewrite E. eapply IH; eassumption.
  - destruct H as (H1 & H2 & H3 & H4). destruct Hi as [E|Hi]; [|eapply IH; eassumption]. injection E as <- <-.
    rewrite state_at_gt; [exact H1|]. intros tc st Hc. eapply H3. apply in_ko_changes. exact Hc.
Qed.

Print Assumptions ping_step.
Print Assumptions user_step_now.
Print Assumptions quiet_adv.
Print Assumptions adv_rok.
Print Assumptions adv0_same.
Print Assumptions good_app.
Print Assumptions good_state_at.
