(* Client/Sound_ClTimed_aux.v — invariants that tie the timed monitor of Checkers/ChkCl2.v to the
   client model: every pending API call is backed by a live transaction object whose single
   timer guarantees completion by the call's deadline (or, once the group context is cancelled,
   by the exit time of the receive loop).  The micro-steps of the model (do_call, handle_packet,
   c_fire, c_exit) are shown to preserve the invariants and to produce only timely returns. *)
From stdpp Require Import base option list numbers fin_maps nmap.
From Coq Require Import Lia ZArith ZifyN ZifyNat ZifyBool.
From RecordUpdate Require Import RecordSet.
From Verif.Base Require Import Bytes BytesProofs.
From Verif.Codec Require Import Packets Decode Encode EncodeProofs.
From Verif.Topics Require Import Predefined.
From Verif.Gateway Require Import GwTypes.
From Verif.Match Require Import Match MatchProofs.
From Verif.Client Require Import ClTypes ClStep Sound_Client_aux Sound_Client.
From Verif.Checkers Require Import ChkCodec ChkGw ChkCl ChkCl2.
Import RecordSetNotations.
Open Scope N_scope.
Ltac Zify.zify_post_hook ::= Z.div_mod_to_equations.

(* ------------------------------------------------------------------ arithmetic of retry budgets *)

(* time still covered by the retries after the pending timer of a RetryTransaction with
   retry_num = n / of a connect attempt number a *)
Definition rest (cfg : cl_cfg) (n : N) : N := (k_rcount cfg - n) * k_rdelay cfg.
Definition crest (cfg : cl_cfg) (a : N) : N := (k_rcount cfg - a) * k_ctimeout cfg.

Lemma rest_step cfg n : n + 1 <= k_rcount cfg -> rest cfg n = rest cfg (n + 1) + k_rdelay cfg.
Proof.
  intros H. unfold rest. replace (k_rcount cfg - n) with (k_rcount cfg - (n + 1) + 1) by lia.
  rewrite N.mul_add_distr_r. lia.
Qed.
Lemma rest_0 cfg : k_rdelay cfg + rest cfg 0 = budget cfg.
Proof. unfold rest, budget. rewrite N.sub_0_r, N.mul_add_distr_r. lia. Qed.
Lemma crest_step cfg a : a + 1 <= k_rcount cfg -> crest cfg a = crest cfg (a + 1) + k_ctimeout cfg.
Proof.
  intros H. unfold crest. replace (k_rcount cfg - a) with (k_rcount cfg - (a + 1) + 1) by lia.
  rewrite N.mul_add_distr_r. lia.
Qed.
Lemma crest_0 cfg : k_ctimeout cfg + crest cfg 0 = (k_rcount cfg + 1) * k_ctimeout cfg.
Proof. unfold crest. rewrite N.sub_0_r, N.mul_add_distr_r. lia. Qed.
Global Opaque rest crest budget.

(* ------------------------------------------------------------------ the part of the state that matters *)

Definition core (s : cl_state) :=
  (cl_timers s, cl_next_seq s, cl_now s, cl_last_read s, cl_cancelled s, cl_exited s, cl_waiting_group s,
   cl_conn_closed s, cl_next_obj s).

(* the timers of object g *)
Definition tmr (s : cl_state) (g : N) : list ctimer :=
  List.filter (fun tm => ctimer_obj (ctm_kind tm) =? g) (cl_timers s).

Record SI (s : cl_state) : Prop := {
  si_t1 : forall tm, In tm (cl_timers s) -> cl_now s <= ctm_at tm;
  si_t2 : forall tm, In tm (cl_timers s) -> ctm_seq tm < cl_next_seq s;
  si_t3 : List.NoDup (map ctm_seq (cl_timers s));
  si_t4 : forall tm, In tm (cl_timers s) -> ctimer_obj (ctm_kind tm) < cl_next_obj s;
  si_lr : cl_last_read s <= cl_now s;
  si_c1 : forall te, cl_cancelled s = Some te -> cl_exited s = false -> cl_now s <= te;
  si_c2 : cl_cancelled s = None -> cl_waiting_group s = [] /\ cl_exited s = false /\ cl_conn_closed s = false }.

Definition has_obj (s : cl_state) (c : N) : Prop := exists g t, cl_objs s !! g = Some t /\ call_of t = Some c.
Definition in_wg (s : cl_state) (c : N) : Prop := exists c', In c' (cl_waiting_group s) /\ c' / 2 = c.
Definition HasCall (s : cl_state) (c : N) : Prop := cl_exited s = false /\ (has_obj s c \/ in_wg s c).

(* object g (transaction t) completes by deadline D; its pending timer tm *)
Definition obj_bound (cfg : cl_cfg) (s : cl_state) (g : N) (t : ctxn) (D pr : N) (pub : bool) : Prop :=
  exists tm, tmr s g = [tm] /\
  match t with
  | CxConnect _ att => ctm_kind tm = CtmConnect g /\ pub = false /\ ctm_at tm + crest cfg att + readTimeout <= D
  | CxRetry _ kind _ st _ n _ =>
    ctm_kind tm = CtmRetry g /\ (pub = true -> (kind =? 6) || (kind =? 7) = false) /\
    ctm_at tm + rest cfg n <= pr + budget cfg /\
    ctm_at tm + rest cfg n + (if (kind =? 4) && ct_state_eqb st CtAwaitPubrec then budget cfg else 0) + readTimeout <= D
  | CxSleep _ st n ms =>
    pub = false /\
    match ctm_kind tm with
    | CtmSleepResend _ => ctm_at tm + rest cfg n + ms + maxPingrespWait + readTimeout <= D
    | CtmSleepWake _ => ctm_at tm + maxPingrespWait + readTimeout <= D
    | CtmSleepPingresp _ => ctm_at tm + readTimeout <= D
    | _ => False
    end
  | CxBrokerPub2 _ _ => False
  end.

Definition Backed (cfg : cl_cfg) (s : cl_state) (p : pending) : Prop :=
  cl_exited s = false /\
  match cl_cancelled s with
  | None => exists g t, cl_objs s !! g = Some t /\ call_of t = Some (p_id p) /\
                        obj_bound cfg s g t (p_deadline p) (p_progress p) (p_pub p)
  | Some te =>
    te <= p_deadline p /\ (has_obj s (p_id p) \/ in_wg s (p_id p)) /\
    (p_pub p = true ->
     (forall g t, cl_objs s !! g = Some t -> call_of t = Some (p_id p) -> dcall t = None) /\
     (forall c', In c' (cl_waiting_group s) -> c' / 2 = p_id p -> c' mod 2 = 0))
  end.

(* C28 (2): the client is gone by T: the transaction of Close is alive *)
Definition close_bound (cfg : cl_cfg) (s : cl_state) (g : N) (t : ctxn) (T : N) : Prop :=
  exists call key st n sub tm,
    t = CxRetry call 7 key st (Disconnect 0) n sub /\ tmr s g = [tm] /\
    ctm_kind tm = CtmRetry g /\ ctm_at tm + rest cfg n + readTimeout <= T.
Definition ExitB (cfg : cl_cfg) (s : cl_state) (T : N) : Prop :=
  cl_exited s = false ->
  match cl_cancelled s with
  | Some te => te <= T
  | None => exists g t, cl_objs s !! g = Some t /\ close_bound cfg s g t T
  end.

(* ---- dependence on objs and core only *)
Lemma tmr_ext s s' g : cl_timers s' = cl_timers s -> tmr s' g = tmr s g.
Proof. unfold tmr. intros ->. reflexivity. Qed.

Ltac core_inj H :=
  unfold core in H;
  let E1 := fresh "Etm" in let E2 := fresh "Esq" in let E3 := fresh "Enow" in let E4 := fresh "Elr" in
  let E5 := fresh "Eca" in let E6 := fresh "Eex" in let E7 := fresh "Ewg" in let E8 := fresh "Ecc" in let E9 := fresh "Eno" in
  injection H as E1 E2 E3 E4 E5 E6 E7 E8 E9.

Lemma SI_ext s s' : core s' = core s -> SI s -> SI s'.
Proof.
  intros Hc [H1 H2 H3 H4 H5 H6 H7]. core_inj Hc.
  split; rewrite ?Etm, ?Esq, ?Enow, ?Elr, ?Eca, ?Eex, ?Ewg, ?Ecc, ?Eno; assumption.
Qed.

Lemma obj_bound_ext cfg s s' g t D pr pub : cl_timers s' = cl_timers s ->
  obj_bound cfg s g t D pr pub -> obj_bound cfg s' g t D pr pub.
Proof. intros E. unfold obj_bound. rewrite (tmr_ext s s' g E). auto. Qed.

Lemma HasCall_ext s s' c : cl_objs s' = cl_objs s -> core s' = core s -> HasCall s c <-> HasCall s' c.
Proof.
  intros Ho Hc. core_inj Hc. unfold HasCall, has_obj, in_wg. rewrite Ho, Eex, Ewg. reflexivity.
Qed.

Lemma Backed_ext cfg s s' p : cl_objs s' = cl_objs s -> core s' = core s -> Backed cfg s p -> Backed cfg s' p.
Proof.
  intros Ho Hc. core_inj Hc. unfold Backed, has_obj, in_wg. rewrite Ho, Eex, Ewg, Eca.
  intros [H1 H2]. split; [exact H1|]. destruct (cl_cancelled s); [exact H2|].
  destruct H2 as (g & t & Hg & Hcl & Hb). exists g, t. split; [exact Hg|]. split; [exact Hcl|].
  eapply obj_bound_ext; [exact Etm|exact Hb].
Qed.

Lemma close_bound_tmr cfg s s' g t T : tmr s' g = tmr s g -> close_bound cfg s g t T -> close_bound cfg s' g t T.
Proof. unfold close_bound. intros ->. auto. Qed.
Lemma obj_bound_tmr cfg s s' g t D pr pub : tmr s' g = tmr s g -> obj_bound cfg s g t D pr pub -> obj_bound cfg s' g t D pr pub.
Proof. unfold obj_bound. intros ->. auto. Qed.

Lemma ExitB_ext cfg s s' T : cl_objs s' = cl_objs s -> core s' = core s -> ExitB cfg s T -> ExitB cfg s' T.
Proof.
  intros Ho Hc. core_inj Hc. unfold ExitB. rewrite Ho, Eex, Eca.
  destruct (cl_cancelled s); [auto|]. intros H He. specialize (H He).
  destruct H as (g & t & Hg & Hb). exists g, t. split; [exact Hg|].
  eapply close_bound_tmr; [|exact Hb]. apply tmr_ext, Etm.
Qed.

(* ---- returns in an output list *)
Definition RetT (p : pending) (o : list cl_out) : Prop :=
  forall id t r, In (id, t, r) (c_ret_times o) -> id = p_id p -> t <= p_deadline p.
Definition RetP (cfg : cl_cfg) (p : pending) (o : list cl_out) : Prop :=
  forall id t, In (id, t, ROk) (c_ret_times o) -> id = p_id p -> p_pub p = true -> t <= p_progress p + budget cfg.
Definition NoRet (c : N) (o : list cl_out) : Prop := forall id t r, In (id, t, r) (c_ret_times o) -> id <> c.
Definition returned (o : list cl_out) (c : N) : bool :=
  existsb (fun r => match r with (id', _, _) => id' =? c end) (c_ret_times o).

Lemma c_ret_times_app a b : c_ret_times (a ++ b) = c_ret_times a ++ c_ret_times b.
Proof. unfold c_ret_times. apply bind_app. Qed.
Lemma c_exits_app a b : c_exits (a ++ b) = c_exits a ++ c_exits b.
Proof. unfold c_exits. apply bind_app. Qed.

Lemma returned_app a b c : returned (a ++ b) c = returned a c || returned b c.
Proof. unfold returned. rewrite c_ret_times_app, existsb_app. reflexivity. Qed.

Lemma RetT_nil p : RetT p []. Proof. intros ? ? ? []. Qed.
Lemma RetP_nil cfg p : RetP cfg p []. Proof. intros ? ? []. Qed.
Lemma NoRet_nil c : NoRet c []. Proof. intros ? ? ? []. Qed.
Lemma RetT_app p a b : RetT p a -> RetT p b -> RetT p (a ++ b).
Proof. intros Ha Hb id t r H. rewrite c_ret_times_app in H. apply in_app_or in H. destruct H; [eapply Ha|eapply Hb]; eassumption. Qed.
Lemma RetP_app cfg p a b : RetP cfg p a -> RetP cfg p b -> RetP cfg p (a ++ b).
Proof. intros Ha Hb id t H. rewrite c_ret_times_app in H. apply in_app_or in H. destruct H; [eapply Ha|eapply Hb]; eassumption. Qed.
Lemma NoRet_app c a b : NoRet c a -> NoRet c b -> NoRet c (a ++ b).
Proof. intros Ha Hb id t r H. rewrite c_ret_times_app in H. apply in_app_or in H. destruct H; [eapply Ha|eapply Hb]; eassumption. Qed.

(* outputs without returns and exits *)
Definition quiet (o : list cl_out) : Prop := c_ret_times o = [] /\ c_exits o = [].
Lemma quiet_nil : quiet []. Proof. split; reflexivity. Qed.
Lemma quiet_app a b : quiet a -> quiet b -> quiet (a ++ b).
Proof. intros [A1 A2] [B1 B2]. split; [rewrite c_ret_times_app, A1, B1|rewrite c_exits_app, A2, B2]; reflexivity. Qed.
Lemma quiet_send s p : quiet (fst (c_send s p)).
Proof. unfold c_send. destruct (cl_conn_closed s); [apply quiet_nil|]. destruct (_ <=? _); [split; reflexivity|apply quiet_nil]. Qed.
Lemma quiet_dispatch s topic p : quiet (dispatch s topic p).
Proof. unfold dispatch. destruct p; try apply quiet_nil. destruct (handle_set _ _); [apply quiet_nil|split; reflexivity]. Qed.
Lemma quiet_RetT p o : quiet o -> RetT p o. Proof. intros [H _] ? ? ? Hi. rewrite H in Hi. destruct Hi. Qed.
Lemma quiet_RetP cfg p o : quiet o -> RetP cfg p o. Proof. intros [H _] ? ? Hi. rewrite H in Hi. destruct Hi. Qed.
Lemma quiet_NoRet c o : quiet o -> NoRet c o. Proof. intros [H _] ? ? ? Hi. rewrite H in Hi. destruct Hi. Qed.

(* ------------------------------------------------------------------ what a micro-step must establish *)

(* ex: the id of the API call being started (its id may become "had" without a pending entry yet) *)
Record Good (cfg : cl_cfg) (ex : option N) (s : cl_state) (r : CR) : Prop := {
  gd_si : SI (fst r);
  gd_b : forall p, Backed cfg s p -> Some (p_id p) <> ex ->
           RetT p (snd r) /\ RetP cfg p (snd r) /\
           (Backed cfg (fst r) p \/ (returned (snd r) (p_id p) = true /\ ~ HasCall (fst r) (p_id p)));
  gd_n : forall c, ~ HasCall s c -> Some c <> ex -> NoRet c (snd r) /\ ~ HasCall (fst r) c;
  gd_x : forall T, ExitB cfg s T -> ExitB cfg (fst r) T /\ (forall te, In te (c_exits (snd r)) -> te <= T);
  gd_e : cl_exited (fst r) = true -> cl_exited s = true \/ c_exits (snd r) <> [] }.

Lemma Good_ext cfg ex s s0 r : cl_objs s0 = cl_objs s -> core s0 = core s -> Good cfg ex s0 r -> Good cfg ex s r.
Proof.
  intros Ho Hc [G1 G2 G3 G4 G5]. split.
  - exact G1.
  - intros p Hb. apply G2. eapply Backed_ext; [exact Ho|exact Hc|exact Hb].
  - intros c Hn. apply G3. intros H. apply Hn. apply (HasCall_ext s s0 c); [exact Ho|exact Hc|exact H].
  - intros T Hx. apply G4. eapply ExitB_ext; [exact Ho|exact Hc|exact Hx].
  - intros He. destruct (G5 He) as [H|H]; [left|right; exact H]. core_inj Hc. congruence.
Qed.

(* nothing relevant changes, nothing is returned *)
Lemma Good_frame cfg ex s s' o : cl_objs s' = cl_objs s -> core s' = core s -> quiet o -> SI s -> Good cfg ex s (s', o).
Proof.
  intros Ho Hc Hq Hsi. split; cbn [fst snd].
  - eapply SI_ext; eassumption.
  - intros p Hb _. split; [apply quiet_RetT, Hq|]. split; [apply quiet_RetP, Hq|]. left. eapply Backed_ext; eassumption.
  - intros c Hn _. split; [apply quiet_NoRet, Hq|]. intros H. apply Hn. apply (HasCall_ext s s' c); assumption.
  - intros T Hx. split; [eapply ExitB_ext; eassumption|]. destruct Hq as [_ Hq]. rewrite Hq. intros te [].
  - intros He. left. core_inj Hc. congruence.
Qed.

Lemma Good_seq cfg ex s r1 r2 : Good cfg ex s r1 -> Good cfg None (fst r1) r2 -> Good cfg ex s (fst r2, snd r1 ++ snd r2).
Proof.
  intros [A1 A2 A3 A4 A5] [B1 B2 B3 B4 B5]. split; cbn [fst snd].
  - exact B1.
  - intros p Hb Hex. destruct (A2 p Hb Hex) as (At & Ap & Ab).
    destruct Ab as [Ab|[Ar An]].
    + destruct (B2 p Ab ltac:(discriminate)) as (Bt & Bp & Bb).
      split; [apply RetT_app; assumption|]. split; [apply RetP_app; assumption|].
      destruct Bb as [Bb|[Br Bn]]; [left; exact Bb|right]. split; [|exact Bn]. rewrite returned_app, Br. apply orb_true_r.
    + destruct (B3 _ An ltac:(discriminate)) as [Bn1 Bn2].
      split; [apply RetT_app; [exact At|]|].
      { intros id t r Hi E. exfalso. eapply Bn1; eassumption. }
      split; [apply RetP_app; [exact Ap|]|].
      { intros id t Hi E. exfalso. eapply Bn1; eassumption. }
      right. split; [|exact Bn2]. rewrite returned_app, Ar. reflexivity.
  - intros c Hn Hex. destruct (A3 c Hn Hex) as [An1 An2]. destruct (B3 c An2 ltac:(discriminate)) as [Bn1 Bn2].
    split; [apply NoRet_app; assumption|exact Bn2].
  - intros T Hx. destruct (A4 T Hx) as [Ax Ae]. destruct (B4 T Ax) as [Bx Be]. split; [exact Bx|].
    intros te Hi. rewrite c_exits_app in Hi. apply in_app_or in Hi. destruct Hi; [apply Ae|apply Be]; assumption.
  - intros He. destruct (B5 He) as [H|H].
    + destruct (A5 H) as [H'|H']; [left; exact H'|right]. rewrite c_exits_app. destruct (c_exits (snd r1)); [contradiction|discriminate].
    + right. rewrite c_exits_app. intros E. apply app_eq_nil in E. destruct E as [_ E]. contradiction.
Qed.

(* ------------------------------------------------------------------ timers of an object under the primitives *)
Lemma tmr_arm_same s k d g : ctimer_obj k = g ->
  tmr (c_arm s k d) g = tmr s g ++ [{| ctm_at := cl_now s + d; ctm_seq := cl_next_seq s; ctm_kind := k |}].
Proof.
  intros E. unfold tmr, c_arm. cbn. rewrite filter_app. cbn [List.filter ctm_kind]. rewrite E, N.eqb_refl. reflexivity.
Qed.
Lemma tmr_arm_other s k d g : ctimer_obj k <> g -> tmr (c_arm s k d) g = tmr s g.
Proof.
  intros E. unfold tmr, c_arm. cbn. rewrite filter_app. cbn [List.filter ctm_kind].
  apply N.eqb_neq in E. rewrite E. apply app_nil_r.
Qed.
Lemma tmr_disarm_same s g : tmr (c_disarm s g) g = [].
Proof.
  unfold tmr, c_disarm. cbn. induction (cl_timers s) as [|tm l IH]; [reflexivity|]. cbn [List.filter].
  destruct (ctimer_obj (ctm_kind tm) =? g) eqn:E; cbn [negb]; [exact IH|]. cbn [List.filter]. rewrite E. exact IH.
Qed.
Lemma tmr_disarm_other s g g' : g' <> g -> tmr (c_disarm s g) g' = tmr s g'.
Proof.
  intros Hne. unfold tmr, c_disarm. cbn. induction (cl_timers s) as [|tm l IH]; [reflexivity|]. cbn [List.filter].
  destruct (ctimer_obj (ctm_kind tm) =? g) eqn:E; cbn [negb].
  - apply N.eqb_eq in E. assert (E' : (ctimer_obj (ctm_kind tm) =? g') = false) by (apply N.eqb_neq; congruence).
    rewrite E'. exact IH.
  - cbn [List.filter]. destruct (ctimer_obj (ctm_kind tm) =? g'); [f_equal|]; exact IH.
Qed.
Lemma tmr_nil_fresh s g : SI s -> cl_next_obj s <= g -> tmr s g = [].
Proof.
  intros Hsi Hg. unfold tmr. pose proof (si_t4 s Hsi) as H4. induction (cl_timers s) as [|tm l IH]; [reflexivity|].
  cbn [List.filter]. assert (E : (ctimer_obj (ctm_kind tm) =? g) = false).
  { apply N.eqb_neq. specialize (H4 tm ltac:(left; reflexivity)). lia. }
  rewrite E. apply IH. intros tm' Hi. apply H4. right. exact Hi.
Qed.
Lemma tmr_in s g tm : In tm (tmr s g) <-> In tm (cl_timers s) /\ ctimer_obj (ctm_kind tm) = g.
Proof. unfold tmr. rewrite filter_In, N.eqb_eq. reflexivity. Qed.

(* ------------------------------------------------------------------ generic micro-steps *)

(* object g (transaction t) becomes object g2 (transaction t') of the same call; nothing is returned *)
Lemma Good_local cfg ex s s' g t g2 t' o :
  SI s' ->
  cl_cancelled s' = cl_cancelled s -> cl_exited s' = cl_exited s -> cl_waiting_group s' = cl_waiting_group s ->
  cl_objs s !! g = Some t ->
  cl_objs s' = <[g2 := t']> (delete g (cl_objs s)) ->
  (g2 = g \/ cl_objs s !! g2 = None) ->
  call_of t' = call_of t -> dcall t' = dcall t ->
  (forall g', g' <> g -> g' <> g2 -> tmr s' g' = tmr s g') ->
  (cl_cancelled s = None -> forall D pr pub, obj_bound cfg s g t D pr pub -> obj_bound cfg s' g2 t' D pr pub) ->
  (cl_cancelled s = None -> forall T, close_bound cfg s g t T -> close_bound cfg s' g2 t' T) ->
  quiet o ->
  Good cfg ex s (s', o).
Proof.
  intros Hsi Eca Eex Ewg Hg Ho Hg2 Hcall Hdc Htmr Hob Hcb Hq.
  assert (Hl2 : cl_objs s' !! g2 = Some t') by (rewrite Ho; apply lookup_insert).
  assert (Hlo : forall g', g' <> g -> g' <> g2 -> cl_objs s' !! g' = cl_objs s !! g').
  { intros g' H1 H2. rewrite Ho, lookup_insert_ne by congruence. apply lookup_delete_ne. congruence. }
  assert (Hne2 : forall g' t0, g' <> g -> cl_objs s !! g' = Some t0 -> g' <> g2).
  { intros g' t0 H1 H2. destruct Hg2 as [->|Hn]; [exact H1|]. intros ->. congruence. }
  assert (Hback : forall g' t0, cl_objs s' !! g' = Some t0 ->
            (g' = g2 /\ t0 = t') \/ (g' <> g /\ g' <> g2 /\ cl_objs s !! g' = Some t0)).
  { intros g' t0 H. destruct (N.eq_dec g' g2) as [->|Hn2]; [left; split; [reflexivity|congruence]|right].
    rewrite Ho, lookup_insert_ne in H by congruence.
    destruct (N.eq_dec g' g) as [->|Hn]; [rewrite lookup_delete in H; discriminate|].
    rewrite lookup_delete_ne in H by congruence. auto. }
  assert (Hho : forall c, has_obj s c <-> has_obj s' c).
  { intros c. split; intros (g0 & t0 & H0 & Hc0).
    - destruct (N.eq_dec g0 g) as [->|Hn].
      + exists g2, t'. split; [exact Hl2|]. rewrite Hg in H0. injection H0 as <-. congruence.
      + exists g0, t0. split; [|exact Hc0]. rewrite Hlo; [exact H0|exact Hn|eapply Hne2; eassumption].
    - destruct (Hback _ _ H0) as [[-> ->]|(H1 & H2 & H3)].
      + exists g, t. split; [exact Hg|congruence].
      + exists g0, t0. auto. }
  split; cbn [fst snd].
  - exact Hsi.
  - intros p [Hb1 Hb2] _. split; [apply quiet_RetT, Hq|]. split; [apply quiet_RetP, Hq|]. left.
    split; [congruence|]. rewrite Eca. destruct (cl_cancelled s) as [te|] eqn:Ec.
    + destruct Hb2 as (Hte & Hhas & Hpub). split; [exact Hte|]. split.
      * destruct Hhas as [H|H]; [left; apply Hho, H|right]. unfold in_wg in *. rewrite Ewg. exact H.
      * intros Hp. destruct (Hpub Hp) as [Hp1 Hp2]. split; [|rewrite Ewg; exact Hp2].
        intros g0 t0 H0 Hc0. destruct (Hback _ _ H0) as [[-> ->]|(H1 & H2 & H3)].
        -- rewrite Hdc. eapply Hp1; [exact Hg|congruence].
        -- eapply Hp1; eassumption.
    + destruct Hb2 as (gp & tp & Hgp & Hcp & Hbp). destruct (N.eq_dec gp g) as [->|Hn].
      * rewrite Hg in Hgp. injection Hgp as <-. exists g2, t'. split; [exact Hl2|]. split; [congruence|]. apply Hob; auto.
      * pose proof (Hne2 _ _ Hn Hgp) as Hn2. exists gp, tp. split; [rewrite Hlo; auto|]. split; [exact Hcp|].
        eapply obj_bound_tmr; [|exact Hbp]. apply Htmr; assumption.
  - intros c Hn _. split; [apply quiet_NoRet, Hq|]. intros [H1 H2]. apply Hn. split; [congruence|].
    destruct H2 as [H2|H2]; [left; apply Hho, H2|right]. unfold in_wg in *. rewrite <- Ewg. exact H2.
  - intros T Hx. split; [|destruct Hq as [_ Hq]; rewrite Hq; intros te []].
    unfold ExitB in *. rewrite Eex, Eca. intros He. specialize (Hx He). destruct (cl_cancelled s) eqn:Ec; [exact Hx|].
    destruct Hx as (gx & tx & Hgx & Hbx). destruct (N.eq_dec gx g) as [->|Hn].
    + rewrite Hg in Hgx. injection Hgx as <-. exists g2, t'. split; [exact Hl2|]. apply Hcb; auto.
    + pose proof (Hne2 _ _ Hn Hgx) as Hn2. exists gx, tx. split; [rewrite Hlo; auto|].
      eapply close_bound_tmr; [|exact Hbx]. apply Htmr; assumption.
  - intros He. left. congruence.
Qed.

(* a new object g; the only returns are those of the call being started *)
Lemma Good_new cfg ex s s' g t o :
  SI s' ->
  cl_cancelled s' = cl_cancelled s -> cl_exited s' = cl_exited s -> cl_waiting_group s' = cl_waiting_group s ->
  cl_objs s !! g = None ->
  cl_objs s' = <[g := t]> (cl_objs s) ->
  (forall g', g' <> g -> tmr s' g' = tmr s g') ->
  (forall c, call_of t = Some c -> ex = Some c) ->
  (forall id tt r, In (id, tt, r) (c_ret_times o) -> ex = Some id) -> c_exits o = [] ->
  Good cfg ex s (s', o).
Proof.
  intros Hsi Eca Eex Ewg Hg Ho Htmr Hcall Hrets Hexits.
  assert (Hlo : forall g' t0, cl_objs s !! g' = Some t0 -> cl_objs s' !! g' = Some t0 /\ g' <> g).
  { intros g' t0 H. assert (g' <> g) by (intros ->; congruence). split; [|assumption]. rewrite Ho, lookup_insert_ne by congruence. exact H. }
  assert (Hback : forall g' t0, cl_objs s' !! g' = Some t0 -> (g' = g /\ t0 = t) \/ cl_objs s !! g' = Some t0).
  { intros g' t0 H. rewrite Ho in H. destruct (N.eq_dec g' g) as [->|Hn].
    - rewrite lookup_insert in H. injection H as <-. left. auto.
    - rewrite lookup_insert_ne in H by congruence. right. exact H. }
  assert (HnoR : forall c, Some c <> ex -> NoRet c o).
  { intros c Hc id tt r Hi ->. apply Hc. symmetry. eapply Hrets, Hi. }
  split; cbn [fst snd].
  - exact Hsi.
  - intros p [Hb1 Hb2] Hex.
    split; [intros id tt r Hi E; exfalso; eapply (HnoR _ Hex); eassumption|].
    split; [intros id tt Hi E; exfalso; eapply (HnoR _ Hex); eassumption|]. left.
    split; [congruence|]. rewrite Eca. destruct (cl_cancelled s) as [te|] eqn:Ec.
    + destruct Hb2 as (Hte & Hhas & Hpub). split; [exact Hte|]. split.
      * destruct Hhas as [(g0 & t0 & H0 & Hc0)|H]; [left; exists g0, t0; split; [apply (Hlo _ _ H0)|exact Hc0]|right].
        unfold in_wg in *. rewrite Ewg. exact H.
      * intros Hp. destruct (Hpub Hp) as [Hp1 Hp2]. split; [|rewrite Ewg; exact Hp2].
        intros g0 t0 H0 Hc0. destruct (Hback _ _ H0) as [[-> ->]|H1]; [|eapply Hp1; eassumption].
        exfalso. apply Hex. symmetry. apply Hcall, Hc0.
    + destruct Hb2 as (gp & tp & Hgp & Hcp & Hbp). destruct (Hlo _ _ Hgp) as [H1 H2].
      exists gp, tp. split; [exact H1|]. split; [exact Hcp|]. eapply obj_bound_tmr; [|exact Hbp]. apply Htmr, H2.
  - intros c Hn Hex. split; [apply HnoR, Hex|]. intros [H1 H2]. apply Hn. split; [congruence|].
    destruct H2 as [(g0 & t0 & H0 & Hc0)|H2]; [left|right; unfold in_wg in *; rewrite <- Ewg; exact H2].
    destruct (Hback _ _ H0) as [[-> ->]|H3]; [|exists g0, t0; auto].
    exfalso. apply Hex. symmetry. apply Hcall, Hc0.
  - intros T Hx. split; [|rewrite Hexits; intros te []].
    unfold ExitB in *. rewrite Eex, Eca. intros He. specialize (Hx He). destruct (cl_cancelled s) eqn:Ec; [exact Hx|].
    destruct Hx as (gx & tx & Hgx & Hbx). destruct (Hlo _ _ Hgx) as [H1 H2]. exists gx, tx. split; [exact H1|].
    eapply close_bound_tmr; [|exact Hbx]. apply Htmr, H2.
  - intros He. left. congruence.
Qed.

(* objects and timers as before; the only returns are those of the call being started *)
Lemma Good_inert cfg ex s s' o :
  SI s' ->
  cl_cancelled s' = cl_cancelled s -> cl_exited s' = cl_exited s -> cl_waiting_group s' = cl_waiting_group s ->
  cl_objs s' = cl_objs s -> cl_timers s' = cl_timers s ->
  (forall id tt r, In (id, tt, r) (c_ret_times o) -> ex = Some id) -> c_exits o = [] ->
  Good cfg ex s (s', o).
Proof.
  intros Hsi Eca Eex Ewg Ho Etm Hrets Hexits.
  assert (HnoR : forall c, Some c <> ex -> NoRet c o).
  { intros c Hc id tt r Hi ->. apply Hc. symmetry. eapply Hrets, Hi. }
  assert (Hhc : forall c, HasCall s c <-> HasCall s' c).
  { intros c. unfold HasCall, has_obj, in_wg. rewrite Ho, Eex, Ewg. reflexivity. }
  split; cbn [fst snd].
  - exact Hsi.
  - intros p Hb Hex.
    split; [intros id tt r Hi E; exfalso; eapply (HnoR _ Hex); eassumption|].
    split; [intros id tt Hi E; exfalso; eapply (HnoR _ Hex); eassumption|]. left.
    revert Hb. unfold Backed, has_obj, in_wg. rewrite Ho, Eex, Ewg, Eca.
    intros [H1 H2]. split; [exact H1|]. destruct (cl_cancelled s); [exact H2|].
    destruct H2 as (g & t & Hg & Hcl & Hb). exists g, t. split; [exact Hg|]. split; [exact Hcl|].
    eapply obj_bound_ext; [exact Etm|exact Hb].
  - intros c Hn Hex. split; [apply HnoR, Hex|]. intros H. apply Hn, Hhc, H.
  - intros T Hx. split; [|rewrite Hexits; intros te []].
    unfold ExitB in *. rewrite Ho, Eex, Eca. intros He. specialize (Hx He). destruct (cl_cancelled s); [exact Hx|].
    destruct Hx as (g & t & Hg & Hb). exists g, t. split; [exact Hg|]. eapply close_bound_tmr; [|exact Hb]. apply tmr_ext, Etm.
  - intros He. left. congruence.
Qed.

(* ------------------------------------------------------------------ SI under the primitives *)
Lemma NoDup_map_filter {A B} (h : A -> B) (f : A -> bool) l : List.NoDup (map h l) -> List.NoDup (map h (List.filter f l)).
Proof.
  induction l as [|x l IH]; cbn [map List.filter]; intros H; [constructor|]. inversion H as [|? ? Hx Hl]; subst.
  destruct (f x); [|apply IH, Hl]. cbn [map]. constructor; [|apply IH, Hl].
  intros Hi. apply Hx. apply in_map_iff in Hi. destruct Hi as (y & E & Hy). apply filter_In in Hy. apply in_map_iff. exists y. tauto.
Qed.

Lemma NoDup_snoc {A} (l : list A) x : List.NoDup l -> ~ In x l -> List.NoDup (l ++ [x]).
Proof.
  induction l as [|y l IH]; cbn [app]; intros H Hx; [constructor; [intros []|constructor]|].
  inversion H as [|? ? Hy Hl]; subst. constructor.
  - intros Hi. apply in_app_or in Hi. destruct Hi as [Hi|[<-|[]]]; [contradiction|]. apply Hx. left. reflexivity.
  - apply IH; [exact Hl|]. intros Hi. apply Hx. right. exact Hi.
Qed.

Lemma SI_filter f s s' :
  core s' = (List.filter f (cl_timers s), cl_next_seq s, cl_now s, cl_last_read s, cl_cancelled s, cl_exited s,
             cl_waiting_group s, cl_conn_closed s, cl_next_obj s) -> SI s -> SI s'.
Proof.
  intros Hc [H1 H2 H3 H4 H5 H6 H7]. core_inj Hc.
  split; rewrite ?Etm, ?Esq, ?Enow, ?Elr, ?Eca, ?Eex, ?Ewg, ?Ecc, ?Eno; try assumption.
  - intros tm Hi. apply filter_In in Hi. apply H1, Hi.
  - intros tm Hi. apply filter_In in Hi. apply H2, Hi.
  - apply NoDup_map_filter, H3.
  - intros tm Hi. apply filter_In in Hi. apply H4, Hi.
Qed.

Lemma SI_mono s s' : cl_timers s' = cl_timers s -> cl_next_seq s <= cl_next_seq s' -> cl_now s' = cl_now s ->
  cl_last_read s' = cl_last_read s -> cl_cancelled s' = cl_cancelled s -> cl_exited s' = cl_exited s ->
  cl_waiting_group s' = cl_waiting_group s -> cl_conn_closed s' = cl_conn_closed s -> cl_next_obj s <= cl_next_obj s' ->
  SI s -> SI s'.
Proof.
  intros Etm Hsq Enow Elr Eca Eex Ewg Ecc Hno [H1 H2 H3 H4 H5 H6 H7].
  split; rewrite ?Etm, ?Enow, ?Elr, ?Eca, ?Eex, ?Ewg, ?Ecc; try assumption.
  - intros tm Hi. specialize (H2 tm Hi). lia.
  - intros tm Hi. specialize (H4 tm Hi). lia.
Qed.

Lemma SI_arm s k d : SI s -> ctimer_obj k < cl_next_obj s -> SI (c_arm s k d).
Proof.
  intros [H1 H2 H3 H4 H5 H6 H7] Hk. unfold c_arm. split; cbn.
  - intros tm Hi. apply in_app_or in Hi. destruct Hi as [Hi|[<-|[]]]; [apply H1, Hi|cbn; lia].
  - intros tm Hi. apply in_app_or in Hi. destruct Hi as [Hi|[<-|[]]]; [specialize (H2 tm Hi); lia|cbn; lia].
  - rewrite map_app. cbn [map ctm_seq]. apply NoDup_snoc; [exact H3|].
    intros Hx. apply in_map_iff in Hx. destruct Hx as (tm & E & Hi). specialize (H2 tm Hi). lia.
  - intros tm Hi. apply in_app_or in Hi. destruct Hi as [Hi|[<-|[]]]; [apply H4, Hi|exact Hk].
  - exact H5.
  - exact H6.
  - exact H7.
Qed.

Lemma SI_disarm s g : SI s -> SI (c_disarm s g).
Proof. apply (SI_filter (fun t => negb (ctimer_obj (ctm_kind t) =? g))). reflexivity. Qed.

Lemma c_finish_obj_core s g t : cl_objs s !! g = Some t -> core (c_finish_obj s g) = core (c_disarm s g).
Proof.
  intros H. unfold c_finish_obj. rewrite H. destruct t; try reflexivity.
  destruct (_ =? 5); [reflexivity|]. destruct (_ || _); reflexivity.
Qed.
Lemma c_finish_obj_none s g : cl_objs s !! g = None -> c_finish_obj s g = s.
Proof. intros H. unfold c_finish_obj. rewrite H. reflexivity. Qed.

Lemma SI_finish s g : SI s -> SI (c_finish_obj s g).
Proof.
  intros H. destruct (cl_objs s !! g) as [t|] eqn:E.
  - eapply SI_ext; [apply (c_finish_obj_core s g t E)|apply SI_disarm, H].
  - rewrite c_finish_obj_none by exact E. exact H.
Qed.

Lemma tmr_finish_other s g g' : g' <> g -> tmr (c_finish_obj s g) g' = tmr s g'.
Proof.
  intros Hne. destruct (cl_objs s !! g) as [t|] eqn:E.
  - pose proof (c_finish_obj_core s g t E) as Hc. core_inj Hc.
    transitivity (tmr (c_disarm s g) g'); [unfold tmr; rewrite Etm; reflexivity|apply tmr_disarm_other, Hne].
  - rewrite c_finish_obj_none by exact E. reflexivity.
Qed.

Lemma next_poll_bounds start t : start <= t -> t < next_poll start t /\ next_poll start t <= t + readTimeout.
Proof. unfold next_poll, readTimeout. intros H. lia. Qed.

(* ------------------------------------------------------------------ a virtual timer at time now *)
Definition Vt (cfg : cl_cfg) (t : ctxn) (now D pr : N) (pub : bool) : Prop :=
  now + readTimeout <= D /\
  match t with
  | CxConnect _ att => pub = false /\ now + crest cfg att + readTimeout <= D
  | CxRetry _ kind _ _ _ _ _ => (pub = true -> (kind =? 6) || (kind =? 7) = false) /\ now <= pr + budget cfg
  | CxSleep _ _ _ _ => pub = false
  | CxBrokerPub2 _ _ => False
  end.

Lemma obj_bound_Vt cfg s g t D pr pub : obj_bound cfg s g t D pr pub ->
  exists tm, tmr s g = [tm] /\ forall now', now' <= ctm_at tm -> Vt cfg t now' D pr pub.
Proof.
  intros (tm & Htm & Hb). exists tm. split; [exact Htm|]. intros now' Hn. unfold Vt.
  destruct t as [call att|call kind key st data n sub|call st n ms|mid pub'].
  - destruct Hb as (_ & Hp & Hd). split; [lia|]. split; [exact Hp|lia].
  - destruct Hb as (_ & Hp & Hpr & Hd). split; [lia|]. split; [exact Hp|lia].
  - destruct Hb as (Hp & Hd). split; [|exact Hp]. unfold maxPingrespWait in Hd. destruct (ctm_kind tm); try contradiction; lia.
  - contradiction.
Qed.

Lemma obj_bound_now cfg s g t D pr pub : SI s -> obj_bound cfg s g t D pr pub -> Vt cfg t (cl_now s) D pr pub.
Proof.
  intros Hsi Hb. destruct (obj_bound_Vt _ _ _ _ _ _ _ Hb) as (tm & Htm & Hv). apply Hv.
  apply (si_t1 s Hsi). apply (tmr_in s g tm). rewrite Htm. left. reflexivity.
Qed.

Lemma Vt_pub_dcall cfg t now D pr : Vt cfg t now D pr true -> dcall t = None.
Proof.
  intros [_ H]. destruct t as [call att|call kind key st data n sub|call st n ms|mid pub']; cbn [dcall]; try reflexivity.
  destruct H as [H _]. rewrite H; reflexivity.
Qed.

(* ------------------------------------------------------------------ the group context is cancelled *)
Lemma Good_cancel cfg ex s s' te o :
  SI s -> K (fun _ => True) s -> SI s' ->
  cl_cancelled s = None -> cl_cancelled s' = Some te -> te <= cl_now s + readTimeout ->
  cl_objs s' = cl_objs s -> cl_exited s' = cl_exited s -> cl_waiting_group s' = cl_waiting_group s ->
  quiet o -> Good cfg ex s (s', o).
Proof.
  intros Hsi Hk Hsi' Eca Eca' Hte Ho Eex Ewg Hq.
  destruct (si_c2 s Hsi Eca) as (Hwg & Hex & Hcc).
  split; cbn [fst snd].
  - exact Hsi'.
  - intros p [Hb1 Hb2] _. split; [apply quiet_RetT, Hq|]. split; [apply quiet_RetP, Hq|]. left.
    rewrite Eca in Hb2. destruct Hb2 as (gp & tp & Hgp & Hcp & Hbp).
    pose proof (obj_bound_now _ _ _ _ _ _ _ Hsi Hbp) as Hv.
    split; [congruence|]. rewrite Eca'. split; [destruct Hv as [Hv _]; lia|]. split.
    + left. exists gp, tp. rewrite Ho. auto.
    + intros Hp. rewrite Hp in Hv. split.
      * intros g0 t0 H0 Hc0. rewrite Ho in H0.
        assert (g0 = gp) by (eapply (k_uo _ s Hk); eassumption). subst g0. rewrite Hgp in H0. injection H0 as <-.
        eapply Vt_pub_dcall, Hv.
      * rewrite Ewg, Hwg. intros c' [].
  - intros c Hn _. split; [apply quiet_NoRet, Hq|]. intros H. apply Hn. revert H. unfold HasCall, has_obj, in_wg.
    rewrite Ho, Eex, Ewg. auto.
  - intros T Hx. split; [|destruct Hq as [_ Hq]; rewrite Hq; intros te' []].
    unfold ExitB in *. rewrite Eex, Eca'. intros He. specialize (Hx He). rewrite Eca in Hx.
    destruct Hx as (g & t & Hg & call & key & st & n & sub & tm & -> & Htm & Hk7 & Hb).
    assert (Hin : In tm (cl_timers s)) by (apply (tmr_in s g tm); rewrite Htm; left; reflexivity).
    pose proof (si_t1 s Hsi tm Hin). lia.
  - intros He. left. congruence.
Qed.
