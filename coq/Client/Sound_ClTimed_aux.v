(* Client/Sound_ClTimed_aux.v — invariants that tie the timed monitor of Checkers/ChkCl2.v to the
   client model: every pending API call is backed by a live transaction object whose single
   timer guarantees completion by the call's deadline (or, once the group context is cancelled,
   by the exit time of the receive loop).  The micro-steps of the model (do_call, handle_packet,
   c_fire, c_exit) are shown to preserve the invariants and to produce only timely returns. *)
From stdpp Require Import base option list numbers fin_maps nmap.
From Coq Require Import Lia ZArith ZifyN ZifyNat ZifyBool.
From RecordUpdate Require Import RecordSet.
From Verif.Base Require Import Bytes BytesProofs.
From Verif.Codec Require Import Packets Decode Encode EncodeProofs.
From Verif.Topics Require Import Predefined.
From Verif.Gateway Require Import GwTypes.
From Verif.Match Require Import Match MatchProofs.
From Verif.Client Require Import ClTypes ClStep Sound_Client_aux Sound_Client.
From Verif.Checkers Require Import ChkCodec ChkGw ChkCl ChkCl2.
Import RecordSetNotations.
Open Scope N_scope.
Ltac Zify.zify_post_hook ::= Z.div_mod_to_equations.

(* ------------------------------------------------------------------ arithmetic of retry budgets *)

(* time still covered by the retries after the pending timer of a RetryTransaction with
   retry_num = n / of a connect attempt number a *)
Definition rest (cfg : cl_cfg) (n : N) : N := (k_rcount cfg - n) * k_rdelay cfg.
Definition crest (cfg : cl_cfg) (a : N) : N := (k_rcount cfg - a) * k_ctimeout cfg.

Lemma rest_step cfg n : n + 1 <= k_rcount cfg -> rest cfg n = rest cfg (n + 1) + k_rdelay cfg.
Proof.
  intros H. unfold rest. replace (k_rcount cfg - n) with (k_rcount cfg - (n + 1) + 1) by lia.
  rewrite N.mul_add_distr_r. lia.
Qed.
Lemma rest_0 cfg : k_rdelay cfg + rest cfg 0 = budget cfg.
Proof. unfold rest, budget. rewrite N.sub_0_r, N.mul_add_distr_r. lia. Qed.
Lemma crest_step cfg a : a + 1 <= k_rcount cfg -> crest cfg a = crest cfg (a + 1) + k_ctimeout cfg.
Proof.
  intros H. unfold crest. replace (k_rcount cfg - a) with (k_rcount cfg - (a + 1) + 1) by lia.
  rewrite N.mul_add_distr_r. lia.
Qed.
Lemma crest_0 cfg : k_ctimeout cfg + crest cfg 0 = (k_rcount cfg + 1) * k_ctimeout cfg.
Proof. unfold crest. rewrite N.sub_0_r, N.mul_add_distr_r. lia. Qed.
Global Opaque rest crest budget.

(* ------------------------------------------------------------------ the part of the state that matters *)

Definition core (s : cl_state) :=
  (cl_timers s, cl_next_seq s, cl_now s, cl_last_read s, cl_cancelled s, cl_exited s, cl_waiting_group s,
   cl_conn_closed s, cl_next_obj s).

(* the timers of object g *)
Definition tmr (s : cl_state) (g : N) : list ctimer :=
  List.filter (fun tm => ctimer_obj (ctm_kind tm) =? g) (cl_timers s).

Record SI (s : cl_state) : Prop := {
  si_t1 : forall tm, In tm (cl_timers s) -> cl_now s <= ctm_at tm;
  si_t2 : forall tm, In tm (cl_timers s) -> ctm_seq tm < cl_next_seq s;
  si_t3 : List.NoDup (map ctm_seq (cl_timers s));
  si_t4 : forall tm, In tm (cl_timers s) -> ctimer_obj (ctm_kind tm) < cl_next_obj s;
  si_lr : cl_last_read s <= cl_now s;
  si_c1 : forall te, cl_cancelled s = Some te -> cl_exited s = false -> cl_now s <= te;
  si_c2 : cl_cancelled s = None -> cl_waiting_group s = [] /\ cl_exited s = false /\ cl_conn_closed s = false }.

Definition has_obj (s : cl_state) (c : N) : Prop := exists g t, cl_objs s !! g = Some t /\ call_of t = Some c.
Definition in_wg (s : cl_state) (c : N) : Prop := exists c', In c' (cl_waiting_group s) /\ c' / 2 = c.
Definition HasCall (s : cl_state) (c : N) : Prop := cl_exited s = false /\ (has_obj s c \/ in_wg s c).

(* object g (transaction t) completes by deadline D; its pending timer tm *)
Definition obj_bound (cfg : cl_cfg) (s : cl_state) (g : N) (t : ctxn) (D pr : N) (pub : bool) : Prop :=
  exists tm, tmr s g = [tm] /\
  match t with
  | CxConnect _ att => ctm_kind tm = CtmConnect g /\ pub = false /\ ctm_at tm + crest cfg att + readTimeout <= D
  | CxRetry _ kind _ st _ n _ =>
    ctm_kind tm = CtmRetry g /\ (pub = true -> (kind =? 6) || (kind =? 7) = false) /\
    ctm_at tm + rest cfg n <= pr + budget cfg /\
    ctm_at tm + rest cfg n + (if (kind =? 4) && ct_state_eqb st CtAwaitPubrec then budget cfg else 0) + readTimeout <= D
  | CxSleep _ st n ms =>
    pub = false /\
    match ctm_kind tm with
    | CtmSleepResend _ => ctm_at tm + rest cfg n + ms + maxPingrespWait + readTimeout <= D
    | CtmSleepWake _ => ctm_at tm + maxPingrespWait + readTimeout <= D
    | CtmSleepPingresp _ => ctm_at tm + readTimeout <= D
    | _ => False
    end
  | CxBrokerPub2 _ _ => False
  end.

Definition Backed (cfg : cl_cfg) (s : cl_state) (p : pending) : Prop :=
  cl_exited s = false /\
  match cl_cancelled s with
  | None => exists g t, cl_objs s !! g = Some t /\ call_of t = Some (p_id p) /\
                        obj_bound cfg s g t (p_deadline p) (p_progress p) (p_pub p)
  | Some te =>
    te <= p_deadline p /\ (has_obj s (p_id p) \/ in_wg s (p_id p)) /\
    (p_pub p = true ->
     (forall g t, cl_objs s !! g = Some t -> call_of t = Some (p_id p) -> dcall t = None) /\
     (forall c', In c' (cl_waiting_group s) -> c' / 2 = p_id p -> c' mod 2 = 0))
  end.

(* C28 (2): the client is gone by T: the transaction of Close is alive *)
Definition close_bound (cfg : cl_cfg) (s : cl_state) (g : N) (t : ctxn) (T : N) : Prop :=
  exists call key st n sub tm,
    t = CxRetry call 7 key st (Disconnect 0) n sub /\ tmr s g = [tm] /\
    ctm_kind tm = CtmRetry g /\ ctm_at tm + rest cfg n + readTimeout <= T.
Definition ExitB (cfg : cl_cfg) (s : cl_state) (T : N) : Prop :=
  cl_exited s = false ->
  match cl_cancelled s with
  | Some te => te <= T
  | None => exists g t, cl_objs s !! g = Some t /\ close_bound cfg s g t T
  end.

(* ---- dependence on objs and core only *)
Lemma tmr_ext s s' g : cl_timers s' = cl_timers s -> tmr s' g = tmr s g.
Proof. unfold tmr. intros ->. reflexivity. Qed.

Ltac core_inj H :=
  unfold core in H;
  let E1 := fresh "Etm" in let E2 := fresh "Esq" in let E3 := fresh "Enow" in let E4 := fresh "Elr" in
  let E5 := fresh "Eca" in let E6 := fresh "Eex" in let E7 := fresh "Ewg" in let E8 := fresh "Ecc" in let E9 := fresh "Eno" in
  injection H as E1 E2 E3 E4 E5 E6 E7 E8 E9.

Lemma SI_ext s s' : core s' = core s -> SI s -> SI s'.
Proof.
  intros Hc [H1 H2 H3 H4 H5 H6 H7]. core_inj Hc.
  split; rewrite ?Etm, ?Esq, ?Enow, ?Elr, ?Eca, ?Eex, ?Ewg, ?Ecc, ?Eno; assumption.
Qed.

Lemma obj_bound_ext cfg s s' g t D pr pub : cl_timers s' = cl_timers s ->
  obj_bound cfg s g t D pr pub -> obj_bound cfg s' g t D pr pub.
Proof. intros E. unfold obj_bound. rewrite (tmr_ext s s' g E). auto. Qed.

Lemma HasCall_ext s s' c : cl_objs s' = cl_objs s -> core s' = core s -> HasCall s c <-> HasCall s' c.
Proof.
  intros Ho Hc. core_inj Hc. unfold HasCall, has_obj, in_wg. rewrite Ho, Eex, Ewg. reflexivity.
Qed.

Lemma Backed_ext cfg s s' p : cl_objs s' = cl_objs s -> core s' = core s -> Backed cfg s p -> Backed cfg s' p.
Proof.
  intros Ho Hc. core_inj Hc. unfold Backed, has_obj, in_wg. rewrite Ho, Eex, Ewg, Eca.
  intros [H1 H2]. split; [exact H1|]. destruct (cl_cancelled s); [exact H2|].
  destruct H2 as (g & t & Hg & Hcl & Hb). exists g, t. split; [exact Hg|]. split; [exact Hcl|].
  eapply obj_bound_ext; [exact Etm|exact Hb].
Qed.

Lemma close_bound_tmr cfg s s' g t T : tmr s' g = tmr s g -> close_bound cfg s g t T -> close_bound cfg s' g t T.
Proof. unfold close_bound. intros ->. auto. Qed.
Lemma obj_bound_tmr cfg s s' g t D pr pub : tmr s' g = tmr s g -> obj_bound cfg s g t D pr pub -> obj_bound cfg s' g t D pr pub.
Proof. unfold obj_bound. intros ->. auto. Qed.

Lemma ExitB_ext cfg s s' T : cl_objs s' = cl_objs s -> core s' = core s -> ExitB cfg s T -> ExitB cfg s' T.
Proof.
  intros Ho Hc. core_inj Hc. unfold ExitB. rewrite Ho, Eex, Eca.
  destruct (cl_cancelled s); [auto|]. intros H He. specialize (H He).
  destruct H as (g & t & Hg & Hb). exists g, t. split; [exact Hg|].
  eapply close_bound_tmr; [|exact Hb]. apply tmr_ext, Etm.
Qed.

(* ---- returns in an output list *)
Definition RetT (p : pending) (o : list cl_out) : Prop :=
  forall id t r, In (id, t, r) (c_ret_times o) -> id = p_id p -> t <= p_deadline p.
Definition RetP (cfg : cl_cfg) (p : pending) (o : list cl_out) : Prop :=
  forall id t, In (id, t, ROk) (c_ret_times o) -> id = p_id p -> p_pub p = true -> t <= p_progress p + budget cfg.
Definition NoRet (c : N) (o : list cl_out) : Prop := forall id t r, In (id, t, r) (c_ret_times o) -> id <> c.
Definition returned (o : list cl_out) (c : N) : bool :=
  existsb (fun r => match r with (id', _, _) => id' =? c end) (c_ret_times o).

Lemma c_ret_times_app a b : c_ret_times (a ++ b) = c_ret_times a ++ c_ret_times b.
Proof. unfold c_ret_times. apply bind_app. Qed.
Lemma c_exits_app a b : c_exits (a ++ b) = c_exits a ++ c_exits b.
Proof. unfold c_exits. apply bind_app. Qed.

Lemma returned_app a b c : returned (a ++ b) c = returned a c || returned b c.
Proof. unfold returned. rewrite c_ret_times_app, existsb_app. reflexivity. Qed.

Lemma RetT_nil p : RetT p []. Proof. intros ? ? ? []. Qed.
Lemma RetP_nil cfg p : RetP cfg p []. Proof. intros ? ? []. Qed.
Lemma NoRet_nil c : NoRet c []. Proof. intros ? ? ? []. Qed.
Lemma RetT_app p a b : RetT p a -> RetT p b -> RetT p (a ++ b).
Proof. intros Ha Hb id t r H. rewrite c_ret_times_app in H. apply in_app_or in H. destruct H; [eapply Ha|eapply Hb]; eassumption. Qed.
Lemma RetP_app cfg p a b : RetP cfg p a -> RetP cfg p b -> RetP cfg p (a ++ b).
Proof. intros Ha Hb id t H. rewrite c_ret_times_app in H. apply in_app_or in H. destruct H; [eapply Ha|eapply Hb]; eassumption. Qed.
Lemma NoRet_app c a b : NoRet c a -> NoRet c b -> NoRet c (a ++ b).
Proof. intros Ha Hb id t r H. rewrite c_ret_times_app in H. apply in_app_or in H. destruct H; [eapply Ha|eapply Hb]; eassumption. Qed.

(* outputs without returns and exits *)
Definition quiet (o : list cl_out) : Prop := c_ret_times o = [] /\ c_exits o = [].
Lemma quiet_nil : quiet []. Proof. split; reflexivity. Qed.
Lemma quiet_app a b : quiet a -> quiet b -> quiet (a ++ b).
Proof. intros [A1 A2] [B1 B2]. split; [rewrite c_ret_times_app, A1, B1|rewrite c_exits_app, A2, B2]; reflexivity. Qed.
Lemma quiet_send s p : quiet (fst (c_send s p)).
Proof. unfold c_send. destruct (cl_conn_closed s); [apply quiet_nil|]. destruct (_ <=? _); [split; reflexivity|apply quiet_nil]. Qed.
Lemma quiet_dispatch s topic p : quiet (dispatch s topic p).
Proof. unfold dispatch. destruct p; try apply quiet_nil. destruct (handle_set _ _); [apply quiet_nil|split; reflexivity]. Qed.
Lemma quiet_RetT p o : quiet o -> RetT p o. Proof. intros [H _] ? ? ? Hi. rewrite H in Hi. destruct Hi. Qed.
Lemma quiet_RetP cfg p o : quiet o -> RetP cfg p o. Proof. intros [H _] ? ? Hi. rewrite H in Hi. destruct Hi. Qed.
Lemma quiet_NoRet c o : quiet o -> NoRet c o. Proof. intros [H _] ? ? ? Hi. rewrite H in Hi. destruct Hi. Qed.

(* ------------------------------------------------------------------ what a micro-step must establish *)

(* ex: the id of the API call being started (its id may become "had" without a pending entry yet) *)
Record Good (cfg : cl_cfg) (ex : option N) (s : cl_state) (r : CR) : Prop := {
  gd_si : SI (fst r);
  gd_b : forall p, Backed cfg s p -> Some (p_id p) <> ex ->
           RetT p (snd r) /\ RetP cfg p (snd r) /\
           (Backed cfg (fst r) p \/ (returned (snd r) (p_id p) = true /\ ~ HasCall (fst r) (p_id p)));
  gd_n : forall c, ~ HasCall s c -> Some c <> ex -> NoRet c (snd r) /\ ~ HasCall (fst r) c;
  gd_x : forall T, ExitB cfg s T -> ExitB cfg (fst r) T /\ (forall te, In te (c_exits (snd r)) -> te <= T);
  gd_e : cl_exited (fst r) = true -> cl_exited s = true \/ c_exits (snd r) <> [] }.

Lemma Good_ext cfg ex s s0 r : cl_objs s0 = cl_objs s -> core s0 = core s -> Good cfg ex s0 r -> Good cfg ex s r.
Proof.
  intros Ho Hc [G1 G2 G3 G4 G5]. split.
  - exact G1.
  - intros p Hb. apply G2. eapply Backed_ext; [exact Ho|exact Hc|exact Hb].
  - intros c Hn. apply G3. intros H. apply Hn. apply (HasCall_ext s s0 c); [exact Ho|exact Hc|exact H].
  - intros T Hx. apply G4. eapply ExitB_ext; [exact Ho|exact Hc|exact Hx].
  - intros He. destruct (G5 He) as [H|H]; [left|right; exact H]. core_inj Hc. congruence.
Qed.

(* nothing relevant changes, nothing is returned *)
Lemma Good_frame cfg ex s s' o : cl_objs s' = cl_objs s -> core s' = core s -> quiet o -> SI s -> Good cfg ex s (s', o).
Proof.
  intros Ho Hc Hq Hsi. split; cbn [fst snd].
  - eapply SI_ext; eassumption.
  - intros p Hb _. split; [apply quiet_RetT, Hq|]. split; [apply quiet_RetP, Hq|]. left. eapply Backed_ext; eassumption.
  - intros c Hn _. split; [apply quiet_NoRet, Hq|]. intros H. apply Hn. apply (HasCall_ext s s' c); assumption.
  - intros T Hx. split; [eapply ExitB_ext; eassumption|]. destruct Hq as [_ Hq]. rewrite Hq. intros te [].
  - intros He. left. core_inj Hc. congruence.
Qed.

Lemma Good_seq cfg ex s r1 r2 : Good cfg ex s r1 -> Good cfg None (fst r1) r2 -> Good cfg ex s (fst r2, snd r1 ++ snd r2).
Proof.
  intros [A1 A2 A3 A4 A5] [B1 B2 B3 B4 B5]. split; cbn [fst snd].
  - exact B1.
  - intros p Hb Hex. destruct (A2 p Hb Hex) as (At & Ap & Ab).
    destruct Ab as [Ab|[Ar An]].
    + destruct (B2 p Ab ltac:(discriminate)) as (Bt & Bp & Bb).
      split; [apply RetT_app; assumption|]. split; [apply RetP_app; assumption|].
      destruct Bb as [Bb|[Br Bn]]; [left; exact Bb|right]. split; [|exact Bn]. rewrite returned_app, Br. apply orb_true_r.
    + destruct (B3 _ An ltac:(discriminate)) as [Bn1 Bn2].
      split; [apply RetT_app; [exact At|]|].
      { intros id t r Hi E. exfalso. eapply Bn1; eassumption. }
      split; [apply RetP_app; [exact Ap|]|].
      { intros id t Hi E. exfalso. eapply Bn1; eassumption. }
      right. split; [|exact Bn2]. rewrite returned_app, Ar. reflexivity.
  - intros c Hn Hex. destruct (A3 c Hn Hex) as [An1 An2]. destruct (B3 c An2 ltac:(discriminate)) as [Bn1 Bn2].
    split; [apply NoRet_app; assumption|exact Bn2].
  - intros T Hx. destruct (A4 T Hx) as [Ax Ae]. destruct (B4 T Ax) as [Bx Be]. split; [exact Bx|].
    intros te Hi. rewrite c_exits_app in Hi. apply in_app_or in Hi. destruct Hi; [apply Ae|apply Be]; assumption.
  - intros He. destruct (B5 He) as [H|H].
    + destruct (A5 H) as [H'|H']; [left; exact H'|right]. rewrite c_exits_app. destruct (c_exits (snd r1)); [contradiction|discriminate].
    + right. rewrite c_exits_app. intros E. apply app_eq_nil in E. destruct E as [_ E]. contradiction.
Qed.

(* ------------------------------------------------------------------ timers of an object under the primitives *)
Lemma tmr_arm_same s k d g : ctimer_obj k = g ->
  tmr (c_arm s k d) g = tmr s g ++ [{| ctm_at := cl_now s + d; ctm_seq := cl_next_seq s; ctm_kind := k |}].
Proof.
  intros E. unfold tmr, c_arm. cbn. rewrite filter_app. cbn [List.filter ctm_kind]. rewrite E, N.eqb_refl. reflexivity.
Qed.
Lemma tmr_arm_other s k d g : ctimer_obj k <> g -> tmr (c_arm s k d) g = tmr s g.
Proof.
  intros E. unfold tmr, c_arm. cbn. rewrite filter_app. cbn [List.filter ctm_kind].
  apply N.eqb_neq in E. rewrite E. apply app_nil_r.
Qed.
Lemma tmr_disarm_same s g : tmr (c_disarm s g) g = [].
Proof.
  unfold tmr, c_disarm. cbn. induction (cl_timers s) as [|tm l IH]; [reflexivity|]. cbn [List.filter].
  destruct (ctimer_obj (ctm_kind tm) =? g) eqn:E; cbn [negb]; [exact IH|]. cbn [List.filter]. rewrite E. exact IH.
Qed.
Lemma tmr_disarm_other s g g' : g' <> g -> tmr (c_disarm s g) g' = tmr s g'.
Proof.
  intros Hne. unfold tmr, c_disarm. cbn. induction (cl_timers s) as [|tm l IH]; [reflexivity|]. cbn [List.filter].
  destruct (ctimer_obj (ctm_kind tm) =? g) eqn:E; cbn [negb].
  - apply N.eqb_eq in E. assert (E' : (ctimer_obj (ctm_kind tm) =? g') = false) by (apply N.eqb_neq; congruence).
    rewrite E'. exact IH.
  - cbn [List.filter]. destruct (ctimer_obj (ctm_kind tm) =? g'); [f_equal|]; exact IH.
Qed.
Lemma tmr_nil_fresh s g : SI s -> cl_next_obj s <= g -> tmr s g = [].
Proof.
  intros Hsi Hg. unfold tmr. pose proof (si_t4 s Hsi) as H4. induction (cl_timers s) as [|tm l IH]; [reflexivity|].
  cbn [List.filter]. assert (E : (ctimer_obj (ctm_kind tm) =? g) = false).
  { apply N.eqb_neq. specialize (H4 tm ltac:(left; reflexivity)). lia. }
  rewrite E. apply IH. intros tm' Hi. apply H4. right. exact Hi.
Qed.
Lemma tmr_in s g tm : In tm (tmr s g) <-> In tm (cl_timers s) /\ ctimer_obj (ctm_kind tm) = g.
Proof. unfold tmr. rewrite filter_In, N.eqb_eq. reflexivity. Qed.

(* ------------------------------------------------------------------ generic micro-steps *)

(* object g (transaction t) becomes object g2 (transaction t') of the same call; nothing is returned *)
Lemma Good_local cfg ex s s' g t g2 t' o :
  SI s' ->
  cl_cancelled s' = cl_cancelled s -> cl_exited s' = cl_exited s -> cl_waiting_group s' = cl_waiting_group s ->
  cl_objs s !! g = Some t ->
  cl_objs s' = <[g2 := t']> (delete g (cl_objs s)) ->
  (g2 = g \/ cl_objs s !! g2 = None) ->
  call_of t' = call_of t -> dcall t' = dcall t ->
  (forall g', g' <> g -> g' <> g2 -> tmr s' g' = tmr s g') ->
  (cl_cancelled s = None -> forall D pr pub, obj_bound cfg s g t D pr pub -> obj_bound cfg s' g2 t' D pr pub) ->
  (cl_cancelled s = None -> forall T, close_bound cfg s g t T -> close_bound cfg s' g2 t' T) ->
  quiet o ->
  Good cfg ex s (s', o).
Proof.
  intros Hsi Eca Eex Ewg Hg Ho Hg2 Hcall Hdc Htmr Hob Hcb Hq.
  assert (Hl2 : cl_objs s' !! g2 = Some t') by (rewrite Ho; apply lookup_insert).
  assert (Hlo : forall g', g' <> g -> g' <> g2 -> cl_objs s' !! g' = cl_objs s !! g').
  { intros g' H1 H2. rewrite Ho, lookup_insert_ne by congruence. apply lookup_delete_ne. congruence. }
  assert (Hne2 : forall g' t0, g' <> g -> cl_objs s !! g' = Some t0 -> g' <> g2).
  { intros g' t0 H1 H2. destruct Hg2 as [->|Hn]; [exact H1|]. intros ->. congruence. }
  assert (Hback : forall g' t0, cl_objs s' !! g' = Some t0 ->
            (g' = g2 /\ t0 = t') \/ (g' <> g /\ g' <> g2 /\ cl_objs s !! g' = Some t0)).
  { intros g' t0 H. destruct (N.eq_dec g' g2) as [->|Hn2]; [left; split; [reflexivity|congruence]|right].
    rewrite Ho, lookup_insert_ne in H by congruence.
    destruct (N.eq_dec g' g) as [->|Hn]; [rewrite lookup_delete in H; discriminate|].
    rewrite lookup_delete_ne in H by congruence. auto. }
  assert (Hho : forall c, has_obj s c <-> has_obj s' c).
  { intros c. split; intros (g0 & t0 & H0 & Hc0).
    - destruct (N.eq_dec g0 g) as [->|Hn].
      + exists g2, t'. split; [exact Hl2|]. rewrite Hg in H0. injection H0 as <-. congruence.
      + exists g0, t0. split; [|exact Hc0]. rewrite Hlo; [exact H0|exact Hn|eapply Hne2; eassumption].
    - destruct (Hback _ _ H0) as [[-> ->]|(H1 & H2 & H3)].
      + exists g, t. split; [exact Hg|congruence].
      + exists g0, t0. auto. }
  split; cbn [fst snd].
  - exact Hsi.
  - intros p [Hb1 Hb2] _. split; [apply quiet_RetT, Hq|]. split; [apply quiet_RetP, Hq|]. left.
    split; [congruence|]. rewrite Eca. destruct (cl_cancelled s) as [te|] eqn:Ec.
    + destruct Hb2 as (Hte & Hhas & Hpub). split; [exact Hte|]. split.
      * destruct Hhas as [H|H]; [left; apply Hho, H|right]. unfold in_wg in *. rewrite Ewg. exact H.
      * intros Hp. destruct (Hpub Hp) as [Hp1 Hp2]. split; [|rewrite Ewg; exact Hp2].
        intros g0 t0 H0 Hc0. destruct (Hback _ _ H0) as [[-> ->]|(H1 & H2 & H3)].
        -- rewrite Hdc. eapply Hp1; [exact Hg|congruence].
        -- eapply Hp1; eassumption.
    + destruct Hb2 as (gp & tp & Hgp & Hcp & Hbp). destruct (N.eq_dec gp g) as [->|Hn].
      * rewrite Hg in Hgp. injection Hgp as <-. exists g2, t'. split; [exact Hl2|]. split; [congruence|]. apply Hob; auto.
      * pose proof (Hne2 _ _ Hn Hgp) as Hn2. exists gp, tp. split; [rewrite Hlo; auto|]. split; [exact Hcp|].
        eapply obj_bound_tmr; [|exact Hbp]. apply Htmr; assumption.
  - intros c Hn _. split; [apply quiet_NoRet, Hq|]. intros [H1 H2]. apply Hn. split; [congruence|].
    destruct H2 as [H2|H2]; [left; apply Hho, H2|right]. unfold in_wg in *. rewrite <- Ewg. exact H2.
  - intros T Hx. split; [|destruct Hq as [_ Hq]; rewrite Hq; intros te []].
    unfold ExitB in *. rewrite Eex, Eca. intros He. specialize (Hx He). destruct (cl_cancelled s) eqn:Ec; [exact Hx|].
    destruct Hx as (gx & tx & Hgx & Hbx). destruct (N.eq_dec gx g) as [->|Hn].
    + rewrite Hg in Hgx. injection Hgx as <-. exists g2, t'. split; [exact Hl2|]. apply Hcb; auto.
    + pose proof (Hne2 _ _ Hn Hgx) as Hn2. exists gx, tx. split; [rewrite Hlo; auto|].
      eapply close_bound_tmr; [|exact Hbx]. apply Htmr; assumption.
  - intros He. left. congruence.
Qed.

(* a new object g; the only returns are those of the call being started *)
Lemma Good_new cfg ex s s' g t o :
  SI s' ->
  cl_cancelled s' = cl_cancelled s -> cl_exited s' = cl_exited s -> cl_waiting_group s' = cl_waiting_group s ->
  cl_objs s !! g = None ->
  cl_objs s' = <[g := t]> (cl_objs s) ->
  (forall g', g' <> g -> tmr s' g' = tmr s g') ->
  (forall c, call_of t = Some c -> ex = Some c) ->
  (forall id tt r, In (id, tt, r) (c_ret_times o) -> ex = Some id) -> c_exits o = [] ->
  Good cfg ex s (s', o).
Proof.
  intros Hsi Eca Eex Ewg Hg Ho Htmr Hcall Hrets Hexits.
  assert (Hlo : forall g' t0, cl_objs s !! g' = Some t0 -> cl_objs s' !! g' = Some t0 /\ g' <> g).
  { intros g' t0 H. assert (g' <> g) by (intros ->; congruence). split; [|assumption]. rewrite Ho, lookup_insert_ne by congruence. exact H. }
  assert (Hback : forall g' t0, cl_objs s' !! g' = Some t0 -> (g' = g /\ t0 = t) \/ cl_objs s !! g' = Some t0).
  { intros g' t0 H. rewrite Ho in H. destruct (N.eq_dec g' g) as [->|Hn].
    - rewrite lookup_insert in H. injection H as <-. left. auto.
    - rewrite lookup_insert_ne in H by congruence. right. exact H. }
  assert (HnoR : forall c, Some c <> ex -> NoRet c o).
  { intros c Hc id tt r Hi ->. apply Hc. symmetry. eapply Hrets, Hi. }
  split; cbn [fst snd].
  - exact Hsi.
  - intros p [Hb1 Hb2] Hex.
    split; [intros id tt r Hi E; exfalso; eapply (HnoR _ Hex); eassumption|].
    split; [intros id tt Hi E; exfalso; eapply (HnoR _ Hex); eassumption|]. left.
    split; [congruence|]. rewrite Eca. destruct (cl_cancelled s) as [te|] eqn:Ec.
    + destruct Hb2 as (Hte & Hhas & Hpub). split; [exact Hte|]. split.
      * destruct Hhas as [(g0 & t0 & H0 & Hc0)|H]; [left; exists g0, t0; split; [apply (Hlo _ _ H0)|exact Hc0]|right].
        unfold in_wg in *. rewrite Ewg. exact H.
      * intros Hp. destruct (Hpub Hp) as [Hp1 Hp2]. split; [|rewrite Ewg; exact Hp2].
        intros g0 t0 H0 Hc0. destruct (Hback _ _ H0) as [[-> ->]|H1]; [|eapply Hp1; eassumption].
        exfalso. apply Hex. symmetry. apply Hcall, Hc0.
    + destruct Hb2 as (gp & tp & Hgp & Hcp & Hbp). destruct (Hlo _ _ Hgp) as [H1 H2].
      exists gp, tp. split; [exact H1|]. split; [exact Hcp|]. eapply obj_bound_tmr; [|exact Hbp]. apply Htmr, H2.
  - intros c Hn Hex. split; [apply HnoR, Hex|]. intros [H1 H2]. apply Hn. split; [congruence|].
    destruct H2 as [(g0 & t0 & H0 & Hc0)|H2]; [left|right; unfold in_wg in *; rewrite <- Ewg; exact H2].
    destruct (Hback _ _ H0) as [[-> ->]|H3]; [|exists g0, t0; auto].
    exfalso. apply Hex. symmetry. apply Hcall, Hc0.
  - intros T Hx. split; [|rewrite Hexits; intros te []].
    unfold ExitB in *. rewrite Eex, Eca. intros He. specialize (Hx He). destruct (cl_cancelled s) eqn:Ec; [exact Hx|].
    destruct Hx as (gx & tx & Hgx & Hbx). destruct (Hlo _ _ Hgx) as [H1 H2]. exists gx, tx. split; [exact H1|].
    eapply close_bound_tmr; [|exact Hbx]. apply Htmr, H2.
  - intros He. left. congruence.
Qed.

(* objects and timers as before; the only returns are those of the call being started *)
Lemma Good_inert cfg ex s s' o :
  SI s' ->
  cl_cancelled s' = cl_cancelled s -> cl_exited s' = cl_exited s -> cl_waiting_group s' = cl_waiting_group s ->
  cl_objs s' = cl_objs s -> cl_timers s' = cl_timers s ->
  (forall id tt r, In (id, tt, r) (c_ret_times o) -> ex = Some id) -> c_exits o = [] ->
  Good cfg ex s (s', o).
Proof.
  intros Hsi Eca Eex Ewg Ho Etm Hrets Hexits.
  assert (HnoR : forall c, Some c <> ex -> NoRet c o).
  { intros c Hc id tt r Hi ->. apply Hc. symmetry. eapply Hrets, Hi. }
  assert (Hhc : forall c, HasCall s c <-> HasCall s' c).
  { intros c. unfold HasCall, has_obj, in_wg. rewrite Ho, Eex, Ewg. reflexivity. }
  split; cbn [fst snd].
  - exact Hsi.
  - intros p Hb Hex.
    split; [intros id tt r Hi E; exfalso; eapply (HnoR _ Hex); eassumption|].
    split; [intros id tt Hi E; exfalso; eapply (HnoR _ Hex); eassumption|]. left.
    revert Hb. unfold Backed, has_obj, in_wg. rewrite Ho, Eex, Ewg, Eca.
    intros [H1 H2]. split; [exact H1|]. destruct (cl_cancelled s); [exact H2|].
    destruct H2 as (g & t & Hg & Hcl & Hb). exists g, t. split; [exact Hg|]. split; [exact Hcl|].
    eapply obj_bound_ext; [exact Etm|exact Hb].
  - intros c Hn Hex. split; [apply HnoR, Hex|]. intros H. apply Hn, Hhc, H.
  - intros T Hx. split; [|rewrite Hexits; intros te []].
    unfold ExitB in *. rewrite Ho, Eex, Eca. intros He. specialize (Hx He). destruct (cl_cancelled s); [exact Hx|].
    destruct Hx as (g & t & Hg & Hb). exists g, t. split; [exact Hg|]. eapply close_bound_tmr; [|exact Hb]. apply tmr_ext, Etm.
  - intros He. left. congruence.
Qed.

(* ------------------------------------------------------------------ SI under the primitives *)
Lemma NoDup_map_filter {A B} (h : A -> B) (f : A -> bool) l : List.NoDup (map h l) -> List.NoDup (map h (List.filter f l)).
Proof.
  induction l as [|x l IH]; cbn [map List.filter]; intros H; [constructor|]. inversion H as [|? ? Hx Hl]; subst.
  destruct (f x); [|apply IH, Hl]. cbn [map]. constructor; [|apply IH, Hl].
  intros Hi. apply Hx. apply in_map_iff in Hi. destruct Hi as (y & E & Hy). apply filter_In in Hy. apply in_map_iff. exists y. tauto.
Qed.

Lemma NoDup_snoc {A} (l : list A) x : List.NoDup l -> ~ In x l -> List.NoDup (l ++ [x]).
Proof.
  induction l as [|y l IH]; cbn [app]; intros H Hx; [constructor; [intros []|constructor]|].
  inversion H as [|? ? Hy Hl]; subst. constructor.
  - intros Hi. apply in_app_or in Hi. destruct Hi as [Hi|[<-|[]]]; [contradiction|]. apply Hx. left. reflexivity.
  - apply IH; [exact Hl|]. intros Hi. apply Hx. right. exact Hi.
Qed.

Lemma SI_filter f s s' :
  core s' = (List.filter f (cl_timers s), cl_next_seq s, cl_now s, cl_last_read s, cl_cancelled s, cl_exited s,
             cl_waiting_group s, cl_conn_closed s, cl_next_obj s) -> SI s -> SI s'.
Proof.
  intros Hc [H1 H2 H3 H4 H5 H6 H7]. core_inj Hc.
  split; rewrite ?Etm, ?Esq, ?Enow, ?Elr, ?Eca, ?Eex, ?Ewg, ?Ecc, ?Eno; try assumption.
  - intros tm Hi. apply filter_In in Hi. apply H1, Hi.
  - intros tm Hi. apply filter_In in Hi. apply H2, Hi.
  - apply NoDup_map_filter, H3.
  - intros tm Hi. apply filter_In in Hi. apply H4, Hi.
Qed.

Lemma SI_mono s s' : cl_timers s' = cl_timers s -> cl_next_seq s <= cl_next_seq s' -> cl_now s' = cl_now s ->
  cl_last_read s' = cl_last_read s -> cl_cancelled s' = cl_cancelled s -> cl_exited s' = cl_exited s ->
  cl_waiting_group s' = cl_waiting_group s -> cl_conn_closed s' = cl_conn_closed s -> cl_next_obj s <= cl_next_obj s' ->
  SI s -> SI s'.
Proof.
  intros Etm Hsq Enow Elr Eca Eex Ewg Ecc Hno [H1 H2 H3 H4 H5 H6 H7].
  split; rewrite ?Etm, ?Enow, ?Elr, ?Eca, ?Eex, ?Ewg, ?Ecc; try assumption.
  - intros tm Hi. specialize (H2 tm Hi). lia.
  - intros tm Hi. specialize (H4 tm Hi). lia.
Qed.

Lemma SI_arm s k d : SI s -> ctimer_obj k < cl_next_obj s -> SI (c_arm s k d).
Proof.
  intros [H1 H2 H3 H4 H5 H6 H7] Hk. unfold c_arm. split; cbn.
  - intros tm Hi. apply in_app_or in Hi. destruct Hi as [Hi|[<-|[]]]; [apply H1, Hi|cbn; lia].
  - intros tm Hi. apply in_app_or in Hi. destruct Hi as [Hi|[<-|[]]]; [specialize (H2 tm Hi); lia|cbn; lia].
  - rewrite map_app. cbn [map ctm_seq]. apply NoDup_snoc; [exact H3|].
    intros Hx. apply in_map_iff in Hx. destruct Hx as (tm & E & Hi). specialize (H2 tm Hi). lia.
  - intros tm Hi. apply in_app_or in Hi. destruct Hi as [Hi|[<-|[]]]; [apply H4, Hi|exact Hk].
  - exact H5.
  - exact H6.
  - exact H7.
Qed.

Lemma SI_disarm s g : SI s -> SI (c_disarm s g).
Proof. apply (SI_filter (fun t => negb (ctimer_obj (ctm_kind t) =? g))). reflexivity. Qed.

Lemma c_finish_obj_core s g t : cl_objs s !! g = Some t -> core (c_finish_obj s g) = core (c_disarm s g).
Proof.
  intros H. unfold c_finish_obj. rewrite H. destruct t; try reflexivity.
  destruct (_ =? 5); [reflexivity|]. destruct (_ || _); reflexivity.
Qed.
Lemma c_finish_obj_none s g : cl_objs s !! g = None -> c_finish_obj s g = s.
Proof. intros H. unfold c_finish_obj. rewrite H. reflexivity. Qed.

Lemma SI_finish s g : SI s -> SI (c_finish_obj s g).
Proof.
  intros H. destruct (cl_objs s !! g) as [t|] eqn:E.
  - eapply SI_ext; [apply (c_finish_obj_core s g t E)|apply SI_disarm, H].
  - rewrite c_finish_obj_none by exact E. exact H.
Qed.

Lemma tmr_finish_other s g g' : g' <> g -> tmr (c_finish_obj s g) g' = tmr s g'.
Proof.
  intros Hne. destruct (cl_objs s !! g) as [t|] eqn:E.
  - pose proof (c_finish_obj_core s g t E) as Hc. core_inj Hc.
    transitivity (tmr (c_disarm s g) g'); [unfold tmr; rewrite Etm; reflexivity|apply tmr_disarm_other, Hne].
  - rewrite c_finish_obj_none by exact E. reflexivity.
Qed.

Lemma next_poll_bounds start t : start <= t -> t < next_poll start t /\ next_poll start t <= t + readTimeout.
Proof. unfold next_poll, readTimeout. intros H. lia. Qed.

(* ------------------------------------------------------------------ a virtual timer at time now *)
Definition Vt (cfg : cl_cfg) (t : ctxn) (now D pr : N) (pub : bool) : Prop :=
  now + readTimeout <= D /\
  match t with
  | CxConnect _ att => pub = false /\ now + crest cfg att + readTimeout <= D
  | CxRetry _ kind _ _ _ _ _ => (pub = true -> (kind =? 6) || (kind =? 7) = false) /\ now <= pr + budget cfg
  | CxSleep _ _ _ _ => pub = false
  | CxBrokerPub2 _ _ => False
  end.

Lemma obj_bound_Vt cfg s g t D pr pub : obj_bound cfg s g t D pr pub ->
  exists tm, tmr s g = [tm] /\ forall now', now' <= ctm_at tm -> Vt cfg t now' D pr pub.
Proof.
  intros (tm & Htm & Hb). exists tm. split; [exact Htm|]. intros now' Hn. unfold Vt.
  destruct t as [call att|call kind key st data n sub|call st n ms|mid pub'].
  - destruct Hb as (_ & Hp & Hd). split; [lia|]. split; [exact Hp|lia].
  - destruct Hb as (_ & Hp & Hpr & Hd). split; [lia|]. split; [exact Hp|lia].
  - destruct Hb as (Hp & Hd). split; [|exact Hp]. unfold maxPingrespWait in Hd. destruct (ctm_kind tm); try contradiction; lia.
  - contradiction.
Qed.

Lemma obj_bound_now cfg s g t D pr pub : SI s -> obj_bound cfg s g t D pr pub -> Vt cfg t (cl_now s) D pr pub.
Proof.
  intros Hsi Hb. destruct (obj_bound_Vt _ _ _ _ _ _ _ Hb) as (tm & Htm & Hv). apply Hv.
  apply (si_t1 s Hsi). apply (tmr_in s g tm). rewrite Htm. left. reflexivity.
Qed.

Lemma Vt_pub_dcall cfg t now D pr : Vt cfg t now D pr true -> dcall t = None.
Proof.
  intros [_ H]. destruct t as [call att|call kind key st data n sub|call st n ms|mid pub']; cbn [dcall]; try reflexivity.
  destruct H as [H _]. rewrite H; reflexivity.
Qed.

(* ------------------------------------------------------------------ the group context is cancelled *)
Lemma Good_cancel cfg ex s s' te o :
  SI s -> K (fun _ => True) s -> SI s' ->
  cl_cancelled s = None -> cl_cancelled s' = Some te -> te <= cl_now s + readTimeout ->
  cl_objs s' = cl_objs s -> cl_exited s' = cl_exited s -> cl_waiting_group s' = cl_waiting_group s ->
  (forall id tt r, In (id, tt, r) (c_ret_times o) -> ex = Some id) -> c_exits o = [] -> Good cfg ex s (s', o).
Proof.
  intros Hsi Hk Hsi' Eca Eca' Hte Ho Eex Ewg Hrets Hexits.
  assert (HnoR : forall c, Some c <> ex -> NoRet c o).
  { intros c Hc id tt r Hi ->. apply Hc. symmetry. eapply Hrets, Hi. }
  destruct (si_c2 s Hsi Eca) as (Hwg & Hex & Hcc).
  split; cbn [fst snd].
  - exact Hsi'.
  - intros p [Hb1 Hb2] Hex0.
    split; [intros id tt r Hi E; exfalso; eapply (HnoR _ Hex0); eassumption|].
    split; [intros id tt Hi E; exfalso; eapply (HnoR _ Hex0); eassumption|]. left.
    rewrite Eca in Hb2. destruct Hb2 as (gp & tp & Hgp & Hcp & Hbp).
    pose proof (obj_bound_now _ _ _ _ _ _ _ Hsi Hbp) as Hv.
    split; [congruence|]. rewrite Eca'. split; [destruct Hv as [Hv _]; lia|]. split.
    + left. exists gp, tp. rewrite Ho. auto.
    + intros Hp. rewrite Hp in Hv. split.
      * intros g0 t0 H0 Hc0. rewrite Ho in H0.
        assert (g0 = gp) by (eapply (k_uo _ s Hk); eassumption). subst g0. rewrite Hgp in H0. injection H0 as <-.
        eapply Vt_pub_dcall, Hv.
      * rewrite Ewg, Hwg. intros c' [].
  - intros c Hn Hex0. split; [apply HnoR, Hex0|]. intros H. apply Hn. revert H. unfold HasCall, has_obj, in_wg.
    rewrite Ho, Eex, Ewg. auto.
  - intros T Hx. split; [|rewrite Hexits; intros te' []].
    unfold ExitB in *. rewrite Eex, Eca'. intros He. specialize (Hx He). rewrite Eca in Hx.
    destruct Hx as (g & t & Hg & call & key & st & n & sub & tm & -> & Htm & Hk7 & Hb).
    assert (Hin : In tm (cl_timers s)) by (apply (tmr_in s g tm); rewrite Htm; left; reflexivity).
    pose proof (si_t1 s Hsi tm Hin). lia.
  - intros He. left. congruence.
Qed.

Lemma SI_cancel f s s' te cc :
  core s' = (List.filter f (cl_timers s), cl_next_seq s, cl_now s, cl_last_read s, Some te, cl_exited s,
             cl_waiting_group s, cc, cl_next_obj s) -> cl_now s <= te -> SI s -> SI s'.
Proof.
  intros Hc Hte [H1 H2 H3 H4 H5 H6 H7]. core_inj Hc.
  split; rewrite ?Etm, ?Esq, ?Enow, ?Elr, ?Eca, ?Eex, ?Ewg, ?Ecc, ?Eno; try assumption.
  - intros tm Hi. apply filter_In in Hi. apply H1, Hi.
  - intros tm Hi. apply filter_In in Hi. apply H2, Hi.
  - apply NoDup_map_filter, H3.
  - intros tm Hi. apply filter_In in Hi. apply H4, Hi.
  - intros te' E _. injection E as <-. exact Hte.
  - discriminate.
Qed.

(* ------------------------------------------------------------------ a transaction ends: its call returns *)
Lemma Good_finish cfg s s' g t0 t r o now_r (ca' : option N) :
  SI s -> K (fun _ => True) s -> SI s' ->
  cl_cancelled s = None -> cl_cancelled s' = ca' -> cl_exited s' = cl_exited s -> cl_waiting_group s' = cl_waiting_group s ->
  cl_objs s !! g = Some t0 -> call_of t = call_of t0 -> cl_objs s' = delete g (cl_objs s) ->
  (ca' = None -> forall g', g' <> g -> tmr s' g' = tmr s g') ->
  (forall te, ca' = Some te -> te <= now_r + readTimeout) ->
  (forall tm, In tm (cl_timers s) -> ctimer_obj (ctm_kind tm) <> g -> now_r <= ctm_at tm) ->
  (forall D pr pub, obj_bound cfg s g t0 D pr pub -> Vt cfg t now_r D pr pub) ->
  (forall T, close_bound cfg s g t0 T -> exists te, ca' = Some te /\ te <= T) ->
  c_ret_times o = match call_of t with Some c => [(c, now_r, r)] | None => [] end -> c_exits o = [] ->
  Good cfg None s (s', o).
Proof.
  intros Hsi Hk Hsi' Eca Eca' Eex Ewg Hg Hcall Ho Htmr Hte Hnow Hvt Hclose Hret Hexits.
  destruct (si_c2 s Hsi Eca) as (Hwg & Hex & Hcc).
  assert (Hlo : forall g' t1, cl_objs s' !! g' = Some t1 -> cl_objs s !! g' = Some t1 /\ g' <> g).
  { intros g' t1 H. rewrite Ho in H. apply lookup_delete_Some' in H. exact H. }
  assert (Hlo' : forall g' t1, cl_objs s !! g' = Some t1 -> g' <> g -> cl_objs s' !! g' = Some t1).
  { intros g' t1 H Hn. rewrite Ho, lookup_delete_ne by congruence. exact H. }
  assert (Hother : forall gp tp D pr pub, cl_objs s !! gp = Some tp -> gp <> g -> obj_bound cfg s gp tp D pr pub ->
            Vt cfg tp now_r D pr pub).
  { intros gp tp D pr pub Hgp Hn Hb. destruct (obj_bound_Vt _ _ _ _ _ _ _ Hb) as (tm & Htm & Hv). apply Hv.
    assert (Hin : In tm (tmr s gp)) by (rewrite Htm; left; reflexivity). apply tmr_in in Hin. destruct Hin as [Hin Hobj].
    apply Hnow; [exact Hin|congruence]. }
  assert (HnoR : forall c, call_of t0 <> Some c -> NoRet c o).
  { intros c Hc id tt rr Hi ->. rewrite Hret, Hcall in Hi. destruct (call_of t0) as [c0|]; [|destruct Hi].
    destruct Hi as [E|[]]. injection E as -> _ _. apply Hc. reflexivity. }
  split; cbn [fst snd].
  - exact Hsi'.
  - intros p [Hb1 Hb2] _. rewrite Eca in Hb2. destruct Hb2 as (gp & tp & Hgp & Hcp & Hbp).
    destruct (N.eq_dec gp g) as [->|Hn].
    + rewrite Hg in Hgp. injection Hgp as <-. pose proof (Hvt _ _ _ Hbp) as Hv.
      rewrite Hcall, Hcp in Hret.
      split; [intros id tt rr Hi _; rewrite Hret in Hi; destruct Hi as [E|[]]; injection E as _ <- _; destruct Hv as [Hv _]; unfold readTimeout in Hv; lia|].
      split.
      { intros id tt Hi _ Hp. rewrite Hret in Hi. destruct Hi as [E|[]]. injection E as _ <- _. rewrite Hp in Hv.
        destruct Hv as [_ Hv]. destruct t as [call att|call kind key st data n sub|call st n ms|mid pub'].
        - destruct Hv as [Hv _]. discriminate Hv.
        - apply Hv.
        - discriminate Hv.
        - contradiction. }
      right. split; [unfold returned; rewrite Hret; cbn; rewrite N.eqb_refl; reflexivity|].
      intros [_ [(g1 & t1 & H1 & Hc1)|(c' & Hi & _)]].
      * apply Hlo in H1. destruct H1 as [H1 Hne]. apply Hne. eapply (k_uo _ s Hk); eassumption.
      * rewrite Ewg, Hwg in Hi. destruct Hi.
    + assert (HnR : NoRet (p_id p) o).
      { apply HnoR. intros Hc. apply Hn. eapply (k_uo _ s Hk); eassumption. }
      split; [intros id tt rr Hi E; exfalso; eapply HnR; eassumption|].
      split; [intros id tt Hi E; exfalso; eapply HnR; eassumption|]. left.
      split; [congruence|]. rewrite Eca'. destruct ca' as [te|].
      * pose proof (Hother _ _ _ _ _ Hgp Hn Hbp) as Hv. specialize (Hte te eq_refl).
        split; [destruct Hv as [Hv _]; lia|]. split; [left; exists gp, tp; auto|].
        intros Hp. rewrite Hp in Hv. split; [|rewrite Ewg, Hwg; intros c' []].
        intros g1 t1 H1 Hc1. apply Hlo in H1. destruct H1 as [H1 _].
        assert (g1 = gp) by (eapply (k_uo _ s Hk); eassumption). subst g1. rewrite Hgp in H1. injection H1 as <-.
        eapply Vt_pub_dcall, Hv.
      * exists gp, tp. split; [auto|]. split; [exact Hcp|]. eapply obj_bound_tmr; [|exact Hbp]. apply Htmr; auto.
  - intros c Hn _. split.
    + apply HnoR. intros Hc. apply Hn. split; [exact Hex|]. left. exists g, t0. auto.
    + intros [H1 H2]. apply Hn. split; [congruence|]. destruct H2 as [(g1 & t1 & H3 & Hc1)|H2].
      * apply Hlo in H3. left. exists g1, t1. tauto.
      * right. unfold in_wg in *. rewrite <- Ewg. exact H2.
  - intros T Hx. split; [|rewrite Hexits; intros te []].
    unfold ExitB in *. rewrite Eex, Eca'. intros He. specialize (Hx He). rewrite Eca in Hx.
    destruct Hx as (gx & tx & Hgx & Hbx). destruct (N.eq_dec gx g) as [->|Hn].
    + rewrite Hg in Hgx. injection Hgx as <-. destruct (Hclose T Hbx) as (te & -> & Hle). exact Hle.
    + destruct ca' as [te|].
      * specialize (Hte te eq_refl). destruct Hbx as (call & key & st & n & sub & tm & -> & Htm & Hk7 & Hb).
        assert (Hin : In tm (tmr s gx)) by (rewrite Htm; left; reflexivity). apply tmr_in in Hin. destruct Hin as [Hin Hobj].
        specialize (Hnow tm Hin ltac:(congruence)). lia.
      * exists gx, tx. split; [auto|]. eapply close_bound_tmr; [|exact Hbx]. apply Htmr; auto.
  - intros He. left. congruence.
Qed.

(* ------------------------------------------------------------------ facts about the primitives *)
Lemma finish_facts s0 g t : cl_objs s0 !! g = Some t ->
  cl_objs (c_finish_obj s0 g) = delete g (cl_objs s0) /\
  cl_timers (c_finish_obj s0 g) = List.filter (fun u => negb (ctimer_obj (ctm_kind u) =? g)) (cl_timers s0) /\
  cl_next_seq (c_finish_obj s0 g) = cl_next_seq s0 /\ cl_now (c_finish_obj s0 g) = cl_now s0 /\
  cl_last_read (c_finish_obj s0 g) = cl_last_read s0 /\ cl_cancelled (c_finish_obj s0 g) = cl_cancelled s0 /\
  cl_exited (c_finish_obj s0 g) = cl_exited s0 /\ cl_waiting_group (c_finish_obj s0 g) = cl_waiting_group s0 /\
  cl_conn_closed (c_finish_obj s0 g) = cl_conn_closed s0 /\ cl_next_obj (c_finish_obj s0 g) = cl_next_obj s0.
Proof.
  intros H. split; [apply c_finish_obj_objs|]. pose proof (c_finish_obj_core s0 g t H) as Hc. unfold core in Hc.
  injection Hc as E1 E2 E3 E4 E5 E6 E7 E8 E9. repeat split; assumption.
Qed.

Lemma cancel_api_facts s : cl_cancelled s = None -> SI s ->
  SI (c_cancel_from_api s) /\ cl_objs (c_cancel_from_api s) = cl_objs s /\
  cl_cancelled (c_cancel_from_api s) = Some (next_poll (cl_last_read s) (cl_now s)) /\
  cl_exited (c_cancel_from_api s) = cl_exited s /\ cl_waiting_group (c_cancel_from_api s) = cl_waiting_group s.
Proof.
  intros Hc Hsi. unfold c_cancel_from_api. rewrite Hc. unfold c_stop_ctx_timers. cbn. split; [|auto].
  eapply (SI_cancel (fun t => negb (ctx_bound (ctm_kind t))) s); [reflexivity| |exact Hsi].
  pose proof (next_poll_bounds _ _ (si_lr s Hsi)). lia.
Qed.

Lemma cancel_loop_facts s e cc : cl_cancelled s = None -> SI s ->
  SI (c_cancel_from_loop s e <| cl_conn_closed := cc |>) /\ SI (c_cancel_from_loop s e) /\
  cl_objs (c_cancel_from_loop s e) = cl_objs s /\
  cl_cancelled (c_cancel_from_loop s e) = Some (cl_now s) /\
  cl_exited (c_cancel_from_loop s e) = cl_exited s /\ cl_waiting_group (c_cancel_from_loop s e) = cl_waiting_group s /\
  cl_now (c_cancel_from_loop s e) = cl_now s /\ cl_timers (c_cancel_from_loop s e) = List.filter (fun t => negb (ctx_bound (ctm_kind t))) (cl_timers s).
Proof.
  intros Hc Hsi. unfold c_cancel_from_loop. rewrite Hc. unfold c_stop_ctx_timers. cbn.
  split; [|split; [|repeat split]].
  - eapply (SI_cancel (fun t => negb (ctx_bound (ctm_kind t))) s); [reflexivity|lia|exact Hsi].
  - eapply (SI_cancel (fun t => negb (ctx_bound (ctm_kind t))) s); [reflexivity|lia|exact Hsi].
Qed.

Lemma tmr_snoc s s' tm g : cl_timers s' = cl_timers s ++ [tm] ->
  tmr s' g = tmr s g ++ (if ctimer_obj (ctm_kind tm) =? g then [tm] else []).
Proof. intros E. unfold tmr. rewrite E, filter_app. reflexivity. Qed.

Lemma SI_snoc s s' k d cc no' :
  core s' = (cl_timers s ++ [{| ctm_at := cl_now s + d; ctm_seq := cl_next_seq s; ctm_kind := k |}], cl_next_seq s + 1,
             cl_now s, cl_last_read s, cl_cancelled s, cl_exited s, cl_waiting_group s, cc, no') ->
  (cl_cancelled s = None -> cc = false) -> cl_next_obj s <= no' -> ctimer_obj k < no' -> SI s -> SI s'.
Proof.
  intros Hc Hcc Hno Hk [H1 H2 H3 H4 H5 H6 H7]. core_inj Hc.
  split; rewrite ?Etm, ?Esq, ?Enow, ?Elr, ?Eca, ?Eex, ?Ewg, ?Ecc, ?Eno; try assumption.
  - intros tm Hi. apply in_app_or in Hi. destruct Hi as [Hi|[<-|[]]]; [apply H1, Hi|cbn; lia].
  - intros tm Hi. apply in_app_or in Hi. destruct Hi as [Hi|[<-|[]]]; [specialize (H2 tm Hi); lia|cbn; lia].
  - rewrite map_app. cbn [map ctm_seq]. apply NoDup_snoc; [exact H3|].
    intros Hx. apply in_map_iff in Hx. destruct Hx as (tm & E & Hi). specialize (H2 tm Hi). lia.
  - intros tm Hi. apply in_app_or in Hi. destruct Hi as [Hi|[<-|[]]]; [specialize (H4 tm Hi); lia|exact Hk].
  - intros Hca. destruct (H7 Hca) as (A & B & C). auto.
Qed.

Lemma connect_attempt_facts cfg s call n : wf_cl_cfg cfg -> cl_conn_closed s = false ->
  cl_objs (fst (connect_attempt cfg s call n)) = <[cl_next_obj s := CxConnect call n]> (cl_objs s) /\
  core (fst (connect_attempt cfg s call n)) =
    (cl_timers s ++ [{| ctm_at := cl_now s + k_ctimeout cfg; ctm_seq := cl_next_seq s; ctm_kind := CtmConnect (cl_next_obj s) |}],
     cl_next_seq s + 1, cl_now s, cl_last_read s, cl_cancelled s, cl_exited s, cl_waiting_group s, cl_conn_closed s, cl_next_obj s + 1) /\
  quiet (snd (connect_attempt cfg s call n)).
Proof.
  intros Hcfg Hcc. unfold connect_attempt, c_new_obj. cbv zeta.
  match goal with |- context [c_send ?X (connect_pkt cfg)] =>
    rewrite (c_send_ok X (connect_pkt cfg)) by (first [exact Hcc|apply (pack_size _ (wf_connect_pkt cfg Hcfg))]) end.
  destruct (len (k_user cfg) =? 0).
  - cbn [fst snd]. split; [reflexivity|]. split; [reflexivity|]. split; reflexivity.
  - match goal with |- context [c_send ?X (auth_pkt cfg)] =>
      rewrite (c_send_ok X (auth_pkt cfg)) by (first [exact Hcc|apply (pack_size _ (wf_auth_pkt cfg Hcfg))]) end.
    cbn [fst snd]. split; [reflexivity|]. split; [reflexivity|]. split; reflexivity.
Qed.

Lemma filter_none_fresh s g : SI s -> cl_next_obj s <= g ->
  List.filter (fun u => negb (ctimer_obj (ctm_kind u) =? g)) (cl_timers s) = cl_timers s.
Proof.
  intros Hsi Hg. pose proof (si_t4 s Hsi) as H4. induction (cl_timers s) as [|tm l IH]; [reflexivity|].
  cbn [List.filter]. assert (E : (ctimer_obj (ctm_kind tm) =? g) = false).
  { apply N.eqb_neq. specialize (H4 tm ltac:(left; reflexivity)). lia. }
  rewrite E. cbn [negb]. f_equal. apply IH. intros tm' Hi. apply H4. right. exact Hi.
Qed.

(* ------------------------------------------------------------------ complete *)
Section Complete.
  Variables (cfg : cl_cfg) (s s0 : cl_state) (g : N) (t0 t : ctxn) (r : cres) (ic : bool).
  Hypothesis Hcfg : wf_cl_cfg cfg.
  Hypothesis Hsi : SI s.
  Hypothesis Hk : K (fun _ => True) s.
  Hypothesis Hia : InvA false s.
  Hypothesis Hsi0 : SI s0.
  Hypothesis Eca : cl_cancelled s0 = cl_cancelled s.
  Hypothesis Eex : cl_exited s0 = cl_exited s.
  Hypothesis Ewg : cl_waiting_group s0 = cl_waiting_group s.
  Hypothesis Eno : cl_next_obj s0 = cl_next_obj s.
  Hypothesis Hg : cl_objs s !! g = Some t0.
  Hypothesis Ho : cl_objs s0 = <[g := t]> (cl_objs s).
  Hypothesis Hcall : call_of t = call_of t0.
  Hypothesis Hdc : dcall t = dcall t0.
  Hypothesis Htmr : forall g', g' <> g -> tmr s0 g' = tmr s g'.

  Let s1 := c_finish_obj s0 g.
  Lemma Hg0 : cl_objs s0 !! g = Some t. Proof. rewrite Ho. apply lookup_insert. Qed.

  Lemma cpl_s1 :
    cl_objs s1 = delete g (cl_objs s) /\
    cl_timers s1 = List.filter (fun u => negb (ctimer_obj (ctm_kind u) =? g)) (cl_timers s0) /\
    cl_next_seq s1 = cl_next_seq s0 /\ cl_now s1 = cl_now s0 /\
    cl_last_read s1 = cl_last_read s0 /\ cl_cancelled s1 = cl_cancelled s /\
    cl_exited s1 = cl_exited s /\ cl_waiting_group s1 = cl_waiting_group s /\
    cl_conn_closed s1 = cl_conn_closed s0 /\ cl_next_obj s1 = cl_next_obj s /\ SI s1 /\
    (forall g', g' <> g -> tmr s1 g' = tmr s g').
  Proof.
    destruct (finish_facts s0 g t Hg0) as (A & B & C & D & E & F & G & H & I & J). fold s1 in A, B, C, D, E, F, G, H, I, J.
    rewrite Ho, delete_insert_delete in A.
    split; [exact A|]. split; [exact B|]. split; [exact C|]. split; [exact D|]. split; [exact E|]. split; [congruence|].
    split; [congruence|]. split; [congruence|]. split; [exact I|]. split; [congruence|]. split.
    - apply SI_finish, Hsi0.
    - intros g' Hn. unfold s1. rewrite tmr_finish_other by exact Hn. apply Htmr, Hn.
  Qed.

  Lemma cpl_now_le : forall tm, In tm (cl_timers s) -> ctimer_obj (ctm_kind tm) <> g -> cl_now s0 <= ctm_at tm.
  Proof.
    intros tm Hi Hn. apply (si_t1 s0 Hsi0).
    assert (Hin : In tm (tmr s (ctimer_obj (ctm_kind tm)))) by (apply tmr_in; auto).
    rewrite <- Htmr in Hin by exact Hn. apply tmr_in in Hin. apply Hin.
  Qed.

  (* the group context is not cancelled *)
  Hypothesis Hca : cl_cancelled s = None.
  Hypothesis Hvt : forall D pr pub, obj_bound cfg s g t0 D pr pub -> Vt cfg t (cl_now s0) D pr pub.
  Hypothesis Hclose : forall T, close_bound cfg s g t0 T -> t = t0 /\ (r = ROk \/ r = RNoRetries) /\ cl_now s0 <= T.

  Lemma cpl_plain call r' : call_of t = Some call \/ (call_of t = None /\ False) ->
    (forall T, close_bound cfg s g t0 T -> False) ->
    call_of t = Some call -> Good cfg None s (s1, ret s1 call r').
  Proof.
    intros _ Hnc Hc. destruct cpl_s1 as (A & B & C & D & E & F & G & H & I & J & Ksi & L).
    apply (Good_finish cfg s s1 g t0 t r' _ (cl_now s0) None Hsi Hk Ksi Hca (eq_trans F Hca) G H Hg Hcall A).
    - intros _. exact L.
    - discriminate.
    - apply cpl_now_le.
    - exact Hvt.
    - intros T Hb. destruct (Hnc T Hb).
    - rewrite Hc. unfold ret. cbn. rewrite D. reflexivity.
    - reflexivity.
  Qed.

  Lemma complete_Good : Good cfg None s (complete cfg s0 g t r ic).
  Proof.
    destruct cpl_s1 as (A & B & C & D & E & F & G & H & I & J & Ksi & L).
    destruct (si_c2 s Hsi Hca) as (Hwg & Hex & _).
    assert (Hcc0 : cl_conn_closed s0 = false) by (apply (si_c2 s0 Hsi0); congruence).
    pose proof cpl_plain as Hpl. pose proof cpl_now_le as Hnl.
    unfold complete. cbv zeta. fold s1. rewrite F, Hca.
    destruct t as [call att|call kind key st data n sub|call st n ms|mid pub'] eqn:Et.
    - (* Connect *)
      assert (Hnc : forall T, close_bound cfg s g t0 T -> False).
      { intros T Hb. destruct (Hclose T Hb) as (E' & _). destruct Hb as (c' & k' & st' & n' & sub' & tm & -> & _). discriminate E'. }
      assert (Hplain : forall r', Good cfg None s (s1, ret s1 call r')).
      { intros r'. apply Hpl; auto. }
      destruct r; try apply Hplain.
      destruct (att + 1 <=? k_rcount cfg) eqn:Eatt; [|apply Hplain]. apply N.leb_le in Eatt.
      destruct (connect_attempt_facts cfg s1 call (att + 1) Hcfg ltac:(congruence)) as (Fo & Fc & Fq).
      destruct (connect_attempt cfg s1 call (att + 1)) as [s2 o2]. cbn [fst snd] in Fo, Fc, Fq.
      assert (Hsi2 : SI s2).
      { eapply (SI_snoc s1 s2); [exact Fc|intros _; congruence|lia|cbn; lia|exact Ksi]. }
      unfold core in Fc. injection Fc as F1 F2 F3 F4 F5 F6 F7 F8 F9.
      refine (Good_local cfg None s s2 g t0 (cl_next_obj s1) (CxConnect call (att + 1)) o2 Hsi2 _ _ _ Hg _ _ _ _ _ _ _ Fq).
      + congruence.
      + congruence.
      + congruence.
      + rewrite Fo, A. reflexivity.
      + right. destruct (cl_objs s !! cl_next_obj s1) as [tx|] eqn:Ex; [|reflexivity].
        pose proof (ia_lt false s Hia _ _ Ex). lia.
      + rewrite <- Hcall. reflexivity.
      + rewrite <- Hdc. reflexivity.
      + intros g' Hn1 Hn2. rewrite (tmr_snoc s1 s2 _ g' F1). cbn [ctm_kind ctimer_obj].
        assert (E' : (cl_next_obj s1 =? g') = false) by (apply N.eqb_neq; congruence). rewrite E', app_nil_r. apply L, Hn1.
      + intros _ D0 pr pub Hb. specialize (Hvt D0 pr pub Hb). destruct Hvt as (Hv1 & Hv2 & Hv3).
        eexists. split.
        * rewrite (tmr_snoc s1 s2 _ _ F1). cbn [ctm_kind ctimer_obj]. rewrite N.eqb_refl.
          rewrite (tmr_nil_fresh s1 _ Ksi) by lia. reflexivity.
        * cbn [ctm_kind ctm_at]. split; [reflexivity|]. split; [exact Hv2|]. rewrite (crest_step cfg att Eatt) in Hv3. lia.
      + intros _ T Hb. destruct (Hnc T Hb).
    - (* Retry *)
      destruct (kind =? 6) eqn:E6.
      { apply N.eqb_eq in E6. subst kind.
        assert (Hnc : forall T, close_bound cfg s g t0 T -> False).
        { intros T Hb. destruct (Hclose T Hb) as (E' & _). destruct Hb as (c' & k' & st' & n' & sub' & tm & -> & _). discriminate E'. }
        assert (Hcan : Good cfg None s (c_cancel_from_api s1, ret s1 call ROk)).
        { destruct (cancel_api_facts s1 ltac:(congruence) Ksi) as (Csi & Co & Cca & Cex & Cwg).
          apply (Good_finish cfg s _ g t0 _ ROk _ (cl_now s0) (Some (next_poll (cl_last_read s1) (cl_now s1))) Hsi Hk Csi Hca Cca
                   (eq_trans Cex G) (eq_trans Cwg H) Hg Hcall (eq_trans Co A)).
          - discriminate.
          - intros te E'. injection E' as <-. pose proof (next_poll_bounds _ _ (si_lr s1 Ksi)). lia.
          - apply Hnl.
          - exact Hvt.
          - intros T Hb. destruct (Hnc T Hb).
          - cbn. rewrite D. reflexivity.
          - reflexivity. }
        destruct r; try exact Hcan; apply Hpl; auto. }
      destruct (kind =? 7) eqn:E7.
      { apply N.eqb_eq in E7. subst kind.
        assert (Hcan : Good cfg None s (c_cancel_from_loop s1 true <| cl_conn_closed := true |>, ret s1 call ROk)).
        { destruct (cancel_loop_facts s1 true true ltac:(congruence) Ksi) as (Csi & _ & Co & Cca & Cex & Cwg & _).
          apply (Good_finish cfg s _ g t0 _ ROk _ (cl_now s0) (Some (cl_now s1)) Hsi Hk Csi Hca Cca
                   (eq_trans Cex G) (eq_trans Cwg H) Hg Hcall (eq_trans Co A)).
          - discriminate.
          - intros te E'. injection E' as <-. lia.
          - apply Hnl.
          - exact Hvt.
          - intros T Hb. destruct (Hclose T Hb) as (_ & _ & Hle). exists (cl_now s1). split; [reflexivity|lia].
          - cbn. rewrite D. reflexivity.
          - reflexivity. }
        assert (Hnc : r <> ROk -> r <> RNoRetries -> forall T, close_bound cfg s g t0 T -> False).
        { intros H1 H2 T Hb. destruct (Hclose T Hb) as (_ & [E'|E'] & _); contradiction. }
        destruct r; try exact Hcan; (apply Hpl; [auto|apply Hnc; discriminate|reflexivity]). }
      apply Hpl; [auto| |reflexivity].
      intros T Hb. destruct (Hclose T Hb) as (E' & _). destruct Hb as (c' & k' & st' & n' & sub' & tm & -> & _).
      injection E' as _ -> _. discriminate E7.
    - (* Sleep *)
      apply Hpl; [auto| |reflexivity].
      intros T Hb. destruct (Hclose T Hb) as (E' & _). destruct Hb as (c' & k' & st' & n' & sub' & tm & -> & _). discriminate E'.
    - (* a received QoS 2 PUBLISH *)
      apply (Good_finish cfg s s1 g t0 _ r [] (cl_now s0) None Hsi Hk Ksi Hca (eq_trans F Hca) G H Hg Hcall A).
      + intros _. exact L.
      + discriminate.
      + apply Hnl.
      + exact Hvt.
      + intros T Hb. destruct (Hclose T Hb) as (E' & _). destruct Hb as (c' & k' & st' & n' & sub' & tm & -> & _). discriminate E'.
      + reflexivity.
      + reflexivity.
  Qed.
End Complete.

(* ------------------------------------------------------------------ complete after the cancellation; exit *)
Lemma txn_call_ex t c : call_of t = Some c -> exists c', In c' (txn_call t) /\ c' / 2 = c.
Proof.
  destruct t as [call att|call kind key st data n sub|call st n ms|mid pub']; cbn [call_of txn_call]; intros E; try discriminate;
    injection E as <-.
  - exists (2 * call). split; [left; reflexivity|lia].
  - destruct (_ || _); [exists (2 * call + 1)|exists (2 * call)]; (split; [left; reflexivity|lia]).
  - exists (2 * call). split; [left; reflexivity|lia].
Qed.

Lemma SI_set_wg s l te : cl_cancelled s = Some te -> SI s -> SI (s <| cl_waiting_group := l |>).
Proof. intros Hc [H1 H2 H3 H4 H5 H6 H7]. split; cbn; try assumption. rewrite Hc. discriminate. Qed.

Lemma complete_Good_c cfg s s0 g t0 t r ic te :
  SI s0 -> cl_cancelled s = Some te ->
  cl_cancelled s0 = cl_cancelled s -> cl_exited s0 = cl_exited s -> cl_waiting_group s0 = cl_waiting_group s ->
  cl_objs s !! g = Some t0 -> cl_objs s0 = <[g := t]> (cl_objs s) -> call_of t = call_of t0 -> dcall t = dcall t0 ->
  Good cfg None s (complete cfg s0 g t r ic).
Proof.
  intros Hsi0 Hca Eca Eex Ewg Hg Ho Hcall Hdc.
  assert (Hg0 : cl_objs s0 !! g = Some t) by (rewrite Ho; apply lookup_insert).
  destruct (finish_facts s0 g t Hg0) as (A & B & C & D & E & F & G & H & I & J).
  rewrite Ho, delete_insert_delete in A. rewrite Ewg in H.
  unfold complete. cbv zeta. rewrite F, Eca, Hca, G, Eex.
  set (s1 := c_finish_obj s0 g) in *.
  assert (Hsi1 : SI s1) by apply SI_finish, Hsi0.
  assert (Hlo : forall g' t1, cl_objs s1 !! g' = Some t1 -> cl_objs s !! g' = Some t1 /\ g' <> g).
  { intros g' t1 Hl. rewrite A in Hl. apply lookup_delete_Some' in Hl. exact Hl. }
  destruct (cl_exited s) eqn:Hexs.
  { (* after the exit nothing is pending *)
    split; cbn [fst snd].
    - exact Hsi1.
    - intros p [Hb _]. congruence.
    - intros c _ _. split; [apply NoRet_nil|]. intros [Hx _]. congruence.
    - intros T _. split; [intros Hx; congruence|intros te' []].
    - intros _. left. exact Hexs. }
  split; cbn [fst snd].
  - eapply SI_set_wg; [|exact Hsi1]. rewrite F, Eca. exact Hca.
  - intros p [Hb1 Hb2] _. rewrite Hca in Hb2. destruct Hb2 as (Hte & Hhas & Hpub).
    split; [apply RetT_nil|]. split; [apply RetP_nil|]. left. split; [cbn; congruence|]. cbn [cl_cancelled set]. rewrite F, Eca, Hca.
    split; [exact Hte|]. split.
    + destruct Hhas as [(g1 & t1 & H1 & Hc1)|(c' & Hi & Hc')].
      * destruct (N.eq_dec g1 g) as [->|Hn].
        -- right. rewrite Hg in H1. injection H1 as <-. destruct (txn_call_ex t (p_id p) ltac:(congruence)) as (c' & Hi & Hc').
           exists c'. split; [|exact Hc']. cbn. apply in_or_app. right. exact Hi.
        -- left. exists g1, t1. split; [|exact Hc1]. cbn. rewrite A, lookup_delete_ne by congruence. exact H1.
      * right. exists c'. split; [|exact Hc']. cbn. apply in_or_app. left. rewrite H. exact Hi.
    + intros Hp. destruct (Hpub Hp) as [Hp1 Hp2]. split.
      * intros g1 t1 H1 Hc1. cbn in H1. apply Hlo in H1. eapply Hp1; [apply H1|exact Hc1].
      * intros c' Hi Hc'. cbn in Hi. apply in_app_or in Hi. destruct Hi as [Hi|Hi]; [apply Hp2; [rewrite <- H; exact Hi|exact Hc']|].
        destruct (txn_call_spec t c' Hi) as (c & Hc & Hc2 & Hodd).
        destruct (N.eq_dec (c' mod 2) 0) as [E0|E0]; [exact E0|]. specialize (Hodd E0).
        assert (Hd0 : dcall t0 = None) by (eapply Hp1; [exact Hg|congruence]). congruence.
  - intros c Hn _. split; [apply NoRet_nil|]. intros [_ Hh]. apply Hn. split; [exact Hexs|].
    destruct Hh as [(g1 & t1 & H1 & Hc1)|(c' & Hi & Hc')].
    + cbn in H1. apply Hlo in H1. left. exists g1, t1. tauto.
    + cbn in Hi. apply in_app_or in Hi. destruct Hi as [Hi|Hi]; [right; exists c'; split; [rewrite <- H; exact Hi|exact Hc']|].
      destruct (txn_call_spec t c' Hi) as (c0 & Hc & Hc2 & _). left. exists g, t0. split; [exact Hg|congruence].
  - intros T Hx. split; [|intros te' []]. unfold ExitB in *. cbn. rewrite F, Eca, Hca, G, Eex. rewrite Hca in Hx. intros _. exact (Hx Hexs).
  - cbn. rewrite G, Eex, Hexs. discriminate.
Qed.

(* the returns of c_exit *)
Lemma exit_rets te (f : N -> list cl_out) (ge : bool) calls :
  forall id tt r, In (id, tt, r) (c_ret_times (calls ≫= (fun c => if c mod 2 =? 0 then [CoRet te (c / 2) RCancelled]
                                     else [CoRet te (c / 2) (if ge then RCancelled else ROk)]))) <->
    exists c', In c' calls /\ id = c' / 2 /\ tt = te /\ r = (if c' mod 2 =? 0 then RCancelled else if ge then RCancelled else ROk).
Proof.
  induction calls as [|c l IH]; intros id tt r.
  - cbn. split; [intros []|intros (c' & [] & _)].
  - cbn [mbind list_bind]. rewrite c_ret_times_app, in_app_iff, IH. split.
    + intros [H|(c' & Hi & Hr)]; [|exists c'; split; [right; exact Hi|exact Hr]].
      exists c. split; [left; reflexivity|]. destruct (c mod 2 =? 0); cbn in H; destruct H as [E|[]]; injection E as <- <- <-; auto.
    + intros (c' & [->|Hi] & -> & -> & ->); [left|right; exists c'; auto].
      destruct (c' mod 2 =? 0); cbn; left; reflexivity.
Qed.

Lemma exit_Good cfg s te : SI s -> cl_cancelled s = Some te -> cl_exited s = false ->
  (forall tm, In tm (cl_timers s) -> te <= ctm_at tm) -> Good cfg None s (c_exit s te).
Proof.
  intros Hsi Hca Hex Htm. unfold c_exit. cbv zeta.
  set (calls := (map snd (map_to_list (cl_objs s)) ≫= txn_call) ++ cl_waiting_group s).
  assert (Hcalls : forall c', In c' calls <-> (exists g t, cl_objs s !! g = Some t /\ In c' (txn_call t)) \/ In c' (cl_waiting_group s)).
  { intros c'. unfold calls. rewrite in_app_iff. apply or_iff_compat_r.
    rewrite <- elem_of_list_In, elem_of_list_bind. split.
    - intros (t & Hc & Ht). rewrite elem_of_list_In in Ht. apply in_map_iff in Ht. destruct Ht as ([g t1] & E & Hgt). cbn [snd] in E. subst t1.
      rewrite <- elem_of_list_In, elem_of_map_to_list in Hgt. exists g, t. rewrite <- elem_of_list_In. auto.
    - intros (g & t & Hg & Hi). exists t. split; [rewrite elem_of_list_In; exact Hi|].
      rewrite elem_of_list_In. apply in_map_iff. exists (g, t). split; [reflexivity|]. rewrite <- elem_of_list_In. apply elem_of_map_to_list, Hg. }
  assert (Hrets : forall id tt r, In (id, tt, r) (c_ret_times (CoExit te :: calls ≫= (fun c => if c mod 2 =? 0 then [CoRet te (c / 2) RCancelled]
                                     else [CoRet te (c / 2) (if cl_group_err s then RCancelled else ROk)]))) <->
            exists c', In c' calls /\ id = c' / 2 /\ tt = te /\ r = (if c' mod 2 =? 0 then RCancelled else if cl_group_err s then RCancelled else ROk)).
  { intros id tt r. apply (exit_rets te (fun _ => []) (cl_group_err s) calls). }
  assert (Hhas : forall c, HasCall s c <-> exists c', In c' calls /\ c' / 2 = c).
  { intros c. unfold HasCall. rewrite Hex. split.
    - intros [_ [(g & t & Hg & Hc)|(c' & Hi & Hc')]].
      + destruct (txn_call_ex t c Hc) as (c' & Hi & Hc'). exists c'. split; [|exact Hc']. apply Hcalls. left. exists g, t. auto.
      + exists c'. split; [|exact Hc']. apply Hcalls. right. exact Hi.
    - intros (c' & Hi & Hc'). split; [reflexivity|]. apply Hcalls in Hi. destruct Hi as [(g & t & Hg & Hi)|Hi].
      + left. destruct (txn_call_spec t c' Hi) as (c0 & Hc0 & E & _). exists g, t. split; [exact Hg|congruence].
      + right. exists c'. auto. }
  split; cbn [fst snd].
  - destruct Hsi as [H1 H2 H3 H4 H5 H6 H7]. split; cbn; try assumption.
    + specialize (H6 te Hca Hex). lia.
    + discriminate.
    + rewrite Hca. discriminate.
  - intros p [Hb1 Hb2] _. rewrite Hca in Hb2. destruct Hb2 as (Hte & Hh & Hpub). split; [|split].
    + intros id tt r Hi _. apply Hrets in Hi. destruct Hi as (c' & _ & _ & -> & _). exact Hte.
    + intros id tt Hi Eid Hp. apply Hrets in Hi. destruct Hi as (c' & Hi & -> & -> & Hr). exfalso.
      destruct (Hpub Hp) as [Hp1 Hp2]. destruct (c' mod 2 =? 0) eqn:Em; [discriminate Hr|]. apply N.eqb_neq in Em.
      apply Hcalls in Hi. destruct Hi as [(g & t & Hg & Hi)|Hi].
      * destruct (txn_call_spec t c' Hi) as (c0 & Hc0 & E & Hodd). specialize (Hodd Em).
        assert (dcall t = None) by (eapply Hp1; [exact Hg|congruence]). congruence.
      * apply Em. apply Hp2; [exact Hi|congruence].
    + right. split; [|intros [Hx _]; cbn in Hx; discriminate].
      assert (Hc : HasCall s (p_id p)) by (split; [exact Hex|exact Hh]). apply Hhas in Hc. destruct Hc as (c' & Hi & Hc').
      unfold returned. apply existsb_exists. exists (p_id p, te, if c' mod 2 =? 0 then RCancelled else if cl_group_err s then RCancelled else ROk).
      split; [|apply N.eqb_refl]. apply Hrets. exists c'. auto.
  - intros c Hn _. split; [|intros [Hx _]; cbn in Hx; discriminate].
    intros id tt r Hi ->. apply Hrets in Hi. destruct Hi as (c' & Hi & E & _). apply Hn, Hhas. exists c'. auto.
  - intros T Hx. split; [intros Hx'; cbn in Hx'; discriminate|].
    specialize (Hx Hex). rewrite Hca in Hx. intros te' Hi. cbn in Hi.
    destruct Hi as [<-|Hi]; [exact Hx|]. exfalso. clear -Hi. revert Hi.
    generalize calls. intros l. induction l as [|c l IH]; [intros []|]. cbn [mbind list_bind]. rewrite c_exits_app, in_app_iff.
    intros [H|H]; [|apply IH, H]. destruct (c mod 2 =? 0); cbn in H; exact H.
  - intros _. right. discriminate.
Qed.

(* ------------------------------------------------------------------ API calls *)
Lemma start_retry_facts cfg s call kind key st p bt s' g o ok :
  start_retry cfg s call kind key st p bt = (s', g, o, ok) ->
  g = cl_next_obj s /\ cl_objs s' = <[g := CxRetry call kind key st p 0 call]> (cl_objs s) /\
  core s' = (cl_timers s ++ [{| ctm_at := cl_now s + k_rdelay cfg; ctm_seq := cl_next_seq s; ctm_kind := CtmRetry g |}],
             cl_next_seq s + 1, cl_now s, cl_last_read s, cl_cancelled s, cl_exited s, cl_waiting_group s,
             cl_conn_closed s, cl_next_obj s + 1) /\
  quiet o /\ (cl_conn_closed s = false -> len (pack p) <= MaxPacketLen -> ok = true).
Proof.
  unfold start_retry, c_new_obj. intros H.
  destruct bt; cbv zeta in H;
    match type of H with context [c_send ?X p] =>
      pose proof (quiet_send X p) as Hq; pose proof (c_send_ok X p) as Hok; destruct (c_send X p) as [o1 ok1] end;
    injection H as <- <- <- <-; cbn [fst] in Hq;
    (split; [reflexivity|]; split; [reflexivity|]; split; [reflexivity|]; split; [exact Hq|]);
    intros Hcc Hl; specialize (Hok Hcc Hl); congruence.
Qed.

Definition retry_D (cfg : cl_cfg) (kind : N) (st : ct_state) : N :=
  budget cfg + (if (kind =? 4) && ct_state_eqb st CtAwaitPubrec then budget cfg else 0) + readTimeout.

Lemma retry_start_Good cfg s s' g call kind key st p o ok bt :
  SI s -> InvA false s -> start_retry cfg s call kind key st p bt = (s', g, o, ok) ->
  (forall s'', cl_objs s'' = cl_objs s' -> core s'' = core s' ->
     Good cfg (Some call) s (s'', o) /\
     (forall pnd, p_id pnd = call -> (p_pub pnd = true -> (kind =? 6) || (kind =? 7) = false) -> cl_now s <= p_progress pnd ->
                  cl_now s + retry_D cfg kind st <= p_deadline pnd -> cl_cancelled s = None -> Backed cfg s'' pnd) /\
     (kind = 7 -> p = Disconnect 0 -> cl_cancelled s = None -> ExitB cfg s'' (cl_now s + budget cfg + readTimeout))) /\
  Good cfg (Some call) s (c_finish_obj s' g, o ++ ret s' call RInvalid).
Proof.
  intros Hsi Hia H. destruct (start_retry_facts _ _ _ _ _ _ _ _ _ _ _ _ H) as (-> & Ho & Hc & Hq & _).
  assert (Hfresh : cl_objs s !! cl_next_obj s = None).
  { destruct (cl_objs s !! cl_next_obj s) as [tx|] eqn:Ex; [|reflexivity]. pose proof (ia_lt false s Hia _ _ Ex). lia. }
  assert (Hsi' : SI s').
  { eapply (SI_snoc s s'); [exact Hc|apply (si_c2 s Hsi)|lia|cbn; lia|exact Hsi]. }
  split.
  - intros s'' Eo Ec. assert (Ec' := Ec). rewrite Hc in Ec'. core_inj Ec'.
    assert (Htm' : forall g', tmr s'' g' = tmr s g' ++ (if cl_next_obj s =? g' then [{| ctm_at := cl_now s + k_rdelay cfg; ctm_seq := cl_next_seq s; ctm_kind := CtmRetry (cl_next_obj s) |}] else [])).
    { intros g'. apply (tmr_snoc s s'' _ g' Etm). }
    split; [|split].
    + apply (Good_new cfg (Some call) s s'' (cl_next_obj s) (CxRetry call kind key st p 0 call) o); try assumption.
      * eapply SI_ext; [exact Ec|exact Hsi'].
      * congruence.
      * intros g' Hn. rewrite Htm'. assert (E' : (cl_next_obj s =? g') = false) by (apply N.eqb_neq; congruence). rewrite E'. apply app_nil_r.
      * cbn. intros c E. injection E as <-. reflexivity.
      * destruct Hq as [Hq _]. rewrite Hq. intros ? ? ? [].
      * apply Hq.
    + intros pnd Hid Hpub Hpr HD Hca. destruct (si_c2 s Hsi Hca) as (_ & Hex & _).
      split; [congruence|]. rewrite Eca, Hca. exists (cl_next_obj s), (CxRetry call kind key st p 0 call).
      split; [rewrite Eo, Ho; apply lookup_insert|]. split; [cbn; congruence|].
      eexists. split; [rewrite Htm', N.eqb_refl, (tmr_nil_fresh s _ Hsi) by lia; reflexivity|].
      cbn [ctm_kind ctm_at]. split; [reflexivity|]. split; [exact Hpub|]. pose proof (rest_0 cfg). unfold retry_D in HD. split; lia.
    + intros -> -> Hca. intros _. rewrite Eca, Hca. exists (cl_next_obj s), (CxRetry call 7 key st (Disconnect 0) 0 call).
      split; [rewrite Eo, Ho; apply lookup_insert|]. exists call, key, st, 0, call. eexists.
      split; [reflexivity|]. split; [rewrite Htm', N.eqb_refl, (tmr_nil_fresh s _ Hsi) by lia; reflexivity|].
      cbn [ctm_kind ctm_at]. split; [reflexivity|]. pose proof (rest_0 cfg). lia.
  - assert (Hg' : cl_objs s' !! cl_next_obj s = Some (CxRetry call kind key st p 0 call)) by (rewrite Ho; apply lookup_insert).
    destruct (finish_facts s' _ _ Hg') as (A & B & C & D & E & F & G & Hh & I & J).
    core_inj Hc. apply Good_inert.
    + apply SI_finish, Hsi'.
    + congruence.
    + congruence.
    + congruence.
    + rewrite A, Ho. apply delete_insert, Hfresh.
    + rewrite B, Etm, filter_app. cbn [List.filter ctm_kind ctimer_obj]. rewrite N.eqb_refl. cbn [negb]. rewrite app_nil_r.
      apply filter_none_fresh; [exact Hsi|lia].
    + intros id tt r Hi. rewrite c_ret_times_app in Hi. apply in_app_or in Hi. destruct Hq as [Hq _]. rewrite Hq in Hi.
      destruct Hi as [[]|[E'|[]]]. injection E' as <- _ _. reflexivity.
    + rewrite c_exits_app. destruct Hq as [_ Hq]. rewrite Hq. reflexivity.
Qed.

Lemma Good_ret cfg s call r : SI s -> Good cfg (Some call) s (s, ret s call r).
Proof.
  intros Hsi. apply Good_inert; try reflexivity; [exact Hsi|]. intros id tt r' [E|[]]. injection E as <- _ _. reflexivity.
Qed.

Definition newp (cfg : cl_cfg) (s : cl_state) (id : N) (a : api) : pending :=
  {| p_id := id; p_deadline := cl_now s + call_bound cfg a; p_progress := cl_now s; p_over := false;
     p_pub := match a with APublish _ q _ _ | APubPre _ q _ _ => (q =? 1) || (q =? 2) | _ => false end |}.

(* what is to be shown of a call: the micro-step is good, and the call has returned or is backed *)
Definition CallOk (cfg : cl_cfg) (s : cl_state) (pnd : pending) (r : CR) : Prop :=
  Good cfg (Some (p_id pnd)) s r /\ (returned (snd r) (p_id pnd) = true \/ Backed cfg (fst r) pnd).

Lemma CallOk_ret cfg s pnd r : SI s -> CallOk cfg s pnd (s, ret s (p_id pnd) r).
Proof. intros Hsi. split; [apply Good_ret, Hsi|]. left. unfold returned. cbn. rewrite N.eqb_refl. reflexivity. Qed.

Lemma CallOk_ext cfg s s0 pnd r : cl_objs s0 = cl_objs s -> core s0 = core s -> CallOk cfg s0 pnd r -> CallOk cfg s pnd r.
Proof. intros Ho Hc [H1 H2]. split; [eapply Good_ext; eassumption|exact H2]. Qed.

Lemma returned_ret_r o s call r : returned (o ++ ret s call r) call = true.
Proof. rewrite returned_app. unfold returned at 2. cbn. rewrite N.eqb_refl. apply orb_true_r. Qed.

Lemma call_simple_ok cfg s pnd kind st mk : SI s -> InvA false s -> cl_cancelled s = None ->
  p_pub pnd = false -> cl_now s <= p_progress pnd -> cl_now s + retry_D cfg kind st <= p_deadline pnd ->
  CallOk cfg s pnd (call_simple cfg s (p_id pnd) kind st mk).
Proof.
  intros Hsi Hia Hca Hpub Hpr HD. unfold call_simple, c_next_mid.
  match goal with |- context [start_retry cfg ?X ?c ?k ?ky ?st0 ?p false] =>
    apply (CallOk_ext cfg s X); [reflexivity|reflexivity|];
    destruct (start_retry cfg X c k ky st0 p false) as [[[s' g'] o] ok] eqn:E;
    destruct (retry_start_Good cfg X s' g' c k ky st0 p o ok false) as [H1 H2]; [eapply SI_ext; [|exact Hsi]; reflexivity|apply (invA_frame false s); [reflexivity..|exact Hia]|exact E|]
  end.
  destruct ok.
  - destruct (H1 s' eq_refl eq_refl) as (G1 & G2 & _). split; [exact G1|]. right. cbn [fst]. apply G2; try assumption; try reflexivity.
    rewrite Hpub. discriminate.
  - split; [exact H2|]. left. cbn [snd]. apply returned_ret_r.
Qed.
