(* Client/Sound_ClTimed_aux.v — invariants that tie the timed monitor of Checkers/ChkCl2.v to the
   client model: every pending API call is backed by a live transaction object whose single
   timer guarantees completion by the call's deadline (or, once the group context is cancelled,
   by the exit time of the receive loop).  The micro-steps of the model (do_call, handle_packet,
   c_fire, c_exit) are shown to preserve the invariants and to produce only timely returns. *)
From stdpp Require Import base option list numbers fin_maps nmap.
From Coq Require Import Lia ZArith ZifyN ZifyNat ZifyBool.
From RecordUpdate Require Import RecordSet.
From Verif.Base Require Import Bytes BytesProofs.
From Verif.Codec Require Import Packets Decode Encode EncodeProofs.
From Verif.Topics Require Import Predefined.
From Verif.Gateway Require Import GwTypes.
From Verif.Match Require Import Match MatchProofs.
From Verif.Client Require Import ClTypes ClStep Sound_Client_aux Sound_Client.
From Verif.Checkers Require Import ChkCodec ChkGw ChkCl ChkCl2.
Import RecordSetNotations.
Open Scope N_scope.
Ltac Zify.zify_post_hook ::= Z.div_mod_to_equations.

(* ------------------------------------------------------------------ arithmetic of retry budgets *)

(* time still covered by the retries after the pending timer of a RetryTransaction with
   retry_num = n / of a connect attempt number a *)
Definition rest (cfg : cl_cfg) (n : N) : N := (k_rcount cfg - n) * k_rdelay cfg.
Definition crest (cfg : cl_cfg) (a : N) : N := (k_rcount cfg - a) * k_ctimeout cfg.

Lemma rest_step cfg n : n + 1 <= k_rcount cfg -> rest cfg n = rest cfg (n + 1) + k_rdelay cfg.
Proof.
  intros H. unfold rest. replace (k_rcount cfg - n) with (k_rcount cfg - (n + 1) + 1) by lia.
  rewrite N.mul_add_distr_r. lia.
Qed.
Lemma rest_0 cfg : k_rdelay cfg + rest cfg 0 = budget cfg.
Proof. unfold rest, budget. rewrite N.sub_0_r, N.mul_add_distr_r. lia. Qed.
Lemma crest_step cfg a : a + 1 <= k_rcount cfg -> crest cfg a = crest cfg (a + 1) + k_ctimeout cfg.
Proof.
  intros H. unfold crest. replace (k_rcount cfg - a) with (k_rcount cfg - (a + 1) + 1) by lia.
  rewrite N.mul_add_distr_r. lia.
Qed.
Lemma crest_0 cfg : k_ctimeout cfg + crest cfg 0 = (k_rcount cfg + 1) * k_ctimeout cfg.
Proof. unfold crest. rewrite N.sub_0_r, N.mul_add_distr_r. lia. Qed.
Global Opaque rest crest budget.

(* ------------------------------------------------------------------ the part of the state that matters *)

Definition core (s : cl_state) :=
  (cl_timers s, cl_next_seq s, cl_now s, cl_last_read s, cl_cancelled s, cl_exited s, cl_waiting_group s,
   cl_conn_closed s, cl_next_obj s).

(* the timers of object g *)
Definition tmr (s : cl_state) (g : N) : list ctimer :=
  List.filter (fun tm => ctimer_obj (ctm_kind tm) =? g) (cl_timers s).

Record SI (s : cl_state) : Prop := {
  si_t1 : forall tm, In tm (cl_timers s) -> cl_now s <= ctm_at tm;
  si_t2 : forall tm, In tm (cl_timers s) -> ctm_seq tm < cl_next_seq s;
  si_t3 : List.NoDup (map ctm_seq (cl_timers s));
  si_t4 : forall tm, In tm (cl_timers s) -> ctimer_obj (ctm_kind tm) < cl_next_obj s;
  si_lr : cl_last_read s <= cl_now s;
  si_c1 : forall te, cl_cancelled s = Some te -> cl_exited s = false -> cl_now s <= te;
  si_c2 : cl_cancelled s = None -> cl_waiting_group s = [] /\ cl_exited s = false /\ cl_conn_closed s = false }.

Definition has_obj (s : cl_state) (c : N) : Prop := exists g t, cl_objs s !! g = Some t /\ call_of t = Some c.
Definition in_wg (s : cl_state) (c : N) : Prop := exists c', In c' (cl_waiting_group s) /\ c' / 2 = c.
Definition HasCall (s : cl_state) (c : N) : Prop := cl_exited s = false /\ (has_obj s c \/ in_wg s c).

(* object g (transaction t) completes by deadline D; its pending timer tm *)
Definition obj_bound (cfg : cl_cfg) (s : cl_state) (g : N) (t : ctxn) (D pr : N) (pub : bool) : Prop :=
  exists tm, tmr s g = [tm] /\
  match t with
  | CxConnect _ att => ctm_kind tm = CtmConnect g /\ pub = false /\ ctm_at tm + crest cfg att + readTimeout <= D
  | CxRetry _ kind _ st _ n _ =>
    ctm_kind tm = CtmRetry g /\ (pub = true -> (kind =? 6) || (kind =? 7) = false) /\
    ctm_at tm + rest cfg n <= pr + budget cfg /\
    ctm_at tm + rest cfg n + (if (kind =? 4) && ct_state_eqb st CtAwaitPubrec then budget cfg else 0) + readTimeout <= D
  | CxSleep _ st n ms =>
    pub = false /\
    match ctm_kind tm with
    | CtmSleepResend _ => ctm_at tm + rest cfg n + ms + maxPingrespWait + readTimeout <= D
    | CtmSleepWake _ => st = CtSleeping /\ ctm_at tm + maxPingrespWait + readTimeout <= D
    | CtmSleepPingresp _ => st = CtAwaitPingresp /\ ctm_at tm + readTimeout <= D
    | _ => False
    end
  | CxBrokerPub2 _ _ => False
  end.

Definition Backed (cfg : cl_cfg) (s : cl_state) (p : pending) : Prop :=
  cl_exited s = false /\
  match cl_cancelled s with
  | None => exists g t, cl_objs s !! g = Some t /\ call_of t = Some (p_id p) /\
                        obj_bound cfg s g t (p_deadline p) (p_progress p) (p_pub p)
  | Some te =>
    te <= p_deadline p /\ (has_obj s (p_id p) \/ in_wg s (p_id p)) /\
    (p_pub p = true ->
     (forall g t, cl_objs s !! g = Some t -> call_of t = Some (p_id p) -> dcall t = None) /\
     (forall c', In c' (cl_waiting_group s) -> c' / 2 = p_id p -> c' mod 2 = 0))
  end.

(* C28 (2): the client is gone by T: the transaction of Close is alive *)
Definition close_bound (cfg : cl_cfg) (s : cl_state) (g : N) (t : ctxn) (T : N) : Prop :=
  exists call key st n sub tm,
    t = CxRetry call 7 key st (Disconnect 0) n sub /\ tmr s g = [tm] /\
    ctm_kind tm = CtmRetry g /\ ctm_at tm + rest cfg n + readTimeout <= T.
Definition ExitB (cfg : cl_cfg) (s : cl_state) (T : N) : Prop :=
  cl_exited s = false ->
  match cl_cancelled s with
  | Some te => te <= T
  | None => exists g t, cl_objs s !! g = Some t /\ close_bound cfg s g t T
  end.

(* ---- dependence on objs and core only *)
Lemma tmr_ext s s' g : cl_timers s' = cl_timers s -> tmr s' g = tmr s g.
Proof. unfold tmr. intros ->. reflexivity. Qed.

Ltac core_inj H :=
  unfold core in H;
  let E1 := fresh "Etm" in let E2 := fresh "Esq" in let E3 := fresh "Enow" in let E4 := fresh "Elr" in
  let E5 := fresh "Eca" in let E6 := fresh "Eex" in let E7 := fresh "Ewg" in let E8 := fresh "Ecc" in let E9 := fresh "Eno" in
  injection H as E1 E2 E3 E4 E5 E6 E7 E8 E9.

Lemma SI_ext s s' : core s' = core s -> SI s -> SI s'.
Proof.
  intros Hc [H1 H2 H3 H4 H5 H6 H7]. core_inj Hc.
  split; rewrite ?Etm, ?Esq, ?Enow, ?Elr, ?Eca, ?Eex, ?Ewg, ?Ecc, ?Eno; assumption.
Qed.

Lemma obj_bound_ext cfg s s' g t D pr pub : cl_timers s' = cl_timers s ->
  obj_bound cfg s g t D pr pub -> obj_bound cfg s' g t D pr pub.
Proof. intros E. unfold obj_bound. rewrite (tmr_ext s s' g E). auto. Qed.

Lemma HasCall_ext s s' c : cl_objs s' = cl_objs s -> core s' = core s -> HasCall s c <-> HasCall s' c.
Proof.
  intros Ho Hc. core_inj Hc. unfold HasCall, has_obj, in_wg. rewrite Ho, Eex, Ewg. reflexivity.
Qed.

Lemma Backed_ext cfg s s' p : cl_objs s' = cl_objs s -> core s' = core s -> Backed cfg s p -> Backed cfg s' p.
Proof.
  intros Ho Hc. core_inj Hc. unfold Backed, has_obj, in_wg. rewrite Ho, Eex, Ewg, Eca.
  intros [H1 H2]. split; [exact H1|]. destruct (cl_cancelled s); [exact H2|].
  destruct H2 as (g & t & Hg & Hcl & Hb). exists g, t. split; [exact Hg|]. split; [exact Hcl|].
  eapply obj_bound_ext; [exact Etm|exact Hb].
Qed.

Lemma close_bound_tmr cfg s s' g t T : tmr s' g = tmr s g -> close_bound cfg s g t T -> close_bound cfg s' g t T.
Proof. unfold close_bound. intros ->. auto. Qed.
Lemma obj_bound_tmr cfg s s' g t D pr pub : tmr s' g = tmr s g -> obj_bound cfg s g t D pr pub -> obj_bound cfg s' g t D pr pub.
Proof. unfold obj_bound. intros ->. auto. Qed.

Lemma ExitB_ext cfg s s' T : cl_objs s' = cl_objs s -> core s' = core s -> ExitB cfg s T -> ExitB cfg s' T.
Proof.
  intros Ho Hc. core_inj Hc. unfold ExitB. rewrite Ho, Eex, Eca.
  destruct (cl_cancelled s); [auto|]. intros H He. specialize (H He).
  destruct H as (g & t & Hg & Hb). exists g, t. split; [exact Hg|].
  eapply close_bound_tmr; [|exact Hb]. apply tmr_ext, Etm.
Qed.

(* ---- returns in an output list *)
Definition RetT (p : pending) (o : list cl_out) : Prop :=
  forall id t r, In (id, t, r) (c_ret_times o) -> id = p_id p -> t <= p_deadline p.
Definition RetP (cfg : cl_cfg) (p : pending) (o : list cl_out) : Prop :=
  forall id t, In (id, t, ROk) (c_ret_times o) -> id = p_id p -> p_pub p = true -> t <= p_progress p + budget cfg.
Definition NoRet (c : N) (o : list cl_out) : Prop := forall id t r, In (id, t, r) (c_ret_times o) -> id <> c.
Definition returned (o : list cl_out) (c : N) : bool :=
  existsb (fun r => match r with (id', _, _) => id' =? c end) (c_ret_times o).

Lemma c_ret_times_app a b : c_ret_times (a ++ b) = c_ret_times a ++ c_ret_times b.
Proof. unfold c_ret_times. apply bind_app. Qed.
Lemma c_exits_app a b : c_exits (a ++ b) = c_exits a ++ c_exits b.
Proof. unfold c_exits. apply bind_app. Qed.

Lemma returned_app a b c : returned (a ++ b) c = returned a c || returned b c.
Proof. unfold returned. rewrite c_ret_times_app, existsb_app. reflexivity. Qed.

Lemma RetT_nil p : RetT p []. Proof. intros ? ? ? []. Qed.
Lemma RetP_nil cfg p : RetP cfg p []. Proof. intros ? ? []. Qed.
Lemma NoRet_nil c : NoRet c []. Proof. intros ? ? ? []. Qed.
Lemma RetT_app p a b : RetT p a -> RetT p b -> RetT p (a ++ b).
Proof. intros Ha Hb id t r H. rewrite c_ret_times_app in H. apply in_app_or in H. destruct H; [eapply Ha|eapply Hb]; eassumption. Qed.
Lemma RetP_app cfg p a b : RetP cfg p a -> RetP cfg p b -> RetP cfg p (a ++ b).
Proof. intros Ha Hb id t H. rewrite c_ret_times_app in H. apply in_app_or in H. destruct H; [eapply Ha|eapply Hb]; eassumption. Qed.
Lemma NoRet_app c a b : NoRet c a -> NoRet c b -> NoRet c (a ++ b).
Proof. intros Ha Hb id t r H. rewrite c_ret_times_app in H. apply in_app_or in H. destruct H; [eapply Ha|eapply Hb]; eassumption. Qed.

(* outputs without returns and exits *)
Definition quiet (o : list cl_out) : Prop := c_ret_times o = [] /\ c_exits o = [].
Lemma quiet_nil : quiet []. Proof. split; reflexivity. Qed.
Lemma quiet_app a b : quiet a -> quiet b -> quiet (a ++ b).
Proof. intros [A1 A2] [B1 B2]. split; [rewrite c_ret_times_app, A1, B1|rewrite c_exits_app, A2, B2]; reflexivity. Qed.
Lemma quiet_send s p : quiet (fst (c_send s p)).
Proof. unfold c_send. destruct (cl_conn_closed s); [apply quiet_nil|]. destruct (_ <=? _); [split; reflexivity|apply quiet_nil]. Qed.
Lemma quiet_dispatch s topic p : quiet (dispatch s topic p).
Proof. unfold dispatch. destruct p; try apply quiet_nil. destruct (handle_set _ _); [apply quiet_nil|split; reflexivity]. Qed.
Lemma quiet_RetT p o : quiet o -> RetT p o. Proof. intros [H _] ? ? ? Hi. rewrite H in Hi. destruct Hi. Qed.
Lemma quiet_RetP cfg p o : quiet o -> RetP cfg p o. Proof. intros [H _] ? ? Hi. rewrite H in Hi. destruct Hi. Qed.
Lemma quiet_NoRet c o : quiet o -> NoRet c o. Proof. intros [H _] ? ? ? Hi. rewrite H in Hi. destruct Hi. Qed.

(* ------------------------------------------------------------------ what a micro-step must establish *)

(* ex: the id of the API call being started (its id may become "had" without a pending entry yet) *)
Record Good (cfg : cl_cfg) (ex : option N) (s : cl_state) (r : CR) : Prop := {
  gd_si : SI (fst r);
  gd_b : forall p, Backed cfg s p -> Some (p_id p) <> ex ->
           RetT p (snd r) /\ RetP cfg p (snd r) /\
           (Backed cfg (fst r) p \/ (returned (snd r) (p_id p) = true /\ ~ HasCall (fst r) (p_id p)));
  gd_n : forall c, ~ HasCall s c -> Some c <> ex -> NoRet c (snd r) /\ ~ HasCall (fst r) c;
  gd_x : forall T, ExitB cfg s T -> ExitB cfg (fst r) T /\ (forall te, In te (c_exits (snd r)) -> te <= T);
  gd_e : cl_exited (fst r) = true -> cl_exited s = true \/ c_exits (snd r) <> [] }.

Lemma Good_ext cfg ex s s0 r : cl_objs s0 = cl_objs s -> core s0 = core s -> Good cfg ex s0 r -> Good cfg ex s r.
Proof.
  intros Ho Hc [G1 G2 G3 G4 G5]. split.
  - exact G1.
  - intros p Hb. apply G2. eapply Backed_ext; [exact Ho|exact Hc|exact Hb].
  - intros c Hn. apply G3. intros H. apply Hn. apply (HasCall_ext s s0 c); [exact Ho|exact Hc|exact H].
  - intros T Hx. apply G4. eapply ExitB_ext; [exact Ho|exact Hc|exact Hx].
  - intros He. destruct (G5 He) as [H|H]; [left|right; exact H]. core_inj Hc. congruence.
Qed.

(* nothing relevant changes, nothing is returned *)
Lemma Good_frame cfg ex s s' o : cl_objs s' = cl_objs s -> core s' = core s -> quiet o -> SI s -> Good cfg ex s (s', o).
Proof.
  intros Ho Hc Hq Hsi. split; cbn [fst snd].
  - eapply SI_ext; eassumption.
  - intros p Hb _. split; [apply quiet_RetT, Hq|]. split; [apply quiet_RetP, Hq|]. left. eapply Backed_ext; eassumption.
  - intros c Hn _. split; [apply quiet_NoRet, Hq|]. intros H. apply Hn. apply (HasCall_ext s s' c); assumption.
  - intros T Hx. split; [eapply ExitB_ext; eassumption|]. destruct Hq as [_ Hq]. rewrite Hq. intros te [].
  - intros He. left. core_inj Hc. congruence.
Qed.

Lemma Good_seq cfg ex s r1 r2 : Good cfg ex s r1 -> Good cfg None (fst r1) r2 -> Good cfg ex s (fst r2, snd r1 ++ snd r2).
Proof.
  intros [A1 A2 A3 A4 A5] [B1 B2 B3 B4 B5]. split; cbn [fst snd].
  - exact B1.
  - intros p Hb Hex. destruct (A2 p Hb Hex) as (At & Ap & Ab).
    destruct Ab as [Ab|[Ar An]].
    + destruct (B2 p Ab ltac:(discriminate)) as (Bt & Bp & Bb).
      split; [apply RetT_app; assumption|]. split; [apply RetP_app; assumption|].
      destruct Bb as [Bb|[Br Bn]]; [left; exact Bb|right]. split; [|exact Bn]. rewrite returned_app, Br. apply orb_true_r.
    + destruct (B3 _ An ltac:(discriminate)) as [Bn1 Bn2].
      split; [apply RetT_app; [exact At|]|].
      { intros id t r Hi E. exfalso. eapply Bn1; eassumption. }
      split; [apply RetP_app; [exact Ap|]|].
      { intros id t Hi E. exfalso. eapply Bn1; eassumption. }
      right. split; [|exact Bn2]. rewrite returned_app, Ar. reflexivity.
  - intros c Hn Hex. destruct (A3 c Hn Hex) as [An1 An2]. destruct (B3 c An2 ltac:(discriminate)) as [Bn1 Bn2].
    split; [apply NoRet_app; assumption|exact Bn2].
  - intros T Hx. destruct (A4 T Hx) as [Ax Ae]. destruct (B4 T Ax) as [Bx Be]. split; [exact Bx|].
    intros te Hi. rewrite c_exits_app in Hi. apply in_app_or in Hi. destruct Hi; [apply Ae|apply Be]; assumption.
  - intros He. destruct (B5 He) as [H|H].
    + destruct (A5 H) as [H'|H']; [left; exact H'|right]. rewrite c_exits_app. destruct (c_exits (snd r1)); [contradiction|discriminate].
    + right. rewrite c_exits_app. intros E. apply app_eq_nil in E. destruct E as [_ E]. contradiction.
Qed.

(* ------------------------------------------------------------------ timers of an object under the primitives *)
Lemma tmr_arm_same s k d g : ctimer_obj k = g ->
  tmr (c_arm s k d) g = tmr s g ++ [{| ctm_at := cl_now s + d; ctm_seq := cl_next_seq s; ctm_kind := k |}].
Proof.
  intros E. unfold tmr, c_arm. cbn. rewrite filter_app. cbn [List.filter ctm_kind]. rewrite E, N.eqb_refl. reflexivity.
Qed.
Lemma tmr_arm_other s k d g : ctimer_obj k <> g -> tmr (c_arm s k d) g = tmr s g.
Proof.
  intros E. unfold tmr, c_arm. cbn. rewrite filter_app. cbn [List.filter ctm_kind].
  apply N.eqb_neq in E. rewrite E. apply app_nil_r.
Qed.
Lemma tmr_disarm_same s g : tmr (c_disarm s g) g = [].
Proof.
  unfold tmr, c_disarm. cbn. induction (cl_timers s) as [|tm l IH]; [reflexivity|]. cbn [List.filter].
  destruct (ctimer_obj (ctm_kind tm) =? g) eqn:E; cbn [negb]; [exact IH|]. cbn [List.filter]. rewrite E. exact IH.
Qed.
Lemma tmr_disarm_other s g g' : g' <> g -> tmr (c_disarm s g) g' = tmr s g'.
Proof.
  intros Hne. unfold tmr, c_disarm. cbn. induction (cl_timers s) as [|tm l IH]; [reflexivity|]. cbn [List.filter].
  destruct (ctimer_obj (ctm_kind tm) =? g) eqn:E; cbn [negb].
  - apply N.eqb_eq in E. assert (E' : (ctimer_obj (ctm_kind tm) =? g') = false) by (apply N.eqb_neq; congruence).
    rewrite E'. exact IH.
  - cbn [List.filter]. destruct (ctimer_obj (ctm_kind tm) =? g'); [f_equal|]; exact IH.
Qed.
Lemma tmr_nil_fresh s g : SI s -> cl_next_obj s <= g -> tmr s g = [].
Proof.
  intros Hsi Hg. unfold tmr. pose proof (si_t4 s Hsi) as H4. induction (cl_timers s) as [|tm l IH]; [reflexivity|].
  cbn [List.filter]. assert (E : (ctimer_obj (ctm_kind tm) =? g) = false).
  { apply N.eqb_neq. specialize (H4 tm ltac:(left; reflexivity)). lia. }
  rewrite E. apply IH. intros tm' Hi. apply H4. right. exact Hi.
Qed.
Lemma tmr_in s g tm : In tm (tmr s g) <-> In tm (cl_timers s) /\ ctimer_obj (ctm_kind tm) = g.
Proof. unfold tmr. rewrite filter_In, N.eqb_eq. reflexivity. Qed.

(* ------------------------------------------------------------------ generic micro-steps *)

(* object g (transaction t) becomes object g2 (transaction t') of the same call; nothing is returned *)
Lemma Good_local cfg ex s s' g t g2 t' o :
  SI s' ->
  cl_cancelled s' = cl_cancelled s -> cl_exited s' = cl_exited s -> cl_waiting_group s' = cl_waiting_group s ->
  cl_objs s !! g = Some t ->
  cl_objs s' = <[g2 := t']> (delete g (cl_objs s)) ->
  (g2 = g \/ cl_objs s !! g2 = None) ->
  call_of t' = call_of t -> dcall t' = dcall t ->
  (forall g', g' <> g -> g' <> g2 -> tmr s' g' = tmr s g') ->
  (cl_cancelled s = None -> forall D pr pub, obj_bound cfg s g t D pr pub -> obj_bound cfg s' g2 t' D pr pub) ->
  (cl_cancelled s = None -> forall T, close_bound cfg s g t T -> close_bound cfg s' g2 t' T) ->
  quiet o ->
  Good cfg ex s (s', o).
Proof.
  intros Hsi Eca Eex Ewg Hg Ho Hg2 Hcall Hdc Htmr Hob Hcb Hq.
  assert (Hl2 : cl_objs s' !! g2 = Some t') by (rewrite Ho; apply lookup_insert).
  assert (Hlo : forall g', g' <> g -> g' <> g2 -> cl_objs s' !! g' = cl_objs s !! g').
  { intros g' H1 H2. rewrite Ho, lookup_insert_ne by congruence. apply lookup_delete_ne. congruence. }
  assert (Hne2 : forall g' t0, g' <> g -> cl_objs s !! g' = Some t0 -> g' <> g2).
  { intros g' t0 H1 H2. destruct Hg2 as [->|Hn]; [exact H1|]. intros ->. congruence. }
  assert (Hback : forall g' t0, cl_objs s' !! g' = Some t0 ->
            (g' = g2 /\ t0 = t') \/ (g' <> g /\ g' <> g2 /\ cl_objs s !! g' = Some t0)).
  { intros g' t0 H. destruct (N.eq_dec g' g2) as [->|Hn2]; [left; split; [reflexivity|congruence]|right].
    rewrite Ho, lookup_insert_ne in H by congruence.
    destruct (N.eq_dec g' g) as [->|Hn]; [rewrite lookup_delete in H; discriminate|].
    rewrite lookup_delete_ne in H by congruence. auto. }
  assert (Hho : forall c, has_obj s c <-> has_obj s' c).
  { intros c. split; intros (g0 & t0 & H0 & Hc0).
    - destruct (N.eq_dec g0 g) as [->|Hn].
      + exists g2, t'. split; [exact Hl2|]. rewrite Hg in H0. injection H0 as <-. congruence.
      + exists g0, t0. split; [|exact Hc0]. rewrite Hlo; [exact H0|exact Hn|eapply Hne2; eassumption].
    - destruct (Hback _ _ H0) as [[-> ->]|(H1 & H2 & H3)].
      + exists g, t. split; [exact Hg|congruence].
      + exists g0, t0. auto. }
  split; cbn [fst snd].
  - exact Hsi.
  - intros p [Hb1 Hb2] _. split; [apply quiet_RetT, Hq|]. split; [apply quiet_RetP, Hq|]. left.
    split; [congruence|]. rewrite Eca. destruct (cl_cancelled s) as [te|] eqn:Ec.
    + destruct Hb2 as (Hte & Hhas & Hpub). split; [exact Hte|]. split.
      * destruct Hhas as [H|H]; [left; apply Hho, H|right]. unfold in_wg in *. rewrite Ewg. exact H.
      * intros Hp. destruct (Hpub Hp) as [Hp1 Hp2]. split; [|rewrite Ewg; exact Hp2].
        intros g0 t0 H0 Hc0. destruct (Hback _ _ H0) as [[-> ->]|(H1 & H2 & H3)].
        -- rewrite Hdc. eapply Hp1; [exact Hg|congruence].
        -- eapply Hp1; eassumption.
    + destruct Hb2 as (gp & tp & Hgp & Hcp & Hbp). destruct (N.eq_dec gp g) as [->|Hn].
      * rewrite Hg in Hgp. injection Hgp as <-. exists g2, t'. split; [exact Hl2|]. split; [congruence|]. apply Hob; auto.
      * pose proof (Hne2 _ _ Hn Hgp) as Hn2. exists gp, tp. split; [rewrite Hlo; auto|]. split; [exact Hcp|].
        eapply obj_bound_tmr; [|exact Hbp]. apply Htmr; assumption.
  - intros c Hn _. split; [apply quiet_NoRet, Hq|]. intros [H1 H2]. apply Hn. split; [congruence|].
    destruct H2 as [H2|H2]; [left; apply Hho, H2|right]. unfold in_wg in *. rewrite <- Ewg. exact H2.
  - intros T Hx. split; [|destruct Hq as [_ Hq]; rewrite Hq; intros te []].
    unfold ExitB in *. rewrite Eex, Eca. intros He. specialize (Hx He). destruct (cl_cancelled s) eqn:Ec; [exact Hx|].
    destruct Hx as (gx & tx & Hgx & Hbx). destruct (N.eq_dec gx g) as [->|Hn].
    + rewrite Hg in Hgx. injection Hgx as <-. exists g2, t'. split; [exact Hl2|]. apply Hcb; auto.
    + pose proof (Hne2 _ _ Hn Hgx) as Hn2. exists gx, tx. split; [rewrite Hlo; auto|].
      eapply close_bound_tmr; [|exact Hbx]. apply Htmr; assumption.
  - intros He. left. congruence.
Qed.

(* a new object g; the only returns are those of the call being started *)
Lemma Good_new cfg ex s s' g t o :
  SI s' ->
  cl_cancelled s' = cl_cancelled s -> cl_exited s' = cl_exited s -> cl_waiting_group s' = cl_waiting_group s ->
  cl_objs s !! g = None ->
  cl_objs s' = <[g := t]> (cl_objs s) ->
  (forall g', g' <> g -> tmr s' g' = tmr s g') ->
  (forall c, call_of t = Some c -> ex = Some c) ->
  (forall id tt r, In (id, tt, r) (c_ret_times o) -> ex = Some id) -> c_exits o = [] ->
  Good cfg ex s (s', o).
Proof.
  intros Hsi Eca Eex Ewg Hg Ho Htmr Hcall Hrets Hexits.
  assert (Hlo : forall g' t0, cl_objs s !! g' = Some t0 -> cl_objs s' !! g' = Some t0 /\ g' <> g).
  { intros g' t0 H. assert (g' <> g) by (intros ->; congruence). split; [|assumption]. rewrite Ho, lookup_insert_ne by congruence. exact H. }
  assert (Hback : forall g' t0, cl_objs s' !! g' = Some t0 -> (g' = g /\ t0 = t) \/ cl_objs s !! g' = Some t0).
  { intros g' t0 H. rewrite Ho in H. destruct (N.eq_dec g' g) as [->|Hn].
    - rewrite lookup_insert in H. injection H as <-. left. auto.
    - rewrite lookup_insert_ne in H by congruence. right. exact H. }
  assert (HnoR : forall c, Some c <> ex -> NoRet c o).
  { intros c Hc id tt r Hi ->. apply Hc. symmetry. eapply Hrets, Hi. }
  split; cbn [fst snd].
  - exact Hsi.
  - intros p [Hb1 Hb2] Hex.
    split; [intros id tt r Hi E; exfalso; eapply (HnoR _ Hex); eassumption|].
    split; [intros id tt Hi E; exfalso; eapply (HnoR _ Hex); eassumption|]. left.
    split; [congruence|]. rewrite Eca. destruct (cl_cancelled s) as [te|] eqn:Ec.
    + destruct Hb2 as (Hte & Hhas & Hpub). split; [exact Hte|]. split.
      * destruct Hhas as [(g0 & t0 & H0 & Hc0)|H]; [left; exists g0, t0; split; [apply (Hlo _ _ H0)|exact Hc0]|right].
        unfold in_wg in *. rewrite Ewg. exact H.
      * intros Hp. destruct (Hpub Hp) as [Hp1 Hp2]. split; [|rewrite Ewg; exact Hp2].
        intros g0 t0 H0 Hc0. destruct (Hback _ _ H0) as [[-> ->]|H1]; [|eapply Hp1; eassumption].
        exfalso. apply Hex. symmetry. apply Hcall, Hc0.
    + destruct Hb2 as (gp & tp & Hgp & Hcp & Hbp). destruct (Hlo _ _ Hgp) as [H1 H2].
      exists gp, tp. split; [exact H1|]. split; [exact Hcp|]. eapply obj_bound_tmr; [|exact Hbp]. apply Htmr, H2.
  - intros c Hn Hex. split; [apply HnoR, Hex|]. intros [H1 H2]. apply Hn. split; [congruence|].
    destruct H2 as [(g0 & t0 & H0 & Hc0)|H2]; [left|right; unfold in_wg in *; rewrite <- Ewg; exact H2].
    destruct (Hback _ _ H0) as [[-> ->]|H3]; [|exists g0, t0; auto].
    exfalso. apply Hex. symmetry. apply Hcall, Hc0.
  - intros T Hx. split; [|rewrite Hexits; intros te []].
    unfold ExitB in *. rewrite Eex, Eca. intros He. specialize (Hx He). destruct (cl_cancelled s) eqn:Ec; [exact Hx|].
    destruct Hx as (gx & tx & Hgx & Hbx). destruct (Hlo _ _ Hgx) as [H1 H2]. exists gx, tx. split; [exact H1|].
    eapply close_bound_tmr; [|exact Hbx]. apply Htmr, H2.
  - intros He. left. congruence.
Qed.

(* objects and timers as before; the only returns are those of the call being started *)
Lemma Good_inert cfg ex s s' o :
  SI s' ->
  cl_cancelled s' = cl_cancelled s -> cl_exited s' = cl_exited s -> cl_waiting_group s' = cl_waiting_group s ->
  cl_objs s' = cl_objs s -> cl_timers s' = cl_timers s ->
  (forall id tt r, In (id, tt, r) (c_ret_times o) -> ex = Some id) -> c_exits o = [] ->
  Good cfg ex s (s', o).
Proof.
  intros Hsi Eca Eex Ewg Ho Etm Hrets Hexits.
  assert (HnoR : forall c, Some c <> ex -> NoRet c o).
  { intros c Hc id tt r Hi ->. apply Hc. symmetry. eapply Hrets, Hi. }
  assert (Hhc : forall c, HasCall s c <-> HasCall s' c).
  { intros c. unfold HasCall, has_obj, in_wg. rewrite Ho, Eex, Ewg. reflexivity. }
  split; cbn [fst snd].
  - exact Hsi.
  - intros p Hb Hex.
    split; [intros id tt r Hi E; exfalso; eapply (HnoR _ Hex); eassumption|].
    split; [intros id tt Hi E; exfalso; eapply (HnoR _ Hex); eassumption|]. left.
    revert Hb. unfold Backed, has_obj, in_wg. rewrite Ho, Eex, Ewg, Eca.
    intros [H1 H2]. split; [exact H1|]. destruct (cl_cancelled s); [exact H2|].
    destruct H2 as (g & t & Hg & Hcl & Hb). exists g, t. split; [exact Hg|]. split; [exact Hcl|].
    eapply obj_bound_ext; [exact Etm|exact Hb].
  - intros c Hn Hex. split; [apply HnoR, Hex|]. intros H. apply Hn, Hhc, H.
  - intros T Hx. split; [|rewrite Hexits; intros te []].
    unfold ExitB in *. rewrite Ho, Eex, Eca. intros He. specialize (Hx He). destruct (cl_cancelled s); [exact Hx|].
    destruct Hx as (g & t & Hg & Hb). exists g, t. split; [exact Hg|]. eapply close_bound_tmr; [|exact Hb]. apply tmr_ext, Etm.
  - intros He. left. congruence.
Qed.

(* ------------------------------------------------------------------ SI under the primitives *)
Lemma NoDup_map_filter {A B} (h : A -> B) (f : A -> bool) l : List.NoDup (map h l) -> List.NoDup (map h (List.filter f l)).
Proof.
  induction l as [|x l IH]; cbn [map List.filter]; intros H; [constructor|]. inversion H as [|? ? Hx Hl]; subst.
  destruct (f x); [|apply IH, Hl]. cbn [map]. constructor; [|apply IH, Hl].
  intros Hi. apply Hx. apply in_map_iff in Hi. destruct Hi as (y & E & Hy). apply filter_In in Hy. apply in_map_iff. exists y. tauto.
Qed.

Lemma NoDup_snoc {A} (l : list A) x : List.NoDup l -> ~ In x l -> List.NoDup (l ++ [x]).
Proof.
  induction l as [|y l IH]; cbn [app]; intros H Hx; [constructor; [intros []|constructor]|].
  inversion H as [|? ? Hy Hl]; subst. constructor.
  - intros Hi. apply in_app_or in Hi. destruct Hi as [Hi|[<-|[]]]; [contradiction|]. apply Hx. left. reflexivity.
  - apply IH; [exact Hl|]. intros Hi. apply Hx. right. exact Hi.
Qed.

Lemma SI_filter f s s' :
  core s' = (List.filter f (cl_timers s), cl_next_seq s, cl_now s, cl_last_read s, cl_cancelled s, cl_exited s,
             cl_waiting_group s, cl_conn_closed s, cl_next_obj s) -> SI s -> SI s'.
Proof.
  intros Hc [H1 H2 H3 H4 H5 H6 H7]. core_inj Hc.
  split; rewrite ?Etm, ?Esq, ?Enow, ?Elr, ?Eca, ?Eex, ?Ewg, ?Ecc, ?Eno; try assumption.
  - intros tm Hi. apply filter_In in Hi. apply H1, Hi.
  - intros tm Hi. apply filter_In in Hi. apply H2, Hi.
  - apply NoDup_map_filter, H3.
  - intros tm Hi. apply filter_In in Hi. apply H4, Hi.
Qed.

Lemma SI_mono s s' : cl_timers s' = cl_timers s -> cl_next_seq s <= cl_next_seq s' -> cl_now s' = cl_now s ->
  cl_last_read s' = cl_last_read s -> cl_cancelled s' = cl_cancelled s -> cl_exited s' = cl_exited s ->
  cl_waiting_group s' = cl_waiting_group s -> cl_conn_closed s' = cl_conn_closed s -> cl_next_obj s <= cl_next_obj s' ->
  SI s -> SI s'.
Proof.
  intros Etm Hsq Enow Elr Eca Eex Ewg Ecc Hno [H1 H2 H3 H4 H5 H6 H7].
  split; rewrite ?Etm, ?Enow, ?Elr, ?Eca, ?Eex, ?Ewg, ?Ecc; try assumption.
  - intros tm Hi. specialize (H2 tm Hi). lia.
  - intros tm Hi. specialize (H4 tm Hi). lia.
Qed.

Lemma SI_arm s k d : SI s -> ctimer_obj k < cl_next_obj s -> SI (c_arm s k d).
Proof.
  intros [H1 H2 H3 H4 H5 H6 H7] Hk. unfold c_arm. split; cbn.
  - intros tm Hi. apply in_app_or in Hi. destruct Hi as [Hi|[<-|[]]]; [apply H1, Hi|cbn; lia].
  - intros tm Hi. apply in_app_or in Hi. destruct Hi as [Hi|[<-|[]]]; [specialize (H2 tm Hi); lia|cbn; lia].
  - rewrite map_app. cbn [map ctm_seq]. apply NoDup_snoc; [exact H3|].
    intros Hx. apply in_map_iff in Hx. destruct Hx as (tm & E & Hi). specialize (H2 tm Hi). lia.
  - intros tm Hi. apply in_app_or in Hi. destruct Hi as [Hi|[<-|[]]]; [apply H4, Hi|exact Hk].
  - exact H5.
  - exact H6.
  - exact H7.
Qed.

Lemma SI_disarm s g : SI s -> SI (c_disarm s g).
Proof. apply (SI_filter (fun t => negb (ctimer_obj (ctm_kind t) =? g))). reflexivity. Qed.

Lemma c_finish_obj_core s g t : cl_objs s !! g = Some t -> core (c_finish_obj s g) = core (c_disarm s g).
Proof.
  intros H. unfold c_finish_obj. rewrite H. destruct t; try reflexivity.
  destruct (_ =? 5); [reflexivity|]. destruct (_ || _); reflexivity.
Qed.
Lemma c_finish_obj_none s g : cl_objs s !! g = None -> c_finish_obj s g = s.
Proof. intros H. unfold c_finish_obj. rewrite H. reflexivity. Qed.

Lemma SI_finish s g : SI s -> SI (c_finish_obj s g).
Proof.
  intros H. destruct (cl_objs s !! g) as [t|] eqn:E.
  - eapply SI_ext; [apply (c_finish_obj_core s g t E)|apply SI_disarm, H].
  - rewrite c_finish_obj_none by exact E. exact H.
Qed.

Lemma tmr_finish_other s g g' : g' <> g -> tmr (c_finish_obj s g) g' = tmr s g'.
Proof.
  intros Hne. destruct (cl_objs s !! g) as [t|] eqn:E.
  - pose proof (c_finish_obj_core s g t E) as Hc. core_inj Hc.
    transitivity (tmr (c_disarm s g) g'); [unfold tmr; rewrite Etm; reflexivity|apply tmr_disarm_other, Hne].
  - rewrite c_finish_obj_none by exact E. reflexivity.
Qed.

Lemma next_poll_bounds start t : start <= t -> t < next_poll start t /\ next_poll start t <= t + readTimeout.
Proof. unfold next_poll, readTimeout. intros H. lia. Qed.

(* ------------------------------------------------------------------ a virtual timer at time now *)
Definition Vt (cfg : cl_cfg) (t : ctxn) (now D pr : N) (pub : bool) : Prop :=
  now + readTimeout <= D /\
  match t with
  | CxConnect _ att => pub = false /\ now + crest cfg att + readTimeout <= D
  | CxRetry _ kind _ _ _ _ _ => (pub = true -> (kind =? 6) || (kind =? 7) = false) /\ now <= pr + budget cfg
  | CxSleep _ _ _ _ => pub = false
  | CxBrokerPub2 _ _ => False
  end.

Lemma obj_bound_Vt cfg s g t D pr pub : obj_bound cfg s g t D pr pub ->
  exists tm, tmr s g = [tm] /\ forall now', now' <= ctm_at tm -> Vt cfg t now' D pr pub.
Proof.
  intros (tm & Htm & Hb). exists tm. split; [exact Htm|]. intros now' Hn. unfold Vt.
  destruct t as [call att|call kind key st data n sub|call st n ms|mid pub'].
  - destruct Hb as (_ & Hp & Hd). split; [lia|]. split; [exact Hp|lia].
  - destruct Hb as (_ & Hp & Hpr & Hd). split; [lia|]. split; [exact Hp|lia].
  - destruct Hb as (Hp & Hd). split; [|exact Hp]. unfold maxPingrespWait in Hd. destruct (ctm_kind tm); try contradiction; lia.
  - contradiction.
Qed.

Lemma obj_bound_now cfg s g t D pr pub : SI s -> obj_bound cfg s g t D pr pub -> Vt cfg t (cl_now s) D pr pub.
Proof.
  intros Hsi Hb. destruct (obj_bound_Vt _ _ _ _ _ _ _ Hb) as (tm & Htm & Hv). apply Hv.
  apply (si_t1 s Hsi). apply (tmr_in s g tm). rewrite Htm. left. reflexivity.
Qed.

Lemma Vt_pub_dcall cfg t now D pr : Vt cfg t now D pr true -> dcall t = None.
Proof.
  intros [_ H]. destruct t as [call att|call kind key st data n sub|call st n ms|mid pub']; cbn [dcall]; try reflexivity.
  destruct H as [H _]. rewrite H; reflexivity.
Qed.

(* ------------------------------------------------------------------ the group context is cancelled *)
Lemma Good_cancel cfg ex s s' te o :
  SI s -> K (fun _ => True) s -> SI s' ->
  cl_cancelled s = None -> cl_cancelled s' = Some te -> te <= cl_now s + readTimeout ->
  cl_objs s' = cl_objs s -> cl_exited s' = cl_exited s -> cl_waiting_group s' = cl_waiting_group s ->
  (forall id tt r, In (id, tt, r) (c_ret_times o) -> ex = Some id) -> c_exits o = [] -> Good cfg ex s (s', o).
Proof.
  intros Hsi Hk Hsi' Eca Eca' Hte Ho Eex Ewg Hrets Hexits.
  assert (HnoR : forall c, Some c <> ex -> NoRet c o).
  { intros c Hc id tt r Hi ->. apply Hc. symmetry. eapply Hrets, Hi. }
  destruct (si_c2 s Hsi Eca) as (Hwg & Hex & Hcc).
  split; cbn [fst snd].
  - exact Hsi'.
  - intros p [Hb1 Hb2] Hex0.
    split; [intros id tt r Hi E; exfalso; eapply (HnoR _ Hex0); eassumption|].
    split; [intros id tt Hi E; exfalso; eapply (HnoR _ Hex0); eassumption|]. left.
    rewrite Eca in Hb2. destruct Hb2 as (gp & tp & Hgp & Hcp & Hbp).
    pose proof (obj_bound_now _ _ _ _ _ _ _ Hsi Hbp) as Hv.
    split; [congruence|]. rewrite Eca'. split; [destruct Hv as [Hv _]; lia|]. split.
    + left. exists gp, tp. rewrite Ho. auto.
    + intros Hp. rewrite Hp in Hv. split.
      * intros g0 t0 H0 Hc0. rewrite Ho in H0.
        assert (g0 = gp) by (eapply (k_uo _ s Hk); eassumption). subst g0. rewrite Hgp in H0. injection H0 as <-.
        eapply Vt_pub_dcall, Hv.
      * rewrite Ewg, Hwg. intros c' [].
  - intros c Hn Hex0. split; [apply HnoR, Hex0|]. intros H. apply Hn. revert H. unfold HasCall, has_obj, in_wg.
    rewrite Ho, Eex, Ewg. auto.
  - intros T Hx. split; [|rewrite Hexits; intros te' []].
    unfold ExitB in *. rewrite Eex, Eca'. intros He. specialize (Hx He). rewrite Eca in Hx.
    destruct Hx as (g & t & Hg & call & key & st & n & sub & tm & -> & Htm & Hk7 & Hb).
    assert (Hin : In tm (cl_timers s)) by (apply (tmr_in s g tm); rewrite Htm; left; reflexivity).
    pose proof (si_t1 s Hsi tm Hin). lia.
  - intros He. left. congruence.
Qed.

Lemma SI_cancel f s s' te cc :
  core s' = (List.filter f (cl_timers s), cl_next_seq s, cl_now s, cl_last_read s, Some te, cl_exited s,
             cl_waiting_group s, cc, cl_next_obj s) -> cl_now s <= te -> SI s -> SI s'.
Proof.
  intros Hc Hte [H1 H2 H3 H4 H5 H6 H7]. core_inj Hc.
  split; rewrite ?Etm, ?Esq, ?Enow, ?Elr, ?Eca, ?Eex, ?Ewg, ?Ecc, ?Eno; try assumption.
  - intros tm Hi. apply filter_In in Hi. apply H1, Hi.
  - intros tm Hi. apply filter_In in Hi. apply H2, Hi.
  - apply NoDup_map_filter, H3.
  - intros tm Hi. apply filter_In in Hi. apply H4, Hi.
  - intros te' E _. injection E as <-. exact Hte.
  - discriminate.
Qed.

(* ------------------------------------------------------------------ a transaction ends: its call returns *)
Lemma Good_finish cfg s s' g t0 t r o now_r (ca' : option N) :
  SI s -> K (fun _ => True) s -> SI s' ->
  cl_cancelled s = None -> cl_cancelled s' = ca' -> cl_exited s' = cl_exited s -> cl_waiting_group s' = cl_waiting_group s ->
  cl_objs s !! g = Some t0 -> call_of t = call_of t0 -> cl_objs s' = delete g (cl_objs s) ->
  (ca' = None -> forall g', g' <> g -> tmr s' g' = tmr s g') ->
  (forall te, ca' = Some te -> te <= now_r + readTimeout) ->
  (forall tm, In tm (cl_timers s) -> ctimer_obj (ctm_kind tm) <> g -> now_r <= ctm_at tm) ->
  (forall D pr pub, obj_bound cfg s g t0 D pr pub -> Vt cfg t now_r D pr pub) ->
  (forall T, close_bound cfg s g t0 T -> exists te, ca' = Some te /\ te <= T) ->
  c_ret_times o = match call_of t with Some c => [(c, now_r, r)] | None => [] end -> c_exits o = [] ->
  Good cfg None s (s', o).
Proof.
  intros Hsi Hk Hsi' Eca Eca' Eex Ewg Hg Hcall Ho Htmr Hte Hnow Hvt Hclose Hret Hexits.
  destruct (si_c2 s Hsi Eca) as (Hwg & Hex & Hcc).
  assert (Hlo : forall g' t1, cl_objs s' !! g' = Some t1 -> cl_objs s !! g' = Some t1 /\ g' <> g).
  { intros g' t1 H. rewrite Ho in H. apply lookup_delete_Some' in H. exact H. }
  assert (Hlo' : forall g' t1, cl_objs s !! g' = Some t1 -> g' <> g -> cl_objs s' !! g' = Some t1).
  { intros g' t1 H Hn. rewrite Ho, lookup_delete_ne by congruence. exact H. }
  assert (Hother : forall gp tp D pr pub, cl_objs s !! gp = Some tp -> gp <> g -> obj_bound cfg s gp tp D pr pub ->
            Vt cfg tp now_r D pr pub).
  { intros gp tp D pr pub Hgp Hn Hb. destruct (obj_bound_Vt _ _ _ _ _ _ _ Hb) as (tm & Htm & Hv). apply Hv.
    assert (Hin : In tm (tmr s gp)) by (rewrite Htm; left; reflexivity). apply tmr_in in Hin. destruct Hin as [Hin Hobj].
    apply Hnow; [exact Hin|congruence]. }
  assert (HnoR : forall c, call_of t0 <> Some c -> NoRet c o).
  { intros c Hc id tt rr Hi ->. rewrite Hret, Hcall in Hi. destruct (call_of t0) as [c0|]; [|destruct Hi].
    destruct Hi as [E|[]]. injection E as -> _ _. apply Hc. reflexivity. }
  split; cbn [fst snd].
  - exact Hsi'.
  - intros p [Hb1 Hb2] _. rewrite Eca in Hb2. destruct Hb2 as (gp & tp & Hgp & Hcp & Hbp).
    destruct (N.eq_dec gp g) as [->|Hn].
    + rewrite Hg in Hgp. injection Hgp as <-. pose proof (Hvt _ _ _ Hbp) as Hv.
      rewrite Hcall, Hcp in Hret.
      split; [intros id tt rr Hi _; rewrite Hret in Hi; destruct Hi as [E|[]]; injection E as _ <- _; destruct Hv as [Hv _]; unfold readTimeout in Hv; lia|].
      split.
      { intros id tt Hi _ Hp. rewrite Hret in Hi. destruct Hi as [E|[]]. injection E as _ <- _. rewrite Hp in Hv.
        destruct Hv as [_ Hv]. destruct t as [call att|call kind key st data n sub|call st n ms|mid pub'].
        - destruct Hv as [Hv _]. discriminate Hv.
        - apply Hv.
        - discriminate Hv.
        - contradiction. }
      right. split; [unfold returned; rewrite Hret; cbn; rewrite N.eqb_refl; reflexivity|].
      intros [_ [(g1 & t1 & H1 & Hc1)|(c' & Hi & _)]].
      * apply Hlo in H1. destruct H1 as [H1 Hne]. apply Hne. eapply (k_uo _ s Hk); eassumption.
      * rewrite Ewg, Hwg in Hi. destruct Hi.
    + assert (HnR : NoRet (p_id p) o).
      { apply HnoR. intros Hc. apply Hn. eapply (k_uo _ s Hk); eassumption. }
      split; [intros id tt rr Hi E; exfalso; eapply HnR; eassumption|].
      split; [intros id tt Hi E; exfalso; eapply HnR; eassumption|]. left.
      split; [congruence|]. rewrite Eca'. destruct ca' as [te|].
      * pose proof (Hother _ _ _ _ _ Hgp Hn Hbp) as Hv. specialize (Hte te eq_refl).
        split; [destruct Hv as [Hv _]; lia|]. split; [left; exists gp, tp; auto|].
        intros Hp. rewrite Hp in Hv. split; [|rewrite Ewg, Hwg; intros c' []].
        intros g1 t1 H1 Hc1. apply Hlo in H1. destruct H1 as [H1 _].
        assert (g1 = gp) by (eapply (k_uo _ s Hk); eassumption). subst g1. rewrite Hgp in H1. injection H1 as <-.
        eapply Vt_pub_dcall, Hv.
      * exists gp, tp. split; [auto|]. split; [exact Hcp|]. eapply obj_bound_tmr; [|exact Hbp]. apply Htmr; auto.
  - intros c Hn _. split.
    + apply HnoR. intros Hc. apply Hn. split; [exact Hex|]. left. exists g, t0. auto.
    + intros [H1 H2]. apply Hn. split; [congruence|]. destruct H2 as [(g1 & t1 & H3 & Hc1)|H2].
      * apply Hlo in H3. left. exists g1, t1. tauto.
      * right. unfold in_wg in *. rewrite <- Ewg. exact H2.
  - intros T Hx. split; [|rewrite Hexits; intros te []].
    unfold ExitB in *. rewrite Eex, Eca'. intros He. specialize (Hx He). rewrite Eca in Hx.
    destruct Hx as (gx & tx & Hgx & Hbx). destruct (N.eq_dec gx g) as [->|Hn].
    + rewrite Hg in Hgx. injection Hgx as <-. destruct (Hclose T Hbx) as (te & -> & Hle). exact Hle.
    + destruct ca' as [te|].
      * specialize (Hte te eq_refl). destruct Hbx as (call & key & st & n & sub & tm & -> & Htm & Hk7 & Hb).
        assert (Hin : In tm (tmr s gx)) by (rewrite Htm; left; reflexivity). apply tmr_in in Hin. destruct Hin as [Hin Hobj].
        specialize (Hnow tm Hin ltac:(congruence)). lia.
      * exists gx, tx. split; [auto|]. eapply close_bound_tmr; [|exact Hbx]. apply Htmr; auto.
  - intros He. left. congruence.
Qed.

(* ------------------------------------------------------------------ facts about the primitives *)
Lemma finish_facts s0 g t : cl_objs s0 !! g = Some t ->
  cl_objs (c_finish_obj s0 g) = delete g (cl_objs s0) /\
  cl_timers (c_finish_obj s0 g) = List.filter (fun u => negb (ctimer_obj (ctm_kind u) =? g)) (cl_timers s0) /\
  cl_next_seq (c_finish_obj s0 g) = cl_next_seq s0 /\ cl_now (c_finish_obj s0 g) = cl_now s0 /\
  cl_last_read (c_finish_obj s0 g) = cl_last_read s0 /\ cl_cancelled (c_finish_obj s0 g) = cl_cancelled s0 /\
  cl_exited (c_finish_obj s0 g) = cl_exited s0 /\ cl_waiting_group (c_finish_obj s0 g) = cl_waiting_group s0 /\
  cl_conn_closed (c_finish_obj s0 g) = cl_conn_closed s0 /\ cl_next_obj (c_finish_obj s0 g) = cl_next_obj s0.
Proof.
  intros H. split; [apply c_finish_obj_objs|]. pose proof (c_finish_obj_core s0 g t H) as Hc. unfold core in Hc.
  injection Hc as E1 E2 E3 E4 E5 E6 E7 E8 E9. repeat split; assumption.
Qed.

Lemma cancel_api_facts s : cl_cancelled s = None -> SI s ->
  SI (c_cancel_from_api s) /\ cl_objs (c_cancel_from_api s) = cl_objs s /\
  cl_cancelled (c_cancel_from_api s) = Some (next_poll (cl_last_read s) (cl_now s)) /\
  cl_exited (c_cancel_from_api s) = cl_exited s /\ cl_waiting_group (c_cancel_from_api s) = cl_waiting_group s.
Proof.
  intros Hc Hsi. unfold c_cancel_from_api. rewrite Hc. unfold c_stop_ctx_timers. cbn. split; [|auto].
  eapply (SI_cancel (fun t => negb (ctx_bound (ctm_kind t))) s); [reflexivity| |exact Hsi].
  pose proof (next_poll_bounds _ _ (si_lr s Hsi)). lia.
Qed.

Lemma cancel_loop_facts s e cc : cl_cancelled s = None -> SI s ->
  SI (c_cancel_from_loop s e <| cl_conn_closed := cc |>) /\ SI (c_cancel_from_loop s e) /\
  cl_objs (c_cancel_from_loop s e) = cl_objs s /\
  cl_cancelled (c_cancel_from_loop s e) = Some (cl_now s) /\
  cl_exited (c_cancel_from_loop s e) = cl_exited s /\ cl_waiting_group (c_cancel_from_loop s e) = cl_waiting_group s /\
  cl_now (c_cancel_from_loop s e) = cl_now s /\ cl_timers (c_cancel_from_loop s e) = List.filter (fun t => negb (ctx_bound (ctm_kind t))) (cl_timers s).
Proof.
  intros Hc Hsi. unfold c_cancel_from_loop. rewrite Hc. unfold c_stop_ctx_timers. cbn.
  split; [|split; [|repeat split]].
  - eapply (SI_cancel (fun t => negb (ctx_bound (ctm_kind t))) s); [reflexivity|lia|exact Hsi].
  - eapply (SI_cancel (fun t => negb (ctx_bound (ctm_kind t))) s); [reflexivity|lia|exact Hsi].
Qed.

Lemma tmr_snoc s s' tm g : cl_timers s' = cl_timers s ++ [tm] ->
  tmr s' g = tmr s g ++ (if ctimer_obj (ctm_kind tm) =? g then [tm] else []).
Proof. intros E. unfold tmr. rewrite E, filter_app. reflexivity. Qed.

Lemma SI_snoc s s' k d cc no' :
  core s' = (cl_timers s ++ [{| ctm_at := cl_now s + d; ctm_seq := cl_next_seq s; ctm_kind := k |}], cl_next_seq s + 1,
             cl_now s, cl_last_read s, cl_cancelled s, cl_exited s, cl_waiting_group s, cc, no') ->
  (cl_cancelled s = None -> cc = false) -> cl_next_obj s <= no' -> ctimer_obj k < no' -> SI s -> SI s'.
Proof.
  intros Hc Hcc Hno Hk [H1 H2 H3 H4 H5 H6 H7]. core_inj Hc.
  split; rewrite ?Etm, ?Esq, ?Enow, ?Elr, ?Eca, ?Eex, ?Ewg, ?Ecc, ?Eno; try assumption.
  - intros tm Hi. apply in_app_or in Hi. destruct Hi as [Hi|[<-|[]]]; [apply H1, Hi|cbn; lia].
  - intros tm Hi. apply in_app_or in Hi. destruct Hi as [Hi|[<-|[]]]; [specialize (H2 tm Hi); lia|cbn; lia].
  - rewrite map_app. cbn [map ctm_seq]. apply NoDup_snoc; [exact H3|].
    intros Hx. apply in_map_iff in Hx. destruct Hx as (tm & E & Hi). specialize (H2 tm Hi). lia.
  - intros tm Hi. apply in_app_or in Hi. destruct Hi as [Hi|[<-|[]]]; [specialize (H4 tm Hi); lia|exact Hk].
  - intros Hca. destruct (H7 Hca) as (A & B & C). auto.
Qed.

Lemma connect_attempt_facts cfg s call n : wf_cl_cfg cfg -> cl_conn_closed s = false ->
  cl_objs (fst (connect_attempt cfg s call n)) = <[cl_next_obj s := CxConnect call n]> (cl_objs s) /\
  core (fst (connect_attempt cfg s call n)) =
    (cl_timers s ++ [{| ctm_at := cl_now s + k_ctimeout cfg; ctm_seq := cl_next_seq s; ctm_kind := CtmConnect (cl_next_obj s) |}],
     cl_next_seq s + 1, cl_now s, cl_last_read s, cl_cancelled s, cl_exited s, cl_waiting_group s, cl_conn_closed s, cl_next_obj s + 1) /\
  quiet (snd (connect_attempt cfg s call n)).
Proof.
  intros Hcfg Hcc. unfold connect_attempt, c_new_obj. cbv zeta.
  match goal with |- context [c_send ?X (connect_pkt cfg)] =>
    rewrite (c_send_ok X (connect_pkt cfg)) by (first [exact Hcc|apply (pack_size _ (wf_connect_pkt cfg Hcfg))]) end.
  destruct (len (k_user cfg) =? 0).
  - cbn [fst snd]. split; [reflexivity|]. split; [reflexivity|]. split; reflexivity.
  - match goal with |- context [c_send ?X (auth_pkt cfg)] =>
      rewrite (c_send_ok X (auth_pkt cfg)) by (first [exact Hcc|apply (pack_size _ (wf_auth_pkt cfg Hcfg))]) end.
    cbn [fst snd]. split; [reflexivity|]. split; [reflexivity|]. split; reflexivity.
Qed.

Lemma filter_none_fresh s g : SI s -> cl_next_obj s <= g ->
  List.filter (fun u => negb (ctimer_obj (ctm_kind u) =? g)) (cl_timers s) = cl_timers s.
Proof.
  intros Hsi Hg. pose proof (si_t4 s Hsi) as H4. induction (cl_timers s) as [|tm l IH]; [reflexivity|].
  cbn [List.filter]. assert (E : (ctimer_obj (ctm_kind tm) =? g) = false).
  { apply N.eqb_neq. specialize (H4 tm ltac:(left; reflexivity)). lia. }
  rewrite E. cbn [negb]. f_equal. apply IH. intros tm' Hi. apply H4. right. exact Hi.
Qed.

(* ------------------------------------------------------------------ complete *)
Section Complete.
  Variables (cfg : cl_cfg) (s s0 : cl_state) (g : N) (t0 t : ctxn) (r : cres) (ic : bool).
  Hypothesis Hcfg : wf_cl_cfg cfg.
  Hypothesis Hsi : SI s.
  Hypothesis Hk : K (fun _ => True) s.
  Hypothesis Hia : InvA false s.
  Hypothesis Hsi0 : SI s0.
  Hypothesis Eca : cl_cancelled s0 = cl_cancelled s.
  Hypothesis Eex : cl_exited s0 = cl_exited s.
  Hypothesis Ewg : cl_waiting_group s0 = cl_waiting_group s.
  Hypothesis Eno : cl_next_obj s0 = cl_next_obj s.
  Hypothesis Hg : cl_objs s !! g = Some t0.
  Hypothesis Ho : cl_objs s0 = <[g := t]> (cl_objs s).
  Hypothesis Hcall : call_of t = call_of t0.
  Hypothesis Hdc : dcall t = dcall t0.
  Hypothesis Htmr : forall g', g' <> g -> tmr s0 g' = tmr s g'.

  Let s1 := c_finish_obj s0 g.
  Lemma Hg0 : cl_objs s0 !! g = Some t. Proof. rewrite Ho. apply lookup_insert. Qed.

  Lemma cpl_s1 :
    cl_objs s1 = delete g (cl_objs s) /\
    cl_timers s1 = List.filter (fun u => negb (ctimer_obj (ctm_kind u) =? g)) (cl_timers s0) /\
    cl_next_seq s1 = cl_next_seq s0 /\ cl_now s1 = cl_now s0 /\
    cl_last_read s1 = cl_last_read s0 /\ cl_cancelled s1 = cl_cancelled s /\
    cl_exited s1 = cl_exited s /\ cl_waiting_group s1 = cl_waiting_group s /\
    cl_conn_closed s1 = cl_conn_closed s0 /\ cl_next_obj s1 = cl_next_obj s /\ SI s1 /\
    (forall g', g' <> g -> tmr s1 g' = tmr s g').
  Proof.
    destruct (finish_facts s0 g t Hg0) as (A & B & C & D & E & F & G & H & I & J). fold s1 in A, B, C, D, E, F, G, H, I, J.
    rewrite Ho, delete_insert_delete in A.
    split; [exact A|]. split; [exact B|]. split; [exact C|]. split; [exact D|]. split; [exact E|]. split; [congruence|].
    split; [congruence|]. split; [congruence|]. split; [exact I|]. split; [congruence|]. split.
    - apply SI_finish, Hsi0.
    - intros g' Hn. unfold s1. rewrite tmr_finish_other by exact Hn. apply Htmr, Hn.
  Qed.

  Lemma cpl_now_le : forall tm, In tm (cl_timers s) -> ctimer_obj (ctm_kind tm) <> g -> cl_now s0 <= ctm_at tm.
  Proof.
    intros tm Hi Hn. apply (si_t1 s0 Hsi0).
    assert (Hin : In tm (tmr s (ctimer_obj (ctm_kind tm)))) by (apply tmr_in; auto).
    rewrite <- Htmr in Hin by exact Hn. apply tmr_in in Hin. apply Hin.
  Qed.

  (* the group context is not cancelled *)
  Hypothesis Hca : cl_cancelled s = None.
  Hypothesis Hvt : forall D pr pub, obj_bound cfg s g t0 D pr pub -> Vt cfg t (cl_now s0) D pr pub.
  Hypothesis Hclose : forall T, close_bound cfg s g t0 T -> t = t0 /\ (r = ROk \/ r = RNoRetries) /\ cl_now s0 <= T.

  Lemma cpl_plain call r' : call_of t = Some call \/ (call_of t = None /\ False) ->
    (forall T, close_bound cfg s g t0 T -> False) ->
    call_of t = Some call -> Good cfg None s (s1, ret s1 call r').
  Proof.
    intros _ Hnc Hc. destruct cpl_s1 as (A & B & C & D & E & F & G & H & I & J & Ksi & L).
    apply (Good_finish cfg s s1 g t0 t r' _ (cl_now s0) None Hsi Hk Ksi Hca (eq_trans F Hca) G H Hg Hcall A).
    - intros _. exact L.
    - discriminate.
    - apply cpl_now_le.
    - exact Hvt.
    - intros T Hb. destruct (Hnc T Hb).
    - rewrite Hc. unfold ret. cbn. rewrite D. reflexivity.
    - reflexivity.
  Qed.

  Lemma complete_Good : Good cfg None s (complete cfg s0 g t r ic).
  Proof.
    destruct cpl_s1 as (A & B & C & D & E & F & G & H & I & J & Ksi & L).
    destruct (si_c2 s Hsi Hca) as (Hwg & Hex & _).
    assert (Hcc0 : cl_conn_closed s0 = false) by (apply (si_c2 s0 Hsi0); congruence).
    pose proof cpl_plain as Hpl. pose proof cpl_now_le as Hnl.
    unfold complete. cbv zeta. fold s1. rewrite F, Hca.
    destruct t as [call att|call kind key st data n sub|call st n ms|mid pub'] eqn:Et.
    - (* Connect *)
      assert (Hnc : forall T, close_bound cfg s g t0 T -> False).
      { intros T Hb. destruct (Hclose T Hb) as (E' & _). destruct Hb as (c' & k' & st' & n' & sub' & tm & -> & _). discriminate E'. }
      assert (Hplain : forall r', Good cfg None s (s1, ret s1 call r')).
      { intros r'. apply Hpl; auto. }
      destruct r; try apply Hplain.
      destruct (att + 1 <=? k_rcount cfg) eqn:Eatt; [|apply Hplain]. apply N.leb_le in Eatt.
      destruct (connect_attempt_facts cfg s1 call (att + 1) Hcfg ltac:(congruence)) as (Fo & Fc & Fq).
      destruct (connect_attempt cfg s1 call (att + 1)) as [s2 o2]. cbn [fst snd] in Fo, Fc, Fq.
      assert (Hsi2 : SI s2).
      { eapply (SI_snoc s1 s2); [exact Fc|intros _; congruence|lia|cbn; lia|exact Ksi]. }
      unfold core in Fc. injection Fc as F1 F2 F3 F4 F5 F6 F7 F8 F9.
      refine (Good_local cfg None s s2 g t0 (cl_next_obj s1) (CxConnect call (att + 1)) o2 Hsi2 _ _ _ Hg _ _ _ _ _ _ _ Fq).
      + congruence.
      + congruence.
      + congruence.
      + rewrite Fo, A. reflexivity.
      + right. destruct (cl_objs s !! cl_next_obj s1) as [tx|] eqn:Ex; [|reflexivity].
        pose proof (ia_lt false s Hia _ _ Ex). lia.
      + rewrite <- Hcall. reflexivity.
      + rewrite <- Hdc. reflexivity.
      + intros g' Hn1 Hn2. rewrite (tmr_snoc s1 s2 _ g' F1). cbn [ctm_kind ctimer_obj].
        assert (E' : (cl_next_obj s1 =? g') = false) by (apply N.eqb_neq; congruence). rewrite E', app_nil_r. apply L, Hn1.
      + intros _ D0 pr pub Hb. specialize (Hvt D0 pr pub Hb). destruct Hvt as (Hv1 & Hv2 & Hv3).
        eexists. split.
        * rewrite (tmr_snoc s1 s2 _ _ F1). cbn [ctm_kind ctimer_obj]. rewrite N.eqb_refl.
          rewrite (tmr_nil_fresh s1 _ Ksi) by lia. reflexivity.
        * cbn [ctm_kind ctm_at]. split; [reflexivity|]. split; [exact Hv2|]. rewrite (crest_step cfg att Eatt) in Hv3. lia.
      + intros _ T Hb. destruct (Hnc T Hb).
    - (* Retry *)
      destruct (kind =? 6) eqn:E6.
      { apply N.eqb_eq in E6. subst kind.
        assert (Hnc : forall T, close_bound cfg s g t0 T -> False).
        { intros T Hb. destruct (Hclose T Hb) as (E' & _). destruct Hb as (c' & k' & st' & n' & sub' & tm & -> & _). discriminate E'. }
        assert (Hcan : Good cfg None s (c_cancel_from_api s1, ret s1 call ROk)).
        { destruct (cancel_api_facts s1 ltac:(congruence) Ksi) as (Csi & Co & Cca & Cex & Cwg).
          apply (Good_finish cfg s _ g t0 _ ROk _ (cl_now s0) (Some (next_poll (cl_last_read s1) (cl_now s1))) Hsi Hk Csi Hca Cca
                   (eq_trans Cex G) (eq_trans Cwg H) Hg Hcall (eq_trans Co A)).
          - discriminate.
          - intros te E'. injection E' as <-. pose proof (next_poll_bounds _ _ (si_lr s1 Ksi)). lia.
          - apply Hnl.
          - exact Hvt.
          - intros T Hb. destruct (Hnc T Hb).
          - cbn. rewrite D. reflexivity.
          - reflexivity. }
        destruct r; try exact Hcan; apply Hpl; auto. }
      destruct (kind =? 7) eqn:E7.
      { apply N.eqb_eq in E7. subst kind.
        assert (Hcan : Good cfg None s (c_cancel_from_loop s1 true <| cl_conn_closed := true |>, ret s1 call ROk)).
        { destruct (cancel_loop_facts s1 true true ltac:(congruence) Ksi) as (Csi & _ & Co & Cca & Cex & Cwg & _).
          apply (Good_finish cfg s _ g t0 _ ROk _ (cl_now s0) (Some (cl_now s1)) Hsi Hk Csi Hca Cca
                   (eq_trans Cex G) (eq_trans Cwg H) Hg Hcall (eq_trans Co A)).
          - discriminate.
          - intros te E'. injection E' as <-. lia.
          - apply Hnl.
          - exact Hvt.
          - intros T Hb. destruct (Hclose T Hb) as (_ & _ & Hle). exists (cl_now s1). split; [reflexivity|lia].
          - cbn. rewrite D. reflexivity.
          - reflexivity. }
        assert (Hnc : r <> ROk -> r <> RNoRetries -> forall T, close_bound cfg s g t0 T -> False).
        { intros H1 H2 T Hb. destruct (Hclose T Hb) as (_ & [E'|E'] & _); contradiction. }
        destruct r; try exact Hcan; (apply Hpl; [auto|apply Hnc; discriminate|reflexivity]). }
      apply Hpl; [auto| |reflexivity].
      intros T Hb. destruct (Hclose T Hb) as (E' & _). destruct Hb as (c' & k' & st' & n' & sub' & tm & -> & _).
      injection E' as _ -> _. discriminate E7.
    - (* Sleep *)
      apply Hpl; [auto| |reflexivity].
      intros T Hb. destruct (Hclose T Hb) as (E' & _). destruct Hb as (c' & k' & st' & n' & sub' & tm & -> & _). discriminate E'.
    - (* a received QoS 2 PUBLISH *)
      apply (Good_finish cfg s s1 g t0 _ r [] (cl_now s0) None Hsi Hk Ksi Hca (eq_trans F Hca) G H Hg Hcall A).
      + intros _. exact L.
      + discriminate.
      + apply Hnl.
      + exact Hvt.
      + intros T Hb. destruct (Hclose T Hb) as (E' & _). destruct Hb as (c' & k' & st' & n' & sub' & tm & -> & _). discriminate E'.
      + reflexivity.
      + reflexivity.
  Qed.
End Complete.

(* ------------------------------------------------------------------ complete after the cancellation; exit *)
Lemma txn_call_ex t c : call_of t = Some c -> exists c', In c' (txn_call t) /\ c' / 2 = c.
Proof.
  destruct t as [call att|call kind key st data n sub|call st n ms|mid pub']; cbn [call_of txn_call]; intros E; try discriminate;
    injection E as <-.
  - exists (2 * call). split; [left; reflexivity|lia].
  - destruct (_ || _); [exists (2 * call + 1)|exists (2 * call)]; (split; [left; reflexivity|lia]).
  - exists (2 * call). split; [left; reflexivity|lia].
Qed.

Lemma SI_set_wg s l te : cl_cancelled s = Some te -> SI s -> SI (s <| cl_waiting_group := l |>).
Proof. intros Hc [H1 H2 H3 H4 H5 H6 H7]. split; cbn; try assumption. rewrite Hc. discriminate. Qed.

Lemma complete_Good_c cfg s s0 g t0 t r ic te :
  SI s0 -> cl_cancelled s = Some te ->
  cl_cancelled s0 = cl_cancelled s -> cl_exited s0 = cl_exited s -> cl_waiting_group s0 = cl_waiting_group s ->
  cl_objs s !! g = Some t0 -> cl_objs s0 = <[g := t]> (cl_objs s) -> call_of t = call_of t0 -> dcall t = dcall t0 ->
  Good cfg None s (complete cfg s0 g t r ic).
Proof.
  intros Hsi0 Hca Eca Eex Ewg Hg Ho Hcall Hdc.
  assert (Hg0 : cl_objs s0 !! g = Some t) by (rewrite Ho; apply lookup_insert).
  destruct (finish_facts s0 g t Hg0) as (A & B & C & D & E & F & G & H & I & J).
  rewrite Ho, delete_insert_delete in A. rewrite Ewg in H.
  unfold complete. cbv zeta. rewrite F, Eca, Hca, G, Eex.
  set (s1 := c_finish_obj s0 g) in *.
  assert (Hsi1 : SI s1) by apply SI_finish, Hsi0.
  assert (Hlo : forall g' t1, cl_objs s1 !! g' = Some t1 -> cl_objs s !! g' = Some t1 /\ g' <> g).
  { intros g' t1 Hl. rewrite A in Hl. apply lookup_delete_Some' in Hl. exact Hl. }
  destruct (cl_exited s) eqn:Hexs.
  { (* after the exit nothing is pending *)
    split; cbn [fst snd].
    - exact Hsi1.
    - intros p [Hb _]. congruence.
    - intros c _ _. split; [apply NoRet_nil|]. intros [Hx _]. congruence.
    - intros T _. split; [intros Hx; congruence|intros te' []].
    - intros _. left. exact Hexs. }
  split; cbn [fst snd].
  - eapply SI_set_wg; [|exact Hsi1]. rewrite F, Eca. exact Hca.
  - intros p [Hb1 Hb2] _. rewrite Hca in Hb2. destruct Hb2 as (Hte & Hhas & Hpub).
    split; [apply RetT_nil|]. split; [apply RetP_nil|]. left. split; [cbn; congruence|]. cbn [cl_cancelled set]. rewrite F, Eca, Hca.
    split; [exact Hte|]. split.
    + destruct Hhas as [(g1 & t1 & H1 & Hc1)|(c' & Hi & Hc')].
      * destruct (N.eq_dec g1 g) as [->|Hn].
        -- right. rewrite Hg in H1. injection H1 as <-. destruct (txn_call_ex t (p_id p) ltac:(congruence)) as (c' & Hi & Hc').
           exists c'. split; [|exact Hc']. cbn. apply in_or_app. right. exact Hi.
        -- left. exists g1, t1. split; [|exact Hc1]. cbn. rewrite A, lookup_delete_ne by congruence. exact H1.
      * right. exists c'. split; [|exact Hc']. cbn. apply in_or_app. left. rewrite H. exact Hi.
    + intros Hp. destruct (Hpub Hp) as [Hp1 Hp2]. split.
      * intros g1 t1 H1 Hc1. cbn in H1. apply Hlo in H1. eapply Hp1; [apply H1|exact Hc1].
      * intros c' Hi Hc'. cbn in Hi. apply in_app_or in Hi. destruct Hi as [Hi|Hi]; [apply Hp2; [rewrite <- H; exact Hi|exact Hc']|].
        destruct (txn_call_spec t c' Hi) as (c & Hc & Hc2 & Hodd).
        destruct (N.eq_dec (c' mod 2) 0) as [E0|E0]; [exact E0|]. specialize (Hodd E0).
        assert (Hd0 : dcall t0 = None) by (eapply Hp1; [exact Hg|congruence]). congruence.
  - intros c Hn _. split; [apply NoRet_nil|]. intros [_ Hh]. apply Hn. split; [exact Hexs|].
    destruct Hh as [(g1 & t1 & H1 & Hc1)|(c' & Hi & Hc')].
    + cbn in H1. apply Hlo in H1. left. exists g1, t1. tauto.
    + cbn in Hi. apply in_app_or in Hi. destruct Hi as [Hi|Hi]; [right; exists c'; split; [rewrite <- H; exact Hi|exact Hc']|].
      destruct (txn_call_spec t c' Hi) as (c0 & Hc & Hc2 & _). left. exists g, t0. split; [exact Hg|congruence].
  - intros T Hx. split; [|intros te' []]. unfold ExitB in *. cbn. rewrite F, Eca, Hca, G, Eex. rewrite Hca in Hx. intros _. exact (Hx Hexs).
  - cbn. rewrite G, Eex, Hexs. discriminate.
Qed.

(* the returns of c_exit *)
Lemma exit_rets te (f : N -> list cl_out) (ge : bool) calls :
  forall id tt r, In (id, tt, r) (c_ret_times (calls ≫= (fun c => if c mod 2 =? 0 then [CoRet te (c / 2) RCancelled]
                                     else [CoRet te (c / 2) (if ge then RCancelled else ROk)]))) <->
    exists c', In c' calls /\ id = c' / 2 /\ tt = te /\ r = (if c' mod 2 =? 0 then RCancelled else if ge then RCancelled else ROk).
Proof.
  induction calls as [|c l IH]; intros id tt r.
  - cbn. split; [intros []|intros (c' & [] & _)].
  - cbn [mbind list_bind]. rewrite c_ret_times_app, in_app_iff, IH. split.
    + intros [H|(c' & Hi & Hr)]; [|exists c'; split; [right; exact Hi|exact Hr]].
      exists c. split; [left; reflexivity|]. destruct (c mod 2 =? 0); cbn in H; destruct H as [E|[]]; injection E as <- <- <-; auto.
    + intros (c' & [->|Hi] & -> & -> & ->); [left|right; exists c'; auto].
      destruct (c' mod 2 =? 0); cbn; left; reflexivity.
Qed.

Lemma exit_Good cfg s te : SI s -> cl_cancelled s = Some te -> cl_exited s = false ->
  (forall tm, In tm (cl_timers s) -> te <= ctm_at tm) -> Good cfg None s (c_exit s te).
Proof.
  intros Hsi Hca Hex Htm. unfold c_exit. cbv zeta.
  set (calls := (map snd (map_to_list (cl_objs s)) ≫= txn_call) ++ cl_waiting_group s).
  assert (Hcalls : forall c', In c' calls <-> (exists g t, cl_objs s !! g = Some t /\ In c' (txn_call t)) \/ In c' (cl_waiting_group s)).
  { intros c'. unfold calls. rewrite in_app_iff. apply or_iff_compat_r.
    rewrite <- elem_of_list_In, elem_of_list_bind. split.
    - intros (t & Hc & Ht). rewrite elem_of_list_In in Ht. apply in_map_iff in Ht. destruct Ht as ([g t1] & E & Hgt). cbn [snd] in E. subst t1.
      rewrite <- elem_of_list_In, elem_of_map_to_list in Hgt. exists g, t. rewrite <- elem_of_list_In. auto.
    - intros (g & t & Hg & Hi). exists t. split; [rewrite elem_of_list_In; exact Hi|].
      rewrite elem_of_list_In. apply in_map_iff. exists (g, t). split; [reflexivity|]. rewrite <- elem_of_list_In. apply elem_of_map_to_list, Hg. }
  assert (Hrets : forall id tt r, In (id, tt, r) (c_ret_times (CoExit te :: calls ≫= (fun c => if c mod 2 =? 0 then [CoRet te (c / 2) RCancelled]
                                     else [CoRet te (c / 2) (if cl_group_err s then RCancelled else ROk)]))) <->
            exists c', In c' calls /\ id = c' / 2 /\ tt = te /\ r = (if c' mod 2 =? 0 then RCancelled else if cl_group_err s then RCancelled else ROk)).
  { intros id tt r. apply (exit_rets te (fun _ => []) (cl_group_err s) calls). }
  assert (Hhas : forall c, HasCall s c <-> exists c', In c' calls /\ c' / 2 = c).
  { intros c. unfold HasCall. rewrite Hex. split.
    - intros [_ [(g & t & Hg & Hc)|(c' & Hi & Hc')]].
      + destruct (txn_call_ex t c Hc) as (c' & Hi & Hc'). exists c'. split; [|exact Hc']. apply Hcalls. left. exists g, t. auto.
      + exists c'. split; [|exact Hc']. apply Hcalls. right. exact Hi.
    - intros (c' & Hi & Hc'). split; [reflexivity|]. apply Hcalls in Hi. destruct Hi as [(g & t & Hg & Hi)|Hi].
      + left. destruct (txn_call_spec t c' Hi) as (c0 & Hc0 & E & _). exists g, t. split; [exact Hg|congruence].
      + right. exists c'. auto. }
  split; cbn [fst snd].
  - destruct Hsi as [H1 H2 H3 H4 H5 H6 H7]. split; cbn; try assumption.
    + specialize (H6 te Hca Hex). lia.
    + discriminate.
    + rewrite Hca. discriminate.
  - intros p [Hb1 Hb2] _. rewrite Hca in Hb2. destruct Hb2 as (Hte & Hh & Hpub). split; [|split].
    + intros id tt r Hi _. apply Hrets in Hi. destruct Hi as (c' & _ & _ & -> & _). exact Hte.
    + intros id tt Hi Eid Hp. apply Hrets in Hi. destruct Hi as (c' & Hi & -> & -> & Hr). exfalso.
      destruct (Hpub Hp) as [Hp1 Hp2]. destruct (c' mod 2 =? 0) eqn:Em; [discriminate Hr|]. apply N.eqb_neq in Em.
      apply Hcalls in Hi. destruct Hi as [(g & t & Hg & Hi)|Hi].
      * destruct (txn_call_spec t c' Hi) as (c0 & Hc0 & E & Hodd). specialize (Hodd Em).
        assert (dcall t = None) by (eapply Hp1; [exact Hg|congruence]). congruence.
      * apply Em. apply Hp2; [exact Hi|congruence].
    + right. split; [|intros [Hx _]; cbn in Hx; discriminate].
      assert (Hc : HasCall s (p_id p)) by (split; [exact Hex|exact Hh]). apply Hhas in Hc. destruct Hc as (c' & Hi & Hc').
      unfold returned. apply existsb_exists. exists (p_id p, te, if c' mod 2 =? 0 then RCancelled else if cl_group_err s then RCancelled else ROk).
      split; [|apply N.eqb_refl]. apply Hrets. exists c'. auto.
  - intros c Hn _. split; [|intros [Hx _]; cbn in Hx; discriminate].
    intros id tt r Hi ->. apply Hrets in Hi. destruct Hi as (c' & Hi & E & _). apply Hn, Hhas. exists c'. auto.
  - intros T Hx. split; [intros Hx'; cbn in Hx'; discriminate|].
    specialize (Hx Hex). rewrite Hca in Hx. intros te' Hi. cbn in Hi.
    destruct Hi as [<-|Hi]; [exact Hx|]. exfalso. clear -Hi. revert Hi.
    generalize calls. intros l. induction l as [|c l IH]; [intros []|]. cbn [mbind list_bind]. rewrite c_exits_app, in_app_iff.
    intros [H|H]; [|apply IH, H]. destruct (c mod 2 =? 0); cbn in H; exact H.
  - intros _. right. discriminate.
Qed.

(* ------------------------------------------------------------------ API calls *)
Lemma start_retry_facts cfg s call kind key st p bt s' g o ok :
  start_retry cfg s call kind key st p bt = (s', g, o, ok) ->
  g = cl_next_obj s /\ cl_objs s' = <[g := CxRetry call kind key st p 0 call]> (cl_objs s) /\
  core s' = (cl_timers s ++ [{| ctm_at := cl_now s + k_rdelay cfg; ctm_seq := cl_next_seq s; ctm_kind := CtmRetry g |}],
             cl_next_seq s + 1, cl_now s, cl_last_read s, cl_cancelled s, cl_exited s, cl_waiting_group s,
             cl_conn_closed s, cl_next_obj s + 1) /\
  quiet o /\ (cl_conn_closed s = false -> len (pack p) <= MaxPacketLen -> ok = true).
Proof.
  unfold start_retry, c_new_obj. intros H.
  destruct bt; cbv zeta in H;
    match type of H with context [c_send ?X p] =>
      pose proof (quiet_send X p) as Hq; pose proof (c_send_ok X p) as Hok; destruct (c_send X p) as [o1 ok1] end;
    injection H as <- <- <- <-; cbn [fst] in Hq;
    (split; [reflexivity|]; split; [reflexivity|]; split; [reflexivity|]; split; [exact Hq|]);
    intros Hcc Hl; specialize (Hok Hcc Hl); congruence.
Qed.

Definition retry_D (cfg : cl_cfg) (kind : N) (st : ct_state) : N :=
  budget cfg + (if (kind =? 4) && ct_state_eqb st CtAwaitPubrec then budget cfg else 0) + readTimeout.

Lemma retry_start_Good cfg s s' g call kind key st p o ok bt :
  SI s -> InvA false s -> start_retry cfg s call kind key st p bt = (s', g, o, ok) ->
  (forall s'', cl_objs s'' = cl_objs s' -> core s'' = core s' ->
     Good cfg (Some call) s (s'', o) /\
     (forall pnd, p_id pnd = call -> (p_pub pnd = true -> (kind =? 6) || (kind =? 7) = false) -> cl_now s <= p_progress pnd ->
                  cl_now s + retry_D cfg kind st <= p_deadline pnd -> cl_cancelled s = None -> Backed cfg s'' pnd) /\
     (kind = 7 -> p = Disconnect 0 -> cl_cancelled s = None -> ExitB cfg s'' (cl_now s + budget cfg + readTimeout))) /\
  Good cfg (Some call) s (c_finish_obj s' g, o ++ ret s' call RInvalid).
Proof.
  intros Hsi Hia H. destruct (start_retry_facts _ _ _ _ _ _ _ _ _ _ _ _ H) as (-> & Ho & Hc & Hq & _).
  assert (Hfresh : cl_objs s !! cl_next_obj s = None).
  { destruct (cl_objs s !! cl_next_obj s) as [tx|] eqn:Ex; [|reflexivity]. pose proof (ia_lt false s Hia _ _ Ex). lia. }
  assert (Hsi' : SI s').
  { eapply (SI_snoc s s'); [exact Hc|apply (si_c2 s Hsi)|lia|cbn; lia|exact Hsi]. }
  split.
  - intros s'' Eo Ec. assert (Ec' := Ec). rewrite Hc in Ec'. core_inj Ec'.
    assert (Htm' : forall g', tmr s'' g' = tmr s g' ++ (if cl_next_obj s =? g' then [{| ctm_at := cl_now s + k_rdelay cfg; ctm_seq := cl_next_seq s; ctm_kind := CtmRetry (cl_next_obj s) |}] else [])).
    { intros g'. apply (tmr_snoc s s'' _ g' Etm). }
    split; [|split].
    + apply (Good_new cfg (Some call) s s'' (cl_next_obj s) (CxRetry call kind key st p 0 call) o); try assumption.
      * eapply SI_ext; [exact Ec|exact Hsi'].
      * congruence.
      * intros g' Hn. rewrite Htm'. assert (E' : (cl_next_obj s =? g') = false) by (apply N.eqb_neq; congruence). rewrite E'. apply app_nil_r.
      * cbn. intros c E. injection E as <-. reflexivity.
      * destruct Hq as [Hq _]. rewrite Hq. intros ? ? ? [].
      * apply Hq.
    + intros pnd Hid Hpub Hpr HD Hca. destruct (si_c2 s Hsi Hca) as (_ & Hex & _).
      split; [congruence|]. rewrite Eca, Hca. exists (cl_next_obj s), (CxRetry call kind key st p 0 call).
      split; [rewrite Eo, Ho; apply lookup_insert|]. split; [cbn; congruence|].
      eexists. split; [rewrite Htm', N.eqb_refl, (tmr_nil_fresh s _ Hsi) by lia; reflexivity|].
      cbn [ctm_kind ctm_at]. split; [reflexivity|]. split; [exact Hpub|]. pose proof (rest_0 cfg). unfold retry_D in HD. split; lia.
    + intros -> -> Hca. intros _. rewrite Eca, Hca. exists (cl_next_obj s), (CxRetry call 7 key st (Disconnect 0) 0 call).
      split; [rewrite Eo, Ho; apply lookup_insert|]. exists call, key, st, 0, call. eexists.
      split; [reflexivity|]. split; [rewrite Htm', N.eqb_refl, (tmr_nil_fresh s _ Hsi) by lia; reflexivity|].
      cbn [ctm_kind ctm_at]. split; [reflexivity|]. pose proof (rest_0 cfg). lia.
  - assert (Hg' : cl_objs s' !! cl_next_obj s = Some (CxRetry call kind key st p 0 call)) by (rewrite Ho; apply lookup_insert).
    destruct (finish_facts s' _ _ Hg') as (A & B & C & D & E & F & G & Hh & I & J).
    core_inj Hc. apply Good_inert.
    + apply SI_finish, Hsi'.
    + congruence.
    + congruence.
    + congruence.
    + rewrite A, Ho. apply delete_insert, Hfresh.
    + rewrite B, Etm, filter_app. cbn [List.filter ctm_kind ctimer_obj]. rewrite N.eqb_refl. cbn [negb]. rewrite app_nil_r.
      apply filter_none_fresh; [exact Hsi|lia].
    + intros id tt r Hi. rewrite c_ret_times_app in Hi. apply in_app_or in Hi. destruct Hq as [Hq _]. rewrite Hq in Hi.
      destruct Hi as [[]|[E'|[]]]. injection E' as <- _ _. reflexivity.
    + rewrite c_exits_app. destruct Hq as [_ Hq]. rewrite Hq. reflexivity.
Qed.

Lemma Good_ret cfg s call r : SI s -> Good cfg (Some call) s (s, ret s call r).
Proof.
  intros Hsi. apply Good_inert; try reflexivity; [exact Hsi|]. intros id tt r' [E|[]]. injection E as <- _ _. reflexivity.
Qed.

Definition newp (cfg : cl_cfg) (s : cl_state) (id : N) (a : api) : pending :=
  {| p_id := id; p_deadline := cl_now s + call_bound cfg a; p_progress := cl_now s; p_over := false;
     p_pub := match a with APublish _ q _ _ | APubPre _ q _ _ => (q =? 1) || (q =? 2) | _ => false end |}.

(* what is to be shown of a call: the micro-step is good, and the call has returned or is backed *)
Definition CallOk (cfg : cl_cfg) (s : cl_state) (pnd : pending) (r : CR) : Prop :=
  Good cfg (Some (p_id pnd)) s r /\ (returned (snd r) (p_id pnd) = true \/ Backed cfg (fst r) pnd).

Lemma CallOk_ret cfg s pnd r : SI s -> CallOk cfg s pnd (s, ret s (p_id pnd) r).
Proof. intros Hsi. split; [apply Good_ret, Hsi|]. left. unfold returned. cbn. rewrite N.eqb_refl. reflexivity. Qed.

Lemma CallOk_ext cfg s s0 pnd r : cl_objs s0 = cl_objs s -> core s0 = core s -> CallOk cfg s0 pnd r -> CallOk cfg s pnd r.
Proof. intros Ho Hc [H1 H2]. split; [eapply Good_ext; eassumption|exact H2]. Qed.

Lemma returned_ret_r o s call r : returned (o ++ ret s call r) call = true.
Proof. rewrite returned_app. unfold returned at 2. cbn. rewrite N.eqb_refl. apply orb_true_r. Qed.

Lemma call_simple_ok cfg s pnd kind st mk : SI s -> InvA false s -> cl_cancelled s = None ->
  p_pub pnd = false -> cl_now s <= p_progress pnd -> cl_now s + retry_D cfg kind st <= p_deadline pnd ->
  CallOk cfg s pnd (call_simple cfg s (p_id pnd) kind st mk).
Proof.
  intros Hsi Hia Hca Hpub Hpr HD. unfold call_simple, c_next_mid.
  match goal with |- context [start_retry cfg ?X ?c ?k ?ky ?st0 ?p false] =>
    apply (CallOk_ext cfg s X); [reflexivity|reflexivity|];
    destruct (start_retry cfg X c k ky st0 p false) as [[[s' g'] o] ok] eqn:E;
    destruct (retry_start_Good cfg X s' g' c k ky st0 p o ok false) as [H1 H2]; [eapply SI_ext; [|exact Hsi]; reflexivity|apply (invA_frame false s); [reflexivity..|exact Hia]|exact E|]
  end.
  destruct ok.
  - destruct (H1 s' eq_refl eq_refl) as (G1 & G2 & _). split; [exact G1|]. right. cbn [fst]. apply G2; try assumption; try reflexivity.
    rewrite Hpub. discriminate.
  - split; [exact H2|]. left. cbn [snd]. apply returned_ret_r.
Qed.

Lemma CallOk_ret' cfg s s' pnd o tt r : cl_objs s' = cl_objs s -> core s' = core s -> SI s -> quiet o ->
  CallOk cfg s pnd (s', o ++ [CoRet tt (p_id pnd) r]).
Proof.
  intros Ho Hc Hsi Hq. core_inj Hc. split.
  - apply Good_inert; try congruence.
    + eapply SI_ext; [|exact Hsi]. unfold core. congruence.
    + intros id t0 r0 Hi. rewrite c_ret_times_app in Hi. destruct Hq as [Hq _]. rewrite Hq in Hi.
      destruct Hi as [E|[]]. injection E as <- _ _. reflexivity.
    + rewrite c_exits_app. destruct Hq as [_ Hq]. rewrite Hq. reflexivity.
  - left. cbn [snd]. rewrite returned_app. unfold returned at 2. cbn. rewrite N.eqb_refl. apply orb_true_r.
Qed.

Ltac sr_ok cfg s Hsi Hia :=
  match goal with |- context [start_retry cfg ?X ?c ?k ?ky ?st0 ?p ?bt] =>
    let E := fresh "E" in let H1 := fresh "H1" in let H2 := fresh "H2" in
    destruct (start_retry cfg X c k ky st0 p bt) as [[[s' g'] o] ok] eqn:E;
    destruct (retry_start_Good cfg X s' g' c k ky st0 p o ok bt) as [H1 H2];
      [eapply SI_ext; [|exact Hsi]; reflexivity|apply (invA_frame false s); [reflexivity..|exact Hia]|exact E|]
  end.

Lemma do_publish_ok cfg s pnd tit tid qos retain payload : SI s -> InvA false s -> cl_cancelled s = None ->
  p_pub pnd = (qos =? 1) || (qos =? 2) -> cl_now s <= p_progress pnd ->
  cl_now s + (if qos =? 2 then 2 * budget cfg else if qos =? 1 then budget cfg else 0) + readTimeout <= p_deadline pnd ->
  CallOk cfg s pnd (do_publish cfg s (p_id pnd) tit tid qos retain payload).
Proof.
  intros Hsi Hia Hca Hpub Hpr HD. unfold do_publish, c_next_mid. cbv zeta.
  destruct ((qos =? 0) || (qos =? 3)).
  { match goal with |- context [c_send ?X ?p] => pose proof (quiet_send X p) as Hq; destruct (c_send X p) as [o [|]] end;
      cbn [fst] in Hq; apply CallOk_ret'; auto. }
  destruct (qos =? 1) eqn:E1.
  { apply N.eqb_eq in E1. subst qos. cbn [N.eqb Pos.eqb] in HD.
    match goal with |- context [start_retry cfg ?X _ _ _ _ _ _] => apply (CallOk_ext cfg s X); [reflexivity|reflexivity|] end.
    sr_ok cfg s Hsi Hia. destruct ok.
    - destruct (H1 s' eq_refl eq_refl) as (G1 & G2 & _). split; [exact G1|]. right. cbn [fst]. apply G2; try assumption; try reflexivity.
      unfold retry_D, readTimeout in *. cbn [N.eqb Pos.eqb andb ct_state_eqb].
      repeat match goal with |- context [cl_now ?X] => progress change (cl_now X) with (cl_now s) end. lia.
    - split; [exact H2|]. left. apply returned_ret_r. }
  destruct (qos =? 2) eqn:E2.
  { apply N.eqb_eq in E2. subst qos. cbn [N.eqb Pos.eqb] in HD.
    match goal with |- context [start_retry cfg ?X _ _ _ _ _ _] => apply (CallOk_ext cfg s X); [reflexivity|reflexivity|] end.
    sr_ok cfg s Hsi Hia. destruct ok.
    - destruct (H1 s' eq_refl eq_refl) as (G1 & G2 & _). split; [exact G1|]. right. cbn [fst]. apply G2; try assumption; try reflexivity.
      unfold retry_D, readTimeout in *. cbn [N.eqb Pos.eqb andb ct_state_eqb].
      repeat match goal with |- context [cl_now ?X] => progress change (cl_now X) with (cl_now s) end. lia.
    - split; [exact H2|]. left. apply returned_ret_r. }
  apply (CallOk_ret' cfg s _ pnd []); auto. apply quiet_nil.
Qed.

Lemma pack_disc0 : len (pack (Disconnect 0)) <= MaxPacketLen.
Proof. vm_compute. discriminate. Qed.

Ltac pn_lia pnd :=
  unfold pnd, newp, call_bound, retry_D, readTimeout, maxPingrespWait in *;
  cbn [p_progress p_deadline p_pub p_id N.eqb Pos.eqb andb ct_state_eqb] in *; lia.

Lemma do_call_ok cfg s id a : wf_cl_cfg cfg -> SI s -> K (fun _ => True) s -> InvA false s -> cl_cancelled s = None ->
  CallOk cfg s (newp cfg s id a) (do_call cfg s id a) /\
  (a = AClose -> ExitB cfg (fst (do_call cfg s id a)) (cl_now s + budget cfg + readTimeout)).
Proof.
  intros Hcfg Hsi Hk Hia Hca. destruct (si_c2 s Hsi Hca) as (Hwg & Hex & Hcc).
  assert (Hfresh : cl_objs s !! cl_next_obj s = None).
  { destruct (cl_objs s !! cl_next_obj s) as [tx|] eqn:Ex; [|reflexivity]. pose proof (ia_lt false s Hia _ _ Ex). lia. }
  set (pnd := newp cfg s id a).
  assert (Hret : forall r, CallOk cfg s pnd (s, ret s id r)) by (intros r; apply (CallOk_ret cfg s pnd r Hsi)).
  assert (Hsimple : forall kind mk, (kind =? 4) = false -> p_pub pnd = false -> cl_now s + budget cfg + readTimeout <= p_deadline pnd ->
             CallOk cfg s pnd (call_simple cfg s id kind CtNone mk)).
  { intros kind mk Hk4 Hp HD. apply (call_simple_ok cfg s pnd kind CtNone mk Hsi Hia Hca Hp); [pn_lia pnd|].
    unfold retry_D. rewrite Hk4. pn_lia pnd. }
  unfold do_call. destruct a as [|topic|topic qos|tid qos|topic qos retain payload|tid qos retain payload|topic|tid| |ms| |];
    (split; [|try discriminate]).
  - (* Connect *)
    destruct (connect_attempt_facts cfg s id 0 Hcfg Hcc) as (Fo & Fc & Fq).
    destruct (connect_attempt cfg s id 0) as [s2 o2]. cbn [fst snd] in Fo, Fc, Fq.
    assert (Hsi2 : SI s2) by (eapply (SI_snoc s s2); [exact Fc|intros _; exact Hcc|lia|cbn; lia|exact Hsi]).
    unfold core in Fc. injection Fc as F1 F2 F3 F4 F5 F6 F7 F8 F9.
    assert (Htm' : forall g', tmr s2 g' = tmr s g' ++ (if cl_next_obj s =? g' then [{| ctm_at := cl_now s + k_ctimeout cfg; ctm_seq := cl_next_seq s; ctm_kind := CtmConnect (cl_next_obj s) |}] else [])).
    { intros g'. apply (tmr_snoc s s2 _ g' F1). }
    split.
    + apply (Good_new cfg _ s s2 (cl_next_obj s) (CxConnect id 0) o2); try assumption; try congruence.
      * intros g' Hn. rewrite Htm'. assert (E' : (cl_next_obj s =? g') = false) by (apply N.eqb_neq; congruence). rewrite E'. apply app_nil_r.
      * cbn. intros c E. injection E as <-. reflexivity.
      * destruct Fq as [Fq _]. rewrite Fq. intros ? ? ? [].
      * apply Fq.
    + right. cbn [fst]. split; [congruence|]. rewrite F5, Hca. exists (cl_next_obj s), (CxConnect id 0).
      split; [rewrite Fo; apply lookup_insert|]. split; [reflexivity|].
      eexists. split; [rewrite Htm', N.eqb_refl, (tmr_nil_fresh s _ Hsi) by lia; reflexivity|].
      cbn [ctm_kind ctm_at]. split; [reflexivity|]. split; [reflexivity|]. pose proof (crest_0 cfg). pn_lia pnd.
  - destruct (len topic =? 0); [apply Hret|]. apply Hsimple; [reflexivity|reflexivity|pn_lia pnd].
  - destruct (len topic =? 0); [apply Hret|]. destruct (is_short_topic topic); (apply Hsimple; [reflexivity|reflexivity|pn_lia pnd]).
  - apply Hsimple; [reflexivity|reflexivity|pn_lia pnd].
  - assert (Hp : forall tit tid, CallOk cfg s pnd (do_publish cfg s id tit tid qos retain payload)).
    { intros tit tid. apply (do_publish_ok cfg s pnd tit tid qos retain payload Hsi Hia Hca); [reflexivity|pn_lia pnd|].
      unfold pnd, newp, call_bound. cbn [p_deadline]. lia. }
    destruct (is_short_topic topic); [apply Hp|]. destruct (reg_lookup _ _); [apply Hp|apply Hret].
  - apply (do_publish_ok cfg s pnd _ _ qos retain payload Hsi Hia Hca); [reflexivity|pn_lia pnd|].
    unfold pnd, newp, call_bound. cbn [p_deadline]. lia.
  - destruct (len topic =? 0); [apply Hret|]. destruct (is_short_topic topic); (apply Hsimple; [reflexivity|reflexivity|pn_lia pnd]).
  - apply Hsimple; [reflexivity|reflexivity|pn_lia pnd].
  - (* Ping *)
    sr_ok cfg s Hsi Hia. destruct ok.
    + destruct (H1 s' eq_refl eq_refl) as (G1 & G2 & _). split; [exact G1|]. right. cbn [fst].
      apply G2; [reflexivity|intros _; reflexivity|pn_lia pnd|pn_lia pnd|exact Hca].
    + split; [exact H2|]. left. apply returned_ret_r.
  - (* Sleep *)
    destruct (negb _) eqn:Est; [apply Hret|]. unfold c_new_obj. cbv zeta. cbn [cl_st set].
    destruct (cl_st s) eqn:Ecs; try discriminate Est.
    + (* Active *)
      match goal with |- context [c_send ?X ?p] => pose proof (quiet_send X p) as Hq; destruct (c_send X p) as [o [|]] end; cbn [fst] in Hq.
      * match goal with |- CallOk _ _ _ (?X, _) => set (s2 := X) end.
        assert (Ho2 : cl_objs s2 = <[cl_next_obj s := CxSleep id CtAwaitDisconnect 0 ms]> (cl_objs s)).
        { unfold s2, c_arm, c_set_obj. cbn. apply insert_insert. }
        assert (Hc2 : core s2 = (cl_timers s ++ [{| ctm_at := cl_now s + k_rdelay cfg; ctm_seq := cl_next_seq s; ctm_kind := CtmSleepResend (cl_next_obj s) |}],
                   cl_next_seq s + 1, cl_now s, cl_last_read s, cl_cancelled s, cl_exited s, cl_waiting_group s, cl_conn_closed s, cl_next_obj s + 1)) by reflexivity.
        assert (Hsi2 : SI s2) by (eapply (SI_snoc s s2); [exact Hc2|intros _; exact Hcc|lia|cbn; lia|exact Hsi]).
        assert (F1 : cl_timers s2 = cl_timers s ++ [{| ctm_at := cl_now s + k_rdelay cfg; ctm_seq := cl_next_seq s; ctm_kind := CtmSleepResend (cl_next_obj s) |}]) by reflexivity.
        assert (F5 : cl_cancelled s2 = cl_cancelled s) by reflexivity. assert (F6 : cl_exited s2 = cl_exited s) by reflexivity.
        assert (F7 : cl_waiting_group s2 = cl_waiting_group s) by reflexivity. clearbody s2.
        assert (Htm' : forall g', tmr s2 g' = tmr s g' ++ (if cl_next_obj s =? g' then [{| ctm_at := cl_now s + k_rdelay cfg; ctm_seq := cl_next_seq s; ctm_kind := CtmSleepResend (cl_next_obj s) |}] else [])).
        { intros g'. apply (tmr_snoc s s2 _ g' F1). }
        split.
        -- apply (Good_new cfg _ s s2 (cl_next_obj s) (CxSleep id CtAwaitDisconnect 0 ms) o); try assumption; try congruence.
           ++ intros g' Hn. rewrite Htm'. assert (E' : (cl_next_obj s =? g') = false) by (apply N.eqb_neq; congruence). rewrite E'. apply app_nil_r.
           ++ cbn. intros c E. injection E as <-. reflexivity.
           ++ destruct Hq as [Hq _]. rewrite Hq. intros ? ? ? [].
           ++ apply Hq.
        -- right. cbn [fst]. split; [congruence|]. rewrite F5, Hca. exists (cl_next_obj s), (CxSleep id CtAwaitDisconnect 0 ms).
           split; [rewrite Ho2; apply lookup_insert|]. split; [reflexivity|].
           eexists. split; [rewrite Htm', N.eqb_refl, (tmr_nil_fresh s _ Hsi) by lia; reflexivity|].
           cbn [ctm_kind ctm_at]. split; [reflexivity|]. pose proof (rest_0 cfg). pn_lia pnd.
      * match goal with |- CallOk _ _ _ (c_finish_obj ?X ?g, _) => set (s2 := X) end.
        assert (Hg2 : cl_objs s2 !! cl_next_obj s = Some (CxSleep id CtNone 0 ms)) by (unfold s2; cbn; apply lookup_insert).
        destruct (finish_facts s2 _ _ Hg2) as (A & B & C & D & E & F & G & Hh & I & J).
        split.
        -- apply Good_inert.
           ++ apply SI_finish. eapply (SI_mono s s2); try reflexivity; [unfold s2; cbn; lia|exact Hsi].
           ++ rewrite F. reflexivity.
           ++ rewrite G. reflexivity.
           ++ rewrite Hh. reflexivity.
           ++ rewrite A. unfold s2. cbn. apply delete_insert, Hfresh.
           ++ rewrite B. unfold s2. cbn. apply filter_none_fresh; [exact Hsi|lia].
           ++ intros id' tt r Hi. rewrite c_ret_times_app in Hi. destruct Hq as [Hq _]. rewrite Hq in Hi.
              destruct Hi as [E'|[]]. injection E' as <- _ _. reflexivity.
           ++ rewrite c_exits_app. destruct Hq as [_ Hq]. rewrite Hq. reflexivity.
        -- left. apply returned_ret_r.
    + (* Awake *)
      match goal with |- CallOk _ _ _ (?X, _) => set (s2 := X) end.
      assert (Ho2 : cl_objs s2 = <[cl_next_obj s := CxSleep id CtSleeping 0 ms]> (cl_objs s)) by (unfold s2, c_arm, c_set_state, c_set_obj; cbn; apply insert_insert).
      assert (Hc2 : core s2 = (cl_timers s ++ [{| ctm_at := cl_now s + ms; ctm_seq := cl_next_seq s; ctm_kind := CtmSleepWake (cl_next_obj s) |}],
                 cl_next_seq s + 1, cl_now s, cl_last_read s, cl_cancelled s, cl_exited s, cl_waiting_group s, cl_conn_closed s, cl_next_obj s + 1)) by reflexivity.
      assert (Hsi2 : SI s2) by (eapply (SI_snoc s s2); [exact Hc2|intros _; exact Hcc|lia|cbn; lia|exact Hsi]).
      assert (F1 : cl_timers s2 = cl_timers s ++ [{| ctm_at := cl_now s + ms; ctm_seq := cl_next_seq s; ctm_kind := CtmSleepWake (cl_next_obj s) |}]) by reflexivity.
      assert (F5 : cl_cancelled s2 = cl_cancelled s) by reflexivity. assert (F6 : cl_exited s2 = cl_exited s) by reflexivity.
      assert (F7 : cl_waiting_group s2 = cl_waiting_group s) by reflexivity. clearbody s2.
      assert (Htm' : forall g', tmr s2 g' = tmr s g' ++ (if cl_next_obj s =? g' then [{| ctm_at := cl_now s + ms; ctm_seq := cl_next_seq s; ctm_kind := CtmSleepWake (cl_next_obj s) |}] else [])).
      { intros g'. apply (tmr_snoc s s2 _ g' F1). }
      split.
      * apply (Good_new cfg _ s s2 (cl_next_obj s) (CxSleep id CtSleeping 0 ms) []); try assumption; try congruence.
        -- intros g' Hn. rewrite Htm'. assert (E' : (cl_next_obj s =? g') = false) by (apply N.eqb_neq; congruence). rewrite E'. apply app_nil_r.
        -- cbn. intros c E. injection E as <-. reflexivity.
        -- intros ? ? ? [].
        -- reflexivity.
      * right. cbn [fst]. split; [congruence|]. rewrite F5, Hca. exists (cl_next_obj s), (CxSleep id CtSleeping 0 ms).
        split; [rewrite Ho2; apply lookup_insert|]. split; [reflexivity|].
        eexists. split; [rewrite Htm', N.eqb_refl, (tmr_nil_fresh s _ Hsi) by lia; reflexivity|].
        cbn [ctm_kind ctm_at]. split; [reflexivity|]. split; [reflexivity|]. pn_lia pnd.
  - (* Disconnect *)
    destruct (cl_st s); try apply Hret;
      (sr_ok cfg s Hsi Hia; destruct ok;
       [destruct (H1 (c_set_state s' Disconnected) eq_refl eq_refl) as (G1 & G2 & _); split; [exact G1|]; right; cbn [fst];
        apply G2; [reflexivity|intros Hp; unfold pnd, newp in Hp; cbn [p_pub] in Hp; discriminate Hp|pn_lia pnd|pn_lia pnd|exact Hca]
       |split; [exact H2|]; left; apply returned_ret_r]).
  - (* Close *)
    assert (Hnc : CallOk cfg s pnd (c_cancel_from_loop s true <| cl_conn_closed := true |>, ret s id ROk)).
    { destruct (cancel_loop_facts s true true Hca Hsi) as (Csi & _ & Co & Cca & Cex & Cwg & _). split.
      - refine (Good_cancel cfg _ s _ (cl_now s) _ Hsi Hk Csi Hca _ _ _ _ _ _ _).
        + exact Cca.
        + unfold readTimeout. lia.
        + exact Co.
        + exact Cex.
        + exact Cwg.
        + intros id' tt r [E'|[]]. injection E' as <- _ _. reflexivity.
        + reflexivity.
      - left. unfold returned. cbn. rewrite N.eqb_refl. reflexivity. }
    destruct (cl_st s); try apply Hnc;
      (sr_ok cfg s Hsi Hia; destruct ok;
       [destruct (H1 (c_set_state s' Disconnected) eq_refl eq_refl) as (G1 & G2 & _); split; [exact G1|]; right; cbn [fst];
        apply G2; [reflexivity|intros Hp; unfold pnd, newp in Hp; cbn [p_pub] in Hp; discriminate Hp|pn_lia pnd|pn_lia pnd|exact Hca]
       |split; [exact H2|]; left; apply returned_ret_r]).
  - (* Close: the exit deadline *)
    intros _.
    assert (Hnc : ExitB cfg (c_cancel_from_loop s true <| cl_conn_closed := true |>) (cl_now s + budget cfg + readTimeout)).
    { destruct (cancel_loop_facts s true true Hca Hsi) as (_ & _ & _ & Cca & _). intros _. cbn. rewrite Cca. lia. }
    destruct (cl_st s); try exact Hnc;
      (sr_ok cfg s Hsi Hia;
       destruct (start_retry_facts _ _ _ _ _ _ _ _ _ _ _ _ E) as (_ & _ & _ & _ & Hok); specialize (Hok Hcc pack_disc0); subst ok;
       destruct (H1 (c_set_state s' Disconnected) eq_refl eq_refl) as (_ & _ & G3); cbn [fst]; apply G3; auto).
Qed.

(* ------------------------------------------------------------------ received packets *)
Lemma close_bound_kind7 cfg s g t T : close_bound cfg s g t T ->
  exists call key st n sub, t = CxRetry call 7 key st (Disconnect 0) n sub.
Proof. intros (call & key & st & n & sub & tm & -> & _). eauto 6. Qed.

Lemma close_bound_now cfg s g t T : SI s -> close_bound cfg s g t T -> cl_now s <= T.
Proof.
  intros Hsi (call & key & st & n & sub & tm & _ & Htm & _ & Hb).
  assert (Hin : In tm (cl_timers s)) by (apply (tmr_in s g tm); rewrite Htm; left; reflexivity).
  pose proof (si_t1 s Hsi tm Hin). lia.
Qed.

Section Leaves.
  Variables (cfg : cl_cfg) (s : cl_state).
  Hypothesis Hcfg : wf_cl_cfg cfg.
  Hypothesis Hsi : SI s.
  Hypothesis Hk : K (fun _ => True) s.
  Hypothesis Hia : InvA false s.
  Hypothesis Hca : cl_cancelled s = None.

  Lemma leaf_frame s0 o : cl_objs s0 = cl_objs s -> core s0 = core s -> quiet o -> Good cfg None s (s0, o).
  Proof. intros Ho Hc Hq. apply Good_frame; assumption. Qed.

  Lemma leaf_complete s0 g t r ic : cl_objs s0 = cl_objs s -> core s0 = core s -> cl_objs s !! g = Some t ->
    (forall T, close_bound cfg s g t T -> r = ROk \/ r = RNoRetries) ->
    Good cfg None s (complete cfg s0 g t r ic).
  Proof.
    intros Ho Hc Hg Hcl. assert (Hsi0 : SI s0) by (eapply SI_ext; eassumption). core_inj Hc.
    apply (complete_Good cfg s s0 g t t r ic Hcfg Hsi Hk Hia Hsi0); try congruence.
    - rewrite Ho. symmetry. apply insert_id, Hg.
    - intros g' _. apply tmr_ext, Etm.
    - intros D pr pub Hb. rewrite Enow. eapply obj_bound_now; eassumption.
    - intros T Hb. split; [reflexivity|]. split; [apply (Hcl T Hb)|]. rewrite Enow. eapply close_bound_now; eassumption.
  Qed.

  Lemma leaf_err s0 o : cl_objs s0 = cl_objs s -> core s0 = core s -> quiet o -> Good cfg None s (loop_err s0 o).
  Proof.
    intros Ho Hc Hq. assert (Hsi0 : SI s0) by (eapply SI_ext; eassumption). core_inj Hc. unfold loop_err.
    destruct (cancel_loop_facts s0 true false ltac:(congruence) Hsi0) as (_ & Csi & Co & Cca & Cex & Cwg & _).
    refine (Good_cancel cfg None s _ (cl_now s0) o Hsi Hk Csi Hca Cca _ _ _ _ _ _); try congruence.
    - unfold readTimeout. lia.
    - destruct Hq as [Hq _]. rewrite Hq. intros ? ? ? [].
    - apply Hq.
  Qed.

  (* a received QoS 2 PUBLISH is remembered *)
  Lemma leaf_bp_new s0 mid pub o b : cl_objs s0 = cl_objs s -> core s0 = core s -> quiet o ->
    let s1 := fst (c_new_obj s0 (CxBrokerPub2 mid pub)) <| cl_by_id := b |> in
    Good cfg None s (s1, o) /\ Good cfg None s (loop_err s1 o).
  Proof.
    intros Ho Hc Hq s1. assert (Hsi0 : SI s0) by (eapply SI_ext; eassumption). core_inj Hc.
    assert (Hfresh : cl_objs s !! cl_next_obj s0 = None).
    { rewrite Eno. destruct (cl_objs s !! cl_next_obj s) as [tx|] eqn:Ex; [|reflexivity]. pose proof (ia_lt false s Hia _ _ Ex). lia. }
    assert (Hsi1 : SI s1).
    { unfold s1, c_new_obj. cbn [fst]. eapply (SI_mono s0); try reflexivity; [cbn; lia|exact Hsi0]. }
    assert (G1 : Good cfg None s (s1, o)).
    { refine (Good_new cfg None s s1 (cl_next_obj s0) (CxBrokerPub2 mid pub) o Hsi1 _ _ _ Hfresh _ _ _ _ _).
      - unfold s1, c_new_obj. cbn. congruence.
      - unfold s1, c_new_obj. cbn. congruence.
      - unfold s1, c_new_obj. cbn. congruence.
      - unfold s1, c_new_obj. cbn. rewrite Ho. reflexivity.
      - intros g' _. unfold s1, c_new_obj. apply tmr_ext. cbn. exact Etm.
      - cbn. discriminate.
      - destruct Hq as [Hq _]. rewrite Hq. intros ? ? ? [].
      - apply Hq. }
    split; [exact G1|].
    assert (Hca1 : cl_cancelled s1 = None) by (unfold s1, c_new_obj; cbn; congruence).
    destruct (cancel_loop_facts s1 true false Hca1 Hsi1) as (_ & Csi & Co & Cca & Cex & Cwg & _).
    unfold loop_err. rewrite <- (app_nil_r o).
    apply (Good_seq cfg None s (s1, o) (c_cancel_from_loop s1 true, [])); [exact G1|]. cbn [fst].
    refine (Good_cancel cfg None s1 _ (cl_now s1) [] Hsi1 _ Csi Hca1 Cca _ Co Cex Cwg _ _).
    - unfold s1, c_new_obj. cbn [fst]. apply (K_frame _ (fst (c_new_obj s0 (CxBrokerPub2 mid pub)))); [reflexivity|reflexivity|].
      apply K_new_obj; [apply (K_frame _ s); [exact Ho|exact Ewg|exact Hk]|discriminate|discriminate].
    - unfold readTimeout. lia.
    - intros ? ? ? [].
    - reflexivity.
  Qed.

  (* an object of a received QoS 2 PUBLISH is replaced / dropped *)
  Lemma leaf_bp_set s0 g mid pub mid' pub' o : cl_objs s0 = cl_objs s -> core s0 = core s -> quiet o ->
    cl_objs s !! g = Some (CxBrokerPub2 mid pub) -> Good cfg None s (c_set_obj s0 g (CxBrokerPub2 mid' pub'), o).
  Proof.
    intros Ho Hc Hq Hg. assert (Hsi0 : SI s0) by (eapply SI_ext; eassumption). core_inj Hc.
    refine (Good_local cfg None s _ g (CxBrokerPub2 mid pub) g (CxBrokerPub2 mid' pub') o _ _ _ _ Hg _ _ eq_refl eq_refl _ _ _ Hq).
    - eapply SI_ext; [|exact Hsi0]. reflexivity.
    - exact Eca.
    - exact Eex.
    - exact Ewg.
    - unfold c_set_obj. cbn. rewrite Ho. symmetry. apply insert_delete_insert.
    - left. reflexivity.
    - intros g' _ _. apply tmr_ext. exact Etm.
    - intros _ D pr pub0 (tm & _ & []).
    - intros _ T Hb. destruct (close_bound_kind7 _ _ _ _ _ Hb) as (? & ? & ? & ? & ? & E). discriminate E.
  Qed.

  Lemma leaf_bp_finish s0 g mid pub o : cl_objs s0 = cl_objs s -> core s0 = core s -> quiet o ->
    cl_objs s !! g = Some (CxBrokerPub2 mid pub) -> Good cfg None s (c_finish_obj s0 g, o).
  Proof.
    intros Ho Hc Hq Hg. assert (Hsi0 : SI s0) by (eapply SI_ext; eassumption). core_inj Hc.
    assert (Hg0 : cl_objs s0 !! g = Some (CxBrokerPub2 mid pub)) by congruence.
    destruct (finish_facts s0 g _ Hg0) as (A & B & C & D & E & F & G & H & I & J).
    refine (Good_finish cfg s _ g (CxBrokerPub2 mid pub) (CxBrokerPub2 mid pub) ROk o (cl_now s) None Hsi Hk _ Hca _ _ _ Hg eq_refl _ _ _ _ _ _ _ _).
    - apply SI_finish, Hsi0.
    - congruence.
    - congruence.
    - congruence.
    - congruence.
    - intros _ g' Hn. rewrite tmr_finish_other by exact Hn. apply tmr_ext, Etm.
    - discriminate.
    - intros tm Hi _. apply (si_t1 s Hsi tm Hi).
    - intros D0 pr pub0 (tm & _ & []).
    - intros T Hb. destruct (close_bound_kind7 _ _ _ _ _ Hb) as (? & ? & ? & ? & ? & E'). discriminate E'.
    - apply Hq.
    - apply Hq.
  Qed.
End Leaves.

Ltac qt := repeat first [apply quiet_nil | assumption | apply quiet_dispatch | apply quiet_app].

Ltac hw :=
  repeat first
    [ match goal with H : c_get_id _ _ = Some (_, _) |- _ => apply c_get_id_Some in H; destruct H as [? ?] end
    | match goal with H : c_get_type _ _ = Some (_, _) |- _ => apply c_get_type_Some in H; destruct H as [? ?] end
    | match goal with |- context [c_send ?X ?p] =>
        let Hq := fresh "Hq" in pose proof (quiet_send X p) as Hq; destruct (c_send X p) as [? [|]]; cbn [fst] in Hq end
    | match goal with |- Good _ _ _ (match ?x with _ => _ end) => destruct x eqn:? end
    | match goal with |- Good _ _ _ (if ?x then _ else _) => destruct x eqn:? end
    | match goal with |- Good _ _ _ (let (_, _) := ?x in _) => destruct x eqn:? end
    | match goal with |- context [if ?c then (set ?f ?v ?X) else ?X] => destruct c end ].

Ltac no_close :=
  let T := fresh "T" in let Hb := fresh "Hb" in let E := fresh "E" in
  intros T Hb; destruct (close_bound_kind7 _ _ _ _ _ Hb) as (? & ? & ? & ? & ? & E); discriminate E.

Section HP.
  Variables (cfg : cl_cfg) (s : cl_state).
  Hypothesis Hcfg : wf_cl_cfg cfg.
  Hypothesis Hsi : SI s.
  Hypothesis Hk : K (fun _ => True) s.
  Hypothesis Hia : InvA false s.
  Hypothesis Hca : cl_cancelled s = None.

  Ltac leaf :=
    first
      [ apply (leaf_frame cfg s Hsi); [reflexivity|reflexivity|qt]
      | apply (leaf_err cfg s Hsi Hk Hca); [reflexivity|reflexivity|qt]
      | eapply (leaf_complete cfg s Hcfg Hsi Hk Hia Hca); [reflexivity|reflexivity|eassumption|first [no_close|intros; left; reflexivity]]
      | eapply (leaf_bp_set cfg s Hsi); [reflexivity|reflexivity|qt|eassumption]
      | eapply (leaf_bp_finish cfg s Hsi Hk Hca); [reflexivity|reflexivity|qt|eassumption] ].

  Definition simple_pkt (p : packet) : bool :=
    match p with Pubrec _ | Disconnect _ => false | _ => true end.

  Lemma handle_simple_Good p : simple_pkt p = true -> Good cfg None s (handle_packet cfg s p).
  Proof.
    intros Hp. unfold handle_packet. destruct p; try discriminate Hp; cbv zeta; try (hw; leaf).
    (* Publish *)
    destruct (qos =? 0); [hw; leaf|]. destruct (qos =? 1); [hw; leaf|]. destruct (qos =? 2); [|leaf].
    destruct (c_get_id s mid) as [[g t]|] eqn:Eg; [hw; leaf|].
    unfold c_new_obj. cbv beta iota zeta.
    match goal with |- context [c_send ?X ?q] =>
      pose proof (quiet_send X q) as Hq; destruct (c_send X q) as [o [|]]; cbn [fst] in Hq end.
    - exact (proj1 (leaf_bp_new cfg s Hsi Hk Hia Hca s mid _ o _ eq_refl eq_refl Hq)).
    - exact (proj2 (leaf_bp_new cfg s Hsi Hk Hia Hca s mid _ o _ eq_refl eq_refl Hq)).
  Qed.

  (* ---- DISCONNECT *)
  Lemma handle_disconnect_Good d :
    Good cfg None s (handle_packet cfg s (Disconnect d)) /\
    (cl_by_type s !! TY_DISCONNECT = None -> ExitB cfg (fst (handle_packet cfg s (Disconnect d))) (cl_now s + readTimeout)).
  Proof.
    unfold handle_packet. destruct (cl_by_type s !! TY_DISCONNECT) as [g|] eqn:Hslot.
    - split; [|discriminate]. destruct (cl_objs s !! g) as [t|] eqn:Hg; [|leaf].
      destruct t as [call att|call kind key st data n sub|call st n ms|mid pub']; try leaf.
      + hw; leaf.
      + destruct (negb (ct_state_eqb st CtAwaitDisconnect)) eqn:Est; [leaf|]. apply negb_false_iff, ct_state_eqb_eq in Est. subst st.
        cbv zeta.
        assert (Hlt : g < cl_next_obj s) by (eapply (ia_lt false s Hia), Hg).
        set (s' := c_arm (c_set_state (c_set_obj (c_disarm s g) g (CxSleep call CtSleeping n ms)) Asleep) (CtmSleepWake g) ms).
        assert (Htg : tmr s' g = [{| ctm_at := cl_now s + ms; ctm_seq := cl_next_seq s; ctm_kind := CtmSleepWake g |}]).
        { unfold s'. rewrite tmr_arm_same by reflexivity.
          rewrite (tmr_ext (c_disarm s g) (c_set_state (c_set_obj (c_disarm s g) g (CxSleep call CtSleeping n ms)) Asleep) g eq_refl), tmr_disarm_same. reflexivity. }
        refine (Good_local cfg None s s' g (CxSleep call CtAwaitDisconnect n ms) g (CxSleep call CtSleeping n ms) [] _ eq_refl eq_refl eq_refl Hg _ _ eq_refl eq_refl _ _ _ quiet_nil).
        * unfold s'. apply SI_arm; [|exact Hlt]. eapply SI_ext; [|apply (SI_disarm s g Hsi)]. reflexivity.
        * unfold s', c_arm, c_set_state, c_set_obj, c_disarm. cbn. symmetry. apply insert_delete_insert.
        * left. reflexivity.
        * intros g' Hn _. unfold s'. rewrite tmr_arm_other by (cbn; congruence).
          rewrite (tmr_ext (c_disarm s g) (c_set_state (c_set_obj (c_disarm s g) g (CxSleep call CtSleeping n ms)) Asleep) g' eq_refl). apply tmr_disarm_other, Hn.
        * intros _ D pr pub (tm & Htm & Hp & Hb). eexists. split; [exact Htg|]. split; [exact Hp|]. cbn [ctm_kind ctm_at].
          assert (Hin : In tm (cl_timers s) /\ ctimer_obj (ctm_kind tm) = g) by (apply (tmr_in s g tm); rewrite Htm; left; reflexivity).
          destruct Hin as [Hin Hobj]. pose proof (si_t1 s Hsi tm Hin) as Hnow.
          destruct (ctm_kind tm) as [g1|g1|g1|g1|g1] eqn:Ek; try contradiction.
          -- split; [reflexivity|]. unfold maxPingrespWait, readTimeout in *. lia.
          -- destruct Hb as [Hb _]. discriminate Hb.
          -- destruct Hb as [Hb _]. discriminate Hb.
        * intros _ T Hb. destruct (close_bound_kind7 _ _ _ _ _ Hb) as (? & ? & ? & ? & ? & E). discriminate E.
    - (* unsolicited *)
      assert (Hsi0 : SI (c_set_state s Disconnected)) by (eapply SI_ext; [|exact Hsi]; reflexivity).
      destruct (cancel_loop_facts (c_set_state s Disconnected) false false Hca Hsi0) as (_ & Csi & Co & Cca & Cex & Cwg & _).
      split.
      + refine (Good_cancel cfg None s _ (cl_now s) [] Hsi Hk Csi Hca Cca _ Co Cex Cwg _ _).
        * unfold readTimeout. lia.
        * intros ? ? ? [].
        * reflexivity.
      + intros _ _. cbn [fst]. rewrite Cca. cbn. lia.
  Qed.
End HP.

(* ------------------------------------------------------------------ PUBREC: progress of a QoS 2 publish *)
Definition upd_pubrec (s : cl_state) (mid : N) (p : pending) : pending :=
  match pub_exchange s (p_id p) with
  | Some (key, CtAwaitPubrec) =>
    if key =? mid then {| p_id := p_id p; p_deadline := p_deadline p; p_progress := cl_now s; p_over := p_over p; p_pub := p_pub p |} else p
  | _ => p
  end.

Definition set_pr (p : pending) (pr : N) : pending :=
  {| p_id := p_id p; p_deadline := p_deadline p; p_progress := pr; p_over := p_over p; p_pub := p_pub p |}.

Lemma upd_pubrec_cases s mid p : upd_pubrec s mid p = p \/ upd_pubrec s mid p = set_pr p (cl_now s).
Proof.
  unfold upd_pubrec. destruct (pub_exchange s (p_id p)) as [[key st]|]; [|left; reflexivity].
  destruct st; try (left; reflexivity). destruct (key =? mid); [right|left]; reflexivity.
Qed.

Lemma obj_bound_pr_mono cfg s g t D pr pr' pub : pr <= pr' -> obj_bound cfg s g t D pr pub -> obj_bound cfg s g t D pr' pub.
Proof.
  intros Hle (tm & Htm & Hb). exists tm. split; [exact Htm|].
  destruct t as [call att|call kind key st data n sub|call st n ms|mid pub']; try exact Hb.
  destruct Hb as (A & B & C & D'). repeat split; try assumption. lia.
Qed.

Lemma Backed_pr_mono cfg s p pr' : p_progress p <= pr' -> Backed cfg s p -> Backed cfg s (set_pr p pr').
Proof.
  intros Hle [H1 H2]. split; [exact H1|]. destruct (cl_cancelled s); [exact H2|].
  destruct H2 as (g & t & Hg & Hc & Hb). exists g, t. split; [exact Hg|]. split; [exact Hc|].
  cbn [set_pr p_deadline p_progress p_pub]. eapply obj_bound_pr_mono; eassumption.
Qed.

(* what a whole step establishes (ex: the id of the call being started) *)
Record GoodU (cfg : cl_cfg) (ex : option N) (upd : pending -> pending) (s : cl_state) (r : CR) : Prop := {
  gu_si : SI (fst r);
  gu_b : forall p, Backed cfg s p -> p_progress p <= cl_now s -> Some (p_id p) <> ex ->
           RetT p (snd r) /\ RetP cfg p (snd r) /\ (Backed cfg (fst r) (upd p) \/ returned (snd r) (p_id p) = true);
  gu_x : forall T, ExitB cfg s T -> ExitB cfg (fst r) T /\ (forall te, In te (c_exits (snd r)) -> te <= T);
  gu_e : cl_exited (fst r) = true -> cl_exited s = true \/ c_exits (snd r) <> [] }.

Lemma Good_GoodU cfg ex s r : Good cfg ex s r -> GoodU cfg ex (fun p => p) s r.
Proof.
  intros [G1 G2 G3 G4 G5]. split; [exact G1| |exact G4|exact G5].
  intros p Hb _ Hex. destruct (G2 p Hb Hex) as (A & B & [C|[C _]]); auto.
Qed.

Section Pubrec.
  Variables (cfg : cl_cfg) (s : cl_state).
  Hypothesis Hcfg : wf_cl_cfg cfg.
  Hypothesis Hsi : SI s.
  Hypothesis Hk : K (fun _ => True) s.
  Hypothesis Hia : InvA false s.
  Hypothesis Hca : cl_cancelled s = None.

  Lemma GoodU_idle mid : GoodU cfg None (upd_pubrec s mid) s (s, []).
  Proof.
    split; cbn [fst snd].
    - exact Hsi.
    - intros p Hb Hpr _. split; [apply RetT_nil|]. split; [apply RetP_nil|]. left.
      destruct (upd_pubrec_cases s mid p) as [->| ->]; [exact Hb|apply Backed_pr_mono; assumption].
    - intros T Hx. split; [exact Hx|intros te []].
    - intros He. left. exact He.
  Qed.

  Lemma pack_pubrel mid : len (pack (Pubrel mid)) <= MaxPacketLen.
  Proof. vm_compute. discriminate. Qed.

  Lemma handle_pubrec_GoodU mid :
    GoodU cfg None (upd_pubrec s mid) s (handle_packet cfg s (Pubrec mid)) /\
    cl_cancelled (fst (handle_packet cfg s (Pubrec mid))) = None.
  Proof.
    destruct (si_c2 s Hsi Hca) as (Hwg & Hex & Hcc).
    unfold handle_packet. destruct (c_get_id s mid) as [[g t]|] eqn:Eg; [|split; [apply GoodU_idle|exact Hca]].
    apply c_get_id_Some in Eg. destruct Eg as [Hslot Hg].
    destruct t as [call att|call kind key st data n sub|call st n ms|mid' pub']; try (split; [apply GoodU_idle|exact Hca]).
    destruct (N.eq_dec kind 4) as [->|Hk4].
    2:{ assert (E : forall (A : Type) (a b : A), match kind with 4 => a | _ => b end = b).
        { intros A a b. destruct kind as [|[[|[]|]|[[]|[]|]|]]; try reflexivity. contradiction Hk4. reflexivity. }
        rewrite E. split; [apply GoodU_idle|exact Hca]. }
    destruct (negb (ct_state_eqb st CtAwaitPubrec)) eqn:Est; [split; [apply GoodU_idle|exact Hca]|].
    apply negb_false_iff, ct_state_eqb_eq in Est. subst st. cbv zeta.
    destruct (ia_id false s Hia mid g Hslot) as (t1 & Ht1 & Hkey). rewrite Hg in Ht1. injection Ht1 as <-.
    cbn [id_key N.eqb Pos.eqb orb] in Hkey. injection Hkey as ->.
    set (t' := CxRetry call 4 mid CtAwaitPubcomp (Pubrel mid) 0 sub).
    set (s2 := c_arm (c_disarm (c_set_obj s g t') g) (CtmRetry g) (k_rdelay cfg)).
    rewrite (c_send_ok s2 (Pubrel mid) Hcc (pack_pubrel mid)). cbn [fst snd].
    split; [|exact Hca].
    assert (Hlt : g < cl_next_obj s) by (eapply (ia_lt false s Hia), Hg).
    assert (Htg : tmr s2 g = [{| ctm_at := cl_now s + k_rdelay cfg; ctm_seq := cl_next_seq s; ctm_kind := CtmRetry g |}]).
    { unfold s2. rewrite tmr_arm_same by reflexivity. rewrite tmr_disarm_same. reflexivity. }
    assert (Hto : forall g', g' <> g -> tmr s2 g' = tmr s g').
    { intros g' Hn. unfold s2. rewrite tmr_arm_other by (cbn; congruence). rewrite tmr_disarm_other by exact Hn. reflexivity. }
    assert (Ho2 : cl_objs s2 = <[g := t']> (cl_objs s)) by reflexivity.
    assert (Hl2 : forall g' tx, g' <> g -> cl_objs s !! g' = Some tx -> cl_objs s2 !! g' = Some tx).
    { intros g' tx Hn Hx. rewrite Ho2, lookup_insert_ne by congruence. exact Hx. }
    split; cbn [fst snd].
    - unfold s2. apply SI_arm; [|exact Hlt]. apply SI_disarm. eapply SI_ext; [|exact Hsi]. reflexivity.
    - intros p [Hb1 Hb2] Hpr _. split; [apply quiet_RetT; split; reflexivity|]. split; [apply quiet_RetP; split; reflexivity|]. left.
      rewrite Hca in Hb2. destruct Hb2 as (gp & tp & Hgp & Hcp & Hbp).
      split; [exact Hb1|]. change (cl_cancelled s2) with (cl_cancelled s). rewrite Hca.
      destruct (N.eq_dec gp g) as [->|Hn].
      + rewrite Hg in Hgp. injection Hgp as <-. cbn [call_of] in Hcp. injection Hcp as Hcp.
        assert (Hupd : upd_pubrec s mid p = set_pr p (cl_now s)).
        { unfold upd_pubrec. change (pub_exchange s (p_id p)) with
            (match mine_list s (p_id p) with (_, CxRetry _ _ key st _ _ _) :: _ => Some (key, st) | _ => None end).
          destruct (mine_list_cases s g _ (p_id p) Hk Hg ltac:(cbn; congruence)) as [E|E].
          - exfalso. assert (Hin : (g, CxRetry call 4 mid CtAwaitPubrec data n sub) ∈ mine_list s (p_id p)).
            { apply elem_of_lfilter. split; [apply elem_of_map_to_list, Hg|]. cbn. rewrite Hcp, N.eqb_refl. reflexivity. }
            rewrite E in Hin. inversion Hin.
          - rewrite E, N.eqb_refl. reflexivity. }
        rewrite Hupd. exists g, t'. split; [rewrite Ho2; apply lookup_insert|]. split; [cbn; congruence|].
        destruct Hbp as (tm & Htm & Hb). eexists. split; [exact Htg|]. cbn [ctm_kind ctm_at set_pr p_deadline p_progress p_pub t'].
        destruct Hb as (_ & Hp & _ & HD). cbn [N.eqb Pos.eqb andb ct_state_eqb] in HD.
        assert (Hin : In tm (cl_timers s)) by (apply (tmr_in s g tm); rewrite Htm; left; reflexivity).
        pose proof (si_t1 s Hsi tm Hin) as Hnow. pose proof (rest_0 cfg).
        split; [reflexivity|]. split; [intros _; reflexivity|]. cbn [N.eqb Pos.eqb andb ct_state_eqb]. split; lia.
      + assert (Hb' : Backed cfg s2 p).
        { split; [exact Hb1|]. change (cl_cancelled s2) with (cl_cancelled s). rewrite Hca. exists gp, tp.
          split; [apply Hl2; assumption|]. split; [exact Hcp|]. eapply obj_bound_tmr; [apply Hto, Hn|exact Hbp]. }
        destruct (upd_pubrec_cases s mid p) as [->| ->].
        * destruct Hb' as [_ Hb']. change (cl_cancelled s2) with (cl_cancelled s) in Hb'. rewrite Hca in Hb'. exact Hb'.
        * apply (Backed_pr_mono cfg s2 p (cl_now s) Hpr) in Hb'. destruct Hb' as [_ Hb'].
          change (cl_cancelled s2) with (cl_cancelled s) in Hb'. rewrite Hca in Hb'. exact Hb'.
    - intros T Hx. split; [|intros te []]. unfold ExitB in *. change (cl_cancelled s2) with (cl_cancelled s).
      change (cl_exited s2) with (cl_exited s). intros He. specialize (Hx He). rewrite Hca in *.
      destruct Hx as (gx & tx & Hgx & Hbx). destruct (N.eq_dec gx g) as [->|Hn].
      + rewrite Hg in Hgx. injection Hgx as <-. destruct (close_bound_kind7 _ _ _ _ _ Hbx) as (? & ? & ? & ? & ? & E). discriminate E.
      + exists gx, tx. split; [apply Hl2; assumption|]. eapply close_bound_tmr; [apply Hto, Hn|exact Hbx].
    - intros He. left. exact He.
  Qed.
End Pubrec.

(* ------------------------------------------------------------------ timers fire *)
Lemma c_min_timer_spec l tm : c_min_timer l = Some tm -> In tm l /\ forall u, In u l -> ctm_at tm <= ctm_at u.
Proof.
  revert tm. induction l as [|t l IH]; intros tm H; [discriminate|]. cbn [c_min_timer] in H.
  destruct (c_min_timer l) as [u0|] eqn:E.
  - destruct (IH u0 eq_refl) as [Hin Hmin]. destruct (c_earlier t u0) eqn:Ee; injection H as <-.
    + split; [left; reflexivity|]. intros u [<-|Hu]; [lia|]. specialize (Hmin u Hu). unfold c_earlier in Ee. lia.
    + split; [right; exact Hin|]. intros u [<-|Hu]; [|apply Hmin, Hu]. unfold c_earlier in Ee. lia.
  - injection H as <-. destruct l; [|cbn in E; destruct (c_min_timer l); [destruct (c_earlier _ _)|]; discriminate].
    split; [left; reflexivity|]. intros u [<-|[]]. lia.
Qed.

Lemma seq_unique l (tm u : ctimer) : List.NoDup (map ctm_seq l) -> In tm l -> In u l -> ctm_seq u = ctm_seq tm -> u = tm.
Proof.
  induction l as [|x l IH]; intros Hnd Ht Hu E; [destruct Ht|]. cbn [map] in Hnd. inversion Hnd as [|? ? Hx Hl]; subst.
  destruct Ht as [->|Ht]; destruct Hu as [->|Hu]; [reflexivity| | |apply IH; assumption].
  - exfalso. apply Hx. rewrite <- E. apply in_map, Hu.
  - exfalso. apply Hx. rewrite E. apply in_map, Ht.
Qed.

Lemma filter_filter_id {A} (f h : A -> bool) l : (forall u, In u l -> f u = true -> h u = true) ->
  List.filter f (List.filter h l) = List.filter f l.
Proof.
  induction l as [|x l IH]; intros H; [reflexivity|]. cbn [List.filter].
  destruct (h x) eqn:Eh.
  - cbn [List.filter]. destruct (f x); [f_equal|]; apply IH; intros u Hu; apply H; right; exact Hu.
  - destruct (f x) eqn:Ef; [rewrite (H x ltac:(left; reflexivity) Ef) in Eh; discriminate|]. apply IH. intros u Hu. apply H. right. exact Hu.
Qed.

Definition fire_pre (s : cl_state) (tm : ctimer) : cl_state :=
  s <| cl_now := ctm_at tm |> <| cl_timers := List.filter (fun u => negb (ctm_seq u =? ctm_seq tm)) (cl_timers s) |>.

Section FirePre.
  Variables (s : cl_state) (tm : ctimer).
  Hypothesis Hsi : SI s.
  Hypothesis Hin : In tm (cl_timers s).
  Hypothesis Hmin : forall u, In u (cl_timers s) -> ctm_at tm <= ctm_at u.
  Hypothesis Hbe : forall te, cl_cancelled s = Some te -> cl_exited s = false -> ctm_at tm < te.

  Lemma pre_SI : SI (fire_pre s tm).
  Proof.
    destruct Hsi as [H1 H2 H3 H4 H5 H6 H7]. unfold fire_pre. split; cbn.
    - intros u Hu. apply filter_In in Hu. apply Hmin, Hu.
    - intros u Hu. apply filter_In in Hu. apply H2, Hu.
    - apply NoDup_map_filter, H3.
    - intros u Hu. apply filter_In in Hu. apply H4, Hu.
    - specialize (H1 tm Hin). lia.
    - intros te Hc He. specialize (Hbe te Hc He). lia.
    - exact H7.
  Qed.

  Lemma pre_tmr_other g' : g' <> ctimer_obj (ctm_kind tm) -> tmr (fire_pre s tm) g' = tmr s g'.
  Proof.
    intros Hn. unfold tmr, fire_pre. cbn. apply filter_filter_id. intros u Hu Hf. apply N.eqb_eq in Hf.
    apply negb_true_iff, N.eqb_neq. intros E. apply Hn. rewrite <- Hf. f_equal. f_equal.
    eapply seq_unique; [apply (si_t3 s Hsi)|exact Hin|exact Hu|exact E].
  Qed.

  Lemma pre_tmr_same g : tmr s g = [tm] -> tmr (fire_pre s tm) g = [].
  Proof.
    intros Ht. unfold tmr, fire_pre. cbn.
    destruct (List.filter _ (List.filter _ (cl_timers s))) as [|u l] eqn:E; [reflexivity|exfalso].
    assert (Hu : In u (List.filter (fun tm0 => ctimer_obj (ctm_kind tm0) =? g) (List.filter (fun u => negb (ctm_seq u =? ctm_seq tm)) (cl_timers s))))
      by (rewrite E; left; reflexivity).
    apply filter_In in Hu. destruct Hu as [Hu Hg]. apply filter_In in Hu. destruct Hu as [Hu Hs].
    assert (Hut : In u (tmr s g)) by (apply filter_In; auto). rewrite Ht in Hut. destruct Hut as [<-|[]].
    rewrite N.eqb_refl in Hs. discriminate.
  Qed.
End FirePre.

(* the timer of a backed object *)
Lemma obj_bound_inv cfg s g t D pr pub tm : obj_bound cfg s g t D pr pub -> In tm (cl_timers s) -> ctimer_obj (ctm_kind tm) = g ->
  tmr s g = [tm] /\ obj_bound cfg s g t D pr pub.
Proof.
  intros Hb Hi Hg. split; [|exact Hb]. destruct Hb as (tm' & Htm & _).
  assert (H : In tm (tmr s g)) by (apply tmr_in; auto). rewrite Htm in H. destruct H as [->|[]]. exact Htm.
Qed.

(* only object g may have lost timers, and it was not backed *)
Lemma Good_untouched cfg s s0 g o :
  SI s0 -> cl_cancelled s0 = cl_cancelled s -> cl_exited s0 = cl_exited s -> cl_waiting_group s0 = cl_waiting_group s ->
  cl_objs s0 = cl_objs s -> (forall g', g' <> g -> tmr s0 g' = tmr s g') ->
  (cl_cancelled s = None -> forall t D pr pub, cl_objs s !! g = Some t -> obj_bound cfg s g t D pr pub -> False) ->
  (cl_cancelled s = None -> forall t T, cl_objs s !! g = Some t -> close_bound cfg s g t T -> False) ->
  quiet o -> Good cfg None s (s0, o).
Proof.
  intros Hsi0 Eca Eex Ewg Ho Htmr Hnb Hnc Hq.
  assert (Hhc : forall c, HasCall s c <-> HasCall s0 c).
  { intros c. unfold HasCall, has_obj, in_wg. rewrite Ho, Eex, Ewg. reflexivity. }
  split; cbn [fst snd].
  - exact Hsi0.
  - intros p Hb _. split; [apply quiet_RetT, Hq|]. split; [apply quiet_RetP, Hq|]. left.
    revert Hb. unfold Backed, has_obj, in_wg. rewrite Ho, Eex, Ewg, Eca.
    intros [H1 H2]. split; [exact H1|]. destruct (cl_cancelled s) eqn:Ec; [exact H2|].
    destruct H2 as (gp & t & Hg & Hcl & Hb). exists gp, t. split; [exact Hg|]. split; [exact Hcl|].
    destruct (N.eq_dec gp g) as [->|Hn]; [exfalso; eapply (Hnb eq_refl); eassumption|].
    eapply obj_bound_tmr; [apply Htmr, Hn|exact Hb].
  - intros c Hn _. split; [apply quiet_NoRet, Hq|]. intros H. apply Hn, Hhc, H.
  - intros T Hx. split; [|destruct Hq as [_ Hq]; rewrite Hq; intros te []].
    unfold ExitB in *. rewrite Ho, Eex, Eca. intros He. specialize (Hx He). destruct (cl_cancelled s) eqn:Ec; [exact Hx|].
    destruct Hx as (gx & t & Hg & Hb). exists gx, t. split; [exact Hg|].
    destruct (N.eq_dec gx g) as [->|Hn]; [exfalso; eapply (Hnc eq_refl); eassumption|].
    eapply close_bound_tmr; [apply Htmr, Hn|exact Hb].
  - intros He. left. congruence.
Qed.

Section Fire.
  Variables (cfg : cl_cfg) (s : cl_state) (tm : ctimer).
  Hypothesis Hcfg : wf_cl_cfg cfg.
  Hypothesis Hsi : SI s.
  Hypothesis Hk : K (fun _ => True) s.
  Hypothesis Hia : InvA false s.
  Hypothesis Hin : In tm (cl_timers s).
  Hypothesis Hmin : forall u, In u (cl_timers s) -> ctm_at tm <= ctm_at u.
  Hypothesis Hbe : forall te, cl_cancelled s = Some te -> cl_exited s = false -> ctm_at tm < te.

  Let s0 := fire_pre s tm.
  Let g := ctimer_obj (ctm_kind tm).

  Lemma f_si0 : SI s0. Proof. apply pre_SI; assumption. Qed.
  Lemma f_to g' : g' <> g -> tmr s0 g' = tmr s g'. Proof. apply pre_tmr_other; assumption. Qed.

  Lemma f_backed_tm t D pr pub : obj_bound cfg s g t D pr pub -> tmr s g = [tm].
  Proof. intros Hb. eapply (obj_bound_inv cfg s g t D pr pub tm); [exact Hb|exact Hin|reflexivity]. Qed.
  Lemma f_close_tm t T : close_bound cfg s g t T -> tmr s g = [tm].
  Proof.
    intros (call & key & st & n & sub & tm' & _ & Htm & _).
    assert (H : In tm (tmr s g)) by (apply tmr_in; auto). rewrite Htm in H. destruct H as [->|[]]. exact Htm.
  Qed.

  Lemma fire_idle s1 :
    cl_objs s1 = cl_objs s0 -> core s1 = core s0 ->
    (cl_cancelled s = None -> forall t D pr pub, cl_objs s !! g = Some t -> obj_bound cfg s g t D pr pub -> False) ->
    (cl_cancelled s = None -> forall t T, cl_objs s !! g = Some t -> close_bound cfg s g t T -> False) ->
    Good cfg None s (s1, []).
  Proof.
    intros Ho Hc Hnb Hnc. assert (Hc' := Hc). core_inj Hc'.
    apply (Good_untouched cfg s s1 g []); try assumption; try congruence.
    - eapply SI_ext; [exact Hc|apply f_si0].
    - intros g' Hn. rewrite (tmr_ext s0 s1 g' Etm). apply f_to, Hn.
    - apply quiet_nil.
  Qed.

  Lemma fire_complete s1 t t1 r :
    cl_objs s !! g = Some t -> cl_objs s1 = <[g := t1]> (cl_objs s) -> core s1 = core s0 ->
    call_of t1 = call_of t -> dcall t1 = dcall t ->
    (forall now D pr pub, Vt cfg t now D pr pub -> Vt cfg t1 now D pr pub) ->
    (cl_cancelled s = None -> forall T, close_bound cfg s g t T -> t1 = t /\ (r = ROk \/ r = RNoRetries)) ->
    Good cfg None s (complete cfg s1 g t1 r false).
  Proof.
    intros Hg Ho Hc Hcall Hdc Hvt Hcl. assert (Hc' := Hc). core_inj Hc'.
    assert (Hsi1 : SI s1) by (eapply SI_ext; [exact Hc|apply f_si0]).
    destruct (cl_cancelled s) as [te|] eqn:Hca.
    - apply (complete_Good_c cfg s s1 g t t1 r false te Hsi1 Hca); try assumption; congruence.
    - apply (complete_Good cfg s s1 g t t1 r false Hcfg Hsi Hk Hia Hsi1); try assumption; try congruence.
      + intros g' Hn. rewrite (tmr_ext s0 s1 g' Etm). apply f_to, Hn.
      + intros D pr pub Hb. apply Hvt. pose proof (f_backed_tm _ _ _ _ Hb) as Htm.
        destruct (obj_bound_Vt _ _ _ _ _ _ _ Hb) as (tm' & Htm' & Hv). rewrite Htm in Htm'. injection Htm' as <-.
        apply Hv. rewrite Enow. cbn. lia.
      + intros T Hb. destruct (Hcl eq_refl T Hb) as [E1 E2]. split; [exact E1|]. split; [exact E2|].
        pose proof (f_close_tm _ _ Hb) as Htm. destruct Hb as (call & key & st & n & sub & tm' & _ & Htm' & _ & Hb).
        rewrite Htm in Htm'. injection Htm' as <-. rewrite Enow. cbn. lia.
  Qed.

  Lemma fire_rearm s1 t t1 k d o :
    cl_objs s !! g = Some t -> cl_objs s1 = <[g := t1]> (cl_objs s) -> core s1 = core s0 ->
    call_of t1 = call_of t -> dcall t1 = dcall t -> ctimer_obj k = g -> quiet o ->
    (cl_cancelled s = None -> forall D pr pub s'', obj_bound cfg s g t D pr pub ->
       tmr s'' g = [{| ctm_at := ctm_at tm + d; ctm_seq := cl_next_seq s; ctm_kind := k |}] -> obj_bound cfg s'' g t1 D pr pub) ->
    (cl_cancelled s = None -> forall T s'', close_bound cfg s g t T ->
       tmr s'' g = [{| ctm_at := ctm_at tm + d; ctm_seq := cl_next_seq s; ctm_kind := k |}] -> close_bound cfg s'' g t1 T) ->
    Good cfg None s (c_arm s1 k d, o).
  Proof.
    intros Hg Ho Hc Hcall Hdc Hk' Hq Hob Hcb. assert (Hc' := Hc). core_inj Hc'.
    assert (Hsi1 : SI s1) by (eapply SI_ext; [exact Hc|apply f_si0]).
    assert (Hlt : g < cl_next_obj s) by (eapply (ia_lt false s Hia), Hg).
    assert (Htg : forall t' D pr pub, obj_bound cfg s g t' D pr pub \/ (exists T, close_bound cfg s g t' T) ->
              tmr (c_arm s1 k d) g = [{| ctm_at := ctm_at tm + d; ctm_seq := cl_next_seq s; ctm_kind := k |}]).
    { intros t' D pr pub Hb. rewrite tmr_arm_same by exact Hk'. rewrite (tmr_ext s0 s1 g Etm).
      assert (Htm : tmr s g = [tm]) by (destruct Hb as [Hb|[T Hb]]; [eapply f_backed_tm, Hb|eapply f_close_tm, Hb]).
      unfold s0. rewrite (pre_tmr_same s tm g Htm). rewrite Enow, Esq. reflexivity. }
    refine (Good_local cfg None s (c_arm s1 k d) g t g t1 o _ _ _ _ Hg _ _ Hcall Hdc _ _ _ Hq).
    - apply SI_arm; [exact Hsi1|]. rewrite Hk', Eno. exact Hlt.
    - cbn. exact Eca.
    - cbn. exact Eex.
    - cbn. exact Ewg.
    - cbn. rewrite Ho. symmetry. apply insert_delete_insert.
    - left. reflexivity.
    - intros g' Hn _. rewrite tmr_arm_other by congruence. rewrite (tmr_ext s0 s1 g' Etm). apply f_to, Hn.
    - intros Hca D pr pub Hb. eapply Hob; [exact Hca|exact Hb|]. eapply Htg. left. exact Hb.
    - intros Hca T Hb. eapply Hcb; [exact Hca|exact Hb|]. eapply (Htg t 0 0 false). right. exists T. exact Hb.
  Qed.
End Fire.

Lemma Vt_retry cfg call kind key st data n sub st' data' n' now D pr pub :
  Vt cfg (CxRetry call kind key st data n sub) now D pr pub -> Vt cfg (CxRetry call kind key st' data' n' sub) now D pr pub.
Proof. intros H. exact H. Qed.
Lemma Vt_sleep cfg call st n ms st' n' now D pr pub :
  Vt cfg (CxSleep call st n ms) now D pr pub -> Vt cfg (CxSleep call st' n' ms) now D pr pub.
Proof. intros H. exact H. Qed.

Section FireMain.
  Variables (cfg : cl_cfg) (s : cl_state) (tm : ctimer).
  Hypothesis Hcfg : wf_cl_cfg cfg.
  Hypothesis Hsi : SI s.
  Hypothesis Hk : K (fun _ => True) s.
  Hypothesis Hia : InvA false s.
  Hypothesis Hin : In tm (cl_timers s).
  Hypothesis Hmin : forall u, In u (cl_timers s) -> ctm_at tm <= ctm_at u.
  Hypothesis Hbe : forall te, cl_cancelled s = Some te -> cl_exited s = false -> ctm_at tm < te.

  (* the fired timer does not belong to the transaction stored under its object *)
  Ltac mism Ek Fbt Fct Hg :=
    first
      [ let t := fresh "t" in let Hgx := fresh "Hgx" in let tm' := fresh "tm'" in let Htm' := fresh "Htm'" in let Hb := fresh "Hb" in
        let Hb' := fresh "Hb'" in
        intros _ t D pr pub Hgx Hb;
        pose proof (Fbt _ _ _ _ Hb) as Htm';
        destruct Hb as (tm' & Hb & Hb'); rewrite Htm' in Hb; injection Hb as <-; rewrite Ek in Hb';
        rewrite Hg in Hgx; first [discriminate Hgx | injection Hgx as <-];
        cbn in Hb'; try contradiction; try (destruct Hb' as [E _]; discriminate E); try (destruct Hb' as [_ []])
      | let t := fresh "t" in let Hgx := fresh "Hgx" in let Hb := fresh "Hb" in let Htm' := fresh "Htm'" in let Hb' := fresh "Hb'" in
        intros _ t T Hgx Hb; pose proof (Fct _ _ Hb) as Htm';
        destruct Hb as (? & ? & ? & ? & ? & tm' & -> & Hb & Hb' & _); rewrite Htm' in Hb; injection Hb as <-; rewrite Ek in Hb';
        rewrite Hg in Hgx; try discriminate Hgx;
        try discriminate Hb' ].

  Lemma fire_Good : Good cfg None s (c_fire cfg (fire_pre s tm) (ctm_kind tm)).
  Proof.
    unfold c_fire. destruct (ctm_kind tm) as [g|g|g|g|g] eqn:Ek;
      change (cl_objs (fire_pre s tm) !! g) with (cl_objs s !! g);
      destruct (cl_objs s !! g) as [t|] eqn:Hg.
    all: pose proof (fire_idle cfg s tm Hsi Hin Hmin Hbe) as Fidle;
      pose proof (fire_complete cfg s tm Hcfg Hsi Hk Hia Hin Hmin Hbe) as Fcpl;
      pose proof (fire_rearm cfg s tm Hsi Hia Hin Hmin Hbe) as Frearm;
      pose proof (f_backed_tm cfg s tm Hin) as Fbt; pose proof (f_close_tm cfg s tm Hin) as Fct;
      rewrite Ek in Fidle, Fcpl, Frearm, Fbt, Fct; cbn [ctimer_obj] in Fidle, Fcpl, Frearm, Fbt, Fct.
    all: try (apply Fidle; [reflexivity|reflexivity|solve [mism Ek Fbt Fct Hg]|solve [mism Ek Fbt Fct Hg]]).
    all: destruct t as [call att|call kind key st data n sub|call st n ms|mid pub']; try (apply Fidle; [reflexivity|reflexivity|solve [mism Ek Fbt Fct Hg]|solve [mism Ek Fbt Fct Hg]]).
    - (* connect timeout *)
      apply (Fcpl _ _ _ RTimeout Hg); try reflexivity.
      + cbn. symmetry. apply insert_id, Hg.
      + auto.
      + intros _ T Hb. destruct (close_bound_kind7 _ _ _ _ _ Hb) as (? & ? & ? & ? & ? & E). discriminate E.
    - (* retry timer *)
      destruct (k_rcount cfg <? n + 1) eqn:En.
      { apply (Fcpl _ _ _ RNoRetries Hg); try reflexivity; [cbn; symmetry; apply insert_id, Hg|auto|]. intros _ T _. auto. }
      apply N.ltb_ge in En. cbv zeta.
      set (data' := if (kind =? 1) || (kind =? 3) || (kind =? 4) then c_set_dup data else data).
      set (t1 := CxRetry call kind key st data' (n + 1) sub).
      match goal with |- context [c_send ?X ?p] => pose proof (quiet_send X p) as Hq; pose proof (c_send_ok X p) as Hok;
        destruct (c_send X p) as [o [|]]; cbn [fst] in Hq end.
      + apply (Frearm (c_set_obj (fire_pre s tm) g t1) _ t1 _ _ _ Hg); try reflexivity; [exact Hq| |].
        * intros _ D pr pub s'' Hb Htm''.
          pose proof (Fbt _ _ _ _ Hb) as Htm'.
          destruct Hb as (tm' & Hb & Hb'). rewrite Htm' in Hb. injection Hb as <-.
          eexists. split; [exact Htm''|]. cbn [ctm_kind ctm_at]. destruct Hb' as (_ & A & B & C).
          rewrite (rest_step cfg n En) in B, C. repeat split; try assumption; lia.
        * intros _ T s'' Hb Htm''.
          pose proof (Fct _ _ Hb) as Htm'.
          destruct Hb as (c0 & k0 & st0 & n0 & sub0 & tm' & E & Hb & _ & C). rewrite Htm' in Hb. injection Hb as <-.
          injection E as -> -> -> -> -> -> ->. exists c0, k0, st0, (n0 + 1), sub0. eexists. split; [reflexivity|].
          split; [exact Htm''|]. cbn [ctm_kind ctm_at]. split; [reflexivity|]. rewrite (rest_step cfg n0 En) in C. lia.
      + apply (Fcpl (c_set_obj (fire_pre s tm) g t1) _ t1 RInvalid Hg); try reflexivity.
        * intros now D pr pub Hv. exact Hv.
        * intros Hca T Hb. exfalso. destruct (close_bound_kind7 _ _ _ _ _ Hb) as (c0 & k0 & st0 & n0 & sub0 & E).
          injection E as -> -> -> -> -> -> ->. unfold data' in Hok. cbn [N.eqb Pos.eqb orb] in Hok.
          specialize (Hok (proj2 (proj2 (si_c2 s Hsi Hca))) pack_disc0). discriminate Hok.
    - (* sleep: resend DISCONNECT *)
      destruct (k_rcount cfg <? n + 1) eqn:En.
      { apply (Fcpl _ _ _ RNoRetries Hg); try reflexivity; [cbn; symmetry; apply insert_id, Hg|auto|].
        intros _ T Hb. destruct (close_bound_kind7 _ _ _ _ _ Hb) as (? & ? & ? & ? & ? & E). discriminate E. }
      apply N.ltb_ge in En. cbv zeta. set (t1 := CxSleep call st (n + 1) ms).
      match goal with |- context [c_send ?X ?p] => pose proof (quiet_send X p) as Hq; destruct (c_send X p) as [o [|]]; cbn [fst] in Hq end.
      + apply (Frearm (c_set_obj (fire_pre s tm) g t1) _ t1 _ _ _ Hg); try reflexivity; [exact Hq| |].
        * intros _ D pr pub s'' Hb Htm''.
          pose proof (Fbt _ _ _ _ Hb) as Htm'.
          destruct Hb as (tm' & Hb & Hb'). rewrite Htm' in Hb. injection Hb as <-. rewrite Ek in Hb'.
          eexists. split; [exact Htm''|]. cbn [ctm_kind ctm_at]. destruct Hb' as (A & B).
          rewrite (rest_step cfg n En) in B. split; [exact A|lia].
        * intros _ T s'' Hb. destruct (close_bound_kind7 _ _ _ _ _ Hb) as (? & ? & ? & ? & ? & E). discriminate E.
      + apply (Fcpl (c_set_obj (fire_pre s tm) g t1) _ t1 RInvalid Hg); try reflexivity.
        * intros now D pr pub Hv. exact Hv.
        * intros _ T Hb. destruct (close_bound_kind7 _ _ _ _ _ Hb) as (? & ? & ? & ? & ? & E). discriminate E.
    - (* sleep: wake up *)
      cbv zeta. set (t1 := CxSleep call CtAwaitPingresp n ms).
      match goal with |- context [c_send ?X ?p] => pose proof (quiet_send X p) as Hq; destruct (c_send X p) as [o [|]]; cbn [fst] in Hq end.
      + apply (Frearm (c_set_obj (c_set_state (fire_pre s tm) Awake) g t1) _ t1 _ _ _ Hg); try reflexivity; [exact Hq| |].
        * intros _ D pr pub s'' Hb Htm''.
          pose proof (Fbt _ _ _ _ Hb) as Htm'.
          destruct Hb as (tm' & Hb & Hb'). rewrite Htm' in Hb. injection Hb as <-. rewrite Ek in Hb'.
          eexists. split; [exact Htm''|]. cbn [ctm_kind ctm_at]. destruct Hb' as (A & _ & B).
          split; [exact A|]. split; [reflexivity|]. unfold maxPingrespWait in *. lia.
        * intros _ T s'' Hb. destruct (close_bound_kind7 _ _ _ _ _ Hb) as (? & ? & ? & ? & ? & E). discriminate E.
      + apply (Fcpl (c_set_obj (c_set_state (fire_pre s tm) Awake) g t1) _ t1 RInvalid Hg); try reflexivity.
        * intros now D pr pub Hv. exact Hv.
        * intros _ T Hb. destruct (close_bound_kind7 _ _ _ _ _ Hb) as (? & ? & ? & ? & ? & E). discriminate E.
    - (* sleep: no PINGRESP *)
      apply (Fcpl _ _ _ RTimeout Hg); try reflexivity; [cbn; symmetry; apply insert_id, Hg|auto|].
      intros _ T Hb. destruct (close_bound_kind7 _ _ _ _ _ Hb) as (? & ? & ? & ? & ? & E). discriminate E.
  Qed.
End FireMain.

(* ------------------------------------------------------------------ the clock *)
Ltac now_walk :=
  repeat first
    [ progress cbn [fst snd loop_err]
    | reflexivity
    | match goal with |- context [c_send ?X ?p] => destruct (c_send X p) as [? [|]] end
    | match goal with |- cl_now (fst (match ?x with _ => _ end)) = _ => destruct x end
    | match goal with |- cl_now (fst (if ?x then _ else _)) = _ => destruct x end
    | match goal with |- cl_now (fst (let (_, _) := ?x in _)) = _ => destruct x end
    | match goal with |- cl_now (match ?x with _ => _ end) = _ => destruct x end
    | match goal with |- cl_now (if ?x then _ else _) = _ => destruct x end ].

Lemma finish_now s g : cl_now (c_finish_obj s g) = cl_now s.
Proof. unfold c_finish_obj. now_walk. Qed.
Lemma connect_attempt_now cfg s call n : cl_now (fst (connect_attempt cfg s call n)) = cl_now s.
Proof. unfold connect_attempt, c_new_obj. cbv zeta. now_walk. Qed.
Lemma cancel_api_now s : cl_now (c_cancel_from_api s) = cl_now s.
Proof. unfold c_cancel_from_api. now_walk. Qed.
Lemma cancel_loop_now s e : cl_now (c_cancel_from_loop s e) = cl_now s.
Proof. unfold c_cancel_from_loop. now_walk. Qed.

Lemma complete_now cfg s g t r ic : cl_now (fst (complete cfg s g t r ic)) = cl_now s.
Proof.
  unfold complete. cbv zeta. rewrite <- (finish_now s g). generalize (c_finish_obj s g). intros s1.
  destruct (cl_cancelled s1); [now_walk|].
  destruct t; try (cbn [fst]; reflexivity).
  - destruct r; try (cbn [fst]; reflexivity). destruct (_ <=? _); [apply connect_attempt_now|reflexivity].
  - destruct (_ =? 6); [destruct r; cbn [fst]; try reflexivity; apply cancel_api_now|].
    destruct (_ =? 7); [destruct r; cbn [fst]; try reflexivity; apply (cancel_loop_now s1 true)|]. reflexivity.
Qed.

Lemma start_retry_now cfg s call kind key st p bt : cl_now (fst (fst (fst (start_retry cfg s call kind key st p bt)))) = cl_now s.
Proof. unfold start_retry, c_new_obj. cbv zeta. destruct bt; destruct (c_send _ _); reflexivity. Qed.

Ltac now_walk2 :=
  repeat first
    [ progress cbn [fst snd loop_err]
    | reflexivity
    | rewrite complete_now
    | rewrite connect_attempt_now
    | rewrite finish_now
    | exact (cancel_loop_now _ _)
    | rewrite cancel_loop_now
    | match goal with |- context [start_retry ?a ?b ?c ?d ?e ?f ?g ?h] =>
        let H := fresh "H" in pose proof (start_retry_now a b c d e f g h) as H; destruct (start_retry a b c d e f g h) as [[[? ?] ?] [|]]; cbn [fst] in H end
    | match goal with |- context [c_send ?X ?p] => destruct (c_send X p) as [? [|]] end
    | match goal with |- cl_now (fst (match ?x with _ => _ end)) = _ => destruct x end
    | match goal with |- cl_now (fst (if ?x then _ else _)) = _ => destruct x end
    | match goal with |- cl_now (fst (let (_, _) := ?x in _)) = _ => destruct x end
    | match goal with |- context [if ?c then (set ?f ?v ?X) else ?X] => destruct c end
    | assumption ].

Lemma c_fire_now cfg s k : cl_now (fst (c_fire cfg s k)) = cl_now s.
Proof. unfold c_fire. destruct k; cbv zeta; now_walk2. Qed.

Lemma handle_packet_now cfg s p : cl_now (fst (handle_packet cfg s p)) = cl_now s.
Proof. unfold handle_packet, c_new_obj. destruct p; cbv zeta; now_walk2. Qed.

Lemma do_call_now cfg s id a : cl_now (fst (do_call cfg s id a)) = cl_now s.
Proof. unfold do_call, call_simple, do_publish, c_next_mid, c_new_obj. destruct a; cbv zeta; now_walk2. Qed.

(* ------------------------------------------------------------------ the timer loop *)
Lemma Good_refl cfg s : SI s -> Good cfg None s (s, []).
Proof. intros H. apply Good_frame; [reflexivity|reflexivity|apply quiet_nil|exact H]. Qed.

Lemma Good_seq' cfg s s1 o1 s2 o2 : Good cfg None s (s1, o1) -> Good cfg None s1 (s2, o2) -> Good cfg None s (s2, o1 ++ o2).
Proof. intros A B. exact (Good_seq cfg None s (s1, o1) (s2, o2) A B). Qed.

Lemma run_timers_Good cfg t (Hcfg : wf_cl_cfg cfg) : forall fuel s, SI s -> K (fun _ => True) s -> InvA false s -> cl_now s <= t ->
  Good cfg None s (c_run_timers fuel cfg s t) /\ cl_now (fst (c_run_timers fuel cfg s t)) <= t.
Proof.
  induction fuel as [|fuel IH]; intros s Hsi Hk Hia Hnow; cbn [c_run_timers]; [split; [apply Good_refl, Hsi|exact Hnow]|].
  cbv zeta.
  assert (Hexit : forall te, (if cl_exited s then None else cl_cancelled s) = Some te -> te <= t ->
            (forall tm, In tm (cl_timers s) -> te <= ctm_at tm) ->
            Good cfg None s (c_exit s te) /\ SI (fst (c_exit s te)) /\ K (fun _ => True) (fst (c_exit s te)) /\
            InvA false (fst (c_exit s te)) /\ cl_now (fst (c_exit s te)) <= t).
  { intros te Hx Hle Htm. destruct (cl_exited s) eqn:Hex; [discriminate|].
    pose proof (exit_Good cfg s te Hsi Hx Hex Htm) as G. split; [exact G|]. split; [apply (gd_si _ _ _ _ G)|].
    split; [apply c_exit_K, Hk|]. split; [apply c_exit_invA, Hia|]. cbn. exact Hle. }
  destruct (c_min_timer (cl_timers s)) as [tm|] eqn:Emin.
  - destruct (c_min_timer_spec _ _ Emin) as [Hin Hmin].
    destruct ((ctm_at tm <=? t) && match (if cl_exited s then None else cl_cancelled s) with Some te => ctm_at tm <? te | None => true end) eqn:Edue.
    + apply andb_true_iff in Edue. destruct Edue as [Ed Eb]. apply N.leb_le in Ed.
      assert (Hbe : forall te, cl_cancelled s = Some te -> cl_exited s = false -> ctm_at tm < te).
      { intros te Hc He. rewrite He, Hc in Eb. apply N.ltb_lt, Eb. }
      pose proof (fire_Good cfg s tm Hcfg Hsi Hk Hia Hin Hmin Hbe) as G1.
      change (s <| cl_now := ctm_at tm |> <| cl_timers := List.filter (fun u => negb (ctm_seq u =? ctm_seq tm)) (cl_timers s) |>)
        with (fire_pre s tm).
      pose proof (c_fire_now cfg (fire_pre s tm) (ctm_kind tm)) as Hn1.
      assert (Hk1 : K (fun _ => True) (fst (c_fire cfg (fire_pre s tm) (ctm_kind tm)))).
      { apply c_fire_K. apply (K_frame _ s); [reflexivity|reflexivity|exact Hk]. }
      assert (Hia1 : InvA false (fst (c_fire cfg (fire_pre s tm) (ctm_kind tm)))).
      { apply c_fire_invA. apply (invA_frame false s); [reflexivity|reflexivity|reflexivity|exact Hia]. }
      destruct (c_fire cfg (fire_pre s tm) (ctm_kind tm)) as [s1 o1]. cbn [fst] in *.
      destruct (IH s1 (gd_si _ _ _ _ G1) Hk1 Hia1 ltac:(rewrite Hn1; cbn; exact Ed)) as [G2 Hn2].
      destruct (c_run_timers fuel cfg s1 t) as [s2 o2]. cbn [fst] in *. split; [|exact Hn2].
      eapply Good_seq'; eassumption.
    + destruct (if cl_exited s then None else cl_cancelled s) as [te|] eqn:Ex; [|split; [apply Good_refl, Hsi|exact Hnow]].
      destruct (te <=? t) eqn:Ele; [|split; [apply Good_refl, Hsi|exact Hnow]]. apply N.leb_le in Ele.
      destruct (Hexit te eq_refl Ele) as (G1 & Hsi1 & Hk1 & Hia1 & Hn1).
      { intros u Hu. specialize (Hmin u Hu). apply andb_false_iff in Edue. destruct Edue as [E|E].
        - apply N.leb_gt in E. lia.
        - apply N.ltb_ge in E. lia. }
      destruct (c_exit s te) as [s1 o1]. cbn [fst] in *.
      destruct (IH s1 Hsi1 Hk1 Hia1 Hn1) as [G2 Hn2].
      destruct (c_run_timers fuel cfg s1 t) as [s2 o2]. cbn [fst] in *. split; [|exact Hn2].
      eapply Good_seq'; eassumption.
  - destruct (if cl_exited s then None else cl_cancelled s) as [te|] eqn:Ex; [|split; [apply Good_refl, Hsi|exact Hnow]].
    destruct (te <=? t) eqn:Ele; [|split; [apply Good_refl, Hsi|exact Hnow]]. apply N.leb_le in Ele.
    destruct (Hexit te eq_refl Ele) as (G1 & Hsi1 & Hk1 & Hia1 & Hn1).
    { intros u Hu. destruct (cl_timers s); [destruct Hu|]. cbn in Emin. destruct (c_min_timer l); [destruct (c_earlier _ _)|]; discriminate. }
    split; [exact G1|exact Hn1].
Qed.

(* ------------------------------------------------------------------ cl_exited is set by c_exit only *)
Lemma finish_ex s g : cl_exited (c_finish_obj s g) = cl_exited s.
Proof. destruct (cl_objs s !! g) as [t|] eqn:E; [apply (finish_facts s g t E)|rewrite c_finish_obj_none by exact E; reflexivity]. Qed.
Lemma connect_attempt_ex cfg s call n : cl_exited (fst (connect_attempt cfg s call n)) = cl_exited s.
Proof. unfold connect_attempt, c_new_obj. cbv zeta. repeat match goal with |- context [c_send ?X ?p] => destruct (c_send X p) as [? [|]] end; try destruct (_ =? 0); reflexivity. Qed.
Lemma cancel_api_ex s : cl_exited (c_cancel_from_api s) = cl_exited s.
Proof. unfold c_cancel_from_api. destruct (cl_cancelled s); reflexivity. Qed.
Lemma cancel_loop_ex s e : cl_exited (c_cancel_from_loop s e) = cl_exited s.
Proof. unfold c_cancel_from_loop. destruct (cl_cancelled s); reflexivity. Qed.
Lemma complete_ex cfg s g t r ic : cl_exited (fst (complete cfg s g t r ic)) = cl_exited s.
Proof.
  unfold complete. cbv zeta. rewrite <- (finish_ex s g). generalize (c_finish_obj s g). intros s1.
  destruct (cl_cancelled s1); [cbn [fst]; destruct (cl_exited s1) eqn:E; [exact E|cbn; exact E]|].
  destruct t; try (cbn [fst]; reflexivity).
  - destruct r; try (cbn [fst]; reflexivity). destruct (_ <=? _); [apply connect_attempt_ex|reflexivity].
  - destruct (_ =? 6); [destruct r; cbn [fst]; try reflexivity; apply cancel_api_ex|].
    destruct (_ =? 7); [destruct r; cbn [fst]; try reflexivity; apply (cancel_loop_ex s1 true)|]. reflexivity.
Qed.
Lemma start_retry_ex cfg s call kind key st p bt : cl_exited (fst (fst (fst (start_retry cfg s call kind key st p bt)))) = cl_exited s.
Proof. unfold start_retry, c_new_obj. cbv zeta. destruct bt; destruct (c_send _ _); reflexivity. Qed.

Ltac ex_walk :=
  repeat first
    [ progress cbn [fst snd loop_err]
    | reflexivity
    | rewrite complete_ex
    | rewrite connect_attempt_ex
    | rewrite finish_ex
    | exact (cancel_loop_ex _ _)
    | rewrite cancel_loop_ex
    | match goal with |- context [start_retry ?a ?b ?c ?d ?e ?f ?g ?h] =>
        let H := fresh "H" in pose proof (start_retry_ex a b c d e f g h) as H; destruct (start_retry a b c d e f g h) as [[[? ?] ?] [|]]; cbn [fst] in H end
    | match goal with |- context [c_send ?X ?p] => destruct (c_send X p) as [? [|]] end
    | match goal with |- cl_exited (fst (match ?x with _ => _ end)) = _ => destruct x end
    | match goal with |- cl_exited (fst (if ?x then _ else _)) = _ => destruct x end
    | match goal with |- cl_exited (fst (let (_, _) := ?x in _)) = _ => destruct x end
    | match goal with |- context [if ?c then (set ?f ?v ?X) else ?X] => destruct c end
    | assumption ].

Lemma handle_packet_ex cfg s p : cl_exited (fst (handle_packet cfg s p)) = cl_exited s.
Proof. unfold handle_packet, c_new_obj. destruct p; cbv zeta; ex_walk. Qed.
Lemma do_call_ex cfg s id a : cl_exited (fst (do_call cfg s id a)) = cl_exited s.
Proof. unfold do_call, call_simple, do_publish, c_next_mid, c_new_obj. destruct a; cbv zeta; ex_walk. Qed.

Lemma Good_lr cfg ex s x r : Good cfg ex (s <| cl_last_read := x |>) r -> Good cfg ex s r.
Proof. intros [G1 G2 G3 G4 G5]. split; [exact G1|exact G2|exact G3|exact G4|exact G5]. Qed.
Lemma GoodU_lr cfg ex upd s x r : GoodU cfg ex upd (s <| cl_last_read := x |>) r -> GoodU cfg ex upd s r.
Proof. intros [G1 G2 G3 G4]. split; [exact G1|exact G2|exact G3|exact G4]. Qed.
Lemma Good_set_now cfg ex s s' o t : Good cfg ex s (s', o) -> SI (s' <| cl_now := t |>) -> Good cfg ex s (s' <| cl_now := t |>, o).
Proof. intros [G1 G2 G3 G4 G5] Hsi. split; [exact Hsi|exact G2|exact G3|exact G4|exact G5]. Qed.
Lemma SI_set_lr s : SI s -> SI (s <| cl_last_read := cl_now s |>).
Proof. intros [H1 H2 H3 H4 H5 H6 H7]. split; cbn; try assumption. lia. Qed.
