(* Client/ClTypes.v — state, events and outputs of the client library (client/*.go). *)
From stdpp Require Import base option list numbers fin_maps nmap.
From Verif.Base Require Import Bytes.
From Verif.Codec Require Import Packets.
From Verif.Topics Require Import Predefined.
From Verif.Gateway Require Import GwTypes.
From Verif.Match Require Import Match.
Open Scope N_scope.

Record cl_cfg := {
  k_cid : bytes;
  k_user : bytes;                 (* "" = no user *)
  k_pass : bytes;
  k_keepalive : N;                (* seconds; 0 = keep-alive loop disabled *)
  k_ctimeout : N;                 (* ConnectTimeout, ms *)
  k_rdelay : N;                   (* RetryDelay, ms *)
  k_rcount : N;                   (* RetryCount *)
  k_clean : bool;
  k_will : bytes;                 (* WillTopic, "" = none *)
  k_wmsg : bytes; k_wqos : N; k_wretain : bool;
  k_predef : predef }.

(* what an API call reports *)
Inductive cres := ROk | RTimeout | RNoRetries | RRejected | RNotRegistered | RState | RInvalid | RCancelled | ROther.

Inductive api :=
| AConnect
| ARegister (topic : bytes)
| ASubscribe (topic : bytes) (qos : N)
| ASubPre (tid qos : N)
| APublish (topic : bytes) (qos : N) (retain : bool) (payload : bytes)
| APubPre (tid qos : N) (retain : bool) (payload : bytes)
| AUnsub (topic : bytes)
| AUnsubPre (tid : N)
| APing
| ASleep (ms : N)
| ADisconnect
| AClose.

Inductive cl_event :=
| CCall (id : N) (a : api)
| CGw (dg : bytes)
| CAdv (d : N).

Inductive cl_out :=
| CoSn (t : N) (dg : bytes)
| CoRet (t : N) (id : N) (r : cres)
| CoCb (t : N) (sub : N) (topic payload : bytes) (qos : N) (retain dup : bool) (mid : N)
| CoExit (t : N).

(* steps of the client transactions (client/transaction.go) *)
Inductive ct_state := CtNone | CtAwaitPuback | CtAwaitPubrec | CtAwaitPubcomp | CtAwaitDisconnect | CtAwaitPingresp
                  | CtSleeping.   (* sleepTransaction: asleep, waiting for the wake-up timer *)
Definition ct_state_eqb (a b : ct_state) : bool :=
  match a, b with
  | CtNone, CtNone | CtAwaitPuback, CtAwaitPuback | CtAwaitPubrec, CtAwaitPubrec
  | CtAwaitPubcomp, CtAwaitPubcomp | CtAwaitDisconnect, CtAwaitDisconnect | CtAwaitPingresp, CtAwaitPingresp
  | CtSleeping, CtSleeping => true
  | _, _ => false
  end.

(* transaction objects of the client; every one remembers which API call waits for it *)
Inductive ctxn :=
| CxConnect (call : N) (attempt : N)                    (* TimedTransaction, ConnectTimeout *)
| CxRetry (call : N) (kind : N) (key : N) (st : ct_state) (data : packet) (retry_num : N) (sub : N)
      (* RetryTransaction: kind 0 register, 1 subscribe, 2 unsubscribe, 3 publish QoS1, 4 publish QoS2,
         5 ping, 6 disconnect; key = message ID or packet type of its store slot; data = packet a retry
         re-sends; sub = the call id that owns the subscription callback *)
| CxSleep (call : N) (st : ct_state) (resend_num : N) (ms : N)   (* sleepTransaction *)
| CxBrokerPub2 (mid : N) (pub : packet).                 (* received QoS 2 PUBLISH awaiting PUBREL *)

Inductive ctimer_kind :=
| CtmConnect (obj : N)       (* TimedTransaction: ConnectTimeout *)
| CtmRetry (obj : N)         (* RetryTransaction *)
| CtmSleepResend (obj : N)   (* resendDisconnect *)
| CtmSleepWake (obj : N)     (* wakeup after the sleep duration *)
| CtmSleepPingresp (obj : N). (* maxPingrespWait = 1 minute *)

Record ctimer := { ctm_at : N; ctm_seq : N; ctm_kind : ctimer_kind }.

Record cl_state := {
  cl_st : cstate;
  cl_registered : list (bytes * N);    (* registeredTopics: name -> topic ID (assoc, unique keys) *)
  cl_handlers : table;                 (* messageHandlers *)
  cl_objs : Nmap ctxn;
  cl_by_id : Nmap N;                   (* transactions by message ID *)
  cl_by_type : Nmap N;                 (* transactions by packet type (CONNECT 4, PINGREQ 22, DISCONNECT 24) *)
  cl_next_obj : N;
  cl_next_mid : N;                     (* util.IDSequence over 1..65535 *)
  cl_timers : list ctimer;
  cl_next_seq : N;
  cl_now : N;
  cl_last_read : N;                    (* when the receive loop last began a Read (1 s poll) *)
  cl_cancelled : option N;             (* group context cancelled; the receive loop exits at this time *)
  cl_exited : bool;
  cl_group_err : bool;                 (* a group goroutine returned an error *)
  cl_waiting_group : list N;           (* API calls blocked in c.group.Wait() *)
  cl_conn_closed : bool                (* Close() closed the connection: writes fail *)
}.

Definition cl_init : cl_state := {|
  cl_st := Disconnected; cl_registered := []; cl_handlers := [];
  cl_objs := ∅; cl_by_id := ∅; cl_by_type := ∅; cl_next_obj := 0; cl_next_mid := 1;
  cl_timers := []; cl_next_seq := 0; cl_now := 0; cl_last_read := 0;
  cl_cancelled := None; cl_exited := false; cl_group_err := false; cl_waiting_group := [];
  cl_conn_closed := false |}.
