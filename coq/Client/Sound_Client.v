(* Client/Sound_Client.v — the client model's own outputs are accepted by the per-step checkers
   of Checkers/ChkCl.v (C23 client side, C27, C17, C31 client side). *)
From stdpp Require Import base option list numbers fin_maps nmap.
From Coq Require Import Lia ZArith ZifyN ZifyNat ZifyBool.
From RecordUpdate Require Import RecordSet.
From Verif.Base Require Import Bytes BytesProofs.
From Verif.Codec Require Import Packets Decode Encode EncodeProofs.
From Verif.Topics Require Import Predefined.
From Verif.Gateway Require Import GwTypes.
From Verif.Match Require Import Match MatchProofs.
From Verif.Client Require Import ClTypes ClStep Sound_Client_aux.
From Verif.Checkers Require Import ChkCodec ChkGw ChkCl.
Import RecordSetNotations.
Open Scope N_scope.
Ltac Zify.zify_post_hook ::= Z.div_mod_to_equations.

Definition wf_cl_cfg (cfg : cl_cfg) : Prop :=
  wf_bytes (k_cid cfg) /\ 0 < len (k_cid cfg) /\ len (k_cid cfg) <= 7168 /\
  wf_bytes (k_user cfg) /\ wf_bytes (k_pass cfg) /\ len (k_user cfg) + len (k_pass cfg) <= 7000 /\
  wf_bytes (k_will cfg) /\ len (k_will cfg) <= 7168 /\ wf_bytes (k_wmsg cfg) /\ k_wqos cfg < 4 /\
  0 < k_rdelay cfg /\ 0 < k_ctimeout cfg.
Definition wf_api (a : api) : Prop :=   (* what a Go caller can pass: byte strings, uint16 topic IDs, uint8 QoS *)
  match a with
  | ARegister t | AUnsub t => wf_bytes t
  | ASubscribe t q => wf_bytes t /\ q < 256
  | ASubPre tid q => tid < 65536 /\ q < 256
  | APublish t q _ p => wf_bytes t /\ q < 256 /\ wf_bytes p
  | APubPre tid q _ p => tid < 65536 /\ q < 256 /\ wf_bytes p
  | AUnsubPre tid => tid < 65536
  | _ => True
  end.
Definition wf_cl_event (ev : cl_event) : Prop :=
  match ev with
  | CCall _ a => wf_api a
  | CGw dg => wf_bytes dg /\ (length dg <= N.to_nat MaxPacketLen)%nat
  | CAdv _ => True
  end.
Inductive cl_reach (cfg : cl_cfg) : cl_state -> Prop :=
| cl_reach_init : cl_reach cfg cl_init
| cl_reach_step s ev : cl_reach cfg s -> wf_cl_event ev -> cl_reach cfg (fst (cl_step cfg s ev)).

(* ------------------------------------------------------------------ projections of output lists *)

Lemma c_sns_app a b : c_sns (a ++ b) = c_sns a ++ c_sns b.
Proof. unfold c_sns. apply bind_app. Qed.
Lemma c_pkts_app a b : c_pkts (a ++ b) = c_pkts a ++ c_pkts b.
Proof. unfold c_pkts. rewrite c_sns_app. apply bind_app. Qed.
Lemma c_rets_app a b : c_rets (a ++ b) = c_rets a ++ c_rets b.
Proof. unfold c_rets. apply bind_app. Qed.
Lemma c_cbs_app a b : c_cbs (a ++ b) = c_cbs a ++ c_cbs b.
Proof. unfold c_cbs. apply bind_app. Qed.

Definition dec_list (dg : bytes) : list packet := match read_dgram dg with Ok p => [p] | _ => [] end.

Lemma c_pkts_sn t dg os : c_pkts (CoSn t dg :: os) = dec_list dg ++ c_pkts os.
Proof. change (CoSn t dg :: os) with ([CoSn t dg] ++ os). rewrite c_pkts_app. f_equal.
  unfold c_pkts, c_sns. cbn. rewrite app_nil_r. reflexivity. Qed.

Definition is_sn (o : cl_out) : bool := match o with CoSn _ _ => true | _ => false end.

Lemma c_pkts_other o os : is_sn o = false -> c_pkts (o :: os) = c_pkts os.
Proof. destruct o; try discriminate; reflexivity. Qed.
Lemma c_sns_other o os : is_sn o = false -> c_sns (o :: os) = c_sns os.
Proof. destruct o; try discriminate; reflexivity. Qed.

(* ------------------------------------------------------------------ shape of the datagrams written in one step *)

(* Every datagram is the encoding of a packet that passed the size check; CONNECT is
   followed by AUTH exactly when a user is configured, and AUTH appears nowhere else. *)
Inductive Outs (cfg : cl_cfg) (Q : packet -> Prop) : list cl_out -> Prop :=
| Outs_nil : Outs cfg Q []
| Outs_sn t p os : csend p -> Q p -> len (pack p) <= MaxPacketLen -> Outs cfg Q os -> Outs cfg Q (CoSn t (pack p) :: os)
| Outs_conn t os : len (k_user cfg) = 0 -> Outs cfg Q os -> Outs cfg Q (CoSn t (pack (connect_pkt cfg)) :: os)
| Outs_conn_auth t t' os : len (k_user cfg) <> 0 -> Outs cfg Q os ->
    Outs cfg Q (CoSn t (pack (connect_pkt cfg)) :: CoSn t' (pack (auth_pkt cfg)) :: os)
| Outs_other o os : is_sn o = false -> Outs cfg Q os -> Outs cfg Q (o :: os).

Lemma Outs_app cfg Q a b : Outs cfg Q a -> Outs cfg Q b -> Outs cfg Q (a ++ b).
Proof. intros Ha Hb. induction Ha; cbn [app]; try (constructor; assumption). exact Hb. Qed.

Lemma Outs_mono cfg (Q Q' : packet -> Prop) os : (forall p, Q p -> Q' p) -> Outs cfg Q os -> Outs cfg Q' os.
Proof. intros HQ H. induction H; constructor; auto. Qed.

Lemma Outs_nosn cfg Q os : forallb (fun o => negb (is_sn o)) os = true -> Outs cfg Q os.
Proof.
  induction os as [|o os IH]; cbn [forallb]; intros H; [constructor|].
  apply andb_true_iff in H. destruct H as [H1 H2]. apply negb_true_iff in H1.
  apply Outs_other; [exact H1|apply IH, H2].
Qed.

(* CONNECT and AUTH are well-formed packets *)
Lemma wf_connect_pkt cfg : wf_cl_cfg cfg -> wf_pkt (connect_pkt cfg) = true.
Proof.
  intros (Hc & Hc0 & Hcl & _). unfold connect_pkt. cbn [wf_pkt].
  unfold lt16, okb1, okb, MaxPayloadLength, u16.
  apply wf_bytesb_spec in Hc. rewrite Hc. cbn [andb N.eqb Pos.eqb].
  repeat (apply andb_true_iff; split); lia.
Qed.

Lemma wf_auth_pkt cfg : wf_cl_cfg cfg -> wf_pkt (auth_pkt cfg) = true.
Proof.
  intros (_ & _ & _ & Hu & Hp & Hl & _). unfold auth_pkt. cbn [wf_pkt].
  unfold lt8, okb, MaxPayloadLength.
  assert (Hw : wf_bytesb ([0] ++ k_user cfg ++ [0] ++ k_pass cfg) = true).
  { apply wf_bytesb_spec. apply wf_bytes_cons; [lia|]. apply wf_bytes_app; [exact Hu|].
    apply wf_bytes_cons; [lia|exact Hp]. }
  rewrite Hw. cbn [app] in *. rewrite len_cons, len_app, len_cons.
  repeat (apply andb_true_iff; split); try reflexivity. lia.
Qed.

Lemma csend_to_gw p : csend p -> client_to_gw (ptype p) = true.
Proof. destruct p; cbn [csend]; intros H; try contradiction; reflexivity. Qed.

Lemma dgram_ok_wf p : wf_pkt p = true -> client_to_gw (ptype p) = true -> dgram_ok client_to_gw (pack p) = [].
Proof.
  intros Hwf Hd. unfold dgram_ok.
  rewrite (read_pack_roundtrip p Hwf), Hd, (pack_announced_len p Hwf), N.eqb_refl.
  pose proof (pack_size p Hwf) as Hs. apply N.leb_le in Hs. rewrite Hs. reflexivity.
Qed.

Lemma dgram_ok_csend p : csend p -> namedb p = true -> len (pack p) <= MaxPacketLen ->
  dgram_ok client_to_gw (pack p) = [].
Proof.
  intros Hc Hn Hsz. unfold dgram_ok.
  rewrite (read_csend p Hc Hsz). unfold dec_res. rewrite Hn.
  rewrite ptype_norm, (csend_to_gw p Hc), (announced_csend p Hc Hsz), N.eqb_refl.
  apply N.leb_le in Hsz. rewrite Hsz. reflexivity.
Qed.

Lemma chk_C23c_cons_sn t dg os : chk_C23c (CoSn t dg :: os) = dgram_ok client_to_gw dg ++ chk_C23c os.
Proof. reflexivity. Qed.
Lemma chk_C23c_cons_other o os : is_sn o = false -> chk_C23c (o :: os) = chk_C23c os.
Proof. destruct o; try discriminate; reflexivity. Qed.

Lemma Outs_C23c cfg os : wf_cl_cfg cfg -> Outs cfg (fun p => namedb p = true) os -> chk_C23c os = [].
Proof.
  intros Hcfg H. induction H as [|t p os Hc Hn Hsz _ IH|t os Hu _ IH|t t' os Hu _ IH|o os Ho _ IH].
  - reflexivity.
  - rewrite chk_C23c_cons_sn, IH, (dgram_ok_csend p Hc Hn Hsz). reflexivity.
  - rewrite chk_C23c_cons_sn, IH, dgram_ok_wf; [reflexivity|apply wf_connect_pkt, Hcfg|reflexivity].
  - rewrite !chk_C23c_cons_sn, IH, !dgram_ok_wf;
      [reflexivity|apply wf_auth_pkt, Hcfg|reflexivity|apply wf_connect_pkt, Hcfg|reflexivity].
  - rewrite chk_C23c_cons_other by exact Ho. exact IH.
Qed.

(* ---- C31c *)
Definition is_auth (p : packet) : bool := match p with Auth _ _ _ => true | _ => false end.
Definition is_conn_auth (p : packet) : bool := match p with Auth _ _ _ | Connect _ _ _ _ _ => true | _ => false end.

Lemma csend_norm_nca p : csend p -> is_conn_auth (norm p) = false.
Proof.
  destruct p; cbn [csend norm]; intros H; try contradiction; try reflexivity.
  - destruct topic; reflexivity.
  - destruct (tit =? 0); reflexivity.
  - destruct (tit =? 0); reflexivity.
Qed.

Lemma dec_list_csend p : csend p -> len (pack p) <= MaxPacketLen ->
  dec_list (pack p) = if namedb p then [norm p] else [].
Proof. intros Hc Hsz. unfold dec_list. rewrite (read_csend p Hc Hsz). unfold dec_res. destruct (namedb p); reflexivity. Qed.

Lemma dec_list_wf p : wf_pkt p = true -> dec_list (pack p) = [p].
Proof. intros H. unfold dec_list. rewrite (read_pack_roundtrip p H). reflexivity. Qed.

Definition auth_ok (cfg : cl_cfg) (ps : list packet) : Prop :=
  if len (k_user cfg) =? 0 then existsb is_auth ps = false else connect_then_auth cfg ps = true.

Lemma cta_skip cfg p ps : is_conn_auth p = false -> connect_then_auth cfg (p :: ps) = connect_then_auth cfg ps.
Proof. destruct p; cbn [is_conn_auth]; intros H; try discriminate; reflexivity. Qed.

Lemma Outs_auth_ok cfg Q os : wf_cl_cfg cfg -> Outs cfg Q os -> auth_ok cfg (c_pkts os).
Proof.
  intros Hcfg H. unfold auth_ok.
  induction H as [|t p os Hc Hn Hsz _ IH|t os Hu _ IH|t t' os Hu _ IH|o os Ho _ IH].
  - destruct (len (k_user cfg) =? 0); reflexivity.
  - rewrite c_pkts_sn, (dec_list_csend p Hc Hsz).
    destruct (namedb p); cbn [app]; [|exact IH].
    pose proof (csend_norm_nca p Hc) as Hn'.
    destruct (len (k_user cfg) =? 0).
    + cbn [existsb]. rewrite IH. destruct (norm p); try discriminate; reflexivity.
    + rewrite cta_skip by exact Hn'. exact IH.
  - rewrite c_pkts_sn, (dec_list_wf _ (wf_connect_pkt cfg Hcfg)). cbn [app].
    apply N.eqb_eq in Hu. rewrite Hu in *. cbn [existsb]. rewrite IH. reflexivity.
  - rewrite !c_pkts_sn, (dec_list_wf _ (wf_connect_pkt cfg Hcfg)), (dec_list_wf _ (wf_auth_pkt cfg Hcfg)).
    cbn [app]. apply N.eqb_neq in Hu. rewrite Hu in *.
    unfold connect_pkt at 1, auth_pkt at 1. cbn [connect_then_auth]. rewrite !beq_refl. exact IH.
  - rewrite c_pkts_other by exact Ho. exact IH.
Qed.

Lemma Outs_C31c cfg Q os : wf_cl_cfg cfg -> Outs cfg Q os -> chk_C31c cfg os = [].
Proof.
  intros Hcfg H. pose proof (Outs_auth_ok cfg Q os Hcfg H) as Ha. unfold auth_ok in Ha. unfold chk_C31c.
  destruct (len (k_user cfg) =? 0).
  - fold is_auth. change (existsb (fun p => match p with Auth _ _ _ => true | _ => false end)) with (existsb is_auth).
    rewrite Ha. reflexivity.
  - rewrite Ha. reflexivity.
Qed.

(* ---- C17, clause 2 *)
Definition dupQ (p : packet) : Prop :=
  match p with Publish dup _ _ _ _ _ _ | Subscribe dup _ _ _ _ _ => dup = true | _ => True end.
Definition dupf (p : packet) : list N :=
  match p with
  | Publish dup _ _ _ _ _ _ => if dup then [] else [2]
  | Subscribe dup _ _ _ _ _ => if dup then [] else [2]
  | _ => []
  end.

Lemma dupQ_norm p : dupQ p -> dupf (norm p) = [].
Proof.
  destruct p; cbn [dupQ norm dupf]; intros H; try reflexivity.
  - destruct topic; reflexivity.
  - subst. reflexivity.
  - subst. destruct (tit =? 0); reflexivity.
  - destruct (tit =? 0); reflexivity.
Qed.

Lemma Outs_dup cfg os : wf_cl_cfg cfg -> Outs cfg dupQ os -> c_pkts os ≫= dupf = [].
Proof.
  intros Hcfg H. induction H as [|t p os Hc Hn Hsz _ IH|t os Hu _ IH|t t' os Hu _ IH|o os Ho _ IH].
  - reflexivity.
  - rewrite c_pkts_sn, (dec_list_csend p Hc Hsz), bind_app, IH.
    destruct (namedb p); [|reflexivity]. cbn. rewrite (dupQ_norm p Hn). reflexivity.
  - rewrite c_pkts_sn, (dec_list_wf _ (wf_connect_pkt cfg Hcfg)), bind_app, IH. reflexivity.
  - rewrite !c_pkts_sn, (dec_list_wf _ (wf_connect_pkt cfg Hcfg)), (dec_list_wf _ (wf_auth_pkt cfg Hcfg)), !bind_app, IH.
    reflexivity.
  - rewrite c_pkts_other by exact Ho. exact IH.
Qed.
