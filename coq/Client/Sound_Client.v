(* Client/Sound_Client.v — the client model's own outputs are accepted by the per-step checkers
   of Checkers/ChkCl.v (C23 client side, C27, C17, C31 client side).

   Per step (s reachable from cl_init by well-formed events, os = snd (cl_step cfg s ev)):
     chk_C27_sound     chk_C27 cfg s ev os = []                 (no hypothesis at all)
     chk_C31c_sound    wf_cl_cfg cfg -> cl_reach cfg s -> chk_C31c cfg os = []
     chk_C23c_sound    wf_cl_cfg cfg -> cl_reach cfg s -> wf_cl_event ev -> chk_C23c os = []
                       (Register / Subscribe / Unsubscribe refuse an empty topic name, so every
                        stored retry packet carries a non-empty one: cl_reach_st_named)
     chk_C17_partial   ... -> calls_uniq s -> cl_fresh s ev = true -> chk_C17 cfg s ev os = []
                       (chk_C17_sound is false: re-used call ids, see below; chk_C17_clauses12:
                        without the extra hypotheses only clause 3 of the checker can fail)
   Histories: chk_C27_history, chk_C31c_history, chk_C23c_history, chk_C17_history (cl_run_all).
   The observations the checkers take are the model outputs themselves (list cl_out): ChkCl.v
   projects them with c_sns / c_pkts / c_rets / c_cbs, so no conversion function is needed.

   wf_cl_cfg restricts the configuration beyond "Go values": a non-empty client ID of at most
   7168 bytes (an empty one is rejected by the decoder: chk_C23c = [1] for CONNECT), a will topic
   of at most 7168 bytes, and len user + len pass <= 7000 (with a longer one AUTH exceeds the
   maximal packet length and is not written after CONNECT: chk_C31c = [2]). *)
From stdpp Require Import base option list numbers fin_maps nmap.
From Coq Require Import Lia ZArith ZifyN ZifyNat ZifyBool.
From RecordUpdate Require Import RecordSet.
From Verif.Base Require Import Bytes BytesProofs.
From Verif.Codec Require Import Packets Decode Encode EncodeProofs.
From Verif.Topics Require Import Predefined.
From Verif.Gateway Require Import GwTypes.
From Verif.Match Require Import Match MatchProofs.
From Verif.Client Require Import ClTypes ClStep Sound_Client_aux.
From Verif.Checkers Require Import ChkCodec ChkGw ChkCl.
Import RecordSetNotations.
Open Scope N_scope.
Ltac Zify.zify_post_hook ::= Z.div_mod_to_equations.

Definition wf_cl_cfg (cfg : cl_cfg) : Prop :=
  wf_bytes (k_cid cfg) /\ 0 < len (k_cid cfg) /\ len (k_cid cfg) <= 7168 /\
  wf_bytes (k_user cfg) /\ wf_bytes (k_pass cfg) /\ len (k_user cfg) + len (k_pass cfg) <= 7000 /\
  wf_bytes (k_will cfg) /\ len (k_will cfg) <= 7168 /\ wf_bytes (k_wmsg cfg) /\ k_wqos cfg < 4 /\
  0 < k_rdelay cfg /\ 0 < k_ctimeout cfg.
Definition wf_api (a : api) : Prop :=   (* what a Go caller can pass: byte strings, uint16 topic IDs, uint8 QoS *)
  match a with
  | ARegister t | AUnsub t => wf_bytes t
  | ASubscribe t q => wf_bytes t /\ q < 256
  | ASubPre tid q => tid < 65536 /\ q < 256
  | APublish t q _ p => wf_bytes t /\ q < 256 /\ wf_bytes p
  | APubPre tid q _ p => tid < 65536 /\ q < 256 /\ wf_bytes p
  | AUnsubPre tid => tid < 65536
  | _ => True
  end.
Definition wf_cl_event (ev : cl_event) : Prop :=
  match ev with
  | CCall _ a => wf_api a
  | CGw dg => wf_bytes dg /\ (length dg <= N.to_nat MaxPacketLen)%nat
  | CAdv _ => True
  end.
Inductive cl_reach (cfg : cl_cfg) : cl_state -> Prop :=
| cl_reach_init : cl_reach cfg cl_init
| cl_reach_step s ev : cl_reach cfg s -> wf_cl_event ev -> cl_reach cfg (fst (cl_step cfg s ev)).

(* ------------------------------------------------------------------ projections of output lists *)

Lemma c_sns_app a b : c_sns (a ++ b) = c_sns a ++ c_sns b.
Proof. unfold c_sns. apply bind_app. Qed.
Lemma c_pkts_app a b : c_pkts (a ++ b) = c_pkts a ++ c_pkts b.
Proof. unfold c_pkts. rewrite c_sns_app. apply bind_app. Qed.
Lemma c_rets_app a b : c_rets (a ++ b) = c_rets a ++ c_rets b.
Proof. unfold c_rets. apply bind_app. Qed.
Lemma c_cbs_app a b : c_cbs (a ++ b) = c_cbs a ++ c_cbs b.
Proof. unfold c_cbs. apply bind_app. Qed.

Definition dec_list (dg : bytes) : list packet := match read_dgram dg with Ok p => [p] | _ => [] end.

Lemma c_pkts_sn t dg os : c_pkts (CoSn t dg :: os) = dec_list dg ++ c_pkts os.
Proof. change (CoSn t dg :: os) with ([CoSn t dg] ++ os). rewrite c_pkts_app. f_equal.
  unfold c_pkts, c_sns. cbn. rewrite app_nil_r. reflexivity. Qed.

Definition is_sn (o : cl_out) : bool := match o with CoSn _ _ => true | _ => false end.

Lemma c_pkts_other o os : is_sn o = false -> c_pkts (o :: os) = c_pkts os.
Proof. destruct o; try discriminate; reflexivity. Qed.
Lemma c_sns_other o os : is_sn o = false -> c_sns (o :: os) = c_sns os.
Proof. destruct o; try discriminate; reflexivity. Qed.

(* ------------------------------------------------------------------ shape of the datagrams written in one step *)

(* Every datagram is the encoding of a packet that passed the size check; CONNECT is
   followed by AUTH exactly when a user is configured, and AUTH appears nowhere else. *)
Inductive Outs (cfg : cl_cfg) (Q : packet -> Prop) : list cl_out -> Prop :=
| Outs_nil : Outs cfg Q []
| Outs_sn t p os : csend p -> Q p -> len (pack p) <= MaxPacketLen -> Outs cfg Q os -> Outs cfg Q (CoSn t (pack p) :: os)
| Outs_conn t os : len (k_user cfg) = 0 -> Outs cfg Q os -> Outs cfg Q (CoSn t (pack (connect_pkt cfg)) :: os)
| Outs_conn_auth t t' os : len (k_user cfg) <> 0 -> Outs cfg Q os ->
    Outs cfg Q (CoSn t (pack (connect_pkt cfg)) :: CoSn t' (pack (auth_pkt cfg)) :: os)
| Outs_other o os : is_sn o = false -> Outs cfg Q os -> Outs cfg Q (o :: os).

Lemma Outs_app cfg Q a b : Outs cfg Q a -> Outs cfg Q b -> Outs cfg Q (a ++ b).
Proof. intros Ha Hb. induction Ha; cbn [app]; try (constructor; assumption). exact Hb. Qed.

Lemma Outs_mono cfg (Q Q' : packet -> Prop) os : (forall p, Q p -> Q' p) -> Outs cfg Q os -> Outs cfg Q' os.
Proof.
  intros HQ H. induction H as [|t p os Hc Hq Hsz _ IH|t os Hu _ IH|t t' os Hu _ IH|o os Ho _ IH].
  - apply Outs_nil.
  - apply Outs_sn; auto.
  - apply Outs_conn; assumption.
  - apply Outs_conn_auth; assumption.
  - apply Outs_other; assumption.
Qed.

Lemma Outs_nosn cfg Q os : forallb (fun o => negb (is_sn o)) os = true -> Outs cfg Q os.
Proof.
  induction os as [|o os IH]; cbn [forallb]; intros H; [constructor|].
  apply andb_true_iff in H. destruct H as [H1 H2]. apply negb_true_iff in H1.
  apply Outs_other; [exact H1|apply IH, H2].
Qed.

(* CONNECT and AUTH are well-formed packets *)
Lemma wf_connect_pkt cfg : wf_cl_cfg cfg -> wf_pkt (connect_pkt cfg) = true.
Proof.
  intros (Hc & Hc0 & Hcl & _). unfold connect_pkt. cbn [wf_pkt].
  unfold lt16, okb1, okb, MaxPayloadLength, u16.
  apply wf_bytesb_spec in Hc. rewrite Hc. cbn [andb N.eqb Pos.eqb].
  repeat (apply andb_true_iff; split); lia.
Qed.

Lemma wf_auth_pkt cfg : wf_cl_cfg cfg -> wf_pkt (auth_pkt cfg) = true.
Proof.
  intros (_ & _ & _ & Hu & Hp & Hl & _). unfold auth_pkt. cbn [wf_pkt].
  unfold lt8, okb, MaxPayloadLength.
  assert (Hw : wf_bytesb ([0] ++ k_user cfg ++ [0] ++ k_pass cfg) = true).
  { apply wf_bytesb_spec. apply wf_bytes_cons; [lia|]. apply wf_bytes_app; [exact Hu|].
    apply wf_bytes_cons; [lia|exact Hp]. }
  rewrite Hw.
  assert (Hlen : len ([0] ++ k_user cfg ++ [0] ++ k_pass cfg) = 2 + len (k_user cfg) + len (k_pass cfg)).
  { cbn [app]. rewrite len_cons, len_app, len_cons. lia. }
  rewrite Hlen.
  repeat (apply andb_true_iff; split); try reflexivity. lia.
Qed.

Lemma csend_to_gw p : csend p -> client_to_gw (ptype p) = true.
Proof. destruct p; cbn [csend]; intros H; try contradiction; reflexivity. Qed.

Lemma dgram_ok_wf p : wf_pkt p = true -> client_to_gw (ptype p) = true -> dgram_ok client_to_gw (pack p) = [].
Proof.
  intros Hwf Hd. unfold dgram_ok.
  rewrite (read_pack_roundtrip p Hwf), Hd, (pack_announced_len p Hwf), N.eqb_refl.
  pose proof (pack_size p Hwf) as Hs. apply N.leb_le in Hs. rewrite Hs. reflexivity.
Qed.

Lemma dgram_ok_csend p : csend p -> namedb p = true -> len (pack p) <= MaxPacketLen ->
  dgram_ok client_to_gw (pack p) = [].
Proof.
  intros Hc Hn Hsz. unfold dgram_ok.
  rewrite (read_csend p Hc Hsz). unfold dec_res. rewrite Hn.
  rewrite ptype_norm, (csend_to_gw p Hc), (announced_csend p Hc Hsz), N.eqb_refl.
  apply N.leb_le in Hsz. rewrite Hsz. reflexivity.
Qed.

Lemma chk_C23c_cons_sn t dg os : chk_C23c (CoSn t dg :: os) = dgram_ok client_to_gw dg ++ chk_C23c os.
Proof. reflexivity. Qed.
Lemma chk_C23c_cons_other o os : is_sn o = false -> chk_C23c (o :: os) = chk_C23c os.
Proof. destruct o; try discriminate; reflexivity. Qed.

Lemma Outs_C23c cfg os : wf_cl_cfg cfg -> Outs cfg (fun p => namedb p = true) os -> chk_C23c os = [].
Proof.
  intros Hcfg H. induction H as [|t p os Hc Hn Hsz _ IH|t os Hu _ IH|t t' os Hu _ IH|o os Ho _ IH].
  - reflexivity.
  - rewrite chk_C23c_cons_sn, IH, (dgram_ok_csend p Hc Hn Hsz). reflexivity.
  - rewrite chk_C23c_cons_sn, IH, dgram_ok_wf; [reflexivity|apply wf_connect_pkt, Hcfg|reflexivity].
  - rewrite !chk_C23c_cons_sn, IH, !dgram_ok_wf;
      [reflexivity|apply wf_auth_pkt, Hcfg|reflexivity|apply wf_connect_pkt, Hcfg|reflexivity].
  - rewrite chk_C23c_cons_other by exact Ho. exact IH.
Qed.

(* ---- C31c *)
Definition is_auth (p : packet) : bool := match p with Auth _ _ _ => true | _ => false end.
Definition is_conn_auth (p : packet) : bool := match p with Auth _ _ _ | Connect _ _ _ _ _ => true | _ => false end.

Lemma csend_norm_nca p : csend p -> is_conn_auth (norm p) = false.
Proof.
  destruct p; cbn [csend norm]; intros H; try contradiction; try reflexivity.
  - destruct topic; reflexivity.
  - destruct (tit =? 0); reflexivity.
  - destruct (tit =? 0); reflexivity.
Qed.

Lemma dec_list_csend p : csend p -> len (pack p) <= MaxPacketLen ->
  dec_list (pack p) = if namedb p then [norm p] else [].
Proof. intros Hc Hsz. unfold dec_list. rewrite (read_csend p Hc Hsz). unfold dec_res. destruct (namedb p); reflexivity. Qed.

Lemma dec_list_wf p : wf_pkt p = true -> dec_list (pack p) = [p].
Proof. intros H. unfold dec_list. rewrite (read_pack_roundtrip p H). reflexivity. Qed.

Definition auth_ok (cfg : cl_cfg) (ps : list packet) : Prop :=
  if len (k_user cfg) =? 0 then existsb is_auth ps = false else connect_then_auth cfg ps = true.

Lemma cta_skip cfg p ps : is_conn_auth p = false -> connect_then_auth cfg (p :: ps) = connect_then_auth cfg ps.
Proof. destruct p; cbn [is_conn_auth]; intros H; try discriminate; reflexivity. Qed.

Lemma Outs_auth_ok cfg Q os : wf_cl_cfg cfg -> Outs cfg Q os -> auth_ok cfg (c_pkts os).
Proof.
  intros Hcfg H. unfold auth_ok.
  induction H as [|t p os Hc Hn Hsz _ IH|t os Hu _ IH|t t' os Hu _ IH|o os Ho _ IH].
  - destruct (len (k_user cfg) =? 0); reflexivity.
  - rewrite c_pkts_sn, (dec_list_csend p Hc Hsz).
    destruct (namedb p); cbn [app]; [|exact IH].
    pose proof (csend_norm_nca p Hc) as Hn'.
    destruct (len (k_user cfg) =? 0).
    + cbn [existsb]. rewrite IH. destruct (norm p); try discriminate; reflexivity.
    + rewrite cta_skip by exact Hn'. exact IH.
  - rewrite c_pkts_sn, (dec_list_wf _ (wf_connect_pkt cfg Hcfg)). cbn [app].
    apply N.eqb_eq in Hu. rewrite Hu in *. cbn [existsb]. rewrite IH. reflexivity.
  - rewrite !c_pkts_sn, (dec_list_wf _ (wf_connect_pkt cfg Hcfg)), (dec_list_wf _ (wf_auth_pkt cfg Hcfg)).
    cbn [app]. apply N.eqb_neq in Hu. rewrite Hu in *.
    unfold connect_pkt at 1, auth_pkt at 1. cbn [connect_then_auth]. rewrite !beq_refl. exact IH.
  - rewrite c_pkts_other by exact Ho. exact IH.
Qed.

Lemma Outs_C31c cfg Q os : wf_cl_cfg cfg -> Outs cfg Q os -> chk_C31c cfg os = [].
Proof.
  intros Hcfg H. pose proof (Outs_auth_ok cfg Q os Hcfg H) as Ha. unfold auth_ok in Ha. unfold chk_C31c.
  destruct (len (k_user cfg) =? 0).
  - fold is_auth. change (existsb (fun p => match p with Auth _ _ _ => true | _ => false end)) with (existsb is_auth).
    rewrite Ha. reflexivity.
  - rewrite Ha. reflexivity.
Qed.

(* ---- C17, clause 2 *)
Definition dupQ (p : packet) : Prop :=
  match p with Publish dup _ _ _ _ _ _ | Subscribe dup _ _ _ _ _ => dup = true | _ => True end.
Definition dupf (p : packet) : list N :=
  match p with
  | Publish dup _ _ _ _ _ _ => if dup then [] else [2]
  | Subscribe dup _ _ _ _ _ => if dup then [] else [2]
  | _ => []
  end.

Lemma dupQ_norm p : dupQ p -> dupf (norm p) = [].
Proof.
  destruct p; cbn [dupQ norm dupf]; intros H; try reflexivity.
  - destruct topic; reflexivity.
  - subst. reflexivity.
  - subst. destruct (tit =? 0); reflexivity.
  - destruct (tit =? 0); reflexivity.
Qed.

Lemma Outs_dup cfg os : wf_cl_cfg cfg -> Outs cfg dupQ os -> c_pkts os ≫= dupf = [].
Proof.
  intros Hcfg H. induction H as [|t p os Hc Hn Hsz _ IH|t os Hu _ IH|t t' os Hu _ IH|o os Ho _ IH].
  - reflexivity.
  - rewrite c_pkts_sn, (dec_list_csend p Hc Hsz), bind_app, IH.
    destruct (namedb p); [|reflexivity]. cbn. rewrite (dupQ_norm p Hn). reflexivity.
  - rewrite c_pkts_sn, (dec_list_wf _ (wf_connect_pkt cfg Hcfg)), bind_app, IH. reflexivity.
  - rewrite !c_pkts_sn, (dec_list_wf _ (wf_connect_pkt cfg Hcfg)), (dec_list_wf _ (wf_auth_pkt cfg Hcfg)), !bind_app, IH.
    reflexivity.
  - rewrite c_pkts_other by exact Ho. exact IH.
Qed.

(* ------------------------------------------------------------------ outputs of the step functions *)

Definition is_cb (o : cl_out) : bool := match o with CoCb _ _ _ _ _ _ _ _ => true | _ => false end.

(* datagrams of the shape above and no callbacks *)
Definition OutsN (cfg : cl_cfg) (Q : packet -> Prop) (os : list cl_out) : Prop := Outs cfg Q os /\ c_cbs os = [].

Lemma OutsN_nil cfg Q : OutsN cfg Q [].
Proof. split; [apply Outs_nil|reflexivity]. Qed.
Lemma OutsN_app cfg Q a b : OutsN cfg Q a -> OutsN cfg Q b -> OutsN cfg Q (a ++ b).
Proof. intros [Ha Ha'] [Hb Hb']. split; [apply Outs_app; assumption|rewrite c_cbs_app, Ha', Hb'; reflexivity]. Qed.
Lemma OutsN_ret cfg Q s call r : OutsN cfg Q (ret s call r).
Proof. split; [apply Outs_other; [reflexivity|apply Outs_nil]|reflexivity]. Qed.
Lemma OutsN_mono cfg (Q Q' : packet -> Prop) os : (forall p, Q p -> Q' p) -> OutsN cfg Q os -> OutsN cfg Q' os.
Proof. intros HQ [H1 H2]. split; [eapply Outs_mono; eassumption|exact H2]. Qed.

Lemma c_send_spec s p :
  c_send s p = ([], false) \/
  (c_send s p = ([CoSn (cl_now s) (pack p)], true) /\ len (pack p) <= MaxPacketLen /\ cl_conn_closed s = false).
Proof.
  unfold c_send. destruct (cl_conn_closed s); [left; reflexivity|].
  destruct (len (pack p) <=? MaxPacketLen) eqn:E; [right|left; reflexivity].
  apply N.leb_le in E. auto.
Qed.

Lemma c_send_ok s p : cl_conn_closed s = false -> len (pack p) <= MaxPacketLen ->
  c_send s p = ([CoSn (cl_now s) (pack p)], true).
Proof. intros Hc Hl. unfold c_send. rewrite Hc. apply N.leb_le in Hl. rewrite Hl. reflexivity. Qed.

Lemma c_send_outs cfg (Q : packet -> Prop) s p : csend p -> Q p -> OutsN cfg Q (fst (c_send s p)).
Proof.
  intros Hc Hq. destruct (c_send_spec s p) as [E|(E & Hsz & _)]; rewrite E; cbn [fst]; [apply OutsN_nil|].
  split; [apply Outs_sn; [exact Hc|exact Hq|exact Hsz|apply Outs_nil]|reflexivity].
Qed.

Lemma connect_attempt_outs cfg Q s call n : wf_cl_cfg cfg -> OutsN cfg Q (snd (connect_attempt cfg s call n)).
Proof.
  intros Hcfg. unfold connect_attempt, c_new_obj.
  match goal with |- context [c_send ?s1 (connect_pkt cfg)] => set (s' := s1) end.
  destruct (c_send_spec s' (connect_pkt cfg)) as [E|(E & Hsz & Hcc)]; rewrite E; cbn [snd].
  - apply OutsN_app; [apply OutsN_nil|apply OutsN_ret].
  - destruct (len (k_user cfg) =? 0) eqn:Eu; cbn [snd].
    + apply N.eqb_eq in Eu. split; [apply Outs_conn; [exact Eu|apply Outs_nil]|reflexivity].
    + apply N.eqb_neq in Eu.
      rewrite (c_send_ok s' (auth_pkt cfg) Hcc (pack_size _ (wf_auth_pkt cfg Hcfg))). cbn [snd app].
      split; [apply Outs_conn_auth; [exact Eu|apply Outs_nil]|reflexivity].
Qed.

Lemma start_retry_outs cfg (Q : packet -> Prop) s call kind key st p bt s' g o ok :
  start_retry cfg s call kind key st p bt = (s', g, o, ok) -> csend p -> Q p -> OutsN cfg Q o.
Proof.
  unfold start_retry, c_new_obj. intros H Hc Hq.
  match type of H with context [c_send ?s1 p] => pose proof (c_send_outs cfg Q s1 p Hc Hq) as Ho; destruct (c_send s1 p) as [o1 ok1] end.
  injection H as _ _ <- _. exact Ho.
Qed.

Lemma call_simple_outs cfg (Q : packet -> Prop) s call kind st mk :
  (forall mid, csend (mk mid) /\ Q (mk mid)) -> OutsN cfg Q (snd (call_simple cfg s call kind st mk)).
Proof.
  intros Hmk. unfold call_simple, c_next_mid.
  match goal with |- context [start_retry ?a ?b ?c ?d ?e ?f ?g ?h] => destruct (start_retry a b c d e f g h) as [[[s' g'] o] ok] eqn:E end.
  destruct (Hmk (cl_next_mid s)) as [Hc Hq].
  pose proof (start_retry_outs _ Q _ _ _ _ _ _ _ _ _ _ _ E Hc Hq) as Ho.
  destruct ok; cbn [snd]; [exact Ho|apply OutsN_app; [exact Ho|apply OutsN_ret]].
Qed.

Lemma do_publish_outs cfg (Q : packet -> Prop) s call tit tid qos retain payload :
  (forall p, namedb p = true -> Q p) ->
  OutsN cfg Q (snd (do_publish cfg s call tit tid qos retain payload)).
Proof.
  intros HQ. unfold do_publish, c_next_mid.
  match goal with |- context [Publish false qos retain tit tid ?m payload] => set (p := Publish false qos retain tit tid m payload) end.
  assert (Hq : Q p) by (apply HQ; reflexivity). assert (Hc : csend p) by exact I.
  cbv zeta.
  destruct ((qos =? 0) || (qos =? 3)).
  { match goal with |- context [c_send ?s1 p] => pose proof (c_send_outs cfg Q s1 p Hc Hq) as Ho; destruct (c_send s1 p) as [o [|]] end;
      cbn [snd fst] in *; (apply OutsN_app; [exact Ho|apply OutsN_ret]). }
  destruct (qos =? 1).
  { match goal with |- context [start_retry ?a ?b ?c ?d ?e ?f ?g ?h] => destruct (start_retry a b c d e f g h) as [[[s' g'] o] ok] eqn:E end.
    pose proof (start_retry_outs _ Q _ _ _ _ _ _ _ _ _ _ _ E Hc Hq) as Ho.
    destruct ok; cbn [snd]; [exact Ho|apply OutsN_app; [exact Ho|apply OutsN_ret]]. }
  destruct (qos =? 2).
  { match goal with |- context [start_retry ?a ?b ?c ?d ?e ?f ?g ?h] => destruct (start_retry a b c d e f g h) as [[[s' g'] o] ok] eqn:E end.
    pose proof (start_retry_outs _ Q _ _ _ _ _ _ _ _ _ _ _ E Hc Hq) as Ho.
    destruct ok; cbn [snd]; [exact Ho|apply OutsN_app; [exact Ho|apply OutsN_ret]]. }
  cbn [snd]. apply OutsN_ret.
Qed.

Ltac outsN := repeat first [apply OutsN_nil | apply OutsN_ret | assumption | apply OutsN_app].

Ltac sr_outs Q :=
  match goal with |- context [start_retry ?a ?b ?c ?d ?e ?f ?g ?h] =>
    let E := fresh "E" in
    destruct (start_retry a b c d e f g h) as [[[? ?] ?] ok] eqn:E;
    pose proof (start_retry_outs _ Q _ _ _ _ _ _ _ _ _ _ _ E I eq_refl)
  end.

Definition namedp (p : packet) : Prop := namedb p = true.

(* every packet an API call writes carries a non-empty topic name: Register / Subscribe /
   Unsubscribe refuse the empty one *)
Lemma do_call_outs cfg s call a : wf_cl_cfg cfg -> OutsN cfg namedp (snd (do_call cfg s call a)).
Proof.
  intros Hcfg. unfold do_call.
  destruct a as [|topic|topic qos|tid qos|topic qos retain payload|tid qos retain payload|topic|tid| |ms| |].
  - apply connect_attempt_outs, Hcfg.
  - destruct (len topic =? 0) eqn:Hn; [cbn [snd]; outsN|].
    apply call_simple_outs. intros mid. split; [exact I|]. unfold namedp. cbn [namedb]. rewrite Hn. reflexivity.
  - destruct (len topic =? 0) eqn:Hn; [cbn [snd]; outsN|].
    destruct (is_short_topic topic); apply call_simple_outs; intros mid; (split; [cbn [csend]; unfold TIT_SHORT, TIT_STRING; lia|]).
    + reflexivity.
    + unfold namedp. cbn [namedb]. rewrite Hn. unfold TIT_STRING. reflexivity.
  - apply call_simple_outs. intros mid. split; [cbn [csend]; unfold TIT_PREDEFINED; lia|]. reflexivity.
  - destruct (is_short_topic topic); [apply do_publish_outs; auto|].
    destruct (reg_lookup (cl_registered s) topic); [apply do_publish_outs; auto|]. cbn [snd]. outsN.
  - apply do_publish_outs; auto.
  - destruct (len topic =? 0) eqn:Hn; [cbn [snd]; outsN|].
    destruct (is_short_topic topic); apply call_simple_outs; intros mid; (split; [cbn [csend]; unfold TIT_SHORT, TIT_STRING; lia|]).
    + reflexivity.
    + unfold namedp. cbn [namedb]. rewrite Hn. unfold TIT_STRING. reflexivity.
  - apply call_simple_outs. intros mid. split; [cbn [csend]; unfold TIT_PREDEFINED; lia|]. reflexivity.
  - sr_outs namedp. destruct ok; cbn [snd]; outsN.
  - destruct (negb _); [cbn [snd]; outsN|]. unfold c_new_obj. cbv zeta. cbn [cl_st set].
    destruct (cl_st s); cbn [snd]; outsN.
    match goal with |- context [c_send ?s1 ?p] =>
      pose proof (c_send_outs cfg namedp s1 p I eq_refl) as Ho;
      destruct (c_send s1 p) as [o [|]] end; cbn [snd fst] in *; outsN.
  - destruct (cl_st s); cbn [snd]; outsN; sr_outs namedp; destruct ok; cbn [snd]; outsN.
  - destruct (cl_st s); cbn [snd]; outsN; sr_outs namedp; destruct ok; cbn [snd]; outsN.
Qed.

Lemma complete_outs cfg Q s g t r ic : wf_cl_cfg cfg -> OutsN cfg Q (snd (complete cfg s g t r ic)).
Proof.
  intros Hcfg. unfold complete. cbv zeta.
  destruct (cl_cancelled (c_finish_obj s g)); [cbn [snd]; outsN|].
  destruct t as [call att|call kind key st data n sub|call st n ms|mid pub]; cbn [snd]; outsN.
  - destruct r; cbn [snd]; outsN.
    destruct (att + 1 <=? k_rcount cfg); [apply connect_attempt_outs, Hcfg|cbn [snd]; outsN].
  - destruct (kind =? 6); [destruct r; cbn [snd]; outsN|].
    destruct (kind =? 7); [destruct r; cbn [snd]; outsN|]. cbn [snd]. outsN.
Qed.

Lemma c_exit_outs cfg Q s t : OutsN cfg Q (snd (c_exit s t)).
Proof.
  unfold c_exit. cbv zeta. cbn [snd].
  match goal with |- OutsN _ _ (_ :: ?l0 ≫= ?f) => generalize l0 end. intros l.
  assert (H : forall os, forallb (fun o => negb (is_sn o) && negb (is_cb o)) os = true -> OutsN cfg Q os).
  { induction os as [|o os IH]; cbn [forallb]; intros H; [apply OutsN_nil|].
    apply andb_true_iff in H. destruct H as [H1 H2]. apply andb_true_iff in H1. destruct H1 as [H1 H3].
    apply negb_true_iff in H1. apply negb_true_iff in H3. destruct (IH H2) as [IH1 IH2].
    split; [apply Outs_other; assumption|]. destruct o; try discriminate; exact IH2. }
  apply H. cbn [forallb is_sn is_cb negb andb].
  induction l as [|c l IH]; [reflexivity|]. cbn [mbind list_bind]. rewrite forallb_app, IH.
  destruct (c mod 2 =? 0); reflexivity.
Qed.

Lemma dispatch_Outs cfg Q s topic p : Outs cfg Q (dispatch s topic p).
Proof.
  unfold dispatch. destruct p; try apply Outs_nil.
  destruct (handle_set _ _); [apply Outs_nil|apply Outs_other; [reflexivity|apply Outs_nil]].
Qed.

Lemma complete_Outs cfg Q s g t r ic : wf_cl_cfg cfg -> Outs cfg Q (snd (complete cfg s g t r ic)).
Proof. intros H. apply complete_outs, H. Qed.

Lemma csend_willtopic cfg : wf_cl_cfg cfg -> csend (WillTopic (k_wqos cfg) (k_wretain cfg) (k_will cfg)).
Proof. intros H. cbn [csend]. apply H. Qed.

Ltac hp_send cfg Q Hcfg HQ :=
  match goal with
  | |- context [c_send ?s1 ?p] =>
    let Ho := fresh "Ho" in
    assert (Ho : OutsN cfg Q (fst (c_send s1 p)))
      by (apply c_send_outs; [first [exact I|apply csend_willtopic, Hcfg]|apply HQ; reflexivity]);
    destruct Ho as [Ho _]; destruct (c_send s1 p) as [? [|]]; cbn [fst] in Ho
  end.

Ltac hp_walk cfg Q Hcfg HQ :=
  repeat first
    [ progress cbn [snd fst loop_err]
    | apply Outs_nil
    | assumption
    | apply (complete_Outs cfg Q); exact Hcfg
    | apply dispatch_Outs
    | apply Outs_app
    | hp_send cfg Q Hcfg HQ
    | match goal with |- Outs _ _ (snd (match ?x with _ => _ end)) => destruct x eqn:? end
    | match goal with |- Outs _ _ (snd (if ?x then _ else _)) => destruct x eqn:? end
    | match goal with |- Outs _ _ (snd (let (_, _) := ?x in _)) => destruct x eqn:? end ].

Lemma handle_packet_outs cfg (Q : packet -> Prop) s p : wf_cl_cfg cfg -> (forall q, namedb q = true -> Q q) ->
  Outs cfg Q (snd (handle_packet cfg s p)).
Proof.
  intros Hcfg HQ. unfold handle_packet, loop_err, c_new_obj. destruct p; hp_walk cfg Q Hcfg HQ.
Qed.

(* ---- timers *)
Definition simplep (p : packet) : Prop := match p with Disconnect _ | Pingreq _ => True | _ => False end.

Section TimerOuts.
  Variables (cfg : cl_cfg) (Q : packet -> Prop) (b : bool).
  Hypothesis Hcfg : wf_cl_cfg cfg.
  Hypothesis HQ : forall p, simplep p -> Q p.
  Hypothesis HR : forall call kind key st data n sub,
    obj_ok b (CxRetry call kind key st data n sub) -> Q (retry_data kind data).

  Ltac t_send :=
    match goal with
    | |- context [c_send ?s1 ?p] =>
      let Ho := fresh "Ho" in
      assert (Ho : OutsN cfg Q (fst (c_send s1 p))) by (apply c_send_outs; [exact I|apply HQ; exact I]);
      destruct (c_send s1 p) as [? [|]]; cbn [fst] in Ho
    end.
  Ltac t_walk :=
    repeat first
      [ progress cbn [snd fst]
      | apply OutsN_nil | assumption
      | apply (complete_outs cfg Q); exact Hcfg
      | t_send
      | match goal with |- OutsN _ _ (snd (match ?x with _ => _ end)) => destruct x eqn:? end
      | match goal with |- OutsN _ _ (snd (if ?x then _ else _)) => destruct x eqn:? end ].

  Lemma c_fire_outs s k : InvA b s -> OutsN cfg Q (snd (c_fire cfg s k)).
  Proof.
    intros Hi. unfold c_fire. destruct k as [g|g|g|g|g]; cbv zeta.
    - t_walk.
    - destruct (cl_objs s !! g) as [[call att|call kind key st data n sub|call st n ms|mid pub]|] eqn:Hg; cbn [snd]; try apply OutsN_nil.
      destruct (k_rcount cfg <? n + 1); [apply complete_outs, Hcfg|].
      fold (retry_data kind data).
      pose proof (ia_obj b s Hi g _ Hg) as Hok.
      pose proof (obj_ok_retry b call kind key st data n sub st n Hok) as Hok'. destruct Hok' as (Hc & _ & _).
      match goal with
      | |- context [c_send ?s1 ?p] =>
        assert (Ho : OutsN cfg Q (fst (c_send s1 p))) by (apply c_send_outs; [exact Hc|eapply HR, Hok]);
        destruct (c_send s1 p) as [? [|]]; cbn [fst] in Ho
      end; t_walk.
    - t_walk.
    - t_walk.
    - t_walk.
  Qed.

  Lemma c_run_timers_outs t fuel : forall s, InvA b s -> OutsN cfg Q (snd (c_run_timers fuel cfg s t)).
  Proof.
    induction fuel as [|fuel IH]; intros s Hi; cbn [c_run_timers]; [apply OutsN_nil|]. cbv zeta.
    destruct (c_min_timer (cl_timers s)) as [tm|].
    - match goal with |- context [if ?c then _ else _] => destruct c end.
      + match goal with |- context [c_fire cfg ?X ?k] =>
          assert (Hi0 : InvA b X) by (repeat invA_raw; exact Hi);
          pose proof (c_fire_invA b cfg X k Hi0) as Hi1; pose proof (c_fire_outs X k Hi0) as Ho1;
          destruct (c_fire cfg X k) as [s1 o1] end.
        cbn [fst snd] in Hi1, Ho1. specialize (IH s1 Hi1). destruct (c_run_timers fuel cfg s1 t) as [s2 o2].
        cbn [snd] in *. apply OutsN_app; assumption.
      + destruct (if cl_exited s then None else cl_cancelled s) as [te|]; [|apply OutsN_nil].
        destruct (te <=? t); [|apply OutsN_nil].
        pose proof (c_exit_invA b s te Hi) as Hi1. pose proof (c_exit_outs cfg Q s te) as Ho1.
        destruct (c_exit s te) as [s1 o1]. cbn [fst snd] in Hi1, Ho1.
        specialize (IH s1 Hi1). destruct (c_run_timers fuel cfg s1 t) as [s2 o2]. cbn [snd] in *. apply OutsN_app; assumption.
    - destruct (if cl_exited s then None else cl_cancelled s) as [te|]; [|apply OutsN_nil].
      destruct (te <=? t); [apply c_exit_outs|apply OutsN_nil].
  Qed.
End TimerOuts.

(* ---- the whole step *)
Lemma simplep_named p : simplep p -> namedb p = true.
Proof. destruct p; cbn [simplep]; intros H; try contradiction; reflexivity. Qed.

Lemma cl_step_outs cfg (Q : packet -> Prop) b s ev : wf_cl_cfg cfg -> InvA b s ->
  match ev with
  | CAdv _ => forall p, simplep p -> Q p
  | _ => forall p, namedb p = true -> Q p
  end ->
  (forall call kind key st data n sub, obj_ok b (CxRetry call kind key st data n sub) -> Q (retry_data kind data)) ->
  Outs cfg Q (snd (cl_step cfg s ev)) /\ match ev with CGw _ => True | _ => c_cbs (snd (cl_step cfg s ev)) = [] end.
Proof.
  intros Hcfg Hi HQ HR. unfold cl_step. destruct ev as [id a|dg|d].
  - cut (OutsN cfg Q (snd (if cl_exited s then (s, [])
           else match cl_cancelled s with
                | Some _ => (s, [])
                | None => let (s', o) := do_call cfg s id a in
                          match cl_cancelled s' with
                          | Some te => if te <=? cl_now s' then let (s'', o') := c_exit s' te in (s'', o ++ o') else (s', o)
                          | None => (s', o)
                          end
                end))); [intros H; exact H|].
    destruct (cl_exited s); [apply OutsN_nil|]. destruct (cl_cancelled s); [apply OutsN_nil|].
    pose proof (do_call_outs cfg s id a Hcfg) as Ho. apply (OutsN_mono _ _ Q) in Ho; [|intros p Hp; apply HQ, Hp].
    destruct (do_call cfg s id a) as [s1 o1]. cbn [snd] in Ho.
    destruct (cl_cancelled s1) as [te|]; [|exact Ho]. destruct (te <=? cl_now s1); [|exact Ho].
    pose proof (c_exit_outs cfg Q s1 te) as Ho2. destruct (c_exit s1 te) as [s2 o2]. cbn [snd] in *. apply OutsN_app; assumption.
  - split; [|exact I].
    destruct (cl_exited s); [apply Outs_nil|]. destruct (cl_cancelled s); [apply Outs_nil|]. cbv zeta.
    destruct (read_dgram dg) as [p|e|ps].
    + pose proof (handle_packet_outs cfg Q (s <| cl_last_read := cl_now s |>) p Hcfg) as Ho.
      specialize (Ho HQ).
      destruct (handle_packet cfg (s <| cl_last_read := cl_now s |>) p) as [s1 o1]. cbn [snd] in Ho.
      destruct (cl_cancelled s1) as [te|]; [|exact Ho]. destruct (te <=? cl_now s1); [|exact Ho].
      pose proof (c_exit_outs cfg Q s1 te) as [Ho2 _]. destruct (c_exit s1 te) as [s2 o2]. cbn [snd] in *. apply Outs_app; assumption.
    + match goal with |- context [c_exit ?X ?t] => pose proof (c_exit_outs cfg Q X t) as [Ho2 _]; destruct (c_exit X t) as [s2 o2] end. exact Ho2.
    + match goal with |- context [c_exit ?X ?t] => pose proof (c_exit_outs cfg Q X t) as [Ho2 _]; destruct (c_exit X t) as [s2 o2] end. exact Ho2.
  - pose proof (c_run_timers_outs cfg Q b Hcfg HQ HR (cl_now s + d) (c_advance_fuel cfg s d) s Hi) as Ho.
    destruct (c_run_timers (c_advance_fuel cfg s d) cfg s (cl_now s + d)) as [s1 o1]. exact Ho.
Qed.

(* ------------------------------------------------------------------ reachable states *)

Lemma cl_reach_invA b cfg s : cl_reach cfg s -> InvA b s.
Proof.
  induction 1 as [|s ev _ IH Hev]; [apply invA_init|]. apply cl_step_invA, IH.
Qed.

(* every stored packet that a retry re-sends carries a non-empty topic name *)
Definition obj_named (t : ctxn) : bool := match t with CxRetry _ _ _ _ d _ _ => namedb d | _ => true end.
Definition st_named (s : cl_state) : bool := forallb (fun gt => obj_named (snd gt)) (map_to_list (cl_objs s)).

Lemma st_named_spec s : st_named s = true <-> forall g t, cl_objs s !! g = Some t -> obj_named t = true.
Proof.
  unfold st_named. rewrite forallb_forall. split.
  - intros H g t Hg. apply (H (g, t)). apply elem_of_list_In, elem_of_map_to_list, Hg.
  - intros H [g t] Hin. apply elem_of_list_In, elem_of_map_to_list in Hin. cbn [snd]. eapply H, Hin.
Qed.

Lemma invA_named s : InvA true s <-> InvA false s /\ st_named s = true.
Proof.
  rewrite st_named_spec. split.
  - intros [H1 H2 H3]. split; [split; [|exact H2|exact H3]|].
    + intros g t Hg. specialize (H1 g t Hg). destruct t; cbn [obj_ok] in *; try exact I.
      destruct H1 as (Ha & Hb & _). split; [exact Ha|split; [exact Hb|discriminate]].
    + intros g t Hg. specialize (H1 g t Hg). destruct t; cbn [obj_ok obj_named] in *; try reflexivity. apply H1. reflexivity.
  - intros [[H1 H2 H3] Hn]. split; [|exact H2|exact H3].
    intros g t Hg. specialize (H1 g t Hg). specialize (Hn g t Hg). destruct t; cbn [obj_ok obj_named] in *; try exact I.
    destruct H1 as (Ha & Hb & _). auto.
Qed.

Lemma st_named_init : st_named cl_init = true.
Proof. reflexivity. Qed.

(* Register / Subscribe / Unsubscribe refuse an empty topic name, so st_named holds of every
   reachable state *)
Lemma cl_reach_st_named cfg s : cl_reach cfg s -> st_named s = true.
Proof. intros Hr. apply (invA_named s), (cl_reach_invA true cfg s Hr). Qed.

(* ------------------------------------------------------------------ C23 (client side) *)

(* (the hypothesis wf_cl_event ev is not used) *)
Theorem chk_C23c_sound cfg s ev : wf_cl_cfg cfg -> cl_reach cfg s -> wf_cl_event ev ->
  chk_C23c (snd (cl_step cfg s ev)) = [].
Proof.
  intros Hcfg Hr _. apply (Outs_C23c cfg _ Hcfg).
  apply (cl_step_outs cfg (fun p => namedb p = true) true s ev Hcfg).
  - apply cl_reach_invA with cfg, Hr.
  - destruct ev; [auto|auto|apply simplep_named].
  - intros call kind key st data n sub (_ & _ & H). unfold retry_data.
    destruct ((kind =? 1) || (kind =? 3) || (kind =? 4)); [rewrite namedb_set_dup|]; apply H; reflexivity.
Qed.

(* ------------------------------------------------------------------ C31 (client side) *)
Theorem chk_C31c_sound cfg s ev : wf_cl_cfg cfg -> cl_reach cfg s -> chk_C31c cfg (snd (cl_step cfg s ev)) = [].
Proof.
  intros Hcfg Hr. apply (Outs_C31c cfg (fun _ => True) _ Hcfg).
  apply (cl_step_outs cfg (fun _ => True) false s ev Hcfg); [apply cl_reach_invA with cfg, Hr| |auto].
  destruct ev; auto.
Qed.

(* ------------------------------------------------------------------ C27 *)

Definition nocb (os : list cl_out) : Prop := c_cbs os = [].
Lemma nocb_nil : nocb []. Proof. reflexivity. Qed.
Lemma nocb_app a b : nocb a -> nocb b -> nocb (a ++ b).
Proof. unfold nocb. intros Ha Hb. rewrite c_cbs_app, Ha, Hb. reflexivity. Qed.
Lemma nocb_ret s call r : nocb (ret s call r). Proof. reflexivity. Qed.
Lemma nocb_send s p : nocb (fst (c_send s p)).
Proof. destruct (c_send_spec s p) as [E|(E & _)]; rewrite E; reflexivity. Qed.
Lemma nocb_connect_attempt cfg s call n : nocb (snd (connect_attempt cfg s call n)).
Proof.
  unfold connect_attempt, c_new_obj. cbv zeta.
  repeat match goal with
         | |- context [c_send ?X ?p] => let H := fresh "H" in pose proof (nocb_send X p) as H; destruct (c_send X p) as [? [|]]; cbn [fst] in H
         end; try destruct (len (k_user cfg) =? 0); cbn [snd]; repeat first [assumption|apply nocb_ret|apply nocb_app].
Qed.
Lemma nocb_complete cfg s g t r ic : nocb (snd (complete cfg s g t r ic)).
Proof.
  unfold complete. cbv zeta. destruct (cl_cancelled (c_finish_obj s g)); [reflexivity|].
  destruct t as [call att|call kind key st data n sub|call st n ms|mid pub]; cbn [snd]; try reflexivity.
  - destruct r; try reflexivity. destruct (att + 1 <=? k_rcount cfg); [apply nocb_connect_attempt|reflexivity].
  - destruct (kind =? 6); [destruct r; reflexivity|]. destruct (kind =? 7); [destruct r; reflexivity|]. reflexivity.
Qed.
Lemma nocb_exit s t : nocb (snd (c_exit s t)).
Proof. apply (c_exit_outs (Build_cl_cfg [] [] [] 0 0 0 0 false [] [] 0 false []) (fun _ => True) s t). Qed.

Definition deliv (s : cl_state) (p : packet) : option (N * N) :=
  match p with
  | Publish _ q _ tit tid _ _ => if (q =? 0) || (q =? 1) then Some (tit, tid) else None
  | Pubrel mid =>
    match c_get_id s mid with
    | Some (_, CxBrokerPub2 _ (Publish _ _ _ tit tid _ _)) => Some (tit, tid)
    | _ => None
    end
  | _ => None
  end.

Definition c27 (cfg : cl_cfg) (s : cl_state) (d : option (N * N)) (os : list cl_out) : list N :=
  match c_cbs os with
  | [] => []
  | [(sub, topic)] =>
    match d with
    | Some (tit, tid) =>
      (match topic_for_publish cfg s tit tid with
       | Some t => if beq t topic then [] else [2]
       | None => [2]
       end) ++
      (if existsb (fun kh => (snd (snd kh) =? sub) && match_route (fst (snd kh)) (split topic)) (cl_handlers s)
       then [] else [1])
    | None => [3]
    end
  | _ => [4]
  end.

Lemma c27_nocb cfg s d os : nocb os -> c27 cfg s d os = [].
Proof. unfold nocb, c27. intros ->. reflexivity. Qed.

Lemma c27_dispatch cfg s tit tid topic pub o1 o2 : nocb o1 -> nocb o2 ->
  topic_for_publish cfg s tit tid = Some topic -> c27 cfg s (Some (tit, tid)) (o1 ++ dispatch s topic pub ++ o2) = [].
Proof.
  unfold nocb, c27. intros H1 H2 Ht. rewrite !c_cbs_app, H1, H2, app_nil_r. cbn [app].
  unfold dispatch. destruct pub; try reflexivity.
  destruct (handle_set (cl_handlers s) topic) as [|sub rest] eqn:Eh; [reflexivity|].
  cbn [c_cbs mbind list_bind app]. rewrite Ht, beq_refl. cbn [app].
  assert (Hin : In sub (handle_set (cl_handlers s) topic)) by (rewrite Eh; left; reflexivity).
  apply handle_set_sound in Hin. destruct Hin as (k & route & Hin & Hm).
  match goal with |- (if ?e then _ else _) = _ => assert (He : e = true) end.
  { apply existsb_exists. exists (k, (route, sub)). split; [exact Hin|]. cbn [fst snd]. rewrite N.eqb_refl, Hm. reflexivity. }
  rewrite He. reflexivity.
Qed.

Ltac ncb_walk :=
  repeat first
    [ progress cbn [snd fst loop_err]
    | apply nocb_nil | assumption | apply nocb_complete | apply nocb_ret | apply nocb_app
    | match goal with
      | |- context [c_send ?X ?p] => let H := fresh "H" in pose proof (nocb_send X p) as H; destruct (c_send X p) as [? [|]]; cbn [fst] in H
      end
    | match goal with |- nocb (snd (match ?x with _ => _ end)) => destruct x eqn:? end
    | match goal with |- nocb (snd (if ?x then _ else _)) => destruct x eqn:? end
    | match goal with |- nocb (snd (let (_, _) := ?x in _)) => destruct x eqn:? end ].

Lemma handle_packet_c27 cfg s p : c27 cfg s (deliv s p) (snd (handle_packet cfg s p)) = [].
Proof.
  destruct p; try solve [apply c27_nocb; unfold handle_packet, c_new_obj; ncb_walk].
  - (* Publish *)
    unfold handle_packet, deliv, c_new_obj. destruct (qos =? 0) eqn:E0.
    { cbn [orb]. destruct (topic_for_publish cfg s tit tid) as [topic|] eqn:Et; cbn [snd loop_err]; [|apply c27_nocb, nocb_nil].
      rewrite <- (app_nil_r (dispatch _ _ _)). apply (c27_dispatch cfg s tit tid topic _ [] []); [apply nocb_nil|apply nocb_nil|exact Et]. }
    destruct (qos =? 1) eqn:E1.
    { cbn [orb].
      match goal with |- context [c_send ?X ?p] => pose proof (nocb_send X p) as H; destruct (c_send X p) as [o [|]]; cbn [fst] in H end;
        cbn [snd loop_err]; [|apply c27_nocb, H].
      destruct (topic_for_publish cfg s tit tid) as [topic|] eqn:Et; cbn [snd loop_err]; [|apply c27_nocb, H].
      rewrite <- (app_nil_r (dispatch _ _ _)). apply (c27_dispatch cfg s tit tid topic _ o []); [exact H|apply nocb_nil|exact Et]. }
    apply c27_nocb. ncb_walk.
  - (* Pubrel *)
    unfold handle_packet, deliv, c_get_id.
    destruct (cl_by_id s !! mid) as [g|]; [|apply c27_nocb; ncb_walk].
    destruct (cl_objs s !! g) as [[call att|call kind key st data n sub|call st n ms|mid' pub]|]; try solve [apply c27_nocb; ncb_walk].
    destruct pub; try solve [apply c27_nocb; ncb_walk].
    destruct (topic_for_publish cfg s tit tid) as [topic|] eqn:Et; [|apply c27_nocb; ncb_walk].
    cbv zeta.
    match goal with |- context [c_send ?X ?p] => pose proof (nocb_send X p) as H; destruct (c_send X p) as [o [|]]; cbn [fst] in H end;
      cbn [snd]; apply (c27_dispatch cfg s tit tid topic _ [] o); first [apply nocb_nil|assumption].
Qed.

Lemma nocb_do_call cfg s call a : nocb (snd (do_call cfg s call a)).
Proof.
  unfold do_call, call_simple, do_publish, start_retry, c_new_obj, c_next_mid.
  destruct a; cbv zeta; try apply nocb_connect_attempt; ncb_walk.
Qed.

Lemma nocb_fire cfg s k : nocb (snd (c_fire cfg s k)).
Proof. unfold c_fire. destruct k; cbv zeta; ncb_walk. Qed.

Lemma nocb_run_timers cfg t fuel : forall s, nocb (snd (c_run_timers fuel cfg s t)).
Proof.
  induction fuel as [|fuel IH]; intros s; cbn [c_run_timers]; [apply nocb_nil|]. cbv zeta.
  destruct (c_min_timer (cl_timers s)) as [tm|].
  - match goal with |- context [if ?c then _ else _] => destruct c end.
    + match goal with |- context [c_fire cfg ?X ?k] => pose proof (nocb_fire cfg X k) as H1; destruct (c_fire cfg X k) as [s1 o1] end.
      specialize (IH s1). destruct (c_run_timers fuel cfg s1 t) as [s2 o2]. cbn [snd] in *. apply nocb_app; assumption.
    + destruct (if cl_exited s then None else cl_cancelled s) as [te|]; [|apply nocb_nil].
      destruct (te <=? t); [|apply nocb_nil].
      pose proof (nocb_exit s te) as H1. destruct (c_exit s te) as [s1 o1].
      specialize (IH s1). destruct (c_run_timers fuel cfg s1 t) as [s2 o2]. cbn [snd] in *. apply nocb_app; assumption.
  - destruct (if cl_exited s then None else cl_cancelled s) as [te|]; [|apply nocb_nil].
    destruct (te <=? t); [apply nocb_exit|apply nocb_nil].
Qed.

Lemma chk_C27_c27 cfg s ev os : chk_C27 cfg s ev os = c27 cfg s (delivered cfg s ev) os.
Proof. reflexivity. Qed.

(* no hypothesis is needed *)
Theorem chk_C27_sound cfg s ev : chk_C27 cfg s ev (snd (cl_step cfg s ev)) = [].
Proof.
  rewrite chk_C27_c27. unfold cl_step. destruct ev as [id a|dg|d].
  - apply c27_nocb. destruct (cl_exited s); [apply nocb_nil|]. destruct (cl_cancelled s); [apply nocb_nil|].
    pose proof (nocb_do_call cfg s id a) as H1. destruct (do_call cfg s id a) as [s1 o1]. cbn [snd] in H1.
    destruct (cl_cancelled s1) as [te|]; [|exact H1]. destruct (te <=? cl_now s1); [|exact H1].
    pose proof (nocb_exit s1 te) as H2. destruct (c_exit s1 te) as [s2 o2]. cbn [snd] in *. apply nocb_app; assumption.
  - destruct (cl_exited s); [apply c27_nocb, nocb_nil|]. destruct (cl_cancelled s); [apply c27_nocb, nocb_nil|]. cbv zeta.
    unfold delivered, ev_pkt.
    destruct (read_dgram dg) as [p|e|ps].
    + pose proof (handle_packet_c27 cfg (s <| cl_last_read := cl_now s |>) p) as H1.
      change (c27 cfg (s <| cl_last_read := cl_now s |>) (deliv (s <| cl_last_read := cl_now s |>) p)) with (c27 cfg s (deliv s p)) in H1.
      destruct (handle_packet cfg (s <| cl_last_read := cl_now s |>) p) as [s1 o1]. cbn [snd] in H1.
      fold (deliv s p).
      destruct (cl_cancelled s1) as [te|]; [|exact H1]. destruct (te <=? cl_now s1); [|exact H1].
      pose proof (nocb_exit s1 te) as H2. destruct (c_exit s1 te) as [s2 o2]. cbn [snd] in *.
      unfold c27 in *. rewrite c_cbs_app, H2, app_nil_r. exact H1.
    + apply c27_nocb. match goal with |- context [c_exit ?X ?t] => pose proof (nocb_exit X t) as H2; destruct (c_exit X t) as [s2 o2] end. exact H2.
    + apply c27_nocb. match goal with |- context [c_exit ?X ?t] => pose proof (nocb_exit X t) as H2; destruct (c_exit X t) as [s2 o2] end. exact H2.
  - apply c27_nocb.
    pose proof (nocb_run_timers cfg (cl_now s + d) (c_advance_fuel cfg s d) s) as H1.
    destruct (c_run_timers (c_advance_fuel cfg s d) cfg s (cl_now s + d)) as [s1 o1]. exact H1.
Qed.

(* ------------------------------------------------------------------ C17 *)

Definition c17_1 (cfg : cl_cfg) (s : cl_state) (mid : N) (ps : list packet) : list N :=
  match List.filter is_c_pubcomp ps with
  | [Pubcomp m] => if m =? mid then [] else [3]
  | [] =>
    match c_get_id s mid with
    | Some (_, CxBrokerPub2 _ (Publish _ _ _ tit tid _ _)) =>
      match topic_for_publish cfg s tit tid with None => [] | Some _ => [3] end
    | Some _ => []
    | None => [3]
    end
  | _ => [3]
  end.

Definition c17_3 (s : cl_state) (ev : cl_event) (ir : N * cres) : list N :=
  match snd ir with
  | ROk =>
    let mine t := match t with CxRetry call kind _ _ _ _ _ => (call =? fst ir) && ((kind =? 3) || (kind =? 4)) | _ => false end in
    match List.filter (fun gt => mine (snd gt)) (map_to_list (cl_objs s)) with
    | [(_, CxRetry _ 3 key st _ _ _)] =>
      match ev_pkt ev with
      | Some (Puback _ mid rc) => if (mid =? key) && (rc =? RC_ACCEPTED) && ct_state_eqb st CtAwaitPuback then [] else [1]
      | _ => [1]
      end
    | [(_, CxRetry _ 4 key st _ _ _)] =>
      match ev_pkt ev with
      | Some (Pubcomp mid) => if (mid =? key) && ct_state_eqb st CtAwaitPubcomp then [] else [1]
      | _ => [1]
      end
    | _ => []
    end
  | _ => []
  end.

Lemma chk_C17_parts cfg s ev os :
  chk_C17 cfg s ev os =
  if negb (c_live s) then [] else
  (match ev_pkt ev with Some (Pubrel mid) => c17_1 cfg s mid (c_pkts os) | _ => [] end) ++
  (match ev with CAdv _ => c_pkts os ≫= dupf | _ => [] end) ++
  (c_rets os ≫= c17_3 s ev).
Proof. reflexivity. Qed.

(* ---- clause 2: retransmissions carry DUP *)
Lemma c17_clause2 cfg s d : wf_cl_cfg cfg -> cl_reach cfg s -> c_pkts (snd (cl_step cfg s (CAdv d))) ≫= dupf = [].
Proof.
  intros Hcfg Hr. apply (Outs_dup cfg _ Hcfg).
  apply (cl_step_outs cfg dupQ false s (CAdv d) Hcfg); [apply cl_reach_invA with cfg, Hr| |].
  - intros p. destruct p; cbn [simplep dupQ]; intros H; try contradiction; exact I.
  - intros call kind key st data n sub (_ & Hk & _). unfold retry_data.
    destruct data; cbn [kd_ok] in Hk; try (destruct ((kind =? 1) || (kind =? 3) || (kind =? 4)); exact I);
      (destruct Hk as [->|[->| ->]]; reflexivity).
Qed.

(* ---- clause 1: PUBREL is answered by PUBCOMP *)
Lemma c_sns_exit s t : c_sns (snd (c_exit s t)) = [].
Proof.
  unfold c_exit. cbv zeta. cbn [snd].
  match goal with |- c_sns (_ :: ?l0 ≫= ?f) = _ => generalize l0 end. intros l.
  change (c_sns (l ≫= (fun c => if c mod 2 =? 0 then [CoRet t (c / 2) RCancelled]
            else [CoRet t (c / 2) (if cl_group_err s then RCancelled else ROk)])) = []).
  induction l as [|c l IH]; [reflexivity|]. cbn [mbind list_bind]. rewrite c_sns_app. cbn [mbind list_bind] in IH. rewrite IH.
  destruct (c mod 2 =? 0); reflexivity.
Qed.
Lemma c_pkts_exit s t : c_pkts (snd (c_exit s t)) = [].
Proof. unfold c_pkts. rewrite c_sns_exit. reflexivity. Qed.

Lemma c_pkts_dispatch s topic p : c_pkts (dispatch s topic p) = [].
Proof. unfold dispatch. destruct p; try reflexivity. destruct (handle_set _ _); reflexivity. Qed.

Lemma c_pkts_pubcomp t mid : mid < 65536 -> c_pkts [CoSn t (pack (Pubcomp mid))] = [Pubcomp mid].
Proof.
  intros H. rewrite c_pkts_sn. rewrite (dec_list_csend (Pubcomp mid) I); [|vm_compute; discriminate].
  cbn [namedb norm]. rewrite u16_small by exact H. reflexivity.
Qed.

Lemma handle_pubrel_c17 b cfg s mid : InvA b s -> cl_conn_closed s = false -> mid < 65536 ->
  c17_1 cfg s mid (c_pkts (snd (handle_packet cfg s (Pubrel mid)))) = [].
Proof.
  intros Hi Hcc Hm.
  assert (Hsend : c_send s (Pubcomp mid) = ([CoSn (cl_now s) (pack (Pubcomp mid))], true)).
  { apply c_send_ok; [exact Hcc|]. vm_compute. discriminate. }
  unfold handle_packet, c17_1, c_get_id.
  destruct (cl_by_id s !! mid) as [g|] eqn:Eg.
  - destruct (ia_id b s Hi mid g Eg) as (t & Ht & _). rewrite Ht.
    destruct t as [call att|call kind key st data n sub|call st n ms|mid' pub]; try reflexivity.
    destruct pub; try reflexivity.
    destruct (topic_for_publish cfg s tit tid) as [topic|] eqn:Et; [|reflexivity].
    cbv zeta. rewrite Hsend. cbn [snd]. rewrite c_pkts_app, c_pkts_dispatch, c_pkts_pubcomp by exact Hm.
    cbn [app List.filter is_c_pubcomp]. rewrite N.eqb_refl. reflexivity.
  - rewrite Hsend. cbn [snd]. rewrite c_pkts_pubcomp by exact Hm. cbn [List.filter is_c_pubcomp]. rewrite N.eqb_refl. reflexivity.
Qed.

Lemma c17_clause1 cfg s dg mid : cl_reach cfg s -> wf_cl_event (CGw dg) -> c_live s = true ->
  read_dgram dg = Ok (Pubrel mid) -> c17_1 cfg s mid (c_pkts (snd (cl_step cfg s (CGw dg)))) = [].
Proof.
  intros Hr [Hwf _] Hl Hd. pose proof (read_dgram_fact dg _ Hwf Hd) as Hm. cbn [mid_fact] in Hm.
  unfold c_live in Hl. apply andb_true_iff in Hl. destruct Hl as [Hl Hcc]. apply andb_true_iff in Hl. destruct Hl as [Hex Hca].
  apply negb_true_iff in Hex. apply negb_true_iff in Hcc.
  unfold cl_step. rewrite Hex. destruct (cl_cancelled s); [discriminate|]. cbv zeta. rewrite Hd.
  pose proof (handle_pubrel_c17 false cfg (s <| cl_last_read := cl_now s |>) mid) as H1.
  specialize (H1 ltac:(invA_raw; apply cl_reach_invA with cfg, Hr) Hcc Hm).
  change (c17_1 cfg (s <| cl_last_read := cl_now s |>) mid) with (c17_1 cfg s mid) in H1.
  destruct (handle_packet cfg (s <| cl_last_read := cl_now s |>) (Pubrel mid)) as [s1 o1]. cbn [snd] in H1.
  destruct (cl_cancelled s1) as [te|]; [|exact H1]. destruct (te <=? cl_now s1); [|exact H1].
  pose proof (c_pkts_exit s1 te) as H2. destruct (c_exit s1 te) as [s2 o2]. cbn [snd] in *.
  rewrite c_pkts_app, H2, app_nil_r. exact H1.
Qed.

(* ---- clause 3: Publish (QoS 1/2) returns nil only on PUBACK / PUBCOMP *)

(* pending calls (live transactions, calls blocked in group.Wait()) have distinct ids *)
Definition calls_uniq (s : cl_state) : Prop := K (fun _ => True) s.

Definition has_call (id : N) (t : ctxn) : bool := match call_of t with Some c => c =? id | None => false end.
(* the id of a new API call is not the id of a pending call *)
Definition cl_fresh (s : cl_state) (ev : cl_event) : bool :=
  match ev with
  | CCall id _ =>
    forallb (fun gt => negb (has_call id (snd gt))) (map_to_list (cl_objs s)) &&
    forallb (fun c => negb (c / 2 =? id)) (cl_waiting_group s)
  | _ => true
  end.

Lemma cl_fresh_spec s id a : cl_fresh s (CCall id a) = true -> fresh s id.
Proof.
  cbn [cl_fresh]. intros H. apply andb_true_iff in H. destruct H as [H1 H2].
  rewrite forallb_forall in H1, H2. split.
  - intros g t Hg Hc. specialize (H1 (g, t)). cbn [snd] in H1. unfold has_call in H1. rewrite Hc, N.eqb_refl in H1.
    specialize (H1 ltac:(apply elem_of_list_In, elem_of_map_to_list, Hg)). discriminate.
  - intros c' Hin E. specialize (H2 c' Hin). apply N.eqb_eq in E. rewrite E in H2. discriminate.
Qed.

Lemma calls_uniq_init : calls_uniq cl_init.
Proof. apply K_init. Qed.

Lemma calls_uniq_step cfg s ev : calls_uniq s -> cl_fresh s ev = true -> calls_uniq (fst (cl_step cfg s ev)).
Proof.
  intros Hk Hf. apply (cl_step_K (fun _ => True) cfg s ev Hk); [|auto].
  intros id a ->. split; [eapply cl_fresh_spec, Hf|exact I].
Qed.

Definition mineb (c : N) (t : ctxn) : bool :=
  match t with CxRetry call kind _ _ _ _ _ => (call =? c) && ((kind =? 3) || (kind =? 4)) | _ => false end.
Definition mine_list (s : cl_state) (c : N) : list (N * ctxn) :=
  List.filter (fun gt => mineb c (snd gt)) (map_to_list (cl_objs s)).

Lemma c17_3_ok s ev c :
  c17_3 s ev (c, ROk) =
  match mine_list s c with
  | [(_, CxRetry _ 3 key st _ _ _)] =>
    match ev_pkt ev with
    | Some (Puback _ mid rc) => if (mid =? key) && (rc =? RC_ACCEPTED) && ct_state_eqb st CtAwaitPuback then [] else [1]
    | _ => [1]
    end
  | [(_, CxRetry _ 4 key st _ _ _)] =>
    match ev_pkt ev with
    | Some (Pubcomp mid) => if (mid =? key) && ct_state_eqb st CtAwaitPubcomp then [] else [1]
    | _ => [1]
    end
  | _ => []
  end.
Proof. reflexivity. Qed.

Lemma c17_3_other s ev c r : r <> ROk -> c17_3 s ev (c, r) = [].
Proof. destruct r; try reflexivity. intros H. contradiction. Qed.

Lemma elem_of_lfilter {A} (f : A -> bool) l x : x ∈ List.filter f l <-> x ∈ l /\ f x = true.
Proof. rewrite !elem_of_list_In. apply filter_In. Qed.

Lemma NoDup_lfilter {A} (f : A -> bool) l : base.NoDup l -> base.NoDup (List.filter f l).
Proof.
  induction 1 as [|x l Hx _ IH]; cbn [List.filter]; [constructor|].
  destruct (f x); [|exact IH]. constructor; [|exact IH]. intros H. apply elem_of_lfilter in H. apply Hx, H.
Qed.

Lemma all_eq_NoDup {A} (x : A) l : base.NoDup l -> (forall y, y ∈ l -> y = x) -> l = [] \/ l = [x].
Proof.
  intros Hn Hall. destruct l as [|a [|b l]]; [left; reflexivity|right|exfalso].
  - rewrite (Hall a) by (left). reflexivity.
  - assert (a = x) by (apply Hall; left). assert (b = x) by (apply Hall; right; left). subst.
    inversion Hn as [|? ? Hnin _]; subst. apply Hnin. left.
Qed.

Lemma mineb_call c t : mineb c t = true -> call_of t = Some c.
Proof.
  destruct t; cbn [mineb call_of]; try discriminate. intros H. apply andb_true_iff in H. destruct H as [H _].
  apply N.eqb_eq in H. subst. reflexivity.
Qed.

Lemma mine_list_nil s c : (forall g t, cl_objs s !! g = Some t -> call_of t <> Some c) -> mine_list s c = [].
Proof.
  intros H. unfold mine_list. destruct (List.filter _ _) as [|[g t] l] eqn:E; [reflexivity|exfalso].
  assert (Hin : (g, t) ∈ List.filter (fun gt => mineb c (snd gt)) (map_to_list (cl_objs s))) by (rewrite E; left).
  apply elem_of_lfilter in Hin. destruct Hin as [Hin Hm]. apply elem_of_map_to_list in Hin. cbn [snd] in Hm.
  apply (H g t Hin), mineb_call, Hm.
Qed.

Lemma mine_list_cases s g t c : calls_uniq s -> cl_objs s !! g = Some t -> call_of t = Some c ->
  mine_list s c = [] \/ mine_list s c = [(g, t)].
Proof.
  intros Hk Hg Hc. unfold mine_list. apply all_eq_NoDup; [apply NoDup_lfilter, NoDup_map_to_list|].
  intros [g' t'] Hin. apply elem_of_lfilter in Hin. destruct Hin as [Hin Hm]. apply elem_of_map_to_list in Hin. cbn [snd] in Hm.
  apply mineb_call in Hm.
  assert (g' = g) by (eapply (k_uo _ s Hk); eassumption). subst g'. rewrite Hg in Hin. injection Hin as <-. reflexivity.
Qed.

Lemma c17_3_nil s ev c : mine_list s c = [] -> c17_3 s ev (c, ROk) = [].
Proof. intros H. rewrite c17_3_ok, H. reflexivity. Qed.

Lemma c17_clause3 cfg s ev : cl_reach cfg s -> calls_uniq s -> cl_fresh s ev = true ->
  c_rets (snd (cl_step cfg s ev)) ≫= c17_3 s ev = [].
Proof.
  intros Hr Hk Hf. pose proof (cl_reach_invA false cfg s Hr) as Hi.
  set (G := fun c => c17_3 s ev (c, ROk) = []).
  assert (HkG : K G s).
  { destruct Hk as [H1 H2 _ _]. split; [exact H1|exact H2| |].
    - intros g t c Hg Hd. unfold G. destruct t as [| call kind key st data n sub| |]; cbn [dcall] in Hd; try discriminate.
      destruct ((kind =? 6) || (kind =? 7)) eqn:E67; [|discriminate]. injection Hd as ->.
      destruct (mine_list_cases s g _ c ltac:(split; auto) Hg eq_refl) as [E|E]; [apply c17_3_nil, E|].
      rewrite c17_3_ok, E. apply orb_true_iff in E67.
      destruct E67 as [E67|E67]; apply N.eqb_eq in E67; subst kind; reflexivity.
    - intros c' Hin _. apply c17_3_nil, mine_list_nil. intros g t Hg. eapply H2; eassumption. }
  assert (Hrets : RetsG G (snd (cl_step cfg s ev))).
  { apply (cl_step_K G cfg s ev HkG).
    - intros id a ->. apply cl_fresh_spec in Hf. split; [exact Hf|]. apply c17_3_nil, mine_list_nil, Hf.
    - intros p Hp g t c Hg Hc Hs. unfold G.
      destruct (mine_list_cases s g t c Hk Hg Hc) as [E|E]; [apply c17_3_nil, E|].
      rewrite c17_3_ok, E, Hp.
      destruct t as [| call kind key st data n sub| |]; try reflexivity. cbn [site_ok] in Hs.
      destruct (kind =? 3) eqn:E3.
      { apply N.eqb_eq in E3. subst kind. destruct Hs as (x & mid & -> & Hmid & ->).
        destruct (ia_id false s Hi mid g Hmid) as (t' & Ht' & Hk'). rewrite Hg in Ht'. injection Ht' as <-.
        cbn [id_key N.eqb Pos.eqb orb] in Hk'. injection Hk' as ->. rewrite !N.eqb_refl. reflexivity. }
      destruct (kind =? 4) eqn:E4.
      { apply N.eqb_eq in E4. subst kind. destruct Hs as (mid & -> & Hmid & ->).
        destruct (ia_id false s Hi mid g Hmid) as (t' & Ht' & Hk'). rewrite Hg in Ht'. injection Ht' as <-.
        cbn [id_key N.eqb Pos.eqb orb] in Hk'. injection Hk' as ->. rewrite !N.eqb_refl. reflexivity. }
      destruct kind as [|q]; [reflexivity|]. destruct q as [q|q|]; try reflexivity;
        (destruct q as [q|q|]; try reflexivity; try discriminate E3);
        destruct q as [q|q|]; try reflexivity; discriminate E4. }
  unfold RetsG in Hrets. revert Hrets. generalize (c_rets (snd (cl_step cfg s ev))). intros l Hl.
  induction l as [|[c r] l IH]; [reflexivity|]. cbn [mbind list_bind]. rewrite IH by (intros c' H'; apply Hl; right; exact H').
  rewrite app_nil_r. destruct r; try reflexivity. apply (Hl c). left. reflexivity.
Qed.

(* without a condition on call ids, clauses 1 and 2 of C17 hold; only clause 3 can fail *)
Lemma chk_C17_clauses12 cfg s ev : wf_cl_cfg cfg -> cl_reach cfg s -> wf_cl_event ev ->
  chk_C17 cfg s ev (snd (cl_step cfg s ev)) =
  if negb (c_live s) then [] else c_rets (snd (cl_step cfg s ev)) ≫= c17_3 s ev.
Proof.
  intros Hcfg Hr Hev. rewrite chk_C17_parts. destruct (negb (c_live s)) eqn:El; [reflexivity|].
  apply negb_false_iff in El.
  assert (H1 : match ev_pkt ev with Some (Pubrel mid) => c17_1 cfg s mid (c_pkts (snd (cl_step cfg s ev))) | _ => [] end = []).
  { destruct ev as [id a|dg|d]; try reflexivity. cbn [ev_pkt].
    destruct (read_dgram dg) as [p|e|ps] eqn:Ed; try reflexivity. destruct p; try reflexivity.
    apply c17_clause1; assumption. }
  assert (H2 : match ev with CAdv _ => c_pkts (snd (cl_step cfg s ev)) ≫= dupf | _ => [] end = []).
  { destruct ev as [id a|dg|d]; try reflexivity. apply c17_clause2; assumption. }
  rewrite H1, H2. reflexivity.
Qed.

(* chk_C17_sound as required,
     wf_cl_cfg cfg -> cl_reach cfg s -> wf_cl_event ev -> chk_C17 cfg s ev (snd (cl_step cfg s ev)) = [],
   is FALSE when the harness re-uses the id of a call that has not returned yet: the checker
   attributes a nil return to "the" Publish transaction of that call id.  Counterexample (cfg
   without user): CCall 0 AConnect; CONNACK; CCall 1 (ARegister "a/b"); REGACK 5 1 0;
   CCall 7 (APublish "a/b" 1 false [1]); then CCall 7 (APublish "a/b" 0 false [1]) gives [1].
   Added hypotheses: calls_uniq s (pending calls have distinct ids; an invariant of histories
   whose calls satisfy cl_fresh: calls_uniq_init, calls_uniq_step) and the executable side
   condition cl_fresh s ev = true (a new call's id is not the id of a pending call). *)
Theorem chk_C17_partial cfg s ev : wf_cl_cfg cfg -> cl_reach cfg s -> wf_cl_event ev ->
  calls_uniq s -> cl_fresh s ev = true -> chk_C17 cfg s ev (snd (cl_step cfg s ev)) = [].
Proof.
  intros Hcfg Hr Hev Hk Hf. rewrite (chk_C17_clauses12 cfg s ev Hcfg Hr Hev).
  destruct (negb (c_live s)); [reflexivity|]. apply c17_clause3; assumption.
Qed.

(* ------------------------------------------------------------------ histories *)

(* P holds of (state before, event) at every step of the run of evs from s *)
Fixpoint cl_run_all (cfg : cl_cfg) (P : cl_state -> cl_event -> Prop) (s : cl_state) (evs : list cl_event) : Prop :=
  match evs with
  | [] => True
  | ev :: evs' => P s ev /\ cl_run_all cfg P (fst (cl_step cfg s ev)) evs'
  end.

Lemma cl_run_all_forall cfg (P : cl_state -> cl_event -> Prop) : (forall s ev, P s ev) -> forall evs s, cl_run_all cfg P s evs.
Proof. intros HP. induction evs as [|ev evs IH]; intros s; cbn [cl_run_all]; [exact I|split; [apply HP|apply IH]]. Qed.

Lemma cl_run_all_lift cfg (H Q : cl_state -> cl_event -> Prop) :
  (forall s ev, cl_reach cfg s -> wf_cl_event ev -> H s ev -> Q s ev) ->
  forall evs s, cl_reach cfg s -> Forall wf_cl_event evs -> cl_run_all cfg H s evs -> cl_run_all cfg Q s evs.
Proof.
  intros Hstep. induction evs as [|ev evs IH]; intros s Hr Hwf HH; cbn [cl_run_all] in *; [exact I|].
  inversion Hwf as [|? ? Hev Hevs]; subst. destruct HH as [H1 H2]. split.
  - apply Hstep; assumption.
  - apply IH; [apply cl_reach_step; assumption|exact Hevs|exact H2].
Qed.

Lemma cl_run_all_lift_inv cfg (Inv : cl_state -> Prop) (H Q : cl_state -> cl_event -> Prop) :
  (forall s ev, cl_reach cfg s -> wf_cl_event ev -> Inv s -> H s ev -> Inv (fst (cl_step cfg s ev))) ->
  (forall s ev, cl_reach cfg s -> wf_cl_event ev -> Inv s -> H s ev -> Q s ev) ->
  forall evs s, cl_reach cfg s -> Inv s -> Forall wf_cl_event evs -> cl_run_all cfg H s evs -> cl_run_all cfg Q s evs.
Proof.
  intros Hpres Hstep. induction evs as [|ev evs IH]; intros s Hr Hi Hwf HH; cbn [cl_run_all] in *; [exact I|].
  inversion Hwf as [|? ? Hev Hevs]; subst. destruct HH as [H1 H2]. split.
  - apply Hstep; assumption.
  - apply IH; [apply cl_reach_step; assumption|apply Hpres; assumption|exact Hevs|exact H2].
Qed.

(* every step of every history from cl_init is accepted *)
Theorem chk_C27_history cfg evs s : cl_run_all cfg (fun s ev => chk_C27 cfg s ev (snd (cl_step cfg s ev)) = []) s evs.
Proof. apply cl_run_all_forall. intros s' ev. apply chk_C27_sound. Qed.

Theorem chk_C31c_history cfg evs : wf_cl_cfg cfg -> Forall wf_cl_event evs ->
  cl_run_all cfg (fun s ev => chk_C31c cfg (snd (cl_step cfg s ev)) = []) cl_init evs.
Proof.
  intros Hcfg Hwf.
  apply (cl_run_all_lift cfg (fun _ _ => True)); [|apply cl_reach_init|exact Hwf|apply cl_run_all_forall; auto].
  intros s ev Hr _ _. apply chk_C31c_sound; assumption.
Qed.

Theorem chk_C23c_history cfg evs : wf_cl_cfg cfg -> Forall wf_cl_event evs ->
  cl_run_all cfg (fun s ev => chk_C23c (snd (cl_step cfg s ev)) = []) cl_init evs.
Proof.
  intros Hcfg Hwf.
  apply (cl_run_all_lift cfg (fun _ _ => True)); [|apply cl_reach_init|exact Hwf|apply cl_run_all_forall; auto].
  intros s ev Hr Hev _. apply chk_C23c_sound; assumption.
Qed.

(* ... of every history in which no call re-uses the id of a call that is still pending *)
Theorem chk_C17_history cfg evs : wf_cl_cfg cfg -> Forall wf_cl_event evs ->
  cl_run_all cfg (fun s ev => cl_fresh s ev = true) cl_init evs ->
  cl_run_all cfg (fun s ev => chk_C17 cfg s ev (snd (cl_step cfg s ev)) = []) cl_init evs.
Proof.
  intros Hcfg Hwf Hf.
  apply (cl_run_all_lift_inv cfg calls_uniq (fun s ev => cl_fresh s ev = true));
    [| |apply cl_reach_init|apply calls_uniq_init|exact Hwf|exact Hf].
  - intros s ev _ _ Hk He. apply calls_uniq_step; assumption.
  - intros s ev Hr Hev Hk He. apply chk_C17_partial; assumption.
Qed.

Print Assumptions chk_C23c_sound.
Print Assumptions chk_C27_sound.
Print Assumptions chk_C17_partial.
Print Assumptions chk_C31c_sound.
Print Assumptions chk_C23c_history.
Print Assumptions chk_C27_history.
Print Assumptions chk_C17_history.
Print Assumptions chk_C31c_history.
