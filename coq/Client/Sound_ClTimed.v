(* Client/Sound_ClTimed.v — soundness of the timed monitor of Checkers/ChkCl2.v (C28: every blocking
   API call returns within its bound, the client exits after Close / an unsolicited DISCONNECT;
   C17 clause 4: Publish QoS 1/2 returns nil only within the retry budget of the exchange's last
   progress) over all histories of the client model.

     cmon_sound : wf_cl_cfg cfg -> Forall wf_cl_event evs ->
       cl_run_all cfg (fun s ev => cl_fresh s ev = true) cl_init evs ->
       cl_run_all cfg (fun s ev => adv_ok cfg s ev = true) cl_init evs ->
       cmon_run cfg cl_init cmon_init evs = [].

   Side conditions (executable, checked along the run):
     cl_fresh  a new call's id is not the id of a pending call (Sound_Client.v);
     adv_ok    "the clock is not stuck": after a CAdv step no timer of the model is due at or before
               the new time and no exit of the receive loop is pending at or before it.  It can fail
               only when c_run_timers runs out of fuel (c_advance_fuel, capped at 100000); see
               ex_stuck_* below; ex_hist_adv_ok: ordinary histories satisfy it.
   Forall wf_cl_event is not used by the proof.

   Per step: cmon_step_ok (no failure and the invariant MI is kept).  The invariant (MI, Backed,
   ExitB in Sound_ClTimed_aux.v): every pending call of the monitor is backed by a live transaction
   object of the model with exactly one timer whose remaining retries end by the deadline minus the
   poll interval - or, once the group context is cancelled, the exit time of the receive loop is
   at most the deadline and the call is returned by c_exit; the exit deadline of Close is backed by
   the Close transaction in the same way.

   Finding made with this proof (model before the repair of sleepTransaction.startSleep): after
   Sleep(ms) from the active state had received the gateway's DISCONNECT, the transaction kept the
   state awaitingDisconnect, so every further DISCONNECT from the gateway restarted the wake-up timer:
   the return of Sleep could be postponed without bound, (28,1).  History: RetryCount 0, RetryDelay
   1000: Connect, CONNACK at 10, Sleep(100) at 10, DISCONNECT at 20 and then every 99 ms 700 times:
   Sleep returned RTimeout at 129420, deadline 62110.  With the state CtSleeping of the repaired
   client the theorem needs no side condition about it (handle_disconnect_Good). *)
From stdpp Require Import base option list numbers fin_maps nmap.
From Coq Require Import Lia ZArith ZifyN ZifyNat ZifyBool.
From RecordUpdate Require Import RecordSet.
From Verif.Base Require Import Bytes BytesProofs.
From Verif.Codec Require Import Packets Decode Encode EncodeProofs.
From Verif.Topics Require Import Predefined.
From Verif.Gateway Require Import GwTypes.
From Verif.Match Require Import Match MatchProofs.
From Verif.Client Require Import ClTypes ClStep Sound_Client_aux Sound_Client Sound_ClTimed_aux.
From Verif.Checkers Require Import ChkCodec ChkGw ChkCl ChkCl2.
Import RecordSetNotations.
Open Scope N_scope.
Ltac Zify.zify_post_hook ::= Z.div_mod_to_equations.

(* ------------------------------------------------------------------ side condition: the clock is not stuck *)
(* After an advance nothing is still due: no timer at or before the new time, no pending exit of
   the receive loop.  c_run_timers stops early only when its fuel (c_advance_fuel, capped at
   100000 iterations) runs out. *)
Definition adv_ok (cfg : cl_cfg) (s : cl_state) (ev : cl_event) : bool :=
  match ev with
  | CAdv d =>
    let s' := fst (cl_step cfg s ev) in
    forallb (fun tm => cl_now s' <? ctm_at tm) (cl_timers s') &&
    (cl_exited s' || match cl_cancelled s' with Some te => cl_now s' <? te | None => true end)
  | _ => true
  end.

Definition upd_ev (s : cl_state) (ev : cl_event) (p : pending) : pending :=
  match ev_pkt ev with Some (Pubrec mid) => upd_pubrec s mid p | _ => p end.
Definition ex_of (ev : cl_event) : option N := match ev with CCall id _ => Some id | _ => None end.

Lemma Good_then_exit cfg ex s s1 o1 : Good cfg ex s (s1, o1) -> cl_exited s1 = false ->
  Good cfg ex s (match cl_cancelled s1 with
                 | Some te => if te <=? cl_now s1 then match c_exit s1 te with (s2, o2) => (s2, o1 ++ o2) end else (s1, o1)
                 | None => (s1, o1) end).
Proof.
  intros G Hex. destruct (cl_cancelled s1) as [te|] eqn:Hca; [|exact G].
  destruct (te <=? cl_now s1) eqn:Ele; [|exact G]. apply N.leb_le in Ele.
  pose proof (gd_si _ _ _ _ G) as Hsi1. cbn [fst] in Hsi1.
  assert (G2 : Good cfg None s1 (c_exit s1 te)).
  { apply exit_Good; try assumption. intros tm Hi. pose proof (si_t1 s1 Hsi1 tm Hi). lia. }
  destruct (c_exit s1 te) as [s2 o2]. exact (Good_seq cfg ex s (s1, o1) (s2, o2) G G2).
Qed.

Record StepOk (cfg : cl_cfg) (s : cl_state) (ev : cl_event) : Prop := {
  so_g : GoodU cfg (ex_of ev) (upd_ev s ev) s (cl_step cfg s ev);
  so_new : forall id a, ev = CCall id a -> cl_exited s = false -> cl_cancelled s = None ->
             returned (snd (cl_step cfg s ev)) id = true \/ Backed cfg (fst (cl_step cfg s ev)) (newp cfg s id a);
  so_close : forall id, ev = CCall id AClose -> cl_exited s = false -> cl_cancelled s = None ->
             ExitB cfg (fst (cl_step cfg s ev)) (cl_now s + budget cfg + readTimeout);
  so_disc : forall dg d, ev = CGw dg -> read_dgram dg = Ok (Disconnect d) -> cl_exited s = false -> cl_cancelled s = None ->
             cl_by_type s !! TY_DISCONNECT = None -> ExitB cfg (fst (cl_step cfg s ev)) (cl_now s + readTimeout) }.

Lemma GoodU_ex cfg ex upd s r : GoodU cfg None upd s r -> GoodU cfg ex upd s r.
Proof. intros [G1 G2 G3 G4]. split; [exact G1| |exact G3|exact G4]. intros p Hb Hpr _. apply G2; [exact Hb|exact Hpr|discriminate]. Qed.

Lemma step_idle cfg s ev : SI s -> cl_step cfg s ev = (s, []) -> (cl_exited s = true \/ cl_cancelled s <> None) -> StepOk cfg s ev.
Proof.
  intros Hsi E Hdead. split; rewrite E; cbn [fst snd].
  - split; cbn [fst snd].
    + exact Hsi.
    + intros p Hb Hpr _. split; [apply RetT_nil|]. split; [apply RetP_nil|]. left.
      unfold upd_ev. destruct (ev_pkt ev) as [[]|]; try exact Hb.
      destruct (upd_pubrec_cases s mid p) as [->| ->]; [exact Hb|apply Backed_pr_mono; assumption].
    + intros T Hx. split; [exact Hx|intros te []].
    + intros He. left. exact He.
  - intros id a _ He Hc. destruct Hdead as [H|H]; congruence.
  - intros id _ He Hc. destruct Hdead as [H|H]; congruence.
  - intros dg d _ _ He Hc. destruct Hdead as [H|H]; congruence.
Qed.

Lemma step_ok cfg s ev : wf_cl_cfg cfg -> SI s -> K (fun _ => True) s -> InvA false s -> adv_ok cfg s ev = true ->
  StepOk cfg s ev.
Proof.
  intros Hcfg Hsi Hk Hia Hadv. destruct ev as [id a|dg|d].
  - (* an API call *)
    destruct (cl_exited s) eqn:Hex.
    { apply step_idle; [exact Hsi|unfold cl_step; rewrite Hex; reflexivity|left; exact Hex]. }
    destruct (cl_cancelled s) as [te0|] eqn:Hca.
    { apply step_idle; [exact Hsi|unfold cl_step; rewrite Hex, Hca; reflexivity|right; rewrite Hca; discriminate]. }
    destruct (do_call_ok cfg s id a Hcfg Hsi Hk Hia Hca) as [[Gc Hnew] Hclose].
    pose proof (do_call_ex cfg s id a) as Hex1. rewrite Hex in Hex1.
    assert (E : cl_step cfg s (CCall id a) =
                match cl_cancelled (fst (do_call cfg s id a)) with
                | Some te => if te <=? cl_now (fst (do_call cfg s id a))
                             then match c_exit (fst (do_call cfg s id a)) te with (s2, o2) => (s2, snd (do_call cfg s id a) ++ o2) end
                             else (fst (do_call cfg s id a), snd (do_call cfg s id a))
                | None => (fst (do_call cfg s id a), snd (do_call cfg s id a)) end).
    { unfold cl_step. rewrite Hex, Hca. destruct (do_call cfg s id a) as [s1 o1]. reflexivity. }
    destruct (do_call cfg s id a) as [s1 o1]. cbn [fst snd p_id newp] in *.
    pose proof (Good_then_exit cfg (Some id) s s1 o1 Gc Hex1) as G. rewrite <- E in G.
    split.
    + apply Good_GoodU. exact G.
    + intros id' a' E' _ _. injection E' as E1 E2. subst id' a'. rewrite E.
      destruct (cl_cancelled s1) as [te|] eqn:Hca1; [|exact Hnew]. destruct (te <=? cl_now s1) eqn:Ele; [|exact Hnew].
      apply N.leb_le in Ele. pose proof (gd_si _ _ _ _ Gc) as Hsi1. cbn [fst] in Hsi1.
      assert (G2 : Good cfg None s1 (c_exit s1 te)).
      { apply exit_Good; try assumption. intros tm Hi. pose proof (si_t1 s1 Hsi1 tm Hi). lia. }
      destruct (c_exit s1 te) as [s2 o2]. cbn [fst snd]. destruct Hnew as [Hnew|Hnew].
      * left. rewrite returned_app, Hnew. reflexivity.
      * destruct (gd_b _ _ _ _ G2 _ Hnew ltac:(discriminate)) as (_ & _ & [Hb|[Hr _]]); [right; exact Hb|left].
        cbn [snd p_id newp] in Hr. rewrite returned_app, Hr. apply orb_true_r.
    + intros id' E' _ _. injection E' as E1 E2. subst id' a. specialize (Hclose eq_refl). rewrite E.
      destruct (cl_cancelled s1) as [te|] eqn:Hca1; [|exact Hclose]. destruct (te <=? cl_now s1) eqn:Ele; [|exact Hclose].
      apply N.leb_le in Ele. pose proof (gd_si _ _ _ _ Gc) as Hsi1. cbn [fst] in Hsi1.
      assert (G2 : Good cfg None s1 (c_exit s1 te)).
      { apply exit_Good; try assumption. intros tm Hi. pose proof (si_t1 s1 Hsi1 tm Hi). lia. }
      destruct (c_exit s1 te) as [s2 o2]. cbn [fst snd]. apply (gd_x _ _ _ _ G2 _ Hclose).
    + intros dg d E'. discriminate E'.
  - (* a datagram *)
    destruct (cl_exited s) eqn:Hex.
    { apply step_idle; [exact Hsi|unfold cl_step; rewrite Hex; reflexivity|left; exact Hex]. }
    destruct (cl_cancelled s) as [te0|] eqn:Hca.
    { apply step_idle; [exact Hsi|unfold cl_step; rewrite Hex, Hca; reflexivity|right; rewrite Hca; discriminate]. }
    set (sr := s <| cl_last_read := cl_now s |>).
    assert (Hsir : SI sr) by apply SI_set_lr, Hsi.
    assert (Hkr : K (fun _ => True) sr) by (apply (K_frame _ s); [reflexivity|reflexivity|exact Hk]).
    assert (Hiar : InvA false sr) by (apply (invA_frame false s); [reflexivity|reflexivity|reflexivity|exact Hia]).
    assert (Hcar : cl_cancelled sr = None) by exact Hca.
    destruct (read_dgram dg) as [p|e|ps] eqn:Erd.
    + assert (E : cl_step cfg s (CGw dg) =
                match cl_cancelled (fst (handle_packet cfg sr p)) with
                | Some te => if te <=? cl_now (fst (handle_packet cfg sr p))
                             then match c_exit (fst (handle_packet cfg sr p)) te with (s2, o2) => (s2, snd (handle_packet cfg sr p) ++ o2) end
                             else (fst (handle_packet cfg sr p), snd (handle_packet cfg sr p))
                | None => (fst (handle_packet cfg sr p), snd (handle_packet cfg sr p)) end).
      { unfold cl_step. rewrite Hex, Hca. cbv zeta. rewrite Erd. fold sr. destruct (handle_packet cfg sr p) as [s1 o1]. reflexivity. }
      pose proof (handle_packet_ex cfg sr p) as Hex1. change (cl_exited sr) with (cl_exited s) in Hex1. rewrite Hex in Hex1.
      assert (Hgen : Good cfg None sr (handle_packet cfg sr p) ->
                (forall d, p = Disconnect d -> cl_by_type s !! TY_DISCONNECT = None ->
                           ExitB cfg (fst (handle_packet cfg sr p)) (cl_now s + readTimeout)) ->
                (forall mid, p <> Pubrec mid) -> StepOk cfg s (CGw dg)).
      { intros G0 Hd Hnp. destruct (handle_packet cfg sr p) as [s1 o1]. cbn [fst snd] in *.
        pose proof (Good_then_exit cfg None sr s1 o1 G0 Hex1) as G. rewrite <- E in G. apply Good_lr in G.
        split.
        - apply Good_GoodU in G. destruct G as [G1 G2 G3 G4]. split; [exact G1| |exact G3|exact G4].
          intros pnd Hb Hpr Hne. unfold upd_ev, ev_pkt. rewrite Erd. destruct p; try (apply G2; assumption). destruct (Hnp mid eq_refl).
        - intros id a E'. discriminate E'.
        - intros id E'. discriminate E'.
        - intros dg' d E' Erd' _ _ Hslot. injection E' as <-. rewrite Erd in Erd'. injection Erd' as ->.
          specialize (Hd d eq_refl Hslot). rewrite E.
          destruct (cl_cancelled s1) as [te|] eqn:Hca1; [|exact Hd]. destruct (te <=? cl_now s1) eqn:Ele; [|exact Hd].
          apply N.leb_le in Ele. pose proof (gd_si _ _ _ _ G0) as Hsi1. cbn [fst] in Hsi1.
          assert (G2 : Good cfg None s1 (c_exit s1 te)).
          { apply exit_Good; try assumption. intros tm Hi. pose proof (si_t1 s1 Hsi1 tm Hi). lia. }
          destruct (c_exit s1 te) as [s2 o2]. cbn [fst snd]. apply (gd_x _ _ _ _ G2 _ Hd). }
      destruct (simple_pkt p) eqn:Esp.
      * apply Hgen.
        -- apply handle_simple_Good; assumption.
        -- intros d ->. discriminate Esp.
        -- intros mid ->. discriminate Esp.
      * destruct p; try discriminate Esp.
        -- (* PUBREC *)
           destruct (handle_pubrec_GoodU cfg sr Hsir Hkr Hiar Hcar mid) as [GU Hcan].
           rewrite Hcan in E. rewrite <- surjective_pairing in E.
           split.
           ++ rewrite E. apply GoodU_lr in GU. destruct GU as [G1 G2 G3 G4]. split; [exact G1| |exact G3|exact G4].
              intros pnd Hb Hpr Hne. unfold upd_ev, ev_pkt. rewrite Erd. exact (G2 pnd Hb Hpr Hne).
           ++ intros id a E'. discriminate E'.
           ++ intros id E'. discriminate E'.
           ++ intros dg' d E' Erd'. injection E' as <-. rewrite Erd in Erd'. discriminate Erd'.
        -- (* DISCONNECT *)
           destruct (handle_disconnect_Good cfg sr Hcfg Hsir Hkr Hiar Hcar dur) as [G0 Hd].
           apply Hgen; [exact G0| |discriminate]. intros d _ Hslot. exact (Hd Hslot).
    + (* an undecodable datagram: the receive loop returns the error *)
      assert (E : cl_step cfg s (CGw dg) = c_exit (c_cancel_from_loop sr true) (cl_now sr)).
      { unfold cl_step. rewrite Hex, Hca. cbv zeta. rewrite Erd. fold sr. destruct (c_exit _ _). reflexivity. }
      destruct (cancel_loop_facts sr true false Hcar Hsir) as (_ & Csi & Co & Cca & Cex & Cwg & Cnow & _).
      assert (G1 : Good cfg None sr (c_cancel_from_loop sr true, [])).
      { refine (Good_cancel cfg None sr _ (cl_now sr) [] Hsir Hkr Csi Hcar Cca _ Co Cex Cwg _ _);
          [unfold readTimeout; lia|intros ? ? ? []|reflexivity]. }
      assert (G2 : Good cfg None (c_cancel_from_loop sr true) (c_exit (c_cancel_from_loop sr true) (cl_now sr))).
      { apply exit_Good; [exact Csi|exact Cca|rewrite Cex; exact Hex|]. intros tm Hi. pose proof (si_t1 _ Csi tm Hi). lia. }
      pose proof (Good_seq cfg None sr _ _ G1 G2) as G. cbn [fst snd app] in G. rewrite <- surjective_pairing in G.
      rewrite <- E in G. apply Good_lr in G. split.
      * apply Good_GoodU in G. destruct G as [Ga Gb Gc Gd]. split; [exact Ga| |exact Gc|exact Gd].
        intros pnd Hb Hpr Hne. unfold upd_ev, ev_pkt. rewrite Erd. apply Gb; assumption.
      * intros id a E'. discriminate E'.
      * intros id E'. discriminate E'.
      * intros dg' d E' Erd'. injection E' as <-. rewrite Erd in Erd'. discriminate Erd'.
    + assert (E : cl_step cfg s (CGw dg) = c_exit (c_cancel_from_loop sr true) (cl_now sr)).
      { unfold cl_step. rewrite Hex, Hca. cbv zeta. rewrite Erd. fold sr. destruct (c_exit _ _). reflexivity. }
      destruct (cancel_loop_facts sr true false Hcar Hsir) as (_ & Csi & Co & Cca & Cex & Cwg & Cnow & _).
      assert (G1 : Good cfg None sr (c_cancel_from_loop sr true, [])).
      { refine (Good_cancel cfg None sr _ (cl_now sr) [] Hsir Hkr Csi Hcar Cca _ Co Cex Cwg _ _);
          [unfold readTimeout; lia|intros ? ? ? []|reflexivity]. }
      assert (G2 : Good cfg None (c_cancel_from_loop sr true) (c_exit (c_cancel_from_loop sr true) (cl_now sr))).
      { apply exit_Good; [exact Csi|exact Cca|rewrite Cex; exact Hex|]. intros tm Hi. pose proof (si_t1 _ Csi tm Hi). lia. }
      pose proof (Good_seq cfg None sr _ _ G1 G2) as G. cbn [fst snd app] in G. rewrite <- surjective_pairing in G.
      rewrite <- E in G. apply Good_lr in G. split.
      * apply Good_GoodU in G. destruct G as [Ga Gb Gc Gd]. split; [exact Ga| |exact Gc|exact Gd].
        intros pnd Hb Hpr Hne. unfold upd_ev, ev_pkt. rewrite Erd. apply Gb; assumption.
      * intros id a E'. discriminate E'.
      * intros id E'. discriminate E'.
      * intros dg' d E' Erd'. injection E' as <-. rewrite Erd in Erd'. discriminate Erd'.
  - (* time passes *)
    unfold adv_ok in Hadv.
    assert (E : cl_step cfg s (CAdv d) =
                (fst (c_run_timers (c_advance_fuel cfg s d) cfg s (cl_now s + d)) <| cl_now := cl_now s + d |>,
                 snd (c_run_timers (c_advance_fuel cfg s d) cfg s (cl_now s + d)))).
    { unfold cl_step. destruct (c_run_timers _ _ _ _). reflexivity. }
    rewrite E in Hadv. cbn [fst] in Hadv.
    destruct (run_timers_Good cfg (cl_now s + d) Hcfg (c_advance_fuel cfg s d) s Hsi Hk Hia ltac:(lia)) as [G Hn].
    destruct (c_run_timers (c_advance_fuel cfg s d) cfg s (cl_now s + d)) as [s' o]. cbn [fst snd] in *.
    apply andb_true_iff in Hadv. destruct Hadv as [Ha1 Ha2]. rewrite forallb_forall in Ha1.
    pose proof (gd_si _ _ _ _ G) as Hsi'. cbn [fst] in Hsi'.
    assert (Hsi'' : SI (s' <| cl_now := cl_now s + d |>)).
    { destruct Hsi' as [H1 H2 H3 H4 H5 H6 H7]. split; cbn; try assumption.
      - intros tm Hi. specialize (Ha1 tm Hi). cbn in Ha1. apply N.ltb_lt in Ha1. lia.
      - lia.
      - intros te Hc He. cbn in Ha2. rewrite He, Hc in Ha2. cbn in Ha2. apply N.ltb_lt in Ha2. lia. }
    pose proof (Good_set_now cfg None s s' o (cl_now s + d) G Hsi'') as G'.
    split.
    + rewrite E. apply Good_GoodU. exact G'.
    + intros id a E'. discriminate E'.
    + intros id E'. discriminate E'.
    + intros dg d0 E'. discriminate E'.
Qed.

(* ------------------------------------------------------------------ the monitor next to the model *)
Lemma Backed_has cfg s p : Backed cfg s p -> has_obj s (p_id p) \/ in_wg s (p_id p).
Proof.
  intros [_ H]. destruct (cl_cancelled s); [apply H|]. destruct H as (g & t & Hg & Hc & _). left. exists g, t. auto.
Qed.

Lemma Backed_deadline cfg s p : SI s -> Backed cfg s p -> cl_now s <= p_deadline p.
Proof.
  intros Hsi [Hex H]. destruct (cl_cancelled s) as [te|] eqn:Hca.
  - destruct H as [H _]. pose proof (si_c1 s Hsi te Hca Hex). lia.
  - destruct H as (g & t & _ & _ & Hb). destruct (obj_bound_now _ _ _ _ _ _ _ Hsi Hb) as [H _]. unfold readTimeout in H. lia.
Qed.

Lemma ExitB_now cfg s T : SI s -> cl_exited s = false -> ExitB cfg s T -> cl_now s <= T.
Proof.
  intros Hsi Hex H. specialize (H Hex). destruct (cl_cancelled s) as [te|] eqn:Hca.
  - pose proof (si_c1 s Hsi te Hca Hex). lia.
  - destruct H as (g & t & _ & Hb). eapply close_bound_now; eassumption.
Qed.

Lemma c_exits_exit s te : c_exits (snd (c_exit s te)) <> [].
Proof. unfold c_exit. cbv zeta. cbn. discriminate. Qed.

Lemma step_now cfg s ev : c_exits (snd (cl_step cfg s ev)) = [] -> cl_now s <= cl_now (fst (cl_step cfg s ev)).
Proof.
  unfold cl_step. destruct ev as [id a|dg|d].
  - destruct (cl_exited s); [cbn; lia|]. destruct (cl_cancelled s); [cbn; lia|].
    pose proof (do_call_now cfg s id a) as Hn. destruct (do_call cfg s id a) as [s1 o1]. cbn [fst] in Hn.
    destruct (cl_cancelled s1) as [te|]; [|cbn; lia]. destruct (te <=? cl_now s1); [|cbn; lia].
    pose proof (c_exits_exit s1 te) as Hx. destruct (c_exit s1 te) as [s2 o2]. cbn [fst snd] in *.
    intros E. rewrite c_exits_app in E. apply app_eq_nil in E. destruct E as [_ E]. contradiction.
  - destruct (cl_exited s); [cbn; lia|]. destruct (cl_cancelled s); [cbn; lia|]. cbv zeta.
    destruct (read_dgram dg) as [p|e|ps].
    + pose proof (handle_packet_now cfg (s <| cl_last_read := cl_now s |>) p) as Hn.
      destruct (handle_packet cfg (s <| cl_last_read := cl_now s |>) p) as [s1 o1]. cbn [fst] in Hn.
      change (cl_now (s <| cl_last_read := cl_now s |>)) with (cl_now s) in Hn.
      destruct (cl_cancelled s1) as [te|]; [|cbn; lia]. destruct (te <=? cl_now s1); [|cbn; lia].
      pose proof (c_exits_exit s1 te) as Hx. destruct (c_exit s1 te) as [s2 o2]. cbn [fst snd] in *.
      intros E. rewrite c_exits_app in E. apply app_eq_nil in E. destruct E as [_ E]. contradiction.
    + match goal with |- context [c_exit ?X ?t] => pose proof (c_exits_exit X t) as Hx; destruct (c_exit X t) as [s2 o2] end.
      cbn [fst snd] in *. intros E. contradiction.
    + match goal with |- context [c_exit ?X ?t] => pose proof (c_exits_exit X t) as Hx; destruct (c_exit X t) as [s2 o2] end.
      cbn [fst snd] in *. intros E. contradiction.
  - destruct (c_run_timers _ _ _ _). cbn. lia.
Qed.

Lemma step_end_now cfg s d : cl_now (fst (cl_step cfg s (CAdv d))) = cl_now s + d.
Proof. unfold cl_step. destruct (c_run_timers _ _ _ _). reflexivity. Qed.

Lemma bind_nil {A B} (f : A -> list B) (l : list A) : (forall x, In x l -> f x = []) -> l ≫= f = [].
Proof.
  induction l as [|x l IH]; intros H; [reflexivity|]. cbn [mbind list_bind]. rewrite (H x) by (left; reflexivity).
  apply IH. intros y Hy. apply H. right. exact Hy.
Qed.

Record MI (cfg : cl_cfg) (s : cl_state) (m : cmon) : Prop := {
  mi_calls : forall p, In p (cm_calls m) -> p_over p = false /\ Backed cfg s p /\ p_progress p <= cl_now s;
  mi_exit : forall T, cm_exit_by m = Some T -> cl_exited s = false /\ ExitB cfg s T }.

Lemma upd_ev_fields s ev p :
  p_id (upd_ev s ev p) = p_id p /\ p_deadline (upd_ev s ev p) = p_deadline p /\ p_over (upd_ev s ev p) = p_over p /\
  p_pub (upd_ev s ev p) = p_pub p /\ (p_progress (upd_ev s ev p) = p_progress p \/ p_progress (upd_ev s ev p) = cl_now s).
Proof.
  unfold upd_ev. destruct (ev_pkt ev) as [[]|]; try (repeat split; left; reflexivity).
  destruct (upd_pubrec_cases s mid p) as [->| ->]; repeat split; [left|right]; reflexivity.
Qed.

Definition mark (t1 : N) (p : pending) : pending :=
  if p_deadline p <? t1 then {| p_id := p_id p; p_deadline := p_deadline p; p_progress := p_progress p; p_over := true; p_pub := p_pub p |} else p.

Lemma cmon_step_ok cfg s ev m : wf_cl_cfg cfg -> SI s -> K (fun _ => True) s -> InvA false s -> MI cfg s m ->
  cl_fresh s ev = true -> adv_ok cfg s ev = true ->
  snd (cmon_step cfg s ev (snd (cl_step cfg s ev)) m) = [] /\
  MI cfg (fst (cl_step cfg s ev)) (fst (cmon_step cfg s ev (snd (cl_step cfg s ev)) m)).
Proof.
  intros Hcfg Hsi Hk Hia [Mc Mx] Hfresh Hadv.
  destruct (step_ok cfg s ev Hcfg Hsi Hk Hia Hadv) as [[Gsi Gb Gx Ge] Snew Sclose Sdisc].
  pose proof (step_now cfg s ev) as Hnow.
  set (s' := fst (cl_step cfg s ev)) in *. set (os := snd (cl_step cfg s ev)) in *.
  set (t1 := c_step_end s ev).
  assert (Ht1' : match ev with CAdv d => cl_now s' = t1 | _ => t1 = cl_now s end).
  { unfold t1, c_step_end, s'. destruct ev; try reflexivity. apply step_end_now. }
  (* calls of pending entries are not the call being started *)
  assert (Hne : forall p, In p (cm_calls m) -> Some (p_id p) <> ex_of ev).
  { intros p Hp. destruct (Mc p Hp) as (_ & Hb & _). destruct ev as [id a| |]; try discriminate. cbn [ex_of]. intros E. injection E as E.
    apply cl_fresh_spec in Hfresh. destruct Hfresh as [F1 F2]. destruct (Backed_has _ _ _ Hb) as [(g & t & Hg & Hc)|(c' & Hi & Hc')].
    - apply (F1 g t Hg). congruence.
    - apply (F2 c' Hi). congruence. }
  assert (HF : forall p, In p (cm_calls m) ->
            RetT p os /\ RetP cfg p os /\ (Backed cfg s' (upd_ev s ev p) \/ returned os (p_id p) = true)).
  { intros p Hp. destruct (Mc p Hp) as (_ & Hb & Hpr). apply Gb; auto. }
  assert (HD : forall p, In p (cm_calls m) -> returned os (p_id p) = false -> t1 <= p_deadline p).
  { intros p Hp Hr. destruct (Mc p Hp) as (_ & Hb & _). destruct (HF p Hp) as (_ & _ & [Hb'|Hr']); [|congruence].
    destruct ev as [id a|dg|d]; try (rewrite Ht1'; eapply Backed_deadline; eassumption).
    rewrite <- Ht1'. pose proof (Backed_deadline cfg s' _ Gsi Hb') as H. destruct (upd_ev_fields s (CAdv d) p) as (_ & E & _). rewrite E in H. exact H. }
  unfold cmon_step. cbv zeta. fold os. fold t1.
  set (ret := fun id => existsb (fun r : N * N * cres => let '(id', _, _) := r in id' =? id) (c_ret_times os)).
  assert (Hret : forall id, ret id = returned os id) by reflexivity.
  split.
  - (* no failure *)
    cbn [snd].
    match goal with |- ?A ++ ?B ++ ?C ++ ?D = [] =>
      assert (QA : A = []); [|assert (QB : B = []); [|assert (QC : C = []); [|assert (QD : D = []); [|rewrite QA, QB, QC, QD; reflexivity]]]] end.
    + apply bind_nil. intros [[id t] r] Hi. destruct (List.filter _ (cm_calls m)) as [|p l'] eqn:Ef; [reflexivity|].
      assert (Hp : In p (List.filter (fun p => p_id p =? id) (cm_calls m))) by (rewrite Ef; left; reflexivity).
      apply filter_In in Hp. destruct Hp as [Hp Hid]. apply N.eqb_eq in Hid.
      destruct (HF p Hp) as (HT & _). specialize (HT id t r Hi (eq_sym Hid)).
      apply N.leb_le in HT. rewrite HT. reflexivity.
    + apply bind_nil. intros p Hp.
      match goal with |- context [existsb ?f ?l] => change (existsb f l) with (returned os (p_id p)) end.
      destruct (returned os (p_id p)) eqn:Hr; [rewrite andb_false_r; reflexivity|].
      specialize (HD p Hp Hr). apply N.ltb_ge in HD. rewrite HD, andb_false_r. reflexivity.
    + apply bind_nil. intros [[id t] r] Hi. destruct r; try reflexivity.
      destruct (List.filter _ (cm_calls m)) as [|p l'] eqn:Ef; [reflexivity|].
      assert (Hp : In p (List.filter (fun p => p_id p =? id) (cm_calls m))) by (rewrite Ef; left; reflexivity).
      apply filter_In in Hp. destruct Hp as [Hp Hid]. apply N.eqb_eq in Hid.
      destruct (HF p Hp) as (_ & HP & _). destruct (p_pub p) eqn:Epub; [|reflexivity].
      specialize (HP id t Hi (eq_sym Hid) Epub). apply N.leb_le in HP. rewrite HP. reflexivity.
    + destruct (cm_exit_by m) as [T|] eqn:Ex; [|reflexivity]. destruct (Mx T eq_refl) as [Hexs Hxb]. destruct (Gx T Hxb) as [Hxb' Hte].
      destruct (c_exits os) as [|te l] eqn:Eo.
      * assert (Hex' : cl_exited s' = false).
        { destruct (cl_exited s') eqn:E'; [|reflexivity]. destruct (Ge eq_refl) as [H|H]; [congruence|]. first [contradiction | (fold os in H; rewrite Eo in H; contradiction)]. }
        assert (HT : t1 <= T).
        { destruct ev as [id a|dg|d]; try (rewrite Ht1'; eapply ExitB_now; eassumption). rewrite <- Ht1'. eapply ExitB_now; eassumption. }
        apply N.ltb_ge in HT. rewrite HT. reflexivity.
      * try (fold os in Hte; rewrite Eo in Hte). specialize (Hte te ltac:(left; reflexivity)). cbn [existsb]. apply N.leb_le in Hte. rewrite Hte.
        cbn [orb negb]. rewrite andb_false_r. reflexivity.
  - (* the invariant *)
    cbn [fst].
    destruct (match c_exits os with [] => cl_exited s | _ :: _ => true end) eqn:Egone.
    { split; cbn; [intros p []|discriminate]. }
    assert (Hos : c_exits os = [] /\ cl_exited s = false) by (destruct (c_exits os); [auto|discriminate]).
    destruct Hos as [Eo Hexs].
    assert (Hex' : cl_exited s' = false).
    { destruct (cl_exited s') eqn:E'; [|reflexivity]. destruct (Ge eq_refl) as [H|H]; [congruence|]. first [contradiction | (fold os in H; rewrite Eo in H; contradiction)]. }
    specialize (Hnow Eo). fold s' in Hnow.
    split; cbn [cm_calls cm_exit_by].
    + intros p' Hp'.
      assert (Hold : forall q, In q (match ev_pkt ev with
                | Some (Pubrec mid) => map (fun p => match pub_exchange s (p_id p) with
                      | Some (key, CtAwaitPubrec) => if key =? mid then {| p_id := p_id p; p_deadline := p_deadline p; p_progress := cl_now s; p_over := p_over p; p_pub := p_pub p |} else p
                      | _ => p end)
                    (map (fun p => if p_deadline p <? t1 then {| p_id := p_id p; p_deadline := p_deadline p; p_progress := p_progress p; p_over := true; p_pub := p_pub p |} else p)
                         (List.filter (fun p => negb (ret (p_id p))) (cm_calls m)))
                | _ => map (fun p => if p_deadline p <? t1 then {| p_id := p_id p; p_deadline := p_deadline p; p_progress := p_progress p; p_over := true; p_pub := p_pub p |} else p)
                         (List.filter (fun p => negb (ret (p_id p))) (cm_calls m)) end) ->
                p_over q = false /\ Backed cfg s' q /\ p_progress q <= cl_now s').
      { intros q Hq.
        assert (Hq' : exists p, In p (cm_calls m) /\ returned os (p_id p) = false /\ q = upd_ev s ev p).
        { assert (Hm : forall p1, In p1 (map (fun p => if p_deadline p <? t1 then {| p_id := p_id p; p_deadline := p_deadline p; p_progress := p_progress p; p_over := true; p_pub := p_pub p |} else p)
                         (List.filter (fun p => negb (ret (p_id p))) (cm_calls m))) ->
                     In p1 (cm_calls m) /\ returned os (p_id p1) = false).
          { intros p1 H1. apply in_map_iff in H1. destruct H1 as (p & E & Hp). apply filter_In in Hp. destruct Hp as [Hp Hr].
            rewrite Hret in Hr. apply negb_true_iff in Hr. specialize (HD p Hp Hr). apply N.ltb_ge in HD. rewrite HD in E. subst p1. auto. }
          unfold upd_ev. destruct (ev_pkt ev) as [pk|]; [|destruct (Hm q Hq) as [A B]; exists q; auto].
          destruct pk; try (destruct (Hm q Hq) as [A B]; exists q; auto).
          apply in_map_iff in Hq. destruct Hq as (p1 & E & Hp1). destruct (Hm p1 Hp1) as [A B]. exists p1. split; [exact A|]. split; [exact B|].
          rewrite <- E. reflexivity. }
        destruct Hq' as (p & Hp & Hr & ->). destruct (Mc p Hp) as (Hov & _ & Hpr).
        destruct (HF p Hp) as (_ & _ & [Hb'|Hr']); [|congruence].
        destruct (upd_ev_fields s ev p) as (_ & _ & Eov & _ & Epr). split; [congruence|]. split; [exact Hb'|]. destruct Epr as [-> | ->]; lia. }
      destruct ev as [id a|dg|d]; try (apply Hold; exact Hp').
      match type of Hp' with In _ (if ?c then _ else _) => destruct c eqn:Elive end; [|apply Hold; exact Hp'].
      apply in_app_or in Hp'. destruct Hp' as [Hp'|[<-|[]]]; [apply Hold; exact Hp'|].
      apply andb_true_iff in Elive. destruct Elive as [El Er]. apply andb_true_iff in El. destruct El as [_ Elc].
      destruct (cl_cancelled s) eqn:Hca; [discriminate|]. apply negb_true_iff in Er. change (returned os id = false) in Er.
      destruct (Snew id a eq_refl Hexs eq_refl) as [H|H]; [fold os in H; congruence|]. fold s' in H.
      split; [reflexivity|]. split; [exact H|]. cbn [p_progress]. exact Hnow.
    + intros T HT. split; [exact Hex'|].
      destruct (cm_exit_by m) as [T0|] eqn:Ex.
      * destruct (T0 <? t1); [discriminate|]. injection HT as <-. destruct (Mx T0 eq_refl) as [_ Hxb]. apply (Gx T0 Hxb).
      * destruct ev as [id a|dg|d]; try discriminate.
        -- destruct a; try discriminate.
           destruct (negb (cl_exited s) && match cl_cancelled s with Some _ => false | None => true end) eqn:Elive; [|discriminate].
           injection HT as <-. apply andb_true_iff in Elive. destruct Elive as [_ Elc]. destruct (cl_cancelled s) eqn:Hca; [discriminate|].
           apply (Sclose id eq_refl Hexs eq_refl).
        -- destruct (read_dgram dg) as [pk| |] eqn:Erd; try discriminate. destruct pk; try discriminate.
           destruct (negb (cl_exited s) && match cl_cancelled s with Some _ => false | None => true end &&
                     match cl_by_type s !! TY_DISCONNECT with Some _ => false | None => true end) eqn:Elive; [|discriminate].
           injection HT as <-. apply andb_true_iff in Elive. destruct Elive as [Elive Esl]. apply andb_true_iff in Elive. destruct Elive as [_ Elc].
           destruct (cl_cancelled s) eqn:Hca; [discriminate|]. destruct (cl_by_type s !! TY_DISCONNECT) eqn:Hslot; [discriminate|].
           apply (Sdisc dg dur eq_refl Erd Hexs eq_refl eq_refl).
Qed.

(* ------------------------------------------------------------------ all histories *)
Lemma SI_init : SI cl_init.
Proof.
  split; cbn; try (intros ? []); try lia; try discriminate.
  - constructor.
  - auto.
Qed.

Lemma MI_init cfg : MI cfg cl_init cmon_init.
Proof. split; cbn; [intros p []|discriminate]. Qed.

Lemma cmon_run_sound cfg (Hcfg : wf_cl_cfg cfg) : forall evs s m,
  SI s -> K (fun _ => True) s -> InvA false s -> MI cfg s m ->
  cl_run_all cfg (fun s ev => cl_fresh s ev = true) s evs ->
  cl_run_all cfg (fun s ev => adv_ok cfg s ev = true) s evs ->
  cmon_run cfg s m evs = [].
Proof.
  induction evs as [|ev evs IH]; intros s m Hsi Hk Hia Hmi Hf Ha; [reflexivity|].
  cbn [cmon_run cl_run_all] in *. destruct Hf as [Hf1 Hf2]. destruct Ha as [Ha1 Ha2].
  destruct (cmon_step_ok cfg s ev m Hcfg Hsi Hk Hia Hmi Hf1 Ha1) as [E Hmi'].
  pose proof (gu_si _ _ _ _ _ (so_g _ _ _ (step_ok cfg s ev Hcfg Hsi Hk Hia Ha1))) as Hsi'.
  pose proof (calls_uniq_step cfg s ev Hk Hf1) as Hk'. pose proof (cl_step_invA false cfg s ev Hia) as Hia'.
  destruct (cl_step cfg s ev) as [s' os]. cbn [fst snd] in *.
  destruct (cmon_step cfg s ev os m) as [m' f]. cbn [fst snd] in *. subst f. cbn [app].
  apply IH; assumption.
Qed.

(* The timed monitor accepts every history of the client model in which call ids are fresh and
   the model's clock is not stuck (adv_ok).  Forall wf_cl_event is not needed. *)
Theorem cmon_sound cfg evs : wf_cl_cfg cfg -> Forall wf_cl_event evs ->
  cl_run_all cfg (fun s ev => cl_fresh s ev = true) cl_init evs ->
  cl_run_all cfg (fun s ev => adv_ok cfg s ev = true) cl_init evs ->
  cmon_run cfg cl_init cmon_init evs = [].
Proof.
  intros Hcfg _ Hf Ha. apply (cmon_run_sound cfg Hcfg evs cl_init cmon_init); try assumption.
  - apply SI_init.
  - apply K_init.
  - apply invA_init.
  - apply MI_init.
Qed.

(* per property: a fortiori no failure of C17 (4), of C28 (2), of C28 (1) *)
Corollary cmon_sound_17_4 cfg evs : wf_cl_cfg cfg -> Forall wf_cl_event evs ->
  cl_run_all cfg (fun s ev => cl_fresh s ev = true) cl_init evs ->
  cl_run_all cfg (fun s ev => adv_ok cfg s ev = true) cl_init evs ->
  List.filter (fun f => fst f =? 17) (cmon_run cfg cl_init cmon_init evs) = [].
Proof. intros H1 H2 H3 H4. rewrite (cmon_sound cfg evs H1 H2 H3 H4). reflexivity. Qed.

(* ------------------------------------------------------------------ examples *)
Definition ex_cfg (rd rc : N) : cl_cfg :=
  {| k_cid := [99]; k_user := []; k_pass := []; k_keepalive := 0; k_ctimeout := 5000; k_rdelay := rd; k_rcount := rc;
     k_clean := true; k_will := []; k_wmsg := []; k_wqos := 0; k_wretain := false; k_predef := [] |}.
Definition G (p : packet) : cl_event := CGw (pack p).

(* an ordinary history (connect, publishes QoS 1/2 with retries and late answers, ping, sleep with
   a repeated DISCONNECT, close) satisfies both side conditions *)
Definition ex_hist : list cl_event :=
  [CCall 0 AConnect; CAdv 4999; CAdv 1; CAdv 10; G (Connack 0);
   CCall 1 (APubPre 7 1 false [1]); CAdv 2999; G (Puback 7 1 0); CAdv 5000;
   CCall 2 (APubPre 7 2 false [1]); CAdv 2999; G (Pubrec 2); CAdv 10; G (Pubrec 2); CAdv 2989; G (Pubcomp 2);
   CCall 3 APing; CCall 4 (ARegister [97]); CAdv 500; CCall 5 APing; CAdv 100; G Pingresp; CAdv 5000;
   CCall 6 (ASleep 700); CAdv 10; G (Disconnect 1); CAdv 600; G (Disconnect 1); CAdv 600; CAdv 61000;
   CCall 7 (ASleep 700); CAdv 10; CAdv 700; G Pingresp; CAdv 10;
   CCall 8 AClose; CAdv 500; CCall 9 APing; CAdv 10000; CAdv 100000].
Example ex_hist_fresh : cl_run_all (ex_cfg 1000 2) (fun s ev => cl_fresh s ev = true) cl_init ex_hist.
Proof. vm_compute. repeat split. Qed.
Example ex_hist_adv_ok : cl_run_all (ex_cfg 1000 2) (fun s ev => adv_ok (ex_cfg 1000 2) s ev = true) cl_init ex_hist.
Proof. vm_compute. repeat split. Qed.
Example ex_hist_accepted : cmon_run (ex_cfg 1000 2) cl_init cmon_init ex_hist = [].
Proof. vm_compute. reflexivity. Qed.

(* the fuel of c_run_timers is capped at 100000 iterations: with RetryDelay 1 ms and 200000 retries
   one advance of 300 s leaves the clock stuck; adv_ok excludes the step, and without it the monitor
   reports (28,1) (an artefact of the model, not of the client) *)
Definition ex_stuck : list cl_event := [CCall 1 APing; CAdv 300000].
Example ex_stuck_not_ok : adv_ok (ex_cfg 1 200000) (fst (cl_step (ex_cfg 1 200000) cl_init (CCall 1 APing))) (CAdv 300000) = false.
Proof. vm_compute. reflexivity. Qed.
Example ex_stuck_fails : cmon_run (ex_cfg 1 200000) cl_init cmon_init ex_stuck = [(28, 1)].
Proof. vm_compute. reflexivity. Qed.

Print Assumptions cmon_sound.
Print Assumptions cmon_sound_17_4.
Print Assumptions cmon_step_ok.
