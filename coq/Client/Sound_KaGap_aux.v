(* Client/Sound_KaGap_aux.v — lemmas for Client/Sound_KaGap.v (C33 clause 1, the gap clause of Checkers/ChkCl4.v).
   Part A (lists of marks): the monitor merges the PINGREQ marks and the state-change marks of a step by time
     (changes first at equal times); when the marks are emitted in time order, folding gap_step over the
     merged list equals folding it in emission order (merge_fold), also under the monitor's time filter
     (merge_fold_filter); failures only accumulate (fold_nofail_prefix, nofail_filter). *)
From stdpp Require Import base option list numbers fin_maps nmap.
From Coq Require Import Lia ZArith ZifyN ZifyNat ZifyBool.
From RecordUpdate Require Import RecordSet.
From Verif.Base Require Import Bytes.
From Verif.Codec Require Import Packets Decode Encode.
From Verif.Topics Require Import Predefined.
From Verif.Gateway Require Import GwTypes.
From Verif.Match Require Import Match.
From Verif.Client Require Import ClTypes ClStep ClKeepalive Sound_Client_aux Sound_Client Sound_ClTimed_aux Sound_ClTimed Sound_Ka_aux.
From Verif.Checkers Require Import ChkCl4.
Import RecordSetNotations.
Open Scope N_scope.
Ltac Zify.zify_post_hook ::= Z.div_mod_to_equations.

(* ================================================================== Part A: marks *)
Definition is_ping (m : mark) : bool := match m with MkPing _ => true | MkChg _ _ => false end.
Definition is_chg (m : mark) : bool := negb (is_ping m).
Definition pingsOf (l : list mark) : list mark := List.filter is_ping l.
Definition chgsOf (l : list mark) : list mark := List.filter is_chg l.

(* every mark is at most as late as all the later ones *)
Fixpoint tsorted (l : list mark) : Prop :=
  match l with
  | [] => True
  | x :: r => (forall y, In y r -> mark_time x <= mark_time y) /\ tsorted r
  end.

Lemma tsorted_app a b : tsorted (a ++ b) <-> tsorted a /\ tsorted b /\ (forall x y, In x a -> In y b -> mark_time x <= mark_time y).
Proof.
  induction a as [|x a IH]; cbn [app tsorted].
  - split; [intros H; split; [exact I|split; [exact H|intros x y []]]|intros (_ & H & _); exact H].
  - rewrite IH. split.
    + intros (H1 & H2 & H3 & H4). split; [split; [|exact H2]|split; [exact H3|]].
      * intros y Hy. apply H1, in_or_app. left. exact Hy.
      * intros x' y [<-|Hx'] Hy; [apply H1, in_or_app; right; exact Hy|apply H4; assumption].
    + intros ((H1 & H2) & H3 & H4). split; [|split; [exact H2|split; [exact H3|]]].
      * intros y Hy. apply in_app_or in Hy. destruct Hy as [Hy|Hy]; [apply H1, Hy|apply H4; [left; reflexivity|exact Hy]].
      * intros x' y Hx' Hy. apply H4; [right; exact Hx'|exact Hy].
Qed.

Lemma tsorted_filter f l : tsorted l -> tsorted (List.filter f l).
Proof.
  induction l as [|x l IH]; intros H; [exact I|]. cbn [tsorted] in H. destruct H as [H1 H2]. cbn [List.filter].
  destruct (f x); [|apply IH, H2]. cbn [tsorted]. split; [|apply IH, H2].
  intros y Hy. apply filter_In in Hy. apply H1, Hy.
Qed.

Lemma tsorted_drop a y b : tsorted (a ++ y :: b) -> tsorted (a ++ b).
Proof.
  rewrite !tsorted_app. cbn [tsorted]. intros (H1 & (H2 & H3) & H4). split; [exact H1|split; [exact H3|]].
  intros x z Hx Hz. apply H4; [exact Hx|right; exact Hz].
Qed.

Lemma filter_filter_comm {A} (f h : A -> bool) l : List.filter f (List.filter h l) = List.filter h (List.filter f l).
Proof.
  induction l as [|x l IH]; [reflexivity|]. cbn [List.filter].
  destruct (h x) eqn:Eh, (f x) eqn:Ef; cbn [List.filter]; rewrite ?Eh, ?Ef, IH; reflexivity.
Qed.

Lemma pings_only l : chgsOf l = [] -> pingsOf l = l.
Proof.
  unfold chgsOf, pingsOf, is_chg. induction l as [|x l IH]; intros H; [reflexivity|]. cbn [List.filter] in *.
  destruct (is_ping x); cbn [negb] in H; [f_equal; apply IH, H|discriminate H].
Qed.
Lemma chgs_only l : pingsOf l = [] -> chgsOf l = l.
Proof.
  unfold chgsOf, pingsOf, is_chg. induction l as [|x l IH]; intros H; [reflexivity|]. cbn [List.filter] in *.
  destruct (is_ping x); cbn [negb]; [discriminate H|f_equal; apply IH, H].
Qed.

(* the list up to its first state change *)
Lemma first_chg_split l y c : chgsOf l = y :: c ->
  exists q r, l = q ++ y :: r /\ chgsOf q = [] /\ pingsOf q = q /\ chgsOf r = c /\ pingsOf l = q ++ pingsOf r.
Proof.
  unfold chgsOf, pingsOf, is_chg. induction l as [|x l IH]; intros H; [discriminate H|]. cbn [List.filter] in *.
  destruct (is_ping x) eqn:Ex; cbn [negb] in H.
  - destruct (IH H) as (q & r & -> & H1 & H2 & H3 & H4). exists (x :: q), r. cbn [app List.filter]. rewrite Ex. cbn [negb].
    split; [reflexivity|]. split; [exact H1|]. split; [f_equal; exact H2|]. split; [exact H3|]. f_equal. exact H4.
  - injection H as <- H. exists [], l. cbn [app List.filter]. auto.
Qed.

(* ------------------------------------------------------------------ gap_step *)
Lemma ltb_diag_false b T : (b <? T - T) = false.
Proof. apply N.ltb_ge. lia. Qed.

(* a PINGREQ and a state change at the same instant commute *)
Lemma gap_swap b acc T st :
  gap_step b (gap_step b acc (MkPing T)) (MkChg T st) = gap_step b (gap_step b acc (MkChg T st)) (MkPing T).
Proof.
  destruct acc as [[s0|] f]; cbn [gap_step]; rewrite ?ltb_diag_false; destruct (cstate_eqb st Active);
    cbn [gap_step]; rewrite ?ltb_diag_false, ?app_nil_r; reflexivity.
Qed.

Lemma fold_pings_chg b T st : forall q acc, (forall x, In x q -> x = MkPing T) ->
  fold_left (gap_step b) (q ++ [MkChg T st]) acc = fold_left (gap_step b) (MkChg T st :: q) acc.
Proof.
  induction q as [|p q IH]; intros acc H; [reflexivity|]. cbn [app fold_left].
  rewrite IH by (intros x Hx; apply H; right; exact Hx). cbn [fold_left].
  rewrite (H p ltac:(left; reflexivity)). rewrite gap_swap. reflexivity.
Qed.

(* failures only accumulate *)
Lemma gap_step_fails b acc m : exists f', snd (gap_step b acc m) = snd acc ++ f'.
Proof.
  destruct acc as [since f], m as [t|t st]; cbn [gap_step snd].
  - destruct since; eexists; [reflexivity|]. rewrite app_nil_r. reflexivity.
  - eexists. reflexivity.
Qed.
Lemma fold_gap_fails b l : forall acc, exists f', snd (fold_left (gap_step b) l acc) = snd acc ++ f'.
Proof.
  induction l as [|m l IH]; intros acc; cbn [fold_left]; [exists []; rewrite app_nil_r; reflexivity|].
  destruct (IH (gap_step b acc m)) as [f2 E2]. destruct (gap_step_fails b acc m) as [f1 E1].
  exists (f1 ++ f2). rewrite E2, E1, app_assoc. reflexivity.
Qed.
Lemma fold_nofail_acc b l acc : snd (fold_left (gap_step b) l acc) = [] -> snd acc = [].
Proof. intros H. destruct (fold_gap_fails b l acc) as [f' E]. rewrite E in H. apply app_eq_nil in H. apply H. Qed.
Lemma fold_nofail_prefix b l1 l2 acc : snd (fold_left (gap_step b) (l1 ++ l2) acc) = [] -> snd (fold_left (gap_step b) l1 acc) = [].
Proof. rewrite fold_left_app. apply fold_nofail_acc. Qed.

(* the accumulated failures do not influence the rest *)
Lemma gap_step_acc b since f m : gap_step b (since, f) m = (fst (gap_step b (since, []) m), f ++ snd (gap_step b (since, []) m)).
Proof.
  destruct m as [t|t st]; cbn [gap_step fst snd].
  - destruct since; cbn [fst snd]; [reflexivity|rewrite app_nil_r; reflexivity].
  - reflexivity.
Qed.
Lemma fold_gap_acc b l : forall since f,
  fold_left (gap_step b) l (since, f) =
  (fst (fold_left (gap_step b) l (since, [])), f ++ snd (fold_left (gap_step b) l (since, []))).
Proof.
  induction l as [|m l IH]; intros since f; cbn [fold_left]; [cbn; rewrite app_nil_r; reflexivity|].
  rewrite (gap_step_acc b since f m). rewrite IH.
  destruct (gap_step b (since, []) m) as [s1 f1] eqn:E1. cbn [fst snd].
  rewrite (IH s1 f1). cbn [fst snd]. rewrite app_assoc. reflexivity.
Qed.

(* ------------------------------------------------------------------ the merge *)
Lemma merge_nil_l fuel b : merge_marks fuel [] b = b.
Proof. destruct fuel; reflexivity. Qed.
Lemma merge_nil_r fuel a : merge_marks fuel a [] = a.
Proof. destruct fuel; [apply app_nil_r|destruct a; reflexivity]. Qed.

Lemma filter_length_le {A} (f : A -> bool) l : (length (List.filter f l) <= length l)%nat.
Proof. induction l as [|x l IH]; [reflexivity|]. cbn [List.filter]. destruct (f x); cbn [length]; lia. Qed.

Lemma merge_fold b : forall n E fuel acc, (length E <= n)%nat -> tsorted E ->
  (length (pingsOf E) + length (chgsOf E) <= fuel)%nat ->
  fold_left (gap_step b) (merge_marks fuel (pingsOf E) (chgsOf E)) acc = fold_left (gap_step b) E acc.
Proof.
  induction n as [|n IH]; intros E fuel acc Hn Hs Hf.
  { destruct E; [|cbn in Hn; lia]. cbn. rewrite merge_nil_l. reflexivity. }
  destruct E as [|e E']; [cbn; rewrite merge_nil_l; reflexivity|].
  cbn [length] in Hn. cbn [tsorted] in Hs. destruct Hs as [Hs1 Hs2].
  destruct e as [t|t st].
  - (* a PINGREQ first *)
    change (pingsOf (MkPing t :: E')) with (MkPing t :: pingsOf E') in *.
    change (chgsOf (MkPing t :: E')) with (chgsOf E') in *.
    destruct (chgsOf E') as [|y c] eqn:Ec.
    { rewrite merge_nil_r. rewrite (pings_only E' Ec). reflexivity. }
    cbn [length] in Hf. destruct fuel as [|fuel]; [lia|]. cbn [merge_marks]. cbn [mark_time].
    assert (Hy : In y E') by (assert (H : In y (chgsOf E')) by (rewrite Ec; left; reflexivity); apply filter_In in H; apply H).
    pose proof (Hs1 y Hy) as Hty. cbn [mark_time] in Hty.
    destruct (mark_time y <=? t) eqn:Ele.
    + (* the change is at the same instant: it is taken first *)
      apply N.leb_le in Ele. assert (Ety : mark_time y = t) by lia.
      destruct (first_chg_split E' y c Ec) as (q & r & EE & Hq1 & Hq2 & Hr & Hp).
      assert (Hqt : forall x, In x q -> x = MkPing t).
      { intros x Hx. assert (Hx' : In x E') by (rewrite EE; apply in_or_app; left; exact Hx).
        pose proof (Hs1 x Hx') as H1. cbn [mark_time] in H1.
        rewrite EE in Hs2. apply tsorted_app in Hs2. destruct Hs2 as (_ & _ & H3).
        pose proof (H3 x y Hx ltac:(left; reflexivity)) as H2.
        rewrite <- Hq2 in Hx. apply filter_In in Hx. destruct Hx as [_ Hx]. destruct x as [tx|tx stx]; [|discriminate Hx].
        cbn [mark_time] in *. f_equal. lia. }
      assert (Hyc : is_chg y = true).
      { assert (H : In y (chgsOf E')) by (rewrite Ec; left; reflexivity). apply filter_In in H. apply H. }
      destruct y as [ty|ty sty]; [discriminate Hyc|]. cbn [mark_time] in Ety. subst ty.
      set (E2 := MkPing t :: q ++ r).
      assert (HE2s : tsorted E2).
      { unfold E2. cbn [tsorted]. split.
        - intros z Hz. apply Hs1. rewrite EE. apply in_app_or in Hz. apply in_or_app. destruct Hz as [Hz|Hz]; [left; exact Hz|right; right; exact Hz].
        - rewrite EE in Hs2. eapply tsorted_drop, Hs2. }
      assert (HE2p : pingsOf E2 = MkPing t :: pingsOf E').
      { unfold E2. change (pingsOf (MkPing t :: q ++ r)) with (MkPing t :: pingsOf (q ++ r)). f_equal.
        unfold pingsOf in *. rewrite filter_app, Hq2. exact (eq_sym Hp). }
      assert (HE2c : chgsOf E2 = c).
      { unfold E2. change (chgsOf (MkPing t :: q ++ r)) with (chgsOf (q ++ r)). unfold chgsOf in *. rewrite filter_app, Hq1. exact Hr. }
      assert (HI : fold_left (gap_step b) (merge_marks fuel (pingsOf E2) (chgsOf E2)) (gap_step b acc (MkChg t sty)) =
                   fold_left (gap_step b) E2 (gap_step b acc (MkChg t sty))).
      { apply IH; [|exact HE2s|].
        - unfold E2. rewrite EE in Hn. cbn [length] in *. rewrite app_length in *. cbn [length] in Hn. lia.
        - rewrite HE2p, HE2c. cbn [length] in *. lia. }
      rewrite HE2p, HE2c in HI. cbn [fold_left]. rewrite HI.
      assert (HX : fold_left (gap_step b) (((MkPing t :: q) ++ [MkChg t sty]) ++ r) acc =
                   fold_left (gap_step b) ((MkChg t sty :: MkPing t :: q) ++ r) acc).
      { rewrite (fold_left_app _ _ r), (fold_left_app _ _ r). f_equal.
        apply fold_pings_chg. intros x [<-|Hx]; [reflexivity|apply Hqt, Hx]. }
      rewrite <- app_assoc in HX. unfold E2. rewrite EE. symmetry. exact HX.
    + (* the PINGREQ is strictly earlier *)
      cbn [fold_left]. rewrite <- Ec. apply IH; [lia|exact Hs2|]. rewrite Ec. cbn [length]. lia.
  - (* a state change first *)
    change (pingsOf (MkChg t st :: E')) with (pingsOf E') in *.
    change (chgsOf (MkChg t st :: E')) with (MkChg t st :: chgsOf E') in *.
    destruct (pingsOf E') as [|x p] eqn:Ep.
    { rewrite merge_nil_l. rewrite (chgs_only E' Ep). reflexivity. }
    cbn [length] in Hf. destruct fuel as [|fuel]; [lia|]. cbn [merge_marks].
    assert (Hx : In x E') by (assert (H : In x (pingsOf E')) by (rewrite Ep; left; reflexivity); apply filter_In in H; apply H).
    pose proof (Hs1 x Hx) as Htx. cbn [mark_time] in Htx.
    assert (Ele : (t <=? mark_time x) = true) by (apply N.leb_le; exact Htx). cbn [mark_time]. rewrite Ele.
    cbn [fold_left]. rewrite <- Ep. apply IH; [lia|exact Hs2|]. rewrite Ep. cbn [length]. lia.
Qed.

(* a time filter that keeps the earlier marks *)
Definition dclosed (f : mark -> bool) : Prop := forall x y, mark_time x <= mark_time y -> f y = true -> f x = true.

Lemma filter_all_false f l x : dclosed f -> f x = false -> (forall y, In y l -> mark_time x <= mark_time y) -> List.filter f l = [].
Proof.
  intros Hd Hx H. induction l as [|y l IH]; [reflexivity|]. cbn [List.filter].
  destruct (f y) eqn:Ey.
  - rewrite (Hd x y (H y ltac:(left; reflexivity)) Ey) in Hx. discriminate Hx.
  - apply IH. intros z Hz. apply H. right. exact Hz.
Qed.

Lemma filter_merge f (Hd : dclosed f) : forall fuel a c, tsorted a -> tsorted c -> (length a + length c <= fuel)%nat ->
  List.filter f (merge_marks fuel a c) = merge_marks fuel (List.filter f a) (List.filter f c).
Proof.
  induction fuel as [|fuel IH]; intros a c Ha Hc Hf.
  { destruct a; [|cbn in Hf; lia]. destruct c; [|cbn in Hf; lia]. reflexivity. }
  destruct a as [|x a'].
  { cbn [List.filter]. rewrite !merge_nil_l. reflexivity. }
  destruct c as [|y c'].
  { cbn [List.filter]. rewrite !merge_nil_r. reflexivity. }
  cbn [merge_marks]. cbn [tsorted] in Ha, Hc. destruct Ha as [Ha1 Ha2], Hc as [Hc1 Hc2]. cbn [length] in Hf.
  destruct (mark_time y <=? mark_time x) eqn:Ele.
  - apply N.leb_le in Ele. cbn [List.filter]. destruct (f y) eqn:Ey.
    + rewrite (IH (x :: a') c') by (cbn [tsorted length]; auto; lia).
      cbn [List.filter]. destruct (f x) eqn:Ex.
      * cbn [merge_marks]. assert (E : (mark_time y <=? mark_time x) = true) by (apply N.leb_le; exact Ele). rewrite E. reflexivity.
      * rewrite (filter_all_false f a' x Hd Ex Ha1). rewrite !merge_nil_l. reflexivity.
    + rewrite (IH (x :: a') c') by (cbn [tsorted length]; auto; lia).
      assert (Ex : f x = false) by (destruct (f x) eqn:Ex; [rewrite (Hd y x Ele Ex) in Ey; discriminate Ey|reflexivity]).
      cbn [List.filter]. rewrite Ex. rewrite (filter_all_false f a' x Hd Ex Ha1), (filter_all_false f c' y Hd Ey Hc1).
      rewrite !merge_nil_l. reflexivity.
  - apply N.leb_gt in Ele. cbn [List.filter]. destruct (f x) eqn:Ex.
    + rewrite (IH a' (y :: c')) by (cbn [tsorted length]; auto; lia).
      cbn [List.filter]. destruct (f y) eqn:Ey.
      * cbn [merge_marks]. assert (E : (mark_time y <=? mark_time x) = false) by (apply N.leb_gt; exact Ele). rewrite E. reflexivity.
      * rewrite (filter_all_false f c' y Hd Ey Hc1). rewrite !merge_nil_r. reflexivity.
    + rewrite (IH a' (y :: c')) by (cbn [tsorted length]; auto; lia).
      assert (Ey : f y = false) by (destruct (f y) eqn:Ey; [rewrite (Hd x y ltac:(lia) Ey) in Ex; discriminate Ex|reflexivity]).
      cbn [List.filter]. rewrite Ey. rewrite (filter_all_false f a' x Hd Ex Ha1), (filter_all_false f c' y Hd Ey Hc1).
      rewrite !merge_nil_l. reflexivity.
Qed.

Theorem merge_fold_filter b f E fuel acc : dclosed f -> tsorted E ->
  (length (pingsOf E) + length (chgsOf E) <= fuel)%nat ->
  fold_left (gap_step b) (List.filter f (merge_marks fuel (pingsOf E) (chgsOf E))) acc =
  fold_left (gap_step b) (List.filter f E) acc.
Proof.
  intros Hd Hs Hf.
  rewrite (filter_merge f Hd fuel) by (try apply tsorted_filter; assumption).
  unfold pingsOf, chgsOf. rewrite (filter_filter_comm f is_ping), (filter_filter_comm f is_chg).
  apply (merge_fold b (length (List.filter f E))); [reflexivity|apply tsorted_filter, Hs|].
  unfold pingsOf, chgsOf. rewrite <- (filter_filter_comm f is_ping), <- (filter_filter_comm f is_chg).
  pose proof (filter_length_le f (List.filter is_ping E)). pose proof (filter_length_le f (List.filter is_chg E)).
  unfold pingsOf, chgsOf in Hf. lia.
Qed.

Theorem merge_fold_all b E fuel acc : tsorted E -> (length (pingsOf E) + length (chgsOf E) <= fuel)%nat ->
  fold_left (gap_step b) (merge_marks fuel (pingsOf E) (chgsOf E)) acc = fold_left (gap_step b) E acc.
Proof. intros Hs Hf. apply (merge_fold b (length E)); [reflexivity|exact Hs|exact Hf]. Qed.

(* the filtered list is a prefix *)
Lemma nofail_filter b f l : dclosed f -> tsorted l -> forall since,
  snd (fold_left (gap_step b) l (since, [])) = [] -> snd (fold_left (gap_step b) (List.filter f l) (since, [])) = [].
Proof.
  intros Hd. induction l as [|x l IH]; intros Hs since H; [reflexivity|]. cbn [tsorted] in Hs. destruct Hs as [Hs1 Hs2].
  cbn [List.filter]. destruct (f x) eqn:Ex.
  - cbn [fold_left] in *. pose proof (fold_nofail_acc _ _ _ H) as H0.
    destruct (gap_step b (since, []) x) as [s1 f1]. cbn [snd] in H0. subst f1. apply IH; assumption.
  - rewrite (filter_all_false f l x Hd Ex Hs1). reflexivity.
Qed.
