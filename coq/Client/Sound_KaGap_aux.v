(* Client/Sound_KaGap_aux.v — lemmas for Client/Sound_KaGap.v (C33 clause 1, the gap clause of Checkers/ChkCl4.v).
   Part A (lists of marks): the monitor merges the PINGREQ marks and the state-change marks of a step by time
     (changes first at equal times); when the marks are emitted in time order, folding gap_step over the
     merged list equals folding it in emission order (merge_fold_all), also under a time filter that keeps the
     earlier marks (merge_fold_filter); a PINGREQ and a change at one instant commute (gap_swap); failures only
     accumulate (fold_nofail_prefix, nofail_filter); emarks: the marks of a list of outputs in emission order, and
     what kmon_step computes from them (mon_pings_emarks, mon_chgs_emarks).
   Part C (outputs of cl_step): OutOK - every datagram of a micro-step is written at the instant of the step and no
     call returns RCancelled (only c_exit does); run_timers_inst / cl_step_adv_inst: an advance to an instant T that is
     not later than any timer or the pending exit happens entirely AT T (sn_at), a return "cancelled" means the group
     is cancelled, timers never make the client active, the exit time of a cancelled group does not change;
     cl_step_user_out: the same for calls and datagrams.
   Part B (the loop's transaction object, the "busy half"): LO b g n tm s - object g is the ping of call b
     (CxRetry b 5 PINGREQ CtNone (Pingreq []) n b) and tm is its only timer, a retry timer.  Frame lemmas over all of
     cl_step: cl_step_user_LK (calls, datagrams: LO is kept unless CoRet _ b _ is among the outputs or the group is
     cancelled), cl_step_adv_LO (an advance to an instant T: LO is kept with the same timer, or the timer fired, a
     PINGREQ was written at T and the new timer is due at T + RetryDelay, or the call returned / the group is
     cancelled), ping_start (the loop's CCall id APing: one PINGREQ, a new object with its timer at now + RetryDelay).
   Part D: CB B s - the call identifiers of the live transactions are below B - is kept by cl_step (CB_step): the
     identifiers of the loop's internal calls are fresh.
   Part E: CT / cl_step_CT - when a step cancels the group, the exit time is between now and now + readTimeout;
     user_step_now_eq - calls and datagrams do not move the clock. *)
From stdpp Require Import base option list numbers fin_maps nmap.
From Coq Require Import Lia ZArith ZifyN ZifyNat ZifyBool.
From RecordUpdate Require Import RecordSet.
From Verif.Base Require Import Bytes.
From Verif.Codec Require Import Packets Decode Encode.
From Verif.Topics Require Import Predefined.
From Verif.Gateway Require Import GwTypes.
From Verif.Match Require Import Match.
From Verif.Client Require Import ClTypes ClStep ClKeepalive Sound_Client_aux Sound_Client Sound_ClTimed_aux Sound_ClTimed Sound_Ka_aux.
From Verif.Checkers Require Import ChkCl4.
Import RecordSetNotations.
Open Scope N_scope.
Ltac Zify.zify_post_hook ::= Z.div_mod_to_equations.

(* ================================================================== Part A: marks *)
Definition is_ping (m : mark) : bool := match m with MkPing _ => true | MkChg _ _ => false end.
Definition is_chg (m : mark) : bool := negb (is_ping m).
Definition pingsOf (l : list mark) : list mark := List.filter is_ping l.
Definition chgsOf (l : list mark) : list mark := List.filter is_chg l.

(* every mark is at most as late as all the later ones *)
Fixpoint tsorted (l : list mark) : Prop :=
  match l with
  | [] => True
  | x :: r => (forall y, In y r -> mark_time x <= mark_time y) /\ tsorted r
  end.

Lemma tsorted_app a b : tsorted (a ++ b) <-> tsorted a /\ tsorted b /\ (forall x y, In x a -> In y b -> mark_time x <= mark_time y).
Proof.
  induction a as [|x a IH]; cbn [app tsorted].
  - split; [intros H; split; [exact I|split; [exact H|intros x y []]]|intros (_ & H & _); exact H].
  - rewrite IH. split.
    + intros (H1 & H2 & H3 & H4). split; [split; [|exact H2]|split; [exact H3|]].
      * intros y Hy. apply H1, in_or_app. left. exact Hy.
      * intros x' y [<-|Hx'] Hy; [apply H1, in_or_app; right; exact Hy|apply H4; assumption].
    + intros ((H1 & H2) & H3 & H4). split; [|split; [exact H2|split; [exact H3|]]].
      * intros y Hy. apply in_app_or in Hy. destruct Hy as [Hy|Hy]; [apply H1, Hy|apply H4; [left; reflexivity|exact Hy]].
      * intros x' y Hx' Hy. apply H4; [right; exact Hx'|exact Hy].
Qed.

Lemma tsorted_filter f l : tsorted l -> tsorted (List.filter f l).
Proof.
  induction l as [|x l IH]; intros H; [exact I|]. cbn [tsorted] in H. destruct H as [H1 H2]. cbn [List.filter].
  destruct (f x); [|apply IH, H2]. cbn [tsorted]. split; [|apply IH, H2].
  intros y Hy. apply filter_In in Hy. apply H1, Hy.
Qed.

Lemma tsorted_drop a y b : tsorted (a ++ y :: b) -> tsorted (a ++ b).
Proof.
  rewrite !tsorted_app. cbn [tsorted]. intros (H1 & (H2 & H3) & H4). split; [exact H1|split; [exact H3|]].
  intros x z Hx Hz. apply H4; [exact Hx|right; exact Hz].
Qed.

Lemma filter_filter_comm {A} (f h : A -> bool) l : List.filter f (List.filter h l) = List.filter h (List.filter f l).
Proof.
  induction l as [|x l IH]; [reflexivity|]. cbn [List.filter].
  destruct (h x) eqn:Eh, (f x) eqn:Ef; cbn [List.filter]; rewrite ?Eh, ?Ef, IH; reflexivity.
Qed.

Lemma pings_only l : chgsOf l = [] -> pingsOf l = l.
Proof.
  unfold chgsOf, pingsOf, is_chg. induction l as [|x l IH]; intros H; [reflexivity|]. cbn [List.filter] in *.
  destruct (is_ping x); cbn [negb] in H; [f_equal; apply IH, H|discriminate H].
Qed.
Lemma chgs_only l : pingsOf l = [] -> chgsOf l = l.
Proof.
  unfold chgsOf, pingsOf, is_chg. induction l as [|x l IH]; intros H; [reflexivity|]. cbn [List.filter] in *.
  destruct (is_ping x); cbn [negb]; [discriminate H|f_equal; apply IH, H].
Qed.

(* the list up to its first state change *)
Lemma first_chg_split l y c : chgsOf l = y :: c ->
  exists q r, l = q ++ y :: r /\ chgsOf q = [] /\ pingsOf q = q /\ chgsOf r = c /\ pingsOf l = q ++ pingsOf r.
Proof.
  unfold chgsOf, pingsOf, is_chg. induction l as [|x l IH]; intros H; [discriminate H|]. cbn [List.filter] in *.
  destruct (is_ping x) eqn:Ex; cbn [negb] in H.
  - destruct (IH H) as (q & r & -> & H1 & H2 & H3 & H4). exists (x :: q), r. cbn [app List.filter]. rewrite Ex. cbn [negb].
    split; [reflexivity|]. split; [exact H1|]. split; [f_equal; exact H2|]. split; [exact H3|]. f_equal. exact H4.
  - injection H as <- H. exists [], l. cbn [app List.filter]. auto.
Qed.

(* ------------------------------------------------------------------ gap_step *)
Lemma ltb_diag_false b T : (b <? T - T) = false.
Proof. apply N.ltb_ge. lia. Qed.

(* a PINGREQ and a state change at the same instant commute *)
Lemma gap_swap b acc T st :
  gap_step b (gap_step b acc (MkPing T)) (MkChg T st) = gap_step b (gap_step b acc (MkChg T st)) (MkPing T).
Proof.
  destruct acc as [[s0|] f]; cbn [gap_step]; rewrite ?ltb_diag_false; destruct (cstate_eqb st Active);
    cbn [gap_step]; rewrite ?ltb_diag_false, ?app_nil_r; reflexivity.
Qed.

Lemma fold_pings_chg b T st : forall q acc, (forall x, In x q -> x = MkPing T) ->
  fold_left (gap_step b) (q ++ [MkChg T st]) acc = fold_left (gap_step b) (MkChg T st :: q) acc.
Proof.
  induction q as [|p q IH]; intros acc H; [reflexivity|]. cbn [app fold_left].
  rewrite IH by (intros x Hx; apply H; right; exact Hx). cbn [fold_left].
  rewrite (H p ltac:(left; reflexivity)). rewrite gap_swap. reflexivity.
Qed.

(* failures only accumulate *)
Lemma gap_step_fails b acc m : exists f', snd (gap_step b acc m) = snd acc ++ f'.
Proof.
  destruct acc as [since f], m as [t|t st]; cbn [gap_step snd].
  - destruct since; eexists; [reflexivity|]. rewrite app_nil_r. reflexivity.
  - eexists. reflexivity.
Qed.
Lemma fold_gap_fails b l : forall acc, exists f', snd (fold_left (gap_step b) l acc) = snd acc ++ f'.
Proof.
  induction l as [|m l IH]; intros acc; cbn [fold_left]; [exists []; rewrite app_nil_r; reflexivity|].
  destruct (IH (gap_step b acc m)) as [f2 E2]. destruct (gap_step_fails b acc m) as [f1 E1].
  exists (f1 ++ f2). rewrite E2, E1, app_assoc. reflexivity.
Qed.
Lemma fold_nofail_acc b l acc : snd (fold_left (gap_step b) l acc) = [] -> snd acc = [].
Proof. intros H. destruct (fold_gap_fails b l acc) as [f' E]. rewrite E in H. apply app_eq_nil in H. apply H. Qed.
Lemma fold_nofail_prefix b l1 l2 acc : snd (fold_left (gap_step b) (l1 ++ l2) acc) = [] -> snd (fold_left (gap_step b) l1 acc) = [].
Proof. rewrite fold_left_app. apply fold_nofail_acc. Qed.

(* the accumulated failures do not influence the rest *)
Lemma gap_step_acc b since f m : gap_step b (since, f) m = (fst (gap_step b (since, []) m), f ++ snd (gap_step b (since, []) m)).
Proof.
  destruct m as [t|t st]; cbn [gap_step fst snd].
  - destruct since; cbn [fst snd]; [reflexivity|rewrite app_nil_r; reflexivity].
  - reflexivity.
Qed.
Lemma fold_gap_acc b l : forall since f,
  fold_left (gap_step b) l (since, f) =
  (fst (fold_left (gap_step b) l (since, [])), f ++ snd (fold_left (gap_step b) l (since, []))).
Proof.
  induction l as [|m l IH]; intros since f; cbn [fold_left]; [cbn; rewrite app_nil_r; reflexivity|].
  rewrite (gap_step_acc b since f m). rewrite IH.
  destruct (gap_step b (since, []) m) as [s1 f1] eqn:E1. cbn [fst snd].
  rewrite (IH s1 f1). cbn [fst snd]. rewrite app_assoc. reflexivity.
Qed.

(* ------------------------------------------------------------------ the merge *)
Lemma merge_nil_l fuel b : merge_marks fuel [] b = b.
Proof. destruct fuel; reflexivity. Qed.
Lemma merge_nil_r fuel a : merge_marks fuel a [] = a.
Proof. destruct fuel; [apply app_nil_r|destruct a; reflexivity]. Qed.

Lemma filter_length_le {A} (f : A -> bool) l : (length (List.filter f l) <= length l)%nat.
Proof. induction l as [|x l IH]; [reflexivity|]. cbn [List.filter]. destruct (f x); cbn [length]; lia. Qed.

Lemma merge_fold b : forall n E fuel acc, (length E <= n)%nat -> tsorted E ->
  (length (pingsOf E) + length (chgsOf E) <= fuel)%nat ->
  fold_left (gap_step b) (merge_marks fuel (pingsOf E) (chgsOf E)) acc = fold_left (gap_step b) E acc.
Proof.
  induction n as [|n IH]; intros E fuel acc Hn Hs Hf.
  { destruct E; [|cbn in Hn; lia]. cbn. rewrite merge_nil_l. reflexivity. }
  destruct E as [|e E']; [cbn; rewrite merge_nil_l; reflexivity|].
  cbn [length] in Hn. cbn [tsorted] in Hs. destruct Hs as [Hs1 Hs2].
  destruct e as [t|t st].
  - (* a PINGREQ first *)
    change (pingsOf (MkPing t :: E')) with (MkPing t :: pingsOf E') in *.
    change (chgsOf (MkPing t :: E')) with (chgsOf E') in *.
    destruct (chgsOf E') as [|y c] eqn:Ec.
    { rewrite merge_nil_r. rewrite (pings_only E' Ec). reflexivity. }
    cbn [length] in Hf. destruct fuel as [|fuel]; [lia|]. cbn [merge_marks]. cbn [mark_time].
    assert (Hy : In y E') by (assert (H : In y (chgsOf E')) by (rewrite Ec; left; reflexivity); apply filter_In in H; apply H).
    pose proof (Hs1 y Hy) as Hty. cbn [mark_time] in Hty.
    destruct (mark_time y <=? t) eqn:Ele.
    + (* the change is at the same instant: it is taken first *)
      apply N.leb_le in Ele. assert (Ety : mark_time y = t) by lia.
      destruct (first_chg_split E' y c Ec) as (q & r & EE & Hq1 & Hq2 & Hr & Hp).
      assert (Hqt : forall x, In x q -> x = MkPing t).
      { intros x Hx. assert (Hx' : In x E') by (rewrite EE; apply in_or_app; left; exact Hx).
        pose proof (Hs1 x Hx') as H1. cbn [mark_time] in H1.
        rewrite EE in Hs2. apply tsorted_app in Hs2. destruct Hs2 as (_ & _ & H3).
        pose proof (H3 x y Hx ltac:(left; reflexivity)) as H2.
        rewrite <- Hq2 in Hx. apply filter_In in Hx. destruct Hx as [_ Hx]. destruct x as [tx|tx stx]; [|discriminate Hx].
        cbn [mark_time] in *. f_equal. lia. }
      assert (Hyc : is_chg y = true).
      { assert (H : In y (chgsOf E')) by (rewrite Ec; left; reflexivity). apply filter_In in H. apply H. }
      destruct y as [ty|ty sty]; [discriminate Hyc|]. cbn [mark_time] in Ety. subst ty.
      set (E2 := MkPing t :: q ++ r).
      assert (HE2s : tsorted E2).
      { unfold E2. cbn [tsorted]. split.
        - intros z Hz. apply Hs1. rewrite EE. apply in_app_or in Hz. apply in_or_app. destruct Hz as [Hz|Hz]; [left; exact Hz|right; right; exact Hz].
        - rewrite EE in Hs2. eapply tsorted_drop, Hs2. }
      assert (HE2p : pingsOf E2 = MkPing t :: pingsOf E').
      { unfold E2. change (pingsOf (MkPing t :: q ++ r)) with (MkPing t :: pingsOf (q ++ r)). f_equal.
        unfold pingsOf in *. rewrite filter_app, Hq2. exact (eq_sym Hp). }
      assert (HE2c : chgsOf E2 = c).
      { unfold E2. change (chgsOf (MkPing t :: q ++ r)) with (chgsOf (q ++ r)). unfold chgsOf in *. rewrite filter_app, Hq1. exact Hr. }
      assert (HI : fold_left (gap_step b) (merge_marks fuel (pingsOf E2) (chgsOf E2)) (gap_step b acc (MkChg t sty)) =
                   fold_left (gap_step b) E2 (gap_step b acc (MkChg t sty))).
      { apply IH; [|exact HE2s|].
        - unfold E2. rewrite EE in Hn. cbn [length] in *. rewrite app_length in *. cbn [length] in Hn. lia.
        - rewrite HE2p, HE2c. cbn [length] in *. lia. }
      rewrite HE2p, HE2c in HI. cbn [fold_left]. rewrite HI.
      assert (HX : fold_left (gap_step b) (((MkPing t :: q) ++ [MkChg t sty]) ++ r) acc =
                   fold_left (gap_step b) ((MkChg t sty :: MkPing t :: q) ++ r) acc).
      { rewrite (fold_left_app _ _ r), (fold_left_app _ _ r). f_equal.
        apply fold_pings_chg. intros x [<-|Hx]; [reflexivity|apply Hqt, Hx]. }
      rewrite <- app_assoc in HX. unfold E2. rewrite EE. symmetry. exact HX.
    + (* the PINGREQ is strictly earlier *)
      cbn [fold_left]. rewrite <- Ec. apply IH; [lia|exact Hs2|]. rewrite Ec. cbn [length]. lia.
  - (* a state change first *)
    change (pingsOf (MkChg t st :: E')) with (pingsOf E') in *.
    change (chgsOf (MkChg t st :: E')) with (MkChg t st :: chgsOf E') in *.
    destruct (pingsOf E') as [|x p] eqn:Ep.
    { rewrite merge_nil_l. rewrite (chgs_only E' Ep). reflexivity. }
    cbn [length] in Hf. destruct fuel as [|fuel]; [lia|]. cbn [merge_marks].
    assert (Hx : In x E') by (assert (H : In x (pingsOf E')) by (rewrite Ep; left; reflexivity); apply filter_In in H; apply H).
    pose proof (Hs1 x Hx) as Htx. cbn [mark_time] in Htx.
    assert (Ele : (t <=? mark_time x) = true) by (apply N.leb_le; exact Htx). cbn [mark_time]. rewrite Ele.
    cbn [fold_left]. rewrite <- Ep. apply IH; [lia|exact Hs2|]. rewrite Ep. cbn [length]. lia.
Qed.

(* a time filter that keeps the earlier marks *)
Definition dclosed (f : mark -> bool) : Prop := forall x y, mark_time x <= mark_time y -> f y = true -> f x = true.

Lemma filter_all_false f l x : dclosed f -> f x = false -> (forall y, In y l -> mark_time x <= mark_time y) -> List.filter f l = [].
Proof.
  intros Hd Hx H. induction l as [|y l IH]; [reflexivity|]. cbn [List.filter].
  destruct (f y) eqn:Ey.
  - rewrite (Hd x y (H y ltac:(left; reflexivity)) Ey) in Hx. discriminate Hx.
  - apply IH. intros z Hz. apply H. right. exact Hz.
Qed.

Lemma filter_merge f (Hd : dclosed f) : forall fuel a c, tsorted a -> tsorted c -> (length a + length c <= fuel)%nat ->
  List.filter f (merge_marks fuel a c) = merge_marks fuel (List.filter f a) (List.filter f c).
Proof.
  induction fuel as [|fuel IH]; intros a c Ha Hc Hf.
  { destruct a; [|cbn in Hf; lia]. destruct c; [|cbn in Hf; lia]. reflexivity. }
  destruct a as [|x a'].
  { cbn [List.filter]. rewrite !merge_nil_l. reflexivity. }
  destruct c as [|y c'].
  { cbn [List.filter]. rewrite !merge_nil_r. reflexivity. }
  cbn [merge_marks]. cbn [tsorted] in Ha, Hc. destruct Ha as [Ha1 Ha2], Hc as [Hc1 Hc2]. cbn [length] in Hf.
  destruct (mark_time y <=? mark_time x) eqn:Ele.
  - apply N.leb_le in Ele. cbn [List.filter]. destruct (f y) eqn:Ey.
    + rewrite (IH (x :: a') c') by (cbn [tsorted length]; auto; lia).
      cbn [List.filter]. destruct (f x) eqn:Ex.
      * cbn [merge_marks]. assert (E : (mark_time y <=? mark_time x) = true) by (apply N.leb_le; exact Ele). rewrite E. reflexivity.
      * rewrite (filter_all_false f a' x Hd Ex Ha1). rewrite !merge_nil_l. reflexivity.
    + rewrite (IH (x :: a') c') by (cbn [tsorted length]; auto; lia).
      assert (Ex : f x = false) by (destruct (f x) eqn:Ex; [rewrite (Hd y x Ele Ex) in Ey; discriminate Ey|reflexivity]).
      cbn [List.filter]. rewrite Ex. rewrite (filter_all_false f a' x Hd Ex Ha1), (filter_all_false f c' y Hd Ey Hc1).
      rewrite !merge_nil_l. reflexivity.
  - apply N.leb_gt in Ele. cbn [List.filter]. destruct (f x) eqn:Ex.
    + rewrite (IH a' (y :: c')) by (cbn [tsorted length]; auto; lia).
      cbn [List.filter]. destruct (f y) eqn:Ey.
      * cbn [merge_marks]. assert (E : (mark_time y <=? mark_time x) = false) by (apply N.leb_gt; exact Ele). rewrite E. reflexivity.
      * rewrite (filter_all_false f c' y Hd Ey Hc1). rewrite !merge_nil_r. reflexivity.
    + rewrite (IH a' (y :: c')) by (cbn [tsorted length]; auto; lia).
      assert (Ey : f y = false) by (destruct (f y) eqn:Ey; [rewrite (Hd x y ltac:(lia) Ey) in Ex; discriminate Ex|reflexivity]).
      cbn [List.filter]. rewrite Ey. rewrite (filter_all_false f a' x Hd Ex Ha1), (filter_all_false f c' y Hd Ey Hc1).
      rewrite !merge_nil_l. reflexivity.
Qed.

Theorem merge_fold_filter b f E fuel acc : dclosed f -> tsorted E ->
  (length (pingsOf E) + length (chgsOf E) <= fuel)%nat ->
  fold_left (gap_step b) (List.filter f (merge_marks fuel (pingsOf E) (chgsOf E))) acc =
  fold_left (gap_step b) (List.filter f E) acc.
Proof.
  intros Hd Hs Hf.
  rewrite (filter_merge f Hd fuel) by (try apply tsorted_filter; assumption).
  unfold pingsOf, chgsOf. rewrite (filter_filter_comm f is_ping), (filter_filter_comm f is_chg).
  apply (merge_fold b (length (List.filter f E))); [reflexivity|apply tsorted_filter, Hs|].
  unfold pingsOf, chgsOf. rewrite <- (filter_filter_comm f is_ping), <- (filter_filter_comm f is_chg).
  pose proof (filter_length_le f (List.filter is_ping E)). pose proof (filter_length_le f (List.filter is_chg E)).
  unfold pingsOf, chgsOf in Hf. lia.
Qed.

Theorem merge_fold_all b E fuel acc : tsorted E -> (length (pingsOf E) + length (chgsOf E) <= fuel)%nat ->
  fold_left (gap_step b) (merge_marks fuel (pingsOf E) (chgsOf E)) acc = fold_left (gap_step b) E acc.
Proof. intros Hs Hf. apply (merge_fold b (length E)); [reflexivity|exact Hs|exact Hf]. Qed.

(* the filtered list is a prefix *)
Lemma nofail_filter b f l : dclosed f -> tsorted l -> forall since,
  snd (fold_left (gap_step b) l (since, [])) = [] -> snd (fold_left (gap_step b) (List.filter f l) (since, [])) = [].
Proof.
  intros Hd. induction l as [|x l IH]; intros Hs since H; [reflexivity|]. cbn [tsorted] in Hs. destruct Hs as [Hs1 Hs2].
  cbn [List.filter]. destruct (f x) eqn:Ex.
  - cbn [fold_left] in *. pose proof (fold_nofail_acc _ _ _ H) as H0.
    destruct (gap_step b (since, []) x) as [s1 f1]. cbn [snd] in H0. subst f1. apply IH; assumption.
  - rewrite (filter_all_false f l x Hd Ex Hs1). reflexivity.
Qed.

(* ------------------------------------------------------------------ the marks of a list of outputs, in emission order *)
Definition emark (o : ka_out) : list mark :=
  match o with
  | KoCl (CoSn t dg) => if 0 <? pingreq_kind dg then [MkPing t] else []
  | KoState t st => [MkChg t st]
  | _ => []
  end.
Definition emarks (os : list ka_out) : list mark := os ≫= emark.
(* what kmon_step computes *)
Definition mon_pings (ios : list cl_out) : list mark :=
  (ios ≫= (fun o => match o with CoSn t dg => [(t, dg)] | _ => [] end)) ≫=
  (fun td => if 0 <? pingreq_kind (snd td) then [MkPing (fst td)] else []).
Definition mon_chgs (os : list ka_out) : list mark := map (fun c => MkChg (fst c) (snd c)) (ko_changes os).

Lemma emarks_cons x os : emarks (x :: os) = emark x ++ emarks os.
Proof. reflexivity. Qed.
Lemma emarks_app a b : emarks (a ++ b) = emarks a ++ emarks b.
Proof. unfold emarks. apply bind_app. Qed.
Lemma emarks_nil : emarks [] = [].
Proof. reflexivity. Qed.

Lemma mon_pings_emarks os : mon_pings (ko_cl os) = pingsOf (emarks os).
Proof.
  induction os as [|x os IH]; [reflexivity|]. rewrite emarks_cons. unfold pingsOf in *. rewrite filter_app, <- IH.
  destruct x as [c|t st|t id]; try reflexivity.
  destruct c as [t dg|t id r|t sub tp pl q rt dp mid|t]; try reflexivity.
  unfold mon_pings, ko_cl. cbn [mbind list_bind app emark snd fst].
  destruct (0 <? pingreq_kind dg); reflexivity.
Qed.
Lemma mon_chgs_emarks os : mon_chgs os = chgsOf (emarks os).
Proof.
  induction os as [|x os IH]; [reflexivity|]. rewrite emarks_cons. unfold chgsOf in *. rewrite filter_app, <- IH.
  destruct x as [c|t st|t id]; try reflexivity.
  destruct c as [t dg|t id r|t sub tp pl q rt dp mid|t]; try reflexivity.
  cbn [emark]. destruct (0 <? pingreq_kind dg); reflexivity.
Qed.
Lemma mon_lengths os : (length (mon_pings (ko_cl os)) + length (mon_chgs os) <= length (mon_pings (ko_cl os)) + length (ko_changes os))%nat.
Proof. unfold mon_chgs. rewrite map_length. lia. Qed.

(* ================================================================== Part C: the outputs of a micro-step *)
(* datagrams are written at the instant T; no call returns "cancelled" (only c_exit does that) *)
Definition out_ok (T : N) (x : cl_out) : Prop :=
  match x with CoSn t _ => t = T | CoRet _ _ r => r <> RCancelled | _ => True end.
Definition OutOK (T : N) (o : list cl_out) : Prop := forall x, In x o -> out_ok T x.
Lemma OutOK_nil T : OutOK T [].
Proof. intros x []. Qed.
Lemma OutOK_app T a b : OutOK T a -> OutOK T b -> OutOK T (a ++ b).
Proof. intros Ha Hb x H. apply in_app_or in H. destruct H; [apply Ha|apply Hb]; assumption. Qed.
Lemma OutOK_send s p : OutOK (cl_now s) (fst (c_send s p)).
Proof. destruct (c_send_spec s p) as [E|(E & _)]; rewrite E; cbn [fst]; [apply OutOK_nil|]. intros x [<-|[]]. reflexivity. Qed.
Lemma OutOK_ret T s call r : r <> RCancelled -> OutOK T (ret s call r).
Proof. intros Hr x [<-|[]]. exact Hr. Qed.
Lemma OutOK_dispatch T s topic p : OutOK T (dispatch s topic p).
Proof. unfold dispatch. destruct p; try apply OutOK_nil. destruct (handle_set _ _); [apply OutOK_nil|]. intros x [<-|[]]. exact I. Qed.

Lemma OutOK_send' T s p : cl_now s = T -> OutOK T (fst (c_send s p)).
Proof. intros <-. apply OutOK_send. Qed.

Ltac now_solve :=
  rewrite ?finish_now;
  first [reflexivity
        | cbn; rewrite ?finish_now; reflexivity
        | repeat match goal with |- context [if ?c then _ else _] => destruct c end; cbn; rewrite ?finish_now; reflexivity].

Ltac out_send T :=
  match goal with |- context [c_send ?X ?p] =>
    let Ho := fresh "Ho" in
    assert (Ho : OutOK T (fst (c_send X p))) by (apply OutOK_send'; now_solve);
    destruct (c_send X p) as [? [|]]; cbn [fst] in Ho
  end.

Ltac out_leaf :=
  cbn [fst snd];
  repeat first [ assumption | apply OutOK_nil | apply OutOK_app | apply OutOK_dispatch
               | apply OutOK_ret; discriminate ].

Lemma OutOK_connect cfg s call n : OutOK (cl_now s) (snd (connect_attempt cfg s call n)).
Proof. unfold connect_attempt, c_new_obj. cbv zeta. out_send (cl_now s); [|out_leaf]. destruct (_ =? 0); [out_leaf|]. out_send (cl_now s); out_leaf. Qed.

Lemma OutOK_complete cfg s g t r ic : r <> RCancelled -> OutOK (cl_now s) (snd (complete cfg s g t r ic)).
Proof.
  intros Hr. unfold complete. cbv zeta. rewrite <- (finish_now s g). generalize (c_finish_obj s g). intros s1.
  destruct (cl_cancelled s1); [apply OutOK_nil|].
  destruct t as [call att|call kind key st data n0 sub|call st n0 ms|mid pub]; cbn [snd].
  - destruct r; try (apply OutOK_ret; (exact Hr || discriminate)).
    destruct (_ <=? _); [apply OutOK_connect|apply OutOK_ret; discriminate].
  - destruct (kind =? 6); [destruct r; cbn [snd]; apply OutOK_ret; (exact Hr || discriminate)|].
    destruct (kind =? 7); [destruct r; cbn [snd]; apply OutOK_ret; (exact Hr || discriminate)|]. apply OutOK_ret, Hr.
  - apply OutOK_ret, Hr.
  - apply OutOK_nil.
Qed.

Lemma OutOK_complete' T cfg s g t r ic : cl_now s = T -> r <> RCancelled -> OutOK T (snd (complete cfg s g t r ic)).
Proof. intros <-. apply OutOK_complete. Qed.

Ltac out_walk T :=
  repeat first
    [ progress cbn [fst snd loop_err]
    | out_send T
    | match goal with |- OutOK _ (snd (complete ?c ?X ?g ?t ?r ?ic)) =>
        apply OutOK_complete'; [now_solve|discriminate] end
    | match goal with |- OutOK _ (snd (match ?x with _ => _ end)) => destruct x end
    | match goal with |- OutOK _ (snd (if ?x then _ else _)) => destruct x end
    | match goal with |- OutOK _ (snd (let (_, _) := ?x in _)) => destruct x end ].

Lemma OutOK_fire cfg s k : OutOK (cl_now s) (snd (c_fire cfg s k)).
Proof. unfold c_fire. destruct k; cbv zeta; out_walk (cl_now s); out_leaf. Qed.

Lemma OutOK_handle cfg s p : OutOK (cl_now s) (snd (handle_packet cfg s p)).
Proof. unfold handle_packet, c_new_obj. destruct p; cbv zeta; out_walk (cl_now s); out_leaf. Qed.

Lemma OutOK_do_call cfg s id a : OutOK (cl_now s) (snd (do_call cfg s id a)).
Proof.
  unfold do_call, call_simple, do_publish, start_retry, c_next_mid, c_new_obj.
  destruct a; cbv zeta; try apply OutOK_connect; out_walk (cl_now s); out_leaf.
Qed.

(* ------------------------------------------------------------------ the state and the cancellation under timers *)
Lemma connect_attempt_st cfg s call n : cl_st (fst (connect_attempt cfg s call n)) = cl_st s.
Proof. unfold connect_attempt, c_new_obj. cbv zeta. repeat match goal with |- context [c_send ?X ?p] => destruct (c_send X p) as [? [|]] end; try destruct (_ =? 0); reflexivity. Qed.
Lemma cancel_api_st s : cl_st (c_cancel_from_api s) = cl_st s.
Proof. unfold c_cancel_from_api. destruct (cl_cancelled s); reflexivity. Qed.
Lemma cancel_loop_st s e : cl_st (c_cancel_from_loop s e) = cl_st s.
Proof. unfold c_cancel_from_loop. destruct (cl_cancelled s); reflexivity. Qed.
Lemma complete_st cfg s g t r ic : cl_st (fst (complete cfg s g t r ic)) = cl_st s.
Proof.
  unfold complete. cbv zeta. rewrite <- (finish_st s g). generalize (c_finish_obj s g). intros s1.
  destruct (cl_cancelled s1); [destruct (cl_exited s1); reflexivity|].
  destruct t; try (cbn [fst]; reflexivity).
  - destruct r; try (cbn [fst]; reflexivity). destruct (_ <=? _); [apply connect_attempt_st|reflexivity].
  - destruct (_ =? 6); [destruct r; cbn [fst]; try reflexivity; apply cancel_api_st|].
    destruct (_ =? 7); [destruct r; cbn [fst]; try reflexivity; apply (cancel_loop_st s1 true)|]. reflexivity.
Qed.

Definition st_ok (s s' : cl_state) : Prop := cl_st s' = cl_st s \/ cl_st s' = Awake.
Lemma c_fire_st cfg s k : st_ok s (fst (c_fire cfg s k)).
Proof.
  unfold c_fire, st_ok. destruct k as [g|g|g|g|g]; (destruct (cl_objs s !! g) as [t|]; [|left; reflexivity]); destruct t; try (left; reflexivity);
    try (left; apply complete_st); cbv zeta.
  - destruct (_ <? _); [left; apply complete_st|].
    match goal with |- context [c_send ?X ?p] => destruct (c_send X p) as [? [|]] end; [left; reflexivity|left; rewrite complete_st; reflexivity].
  - destruct (_ <? _); [left; apply complete_st|].
    match goal with |- context [c_send ?X ?p] => destruct (c_send X p) as [? [|]] end; [left; reflexivity|left; rewrite complete_st; reflexivity].
  - match goal with |- context [c_send ?X ?p] => destruct (c_send X p) as [? [|]] end; [right; reflexivity|right; rewrite complete_st; reflexivity].
Qed.

Lemma complete_cancelled cfg s g t r ic te : cl_cancelled s = Some te -> cl_cancelled (fst (complete cfg s g t r ic)) = Some te.
Proof.
  intros H. unfold complete. cbv zeta. rewrite <- (c_finish_obj_cancelled s g) in H. generalize dependent (c_finish_obj s g). intros s1 H.
  rewrite H. destruct (cl_exited s1); exact H.
Qed.
Lemma c_fire_cancelled cfg s k te : cl_cancelled s = Some te -> cl_cancelled (fst (c_fire cfg s k)) = Some te.
Proof.
  intros H. unfold c_fire.
  destruct k as [g|g|g|g|g]; (destruct (cl_objs s !! g) as [t|]; [|exact H]); destruct t; try exact H;
    try (apply complete_cancelled; exact H); cbv zeta.
  - destruct (_ <? _); [apply complete_cancelled; exact H|].
    match goal with |- context [c_send ?X ?p] => destruct (c_send X p) as [? [|]] end; [exact H|apply complete_cancelled; exact H].
  - destruct (_ <? _); [apply complete_cancelled; exact H|].
    match goal with |- context [c_send ?X ?p] => destruct (c_send X p) as [? [|]] end; [exact H|apply complete_cancelled; exact H].
  - match goal with |- context [c_send ?X ?p] => destruct (c_send X p) as [? [|]] end; [exact H|apply complete_cancelled; exact H].
Qed.

(* ------------------------------------------------------------------ an advance to an instant T at which everything due is due exactly *)
Definition sn_at (T : N) (o : list cl_out) : Prop := forall t dg, In (CoSn t dg) o -> t = T.
Definition rcancd (o : list cl_out) : Prop := exists t id, In (CoRet t id RCancelled) o.
Lemma sn_at_nil T : sn_at T []. Proof. intros t dg []. Qed.
Lemma sn_at_app T a b : sn_at T a -> sn_at T b -> sn_at T (a ++ b).
Proof. intros Ha Hb t dg H. apply in_app_or in H. destruct H; [eapply Ha|eapply Hb]; eassumption. Qed.
Lemma OutOK_sn_at T o : OutOK T o -> sn_at T o.
Proof. intros H t dg Hi. exact (H _ Hi). Qed.
Lemma OutOK_no_rc T o : OutOK T o -> ~ rcancd o.
Proof. intros H (t & id & Hi). exact (H _ Hi eq_refl). Qed.
Lemma rcancd_app a b : rcancd (a ++ b) -> rcancd a \/ rcancd b.
Proof. intros (t & id & H). apply in_app_or in H. destruct H; [left|right]; exists t, id; assumption. Qed.
Lemma sn_at_exit T s te : sn_at T (snd (c_exit s te)).
Proof.
  intros t dg H. exfalso. unfold c_exit in H. cbv zeta in H. cbn [snd] in H. destruct H as [H|H]; [discriminate H|].
  apply elem_of_list_In, elem_of_list_bind in H. destruct H as (c & H & _). destruct (c mod 2 =? 0); apply elem_of_list_In in H; destruct H as [H|[]]; discriminate H.
Qed.

Definition Inst (s : cl_state) (T : N) : Prop :=
  cl_now s <= T /\ (forall tm, In tm (cl_timers s) -> T <= ctm_at tm) /\
  (forall te, cl_cancelled s = Some te -> cl_exited s = false -> T <= te).
Lemma SI_Inst s : SI s -> Inst s (cl_now s).
Proof. intros H. split; [lia|]. split; [apply (si_t1 s H)|apply (si_c1 s H)]. Qed.

Lemma run_timers_inst cfg T (Hcfg : wf_cl_cfg cfg) : forall fuel s, SI s -> K (fun _ => True) s -> InvA false s -> Inst s T ->
  sn_at T (snd (c_run_timers fuel cfg s T)) /\
  (rcancd (snd (c_run_timers fuel cfg s T)) -> canc (fst (c_run_timers fuel cfg s T))) /\
  (cl_st (fst (c_run_timers fuel cfg s T)) = Active -> cl_st s = Active) /\
  (forall te, cl_cancelled s = Some te -> cl_cancelled (fst (c_run_timers fuel cfg s T)) = Some te).
Proof.
  induction fuel as [|fuel IH]; intros s Hsi Hk Hia (Hn & Htm & Hte); cbn [c_run_timers].
  { split; [apply sn_at_nil|]. split; [intros (t & id & [])|]. auto. }
  cbv zeta.
  assert (Hnone : sn_at T (@nil cl_out) /\ (rcancd (@nil cl_out) -> canc s) /\ (cl_st s = Active -> cl_st s = Active) /\
                  (forall te, cl_cancelled s = Some te -> cl_cancelled s = Some te)).
  { split; [apply sn_at_nil|]. split; [intros (t & id & [])|]. auto. }
  assert (Hexit : forall te, (if cl_exited s then None else cl_cancelled s) = Some te -> te <= T ->
            (forall tm, In tm (cl_timers s) -> te <= ctm_at tm) ->
            SI (fst (c_exit s te)) /\ K (fun _ => True) (fst (c_exit s te)) /\ InvA false (fst (c_exit s te)) /\ Inst (fst (c_exit s te)) T /\
            canc (fst (c_exit s te))).
  { intros te Hx Hle Ht. destruct (cl_exited s) eqn:Hex; [discriminate|].
    pose proof (exit_Good cfg s te Hsi Hx Hex Ht) as G. split; [apply (gd_si _ _ _ _ G)|].
    split; [apply c_exit_K, Hk|]. split; [apply c_exit_invA, Hia|]. split.
    - split; [cbn; exact Hle|]. split; [exact Htm|]. intros te' _ He. cbn in He. discriminate He.
    - unfold canc. cbn. rewrite Hx. discriminate. }
  destruct (c_min_timer (cl_timers s)) as [tm|] eqn:Emin.
  - destruct (c_min_timer_spec _ _ Emin) as [Hin Hmin].
    destruct ((ctm_at tm <=? T) && match (if cl_exited s then None else cl_cancelled s) with Some te => ctm_at tm <? te | None => true end) eqn:Edue.
    + apply andb_true_iff in Edue. destruct Edue as [Ed Eb]. apply N.leb_le in Ed.
      assert (Hbe : forall te, cl_cancelled s = Some te -> cl_exited s = false -> ctm_at tm < te).
      { intros te Hc He. rewrite He, Hc in Eb. apply N.ltb_lt, Eb. }
      assert (EtT : ctm_at tm = T) by (specialize (Htm tm Hin); lia).
      pose proof (fire_Good cfg s tm Hcfg Hsi Hk Hia Hin Hmin Hbe) as G1.
      change (s <| cl_now := ctm_at tm |> <| cl_timers := List.filter (fun u => negb (ctm_seq u =? ctm_seq tm)) (cl_timers s) |>)
        with (fire_pre s tm).
      pose proof (c_fire_now cfg (fire_pre s tm) (ctm_kind tm)) as Hn1.
      pose proof (OutOK_fire cfg (fire_pre s tm) (ctm_kind tm)) as Ho1.
      pose proof (c_fire_st cfg (fire_pre s tm) (ctm_kind tm)) as Hst1.
      pose proof (c_fire_cancelled cfg (fire_pre s tm) (ctm_kind tm)) as Hca1.
      assert (Hk1 : K (fun _ => True) (fst (c_fire cfg (fire_pre s tm) (ctm_kind tm)))).
      { apply c_fire_K. apply (K_frame _ s); [reflexivity|reflexivity|exact Hk]. }
      assert (Hia1 : InvA false (fst (c_fire cfg (fire_pre s tm) (ctm_kind tm)))).
      { apply c_fire_invA. apply (invA_frame false s); [reflexivity|reflexivity|reflexivity|exact Hia]. }
      change (cl_now (fire_pre s tm)) with (ctm_at tm) in Hn1, Ho1. rewrite EtT in Hn1, Ho1.
      destruct (c_fire cfg (fire_pre s tm) (ctm_kind tm)) as [s1 o1]. cbn [fst snd] in *.
      pose proof (gd_si _ _ _ _ G1) as Hsi1. cbn [fst] in Hsi1.
      assert (Hin1 : Inst s1 T) by (rewrite <- Hn1; apply SI_Inst, Hsi1).
      destruct (IH s1 Hsi1 Hk1 Hia1 Hin1) as (I1 & I2 & I3 & I4).
      destruct (c_run_timers fuel cfg s1 T) as [s2 o2]. cbn [fst snd] in *.
      split; [apply sn_at_app; [apply OutOK_sn_at, Ho1|exact I1]|]. split; [|split].
      * intros H. apply rcancd_app in H. destruct H as [H|H]; [destruct (OutOK_no_rc _ _ Ho1 H)|apply I2, H].
      * intros H. specialize (I3 H). unfold st_ok in Hst1. change (cl_st (fire_pre s tm)) with (cl_st s) in Hst1.
        destruct Hst1 as [E|E]; [congruence|rewrite E in I3; discriminate I3].
      * intros te Hc. apply I4, Hca1. exact Hc.
    + destruct (if cl_exited s then None else cl_cancelled s) as [te|] eqn:Ex; [|exact Hnone].
      destruct (te <=? T) eqn:Ele; [|exact Hnone]. apply N.leb_le in Ele.
      destruct (Hexit te eq_refl Ele) as (Hsi1 & Hk1 & Hia1 & Hin1 & Hc1).
      { intros u Hu. specialize (Hmin u Hu). apply andb_false_iff in Edue. destruct Edue as [E|E].
        - apply N.leb_gt in E. lia.
        - apply N.ltb_ge in E. lia. }
      pose proof (sn_at_exit T s te) as Hs1.
      assert (Hst1 : cl_st (fst (c_exit s te)) = cl_st s) by reflexivity.
      assert (Hca1 : cl_cancelled (fst (c_exit s te)) = cl_cancelled s) by reflexivity.
      destruct (c_exit s te) as [s1 o1]. cbn [fst snd] in *.
      destruct (IH s1 Hsi1 Hk1 Hia1 Hin1) as (I1 & I2 & I3 & I4).
      pose proof (run_timers_canc cfg T fuel s1 Hc1) as Hc2.
      destruct (c_run_timers fuel cfg s1 T) as [s2 o2]. cbn [fst snd] in *.
      split; [apply sn_at_app; assumption|]. split; [intros _; exact Hc2|]. split; [intros H; rewrite <- Hst1; apply I3, H|].
      intros te' Hc. apply I4. rewrite Hca1. exact Hc.
  - destruct (if cl_exited s then None else cl_cancelled s) as [te|] eqn:Ex; [|exact Hnone].
    destruct (te <=? T) eqn:Ele; [|exact Hnone]. apply N.leb_le in Ele.
    destruct (Hexit te eq_refl Ele) as (Hsi1 & Hk1 & Hia1 & Hin1 & Hc1).
    { intros u Hu. destruct (cl_timers s); [destruct Hu|]. cbn in Emin. destruct (c_min_timer l); [destruct (c_earlier _ _)|]; discriminate. }
    split; [apply sn_at_exit|]. split; [intros _; exact Hc1|]. split; [intros H; exact H|]. intros te' Hc. exact Hc.
Qed.

(* ================================================================== Part B: the loop's transaction object *)
Definition retb (b : N) (o : list cl_out) : Prop := exists t r, In (CoRet t b r) o.
Lemma retb_app_l b o1 o2 : retb b o1 -> retb b (o1 ++ o2).
Proof. intros (t & r & H). exists t, r. apply in_or_app. left. exact H. Qed.
Lemma retb_app_r b o1 o2 : retb b o2 -> retb b (o1 ++ o2).
Proof. intros (t & r & H). exists t, r. apply in_or_app. right. exact H. Qed.
Lemma retb_ret b s r : retb b (ret s b r).
Proof. exists (cl_now s), r. left. reflexivity. Qed.

Section LoopObj.
Variables (b g : N).
Definition LP (n : N) : ctxn := CxRetry b 5 TY_PINGREQ CtNone (Pingreq []) n b.
(* the object g is the loop's ping; tm is its only timer *)
Definition LO (n : N) (tm : ctimer) (s : cl_state) : Prop :=
  cl_objs s !! g = Some (LP n) /\ tmr s g = [tm] /\ ctm_kind tm = CtmRetry g /\ g < cl_next_obj s.
(* kept, or the call has returned, or the group is cancelled *)
Definition LK (n : N) (tm : ctimer) (r : CR) : Prop := LO n tm (fst r) \/ retb b (snd r) \/ canc (fst r).

Lemma LO_ext n tm s s' : cl_objs s' = cl_objs s -> cl_timers s' = cl_timers s -> cl_next_obj s' = cl_next_obj s ->
  LO n tm s -> LO n tm s'.
Proof. intros E1 E2 E3 (H1 & H2 & H3 & H4). unfold LO. rewrite E1, (tmr_ext s s' g E2), E3. auto. Qed.
Lemma LO_arm n tm s k d : ctimer_obj k <> g -> LO n tm s -> LO n tm (c_arm s k d).
Proof. intros Hne (H1 & H2 & H3 & H4). unfold LO. rewrite (tmr_arm_other s k d g Hne). auto. Qed.
Lemma LO_disarm n tm s g' : g' <> g -> LO n tm s -> LO n tm (c_disarm s g').
Proof. intros Hne (H1 & H2 & H3 & H4). unfold LO. rewrite (tmr_disarm_other s g' g) by congruence. auto. Qed.
Lemma LO_set_obj n tm s g' t : g' <> g -> LO n tm s -> LO n tm (c_set_obj s g' t).
Proof.
  intros Hne (H1 & H2 & H3 & H4). unfold LO, c_set_obj. cbn. rewrite lookup_insert_ne by congruence.
  change (tmr (s <| cl_objs := <[g' := t]> (cl_objs s) |>) g) with (tmr s g). auto.
Qed.
Lemma LO_new_obj n tm s t : LO n tm s -> LO n tm (fst (c_new_obj s t)) /\ snd (c_new_obj s t) <> g.
Proof.
  intros (H1 & H2 & H3 & H4). unfold LO, c_new_obj. cbn [fst snd]. split; [|lia]. cbn.
  rewrite lookup_insert_ne by lia.
  change (tmr (s <| cl_objs := <[cl_next_obj s := t]> (cl_objs s) |> <| cl_next_obj := cl_next_obj s + 1 |>) g) with (tmr s g).
  repeat split; try assumption. lia.
Qed.
Lemma LO_finish n tm s g' : g' <> g -> LO n tm s -> LO n tm (c_finish_obj s g').
Proof.
  intros Hne (H1 & H2 & H3 & H4). unfold LO. rewrite c_finish_obj_objs, lookup_delete_ne by congruence.
  rewrite (tmr_finish_other s g' g) by congruence. repeat split; try assumption.
  destruct (cl_objs s !! g') as [t|] eqn:E; [|rewrite c_finish_obj_none by exact E; exact H4].
  destruct (finish_facts s g' t E) as (_ & _ & _ & _ & _ & _ & _ & _ & _ & ->). exact H4.
Qed.
Lemma LO_obj_ne n tm s g' t : LO n tm s -> cl_objs s !! g' = Some t -> (forall n', t <> LP n') -> g' <> g.
Proof. intros (H1 & _) Hg Hne ->. rewrite H1 in Hg. injection Hg as <-. eapply Hne. reflexivity. Qed.

Lemma connect_attempt_LO cfg n tm s call att : LO n tm s -> LO n tm (fst (connect_attempt cfg s call att)).
Proof.
  intros H. unfold connect_attempt. destruct (LO_new_obj n tm s (CxConnect call att) H) as [H1 Hne].
  destruct (c_new_obj s (CxConnect call att)) as [s1 g1]. cbn [fst snd] in H1, Hne. cbv zeta.
  match goal with |- context [c_arm ?X ?k ?d] => assert (H2 : LO n tm (c_arm X k d)) end.
  { apply LO_arm; [exact Hne|]. eapply LO_ext; [| | |exact H1]; reflexivity. }
  match goal with |- context [c_arm ?X ?k ?d] => generalize dependent (c_arm X k d) end. intros s2 H2.
  destruct (c_send s2 (connect_pkt cfg)) as [o1 [|]]; [|exact H2].
  destruct (len (k_user cfg) =? 0); [exact H2|]. destruct (c_send s2 (auth_pkt cfg)) as [o2 [|]]; exact H2.
Qed.

Lemma start_retry_LO cfg n tm s call kind key st p bt s' g' o ok :
  start_retry cfg s call kind key st p bt = (s', g', o, ok) -> LO n tm s -> LO n tm s' /\ g' <> g.
Proof.
  intros E H. destruct (start_retry_facts _ _ _ _ _ _ _ _ _ _ _ _ E) as (Eg & Eo & Ec & _). core_inj Ec.
  destruct H as (H1 & H2 & H3 & H4). assert (Hne : g' <> g) by lia. split; [|exact Hne].
  unfold LO. rewrite Eo, lookup_insert_ne by exact Hne. rewrite Eno.
  repeat split; try assumption; [|lia].
  unfold tmr. rewrite Etm, filter_app. fold (tmr s g). rewrite H2. cbn [List.filter ctm_kind ctimer_obj].
  assert (E1 : (g' =? g) = false) by (apply N.eqb_neq; exact Hne). rewrite E1. reflexivity.
Qed.

Lemma canc_set_cc s v : canc s -> canc (s <| cl_conn_closed := v |>).
Proof. intros H. exact H. Qed.

(* completion of a transaction: of another object, or of the loop's ping itself *)
Lemma complete_LK cfg n tm s g' t r ic : LO n tm s -> (g' = g -> exists n', t = LP n') ->
  LK n tm (complete cfg s g' t r ic).
Proof.
  intros H Hg. unfold complete, LK. cbv zeta.
  destruct (N.eq_dec g' g) as [->|Hne].
  - destruct (Hg eq_refl) as [n' ->]. unfold LP.
    destruct (cl_cancelled (c_finish_obj s g)) eqn:Ec.
    + right. right. unfold canc. destruct (cl_exited _); cbn [fst]; [rewrite Ec|cbn; rewrite Ec]; discriminate.
    + right. left. cbn [N.eqb Pos.eqb snd]. apply retb_ret.
  - pose proof (LO_finish n tm s g' Hne H) as H1. generalize dependent (c_finish_obj s g'). intros s1 H1.
    destruct (cl_cancelled s1) eqn:Ec.
    { right. right. unfold canc. destruct (cl_exited _); cbn [fst]; [rewrite Ec|cbn; rewrite Ec]; discriminate. }
    destruct t as [call att|call kind key st data n0 sub|call st n0 ms|mid pub]; try (left; exact H1).
    + destruct r; try (left; exact H1). destruct (_ <=? _); [left; apply connect_attempt_LO, H1|left; exact H1].
    + destruct (kind =? 6).
      { destruct r; try (left; exact H1); right; right; cbn [fst]; apply canc_api. }
      destruct (kind =? 7); [|left; exact H1].
      destruct r; try (left; exact H1); right; right; cbn [fst]; apply canc_set_cc, canc_loop.
Qed.


Ltac LO_solve :=
  repeat first
   [ assumption
   | apply LO_arm; [cbn [ctimer_obj]; congruence|]
   | apply LO_disarm; [congruence|]
   | apply LO_set_obj; [congruence|]
   | apply LO_finish; [congruence|]
   | apply connect_attempt_LO
   | match goal with |- LO _ _ (c_set_state ?X ?st) => apply (LO_ext _ _ X); [reflexivity|reflexivity|reflexivity|] end
   | match goal with |- LO _ _ (set ?f ?v ?X) => apply (LO_ext _ _ X); [reflexivity|reflexivity|reflexivity|] end
   | match goal with |- LO _ _ (if ?c then _ else _) => destruct c end ].

(* every object found in the store that is visibly not the loop's ping is another object *)
Ltac derive_ne :=
  repeat match goal with
  | H : LO _ _ ?s, Hl : cl_objs ?s !! ?g' = Some ?t |- _ =>
    lazymatch goal with
    | _ : g' <> g |- _ => fail
    | _ => assert (g' <> g) by (let E := fresh in intros E; rewrite E in Hl; destruct H as (H & _); rewrite H in Hl; discriminate Hl)
    end
  end.

Ltac LK_complete :=
  apply complete_LK; [LO_solve|
    let E := fresh in intros E; first [congruence |
      match goal with
      | H : LO _ _ ?s, Hl : cl_objs ?s !! ?g' = Some _ |- _ =>
        rewrite E in Hl; destruct H as (H & _); rewrite H in Hl; injection Hl; intros; subst; eexists; reflexivity
      end]].

Ltac LK_leaf :=
  first [ LK_complete
        | left; cbn [fst]; solve [LO_solve]
        | right; right; unfold loop_err; cbn [fst]; first [apply canc_loop | apply canc_api | apply canc_set_cc, canc_loop] ].

Ltac LK_walk n tm :=
  repeat first
    [ progress cbn [fst snd loop_err]
    | match goal with H : c_get_id _ _ = Some (_, _) |- _ => apply c_get_id_Some in H; destruct H as [? ?] end
    | match goal with H : c_get_type _ _ = Some (_, _) |- _ => apply c_get_type_Some in H; destruct H as [? ?] end
    | match goal with |- context [c_new_obj ?X ?t] =>
        let H1 := fresh "Hno" in let H2 := fresh "Hng" in
        destruct (LO_new_obj n tm X t ltac:(assumption)) as [H1 H2];
        destruct (c_new_obj X t) as [? ?]; cbn [fst snd] in H1, H2
      end
    | match goal with |- LK _ _ (match ?x with _ => _ end) => destruct x eqn:? end
    | match goal with |- LK _ _ (if ?x then _ else _) => destruct x eqn:? end
    | match goal with |- LK _ _ (let (_, _) := ?x in _) => destruct x eqn:? end ].

Lemma c_fire_LK_other cfg n tm s k : LO n tm s -> ctimer_obj k <> g -> LK n tm (c_fire cfg s k).
Proof.
  intros H Hne. unfold c_fire. destruct k as [g'|g'|g'|g'|g']; cbn [ctimer_obj] in Hne; cbv zeta; LK_walk n tm; LK_leaf.
Qed.

Lemma handle_packet_LK cfg n tm s p : LO n tm s -> LK n tm (handle_packet cfg s p).
Proof.
  intros H. unfold handle_packet. destruct p; cbv zeta; LK_walk n tm; derive_ne; try LK_leaf.
Qed.


Ltac sr_LK n tm :=
  match goal with |- context [start_retry ?a ?b0 ?c ?d ?e ?f ?g0 ?h] =>
    let E := fresh "Esr" in
    destruct (start_retry a b0 c d e f g0 h) as [[[? ?] ?] ok] eqn:E;
    eapply (start_retry_LO _ n tm) in E; [destruct E as [? ?]|LO_solve];
    destruct ok
  end.

Lemma call_simple_LK cfg n tm s call kind st mk : LO n tm s -> LK n tm (call_simple cfg s call kind st mk).
Proof. intros H. unfold call_simple, c_next_mid. sr_LK n tm; LK_leaf. Qed.

Lemma do_publish_LK cfg n tm s call tit tid qos retain payload : LO n tm s ->
  LK n tm (do_publish cfg s call tit tid qos retain payload).
Proof.
  intros H. unfold do_publish, c_next_mid. cbv zeta.
  destruct ((qos =? 0) || (qos =? 3)); [LK_walk n tm; LK_leaf|].
  destruct (qos =? 1); [sr_LK n tm; LK_leaf|].
  destruct (qos =? 2); [sr_LK n tm; LK_leaf|]. LK_leaf.
Qed.

Lemma do_call_LK cfg n tm s id a : LO n tm s -> LK n tm (do_call cfg s id a).
Proof.
  intros H. unfold do_call.
  destruct a as [|topic|topic qos|tid qos|topic qos retain payload|tid qos retain payload|topic|tid| |ms| |].
  - left. apply connect_attempt_LO, H.
  - destruct (len topic =? 0); [LK_leaf|]. apply call_simple_LK, H.
  - destruct (len topic =? 0); [LK_leaf|]. destruct (is_short_topic topic); apply call_simple_LK, H.
  - apply call_simple_LK, H.
  - destruct (is_short_topic topic); [apply do_publish_LK, H|].
    destruct (reg_lookup (cl_registered s) topic); [apply do_publish_LK, H|LK_leaf].
  - apply do_publish_LK, H.
  - destruct (len topic =? 0); [LK_leaf|]. destruct (is_short_topic topic); apply call_simple_LK, H.
  - apply call_simple_LK, H.
  - sr_LK n tm; LK_leaf.
  - destruct (negb _); [LK_leaf|]. LK_walk n tm; LK_leaf.
  - destruct (cl_st s); try LK_leaf; (sr_LK n tm; LK_leaf).
  - destruct (cl_st s); try LK_leaf; (sr_LK n tm; LK_leaf).
Qed.


Lemma complete_own cfg s n' r ic :
  retb b (snd (complete cfg s g (LP n') r ic)) \/ canc (fst (complete cfg s g (LP n') r ic)).
Proof.
  unfold complete, LP. cbv zeta. destruct (cl_cancelled (c_finish_obj s g)) eqn:Ec.
  - right. unfold canc. destruct (cl_exited _); cbn [fst]; [rewrite Ec|cbn; rewrite Ec]; discriminate.
  - left. cbn [N.eqb Pos.eqb snd]. apply retb_ret.
Qed.

(* the loop's own retry timer fires (it has been taken out of the timer list) *)
Lemma c_fire_own cfg n s : cl_objs s !! g = Some (LP n) -> tmr s g = [] -> g < cl_next_obj s ->
  (LO (n + 1) {| ctm_at := cl_now s + k_rdelay cfg; ctm_seq := cl_next_seq s; ctm_kind := CtmRetry g |} (fst (c_fire cfg s (CtmRetry g))) /\
   snd (c_fire cfg s (CtmRetry g)) = [CoSn (cl_now s) (pack (Pingreq []))]) \/
  retb b (snd (c_fire cfg s (CtmRetry g))) \/ canc (fst (c_fire cfg s (CtmRetry g))).
Proof.
  intros Hg Ht Hlt. cbn [c_fire]. rewrite Hg. change (LP n) with (CxRetry b 5 TY_PINGREQ CtNone (Pingreq []) n b). cbv beta iota.
  destruct (k_rcount cfg <? n + 1); [right; apply (complete_own cfg s n)|].
  cbn [N.eqb Pos.eqb orb]. cbv zeta.
  set (s1 := c_set_obj s g (CxRetry b 5 TY_PINGREQ CtNone (Pingreq []) (n + 1) b)).
  destruct (c_send_spec s1 (Pingreq [])) as [E|(E & _ & _)]; rewrite E.
  - right. apply (complete_own cfg s1 (n + 1)).
  - left. cbn [fst snd]. split; [|reflexivity]. unfold LO. split; [|split; [|split]].
    + cbn. apply lookup_insert.
    + rewrite (tmr_arm_same s1 (CtmRetry g) (k_rdelay cfg) g eq_refl).
      change (tmr s1 g) with (tmr s g). rewrite Ht. reflexivity.
    + reflexivity.
    + exact Hlt.
Qed.

Lemma c_exit_canc s te : canc s -> canc (fst (c_exit s te)).
Proof. intros H. exact H. Qed.

Definition ping_at (T : N) (o : list cl_out) : Prop := In (CoSn T (pack (Pingreq []))) o.

Lemma run_timers_LO cfg T (Hcfg : wf_cl_cfg cfg) : forall fuel s, SI s -> K (fun _ => True) s -> InvA false s -> Inst s T ->
  forall n tm, LO n tm s ->
  (exists n' tm', LO n' tm' (fst (c_run_timers fuel cfg s T)) /\
      (tm' = tm \/ (ping_at T (snd (c_run_timers fuel cfg s T)) /\ ctm_at tm' = T + k_rdelay cfg))) \/
  retb b (snd (c_run_timers fuel cfg s T)) \/ canc (fst (c_run_timers fuel cfg s T)).
Proof.
  induction fuel as [|fuel IH]; intros s Hsi Hk Hia (Hn & Htm & Hte) n tm HLO; cbn [c_run_timers].
  { left. exists n, tm. split; [exact HLO|left; reflexivity]. }
  cbv zeta.
  assert (Hnone : (exists n' tm', LO n' tm' s /\ (tm' = tm \/ (ping_at T (@nil cl_out) /\ ctm_at tm' = T + k_rdelay cfg))) \/
                  retb b (@nil cl_out) \/ canc s).
  { left. exists n, tm. split; [exact HLO|left; reflexivity]. }
  assert (Hcx : forall te, (if cl_exited s then None else cl_cancelled s) = Some te -> canc s).
  { intros te H. unfold canc. destruct (cl_exited s); [discriminate|]. rewrite H. discriminate. }
  destruct (c_min_timer (cl_timers s)) as [tm0|] eqn:Emin.
  - destruct (c_min_timer_spec _ _ Emin) as [Hin Hmin].
    destruct ((ctm_at tm0 <=? T) && match (if cl_exited s then None else cl_cancelled s) with Some te => ctm_at tm0 <? te | None => true end) eqn:Edue.
    + apply andb_true_iff in Edue. destruct Edue as [Ed Eb]. apply N.leb_le in Ed.
      assert (Hbe : forall te, cl_cancelled s = Some te -> cl_exited s = false -> ctm_at tm0 < te).
      { intros te Hc He. rewrite He, Hc in Eb. apply N.ltb_lt, Eb. }
      assert (EtT : ctm_at tm0 = T) by (specialize (Htm tm0 Hin); lia).
      pose proof (fire_Good cfg s tm0 Hcfg Hsi Hk Hia Hin Hmin Hbe) as G1.
      change (s <| cl_now := ctm_at tm0 |> <| cl_timers := List.filter (fun u => negb (ctm_seq u =? ctm_seq tm0)) (cl_timers s) |>)
        with (fire_pre s tm0).
      pose proof (c_fire_now cfg (fire_pre s tm0) (ctm_kind tm0)) as Hn1.
      assert (Hk1 : K (fun _ => True) (fst (c_fire cfg (fire_pre s tm0) (ctm_kind tm0)))).
      { apply c_fire_K. apply (K_frame _ s); [reflexivity|reflexivity|exact Hk]. }
      assert (Hia1 : InvA false (fst (c_fire cfg (fire_pre s tm0) (ctm_kind tm0)))).
      { apply c_fire_invA. apply (invA_frame false s); [reflexivity|reflexivity|reflexivity|exact Hia]. }
      change (cl_now (fire_pre s tm0)) with (ctm_at tm0) in Hn1. rewrite EtT in Hn1.
      destruct HLO as (L1 & L2 & L3 & L4).
      (* what the fired timer does to the loop's object *)
      assert (Hstep : (exists n1 tm1, LO n1 tm1 (fst (c_fire cfg (fire_pre s tm0) (ctm_kind tm0))) /\
                          (tm1 = tm \/ (ping_at T (snd (c_fire cfg (fire_pre s tm0) (ctm_kind tm0))) /\ ctm_at tm1 = T + k_rdelay cfg))) \/
                      retb b (snd (c_fire cfg (fire_pre s tm0) (ctm_kind tm0))) \/
                      canc (fst (c_fire cfg (fire_pre s tm0) (ctm_kind tm0)))).
      { destruct (N.eq_dec (ctimer_obj (ctm_kind tm0)) g) as [Eg|Eg].
        - assert (E0 : tm0 = tm).
          { assert (H0 : In tm0 (tmr s g)) by (apply tmr_in; auto). rewrite L2 in H0. destruct H0 as [H0|[]]. auto. }
          subst tm0. rewrite L3.
          destruct (c_fire_own cfg n (fire_pre s tm) L1 (pre_tmr_same s tm g L2) L4) as [[F1 F2]|[F|F]].
          + left. eexists _, _. split; [exact F1|]. right. rewrite F2. cbn [ctm_at]. change (cl_now (fire_pre s tm)) with (ctm_at tm). rewrite EtT.
            split; [left; reflexivity|reflexivity].
          + right. left. exact F.
          + right. right. exact F.
        - assert (HLO0 : LO n tm (fire_pre s tm0)).
          { unfold LO. rewrite (pre_tmr_other s tm0 Hsi Hin g) by congruence. auto. }
          destruct (c_fire_LK_other cfg n tm _ _ HLO0 Eg) as [F|[F|F]].
          + left. exists n, tm. split; [exact F|left; reflexivity].
          + right. left. exact F.
          + right. right. exact F. }
      destruct (c_fire cfg (fire_pre s tm0) (ctm_kind tm0)) as [s1 o1]. cbn [fst snd] in *.
      pose proof (gd_si _ _ _ _ G1) as Hsi1. cbn [fst] in Hsi1.
      assert (Hin1 : Inst s1 T) by (rewrite <- Hn1; apply SI_Inst, Hsi1).
      pose proof (IH s1 Hsi1 Hk1 Hia1 Hin1) as IH1.
      pose proof (run_timers_canc cfg T fuel s1) as Hc2.
      destruct (c_run_timers fuel cfg s1 T) as [s2 o2]. cbn [fst snd] in *.
      destruct Hstep as [(n1 & tm1 & F1 & F2)|[F|F]].
      * destruct (IH1 n1 tm1 F1) as [(n2 & tm2 & G2 & G3)|[G|G]].
        -- left. exists n2, tm2. split; [exact G2|].
           destruct G3 as [->|[G3 G4]].
           ++ destruct F2 as [->|[F2 F3]]; [left; reflexivity|right]. split; [apply in_or_app; left; exact F2|exact F3].
           ++ right. split; [apply in_or_app; right; exact G3|exact G4].
        -- right. left. apply retb_app_r, G.
        -- right. right. exact G.
      * right. left. apply retb_app_l, F.
      * right. right. apply Hc2, F.
    + destruct (if cl_exited s then None else cl_cancelled s) as [te|] eqn:Ex; [|exact Hnone].
      destruct (te <=? T); [|exact Hnone]. right. right.
      assert (Hc1 : canc (fst (c_exit s te))) by (exact (Hcx te eq_refl)). destruct (c_exit s te) as [s1 o1]. cbn [fst] in Hc1.
      pose proof (run_timers_canc cfg T fuel s1 Hc1) as Hc2. destruct (c_run_timers fuel cfg s1 T) as [s2 o2]. exact Hc2.
  - destruct (if cl_exited s then None else cl_cancelled s) as [te|] eqn:Ex; [|exact Hnone].
    destruct (te <=? T); [|exact Hnone]. right. right. exact (Hcx te eq_refl).
Qed.

Lemma cl_step_user_LK cfg n tm s ev : (forall d, ev <> CAdv d) -> LO n tm s -> LK n tm (cl_step cfg s ev).
Proof.
  intros Hev H. unfold cl_step. destruct ev as [id a|dg|d]; [| |destruct (Hev d eq_refl)].
  - destruct (cl_exited s); [left; exact H|]. destruct (cl_cancelled s); [left; exact H|].
    pose proof (do_call_LK cfg n tm s id a H) as H1. destruct (do_call cfg s id a) as [s1 o1].
    destruct (cl_cancelled s1) as [te|] eqn:Ec; [|exact H1]. destruct (te <=? cl_now s1); [|exact H1].
    right. right. assert (Hc : canc (fst (c_exit s1 te))) by (unfold canc; cbn; rewrite Ec; discriminate).
    destruct (c_exit s1 te) as [s2 o2]. exact Hc.
  - destruct (cl_exited s); [left; exact H|]. destruct (cl_cancelled s); [left; exact H|]. cbv zeta.
    assert (H0 : LO n tm (s <| cl_last_read := cl_now s |>)) by (eapply LO_ext; [| | |exact H]; reflexivity).
    destruct (read_dgram dg) as [p|e|ps].
    + pose proof (handle_packet_LK cfg n tm _ p H0) as H1. destruct (handle_packet cfg (s <| cl_last_read := cl_now s |>) p) as [s1 o1].
      destruct (cl_cancelled s1) as [te|] eqn:Ec; [|exact H1]. destruct (te <=? cl_now s1); [|exact H1].
      right. right. assert (Hc : canc (fst (c_exit s1 te))) by (unfold canc; cbn; rewrite Ec; discriminate).
      destruct (c_exit s1 te) as [s2 o2]. exact Hc.
    + right. right. match goal with |- context [c_exit ?X ?t] => assert (Hc : canc (fst (c_exit X t))) by (apply c_exit_canc, canc_loop); destruct (c_exit X t) end. exact Hc.
    + right. right. match goal with |- context [c_exit ?X ?t] => assert (Hc : canc (fst (c_exit X t))) by (apply c_exit_canc, canc_loop); destruct (c_exit X t) end. exact Hc.
Qed.

Lemma cl_step_adv_LO cfg (Hcfg : wf_cl_cfg cfg) s d : SI s -> K (fun _ => True) s -> InvA false s -> Inst s (cl_now s + d) ->
  forall n tm, LO n tm s ->
  (exists n' tm', LO n' tm' (fst (cl_step cfg s (CAdv d))) /\
      (tm' = tm \/ (ping_at (cl_now s + d) (snd (cl_step cfg s (CAdv d))) /\ ctm_at tm' = cl_now s + d + k_rdelay cfg))) \/
  retb b (snd (cl_step cfg s (CAdv d))) \/ canc (fst (cl_step cfg s (CAdv d))).
Proof.
  intros Hsi Hk Hia Hin n tm H. unfold cl_step.
  pose proof (run_timers_LO cfg (cl_now s + d) Hcfg (c_advance_fuel cfg s d) s Hsi Hk Hia Hin n tm H) as R.
  destruct (c_run_timers _ _ _ _) as [s1 o1]. cbn [fst snd] in *.
  destruct R as [(n' & tm' & R1 & R2)|[R|R]]; [left|right; left; exact R|right; right; exact R].
  exists n', tm'. split; [|exact R2]. eapply LO_ext; [| | |exact R1]; reflexivity.
Qed.
End LoopObj.

(* the loop's ping starts: a new transaction object with its retry timer, one PINGREQ *)
Lemma pack_pingreq0 : len (pack (Pingreq [])) <= MaxPacketLen.
Proof. vm_compute. discriminate. Qed.

Lemma ping_start cfg s id : SI s -> cl_cancelled s = None ->
  snd (cl_step cfg s (CCall id APing)) = [CoSn (cl_now s) (pack (Pingreq []))] /\
  LO id (cl_next_obj s) 0 {| ctm_at := cl_now s + k_rdelay cfg; ctm_seq := cl_next_seq s; ctm_kind := CtmRetry (cl_next_obj s) |}
     (fst (cl_step cfg s (CCall id APing))) /\
  cl_cancelled (fst (cl_step cfg s (CCall id APing))) = None.
Proof.
  intros Hsi Hca. destruct (si_c2 s Hsi Hca) as (_ & Hex & Hcc).
  unfold cl_step. rewrite Hex, Hca. cbn [do_call].
  destruct (start_retry cfg s id 5 TY_PINGREQ CtNone (Pingreq []) true) as [[[s1 g1] o1] ok] eqn:E.
  destruct (start_retry_facts _ _ _ _ _ _ _ _ _ _ _ _ E) as (Eg & Eo & Ec & _ & Hok).
  rewrite (Hok Hcc pack_pingreq0). core_inj Ec.
  assert (Eo1 : o1 = [CoSn (cl_now s) (pack (Pingreq []))]).
  { revert E. unfold start_retry, c_new_obj. cbv zeta.
    match goal with |- context [c_send ?X ?p] => rewrite (c_send_ok X p Hcc pack_pingreq0) end. intros E. injection E as _ _ <- _. reflexivity. }
  rewrite Eca, Hca. cbn [fst snd]. split; [exact Eo1|]. split; [|congruence].
  unfold LO, LP. subst g1. rewrite Eo, lookup_insert. split; [reflexivity|]. split; [|split; [reflexivity|lia]].
  unfold tmr. rewrite Etm, filter_app. fold (tmr s (cl_next_obj s)). rewrite (tmr_nil_fresh s _ Hsi) by lia.
  cbn [List.filter ctm_kind ctimer_obj app]. rewrite N.eqb_refl. reflexivity.
Qed.

(* ------------------------------------------------------------------ the whole step: outputs *)
Lemma cl_step_user_out cfg s ev : (forall d, ev <> CAdv d) ->
  sn_at (cl_now s) (snd (cl_step cfg s ev)) /\ (rcancd (snd (cl_step cfg s ev)) -> canc (fst (cl_step cfg s ev))) /\
  (canc (fst (cl_step cfg s ev)) \/ cl_now (fst (cl_step cfg s ev)) = cl_now s).
Proof.
  intros Hev.
  assert (Hidle : sn_at (cl_now s) (@nil cl_out) /\ (rcancd (@nil cl_out) -> canc s) /\ (canc s \/ cl_now s = cl_now s)).
  { split; [apply sn_at_nil|]. split; [intros (t & id & [])|right; reflexivity]. }
  assert (Hgen : forall s1 o1, OutOK (cl_now s) o1 -> cl_now s1 = cl_now s ->
    let r := match cl_cancelled s1 with
             | Some te => if te <=? cl_now s1 then match c_exit s1 te with (s'', o') => (s'', o1 ++ o') end else (s1, o1)
             | None => (s1, o1) end in
    sn_at (cl_now s) (snd r) /\ (rcancd (snd r) -> canc (fst r)) /\ (canc (fst r) \/ cl_now (fst r) = cl_now s)).
  { intros s1 o1 Ho En. destruct (cl_cancelled s1) as [te|] eqn:Ec; cbv zeta.
    - destruct (te <=? cl_now s1).
      + pose proof (sn_at_exit (cl_now s) s1 te) as Hx.
        assert (Hc : canc (fst (c_exit s1 te))) by (unfold canc; cbn; rewrite Ec; discriminate).
        destruct (c_exit s1 te) as [s2 o2]. cbn [fst snd] in *.
        split; [apply sn_at_app; [apply OutOK_sn_at, Ho|exact Hx]|]. split; [intros _; exact Hc|left; exact Hc].
      + cbn [fst snd]. split; [apply OutOK_sn_at, Ho|]. split; [intros H; destruct (OutOK_no_rc _ _ Ho H)|right; exact En].
    - cbn [fst snd]. split; [apply OutOK_sn_at, Ho|]. split; [intros H; destruct (OutOK_no_rc _ _ Ho H)|right; exact En]. }
  unfold cl_step. destruct ev as [id a|dg|d]; [| |destruct (Hev d eq_refl)].
  - destruct (cl_exited s); [exact Hidle|]. destruct (cl_cancelled s); [exact Hidle|].
    pose proof (OutOK_do_call cfg s id a) as Ho. pose proof (do_call_now cfg s id a) as En.
    destruct (do_call cfg s id a) as [s1 o1]. cbn [fst snd] in Ho, En. exact (Hgen s1 o1 Ho En).
  - destruct (cl_exited s); [exact Hidle|]. destruct (cl_cancelled s); [exact Hidle|]. cbv zeta.
    destruct (read_dgram dg) as [p|e|ps].
    + pose proof (OutOK_handle cfg (s <| cl_last_read := cl_now s |>) p) as Ho.
      pose proof (handle_packet_now cfg (s <| cl_last_read := cl_now s |>) p) as En.
      destruct (handle_packet cfg (s <| cl_last_read := cl_now s |>) p) as [s1 o1]. cbn [fst snd] in Ho, En. exact (Hgen s1 o1 Ho En).
    + match goal with |- context [c_exit ?X ?t] =>
        pose proof (sn_at_exit (cl_now s) X t) as Hx; assert (Hc : canc (fst (c_exit X t))) by (apply c_exit_canc, canc_loop); destruct (c_exit X t) end.
      cbn [fst snd] in *. split; [exact Hx|]. split; [intros _; exact Hc|left; exact Hc].
    + match goal with |- context [c_exit ?X ?t] =>
        pose proof (sn_at_exit (cl_now s) X t) as Hx; assert (Hc : canc (fst (c_exit X t))) by (apply c_exit_canc, canc_loop); destruct (c_exit X t) end.
      cbn [fst snd] in *. split; [exact Hx|]. split; [intros _; exact Hc|left; exact Hc].
Qed.

Lemma cl_step_adv_inst cfg (Hcfg : wf_cl_cfg cfg) s d : SI s -> K (fun _ => True) s -> InvA false s -> Inst s (cl_now s + d) ->
  sn_at (cl_now s + d) (snd (cl_step cfg s (CAdv d))) /\
  (rcancd (snd (cl_step cfg s (CAdv d))) -> canc (fst (cl_step cfg s (CAdv d)))) /\
  (cl_st (fst (cl_step cfg s (CAdv d))) = Active -> cl_st s = Active) /\
  (forall te, cl_cancelled s = Some te -> cl_cancelled (fst (cl_step cfg s (CAdv d))) = Some te).
Proof.
  intros Hsi Hk Hia Hin. unfold cl_step.
  pose proof (run_timers_inst cfg (cl_now s + d) Hcfg (c_advance_fuel cfg s d) s Hsi Hk Hia Hin) as R.
  destruct (c_run_timers _ _ _ _) as [s1 o1]. cbn [fst snd] in *. exact R.
Qed.

(* ================================================================== Part D: a bound on the call identifiers of the live transactions *)
Section CallBound.
Variable B : N.
Definition CB (s : cl_state) : Prop := forall g t c, cl_objs s !! g = Some t -> call_of t = Some c -> c < B.
Definition cb_t (t : ctxn) : Prop := forall c, call_of t = Some c -> c < B.

Lemma CB_ext s s' : cl_objs s' = cl_objs s -> CB s -> CB s'.
Proof. intros E H g t c. rewrite E. apply H. Qed.
Lemma CB_new_obj s t : CB s -> cb_t t -> CB (fst (c_new_obj s t)).
Proof.
  intros H Ht g t' c. unfold c_new_obj. cbn. destruct (N.eq_dec g (cl_next_obj s)) as [->|Hne].
  - rewrite lookup_insert. intros E. injection E as <-. apply Ht.
  - rewrite lookup_insert_ne by congruence. apply H.
Qed.
Lemma CB_set_obj s g t : CB s -> cb_t t -> CB (c_set_obj s g t).
Proof.
  intros H Ht g' t' c. unfold c_set_obj. cbn. destruct (N.eq_dec g' g) as [->|Hne].
  - rewrite lookup_insert. intros E. injection E as <-. apply Ht.
  - rewrite lookup_insert_ne by congruence. apply H.
Qed.
Lemma CB_finish s g : CB s -> CB (c_finish_obj s g).
Proof. intros H g' t c. rewrite c_finish_obj_objs. intros E. apply lookup_delete_Some' in E. destruct E as [E _]. eapply H, E. Qed.
Lemma CB_cancel_api s : CB s -> CB (c_cancel_from_api s).
Proof. unfold c_cancel_from_api. destruct (cl_cancelled s); [auto|apply CB_ext; reflexivity]. Qed.
Lemma CB_cancel_loop s e : CB s -> CB (c_cancel_from_loop s e).
Proof. unfold c_cancel_from_loop. destruct (cl_cancelled s); [auto|apply CB_ext; reflexivity]. Qed.
Lemma CB_obj s g t : CB s -> cl_objs s !! g = Some t -> cb_t t.
Proof. intros H Hg c Hc. eapply H; eassumption. Qed.

Lemma CB_connect cfg s call n : CB s -> call < B -> CB (fst (connect_attempt cfg s call n)).
Proof.
  intros H Hc. unfold connect_attempt.
  assert (H1 : CB (fst (c_new_obj s (CxConnect call n)))) by (apply CB_new_obj; [exact H|intros c E; injection E as <-; exact Hc]).
  destruct (c_new_obj s (CxConnect call n)) as [s1 g1]. cbn [fst] in H1. cbv zeta.
  repeat match goal with |- context [c_send ?X ?p] => destruct (c_send X p) as [? [|]] end; try destruct (_ =? 0); cbn [fst];
    (eapply CB_ext; [|exact H1]; reflexivity).
Qed.

Lemma CB_start_retry cfg s call kind key st p bt s' g o ok :
  start_retry cfg s call kind key st p bt = (s', g, o, ok) -> CB s -> call < B -> CB s'.
Proof.
  intros E H Hc. destruct (start_retry_facts _ _ _ _ _ _ _ _ _ _ _ _ E) as (_ & Eo & _).
  intros g' t c. rewrite Eo. destruct (N.eq_dec g' g) as [->|Hne].
  - rewrite lookup_insert. intros E1. injection E1 as <-. cbn. intros E1. injection E1 as <-. exact Hc.
  - rewrite lookup_insert_ne by congruence. apply H.
Qed.

Lemma CB_complete cfg s g t r ic : CB s -> cb_t t -> CB (fst (complete cfg s g t r ic)).
Proof.
  intros H Ht. unfold complete. cbv zeta. pose proof (CB_finish s g H) as H1. generalize dependent (c_finish_obj s g). intros s1 H1.
  destruct (cl_cancelled s1); [destruct (cl_exited s1); cbn [fst]; [exact H1|eapply CB_ext; [|exact H1]; reflexivity]|].
  destruct t as [call att|call kind key st data n0 sub|call st n0 ms|mid pub]; try (cbn [fst]; exact H1).
  - destruct r; try (cbn [fst]; exact H1). destruct (_ <=? _); [|exact H1]. apply CB_connect; [exact H1|apply Ht; reflexivity].
  - destruct (_ =? 6); [destruct r; cbn [fst]; try exact H1; apply CB_cancel_api, H1|].
    destruct (_ =? 7); [|exact H1]. destruct r; cbn [fst]; try exact H1; (eapply CB_ext; [|apply (CB_cancel_loop s1 true), H1]; reflexivity).
Qed.

Ltac CB_solve :=
  repeat first
   [ assumption
   | apply CB_finish | apply CB_cancel_api | apply CB_cancel_loop
   | apply CB_complete; [|first [eapply CB_obj; eassumption | intros ? E; injection E as <-; eapply CB_obj; [|eassumption|reflexivity]; eassumption]]
   | apply CB_set_obj; [|first [intros ? E; discriminate E | intros ? E; injection E as <-; assumption | intros ? E; injection E as <-; eapply CB_obj; [|eassumption|reflexivity]; eassumption]]
   | match goal with |- CB (c_arm ?X ?k ?d) => apply (CB_ext X); [reflexivity|] end
   | match goal with |- CB (c_disarm ?X ?g) => apply (CB_ext X); [reflexivity|] end
   | match goal with |- CB (c_set_state ?X ?st) => apply (CB_ext X); [reflexivity|] end
   | match goal with |- CB (set ?f ?v ?X) => apply (CB_ext X); [reflexivity|] end
   | match goal with |- CB (if ?c then _ else _) => destruct c end ].

Ltac CB_walk1 :=
  first
    [ progress cbn [fst snd loop_err]
    | match goal with H : c_get_id _ _ = Some (_, _) |- _ => apply c_get_id_Some in H; destruct H as [? ?] end
    | match goal with H : c_get_type _ _ = Some (_, _) |- _ => apply c_get_type_Some in H; destruct H as [? ?] end
    | match goal with |- context [c_new_obj ?X ?t] =>
        let H1 := fresh "Hno" in
        assert (H1 : CB (fst (c_new_obj X t))) by (apply CB_new_obj; [CB_solve|first [intros ? E; discriminate E | intros ? E; injection E as <-; assumption]]);
        destruct (c_new_obj X t) as [? ?]; cbn [fst] in H1
      end
    | match goal with |- CB (fst (match ?x with _ => _ end)) => destruct x eqn:? end
    | match goal with |- CB (fst (if ?x then _ else _)) => destruct x eqn:? end
    | match goal with |- CB (fst (let (_, _) := ?x in _)) => destruct x eqn:? end ].
Ltac CB_walk := repeat CB_walk1.

Lemma CB_fire cfg s k : CB s -> CB (fst (c_fire cfg s k)).
Proof. intros H. unfold c_fire. destruct k; cbv zeta; CB_walk; CB_solve. Qed.

Lemma CB_handle cfg s p : CB s -> CB (fst (handle_packet cfg s p)).
Proof. intros H. unfold handle_packet. destruct p; cbv zeta; CB_walk; CB_solve. Qed.

Ltac sr_CB :=
  match goal with |- context [start_retry ?a ?b0 ?c ?d ?e ?f ?g0 ?h] =>
    let E := fresh "Esr" in
    destruct (start_retry a b0 c d e f g0 h) as [[[? ?] ?] ok] eqn:E;
    eapply CB_start_retry in E; [|CB_solve|assumption];
    destruct ok
  end.

Lemma CB_do_call cfg s id a : CB s -> id < B -> CB (fst (do_call cfg s id a)).
Proof.
  intros H Hid. unfold do_call, call_simple, do_publish, c_next_mid.
  destruct a; cbv zeta; try (apply CB_connect; assumption);
    repeat first [sr_CB | CB_walk1]; CB_solve.
Qed.

Lemma CB_exit s te : CB s -> CB (fst (c_exit s te)).
Proof. apply CB_ext. reflexivity. Qed.

Lemma CB_run_timers cfg t : forall fuel s, CB s -> CB (fst (c_run_timers fuel cfg s t)).
Proof.
  induction fuel as [|fuel IH]; intros s H; cbn [c_run_timers]; [exact H|]. cbv zeta.
  destruct (c_min_timer (cl_timers s)) as [tm|].
  - match goal with |- context [if ?c then _ else _] => destruct c end.
    + match goal with |- context [c_fire cfg ?X ?k] =>
        assert (H1 : CB (fst (c_fire cfg X k))) by (apply CB_fire; eapply CB_ext; [|exact H]; reflexivity);
        destruct (c_fire cfg X k) as [s1 o1] end.
      cbn [fst] in H1. specialize (IH s1 H1). destruct (c_run_timers fuel cfg s1 t) as [s2 o2]. exact IH.
    + destruct (if cl_exited s then None else cl_cancelled s) as [te|]; [|exact H]. destruct (te <=? t); [|exact H].
      pose proof (CB_exit s te H) as H1. destruct (c_exit s te) as [s1 o1]. cbn [fst] in H1.
      specialize (IH s1 H1). destruct (c_run_timers fuel cfg s1 t) as [s2 o2]. exact IH.
  - destruct (if cl_exited s then None else cl_cancelled s) as [te|]; [|exact H]. destruct (te <=? t); [apply CB_exit, H|exact H].
Qed.

Lemma CB_step cfg s ev : CB s -> (forall id a, ev = CCall id a -> id < B) -> CB (fst (cl_step cfg s ev)).
Proof.
  intros H Hid. unfold cl_step. destruct ev as [id a|dg|d].
  - destruct (cl_exited s); [exact H|]. destruct (cl_cancelled s); [exact H|].
    pose proof (CB_do_call cfg s id a H (Hid id a eq_refl)) as H1. destruct (do_call cfg s id a) as [s1 o1]. cbn [fst] in H1.
    destruct (cl_cancelled s1) as [te|]; [|exact H1]. destruct (te <=? cl_now s1); [|exact H1].
    pose proof (CB_exit s1 te H1) as H2. destruct (c_exit s1 te) as [s2 o2]. exact H2.
  - destruct (cl_exited s); [exact H|]. destruct (cl_cancelled s); [exact H|]. cbv zeta.
    assert (H0 : CB (s <| cl_last_read := cl_now s |>)) by (eapply CB_ext; [|exact H]; reflexivity).
    destruct (read_dgram dg) as [p|e|ps].
    + pose proof (CB_handle cfg _ p H0) as H1. destruct (handle_packet cfg (s <| cl_last_read := cl_now s |>) p) as [s1 o1]. cbn [fst] in H1.
      destruct (cl_cancelled s1) as [te|]; [|exact H1]. destruct (te <=? cl_now s1); [|exact H1].
      pose proof (CB_exit s1 te H1) as H2. destruct (c_exit s1 te) as [s2 o2]. exact H2.
    + match goal with |- context [c_exit ?X ?t] => pose proof (CB_exit X t ltac:(apply CB_cancel_loop, H0)) as H2; destruct (c_exit X t) end. exact H2.
    + match goal with |- context [c_exit ?X ?t] => pose proof (CB_exit X t ltac:(apply CB_cancel_loop, H0)) as H2; destruct (c_exit X t) end. exact H2.
  - pose proof (CB_run_timers cfg (cl_now s + d) (c_advance_fuel cfg s d) s H) as H1.
    destruct (c_run_timers _ _ _ _) as [s1 o1]. cbn [fst] in *. eapply CB_ext; [|exact H1]. reflexivity.
Qed.

End CallBound.

(* ================================================================== Part E: when the group is cancelled, the exit is at most readTimeout away *)
Definition CT (s s' : cl_state) : Prop :=
  cl_now s' = cl_now s /\ cl_last_read s' = cl_last_read s /\
  (forall te, cl_cancelled s' = Some te -> cl_cancelled s = Some te \/
     (cl_last_read s <= cl_now s -> cl_now s <= te /\ te <= cl_now s + readTimeout)).
Lemma CT_refl s : CT s s.
Proof. split; [reflexivity|]. split; [reflexivity|]. intros te H. left. exact H. Qed.
Lemma CT_ext s x x' : cl_now x' = cl_now x -> cl_last_read x' = cl_last_read x -> cl_cancelled x' = cl_cancelled x -> CT s x -> CT s x'.
Proof. intros E1 E2 E3 (H1 & H2 & H3). split; [congruence|]. split; [congruence|]. rewrite E3. exact H3. Qed.
Lemma CT_finish s x g : CT s x -> CT s (c_finish_obj x g).
Proof.
  destruct (cl_objs x !! g) as [t|] eqn:E; [|rewrite c_finish_obj_none by exact E; auto].
  destruct (finish_facts x g t E) as (_ & _ & _ & F1 & F2 & F3 & _). apply CT_ext; assumption.
Qed.
Lemma CT_cancel_api s x : CT s x -> CT s (c_cancel_from_api x).
Proof.
  intros (H1 & H2 & H3). unfold c_cancel_from_api. destruct (cl_cancelled x) eqn:Ec; [split; [exact H1|split; [exact H2|rewrite Ec; exact H3]]|].
  split; [exact H1|]. split; [exact H2|]. cbn. intros te E. injection E as <-. right. intros Hle. rewrite H1, H2.
  pose proof (next_poll_bounds _ _ Hle). lia.
Qed.
Lemma CT_cancel_loop s x e : CT s x -> CT s (c_cancel_from_loop x e).
Proof.
  intros (H1 & H2 & H3). unfold c_cancel_from_loop. destruct (cl_cancelled x) eqn:Ec; [split; [exact H1|split; [exact H2|rewrite Ec; exact H3]]|].
  split; [exact H1|]. split; [exact H2|]. cbn. intros te E. injection E as <-. right. intros _. rewrite H1. unfold readTimeout. lia.
Qed.
Lemma CT_connect cfg s x call n : CT s x -> CT s (fst (connect_attempt cfg x call n)).
Proof.
  intros H. unfold connect_attempt, c_new_obj. cbv zeta.
  repeat match goal with |- context [c_send ?X ?p] => destruct (c_send X p) as [? [|]] end; try destruct (_ =? 0); cbn [fst];
    (eapply CT_ext; [| | |exact H]; reflexivity).
Qed.
Lemma CT_complete cfg s x g t r ic : CT s x -> CT s (fst (complete cfg x g t r ic)).
Proof.
  intros H. unfold complete. cbv zeta. pose proof (CT_finish s x g H) as H1. generalize dependent (c_finish_obj x g). intros s1 H1.
  destruct (cl_cancelled s1); [destruct (cl_exited s1); cbn [fst]; [exact H1|eapply CT_ext; [| | |exact H1]; reflexivity]|].
  destruct t as [call att|call kind key st data n0 sub|call st n0 ms|mid pub]; try (cbn [fst]; exact H1).
  - destruct r; try (cbn [fst]; exact H1). destruct (_ <=? _); [apply CT_connect, H1|exact H1].
  - destruct (_ =? 6); [destruct r; cbn [fst]; try exact H1; apply CT_cancel_api, H1|].
    destruct (_ =? 7); [|exact H1]. destruct r; cbn [fst]; try exact H1; (eapply CT_ext; [| | |apply (CT_cancel_loop s s1 true), H1]; reflexivity).
Qed.

Ltac CT_solve :=
  repeat first
   [ assumption | apply CT_refl
   | apply CT_finish | apply CT_cancel_api | apply CT_cancel_loop | apply CT_complete | apply CT_connect
   | match goal with |- CT _ (c_arm ?X ?k ?d) => apply (CT_ext _ X); [reflexivity|reflexivity|reflexivity|] end
   | match goal with |- CT _ (c_disarm ?X ?g) => apply (CT_ext _ X); [reflexivity|reflexivity|reflexivity|] end
   | match goal with |- CT _ (c_set_obj ?X ?g ?t) => apply (CT_ext _ X); [reflexivity|reflexivity|reflexivity|] end
   | match goal with |- CT _ (c_set_state ?X ?st) => apply (CT_ext _ X); [reflexivity|reflexivity|reflexivity|] end
   | match goal with |- CT _ (set ?f ?v ?X) => apply (CT_ext _ X); [reflexivity|reflexivity|reflexivity|] end
   | match goal with |- CT _ (if ?c then _ else _) => destruct c end ].

Ltac CT_walk1 :=
  first
    [ progress cbn [fst snd loop_err]
    | match goal with |- context [c_send ?X ?p] => destruct (c_send X p) as [? [|]] end
    | match goal with |- CT _ (fst (match ?x with _ => _ end)) => destruct x end
    | match goal with |- CT _ (fst (if ?x then _ else _)) => destruct x end
    | match goal with |- CT _ (fst (let (_, _) := ?x in _)) => destruct x end ].
Ltac CT_walk := repeat CT_walk1.

Lemma CT_fire cfg s k : CT s (fst (c_fire cfg s k)).
Proof. unfold c_fire. destruct k; cbv zeta; CT_walk; CT_solve. Qed.
Lemma CT_handle cfg s p : CT s (fst (handle_packet cfg s p)).
Proof. unfold handle_packet, c_new_obj. destruct p; cbv zeta; CT_walk; CT_solve. Qed.
Lemma CT_start_retry cfg s x call kind key st p bt s' g o ok :
  start_retry cfg x call kind key st p bt = (s', g, o, ok) -> CT s x -> CT s s'.
Proof.
  intros E H. destruct (start_retry_facts _ _ _ _ _ _ _ _ _ _ _ _ E) as (_ & _ & Ec & _). core_inj Ec.
  eapply CT_ext; [| | |exact H]; assumption.
Qed.
Ltac sr_CT :=
  match goal with |- context [start_retry ?a ?b0 ?c ?d ?e ?f ?g0 ?h] =>
    let E := fresh "Esr" in
    destruct (start_retry a b0 c d e f g0 h) as [[[? ?] ?] ok] eqn:E;
    eapply CT_start_retry in E; [|CT_solve];
    destruct ok
  end.
Lemma CT_do_call cfg s id a : CT s (fst (do_call cfg s id a)).
Proof.
  unfold do_call, call_simple, do_publish, c_next_mid, c_new_obj.
  destruct a; cbv zeta; try (apply CT_connect, CT_refl); repeat first [sr_CT | CT_walk1]; CT_solve.
Qed.

Lemma run_timers_CT cfg T (Hcfg : wf_cl_cfg cfg) : forall fuel s, SI s -> K (fun _ => True) s -> InvA false s -> cl_now s <= T ->
  forall te, cl_cancelled (fst (c_run_timers fuel cfg s T)) = Some te ->
  cl_cancelled s = Some te \/ (cl_now s <= te /\ te <= T + readTimeout).
Proof.
  induction fuel as [|fuel IH]; intros s Hsi Hk Hia Hn te; cbn [c_run_timers]; [intros H; left; exact H|]. cbv zeta.
  destruct (c_min_timer (cl_timers s)) as [tm|] eqn:Emin.
  - destruct (c_min_timer_spec _ _ Emin) as [Hin Hmin].
    destruct ((ctm_at tm <=? T) && match (if cl_exited s then None else cl_cancelled s) with Some te => ctm_at tm <? te | None => true end) eqn:Edue.
    + apply andb_true_iff in Edue. destruct Edue as [Ed Eb]. apply N.leb_le in Ed.
      assert (Hbe : forall te, cl_cancelled s = Some te -> cl_exited s = false -> ctm_at tm < te).
      { intros te0 Hc He. rewrite He, Hc in Eb. apply N.ltb_lt, Eb. }
      pose proof (fire_Good cfg s tm Hcfg Hsi Hk Hia Hin Hmin Hbe) as G1.
      change (s <| cl_now := ctm_at tm |> <| cl_timers := List.filter (fun u => negb (ctm_seq u =? ctm_seq tm)) (cl_timers s) |>)
        with (fire_pre s tm).
      pose proof (c_fire_now cfg (fire_pre s tm) (ctm_kind tm)) as Hn1.
      pose proof (CT_fire cfg (fire_pre s tm) (ctm_kind tm)) as (_ & _ & Hct).
      assert (Hk1 : K (fun _ => True) (fst (c_fire cfg (fire_pre s tm) (ctm_kind tm)))).
      { apply c_fire_K. apply (K_frame _ s); [reflexivity|reflexivity|exact Hk]. }
      assert (Hia1 : InvA false (fst (c_fire cfg (fire_pre s tm) (ctm_kind tm)))).
      { apply c_fire_invA. apply (invA_frame false s); [reflexivity|reflexivity|reflexivity|exact Hia]. }
      change (cl_now (fire_pre s tm)) with (ctm_at tm) in Hn1, Hct. change (cl_last_read (fire_pre s tm)) with (cl_last_read s) in Hct.
      change (cl_cancelled (fire_pre s tm)) with (cl_cancelled s) in Hct.
      destruct (c_fire cfg (fire_pre s tm) (ctm_kind tm)) as [s1 o1]. cbn [fst snd] in *.
      pose proof (gd_si _ _ _ _ G1) as Hsi1. cbn [fst] in Hsi1.
      pose proof (IH s1 Hsi1 Hk1 Hia1 ltac:(lia) te) as IH1.
      destruct (c_run_timers fuel cfg s1 T) as [s2 o2]. cbn [fst] in *. intros H.
      pose proof (si_lr s Hsi) as Hlr0. pose proof (si_t1 s Hsi tm Hin) as Ht0.
      destruct (IH1 H) as [J1|J1]; [|right; lia].
      destruct (Hct te J1) as [J2|J2]; [left; exact J2|right].
      specialize (J2 ltac:(lia)). lia.
    + destruct (if cl_exited s then None else cl_cancelled s) as [te0|] eqn:Ex; [|intros H; left; exact H].
      destruct (te0 <=? T) eqn:Ele; [|intros H; left; exact H]. apply N.leb_le in Ele.
      assert (Hx : cl_exited s = false /\ cl_cancelled s = Some te0) by (destruct (cl_exited s); [discriminate|auto]). destruct Hx as [Hex Hca].
      assert (Hge : forall u, In u (cl_timers s) -> te0 <= ctm_at u).
      { intros u Hu. specialize (Hmin u Hu). apply andb_false_iff in Edue. destruct Edue as [E|E].
        - apply N.leb_gt in E. lia.
        - apply N.ltb_ge in E. lia. }
      pose proof (exit_Good cfg s te0 Hsi Hca Hex Hge) as G.
      pose proof (c_exit_K (fun _ => True) s te0 Hk) as [Hk1 _]. pose proof (c_exit_invA false s te0 Hia) as Hia1.
      assert (Hca1 : cl_cancelled (fst (c_exit s te0)) = cl_cancelled s) by reflexivity.
      assert (Hn1 : cl_now (fst (c_exit s te0)) = te0) by reflexivity.
      pose proof (gd_si _ _ _ _ G) as Hsi1.
      destruct (c_exit s te0) as [s1 o1]. cbn [fst] in *.
      pose proof (IH s1 Hsi1 Hk1 Hia1 ltac:(lia) te) as IH1.
      destruct (c_run_timers fuel cfg s1 T) as [s2 o2]. cbn [fst] in *. intros H.
      pose proof (si_c1 s Hsi te0 Hca Hex) as Hc0.
      destruct (IH1 H) as [J1|J1]; [left; congruence|right; lia].
  - destruct (if cl_exited s then None else cl_cancelled s) as [te0|] eqn:Ex; [|intros H; left; exact H].
    destruct (te0 <=? T); intros H; left; exact H.
Qed.

Lemma cl_step_CT cfg (Hcfg : wf_cl_cfg cfg) s ev : SI s -> K (fun _ => True) s -> InvA false s ->
  forall te, cl_cancelled (fst (cl_step cfg s ev)) = Some te ->
  cl_cancelled s = Some te \/
  (cl_now s <= te /\ te <= match ev with CAdv d => cl_now s + d | _ => cl_now s end + readTimeout).
Proof.
  intros Hsi Hk Hia te. pose proof (si_lr s Hsi) as Hlr. unfold cl_step. destruct ev as [id a|dg|d].
  - destruct (cl_exited s); [intros H; left; exact H|]. destruct (cl_cancelled s) eqn:Eca; [intros H; left; cbn [fst] in H; congruence|].
    pose proof (CT_do_call cfg s id a) as (_ & _ & Hct). destruct (do_call cfg s id a) as [s1 o1]. cbn [fst] in Hct.
    assert (H1 : cl_cancelled s1 = Some te -> cl_now s <= te /\ te <= cl_now s + readTimeout).
    { intros H. destruct (Hct te H) as [H2|H2]; [congruence|apply H2, Hlr]. }
    destruct (cl_cancelled s1) as [te1|] eqn:Ec; [|intros H; cbn [fst] in H; congruence].
    destruct (te1 <=? cl_now s1).
    + assert (Hc : cl_cancelled (fst (c_exit s1 te1)) = cl_cancelled s1) by reflexivity. destruct (c_exit s1 te1) as [s2 o2]. cbn [fst] in *.
      intros H. right. apply H1. congruence.
    + cbn [fst]. intros H. right. apply H1. congruence.
  - destruct (cl_exited s); [intros H; left; exact H|]. destruct (cl_cancelled s) eqn:Eca; [intros H; left; cbn [fst] in H; congruence|]. cbv zeta.
    destruct (read_dgram dg) as [p|e|ps].
    + pose proof (CT_handle cfg (s <| cl_last_read := cl_now s |>) p) as (_ & _ & Hct).
      change (cl_cancelled (s <| cl_last_read := cl_now s |>)) with (cl_cancelled s) in Hct.
      change (cl_now (s <| cl_last_read := cl_now s |>)) with (cl_now s) in Hct.
      change (cl_last_read (s <| cl_last_read := cl_now s |>)) with (cl_now s) in Hct.
      destruct (handle_packet cfg (s <| cl_last_read := cl_now s |>) p) as [s1 o1]. cbn [fst] in Hct.
      assert (H1 : cl_cancelled s1 = Some te -> cl_now s <= te /\ te <= cl_now s + readTimeout).
      { intros H. destruct (Hct te H) as [H2|H2]; [congruence|apply H2; lia]. }
      destruct (cl_cancelled s1) as [te1|] eqn:Ec; [|intros H; cbn [fst] in H; congruence].
      destruct (te1 <=? cl_now s1).
      * assert (Hc : cl_cancelled (fst (c_exit s1 te1)) = cl_cancelled s1) by reflexivity. destruct (c_exit s1 te1) as [s2 o2]. cbn [fst] in *.
        intros H. right. apply H1. congruence.
      * cbn [fst]. intros H. right. apply H1. congruence.
    + unfold c_exit, c_cancel_from_loop. cbn. rewrite Eca. cbn. intros H. injection H as <-. right. unfold readTimeout. lia.
    + unfold c_exit, c_cancel_from_loop. cbn. rewrite Eca. cbn. intros H. injection H as <-. right. unfold readTimeout. lia.
  - pose proof (run_timers_CT cfg (cl_now s + d) Hcfg (c_advance_fuel cfg s d) s Hsi Hk Hia ltac:(lia) te) as R.
    destruct (c_run_timers _ _ _ _) as [s1 o1]. cbn [fst] in *. exact R.
Qed.

(* calls and datagrams do not move the clock *)
Lemma user_step_now_eq cfg s ev : cl_last_read s <= cl_now s -> (forall d, ev <> CAdv d) -> cl_now (fst (cl_step cfg s ev)) = cl_now s.
Proof.
  intros Hlr Hev. unfold cl_step. destruct ev as [id a|dg|d]; [| |destruct (Hev d eq_refl)].
  - destruct (cl_exited s); [reflexivity|]. destruct (cl_cancelled s) eqn:Eca; [reflexivity|].
    pose proof (CT_do_call cfg s id a) as (Hn & _ & Hct). destruct (do_call cfg s id a) as [s1 o1]. cbn [fst] in *.
    destruct (cl_cancelled s1) as [te1|] eqn:Ec; [|exact Hn]. destruct (te1 <=? cl_now s1) eqn:Ele; [|exact Hn].
    apply N.leb_le in Ele. destruct (Hct te1 eq_refl) as [H|H]; [congruence|]. specialize (H Hlr). cbn. lia.
  - destruct (cl_exited s); [reflexivity|]. destruct (cl_cancelled s) eqn:Eca; [reflexivity|]. cbv zeta.
    destruct (read_dgram dg) as [p|e|ps]; [|reflexivity|reflexivity].
    pose proof (CT_handle cfg (s <| cl_last_read := cl_now s |>) p) as (Hn & _ & Hct).
    change (cl_cancelled (s <| cl_last_read := cl_now s |>)) with (cl_cancelled s) in Hct.
    change (cl_now (s <| cl_last_read := cl_now s |>)) with (cl_now s) in Hct, Hn.
    change (cl_last_read (s <| cl_last_read := cl_now s |>)) with (cl_now s) in Hct.
    destruct (handle_packet cfg (s <| cl_last_read := cl_now s |>) p) as [s1 o1]. cbn [fst] in *.
    destruct (cl_cancelled s1) as [te1|] eqn:Ec; [|exact Hn]. destruct (te1 <=? cl_now s1) eqn:Ele; [|exact Hn].
    apply N.leb_le in Ele. destruct (Hct te1 eq_refl) as [H|H]; [congruence|]. specialize (H ltac:(lia)). cbn. lia.
Qed.

Print Assumptions merge_fold_all.
Print Assumptions merge_fold_filter.
Print Assumptions nofail_filter.
Print Assumptions cl_step_user_LK.
Print Assumptions cl_step_adv_LO.
Print Assumptions ping_start.
Print Assumptions cl_step_user_out.
Print Assumptions cl_step_adv_inst.
Print Assumptions CB_step.
Print Assumptions cl_step_CT.
Print Assumptions user_step_now_eq.
