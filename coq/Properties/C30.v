(* C30 — Predefined-topic configuration means the same in every tool.
   Statement only; proofs in Cli/OptionsProofs.v. *)
From stdpp Require Import base option list numbers fin_maps nmap.
From Verif.Base Require Import Bytes.
From Verif.Topics Require Import Predefined.
From Verif.Cli Require Import Options OptionsProofs.
Open Scope N_scope.

(* tool_cfg is what handleAction of each tool computes from --predefined-topics-file and the
   --predefined-topic options (the call-site skeleton regenerated from cmd/*/actions.go on
   every run checks that all three still apply ReadPredefinedTopicsFile to the file flag,
   ParsePredefinedTopicOptions to the option flag, then Merge; the binaries themselves are run
   by drv_cli).  All three tools use the same mapping: *)
Theorem C30_same_in_every_tool :
  forall (t1 t2 : tool) file opts, tool_cfg t1 file opts = tool_cfg t2 file opts.
Proof. exact tool_cfg_same. Qed.
Print Assumptions C30_same_in_every_tool.

(* ... which is the file's, overridden entry by entry by the options ... *)
Theorem C30_file_overridden_by_options :
  forall (t : tool) (m : predef) (opts : list bytes) (o res : predef) (c : bytes) (i : N),
    opts <> [] -> parse_options opts = Some o -> tool_cfg t (FileOk m) opts = Some res ->
    tm_get (pd_client res c) i =
      match tm_get (pd_client o c) i with Some n => Some n | None => tm_get (pd_client m c) i end.
Proof. exact tool_cfg_lookup. Qed.
Print Assumptions C30_file_overridden_by_options.

(* ... with later options overriding earlier ones ... *)
Theorem C30_later_options_win :
  forall (opts : list bytes) (o : bytes),
    parse_options (opts ++ [o]) =
      match parse_options opts, parse_line o with
      | Some acc, Some (c, n, i) => Some (pd_add acc c i n)
      | _, _ => None
      end.
Proof. exact parse_options_snoc. Qed.
Theorem C30_add_overrides_one_entry :
  forall (cfg : predef) (c c' : bytes) (i i' : N) (n : bytes),
    tm_get (pd_client (pd_add cfg c i n) c') i' = if beq c c' && (i =? i') then Some n else tm_get (pd_client cfg c') i'.
Proof. exact pd_add_lookup. Qed.
Print Assumptions C30_later_options_win.

(* ... and entries without a client ID applying to every client (they land under "*", which every
   client's lookup falls back to: C05). *)
Theorem C30_option_without_client :
  forall (name id : bytes) (i : N), ~ In 59 name -> ~ In 59 id -> parse_uint16 id = Some i ->
    parse_line (name ++ [59] ++ id) = Some (star, name, i).
Proof. exact parse_line_two_fields. Qed.
Print Assumptions C30_option_without_client.

Theorem C30_errors_are_uniform :
  forall t opts, tool_cfg t FileError opts = None /\
    (forall file, opts <> [] -> parse_options opts = None -> tool_cfg t file opts = None).
Proof. exact tool_cfg_errors. Qed.

Example C30_nonvacuous :
  (* "t/a;2" then "cl1;t/a;5" over a file giving cl1 1 -> "xy": cl1 sees 5 and (via "*") 2 -> "t/a" *)
  match tool_cfg TSub (FileOk [([99;108;49], <[1:=[120;121]]> ∅)])
                 [[116;47;97;59;50]; [99;108;49;59;116;47;97;59;53]] with
  | Some r => get_name r [99;108;49] 5 = Some [116;47;97] /\ get_name r [99;108;49] 2 = Some [116;47;97] /\
              get_name r [99;108;49] 1 = Some [120;121]
  | None => False
  end.
Proof. vm_compute. repeat split. Qed.
