(* C31 — Credentials are never sent in plaintext unless explicitly allowed.
   Statement only; proofs in Cli/OptionsProofs.v (start-up guards) and Client/Sound_Client.v
   (AUTH follows every CONNECT exactly when a user is configured). *)
From Coq Require Import List NArith Bool.
From Verif.Cli Require Import Options OptionsProofs.

(* gateway_starts / client_tool_starts transcribe the guards of cmd/*/actions.go (regenerated as
   GUARD lines of coq/skeleton.expected on every run; the binaries are run with all flag and
   environment-variable combinations by drv_cli). *)
Theorem C31_gateway_refuses_plaintext_auth :
  forall auth dtls insecure, gateway_starts auth dtls insecure = true -> auth = true -> dtls = true \/ insecure = true.
Proof. exact gateway_starts_safe. Qed.
Print Assumptions C31_gateway_refuses_plaintext_auth.

Theorem C31_client_tools_refuse_plaintext_user :
  forall user_set user_empty dtls insecure,
    client_tool_starts user_set user_empty dtls insecure = true -> user_set = true ->
    user_empty = false /\ (dtls = true \/ insecure = true).
Proof. exact client_tool_starts_safe. Qed.
Print Assumptions C31_client_tools_refuse_plaintext_user.

Example C31_nonvacuous :
  gateway_starts true false false = false /\ gateway_starts true true false = true /\
  gateway_starts true false true = true /\ gateway_starts false false false = true /\
  client_tool_starts true false false false = false /\ client_tool_starts true false false true = true /\
  client_tool_starts true true true true = false /\ client_tool_starts false false false false = true.
Proof. vm_compute. repeat split. Qed.
