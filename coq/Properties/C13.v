(* C13 — Sessions always terminate cleanly and release everything.
   Statement only; proofs in Gateway/Sound_Timed.v. *)
From stdpp Require Import base option list numbers fin_maps nmap.
From Verif.Base Require Import Bytes.
From Verif.Codec Require Import Packets Decode Encode.
From Verif.Gateway Require Import GwTypes GwStep GwWf GwRun Sound_Timed.
From Verif.Checkers Require Import ChkCodec ChkGw ChkGw2 ChkGw3.
Open Scope N_scope.

(* The monitor of Checkers/ChkGw3.v: at a termination cause of a running session - gateway
   shutdown, the client's plain DISCONNECT, broker EOF or garbage, an undecodable datagram, a packet
   that is illegal in the session's state ([termination_cause], written from the property text) -
   (13,1) a DISCONNECT datagram is written to the client exactly when it was Active or Awake and
   the cause is not its own DISCONNECT; (13,2) Run returns (ObEnd: broker connection and MQTT-SN
   connection closed) within one connection poll interval (100 ms) of the cause.  For every
   history and every point of it at which a cause occurs, the model never fails.
   (That no goroutine outlives the session is observed on the implementation by the drivers'
   goroutine census - FAIL C13 goroutine-leak - and is outside the model.) *)
Theorem C13_all_histories :
  forall cfg evs, wf_cfg cfg -> Forall wf_event evs -> fuel_ok_run cfg (init_state cfg) evs ->
    only_props [13] (mon_run cfg (init_state cfg) mon_init evs) = [].
Proof. exact mon_C13_sound. Qed.
Print Assumptions C13_all_histories.

(* Non-vacuity: an ordinary history (connect, subscribe, broker publish with retransmissions,
   sleep with pinger, wake-ups, disconnect) satisfies the clock condition. *)
Example C13_nonvacuous : Forall wf_event ex_ordinary /\ fuel_ok_run ex_cfg (init_state ex_cfg) ex_ordinary.
Proof. split; [exact ex_ordinary_wf|exact fuel_ok_ordinary]. Qed.
