(* C04 — Topic IDs are unique per session and never reassigned.
   Statement only; proofs in Gateway/Sound_C04C11.v. *)
From stdpp Require Import base option list numbers fin_maps nmap.
From Verif.Base Require Import Bytes.
From Verif.Codec Require Import Packets Decode Encode.
From Verif.Topics Require Import Predefined.
From Verif.Gateway Require Import GwTypes GwStep GwWf GwRun GwWfDec Sound_C04C11.
From Verif.Checkers Require Import ChkCodec ChkGw ChkGw2.
Open Scope N_scope.

(* chk_C04 (Checkers/ChkGw2.v) reads off the observed datagrams of one step the (topic ID,
   name) pairs the gateway tells the client - its own REGISTERs, accepted REGACKs, accepted
   SUBACKs with a non-zero ID - and requires of each: (1) 1 <= ID <= 0xFFFE, (2) the ID is not a
   predefined topic ID visible to the session's client ID, (3) it agrees with every pair told
   before (the ghost list gw_handed_out) and with the other pairs of the step, (4) once the ID
   space was found exhausted, nothing is told that was not announced or allocated before.

   The model passes in every reachable state in which no known topic ID is a predefined ID of
   the *current* client ID ... *)
Theorem C04_checker_sound :
  forall cfg s ev, wf_cfg cfg -> reach cfg s -> wf_event ev -> tids_invisible cfg s ->
    chk_C04 cfg s ev (obs_of_outs (snd (gw_step cfg s ev))) = [].
Proof. exact chk_C04_sound_partial. Qed.
Print Assumptions C04_checker_sound.

(* ... which holds initially and is kept by every step that keeps the client ID, or changes it
   before anything was allocated: *)
Theorem C04_side_condition_invariant :
  forall cfg, tids_invisible cfg (init_state cfg) /\
  forall s ev, wf_cfg cfg -> reach cfg s -> wf_event ev -> tids_invisible cfg s -> cid_stable cfg s ev ->
    tids_invisible cfg (fst (gw_step cfg s ev)).
Proof.
  intros cfg. split; [apply tids_invisible_init|]. intros s ev. apply tids_invisible_step.
Qed.
Print Assumptions C04_side_condition_invariant.

(* Hence for every history - of any length, including histories that exhaust all 65534 IDs -
   in which the peer does not re-CONNECT under another client ID once topic IDs are in use
   (the excluded class is a recorded finding, see DESIGN.md): *)
Theorem C04_all_histories :
  forall cfg evs, wf_cfg cfg -> Forall wf_event evs ->
    run_all cfg (cid_stable cfg) (init_state cfg) evs ->
    run_all cfg (fun s ev => chk_C04 cfg s ev (obs_of_outs (snd (gw_step cfg s ev))) = []) (init_state cfg) evs.
Proof. exact chk_C04_all_histories. Qed.
Print Assumptions C04_all_histories.

(* The full statement (without the side condition) is false of the faithful model. *)
Definition C04_statement : Prop :=
  forall cfg evs, wf_cfg cfg -> Forall wf_event evs ->
    run_all cfg (fun s ev => chk_C04 cfg s ev (obs_of_outs (snd (gw_step cfg s ev))) = []) (init_state cfg) evs.

Definition c04_cfg : gw_cfg :=
  {| auth_enabled := false; cfg_user := None; cfg_pass := None; retry_delay := 1000; retry_count := 2;
     predefined := [([99; 50], <[1 := [112; 47; 49]]> ∅)]; min_tid := 1; max_tid := 65534 |}.
(* CONNECT "c1", CONNACK, REGISTER "a/b" -> ID 1; CONNECT "c2" (for which 1 is predefined), CONNACK,
   REGISTER "a/b" again -> REGACK announces ID 1 *)
Definition c04_hist : list gw_event :=
  [EvSn (pack (Connect false true 1 60 [99; 49])); EvMq (MqConnack false 0);
   EvSn (pack (Register 0 7 [97; 47; 98]));
   EvSn (pack (Connect false true 1 60 [99; 50])); EvMq (MqConnack false 0);
   EvSn (pack (Register 0 8 [97; 47; 98]))].

Lemma c04_cfg_wf : wf_cfg c04_cfg.
Proof.
  unfold wf_cfg, c04_cfg; cbn. repeat split; try lia.
  constructor; [|constructor]. split; [repeat constructor|].
  intros i n H. cbn [snd] in H. apply lookup_insert_Some in H. destruct H as [[<- <-]|[_ H]]; [|exfalso; eapply lookup_empty_Some; exact H].
  split; [lia|repeat constructor].
Qed.

Lemma c04_hist_wf : Forall wf_event c04_hist.
Proof. apply wf_events_spec. vm_compute. reflexivity. Qed.

Theorem C04_refuted : ~ C04_statement.
Proof.
  intros H. specialize (H c04_cfg c04_hist c04_cfg_wf c04_hist_wf).
  assert (Hb : run_allb c04_cfg (fun s ev => passes (chk_C04 c04_cfg s ev (obs_of_outs (snd (gw_step c04_cfg s ev)))))
                 (init_state c04_cfg) c04_hist = true).
  { apply run_allb_spec. eapply run_all_impl; [|exact H]. intros s ev E. apply passes_spec, E. }
  vm_compute in Hb. discriminate Hb.
Qed.
Print Assumptions C04_refuted.

(* Non-vacuity of the partial statement: a history that satisfies the side condition hands out
   IDs 1 and 2 and answers the repeated registration of a name with the ID it already has. *)
Definition c04x_cfg : gw_cfg :=
  {| auth_enabled := false; cfg_user := None; cfg_pass := None; retry_delay := 1000; retry_count := 2;
     predefined := []; min_tid := 1; max_tid := 65534 |}.
Example C04_nonvacuous :
  let evs := [EvSn (pack (Connect false true 1 60 [99; 49])); EvMq (MqConnack false 0);
              EvSn (pack (Register 0 7 [97])); EvSn (pack (Register 0 8 [98])); EvSn (pack (Register 0 9 [97]))] in
  map (fun os => sn_pkts (obs_of_outs os)) (fst (gw_run c04x_cfg (init_state c04x_cfg) evs)) =
  [[]; [Connack 0]; [Regack 1 7 0]; [Regack 2 8 0]; [Regack 1 9 0]].
Proof. vm_compute. reflexivity. Qed.
