(* C27 — Client dispatch follows MQTT topic-filter matching.
   Statement only; proofs in Match/MatchProofs.v. *)
From Coq Require Import List NArith Bool.
From Verif.Base Require Import Bytes.
From Verif.Match Require Import Match MatchProofs.
Import ListNotations.
Open Scope N_scope.

(* mqtt_matches (Match.v) is the MQTT 3.1.1 section 4.7 matching relation on level lists:
   '#' as last level matches any remainder including none (the parent), '+' exactly one level
   (possibly empty), everything else literally.  The client's match function decides it: *)
Theorem C27_match_is_mqtt_matching :
  forall (f t : list bytes), valid_filter f = true -> (match_route f t = true <-> mqtt_matches f t).
Proof. exact match_route_spec. Qed.
Print Assumptions C27_match_is_mqtt_matching.

(* dispatch only considers callbacks whose stored filter matches, and finds one whenever a stored
   filter matches (whatever the iteration order of the handler map) *)
Theorem C27_only_matching_callbacks :
  forall (tb : table) (topic : bytes) (cb : N), In cb (handle_set tb topic) ->
    exists k route, In (k, (route, cb)) tb /\ match_route route (split topic) = true.
Proof. exact handle_set_sound. Qed.
Theorem C27_matching_callback_found :
  forall (tb : table) (topic : bytes) k route cb,
    In (k, (route, cb)) tb -> match_route route (split topic) = true -> In cb (handle_set tb topic).
Proof. exact handle_set_complete. Qed.
Print Assumptions C27_only_matching_callbacks.

(* once a filter is unsubscribed its callback is no longer a candidate *)
Theorem C27_unsubscribed_not_invoked :
  forall (tb : table) (route : list bytes) (topic : bytes) (cb : N),
    In cb (handle_set (tbl_remove tb route) topic) ->
    exists k route', In (k, (route', cb)) tb /\ k <> join route /\ match_route route' (split topic) = true.
Proof. exact unsubscribed_not_invoked. Qed.
Print Assumptions C27_unsubscribed_not_invoked.

Example C27_nonvacuous :
  match_route (split [97;47;35]) (split [97]) = true /\ match_route (split [97;47;43]) (split [97;47]) = true /\
  match_route (split [97;47;43]) (split [97]) = false /\ match_route (split [43]) (split [97;47;98]) = false /\
  handle_set (tbl_store (tbl_store [] (split [97;47;35]) 1) (split [98]) 2) [97;47;120] = [1] /\
  handle_set (tbl_remove (tbl_store [] (split [97;47;35]) 1) (split [97;47;35])) [97;47;120] = [].
Proof. vm_compute. repeat split. Qed.

(* ------------------------------------------------------------------ the client step *)
From Verif.Codec Require Import Packets.
From Verif.Client Require Import ClTypes ClStep Sound_Client Sound_C27b.
From Verif.Checkers Require Import ChkCl ChkCl5.

(* On EVERY step of the client model, from ANY state: a callback that runs belongs to a current
   subscription whose filter matches the resolved topic of the PUBLISH being delivered, at most one
   callback runs per message (chk_C27, clauses 1-4) ... *)
Theorem C27_step_only_matching_callbacks :
  forall cfg s ev, chk_C27 cfg s ev (snd (cl_step cfg s ev)) = nil.
Proof. exact chk_C27_sound. Qed.
Print Assumptions C27_step_only_matching_callbacks.

(* ... and a PUBLISH that a live client delivers (QoS 0/1 on receipt, QoS 2 on PUBREL) whose resolved
   topic matches at least one current subscription does invoke a callback in that step (chk_C27b). *)
Theorem C27_step_delivered_message_invokes_a_callback :
  forall cfg s ev, chk_C27b cfg s ev (snd (cl_step cfg s ev)) = nil.
Proof. exact chk_C27b_sound. Qed.
Print Assumptions C27_step_delivered_message_invokes_a_callback.
