(* C32 — Short-topic and predefined routing is consistent between client and gateway.
   Statement only; proofs in System/RoutingProofs.v (on top of C05 and C21). *)
From stdpp Require Import base option list numbers fin_maps nmap.
From Verif.Base Require Import Bytes.
From Verif.Codec Require Import Packets.
From Verif.Topics Require Import Predefined.
From Verif.Gateway Require Import GwTypes GwStep.
From Verif.Client Require Import ClTypes ClStep.
From Verif.System Require Import RoutingProofs.
Open Scope N_scope.

(* For every shared configuration, client ID, session states and names: *)
Theorem C32_routing_consistent :
  (* outbound: an ID derived from the name (as bisquitt-pub/-sub do with GetTopicID, under any map
     iteration order) or a 2-byte name's short ID is resolved by the gateway to that same name *)
  (forall cfg (s : gw_state) name i,
      i ∈ get_ids (predefined cfg) (gw_client_id s) name ->
      resolve_client_topic cfg s TIT_PREDEFINED i = Some name) /\
  (forall cfg (s : gw_state) name, is_short_topic name = true -> wf_bytes name ->
      resolve_client_topic cfg s TIT_SHORT (encode_short name) = Some name) /\
  (* inbound: the (type, ID) the gateway sends for a broker topic name is resolved by the client
     library, which shares the configuration and the client ID, to that same name *)
  (forall (ccfg : cl_cfg) (cs : cl_state) cfg (s : gw_state) name i,
      k_predef ccfg = predefined cfg -> k_cid ccfg = gw_client_id s -> find_registered s name = None ->
      find_topic_id cfg s name = Some (i, TIT_PREDEFINED) ->
      topic_for_publish ccfg cs TIT_PREDEFINED i = Some name) /\
  (forall (ccfg : cl_cfg) (cs : cl_state) name, is_short_topic name = true -> wf_bytes name ->
      topic_for_publish ccfg cs TIT_SHORT (encode_short name) = Some name).
Proof.
  repeat split.
  - exact predefined_out.
  - exact short_out.
  - exact predefined_in.
  - exact short_in.
Qed.
Print Assumptions C32_routing_consistent.

(* Non-vacuity on the repository's example configuration (client-specific entries shadowing "*"). *)
Definition c32_pd : predef :=
  [ ([99;49], <[1:=[10;11;12]]> ∅); (star, <[1:=[20;21;22]]> (<[3:=[30;31;32]]> ∅)) ].
Example C32_nonvacuous :
  get_ids c32_pd [99;49] [30;31;32] = [3] /\ get_ids c32_pd [99;49] [20;21;22] = [] /\
  get_name c32_pd [99;49] 1 = Some [10;11;12] /\ encode_short [97;98] = 24930 /\ decode_short 24930 = [97;98].
Proof. vm_compute. repeat split. Qed.
