(* C14 — Last will is cancelled only by a plain client DISCONNECT.
   Statement only; proofs in Gateway/GwStepProofs.v. *)
From stdpp Require Import base option list numbers fin_maps nmap.
From Verif.Base Require Import Bytes.
From Verif.Codec Require Import Packets Decode Encode.
From Verif.Gateway Require Import GwTypes GwStep GwStepProofs.
From Verif.Checkers Require Import ChkGw.
Open Scope N_scope.

(* From ANY session state (hence after any history), a step writes an MQTT DISCONNECT to
   the broker only if the event it handles is the client's DISCONNECT datagram without a
   sleep duration.  Timers, timeouts, illegal or undecodable packets, broker EOF/garbage,
   gateway shutdown and sleep DISCONNECTs therefore never send one: the session ends
   (OutEnd = Run returned, broker connection closed) and the broker publishes the will. *)
Theorem C14_step :
  forall (cfg : gw_cfg) (s : gw_state) (ev : gw_event) (t : N),
    In (OutMq t MqDisconnect) (snd (gw_step cfg s ev)) ->
    exists dg, ev = EvSn dg /\ read_dgram dg = Ok (Disconnect 0).
Proof. exact gw_step_mq_disconnect. Qed.
Print Assumptions C14_step.

(* The same over whole histories from the initial state. *)
Theorem C14_histories :
  forall (cfg : gw_cfg) (evs : list gw_event),
    Forall2 (fun ev outs => forall t, In (OutMq t MqDisconnect) outs ->
                                      exists dg, ev = EvSn dg /\ read_dgram dg = Ok (Disconnect 0))
            evs (fst (gw_run cfg (init_state cfg) evs)).
Proof.
  intros cfg evs. apply gw_run_forall2. intros s ev t. apply gw_step_mq_disconnect.
Qed.
Print Assumptions C14_histories.

(* The extracted checker accepts everything the model does. *)
Theorem C14_checker_sound :
  forall cfg s ev, chk_C14 ev (obs_of_outs (snd (gw_step cfg s ev))) = [].
Proof. exact chk_C14_sound. Qed.
Print Assumptions C14_checker_sound.

(* Non-vacuity: a connected session does send the DISCONNECT on a plain DISCONNECT, and
   does not on shutdown. *)
Definition c14_cfg : gw_cfg :=
  {| auth_enabled := false; cfg_user := None; cfg_pass := None; retry_delay := 1000; retry_count := 2;
     predefined := []; min_tid := 1; max_tid := 65534 |}.
Definition c14_connected : gw_state :=
  snd (gw_run c14_cfg (init_state c14_cfg)
         [EvSn [9; 4; 4; 1; 0; 60; 99; 108; 49]; EvMq (MqConnack false 0)]).
Example C14_nonvacuous :
  gw_st c14_connected = Active /\
  existsb is_mq_disconnect (mqs (obs_of_outs (snd (gw_step c14_cfg c14_connected (EvSn [2; 24]))))) = true /\
  existsb is_mq_disconnect (mqs (obs_of_outs (snd (gw_step c14_cfg c14_connected EvShutdown)))) = false.
Proof. vm_compute. repeat split. Qed.
