(* C28 — Client API calls always return and the client shuts down.
   Statement only; proofs in Client/Sound_ClTimed.v. *)
From stdpp Require Import base option list numbers fin_maps nmap.
From Verif.Base Require Import Bytes.
From Verif.Codec Require Import Packets Decode Encode.
From Verif.Topics Require Import Predefined.
From Verif.Client Require Import ClTypes ClStep Sound_Client Sound_ClTimed.
From Verif.Checkers Require Import ChkCodec ChkGw ChkCl ChkCl2.
Open Scope N_scope.

(* The monitor cmon (Checkers/ChkCl2.v) is folded over a history of the client model next to the
   model state.  The events of a history are arbitrary: API calls at any time, any datagram from
   the gateway (expected, unexpected, stale, duplicated, undecodable) at any time, silence of any
   length - every behaviour of the gateway and of the link.
     (28,1)  every blocking API call returns, and by its bound (call_bound: ConnectTimeout x
             (RetryCount+1) for Connect; one retry budget (RetryCount+1) x RetryDelay for Register,
             Subscribe, Unsubscribe, Ping, Publish QoS 1, Disconnect, Close; two budgets for Publish
             QoS 2; one budget + the sleep duration + the PINGRESP wait for Sleep; plus the receive
             loop's poll interval), and a call that is overdue at the end of a step is reported;
     (28,2)  after Close was called or the gateway sent DISCONNECT the client is gone (every
             goroutine of its group returned: CoExit) by the deadline the same budget gives;
     (17,4)  the retry-budget half of C17 (Publish returns nil only within the budget of the last
             progress of its exchange).
   cmon_sound: on EVERY history the monitor reports nothing.

   Side conditions, both executable and checked on every replayed history by the harness:
   cl_fresh - call identifiers (harness bookkeeping) are not reused while the call is pending;
   adv_ok   - the model's timer loop did not run out of fuel during an advance (it has 100000
              iterations per advance; Sound_ClTimed.ex_stuck_not_ok shows the excluded case). *)
Theorem C28_all_histories :
  forall cfg evs, wf_cl_cfg cfg -> Forall wf_cl_event evs ->
    cl_run_all cfg (fun s ev => cl_fresh s ev = true) cl_init evs ->
    cl_run_all cfg (fun s ev => adv_ok cfg s ev = true) cl_init evs ->
    cmon_run cfg cl_init cmon_init evs = [].
Proof. exact cmon_sound. Qed.
Print Assumptions C28_all_histories.

(* Non-vacuity: a history with a connect after one timeout, QoS 1 and 2 publishes with late and
   duplicated answers, two pings sharing a store slot, Sleep with a repeated DISCONNECT, Sleep from
   the awake state, Close and a call after Close meets both side conditions. *)
Example C28_nonvacuous :
  cl_run_all (ex_cfg 1000 2) (fun s ev => cl_fresh s ev = true) cl_init ex_hist /\
  cl_run_all (ex_cfg 1000 2) (fun s ev => adv_ok (ex_cfg 1000 2) s ev = true) cl_init ex_hist.
Proof. split; [exact ex_hist_fresh | exact ex_hist_adv_ok]. Qed.
