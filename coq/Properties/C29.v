(* C29 — ID sequence and transaction store behave atomically.
   Statement only; proofs in Util/IdSeqProofs.v. *)
From stdpp Require Import base option list numbers fin_maps nmap.
From Verif.Base Require Import Bytes.
From Verif.Util Require Import IdSeq IdSeqProofs.
Open Scope N_scope.

(* Every method body of util.IDSequence and transactions.TransactionStore runs entirely inside
   Lock()/defer Unlock() (regenerated from the source on every run: coq/skeleton.expected), so
   a concurrent execution is a schedule of atomic calls.  Any schedule, whichever threads make
   the calls, yields exactly the sequential history: *)
Theorem C29_any_schedule_is_sequential :
  forall (c : idseq) (sched : list N),
    map snd (fst (q_run_sched c sched)) = fst (q_run (length sched) c) /\
    snd (q_run_sched c sched) = snd (q_run (length sched) c).
Proof. exact q_sched_sequential. Qed.
Print Assumptions C29_any_schedule_is_sequential.

(* ... and the sequential history is min..max in order, wrapping to min, with the overflow
   flag exactly on the first value after a wrap; for all ranges min <= max < 2^16. *)
Theorem C29_sequence :
  forall (min max : N) (k j : nat), min <= max -> max < 65536 -> (j < k)%nat ->
    nth_error (fst (q_run k (q_new min max))) j =
      Some (min + (N.of_nat j) mod (max - min + 1),
            (0 <? N.of_nat j) && ((N.of_nat j) mod (max - min + 1) =? 0)).
Proof. exact q_run_nth. Qed.
Print Assumptions C29_sequence.

(* no two callers get the same ID within one cycle *)
Theorem C29_distinct_in_cycle :
  forall (min max : N) (k j1 j2 : nat) r1 r2,
    min <= max -> max < 65536 -> (j1 < j2)%nat -> (j2 < k)%nat -> (N.of_nat j2 - N.of_nat j1 < max - min + 1) ->
    nth_error (fst (q_run k (q_new min max))) j1 = Some r1 ->
    nth_error (fst (q_run k (q_new min max))) j2 = Some r2 -> fst r1 <> fst r2.
Proof. exact q_run_distinct_in_cycle. Qed.
Print Assumptions C29_distinct_in_cycle.

(* the store is an atomic map per key space, and the two key spaces do not interact *)
Theorem C29_store_is_two_maps :
  (forall s id tag, fst (st_step (snd (st_step s (OpStore id tag))) (OpGet id)) = Some tag) /\
  (forall s id id' tag, id <> id' ->
      fst (st_step (snd (st_step s (OpStore id tag))) (OpGet id')) = fst (st_step s (OpGet id'))) /\
  (forall s id, fst (st_step (snd (st_step s (OpDelete id))) (OpGet id)) = None) /\
  (forall s id id', id <> id' ->
      fst (st_step (snd (st_step s (OpDelete id))) (OpGet id')) = fst (st_step s (OpGet id'))) /\
  (forall s o, match o with OpStore _ _ | OpGet _ | OpDelete _ | OpDeleteIf _ _ => by_type (snd (st_step s o)) = by_type s
                          | _ => by_id (snd (st_step s o)) = by_id s end) /\
  (* DeleteIf (repair ae1425c): removes the entry exactly when it holds the given transaction *)
  (forall s id id' tag,
      (by_id s !! id = Some tag -> fst (st_step (snd (st_step s (OpDeleteIf id tag))) (OpGet id)) = None) /\
      (by_id s !! id <> Some tag -> snd (st_step s (OpDeleteIf id tag)) = s) /\
      (id <> id' -> fst (st_step (snd (st_step s (OpDeleteIf id tag))) (OpGet id')) = fst (st_step s (OpGet id')))).
Proof.
  split; [exact st_get_after_store|]. split; [exact st_get_other_key|]. split; [exact st_get_after_delete|].
  split; [exact st_delete_other_key|]. split; [exact st_spaces_independent|]. exact st_delete_if_laws.
Qed.
Print Assumptions C29_store_is_two_maps.

Example C29_nonvacuous :
  fst (q_run 5 (q_new 1 3)) = [(1, false); (2, false); (3, false); (1, true); (2, false)] /\
  map snd (fst (q_run_sched (q_new 65534 65535) [7; 9; 7])) = [(65534, false); (65535, false); (65534, true)].
Proof. vm_compute. split; reflexivity. Qed.
