(* C09 — Connect exchange follows the will protocol and sends one CONNECT.
   Statement only; proofs in Gateway/Sound_C07C08C09.v. *)
From stdpp Require Import base option list numbers fin_maps nmap.
From Verif.Base Require Import Bytes.
From Verif.Codec Require Import Packets Decode Encode.
From Verif.Topics Require Import Predefined.
From Verif.Gateway Require Import GwTypes GwStep GwWf GwRun Sound_C07C08C09.
From Verif.Checkers Require Import ChkCodec ChkGw ChkGw2.
Open Scope N_scope.

(* chk_C09 (Checkers/ChkGw2.v), per step, with the connect exchange stored in the state before
   the step as context: (1) WILLTOPICREQ is written only for a CONNECT with the Will flag (at once,
   or once its AUTH arrived when authentication is enabled); (2) WILLMSGREQ only in the step that
   handles a WILLTOPIC while the will topic is awaited; (3) at most one MQTT CONNECT per step and
   only when the exchange is complete - for a CONNECT without will (and its AUTH), or in the step
   that handles the WILLMSG - (4) carrying exactly the will topic, QoS and retain flag of the
   WILLTOPIC and the message of the WILLMSG, and no will when the Will flag was not set; (5) the
   client's CONNACK is 'accepted' exactly when the broker's code is 0, otherwise 'congestion',
   and 'not supported' for a zero keep-alive.  Since each completed step of the exchange moves
   it forward (CxAuth -> CxWillTopic -> CxWillMsg -> CxConnack) and a new CONNECT replaces it,
   "per step" gives "at most one CONNECT per exchange".

   The model passes in every reachable state; the excluded step (c09_excluded) is the wake-up
   PINGREQ of a client that announced sleep in the middle of its own connect exchange, when the
   queued WILLTOPICREQ / WILLMSGREQ is written with the rest of the sleep buffer (the order
   CONNECT < WILLTOPICREQ < WILLTOPIC < WILLMSGREQ is unchanged; the per-step clause cannot
   attribute the flushed request to the step that queued it). *)
Theorem C09_checker_sound :
  forall cfg s ev, wf_cfg cfg -> reach cfg s -> wf_event ev -> c09_excluded cfg s ev = false ->
    chk_C09 cfg s ev (obs_of_outs (snd (gw_step cfg s ev))) = [].
Proof. exact chk_C09_sound_partial. Qed.
Print Assumptions C09_checker_sound.

Theorem C09_all_histories :
  forall cfg evs, wf_cfg cfg -> Forall wf_event evs ->
    run_all cfg (fun s ev => c09_excluded cfg s ev = false) (init_state cfg) evs ->
    run_all cfg (fun s ev => chk_C09 cfg s ev (obs_of_outs (snd (gw_step cfg s ev))) = []) (init_state cfg) evs.
Proof. exact chk_C09_all_histories. Qed.
Print Assumptions C09_all_histories.

(* Non-vacuity: a will exchange. *)
Definition c09_cfg : gw_cfg :=
  {| auth_enabled := false; cfg_user := None; cfg_pass := None; retry_delay := 1000; retry_count := 2;
     predefined := []; min_tid := 1; max_tid := 65534 |}.
Example C09_nonvacuous :
  let evs := [EvSn (pack (Connect true true 1 60 [99; 49])); EvSn (pack (WillTopic 1 true [119; 47; 116]));
              EvSn (pack (WillMsg [98; 121; 101])); EvMq (MqConnack false 0)] in
  map (fun os => (sn_pkts (obs_of_outs os),
                  mqs (obs_of_outs os) ≫= (fun m => match m with MqConnect c => [(c_will c, c_wtopic c, c_wqos c, c_wretain c, c_wmsg c)] | _ => [] end)))
      (fst (gw_run c09_cfg (init_state c09_cfg) evs)) =
  [([WillTopicReq], []); ([WillMsgReq], []); ([], [(true, [119; 47; 116], 1, true, [98; 121; 101])]); ([Connack 0], [])].
Proof. vm_compute. reflexivity. Qed.
