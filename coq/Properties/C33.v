(* C33 — Client keep-alive pings only while active.
   Statement only; proofs in Client/Sound_Ka.v (Sound_Ka_aux.v).
   The keep-alive loop is modelled as a wrapper around the client model (Client/ClKeepalive.v: ticker,
   pending tick, the capacity-1 state channel, the loop blocked inside c.ping()); the monitor kmon
   (Checkers/ChkCl4.v) states the three clauses of the property over a history.  PARTIAL and REFUTED:

   - proved, for EVERY history inside the sequential model (ka_modelled: no step sets ka_excl): the loop
     STARTS a ping only at an instant at which the client is active - never while asleep, awake-after-
     sleep or disconnected (C33_loop_pings_only_when_active);
   - REFUTED (the faithful model shows it, the witnesses run on the real client in every check):
     a keep-alive ping that is unanswered when the client falls asleep is RETRANSMITTED while asleep
     (clause (33,2)); the loop's ping takes the store slot of a Ping call of the API, the PINGRESP
     completes the loop's ping and the API call fails (clause (33,3));
   - proved as well, inside the model: clause (33,1) - a live active client never goes longer than
     max(KeepAlive, RetryDelay) without a PINGREQ (C33_pingreq_at_least_every_period);
   - OUTSIDE the model (nothing is stated, see DESIGN.md): a state change while the loop is inside a
     ping and the channel already holds an unread change (the sender blocks in notifyStateChange - the
     receive loop, the wake-up timer or the API goroutine), and the choice of Go's select between a
     pending tick and a pending state change. *)
From stdpp Require Import base option list numbers fin_maps nmap.
From Verif.Base Require Import Bytes.
From Verif.Codec Require Import Packets Decode Encode.
From Verif.Gateway Require Import GwTypes.
From Verif.Client Require Import ClTypes ClStep ClKeepalive Sound_Client Sound_Ka Sound_KaGap.
From Verif.Checkers Require Import ChkCl4.
Open Scope N_scope.

Theorem C33_loop_pings_only_when_active :
  forall cfg evs, 0 < k_keepalive cfg -> ka_modelled cfg ka_init evs = true ->
    ka_run_all cfg (fun k ev =>
      forall t id, In (KoPing t id) (snd (ka_step cfg k ev)) ->
        state_at (ka_seen k) (ko_changes (snd (ka_step cfg k ev))) t = Active) ka_init evs.
Proof. exact ka_ping_only_when_active_history. Qed.
Print Assumptions C33_loop_pings_only_when_active.

(* Clause (33,1): in every history inside the sequential model a live, active client never goes longer
   than max(KeepAlive, RetryDelay) without writing a PINGREQ (the loop's ticks while it is idle, the retry
   schedule of its ping while it is inside one).  Side conditions, executable and folded over the history:
   ka_user_ok - API call identifiers are below INTERNAL and not reused while pending (harness bookkeeping);
   ka_clock_ok - no inner advance exhausts the fuel of the model's timer loop. *)
Theorem C33_pingreq_at_least_every_period :
  forall cfg evs, wf_cl_cfg cfg -> 0 < k_keepalive cfg ->
    ka_modelled cfg ka_init evs = true ->
    ka_run_allb cfg ka_user_ok ka_init evs = true ->
    ka_run_allb cfg (ka_clock_ok cfg) ka_init evs = true ->
    forall pc, In pc (kmon_run cfg ka_init kmon_init evs) -> pc <> (33, 1).
Proof. exact kmon_gap_sound. Qed.
Print Assumptions C33_pingreq_at_least_every_period.

Theorem C33_refuted_retransmission_while_asleep :
  wf_cl_cfg cfg33 /\ ka_modelled cfg33 ka_init h_retransmit = true /\
  kmon_run cfg33 ka_init kmon_init h_retransmit = [(33, 2)].
Proof. exact C33_refuted_retransmission. Qed.
Print Assumptions C33_refuted_retransmission_while_asleep.

Theorem C33_refuted_ping_call_fails :
  ka_modelled cfg33 ka_init h_victim = true /\ In (33, 3) (kmon_run cfg33 ka_init kmon_init h_victim).
Proof. exact Sound_Ka.C33_refuted_ping_call_fails. Qed.
Print Assumptions C33_refuted_ping_call_fails.

(* non-vacuity: an ordinary history (connect, three answered keep-alive pings, a sleep cycle) is inside
   the model, the monitor accepts it, and the loop's pings are exactly the three ticks *)
Example C33_nonvacuous :
  ka_modelled cfg33 ka_init h_ordinary = true /\ kmon_run cfg33 ka_init kmon_init h_ordinary = [] /\
  List.filter (fun o => match o with KoPing _ _ => true | _ => false end) (concat (fst (ka_run cfg33 ka_init h_ordinary)))
    = [KoPing 2010 1000000; KoPing 4010 1000001; KoPing 6010 1000002].
Proof. exact C33_ordinary. Qed.
