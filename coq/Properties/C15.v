(* C15 — Client sessions are isolated from each other.
   Statement only; proof in Gateway/GwMultiProofs.v. *)
From stdpp Require Import base option list numbers fin_maps nmap.
From Verif.Base Require Import Bytes.
From Verif.Codec Require Import Packets Decode Encode.
From Verif.Gateway Require Import GwTypes GwStep GwMulti GwMultiProofs.
Open Scope N_scope.

(* A gateway (Gateway/GwMulti.v) keeps one session per MQTT-SN peer address, created at that
   peer's first datagram, each with its own broker connection; events are addressed to a session
   (MTo a ev: a datagram from peer a, a packet or EOF on a's broker connection, ...) or let time pass
   for everybody (MAdv).  For EVERY interleaving es of the events of any number of peers, from
   any set ms of already existing sessions, what the gateway writes for peer a - to a and to a's
   broker connection - is exactly what a gateway serving only peer a writes for a's own events
   (proj a): registrations, subscriptions, credentials, state changes, malformed packets and
   termination of the other sessions change nothing. *)
Theorem C15_non_interference :
  forall (cfg : gw_cfg) (a : N) (es : list mev) (ms : Nmap gw_state),
    concat (map (outs_for a) (multi_run cfg ms es)) =
    fst (gw_run cfg (st_of cfg a ms) (proj a (has a ms) es)).
Proof. exact non_interference. Qed.
Print Assumptions C15_non_interference.

(* Non-vacuity: two peers, the second one sends garbage and is dropped; the first one's exchange
   is what it would be alone. *)
Definition c15_cfg : gw_cfg :=
  {| auth_enabled := false; cfg_user := None; cfg_pass := None; retry_delay := 1000; retry_count := 2;
     predefined := []; min_tid := 1; max_tid := 65534 |}.
Example C15_nonvacuous :
  let connect := EvSn (pack (Connect false true 1 60 [99; 49])) in
  let es := [MTo 1 connect; MTo 2 (EvSn [1; 2; 3]); MAdv 150; MTo 1 (EvMq (MqConnack false 0)); MTo 2 connect] in
  length (concat (map (outs_for 1) (multi_run c15_cfg ∅ es))) = 3%nat /\
  concat (map (outs_for 1) (multi_run c15_cfg ∅ es)) =
  fst (gw_run c15_cfg (init_state c15_cfg) [connect; EvAdvance 150; EvMq (MqConnack false 0)]).
Proof. vm_compute. split; reflexivity. Qed.
