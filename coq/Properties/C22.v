(* C22 — Decoded packets faithfully reflect the datagram.
   Statement only; proofs in Codec/RefParseProofs.v. *)
From Coq Require Import List NArith Bool.
From Verif.Base Require Import Bytes.
From Verif.Codec Require Import Packets Decode Encode RefParse RefParseProofs.
From Verif.Checkers Require Import ChkCodec.
Open Scope N_scope.

(* ref_parse (Codec/RefParse.v) is an independent positional parser written from the MQTT-SN 1.2
   tables: header of 2 or 4 octets as selected by the FIRST octet, fields at fixed offsets after
   it, flag bits tested by position.  For every datagram the decoder accepts, the decoded packet
   is exactly what the reference parser reads at those positions, and re-encoding it reproduces
   the datagram's type and body up to mask_ignored (flag bits the type ignores, DISCONNECT
   duration 0); the length field is not compared. *)
Theorem C22_decoded_reflects_datagram :
  forall (dg : bytes) (p : packet),
    wf_bytes dg -> (length dg <= N.to_nat MaxPacketLen)%nat -> read_dgram dg = Ok p ->
    ref_parse dg = Some p /\
    exists t body, ref_split dg = Some (t, body) /\ ref_split (pack p) = Some (t, mask_ignored t body).
Proof.
  intros dg p Hwf Hlen Hr. unfold read_dgram in Hr.
  rewrite firstn_all2 in Hr by exact Hlen. split.
  - exact (read_packet_ref_parse dg p Hwf Hr).
  - exact (repack_reproduces dg p Hwf Hlen Hr).
Qed.
Print Assumptions C22_decoded_reflects_datagram.

Theorem C22_checker_sound :
  forall (dg : bytes) (p : packet),
    wf_bytes dg -> (length dg <= N.to_nat MaxPacketLen)%nat -> read_dgram dg = Ok p ->
    chk_C22 dg p (pack p) = [].
Proof. exact chk_C22_sound. Qed.
Print Assumptions C22_checker_sound.

(* Non-vacuity: the 3-byte length form announcing a length <= 255 (never produced by the
   encoder) is decoded from the right offset; ignored flag bits and a zero DISCONNECT
   duration are the only differences after re-encoding. *)
Example C22_nonvacuous :
  read_dgram [1; 0; 9; 12; 98; 0; 5; 0; 7; 120; 121] = Ok (Publish false 3 false 2 5 7 [120; 121]) /\
  ref_parse [1; 0; 9; 12; 98; 0; 5; 0; 7; 120; 121] = Some (Publish false 3 false 2 5 7 [120; 121]) /\
  read_dgram [4; 24; 0; 0] = Ok (Disconnect 0) /\ pack (Disconnect 0) = [2; 24] /\
  read_dgram [7; 12; 110; 0; 5; 0; 7] = Ok (Publish false 3 false 2 5 7 []) /\
  pack (Publish false 3 false 2 5 7 []) = [7; 12; 98; 0; 5; 0; 7].
Proof. vm_compute. repeat split. Qed.
