(* C17 — Client library QoS guarantees under loss.
   Statement only; proofs in Client/Sound_Client.v. *)
From stdpp Require Import base option list numbers fin_maps nmap.
From Verif.Base Require Import Bytes.
From Verif.Codec Require Import Packets Decode Encode.
From Verif.Topics Require Import Predefined.
From Verif.Client Require Import ClTypes ClStep Sound_Client.
From Verif.Checkers Require Import ChkCodec ChkGw ChkCl.
Open Scope N_scope.

(* chk_C17 (Checkers/ChkCl.v), per step of the client model, for EVERY behaviour of the gateway
   and of the link (datagrams arrive, are lost - the retry timers fire - or are duplicated in any
   order: the events of a history are arbitrary): (1) Publish(QoS 1/2) returns nil only in the
   step that handles the gateway's accepting PUBACK, resp. the PUBCOMP after the PUBREC, for its
   own message ID, while the exchange awaits exactly that acknowledgement; (2) every PUBLISH or
   SUBSCRIBE written because a retry timer fired carries DUP = 1 (the correspondence compares the
   whole datagram, message ID included, with the model's stored packet); (3) every PUBREL is
   answered in the same step with exactly one PUBCOMP of the same message ID, also for an exchange
   the client already finished.

   Side condition: API call identifiers (harness bookkeeping for matching returns to calls) are
   not reused while the call is pending (cl_fresh). *)
Theorem C17_checker_sound :
  forall cfg s ev, wf_cl_cfg cfg -> cl_reach cfg s -> wf_cl_event ev -> calls_uniq s -> cl_fresh s ev = true ->
    chk_C17 cfg s ev (snd (cl_step cfg s ev)) = [].
Proof. exact chk_C17_partial. Qed.
Print Assumptions C17_checker_sound.

Theorem C17_all_histories :
  forall cfg evs, wf_cl_cfg cfg -> Forall wf_cl_event evs ->
    cl_run_all cfg (fun s ev => cl_fresh s ev = true) cl_init evs ->
    cl_run_all cfg (fun s ev => chk_C17 cfg s ev (snd (cl_step cfg s ev)) = []) cl_init evs.
Proof. exact chk_C17_history. Qed.
Print Assumptions C17_all_histories.
