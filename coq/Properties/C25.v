(* C25 — No packet sequence crashes the gateway or the client.
   Statement only; proofs in Gateway/NoPanic.v (and Codec/DecodeProofs.v). *)
From stdpp Require Import base option list numbers fin_maps nmap.
From Verif.Base Require Import Bytes.
From Verif.Codec Require Import Packets Decode.
From Verif.Gateway Require Import GwTypes GwStep NoPanic.
From Verif.Client Require Import ClTypes ClStep.
Open Scope N_scope.

(* In the models the only operations of a session step with a crash outcome are the index and slice
   expressions of packet decoding (every other panic-capable expression of the session code is
   accounted for by the panic-site census regenerated from the source on every run: see
   Gateway/NoPanic.v).  For EVERY history of events - any datagrams from the peer, any broker
   packets, any API calls, any timing - no step of a gateway session or of the client library
   crashes; gw_step and cl_step are total functions, so each event is handled or ends the session
   / client with an error (OutCancel / CoExit). *)
Theorem C25_gateway_never_crashes : forall evs : list gw_event, existsb gw_step_crashes evs = false.
Proof. exact gw_history_never_crashes. Qed.
Print Assumptions C25_gateway_never_crashes.

Theorem C25_client_never_crashes : forall evs : list cl_event, existsb cl_step_crashes evs = false.
Proof. exact cl_history_never_crashes. Qed.
Print Assumptions C25_client_never_crashes.
