(* C07 — No active session without a broker-accepted CONNECT.
   Statement only; proofs in Gateway/Sound_C07C08C09.v. *)
From stdpp Require Import base option list numbers fin_maps nmap.
From Verif.Base Require Import Bytes.
From Verif.Codec Require Import Packets Decode Encode.
From Verif.Topics Require Import Predefined.
From Verif.Gateway Require Import GwTypes GwStep GwWf GwRun Sound_C07C08C09 Sound_Extra Sound_C07t.
From Verif.Checkers Require Import ChkCodec ChkGw ChkGw2 ChkGw7.
Open Scope N_scope.

(* gw_accepted is a ghost flag that only the handling of a broker CONNACK(0) for the pending
   connect exchange of this session sets.  chk_C07 (Checkers/ChkGw2.v) says of a step that starts
   before that: (1) a CONNACK 'accepted' is written to the client only in the step that handles the
   broker's CONNACK(0); (2) nothing goes to the broker except the CONNECT of the exchange, the MQTT
   DISCONNECT answering a plain DISCONNECT (C14) and - authentication disabled - a QoS -1 PUBLISH
   on a short or predefined topic.  Every step of the model from every reachable state passes,
   whatever the packet types, sleep durations and will flags before the connect exchange. *)
Theorem C07_checker_sound :
  forall cfg s ev, wf_cfg cfg -> reach cfg s -> wf_event ev ->
    chk_C07 cfg s ev (obs_of_outs (snd (gw_step cfg s ev))) = [].
Proof. exact chk_C07_sound. Qed.
Print Assumptions C07_checker_sound.

Theorem C07_all_histories :
  forall cfg evs, wf_cfg cfg -> Forall wf_event evs ->
    run_all cfg (fun s ev => chk_C07 cfg s ev (obs_of_outs (snd (gw_step cfg s ev))) = []) (init_state cfg) evs.
Proof. exact chk_C07_all_histories. Qed.
Print Assumptions C07_all_histories.

(* The state invariant behind it: a session that is not Disconnected has been accepted by the
   broker in this session. *)
Theorem C07_connected_implies_accepted :
  forall cfg s, wf_cfg cfg -> reach cfg s -> gw_st s <> Disconnected -> gw_accepted s = true.
Proof. exact reach_connected_accepted. Qed.
Print Assumptions C07_connected_implies_accepted.

(* Non-vacuity: the former defect (sleep, wake-up, CONNECT from a never-connected session) is
   refused, and a regular exchange is accepted only at the broker's CONNACK. *)
Definition c07_cfg : gw_cfg :=
  {| auth_enabled := false; cfg_user := None; cfg_pass := None; retry_delay := 1000; retry_count := 2;
     predefined := []; min_tid := 1; max_tid := 65534 |}.
Example C07_nonvacuous :
  let connect := EvSn (pack (Connect false true 1 60 [99; 49])) in
  map (fun os => (sn_pkts (obs_of_outs os), len (mqs (obs_of_outs os))))
      (fst (gw_run c07_cfg (init_state c07_cfg) [connect; EvMq (MqConnack false 0)])) =
  [([], 1); ([Connack 0], 0)] /\
  gw_ending (snd (gw_run c07_cfg (init_state c07_cfg) [EvSn (pack (Disconnect 5))])) <> None.
Proof. vm_compute. split; [reflexivity|discriminate]. Qed.

(* The property as a monitor of the OBSERVED TRACE alone (Checkers/ChkGw7.v: mon7_step takes the configuration, the event
   and the observations - no model state, so it also judges what an implementation does after the model's session
   is over).  Code 8: an MQTT packet other than CONNECT / DISCONNECT (or garbage) is written to the broker while no
   MQTT CONNECT has been written in this history - except in the step of a QoS -1 PUBLISH on a short or predefined
   topic with authentication disabled, the property's stated exception.  Code 9: CONNACK "accepted" is written to
   the client while the broker has not accepted a CONNECT (no event MqConnack _ 0 so far).  In EVERY history of the
   model nothing is reported: *)
Theorem C07_trace_all_histories :
  forall cfg evs, wf_cfg cfg -> Forall wf_event evs ->
    mon7_run cfg (init_state cfg) mon7_init evs = [].
Proof. exact Sound_C07t.C07_trace_all_histories. Qed.
Print Assumptions C07_trace_all_histories.
