(* C03 — Control packets are translated one-to-one with matching IDs and codes.
   Statement only; proofs in Gateway/Sound_C01C03.v. *)
From stdpp Require Import base option list numbers fin_maps nmap.
From Verif.Base Require Import Bytes.
From Verif.Codec Require Import Packets Decode Encode.
From Verif.Topics Require Import Predefined.
From Verif.Gateway Require Import GwTypes GwStep GwWf GwRun Sound_C01C03.
From Verif.Checkers Require Import ChkCodec ChkGw ChkGw2.
Open Scope N_scope.

(* chk_C03 (Checkers/ChkGw2.v) is the executable statement, per step, of the ten translations:
   client SUBSCRIBE / UNSUBSCRIBE / PUBREL / PINGREQ / DISCONNECT(0) of a connected client give
   exactly one MQTT packet of the paired type with the same message ID, the filter the topic
   ID denotes ([filter_of], written independently of the handlers) and the requested QoS;
   broker PUBREC / PUBCOMP / UNSUBACK / PINGRESP / SUBACK give exactly one MQTT-SN packet of the
   paired type with the same message ID; a SUBACK is 'accepted' exactly when the broker's code is
   0-2 and then carries that code as granted QoS and the topic ID allocated at SUBSCRIBE time
   (0 for wildcard and short names).  Requests that have no MQTT translation (QoS 3, message ID
   0, unknown predefined ID) produce nothing; a SUBSCRIBE by name when the topic IDs are
   exhausted is refused locally (C04).

   Every step of the model from every reachable state passes, for all field values. *)
Theorem C03_checker_sound :
  forall cfg s ev, wf_cfg cfg -> reach cfg s -> wf_event ev ->
    chk_C03 cfg s ev (obs_of_outs (snd (gw_step cfg s ev))) = [].
Proof. exact chk_C03_sound. Qed.
Print Assumptions C03_checker_sound.

(* ... hence every step of every history of well-formed events. *)
Theorem C03_all_histories :
  forall cfg evs, wf_cfg cfg -> Forall wf_event evs ->
    run_all cfg (fun s ev => chk_C03 cfg s ev (obs_of_outs (snd (gw_step cfg s ev))) = []) (init_state cfg) evs.
Proof. exact chk_C03_all_histories. Qed.
Print Assumptions C03_all_histories.

(* Non-vacuity: the SUBSCRIBE / SUBACK pair of a connected session, broker grants QoS 2 for a
   request of QoS 1. *)
Definition c03_cfg : gw_cfg :=
  {| auth_enabled := false; cfg_user := None; cfg_pass := None; retry_delay := 1000; retry_count := 2;
     predefined := []; min_tid := 1; max_tid := 65534 |}.
Definition c03_connected : gw_state :=
  snd (gw_run c03_cfg (init_state c03_cfg)
         [EvSn [9; 4; 4; 1; 0; 60; 99; 108; 49]; EvMq (MqConnack false 0)]).
Definition c03_sub := EvSn (pack (Subscribe false 1 0 5 0 [97; 47; 98])).
Example C03_nonvacuous :
  mqs (obs_of_outs (snd (gw_step c03_cfg c03_connected c03_sub))) = [MqSubscribe 5 false [([97; 47; 98], 1)]] /\
  sn_pkts (obs_of_outs (snd (gw_step c03_cfg (fst (gw_step c03_cfg c03_connected c03_sub)) (EvMq (MqSuback 5 [2]))))) =
  [Suback 2 1 5 RC_ACCEPTED].
Proof. vm_compute. repeat split. Qed.
