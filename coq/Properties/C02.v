(* C02 — Broker PUBLISH reaches the client under a topic ID it can resolve.
   Statement only; proofs in Gateway/Sound_C02.v. *)
From stdpp Require Import base option list numbers fin_maps nmap.
From Verif.Base Require Import Bytes.
From Verif.Codec Require Import Packets Decode Encode.
From Verif.Topics Require Import Predefined.
From Verif.Gateway Require Import GwTypes GwStep GwWf GwRun Sound_C02 Sound_C02_refute.
From Verif.Checkers Require Import ChkCodec ChkGw ChkGw2 ChkGw3.
Open Scope N_scope.

(* chk_C02 (Checkers/ChkGw3.v), for a step that starts with the client Active:
   - the step handling a broker PUBLISH (QoS 0-2, non-empty topic) writes either exactly one
     MQTT-SN PUBLISH with the same payload, QoS and retain flag (clause 1) whose topic-ID type and
     ID the CLIENT resolves to exactly the broker's topic name (clause 2; [client_resolves]:
     short-name decoding, the shared predefined configuration, or a normal ID that is registered
     AND was told to the client - the ghost list gw_handed_out of REGACKs, accepted SUBACKs and
     gateway REGISTERs), or exactly one REGISTER for that name with a fresh ID (clause 3), or
     nothing - only when the session gives up (clause 4);
   - the step handling the client's accepting REGACK for that REGISTER writes exactly one PUBLISH
     with the registered ID and the stored payload, QoS, retain flag and message ID (clause 5).
   Clauses 6 and 7 are clause 2 for the one way the faithful model violates the property: the ID
   was allocated for a SUBSCRIBE by name whose SUBACK has not been relayed yet (6) or was
   refused / timed out (7), so the client was never told it.  A recorded finding.

   Every failure the model can produce, from any reachable state, is one of those two. *)
Theorem C02_checker_sound_partial :
  forall cfg s ev, wf_cfg cfg -> reach cfg s -> wf_event ev ->
    forall c, In c (chk_C02 cfg s (fst (gw_step cfg s ev)) ev (obs_of_outs (snd (gw_step cfg s ev)))) ->
    c = 6 \/ c = 7.
Proof. exact chk_C02_sound_partial. Qed.
Print Assumptions C02_checker_sound_partial.

Theorem C02_all_histories :
  forall cfg evs, wf_cfg cfg -> Forall wf_event evs ->
    run_all cfg (fun s ev => forall c,
      In c (chk_C02 cfg s (fst (gw_step cfg s ev)) ev (obs_of_outs (snd (gw_step cfg s ev)))) ->
      c = 6 \/ c = 7) (init_state cfg) evs.
Proof. exact chk_C02_all_histories. Qed.
Print Assumptions C02_all_histories.

(* The full statement (no failure at all) is false of the faithful model: *)
Definition C02_statement : Prop :=
  forall cfg s ev, wf_cfg cfg -> reach cfg s -> wf_event ev ->
    chk_C02 cfg s (fst (gw_step cfg s ev)) ev (obs_of_outs (snd (gw_step cfg s ev))) = [].
Theorem C02_refuted : ~ C02_statement.
Proof. exact C02_statement_false. Qed.
Print Assumptions C02_refuted.
