(* C21 — Encoding then decoding gives back the same packet.
   Statement only; proofs in Codec/EncodeProofs.v. *)
From Coq Require Import List NArith Bool.
From Verif.Base Require Import Bytes.
From Verif.Codec Require Import Packets Decode Encode EncodeProofs.
From Verif.Checkers Require Import ChkCodec.
Open Scope N_scope.

(* wf_pkt is the boolean statement of "field values in their legal ranges" (ChkCodec.v):
   u8/u16 fields in range, QoS <= 3, names and payloads of bytes and at most
   MaxPayloadLength long, non-empty client ID / topic names where the decoder requires it. *)
Theorem C21_round_trip :
  forall p : packet, wf_pkt p = true ->
    read_dgram (pack p) = Ok p /\
    announced_len (pack p) = Some (len (pack p)) /\
    short_form (pack p) = (len (pack p) <=? 255) /\
    len (pack p) <= MaxPacketLen /\ wf_bytes (pack p).
Proof.
  intros p H. repeat split.
  - exact (read_pack_roundtrip p H).
  - exact (pack_announced_len p H).
  - exact (pack_short_form p H).
  - exact (pack_size p H).
  - exact (pack_wf_bytes p H).
Qed.
Print Assumptions C21_round_trip.

Theorem C21_short_topic_bijection :
  (forall i : N, i < 65536 -> encode_short (decode_short i) = i /\
                              wf_bytes (decode_short i) /\ is_short_topic (decode_short i) = true) /\
  (forall a b : N, a < 256 -> b < 256 -> decode_short (encode_short [a; b]) = [a; b]).
Proof.
  split.
  - intros i Hi. split; [exact (short_topic_enc_dec i Hi)|exact (short_topic_shape i Hi)].
  - exact short_topic_dec_enc.
Qed.
Print Assumptions C21_short_topic_bijection.

Theorem C21_checker_sound : forall p : packet,
  chk_C21 p (pack p) (match read_dgram (pack p) with Ok q => Some q | _ => None end) = [].
Proof. exact chk_C21_sound. Qed.
Print Assumptions C21_checker_sound.

(* Non-vacuity: legal packets exist at the boundaries the property names. *)
Example C21_nonvacuous :
  wf_pkt (Publish true 2 true 1 65535 65535 (repeat 7 251)) = true /\
  len (pack (Publish true 2 true 1 65535 65535 (repeat 7 251))) = 260 /\
  wf_pkt (Auth 0 (repeat 65 255) [0; 117; 0; 112]) = true /\
  wf_pkt (Subscribe false 1 0 7 0 [97; 47; 35]) = true /\
  wf_pkt (Disconnect 0) = true /\ wf_pkt (WillTopic 0 false []) = true.
Proof. vm_compute. repeat split. Qed.
