(* C05 — Predefined topic lookups are mutually consistent.
   Statement only; proofs live in Topics/PredefinedProofs.v. *)
From stdpp Require Import base option list numbers fin_maps nmap.
From Verif.Base Require Import Bytes.
From Verif.Topics Require Import Predefined PredefinedProofs.
Open Scope N_scope.

Theorem C05_lookups_consistent :
  forall (cfg : predef) (c : bytes),
    (* lookup by ID: the client-specific entry when one exists, otherwise the "*" entry *)
    (forall i n, tm_get (pd_client cfg c) i = Some n -> get_name cfg c i = Some n) /\
    (forall i, tm_get (pd_client cfg c) i = None ->
               get_name cfg c i = tm_get (pd_client cfg star) i) /\
    (* lookup by name: whichever ID an iteration order yields maps back to that name *)
    (forall n i, i ∈ get_ids cfg c n -> get_name cfg c i = Some n) /\
    (* and a name that some ID denotes for this client is found *)
    (forall n i, get_name cfg c i = Some n -> get_ids cfg c n <> []).
Proof.
  intros cfg c. repeat split.
  - intros i n. exact (get_name_own cfg c i n).
  - intros i. exact (get_name_star cfg c i).
  - intros n i. exact (get_ids_sound cfg c n i).
  - intros n i. exact (get_ids_complete cfg c n i).
Qed.
Print Assumptions C05_lookups_consistent.

(* Non-vacuity: the repository's own topics/testdata/topics.yaml (client1 and "*" both
   define IDs 1 and 2).  Names abbreviated to single bytes. *)
Definition yaml_cfg : predef :=
  [ ([99;49], <[1:=[10]]> (<[2:=[11]]> ∅));                 (* "c1": 1 -> a, 2 -> b *)
    (star,    <[1:=[20]]> (<[2:=[21]]> (<[3:=[22]]> ∅))) ]. (* "*" : 1 -> c, 2 -> d, 3 -> e *)
Example C05_nonvacuous :
  get_ids yaml_cfg [99;49] [20] = [] /\            (* shadowed "*" name has no ID for c1 *)
  get_ids yaml_cfg [99;49] [22] = [3] /\
  get_ids yaml_cfg [99;49] [10] = [1] /\
  get_ids yaml_cfg [120] [20] = [1] /\             (* another client sees the "*" entry *)
  get_name yaml_cfg [99;49] 1 = Some [10] /\ get_name yaml_cfg [120] 1 = Some [20].
Proof. vm_compute. repeat split. Qed.
