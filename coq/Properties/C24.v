(* C24 — Every MQTT packet sent to the broker is valid MQTT 3.1.1.
   Statement only; proofs in Gateway/Sound_C23C24.v, Sound_C23C24_hist.v. *)
From stdpp Require Import base option list numbers fin_maps nmap.
From Verif.Base Require Import Bytes.
From Verif.Codec Require Import Packets Decode Encode.
From Verif.Topics Require Import Predefined.
From Verif.Gateway Require Import GwTypes GwStep GwWf GwRun Sound_C23C24 Sound_C23C24_hist.
From Verif.Checkers Require Import ChkCodec ChkGw.
Open Scope N_scope.

(* mqtt_valid (Checkers/ChkGw.v): QoS <= 2; PUBLISH topic non-empty and without wildcards, packet
   identifier non-zero when QoS > 0; SUBSCRIBE / UNSUBSCRIBE with a non-zero identifier and
   non-empty filters; CONNECT with the will flag set exactly when a non-empty will topic is
   present, will QoS <= 2, no password without user name; acknowledgements with non-zero
   identifiers.  chk_C24 requires it of every MQTT packet observed in a step (on the
   implementation side additionally: accepted by the harness's independent MQTT 3.1.1 parser,
   and no unparsable bytes).

   Hypotheses beyond well-formed Go values: wf_cfg' - the configuration does not set a password
   without a user name and has no predefined topic with the empty name; wf_event' - the broker is
   conforming in that its PUBLISHes carry a non-empty topic and, for QoS > 0, a non-zero packet
   identifier.  Client input is arbitrary. *)
Theorem C24_checker_sound :
  forall cfg s ev, wf_cfg' cfg -> reach' cfg s -> wf_event' ev ->
    chk_C24 (obs_of_outs (snd (gw_step cfg s ev))) = [].
Proof. exact chk_C24_sound_partial. Qed.
Print Assumptions C24_checker_sound.

Theorem C24_all_histories :
  forall cfg evs, wf_cfg' cfg -> Forall wf_event' evs ->
    run_all cfg (fun s ev => chk_C24 (obs_of_outs (snd (gw_step cfg s ev))) = []) (init_state cfg) evs.
Proof. exact chk_C24_all_histories. Qed.
Print Assumptions C24_all_histories.

(* Non-vacuity: the former defects are rejected (the session ends, nothing reaches the broker):
   PUBLISH with topic-ID type 3, SUBSCRIBE with QoS 3, PUBLISH on a registered wildcard name,
   QoS 1 PUBLISH with message ID 0; a regular PUBLISH is forwarded. *)
Definition c24_cfg : gw_cfg :=
  {| auth_enabled := false; cfg_user := None; cfg_pass := None; retry_delay := 1000; retry_count := 2;
     predefined := []; min_tid := 1; max_tid := 65534 |}.
Definition c24_connected : gw_state :=
  snd (gw_run c24_cfg (init_state c24_cfg)
         [EvSn (pack (Connect false true 1 60 [99; 49])); EvMq (MqConnack false 0);
          EvSn (pack (Register 0 7 [97; 47; 43]))]).
Definition c24_mq (p : packet) : list mq_pkt := mqs (obs_of_outs (snd (gw_step c24_cfg c24_connected (EvSn (pack p))))).
Example C24_nonvacuous :
  c24_mq (Publish false 0 false 3 5 0 [1]) = [] /\
  c24_mq (Subscribe false 3 0 9 0 [97]) = [] /\
  c24_mq (Publish false 0 false 0 1 0 [1]) = [] /\
  c24_mq (Publish false 1 false 2 (encode_short [97; 98]) 0 [1]) = [] /\
  c24_mq (Publish false 1 false 2 (encode_short [97; 98]) 4 [1]) = [MqPublish false 1 false [97; 98] 4 [1]].
Proof. vm_compute. repeat split. Qed.
