(* C08 — Authentication is enforced exactly as configured.
   Statement only; proofs in Gateway/Sound_C07C08C09.v. *)
From stdpp Require Import base option list numbers fin_maps nmap.
From Verif.Base Require Import Bytes.
From Verif.Codec Require Import Packets Decode Encode.
From Verif.Topics Require Import Predefined.
From Verif.Gateway Require Import GwTypes GwStep GwWf GwRun GwWfDec Sound_C07C08C09.
From Verif.Checkers Require Import ChkCodec ChkGw ChkGw2.
Open Scope N_scope.

(* chk_C08 (Checkers/ChkGw2.v), per step: (1) with authentication enabled every MQTT CONNECT
   written carries exactly the user name and password of the well-formed PLAIN AUTH of the
   current connect exchange (the AUTH handled in this step, or the ghost gw_auth_seen which only
   a well-formed PLAIN AUTH of the current exchange sets and every new CONNECT clears);
   (2) with authentication disabled it carries exactly the gateway's configured credentials,
   whatever AUTH packets the client sent; (3) an AUTH with another method, while an AUTH is
   awaited, is answered with CONNACK 'not supported' and no CONNECT.

   The model passes in every reachable state; the one excluded step (c08_excluded) is an AUTH
   with an unknown method from a client that announced sleep in the middle of its own connect
   exchange: the CONNACK is queued for the sleeping client (C11) and lost with the session. *)
Theorem C08_checker_sound :
  forall cfg s ev, wf_cfg cfg -> reach cfg s -> wf_event ev -> c08_excluded cfg s ev = false ->
    chk_C08 cfg s ev (obs_of_outs (snd (gw_step cfg s ev))) = [].
Proof. exact chk_C08_sound_partial. Qed.
Print Assumptions C08_checker_sound.

Theorem C08_all_histories :
  forall cfg evs, wf_cfg cfg -> Forall wf_event evs ->
    run_all cfg (fun s ev => c08_excluded cfg s ev = false) (init_state cfg) evs ->
    run_all cfg (fun s ev => chk_C08 cfg s ev (obs_of_outs (snd (gw_step cfg s ev))) = []) (init_state cfg) evs.
Proof. exact chk_C08_all_histories. Qed.
Print Assumptions C08_all_histories.

(* the side condition is exact: in an excluded step the checker does reject the model *)
Theorem C08_excluded_is_rejected :
  forall cfg s ev, c08_excluded cfg s ev = true ->
    In 3 (chk_C08 cfg s ev (obs_of_outs (snd (gw_step cfg s ev)))).
Proof. exact c08_excluded_rejected. Qed.
Print Assumptions C08_excluded_is_rejected.

(* Non-vacuity: authentication enabled - no CONNECT before the AUTH, then one with the client's
   credentials although the gateway has configured ones; authentication disabled - the configured
   credentials although the client sends an AUTH. *)
Definition c08_cfg (auth : bool) : gw_cfg :=
  {| auth_enabled := auth; cfg_user := Some [103]; cfg_pass := Some [104]; retry_delay := 1000; retry_count := 2;
     predefined := []; min_tid := 1; max_tid := 65534 |}.
Definition c08_evs : list gw_event :=
  [EvSn (pack (Connect false true 1 60 [99; 49])); EvSn (pack (Auth 0 AUTH_PLAIN [0; 117; 0; 112]))].
Definition c08_creds (auth : bool) : list (list (bool * bytes * bool * bytes)) :=
  map (fun os => mqs (obs_of_outs os) ≫= (fun m => match m with MqConnect c => [(c_uflag c, c_user c, c_pflag c, c_pass c)] | _ => [] end))
      (fst (gw_run (c08_cfg auth) (init_state (c08_cfg auth)) c08_evs)).
Example C08_nonvacuous :
  c08_creds true = [[]; [(true, [117], true, [112])]] /\ c08_creds false = [[(true, [103], true, [104])]; []].
Proof. vm_compute. split; reflexivity. Qed.
