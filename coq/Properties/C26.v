(* C26 — End-to-end API sequence succeeds against gateway and broker.
   Statement only; proofs in System/ComposeProofs.v (component lemmas in ComposeProofs_aux.v).
   The composed system (System/Compose.v): client library model + link + gateway session model +
   a specification broker (MQTT 3.1.1 routing at the granted QoS), run to quiescence after every
   event.  PARTIAL, and REFUTED in one clause:

   - proved for ALL configurations (cfg_ok: lossless link, well-formed configurations, no
     authentication / will, keep-alive in range), call identifiers, short topic names and payloads:
     every program  Connect; c1; ...; cn [; Disconnect]  of calls ci in {Ping, Publish QoS 0/1 on a
     short topic} succeeds call by call - exactly one return, nil, and exactly the documented packet
     at the broker (call_ok) - and leaves the system connected and quiescent (resp. disconnected with
     the broker connection closed);
   - and for programs that also Subscribe on short topics and receive broker messages on them: every
     broker message reaches exactly one handler invocation of the right subscription
     (C26_subscriptions_and_delivery);
   - and for programs with Register, Publish at QoS 0-2 on registered names, Unsubscribe
     (C26_programs_with_register_qos2_unsubscribe);
   - NOT proved (checked on the real client + real gateway by the monitor clauses (26,1)-(26,4) of
     Checkers/ChkE2E.v on generated programs): programs with wildcard subscriptions (one broker message on
     a new name is proved: C26_message_on_a_new_topic_is_registered_and_delivered), predefined topics, QoS 2 broker messages, sleep cycles, time passing between calls;
   - REFUTED: "every broker message matching a subscription, including bursts on not-yet-registered
     topics under a wildcard, reaches the handler": of two messages in flight on one unregistered
     topic only the first is delivered (the gateway allocates a second topic ID for the same name,
     which the client rejects).  Recorded finding; the witness runs on the real code in every check. *)
From stdpp Require Import base option list numbers fin_maps nmap.
From Verif.Base Require Import Bytes.
From Verif.Codec Require Import Packets Decode Encode.
From Verif.Gateway Require Import GwTypes GwStep GwWf.
From Verif.Client Require Import ClTypes ClStep.
From Verif.System Require Import Compose ComposeProofs ComposeProofs2_aux ComposeProofs2 ComposeProofs3_aux ComposeProofs3 ComposeLoss ComposeLoss2 ComposeSleep ComposeSleepQ1 ComposeSleepQ1n ComposeSleepQ2 ComposeSleepQ2b ComposeAwake.
From Verif.Checkers Require Import ChkCodec ChkE2E.
Open Scope N_scope.

Theorem C26_connect_then_simple_calls :
  forall cfg id0 (calls : list (N * api)), cfg_ok cfg ->
    forallb (fun ia => simple_callb (snd ia)) calls = true ->
    exists oss y', sys_run cfg (sys_init cfg) (map ev_of ((id0, AConnect) :: calls)) = (oss, y') /\
      Forall2 (fun ia os => call_ok cfg (fst ia) (snd ia) os) ((id0, AConnect) :: calls) oss /\ Quiet cfg y'.
Proof. exact C26_partial. Qed.
Print Assumptions C26_connect_then_simple_calls.

Theorem C26_and_final_disconnect :
  forall cfg id0 (calls : list (N * api)) idd, cfg_ok cfg ->
    forallb (fun ia => simple_callb (snd ia)) calls = true ->
    exists oss y', sys_run cfg (sys_init cfg) (map ev_of ((id0, AConnect) :: calls ++ [(idd, ADisconnect)])) = (oss, y') /\
      Forall2 (fun ia os => call_ok cfg (fst ia) (snd ia) os) ((id0, AConnect) :: calls ++ [(idd, ADisconnect)]) oss /\
      cl_st (y_cl y') = Disconnected /\ b_closed (y_br y') = true.
Proof. exact C26_partial_disconnect. Qed.
Print Assumptions C26_and_final_disconnect.

(* Subscriptions and handler delivery (short topic names, which need no REGISTER step): every program
   Connect; e1; ...; en  [; Disconnect] whose events are Ping, Publish QoS 0/1 on a short topic that is not
   subscribed, Subscribe (QoS 0-2) on a new short topic, and broker messages QoS 0/1 on a subscribed topic
   (prog_okb, an executable condition on the program) succeeds event by event (run_post): every call
   returns nil exactly once with exactly its documented packet at the broker and no handler runs; every
   broker message is delivered to EXACTLY ONE handler invocation - that of the Subscribe call on its
   topic - with its topic, payload, QoS and flags, and is acknowledged to the broker (QoS 1); the system
   ends connected and quiescent with exactly the program's subscriptions at the broker and in the client. *)
Theorem C26_subscriptions_and_delivery :
  forall cfg id0 (evs : list sys_event), cfg_ok cfg -> prog_okb [] evs = true ->
    exists os0 oss y', sys_run cfg (sys_init cfg) (SCall id0 AConnect :: evs) = (os0 :: oss, y') /\
      call_ok cfg id0 AConnect os0 /\ run_post cfg [] evs oss /\ QuietS cfg y' (subs_final [] evs).
Proof. exact C26_partial_subscriptions. Qed.
Print Assumptions C26_subscriptions_and_delivery.

Theorem C26_subscriptions_and_final_disconnect :
  forall cfg id0 (evs : list sys_event) idd, cfg_ok cfg -> prog_okb [] evs = true ->
    exists os0 oss osd y', sys_run cfg (sys_init cfg) (SCall id0 AConnect :: evs ++ [SCall idd ADisconnect]) =
                             (os0 :: oss ++ [osd], y') /\
      call_ok cfg id0 AConnect os0 /\ run_post cfg [] evs oss /\ call_ok cfg idd ADisconnect osd /\
      cl_st (y_cl y') = Disconnected /\ b_closed (y_br y') = true /\ b_subs (y_br y') = bsubs_of (subs_final [] evs).
Proof. exact C26_partial_subscriptions_disconnect. Qed.
Print Assumptions C26_subscriptions_and_final_disconnect.

(* The widest class proved: programs  Connect; e1; ...; en  whose events are Ping, Register (new names),
   Publish at QoS 0, 1 and 2 (on a short name nobody subscribed, or on a registered name), Subscribe
   (QoS 0-2, new short names), Unsubscribe (short names) and broker messages QoS 0/1 on subscribed names
   (prog_okb3, an executable condition on the program; cfg_ok3 = cfg_ok and no predefined topics for this
   client).  Event by event (run_post3): every call returns nil exactly once, invokes no handler and has
   exactly its documented effect at the broker (nothing for Register; PUBLISH and PUBREL for a QoS 2
   Publish; ...); every broker message is delivered to exactly one handler invocation of the right
   subscription; at the end the subscriptions at the broker and in the client, and the registrations in
   the client and in the gateway, are exactly those of the program (QuietP). *)
Theorem C26_programs_with_register_qos2_unsubscribe :
  forall cfg id0 (evs : list sys_event), cfg_ok3 cfg -> prog_okb3 [] [] evs = true ->
    exists os0 oss y', sys_run cfg (sys_init cfg) (SCall id0 AConnect :: evs) = (os0 :: oss, y') /\
      call_ok cfg id0 AConnect os0 /\ run_post3 cfg [] evs oss /\
      QuietP cfg y' (subs_final3 [] evs) (regs_final3 [] evs).
Proof. exact C26_partial_programs3. Qed.
Print Assumptions C26_programs_with_register_qos2_unsubscribe.

(* A broker message (QoS 1) on a name that has NO topic ID yet - the "new topic under a wildcard" case - from
   any connected quiescent state in which the allocator can hand out the next ID (RegReady), the four
   datagrams of the exchange being delivered: the gateway registers the name (REGISTER i, REGACK), sends the
   PUBLISH under the new ID, the client acknowledges, the first matching handler of the client runs once
   (scb_at: exactly [SoCb ...] when a handler matches, ComposeLoss2.scb_at_hd), the broker gets its PUBACK,
   and client and gateway end with the same new registration (RegDone).  ONE message at a time: two in flight
   on one new name is the refuted clause below. *)
Theorem C26_message_on_a_new_topic_is_registered_and_delivered :
  forall cfg y dup retain topic mid payload,
    Quiet cfg y -> RegReady cfg y topic -> 1 <= mid < 65536 -> okb payload = true ->
    nth_fault (e_g2c cfg) (y_g2c_k y) = FDeliver -> nth_fault (e_c2g cfg) (y_c2g_k y) = FDeliver ->
    nth_fault (e_g2c cfg) (S (y_g2c_k y)) = FDeliver -> nth_fault (e_c2g cfg) (S (y_c2g_k y)) = FDeliver ->
    let t := gw_now (y_gw y) in
    let i := gw_seq_next (y_gw y) in
    exists y',
      sys_step cfg y (SBpub (MqPublish dup 1 retain topic mid payload)) =
        (y', [SoBS t (MqPublish dup 1 retain topic mid payload);
              SoG2C t FDeliver (pack (Register i mid topic)); SoC2G t FDeliver (pack (Regack i mid RC_ACCEPTED));
              SoG2C t FDeliver (pack (Publish dup 1 retain TIT_REGISTERED i mid payload));
              SoC2G t FDeliver (pack (Puback i mid RC_ACCEPTED))] ++
             scb_at y t topic payload 1 retain dup mid ++ [SoBR t (MqPuback mid)]) /\
      Quiet cfg y' /\ gw_now (y_gw y') = t /\ RegDone y y' topic i /\
      y_c2g_k y' = S (S (y_c2g_k y)) /\ y_g2c_k y' = S (S (y_g2c_k y)).
Proof. exact e2e_bpub_reg_q1_deliver. Qed.
Print Assumptions C26_message_on_a_new_topic_is_registered_and_delivered.

(* One sleep cycle, from any connected quiescent state with the subscriptions subs in place, for every sleep
   duration ms of at least a second whose seconds fit the DISCONNECT (and which starts no sleep pinger), any list
   of broker messages (QoS 0, on subscribed short topic names: bm_ok) arriving while the client sleeps, and any
   advance d of time past the wake-up; the datagrams of the cycle being delivered.  The Sleep call and the
   messages produce no handler invocation, no return and nothing at the broker; the wake-up step starts with the
   PINGREQ carrying the client ID at exactly now + ms, invokes the handler of every message exactly once, in
   order (cbs_full = map bm_rec msgs), and Sleep returns nil once; the client ends awake and idle, the gateway
   with an empty buffer (AwakeS).  The exact trace is ComposeSleep.C26_sleep_cycle. *)
Theorem C26_sleep_cycle_delivers_every_message_once :
  forall cfg y subs id ms msgs d,
    QuietS cfg y subs -> 1000 <= ms -> ms / 1000 < 65536 ->
    gw_keepalive (y_gw y) = 0 \/ ms / 1000 <= gw_keepalive (y_gw y) ->
    Forall (bm_ok subs) msgs -> N.of_nat (length msgs) <= 9998 -> okb (k_cid (e_cl cfg)) = true ->
    nth_fault (e_c2g cfg) (y_c2g_k y) = FDeliver -> nth_fault (e_c2g cfg) (S (y_c2g_k y)) = FDeliver ->
    (forall i, (i <= S (length msgs))%nat -> nth_fault (e_g2c cfg) (y_g2c_k y + i) = FDeliver) ->
    ms <= d ->
    exists o0 os ow rest y', sys_run cfg y (cycle_evs id ms msgs d) = (o0 :: os ++ [ow], y') /\
      length os = length msgs /\
      cbs_full o0 = [] /\ rets_of o0 = [] /\ brs_of o0 = [] /\
      Forall (fun o => cbs_full o = [] /\ rets_of o = [] /\ brs_of o = []) os /\
      ow = SoC2G (gw_now (y_gw y) + ms) FDeliver (pack (Pingreq (k_cid (e_cl cfg)))) :: rest /\
      cbs_full ow = map bm_rec msgs /\ rets_of ow = [(id, ROk)] /\ brs_of ow = [] /\
      AwakeS cfg y' subs [].
Proof. exact C26_sleep_cycle_delivery. Qed.
Print Assumptions C26_sleep_cycle_delivers_every_message_once.

(* Repeated sleep cycles over a lossless link: the first cycle from the connected quiescent state (DISCONNECT
   exchange), then ANY number of further cycles (each: Sleep from the awake state - which sends nothing, the
   gateway has regarded the client as asleep all along -, any broker messages, time to the wake-up or beyond).
   The whole run is the concatenation of the exact cycle traces (cys_trace) and ends awake and idle again. *)
Theorem C26_repeated_sleep_cycles :
  forall cfg y subs cy cys, ComposeProofs.lossless cfg -> okb (k_cid (e_cl cfg)) = true ->
    QuietS cfg y subs -> 1000 <= cy_ms cy -> cy_ms cy / 1000 < 65536 ->
    gw_keepalive (y_gw y) = 0 \/ cy_ms cy / 1000 <= gw_keepalive (y_gw y) ->
    cycle_ok subs cy -> Forall (cycle_ok subs) cys ->
    let t := gw_now (y_gw y) in
    exists y', sys_run cfg y (cy_evs cy ++ flat_map cy_evs cys) =
      (([SoC2G t FDeliver (pack (Disconnect (cy_ms cy / 1000))); SoG2C t FDeliver (pack (Disconnect 0))] ::
        map (fun m => [SoBS t (bm_mq m)]) (cy_msgs cy) ++ [wake_trace cfg (t + cy_ms cy) (cy_id cy) (cy_msgs cy)]) ++
       cys_trace cfg (t + cy_d cy) cys, y') /\
      AwakeS cfg y' subs [].
Proof. exact C26_sleep_cycles. Qed.
Print Assumptions C26_repeated_sleep_cycles.

(* A sleep cycle with a QoS 1 broker message, the sleep ending before the gateway's first retransmission
   (ms < RetryDelay of the gateway; at ms = RetryDelay the retry puts a second copy into the buffer and the
   handler runs twice: ComposeSleepQ1.sleep_q1_at_retry_duplicates).  Exact trace: DISCONNECT exchange; the
   message is only taken from the broker; at exactly now + ms: PINGREQ (client ID), the PUBLISH, PINGRESP, the
   client's PUBACK, ONE handler invocation, Sleep returns nil, the broker gets ONE PUBACK; the gateway ends
   without transaction, timer or buffered packet (AwakeS). *)
Theorem C26_sleep_cycle_with_a_qos1_message :
  forall cfg y subs id ms s dup retain mid payload d,
    QuietS cfg y subs -> 1000 <= ms -> ms / 1000 < 65536 ->
    gw_keepalive (y_gw y) = 0 \/ ms / 1000 <= gw_keepalive (y_gw y) ->
    ms < retry_delay (e_gw cfg) ->
    In s subs -> 1 <= mid < 65536 -> okb payload = true -> okb (k_cid (e_cl cfg)) = true ->
    (forall i, (i <= 2)%nat -> nth_fault (e_c2g cfg) (y_c2g_k y + i) = FDeliver) ->
    (forall i, (i <= 2)%nat -> nth_fault (e_g2c cfg) (y_g2c_k y + i) = FDeliver) ->
    ms <= d ->
    let t := gw_now (y_gw y) in
    let m := MqPublish dup 1 retain (sub_topic s) mid payload in
    exists y', sys_run cfg y [SCall id (ASleep ms); SBpub m; SAdv d] =
      ([[SoC2G t FDeliver (pack (Disconnect (ms / 1000))); SoG2C t FDeliver (pack (Disconnect 0))];
        [SoBS t m];
        [SoC2G (t + ms) FDeliver (pack (Pingreq (k_cid (e_cl cfg))));
         SoG2C (t + ms) FDeliver (pack (pub_sn dup retain (sub_topic s) mid payload));
         SoG2C (t + ms) FDeliver (pack Pingresp);
         SoC2G (t + ms) FDeliver (pack (Puback (encode_short (sub_topic s)) mid RC_ACCEPTED));
         SoCb (t + ms) (sub_id s) (sub_topic s) payload 1 retain dup mid;
         SoRet (t + ms) id ROk;
         SoBR (t + ms) (MqPuback mid)]], y') /\
      AwakeS cfg y' subs [] /\ gw_now (y_gw y') = t + d /\ y_br y' = y_br y /\
      y_c2g_k y' = (y_c2g_k y + 3)%nat /\ y_g2c_k y' = (y_g2c_k y + 3)%nat.
Proof. exact C26_sleep_cycle_q1_message. Qed.
Print Assumptions C26_sleep_cycle_with_a_qos1_message.

(* ... and with ANY list of QoS 1 broker messages with pairwise distinct message IDs (each on a subscribed short
   topic, bm1_ok) arriving during one such sleep: at the wake-up PINGREQ, the n PUBLISHes in arrival order, PINGRESP,
   per message PUBACK and handler in order, Sleep returns nil, then the n PUBACKs at the broker in order
   (wake_trace_q1s); every message reaches its handler exactly once in order, the broker receives exactly one
   PUBACK per message ID in order (ComposeSleepQ1n.wake_trace_q1s_facts), no transaction or timer is left. *)
Theorem C26_sleep_cycle_with_qos1_messages :
  forall cfg y subs id ms msgs d,
    QuietS cfg y subs -> 1000 <= ms -> ms / 1000 < 65536 ->
    gw_keepalive (y_gw y) = 0 \/ ms / 1000 <= gw_keepalive (y_gw y) ->
    ms < retry_delay (e_gw cfg) ->
    Forall (bm1_ok subs) msgs -> NoDup (map bm_mid msgs) -> N.of_nat (length msgs) <= 3332 -> okb (k_cid (e_cl cfg)) = true ->
    (forall i, (i <= S (length msgs))%nat -> nth_fault (e_c2g cfg) (y_c2g_k y + i) = FDeliver) ->
    (forall i, (i <= S (length msgs))%nat -> nth_fault (e_g2c cfg) (y_g2c_k y + i) = FDeliver) ->
    ms <= d ->
    let t := gw_now (y_gw y) in
    exists oss y', sys_run cfg y (SCall id (ASleep ms) :: map (fun m => SBpub (bm1_mq m)) msgs ++ [SAdv d]) = (oss, y') /\
      oss = [SoC2G t FDeliver (pack (Disconnect (ms / 1000))); SoG2C t FDeliver (pack (Disconnect 0))] ::
            map (fun m => [SoBS t (bm1_mq m)]) msgs ++ [wake_trace_q1s cfg (t + ms) id msgs] /\
      AwakeS cfg y' subs [] /\ gw_now (y_gw y') = t + d /\ y_br y' = y_br y.
Proof. exact C26_sleep_cycle_q1_messages. Qed.
Print Assumptions C26_sleep_cycle_with_qos1_messages.

(* what the wake-up trace of that theorem contains: one handler invocation per message in order, one nil return,
   one PUBACK per message at the broker in order *)
Theorem C26_sleep_cycle_with_qos1_messages_delivery :
  forall cfg T id ms,
    cbs_full (wake_trace_q1s cfg T id ms) = map bm1_rec ms /\
    rets_of (wake_trace_q1s cfg T id ms) = [(id, ROk)] /\
    brs_of (wake_trace_q1s cfg T id ms) = map (fun m => MqPuback (bm_mid m)) ms.
Proof. exact wake_trace_q1s_facts. Qed.
Print Assumptions C26_sleep_cycle_with_qos1_messages_delivery.

(* A sleep cycle with a QoS 2 broker message (sleep shorter than the gateway's RetryDelay, time advanced to less
   than one RetryDelay past the wake-up): what the composed model - and the code - really do.  At the wake-up the
   PUBLISH is flushed, the client's PUBREC is relayed to the broker, but the broker's PUBREL meets a session that is
   asleep again (C11) and is QUEUED: in this cycle there is no handler invocation and no PUBCOMP; the exchange is
   held (HeldQ2: client awake with the PUBLISH remembered, gateway asleep with the PUBREL in its buffer and the retry
   timer running).  It completes - handler once, PUBCOMP - at the NEXT wake-up (ComposeSleepQ2.
   sleep_q2_second_cycle_completes) and never without one (sleep_q2_no_second_wakeup): DESIGN.md section 11. *)
Theorem C26_sleep_cycle_with_a_qos2_message_holds_the_PUBREL :
  forall cfg y subs id ms s dup retain mid payload d,
    QuietS cfg y subs -> 1000 <= ms -> ms / 1000 < 65536 ->
    gw_keepalive (y_gw y) = 0 \/ ms / 1000 <= gw_keepalive (y_gw y) ->
    ms < retry_delay (e_gw cfg) ->
    In s subs -> 1 <= mid < 65536 -> okb payload = true -> okb (k_cid (e_cl cfg)) = true ->
    (forall i, (i <= 2)%nat -> nth_fault (e_c2g cfg) (y_c2g_k y + i) = FDeliver) ->
    (forall i, (i <= 2)%nat -> nth_fault (e_g2c cfg) (y_g2c_k y + i) = FDeliver) ->
    ms <= d -> d < ms + retry_delay (e_gw cfg) ->
    let t := gw_now (y_gw y) in
    let m := MqPublish dup 2 retain (sub_topic s) mid payload in
    exists y', sys_run cfg y [SCall id (ASleep ms); SBpub m; SAdv d] =
      ([[SoC2G t FDeliver (pack (Disconnect (ms / 1000))); SoG2C t FDeliver (pack (Disconnect 0))];
        [SoBS t m];
        [SoC2G (t + ms) FDeliver (pack (Pingreq (k_cid (e_cl cfg))));
         SoG2C (t + ms) FDeliver (pack (pub2_sn dup retain (sub_topic s) mid payload));
         SoG2C (t + ms) FDeliver (pack Pingresp);
         SoC2G (t + ms) FDeliver (pack (Pubrec mid));
         SoRet (t + ms) id ROk;
         SoBR (t + ms) (MqPubrec mid);
         SoBS (t + ms) (MqPubrel mid)]], y') /\
      HeldQ2 cfg y' subs (pub2_sn dup retain (sub_topic s) mid payload) mid (t + ms + retry_delay (e_gw cfg)) /\
      gw_now (y_gw y') = t + d /\ y_br y' = y_br y /\
      y_c2g_k y' = (y_c2g_k y + 3)%nat /\ y_g2c_k y' = (y_g2c_k y + 3)%nat.
Proof. exact C26_sleep_cycle_q2_message. Qed.
Print Assumptions C26_sleep_cycle_with_a_qos2_message_holds_the_PUBREL.

(* ... and over TWO sleep cycles the QoS 2 message is delivered exactly once: the second Sleep (from the awake
   state, sends nothing) wakes before the gateway's PUBREL retry; at that wake-up PINGREQ, PUBREL, PINGRESP, the
   handler (once, QoS 2, the message's flags and ID), PUBCOMP, and the broker gets PUBCOMP.  Over the whole run:
   one handler invocation, the broker receives exactly PUBREC then PUBCOMP, both Sleep calls return nil, and
   client and gateway end idle (AwakeS, nothing remembered, no transaction, no timer). *)
Theorem C26_qos2_message_is_delivered_once_over_two_sleep_cycles :
  forall cfg y subs id ms s dup retain mid payload d id2 ms2 d2,
    QuietS cfg y subs -> 1000 <= ms -> ms / 1000 < 65536 ->
    gw_keepalive (y_gw y) = 0 \/ ms / 1000 <= gw_keepalive (y_gw y) ->
    ms < retry_delay (e_gw cfg) ->
    In s subs -> 1 <= mid < 65536 -> okb payload = true -> okb (k_cid (e_cl cfg)) = true ->
    (forall i, (i <= 4)%nat -> nth_fault (e_c2g cfg) (y_c2g_k y + i) = FDeliver) ->
    (forall i, (i <= 4)%nat -> nth_fault (e_g2c cfg) (y_g2c_k y + i) = FDeliver) ->
    ms <= d -> d + ms2 < ms + retry_delay (e_gw cfg) -> ms2 <= d2 ->
    let t := gw_now (y_gw y) in
    let m := MqPublish dup 2 retain (sub_topic s) mid payload in
    exists oss y', sys_run cfg y [SCall id (ASleep ms); SBpub m; SAdv d; SCall id2 (ASleep ms2); SAdv d2] = (oss, y') /\
      oss = [[SoC2G t FDeliver (pack (Disconnect (ms / 1000))); SoG2C t FDeliver (pack (Disconnect 0))];
             [SoBS t m];
             wake_trace_q2 cfg (t + ms) id s dup retain mid payload;
             [];
             wake_trace_q2b cfg (t + d + ms2) id2 s dup retain mid payload] /\
      cbs_full (concat oss) = [(sub_id s, sub_topic s, payload, 2, retain, dup, mid)] /\
      brs_of (concat oss) = [MqPubrec mid; MqPubcomp mid] /\
      rets_of (concat oss) = [(id, ROk); (id2, ROk)] /\
      AwakeS cfg y' subs [] /\ gw_now (y_gw y') = t + d + d2 /\ y_br y' = y_br y.
Proof. exact ComposeSleepQ2b.C26_qos2_message_is_delivered_once_over_two_sleep_cycles. Qed.
Print Assumptions C26_qos2_message_is_delivered_once_over_two_sleep_cycles.

(* Calls in the awake state (after Sleep has returned; the gateway regards the client as asleep).  Ping: the PINGREQ
   carries no client ID; the gateway answers it itself - it flushes whatever it has buffered since the last wake-up
   (QoS 0 messages ms0, each to its handler once and in order) and sends PINGRESP; Ping returns nil; the broker sees
   nothing (ComposeAwake.ping_trace_facts); the state is awake and idle again with an empty buffer. *)
Theorem C26_ping_in_the_awake_state :
  forall cfg y subs ms0 id,
    AwakeS cfg y subs (map bm_sn ms0) -> Forall (bm_ok subs) ms0 -> N.of_nat (length ms0) <= 9998 ->
    nth_fault (e_c2g cfg) (y_c2g_k y) = FDeliver ->
    (forall i, (i <= length ms0)%nat -> nth_fault (e_g2c cfg) (y_g2c_k y + i) = FDeliver) ->
    let t := gw_now (y_gw y) in
    exists y', sys_step cfg y (SCall id APing) = (y', ping_trace t id ms0) /\
      AwakeS cfg y' subs [] /\ gw_now (y_gw y') = t /\ y_br y' = y_br y /\
      y_c2g_k y' = S (y_c2g_k y) /\ y_g2c_k y' = (y_g2c_k y + S (length ms0))%nat.
Proof. exact e2e_ping_while_awake. Qed.
Print Assumptions C26_ping_in_the_awake_state.

(* Sleep, wake-up, Ping: exact traces, both calls return nil, nothing reaches the broker *)
Theorem C26_sleep_cycle_then_ping :
  forall cfg y subs id ms d id2,
    QuietS cfg y subs -> 1000 <= ms -> ms / 1000 < 65536 ->
    gw_keepalive (y_gw y) = 0 \/ ms / 1000 <= gw_keepalive (y_gw y) ->
    okb (k_cid (e_cl cfg)) = true ->
    (forall i, (i <= 2)%nat -> nth_fault (e_c2g cfg) (y_c2g_k y + i) = FDeliver) ->
    (forall i, (i <= 2)%nat -> nth_fault (e_g2c cfg) (y_g2c_k y + i) = FDeliver) ->
    ms <= d ->
    let t := gw_now (y_gw y) in
    exists oss y', sys_run cfg y [SCall id (ASleep ms); SAdv d; SCall id2 APing] = (oss, y') /\
      oss = [[SoC2G t FDeliver (pack (Disconnect (ms / 1000))); SoG2C t FDeliver (pack (Disconnect 0))];
             [SoC2G (t + ms) FDeliver (pack (Pingreq (k_cid (e_cl cfg)))); SoG2C (t + ms) FDeliver (pack Pingresp);
              SoRet (t + ms) id ROk];
             [SoC2G (t + d) FDeliver (pack (Pingreq [])); SoG2C (t + d) FDeliver (pack Pingresp); SoRet (t + d) id2 ROk]] /\
      rets_of (concat oss) = [(id, ROk); (id2, ROk)] /\ brs_of (concat oss) = [] /\ cbs_full (concat oss) = [] /\
      AwakeS cfg y' subs [] /\ gw_now (y_gw y') = t + d /\ y_br y' = y_br y.
Proof. exact ComposeAwake.C26_sleep_cycle_then_ping. Qed.
Print Assumptions C26_sleep_cycle_then_ping.

(* the refutation, as a history of the end-to-end monitor: lossless link, the subscription in place,
   two broker messages back to back on one new topic -> clause (26,4); one after the other -> none *)
Theorem C26_refuted :
  ChkE2E.lossless ecfg0 = true /\
  emon_run ecfg0 (sys_init ecfg0) emon_init burst_hist = [(26, 4)] /\
  emon_run ecfg0 (sys_init ecfg0) emon_init
    [SCall 1 AConnect; SCall 2 (ASubscribe [97; 47; 35] 1); SBpub burst_m1; SBpub burst_m2] = [].
Proof. exact C26_refuted_monitor. Qed.
Print Assumptions C26_refuted.

(* non-vacuity: cfg_ok is satisfiable and the state after Connect is Quiet *)
Example C26_nonvacuous : quietb ecfg0 (fst (sys_step ecfg0 (sys_init ecfg0) (SCall 1 AConnect))) = true.
Proof. exact quiet_after_connect_test. Qed.
