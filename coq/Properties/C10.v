(* C10 — Half-open connect exchanges are reaped.
   Statement only; proofs in Gateway/Sound_Timed.v. *)
From stdpp Require Import base option list numbers fin_maps nmap.
From Verif.Base Require Import Bytes.
From Verif.Codec Require Import Packets Decode Encode.
From Verif.Gateway Require Import GwTypes GwStep GwWf GwRun Sound_Timed.
From Verif.Checkers Require Import ChkCodec ChkGw ChkGw2 ChkGw3.
Open Scope N_scope.

(* The monitor of Checkers/ChkGw3.v, clause (10,1): from the moment a connect exchange is pending
   (created by the last CONNECT; with or without will, with or without AUTH, at any step of it,
   including "CONNECT sent to the broker, CONNACK outstanding"), if the session has not ended by
   5000 + 100 ms after the client's last packet - connectTransactionTimeout plus one connection
   poll interval - that is a failure; ObEnd is "Run returned", which closes the broker connection
   (C14).  For every history, whatever the client and the broker send or do not send afterwards,
   the model never fails it.

   Side condition fuel_ok_run: the model's clock is not stuck, i.e. no EvAdvance exhausts the
   fuel (capped at 100000 timer firings) of run_timers; an executable condition on the run. *)
Theorem C10_all_histories :
  forall cfg evs, wf_cfg cfg -> Forall wf_event evs -> fuel_ok_run cfg (init_state cfg) evs ->
    only_props [10] (mon_run cfg (init_state cfg) mon_init evs) = [].
Proof. exact mon_C10_sound. Qed.
Print Assumptions C10_all_histories.

(* Non-vacuity: a CONNECT whose CONNACK never comes; the session is cancelled at 5000 ms and Run
   returns at 5100 ms; the clock condition holds on this history. *)
Example C10_nonvacuous :
  fuel_ok_run ex_cfg (init_state ex_cfg) ex_halfopen /\
  snd (gw_step ex_cfg (snd (gw_run ex_cfg (init_state ex_cfg) [ex_con 10; EvAdvance 3000])) (EvAdvance 2100)) =
  [OutCancel 5000 EcConnectTimeout; OutEnd 5100].
Proof. split; [exact fuel_ok_halfopen|exact halfopen_ends]. Qed.
