(* C06 — Exchanges started by each side never interfere.
   The faithful models REFUTE the property, in the gateway and in the client library: both keep
   their exchanges in a store keyed by message ID only (transactions/transaction_store.go), while
   the two sides choose message IDs independently.  Theorems: the refutations, with the witnesses
   that are replayed on the real code by every run of the check (corpus/gw.hist, client
   histories).  The positive part for the gateway is proved as well (C06_gateway_only_interference_fails):
   the ONLY failures the gateway model can produce are those of an exchange during whose life an
   exchange of the other direction used the same message ID - every other exchange (no shared ID;
   an ID reused by the same side; a retransmitted or superseding client exchange) gets its
   acknowledgement relayed, in every history. *)
From stdpp Require Import base option list numbers fin_maps nmap.
From Verif.Base Require Import Bytes.
From Verif.Codec Require Import Packets Decode Encode.
From Verif.Gateway Require Import GwTypes GwStep GwWf GwWfDec GwRun Sound_C06 Sound_C06r.
From Verif.Client Require Import ClTypes ClStep Sound_Client Sound_C06c.
From Verif.Checkers Require Import ChkCodec ChkGw ChkGw2 ChkGw4 ChkGw6 ChkCl ChkCl3.
Open Scope N_scope.

(* The monitor mon6 (Checkers/ChkGw4.v) keeps the exchanges of both directions by direction AND
   message ID, as the property demands, and reports when an acknowledgement that belongs to a live
   exchange is not relayed: (1) the broker's PUBACK for a client QoS 1 PUBLISH, (2) the broker's
   SUBACK for a client SUBSCRIBE, (3) the client's PUBACK and (4) PUBREC for a broker PUBLISH. *)
Definition C06_gateway_statement : Prop :=
  forall cfg evs, wf_cfg cfg -> Forall wf_event evs -> mon6_run cfg (init_state cfg) mon6_init evs = [].

Definition c06_cfg : gw_cfg :=
  {| auth_enabled := false; cfg_user := None; cfg_pass := None; retry_delay := 1000; retry_count := 2;
     predefined := []; min_tid := 1; max_tid := 65534 |}.
(* CONNECT, CONNACK; client PUBLISH QoS 1 (short topic "ab") with message ID 5; broker PUBLISH QoS 1
   on "xy" with message ID 5; broker PUBACK 5 for the client's PUBLISH: not relayed *)
Definition c06_hist : list gw_event :=
  [EvSn (pack (Connect false true 1 60 [99; 49])); EvMq (MqConnack false 0); EvAdvance 3;
   EvSn (pack (Publish false 1 false 2 (encode_short [97; 98]) 5 [10])); EvAdvance 2;
   EvMq (MqPublish false 1 false [120; 121] 5 [1]); EvAdvance 2; EvMq (MqPuback 5)].

Lemma c06_cfg_wf : wf_cfg c06_cfg.
Proof. unfold wf_cfg, c06_cfg; cbn. repeat split; try lia. constructor. Qed.

Theorem C06_gateway_refuted : ~ C06_gateway_statement.
Proof.
  intros H. specialize (H c06_cfg c06_hist c06_cfg_wf).
  assert (Hw : Forall wf_event c06_hist) by (apply wf_events_spec; vm_compute; reflexivity).
  specialize (H Hw). vm_compute in H. discriminate H.
Qed.
Print Assumptions C06_gateway_refuted.

Example C06_gateway_witness : mon6_run c06_cfg (init_state c06_cfg) mon6_init c06_hist = [1].
Proof. vm_compute. reflexivity. Qed.

(* Client library: a QoS 2 PUBLISH from the gateway must be answered with PUBREC of its message ID
   whatever the client's own exchanges (chk_C06c, Checkers/ChkCl3.v). *)
(* The monitor's clause codes: c in 1..4 when an exchange of the other direction with the same message ID
   was in progress during the life of the failing exchange, 10 + c when there was none, 20 + c when a
   client exchange superseded an earlier unfinished client exchange with the same ID.  In EVERY history
   (well-formed configuration and events, nothing else assumed) only the first kind occurs: *)
Theorem C06_gateway_only_interference_fails :
  forall cfg evs, wf_cfg cfg -> Forall wf_event evs ->
    forall c, In c (mon6_run cfg (init_state cfg) mon6_init evs) -> c < 10.
Proof. exact C06_only_interference_fails. Qed.
Print Assumptions C06_gateway_only_interference_fails.

(* The REGISTER step of a broker exchange (Checkers/ChkGw6.v, monitor mon6r run next to mon6): mon6 opens a broker
   exchange when its PUBLISH is written; an exchange on a topic without ID first sends REGISTER and waits for the
   client's REGACK.  The book of mon6r holds every such REGISTER (message ID, topic ID, QoS, until when); at the
   client's accepted REGACK for a live entry the PUBLISH under that topic ID (QoS >= 1: with that message ID) must
   be written - whatever PUBACK / PUBREC / PUBCOMP of EARLIER exchanges with the same message ID arrived meanwhile
   (those never remove an entry).  Codes: 5 when a client exchange with the same message ID STARTED during the
   step (the shared store slot: the recorded defect), 15 otherwise.  In EVERY history only 5 occurs: *)
Theorem C06_register_step_only_interference_fails :
  forall cfg evs, wf_cfg cfg -> Forall wf_event evs ->
    forall c, In c (mon6r_run cfg (init_state cfg) mon6_init mon6r_init evs) -> c < 10.
Proof. exact Sound_C06r.C06_register_step_only_interference_fails. Qed.
Print Assumptions C06_register_step_only_interference_fails.

(* not vacuous: CONNECT, CONNACK, SUBSCRIBE a/#, SUBACK, broker PUBLISH QoS 1 mid 5 on a/x (REGISTER), a stale
   rejecting PUBACK 5, the accepted REGACK - the book holds the entry, the PUBLISH is written, nothing is reported,
   and without the PUBLISH the clause reports 15; with a client exchange of the same ID in between: 5 *)
Theorem C06_register_step_examples :
  (mon6r_run c06r_cfg (init_state c06r_cfg) mon6_init mon6r_init c06r_hist = [] /\
   mon6r_book c06r_cfg (init_state c06r_cfg) mon6_init mon6r_init (removelast c06r_hist) =
     [{| re_mid := 5; re_tid := 1; re_qos := 1; re_until := 3003; re_hit := false |}] /\
   sn_pkts (obs_of_outs (last (fst (gw_run c06r_cfg (init_state c06r_cfg) c06r_hist)) [])) =
     [Publish false 1 false TIT_REGISTERED 1 5 [1]] /\
   snd (mon6r_step c06r_cfg (snd (gw_run c06r_cfg (init_state c06r_cfg) (removelast c06r_hist)))
                   (EvSn (pack (Regack 1 5 0))) [] mon6_init
                   {| r_book := mon6r_book c06r_cfg (init_state c06r_cfg) mon6_init mon6r_init (removelast c06r_hist) |}) = [15]) /\
  (mon6r_run c06r_cfg (init_state c06r_cfg) mon6_init mon6r_init c06r_hist_interf = [5] /\
   sn_pkts (obs_of_outs (last (fst (gw_run c06r_cfg (init_state c06r_cfg) c06r_hist_interf)) [])) = []).
Proof. exact (conj C06_register_step_nonvacuous C06_register_step_interference). Qed.
Print Assumptions C06_register_step_examples.

Definition C06_client_statement : Prop :=
  forall cfg evs,
    (fix all (s : cl_state) (evs : list cl_event) : Prop :=
       match evs with
       | [] => True
       | ev :: evs' => chk_C06c cfg s ev (snd (cl_step cfg s ev)) = [] /\ all (fst (cl_step cfg s ev)) evs'
       end) cl_init evs.

Definition c06_ccfg : cl_cfg :=
  {| k_cid := [99; 49]; k_user := []; k_pass := []; k_keepalive := 0; k_ctimeout := 5000; k_rdelay := 1000; k_rcount := 2;
     k_clean := true; k_will := []; k_wmsg := []; k_wqos := 0; k_wretain := false; k_predef := [] |}.
(* Connect, CONNACK; Publish QoS 1 on the short topic "ab" (the client's first message ID is 1);
   the gateway sends a QoS 2 PUBLISH with message ID 1: dropped, no PUBREC *)
Definition c06_chist : list cl_event :=
  [CCall 1 AConnect; CGw (pack (Connack 0)); CCall 2 (APublish [97; 98] 1 false [7]);
   CGw (pack (Publish false 2 false 2 (encode_short [120; 121]) 1 [9]))].

Theorem C06_client_refuted : ~ C06_client_statement.
Proof. intros H. specialize (H c06_ccfg c06_chist). vm_compute in H. destruct H as (_ & _ & _ & H & _). discriminate H. Qed.
Print Assumptions C06_client_refuted.

(* The positive part for the client library: on EVERY step from ANY state (datagrams made of bytes), the
   only failure of the client-side clause is the interference one (clause 7: the gateway's QoS 2 PUBLISH
   carries the message ID of an exchange the client itself started); a QoS 2 PUBLISH with any other ID -
   fresh, or of an earlier QoS 2 PUBLISH of the gateway - is answered with PUBREC. *)
Theorem C06_client_only_interference_fails :
  forall cfg s ev, wf_cl_event ev ->
    forall c, In c (chk_C06c cfg s ev (snd (cl_step cfg s ev))) -> c < 10.
Proof. exact chk_C06c_only_interference. Qed.
Print Assumptions C06_client_only_interference_fails.
