(* C19 — Retry and timeout budgets are exact.  Statement only; proofs in Txn/TxnProofs.v. *)
From Coq Require Import List NArith Bool Lia.
From Verif.Base Require Import Bytes.
From Verif.Txn Require Import Txn TxnProofs.
Import ListNotations.
Open Scope N_scope.

(* After a Proceed at t0 with no progress, the retry callback runs exactly at t0 + k*delay for
   k = 1..count and the transaction fails with "no more retries" at t0 + (count+1)*delay; for all
   counts and delays. *)
Theorem C19_retry_budget_exact :
  forall (delay count n t0 d : N) (s : txn_state),
    0 < delay -> t_retry s = true -> t_done s = false -> t_cbfail s = false -> t_delay s = delay -> t_count s = count ->
    t_now s = t0 -> (count + 1) * delay <= d ->
    let s1 := fst (txn_step s (EvProceed n)) in
    let '(s2, o) := txn_step s1 (EvAdv d) in
    o = callbacks_at t0 delay n (N.to_nat count) 1 ++ [OFinally (t0 + (count + 1) * delay); ODone (t0 + (count + 1) * delay)] /\
    t_done s2 = true /\ t_err s2 = TeNoRetries /\ t_callbacks s2 = t_callbacks s + count.
Proof. exact retry_budget_exact. Qed.
Print Assumptions C19_retry_budget_exact.

(* any progress resets that budget *)
Theorem C19_progress_resets :
  forall (n : N) (s : txn_state), t_retry s = true -> t_done s = false ->
    let s1 := fst (txn_step s (EvProceed n)) in
    t_retry_num s1 = 0 /\ t_timer s1 = Some (t_now s + t_delay s) /\ t_data s1 = n.
Proof. exact proceed_resets_budget. Qed.
Print Assumptions C19_progress_resets.

Theorem C19_quiet_before_delay :
  forall (n d : N) (s : txn_state), t_retry s = true -> t_done s = false -> d < t_delay s ->
    let s1 := fst (txn_step s (EvProceed n)) in
    snd (txn_step s1 (EvAdv d)) = [] /\ t_done (fst (txn_step s1 (EvAdv d))) = false.
Proof. exact retry_quiet_before_delay. Qed.
Print Assumptions C19_quiet_before_delay.

(* how the passing of time is sliced does not matter *)
Theorem C19_time_additive :
  forall (s : txn_state) (a b : N), t_retry s = true -> 0 < t_delay s ->
    let '(s1, o1) := txn_step s (EvAdv a) in
    let '(s2, o2) := txn_step s1 (EvAdv b) in
    let '(s3, o3) := txn_step s (EvAdv (a + b)) in
    o1 ++ o2 = o3 /\ s2 = s3.
Proof. exact advance_additive. Qed.
Print Assumptions C19_time_additive.

(* a timed transaction fails with "timeout" exactly when not completed within its timeout *)
Theorem C19_timed_exact :
  forall (timeout d : N), 0 < timeout ->
    (timeout <= d ->
       txn_step (txn_new false timeout 0) (EvAdv d) =
         (let s := txn_new false timeout 0 in fst (txn_step s (EvAdv d)), [OFinally timeout; ODone timeout]) /\
       t_err (fst (txn_step (txn_new false timeout 0) (EvAdv d))) = TeTimeout) /\
    (d < timeout -> snd (txn_step (txn_new false timeout 0) (EvAdv d)) = [] /\
                    t_done (fst (txn_step (txn_new false timeout 0) (EvAdv d))) = false).
Proof. exact timed_timeout_exact. Qed.
Print Assumptions C19_timed_exact.

Example C19_nonvacuous :
  snd (txn_step (fst (txn_step (txn_new true 1000 2) (EvProceed 5))) (EvAdv 3000)) =
    [OCallback 1000 5; OCallback 2000 5; OFinally 3000; ODone 3000].
Proof. vm_compute. reflexivity. Qed.
