(* C34 — Sessions of vanished clients are reaped.
   Statement only; proofs in Gateway/Sound_Timed.v. *)
From stdpp Require Import base option list numbers fin_maps nmap.
From Verif.Base Require Import Bytes.
From Verif.Codec Require Import Packets Decode Encode.
From Verif.Gateway Require Import GwTypes GwStep GwWf GwRun Sound_Timed.
From Verif.Checkers Require Import ChkCodec ChkGw ChkGw2 ChkGw3.
Open Scope N_scope.

(* Under the property's assumption - a broker that drops a connection on which no CONNECT arrives
   or which stays silent for 1.5 x keep-alive - a session outlives its vanished client only as long
   as the gateway keeps writing to the broker on its own.  Clause (34,1) of the monitor: a write to
   the broker that no packet causes (it happens inside an EvAdvance: a timer fired) is allowed only
   while the client sleeps as announced, or as one of the RetryCount retransmissions after the
   client's last packet.  The broker then closes within 1.5 x keep-alive of the last allowed write
   and the session ends within 100 ms of that (C13); a pending connect exchange ends it after 5 s
   (C10).

   The faithful model REFUTES this: a sleep pinger is cancelled only by its own timer and keeps
   pinging after the client woke up with CONNECT or announced a shorter sleep. *)
Theorem C34_refuted :
  exists cfg evs, wf_cfg cfg /\ Forall wf_event evs /\
                  only_props [34] (mon_run cfg (init_state cfg) mon_init evs) <> [].
Proof. exact Sound_Timed.C34_refuted. Qed.
Print Assumptions C34_refuted.

(* It holds for every history in which, while a sleep pinger is scheduled, the session stays asleep
   and no new sleep is announced (c34_excluded, an executable condition on each step). *)
Theorem C34_partial :
  forall cfg evs, wf_cfg cfg -> Forall wf_event evs -> fuel_ok_run cfg (init_state cfg) evs ->
    run_all cfg (fun s ev => c34_excluded cfg s ev = false) (init_state cfg) evs ->
    only_props [34] (mon_run cfg (init_state cfg) mon_init evs) = [].
Proof. exact mon_C34_partial. Qed.
Print Assumptions C34_partial.

(* The two other legs of the argument, for EVERY history: once the broker has dropped the connection
   (or any other termination cause occurred) the session ends within 100 ms - clause (13,2), reported
   by the C34 check as clause 2 when the cause is the broker's close - and a connect exchange that
   stays half-open ends the session after 5 s - clause (10,1), reported as clause 3. *)
Theorem C34_ends_after_broker_close :
  forall cfg evs, wf_cfg cfg -> Forall wf_event evs -> fuel_ok_run cfg (init_state cfg) evs ->
    only_props [13] (mon_run cfg (init_state cfg) mon_init evs) = [].
Proof. exact mon_C13_sound. Qed.
Print Assumptions C34_ends_after_broker_close.

Theorem C34_half_open_connect_ends :
  forall cfg evs, wf_cfg cfg -> Forall wf_event evs -> fuel_ok_run cfg (init_state cfg) evs ->
    only_props [10] (mon_run cfg (init_state cfg) mon_init evs) = [].
Proof. exact mon_C10_sound. Qed.
Print Assumptions C34_half_open_connect_ends.

Example C34_nonvacuous :
  fuel_ok_run ex_cfg (init_state ex_cfg) ex_ordinary.
Proof. exact fuel_ok_ordinary. Qed.
