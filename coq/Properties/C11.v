(* C11 — Sleeping clients get their traffic buffered and delivered on wake.
   Statement only; proofs in Gateway/Sound_C04C11.v. *)
From stdpp Require Import base option list numbers fin_maps nmap.
From Verif.Base Require Import Bytes.
From Verif.Codec Require Import Packets Decode Encode.
From Verif.Topics Require Import Predefined.
From Verif.Gateway Require Import GwTypes GwStep GwWf GwRun GwWfDec Sound_C04C11 GwSleepProofs.
From Verif.Checkers Require Import ChkCodec ChkGw ChkGw2.
Open Scope N_scope.

(* chk_C11 (Checkers/ChkGw2.v), for a step that starts with the client Asleep: (1) nothing is
   written to the client unless the step handles its PINGREQ, CONNECT or DISCONNECT; (2) the
   PINGREQ step writes exactly [flush_expected (gw_buffer s)]: every buffered packet once, in
   arrival order, then PINGRESP (a buffered packet larger than the transport maximum ends the
   session instead, as it would have awake: C23).  That the client is Asleep again after the
   PINGRESP - so that the statement holds for every sleep cycle - is C11_asleep_again.

   The model passes in every reachable state, except in the step in which the broker accepts a
   re-CONNECT that was still pending when the client announced its sleep
   (connack_not_due; a recorded finding: the CONNACK is written to the sleeping client). *)
Theorem C11_checker_sound :
  forall cfg s ev, wf_cfg cfg -> reach cfg s -> wf_event ev -> connack_not_due s ev ->
    chk_C11 cfg s ev (obs_of_outs (snd (gw_step cfg s ev))) = [].
Proof. exact chk_C11_sound_partial. Qed.
Print Assumptions C11_checker_sound.

Theorem C11_all_histories :
  forall cfg evs, wf_cfg cfg -> Forall wf_event evs ->
    run_all cfg connack_not_due (init_state cfg) evs ->
    run_all cfg (fun s ev => chk_C11 cfg s ev (obs_of_outs (snd (gw_step cfg s ev))) = []) (init_state cfg) evs.
Proof. exact chk_C11_all_histories. Qed.
Print Assumptions C11_all_histories.

(* After the wake-up step the client is asleep again and the buffer is empty: from ANY running
   state in which the client is Asleep and every buffered packet fits a datagram. *)
Theorem C11_asleep_again :
  forall cfg s dg cid,
    gw_ended s = false -> gw_ending s = None -> gw_st s = Asleep ->
    read_dgram dg = Ok (Pingreq cid) ->
    (forall e, In e (gw_buffer s) -> len (pack (snd e)) <= MaxPacketLen) ->
    gw_st (fst (gw_step cfg s (EvSn dg))) = Asleep /\ gw_buffer (fst (gw_step cfg s (EvSn dg))) = [].
Proof. exact wake_up_asleep_again. Qed.
Print Assumptions C11_asleep_again.

(* The full statement is false of the faithful model (the connack_not_due class). *)
Definition C11_statement : Prop :=
  forall cfg evs, wf_cfg cfg -> Forall wf_event evs ->
    run_all cfg (fun s ev => chk_C11 cfg s ev (obs_of_outs (snd (gw_step cfg s ev))) = []) (init_state cfg) evs.

Definition c11_cfg : gw_cfg :=
  {| auth_enabled := false; cfg_user := None; cfg_pass := None; retry_delay := 1000; retry_count := 2;
     predefined := []; min_tid := 1; max_tid := 65534 |}.
Definition c11_connect := EvSn (pack (Connect false true 1 60 [99; 49])).
(* CONNECT, CONNACK, CONNECT again, sleep DISCONNECT before the second CONNACK, second CONNACK *)
Definition c11_hist : list gw_event :=
  [c11_connect; EvMq (MqConnack false 0); c11_connect; EvSn (pack (Disconnect 5)); EvMq (MqConnack false 0)].

Lemma c11_cfg_wf : wf_cfg c11_cfg.
Proof. unfold wf_cfg, c11_cfg; cbn. repeat split; try lia. constructor. Qed.
Lemma c11_hist_wf : Forall wf_event c11_hist.
Proof. apply wf_events_spec. vm_compute. reflexivity. Qed.

Theorem C11_refuted : ~ C11_statement.
Proof.
  intros H. specialize (H c11_cfg c11_hist c11_cfg_wf c11_hist_wf).
  assert (Hb : run_allb c11_cfg (fun s ev => passes (chk_C11 c11_cfg s ev (obs_of_outs (snd (gw_step c11_cfg s ev)))))
                 (init_state c11_cfg) c11_hist = true).
  { apply run_allb_spec. eapply run_all_impl; [|exact H]. intros s ev E. apply passes_spec, E. }
  vm_compute in Hb. discriminate Hb.
Qed.
Print Assumptions C11_refuted.

(* Non-vacuity: two sleep cycles; a broker PUBLISH (QoS 0, short topic) arriving in each is held
   back and written, followed by PINGRESP, when the client wakes up. *)
Definition c11_pub (b : N) := EvMq (MqPublish false 0 false [97; 98] 0 [b]).
Definition c11_ping := EvSn (pack (Pingreq [])).
Example C11_nonvacuous :
  let evs := [c11_connect; EvMq (MqConnack false 0); EvSn (pack (Disconnect 5));
              c11_pub 1; c11_ping; c11_pub 2; c11_pub 3; c11_ping] in
  map (fun os => sn_pkts (obs_of_outs os)) (fst (gw_run c11_cfg (init_state c11_cfg) evs)) =
  [[]; [Connack 0]; [Disconnect 0]; [];
   [Publish false 0 false 2 (encode_short [97; 98]) 0 [1]; Pingresp]; []; [];
   [Publish false 0 false 2 (encode_short [97; 98]) 0 [2]; Publish false 0 false 2 (encode_short [97; 98]) 0 [3]; Pingresp]].
Proof. vm_compute. reflexivity. Qed.
