(* C20 — Decoding any datagram never crashes.  Statement only; proof in Codec/DecodeProofs.v. *)
From Coq Require Import List NArith.
From Verif.Base Require Import Bytes.
From Verif.Codec Require Import Packets Decode DecodeProofs.
Open Scope N_scope.

(* For every byte string of up to 8192 bytes received as a datagram, ReadPacket returns
   a packet or an error and never panics.  (The proof needs neither hypothesis.) *)
Theorem C20_decoding_never_panics :
  forall dg : bytes, wf_bytes dg -> (length dg <= N.to_nat MaxPacketLen)%nat ->
    (exists p, read_dgram dg = Ok p) \/ (exists e, read_dgram dg = Err e).
Proof.
  intros dg _ _. pose proof (read_dgram_never_panics dg) as H.
  destruct (read_dgram dg) as [p|e|s]; [left; eauto|right; eauto|exfalso; exact (H s eq_refl)].
Qed.
Print Assumptions C20_decoding_never_panics.

Theorem C20_no_panic_site : forall (dg : bytes) (s : panic_site), read_dgram dg <> Panic s.
Proof. exact read_dgram_never_panics. Qed.
Print Assumptions C20_no_panic_site.

(* Non-vacuity: the inputs that used to crash the decoder are rejected, ordinary ones decode. *)
Example C20_witnesses :
  read_dgram [1; 0] = Err ErrShort /\
  read_dgram [1; 0; 5] = Err ErrShort /\
  read_dgram ([10; 3; 0; 254] ++ repeat 0 6) = Err ErrBadLength /\
  read_dgram [2; 23] = Ok Pingresp /\
  read_dgram [7; 12; 98; 0; 5; 0; 7] = Ok (Publish false 3 false 2 5 7 []).
Proof. vm_compute. repeat split. Qed.
