(* C18 — A finished transaction stays finished.  Statement only; proofs in Txn/TxnProofs.v. *)
From Coq Require Import List NArith Bool Lia.
From Verif.Base Require Import Bytes.
From Verif.Txn Require Import Txn TxnProofs.
Import ListNotations.
Open Scope N_scope.

(* An event of Txn.v is one atomic region of the Go code (Success, Fail, Proceed, the timer
   callback body and the context watcher each run entirely under the transaction's mutexes:
   coq/skeleton.expected is regenerated from the source on every run).  EvFire is the timer
   callback body running at an ARBITRARY moment, also after the timer was stopped or replaced,
   and EvAdv fires it at its deadline: so every interleaving of acknowledgements, retry-timer
   expiry (including a timer that fires immediately), failures and cancellation is an event
   sequence.  For every such sequence, from a fresh retry or timed transaction: *)
Theorem C18_completes_at_most_once :
  forall retry delay count evs,
    (length (filter is_finally (outs_flat (fst (txn_run (txn_new retry delay count) evs)))) <= 1)%nat /\
    (length (filter is_done (outs_flat (fst (txn_run (txn_new retry delay count) evs)))) <= 1)%nat /\
    t_finally (snd (txn_run (txn_new retry delay count) evs)) <= 1.
Proof. exact finally_at_most_once. Qed.
Print Assumptions C18_completes_at_most_once.

(* once Done is closed: Err never changes, the completion callback does not run again, no retry
   callback (retransmission) happens, the timer is not re-armed. *)
Theorem C18_done_is_final :
  forall s ev, t_done s = true ->
    let '(s', o) := txn_step s ev in
    t_done s' = true /\ t_err s' = t_err s /\ t_finally s' = t_finally s /\ t_callbacks s' = t_callbacks s /\
    filter is_callback o = [] /\ filter is_finally o = [] /\ filter is_done o = [] /\
    (t_timer s = None -> t_timer s' = None).
Proof. exact done_is_final. Qed.
Print Assumptions C18_done_is_final.

Theorem C18_done_iff_completion_ran_once :
  forall retry delay count evs,
    let s := snd (txn_run (txn_new retry delay count) evs) in
    (t_done s = true <-> t_finally s = 1) /\ (t_done s = false -> t_err s = TeNil).
Proof. exact done_implies_finally_once. Qed.
Print Assumptions C18_done_iff_completion_ran_once.

(* Non-vacuity: Success then Fail then a stale timer callback. *)
Example C18_nonvacuous :
  let r := txn_run (txn_new true 1000 2) [EvProceed 1; EvSuccess; EvFail 7; EvFire; EvAdv 5000] in
  outs_flat (fst r) = [OFinally 0; ODone 0] /\ t_err (snd r) = TeNil /\ t_callbacks (snd r) = 0.
Proof. vm_compute. repeat split. Qed.
