(* C12 — Broker keep-alive is kept for connected and sleeping clients.
   Statement only; proofs in Gateway/Sound_Timed.v. *)
From stdpp Require Import base option list numbers fin_maps nmap.
From RecordUpdate Require Import RecordSet.
From Verif.Base Require Import Bytes.
From Verif.Codec Require Import Packets Decode Encode.
From Verif.Gateway Require Import GwTypes GwStep GwWf GwRun Sound_Timed.
From Verif.Checkers Require Import ChkCodec ChkGw ChkGw2 ChkGw3.
Import RecordSetNotations.
Open Scope N_scope.

(* Clause (12,c) of the monitor (Checkers/ChkGw3.v): a window of 1.5 x keep-alive (the keep-alive of
   the last MQTT CONNECT written) without any write to the broker, although the client had met its
   obligations up to the end of that window - a packet within every keep-alive period while active,
   a wake-up within the announced sleep duration.  c = 1: client active, 2: asleep, 3: awake.

   The faithful model REFUTES the property in three independent ways (witnesses checked by
   vm_compute; well-formed, clock not stuck): *)
Theorem C12_refuted_local_traffic :
  wf_cfg ex_cfg /\ Forall wf_event ex12a /\ fuel_ok_run ex_cfg (init_state ex_cfg) ex12a /\
  In (12, 1) (only_props [12] (mon_run ex_cfg (init_state ex_cfg) mon_init ex12a)).
Proof. exact C12_refuted_active. Qed.
Print Assumptions C12_refuted_local_traffic.

Theorem C12_refuted_sleep_not_longer_than_keepalive :
  wf_cfg ex_cfg /\ Forall wf_event ex12b /\ fuel_ok_run ex_cfg (init_state ex_cfg) ex12b /\
  In (12, 2) (only_props [12] (mon_run ex_cfg (init_state ex_cfg) mon_init ex12b)).
Proof. exact C12_refuted_short_sleep. Qed.
Print Assumptions C12_refuted_sleep_not_longer_than_keepalive.

Theorem C12_refuted_first_ping_late :
  wf_cfg ex_cfg /\ Forall wf_event ex12c /\ fuel_ok_run ex_cfg (init_state ex_cfg) ex12c /\
  In (12, 2) (only_props [12] (mon_run ex_cfg (init_state ex_cfg) mon_init ex12c)).
Proof. exact C12_refuted_pinger_gap. Qed.
Print Assumptions C12_refuted_first_ping_late.

(* What holds (the partial statement): the traffic of an Active client that has an MQTT translation
   reaches the broker in the same step, and a sleep longer than the keep-alive starts a pinger that
   writes PINGREQ every keep-alive period. *)
Theorem C12_partial_pingreq :
  forall cfg s dg cid, gw_ended s = false -> gw_ending s = None -> gw_st s = Active ->
    read_dgram dg = Ok (Pingreq cid) -> snd (gw_step cfg s (EvSn dg)) = [OutMq (gw_now s) MqPingreq].
Proof. exact C12_partial_active_pingreq. Qed.
Print Assumptions C12_partial_pingreq.

Theorem C12_partial_pinger_fires :
  forall cfg s p, fire cfg s (TmPing p) = (arm s (TmPing p) (gw_keepalive s * 1000), [OutMq (gw_now s) MqPingreq], HOk).
Proof. exact Sound_Timed.C12_partial_pinger_fires. Qed.
Print Assumptions C12_partial_pinger_fires.
