(* C16 — QoS 1/2 delivery to clients survives datagram loss.
   Statement only; proofs in Gateway/Sound_C16.v (gateway) and Client/Sound_Client.v (client).
   PARTIAL: the safety clauses are proved of the component models; the liveness clause (delivery
   and acknowledgement within the retry budget over a lossy link) is a statement about the composed
   system (System/Compose.v) that is NOT proved - it is checked on the real client + real gateway
   by the end-to-end monitor (Checkers/ChkE2E.v clauses (16,4)-(16,6)) on generated fault lists. *)
From stdpp Require Import base option list numbers fin_maps nmap.
From Verif.Base Require Import Bytes.
From Verif.Codec Require Import Packets Decode Encode.
From Verif.Gateway Require Import GwTypes GwStep GwWf GwRun Sound_C16 Sound_C16b.
From Verif.Client Require Import ClTypes ClStep Sound_Client.
From Verif.Checkers Require Import ChkCodec ChkGw ChkGw5 ChkCl.
Open Scope N_scope.

(* Retransmissions repeat the same message ID and payload with DUP set: while the budget lasts, the
   expiry of the retry timer of a broker-publish exchange (REGISTER, PUBLISH or PUBREL step) writes
   exactly the stored packet with DUP set, counts it, and re-arms the timer RetryDelay later ... *)
Theorem C16_retransmission_is_the_same_packet_with_DUP :
  forall cfg s g mid qos st p snpub n,
    gw_objs s !! g = Some (TxBrokerPub mid qos st (RsSn p) snpub n) ->
    gw_st s <> Asleep -> n + 1 <= retry_count cfg -> len (pack (set_dup p)) <= MaxPacketLen ->
    exists s', fire cfg s (TmRetry g) = (s', [OutSn (gw_now s) (pack (set_dup p))], HOk) /\
               gw_objs s' !! g = Some (TxBrokerPub mid qos st (RsSn (set_dup p)) snpub (n + 1)) /\
               In {| tm_at := gw_now s + retry_delay cfg; tm_seq := gw_next_seq s; tm_kind := TmRetry g |} (gw_timers s').
Proof. exact retry_resends. Qed.
Print Assumptions C16_retransmission_is_the_same_packet_with_DUP.

Theorem C16_set_dup_changes_only_DUP :
  forall d q r tit tid mid data, set_dup (Publish d q r tit tid mid data) = Publish true q r tit tid mid data.
Proof. exact set_dup_publish. Qed.

(* ... and after RetryCount unanswered retransmissions the gateway stops: the next expiry writes
   nothing and removes the exchange. *)
Theorem C16_gateway_stops_after_RetryCount :
  forall cfg s g mid qos st d snpub n,
    gw_objs s !! g = Some (TxBrokerPub mid qos st d snpub n) -> retry_count cfg < n + 1 ->
    fire cfg s (TmRetry g) = (finish_obj s g, [], HOk) /\ gw_objs (finish_obj s g) !! g = None.
Proof. exact retry_stops. Qed.
Print Assumptions C16_gateway_stops_after_RetryCount.

(* Every step of a broker-publish exchange is relayed (chk_C16, Checkers/ChkGw5.v), in EVERY history:
   the client's accepting PUBACK / PUBREC / PUBCOMP for the exchange the store holds under that
   message ID in the matching state reaches the broker as MQTT PUBACK / PUBREC / PUBCOMP with the same
   ID in the same step, and the broker's PUBREL is written to a client that is not asleep. *)
Theorem C16_gateway_relays_every_step :
  forall cfg evs, wf_cfg cfg -> Forall wf_event evs ->
    run_all cfg (fun s ev => chk_C16 cfg s ev (obs_of_outs (snd (gw_step cfg s ev))) = []) (init_state cfg) evs.
Proof. exact chk_C16_history. Qed.
Print Assumptions C16_gateway_relays_every_step.

(* Client side (shared with C17): for every behaviour of gateway and link, a PUBREL - also a
   retransmitted one for an exchange the client already finished - is answered with exactly one
   PUBCOMP of the same message ID, and the handler of a QoS 2 message runs at PUBREL time only
   (chk_C17 clause 3, chk_C27's "delivered" rule). *)
Theorem C16_client_answers_every_PUBREL :
  forall cfg s ev, wf_cl_cfg cfg -> cl_reach cfg s -> wf_cl_event ev -> calls_uniq s -> cl_fresh s ev = true ->
    chk_C17 cfg s ev (snd (cl_step cfg s ev)) = [].
Proof. exact chk_C17_partial. Qed.
Print Assumptions C16_client_answers_every_PUBREL.
