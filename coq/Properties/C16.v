(* C16 — QoS 1/2 delivery to clients survives datagram loss.
   Statement only; proofs in Gateway/Sound_C16.v (gateway) and Client/Sound_Client.v (client).
   PARTIAL: the safety clauses are proved of the component models; the liveness clause (delivery
   and acknowledgement within the retry budget over a lossy link) is proved of the composed system
   (System/ComposeLoss.v, ComposeLoss2.v) for QoS 1 messages on subscribed short topics under any
   pattern of lost PUBLISHes / PUBACKs within the budget, for QoS 2 with one lost datagram at any
   position (handler exactly once), and for the REGISTER step with one loss at any position;
   arbitrary loss patterns for QoS 2 and duplication faults are NOT proved - they are checked on the
   real client + real gateway by the end-to-end monitor (Checkers/ChkE2E.v clauses (16,4)-(16,6))
   on generated fault lists. *)
From stdpp Require Import base option list numbers fin_maps nmap.
From Verif.Base Require Import Bytes.
From Verif.Codec Require Import Packets Decode Encode.
From Verif.Gateway Require Import GwTypes GwStep GwWf GwRun Sound_C16 Sound_C16b.
From Verif.Match Require Import Match.
From Verif.Client Require Import ClTypes ClStep Sound_Client.
From Verif.System Require Import Compose ComposeProofs ComposeProofs2_aux ComposeProofs2 ComposeLoss ComposeLoss2 ComposeLoss3_aux ComposeLoss3 ComposeLoss4_aux ComposeLoss4 ComposeLoss5_aux ComposeLoss5 ComposeProofs3_aux ComposeProofs3 ComposeSleep ComposeSleepLoss.
From Verif.Checkers Require Import ChkCodec ChkGw ChkGw5 ChkCl.
Open Scope N_scope.

(* Retransmissions repeat the same message ID and payload with DUP set: while the budget lasts, the
   expiry of the retry timer of a broker-publish exchange (REGISTER, PUBLISH or PUBREL step) writes
   exactly the stored packet with DUP set, counts it, and re-arms the timer RetryDelay later ... *)
Theorem C16_retransmission_is_the_same_packet_with_DUP :
  forall cfg s g mid qos st p snpub n,
    gw_objs s !! g = Some (TxBrokerPub mid qos st (RsSn p) snpub n) ->
    gw_st s <> Asleep -> n + 1 <= retry_count cfg -> len (pack (set_dup p)) <= MaxPacketLen ->
    exists s', fire cfg s (TmRetry g) = (s', [OutSn (gw_now s) (pack (set_dup p))], HOk) /\
               gw_objs s' !! g = Some (TxBrokerPub mid qos st (RsSn (set_dup p)) snpub (n + 1)) /\
               In {| tm_at := gw_now s + retry_delay cfg; tm_seq := gw_next_seq s; tm_kind := TmRetry g |} (gw_timers s').
Proof. exact retry_resends. Qed.
Print Assumptions C16_retransmission_is_the_same_packet_with_DUP.

Theorem C16_set_dup_changes_only_DUP :
  forall d q r tit tid mid data, set_dup (Publish d q r tit tid mid data) = Publish true q r tit tid mid data.
Proof. exact set_dup_publish. Qed.

(* ... and after RetryCount unanswered retransmissions the gateway stops: the next expiry writes
   nothing and removes the exchange. *)
Theorem C16_gateway_stops_after_RetryCount :
  forall cfg s g mid qos st d snpub n,
    gw_objs s !! g = Some (TxBrokerPub mid qos st d snpub n) -> retry_count cfg < n + 1 ->
    fire cfg s (TmRetry g) = (finish_obj s g, [], HOk) /\ gw_objs (finish_obj s g) !! g = None.
Proof. exact retry_stops. Qed.
Print Assumptions C16_gateway_stops_after_RetryCount.

(* Every step of a broker-publish exchange is relayed (chk_C16, Checkers/ChkGw5.v), in EVERY history:
   the client's accepting PUBACK / PUBREC / PUBCOMP for the exchange the store holds under that
   message ID in the matching state reaches the broker as MQTT PUBACK / PUBREC / PUBCOMP with the same
   ID in the same step, and the broker's PUBREL is written to a client that is not asleep. *)
Theorem C16_gateway_relays_every_step :
  forall cfg evs, wf_cfg cfg -> Forall wf_event evs ->
    run_all cfg (fun s ev => chk_C16 cfg s ev (obs_of_outs (snd (gw_step cfg s ev))) = []) (init_state cfg) evs.
Proof. exact chk_C16_history. Qed.
Print Assumptions C16_gateway_relays_every_step.

(* Liveness in the composed system (client model + link with fault lists + gateway model + specification
   broker), for a broker QoS 1 message on a subscribed short topic, from ANY connected quiescent state with
   subscriptions in place (QuietS): let the rounds b0 :: rs say, transmission by transmission, what the link
   loses - true: the gateway's PUBLISH, false: the client's PUBACK (faults_ok ties them to the fault lists at
   the link's counters) - at most RetryCount of them, then a round that gets through.  Then the message is
   delivered (at least once: once per PUBLISH that arrived, i.e. 1 + the number of lost PUBACKs handler
   invocations, the repetitions marked DUP), the broker receives exactly one PUBACK, no API call is
   disturbed, and the system is quiescent again.  (ComposeLoss.retry_budget_tight: with RetryCount + 1
   losses in a row the message is never delivered - the bound is sharp.) *)
Theorem C16_qos1_delivered_within_the_retry_budget :
  forall cfg y subs s dup retain mid payload b0 rs d,
    QuietS cfg y subs -> In s subs -> 1 <= mid < 65536 -> okb payload = true ->
    0 < retry_delay (e_gw cfg) -> N.of_nat (length (b0 :: rs)) <= retry_count (e_gw cfg) -> N.of_nat (length rs) < 99998 ->
    faults_ok cfg (b0 :: rs) (y_c2g_k y) (y_g2c_k y) ->
    N.of_nat (length (b0 :: rs)) * retry_delay (e_gw cfg) <= d ->
    exists y1 tr1 y2 tr2,
      sys_step cfg y (SBpub (MqPublish dup 1 retain (sub_topic s) mid payload)) = (y1, tr1) /\
      sys_step cfg y1 (SAdv d) = (y2, tr2) /\
      cbs_of (tr1 ++ tr2) = repeat (sub_id s, sub_topic s, payload) (S (count_false (b0 :: rs))) /\
      brs_of (tr1 ++ tr2) = [MqPuback mid] /\ rets_of (tr1 ++ tr2) = [] /\
      QuietS cfg y2 subs.
Proof. exact e2e_bpub_q1_lossy_counts. Qed.
Print Assumptions C16_qos1_delivered_within_the_retry_budget.

(* QoS 2 (short subscribed topic), one lost datagram at any of the four positions of the exchange - the
   gateway's PUBLISH, the client's PUBREC, the gateway's PUBREL, the client's PUBCOMP (one_loss): the
   exchange completes PUBREC, PUBREL and PUBCOMP on both sides, the client's handler runs EXACTLY ONCE,
   the broker receives exactly PUBREC and then PUBCOMP, and the system is quiescent again.  (Exact traces,
   and n consecutive losses of the PUBLISH or of the PUBREL within the budget: ComposeLoss2.v.) *)
Theorem C16_qos2_completes_exactly_once_with_one_loss :
  forall cfg y subs s dup retain mid payload pos d,
    QuietS cfg y subs -> In s subs -> 1 <= mid < 65536 -> okb payload = true ->
    0 < retry_delay (e_gw cfg) -> 1 <= retry_count (e_gw cfg) ->
    one_loss cfg (y_c2g_k y) (y_g2c_k y) pos -> retry_delay (e_gw cfg) <= d ->
    exists y1 tr1 y2 tr2,
      sys_step cfg y (SBpub (MqPublish dup 2 retain (sub_topic s) mid payload)) = (y1, tr1) /\
      sys_step cfg y1 (SAdv d) = (y2, tr2) /\
      cbs_of (tr1 ++ tr2) = [(sub_id s, sub_topic s, payload)] /\
      brs_of (tr1 ++ tr2) = [MqPubrec mid; MqPubcomp mid] /\ rets_of (tr1 ++ tr2) = [] /\
      QuietS cfg y2 subs /\ gw_now (y_gw y2) = gw_now (y_gw y) + d.
Proof. exact e2e_bpub_q2_one_loss_once. Qed.
Print Assumptions C16_qos2_completes_exactly_once_with_one_loss.

(* The REGISTER step (a QoS 1 message on a name that has no topic ID yet, from any connected quiescent
   state in which the allocator can hand out the next ID: RegReady), with the client's REGACK lost: the
   gateway retransmits the same REGISTER, the client accepts the same registration again, the PUBLISH
   follows under the new ID, is acknowledged, and both sides end with the same registration (RegDone).
   (REGISTER itself lost n times, the PUBLISH lost n times, the PUBACK lost: ComposeLoss2.v.) *)
Theorem C16_register_step_survives_a_lost_regack :
  forall cfg y dup retain topic mid payload d,
    Quiet cfg y -> RegReady cfg y topic -> 1 <= mid < 65536 -> okb payload = true ->
    0 < retry_delay (e_gw cfg) -> 1 <= retry_count (e_gw cfg) ->
    nth_fault (e_g2c cfg) (y_g2c_k y) = FDeliver -> nth_fault (e_c2g cfg) (y_c2g_k y) = FDrop ->
    nth_fault (e_g2c cfg) (S (y_g2c_k y)) = FDeliver -> nth_fault (e_c2g cfg) (S (y_c2g_k y)) = FDeliver ->
    nth_fault (e_g2c cfg) (S (S (y_g2c_k y))) = FDeliver -> nth_fault (e_c2g cfg) (S (S (y_c2g_k y))) = FDeliver ->
    retry_delay (e_gw cfg) <= d ->
    let t := gw_now (y_gw y) in
    let rd := retry_delay (e_gw cfg) in
    let i := gw_seq_next (y_gw y) in
    exists y1 y2,
      sys_step cfg y (SBpub (MqPublish dup 1 retain topic mid payload)) =
        (y1, [SoBS t (MqPublish dup 1 retain topic mid payload); SoG2C t FDeliver (pack (Register i mid topic));
              SoC2G t FDrop (pack (Regack i mid RC_ACCEPTED))]) /\
      cl_registered (y_cl y1) = reg_set (cl_registered (y_cl y)) topic i /\
      sys_step cfg y1 (SAdv d) =
        (y2, [SoG2C (t + rd) FDeliver (pack (Register i mid topic)); SoC2G (t + rd) FDeliver (pack (Regack i mid RC_ACCEPTED));
              SoG2C (t + rd) FDeliver (pack (Publish dup 1 retain TIT_REGISTERED i mid payload));
              SoC2G (t + rd) FDeliver (pack (Puback i mid RC_ACCEPTED))] ++
             scb_at y (t + rd) topic payload 1 retain dup mid ++ [SoBR (t + rd) (MqPuback mid)]) /\
      Quiet cfg y2 /\ gw_now (y_gw y2) = t + d /\ RegDone y y2 topic i /\
      y_c2g_k y2 = S (S (S (y_c2g_k y))) /\ y_g2c_k y2 = S (S (S (y_g2c_k y))).
Proof. exact e2e_bpub_reg_q1_regack_lost. Qed.
Print Assumptions C16_register_step_survives_a_lost_regack.

(* Client side (shared with C17): for every behaviour of gateway and link, a PUBREL - also a
   retransmitted one for an exchange the client already finished - is answered with exactly one
   PUBCOMP of the same message ID, and the handler of a QoS 2 message runs at PUBREL time only
   (chk_C17 clause 3, chk_C27's "delivered" rule). *)
Theorem C16_client_answers_every_PUBREL :
  forall cfg s ev, wf_cl_cfg cfg -> cl_reach cfg s -> wf_cl_event ev -> calls_uniq s -> cl_fresh s ev = true ->
    chk_C17 cfg s ev (snd (cl_step cfg s ev)) = [].
Proof. exact chk_C17_partial. Qed.
Print Assumptions C16_client_answers_every_PUBREL.

(* The session does not split when the gateway's reply to the sleep DISCONNECT is lost (repaired defect a82266a:
   the reply to the REPEATED DISCONNECT used to be queued because the session was asleep already; Sleep() then
   failed and every later broker message was queued for good).  From any connected quiescent state, for every
   sleep duration: the client retransmits the same DISCONNECT after its RetryDelay, the gateway answers AT ONCE
   with an empty buffer, and client and gateway are asleep together (Sleeping), the wake-up due RetryDelay + ms
   after the call - from where the sleep-cycle theorems of C26 (ComposeSleep.e2e_wake_up) continue. *)
Theorem C16_sleep_survives_a_lost_disconnect_reply :
  forall cfg y subs id ms d, QuietS cfg y subs ->
    1000 <= ms -> ms / 1000 < 65536 ->
    gw_keepalive (y_gw y) = 0 \/ ms / 1000 <= gw_keepalive (y_gw y) ->
    1 <= k_rcount (e_cl cfg) -> 0 < k_rdelay (e_cl cfg) ->
    nth_fault (e_c2g cfg) (y_c2g_k y) = FDeliver -> nth_fault (e_c2g cfg) (S (y_c2g_k y)) = FDeliver ->
    nth_fault (e_g2c cfg) (y_g2c_k y) = FDrop -> nth_fault (e_g2c cfg) (S (y_g2c_k y)) = FDeliver ->
    k_rdelay (e_cl cfg) <= d -> d < k_rdelay (e_cl cfg) + ms ->
    let t := gw_now (y_gw y) in
    let T1 := t + k_rdelay (e_cl cfg) in
    exists y', sys_run cfg y [SCall id (ASleep ms); SAdv d] =
      ([[SoC2G t FDeliver (pack (Disconnect (ms / 1000))); SoG2C t FDrop (pack (Disconnect 0))];
        [SoC2G T1 FDeliver (pack (Disconnect (ms / 1000))); SoG2C T1 FDeliver (pack (Disconnect 0))]], y') /\
      Sleeping cfg y' subs id (T1 + ms) [] /\ gw_now (y_gw y') = t + d /\ y_br y' = y_br y /\
      y_c2g_k y' = S (S (y_c2g_k y)) /\ y_g2c_k y' = S (S (y_g2c_k y)).
Proof. exact ComposeSleepLoss.C16_sleep_survives_a_lost_disconnect_reply. Qed.
Print Assumptions C16_sleep_survives_a_lost_disconnect_reply.

(* QoS 2 under ANY loss pattern within the budget, both phases (System/ComposeLoss3.v).  rs1 / rs2 list the failed
   rounds of phase 1 (PUBLISH -> PUBREC) and phase 2 (PUBREL -> PUBCOMP): true = the gateway's datagram of the round
   is lost, false = it is delivered and the client's answer is lost; at most RetryCount failed rounds per phase
   (faults1 turns the pattern into the link's fault positions).  The whole run is the exact trace trace1 (retransmitted
   PUBLISHes with DUP; a duplicate PUBLISH is answered with PUBREC again without a handler invocation; the handler
   runs at the first PUBREL that arrives; a repeated PUBREL is answered with PUBCOMP again), after which client and
   gateway are quiescent with the subscriptions in place.  trace1_facts: the handler runs EXACTLY once, the broker
   receives exactly PUBREC then PUBCOMP. *)
Theorem C16_qos2_survives_any_loss_pattern :
  forall cfg y subs s dup retain mid payload rs1 rs2 d,
    QuietS cfg y subs -> In s subs -> 1 <= mid < 65536 -> okb payload = true ->
    0 < retry_delay (e_gw cfg) ->
    N.of_nat (length rs1) <= retry_count (e_gw cfg) -> N.of_nat (length rs2) <= retry_count (e_gw cfg) ->
    N.of_nat (length rs1 + length rs2) < 99990 ->
    faults1 cfg rs1 rs2 (y_c2g_k y) (y_g2c_k y) ->
    N.of_nat (length rs1 + length rs2) * retry_delay (e_gw cfg) <= d ->
    let t := gw_now (y_gw y) in
    let m := MqPublish dup 2 retain (sub_topic s) mid payload in
    exists y1 y2 tr1 tr2,
      sys_step cfg y (SBpub m) = (y1, tr1) /\ sys_step cfg y1 (SAdv d) = (y2, tr2) /\
      tr1 ++ tr2 = SoBS t m :: trace1 retain (sub_topic s) mid payload [sub_id s] (retry_delay (e_gw cfg)) rs1 rs2 t dup /\
      QuietS cfg y2 subs /\ gw_now (y_gw y2) = t + d.
Proof. exact ComposeLoss3.C16_qos2_survives_any_loss_pattern. Qed.
Print Assumptions C16_qos2_survives_any_loss_pattern.

Theorem C16_qos2_loss_pattern_delivery :
  forall retain topic mid payload h rd rs2 rs1 T dp,
    cbs_full (trace1 retain topic mid payload [h] rd rs1 rs2 T dp) =
      [(h, topic, payload, 2, retain, match rs1 with [] => dp | _ => true end, mid)] /\
    brs_of (trace1 retain topic mid payload [h] rd rs1 rs2 T dp) = [MqPubrec mid; MqPubcomp mid] /\
    rets_of (trace1 retain topic mid payload [h] rd rs1 rs2 T dp) = [].
Proof. exact trace1_facts. Qed.
Print Assumptions C16_qos2_loss_pattern_delivery.

(* The REGISTER step under ANY loss pattern within the budget (System/ComposeLoss4.v): a broker QoS 1 message on a name
   without topic ID (RegReady), rs0 = the failed rounds of the REGISTER -> REGACK phase (true = REGISTER lost, false =
   REGACK lost; the client answers a repeated REGISTER for the name it accepted under that ID with REGACK accepted
   again), rs1 = the failed rounds of the PUBLISH -> PUBACK phase, at most RetryCount each (the retry counter restarts
   with the PUBLISH).  Exact trace traceR: every REGISTER with the same topic ID i and message ID, the PUBLISH under
   i at the instant of the accepted REGACK, retransmissions with DUP; afterwards client and gateway are quiescent and
   hold the SAME new registration (RegDone).  traceR_facts: the broker gets exactly one PUBACK; the handler of the
   first matching subscription runs once per PUBLISH that arrived, i.e. 1 + the number of lost PUBACKs - the
   at-least-once of QoS 1 (the property asks "delivered" for QoS 1 and "exactly once" for QoS 2 only). *)
Theorem C16_new_topic_qos1_survives_any_loss_pattern :
  forall cfg y dup retain topic mid payload rs0 rs1 d,
    Quiet cfg y -> RegReady cfg y topic -> 1 <= mid < 65536 -> okb payload = true ->
    0 < retry_delay (e_gw cfg) ->
    N.of_nat (length rs0) <= retry_count (e_gw cfg) -> N.of_nat (length rs1) <= retry_count (e_gw cfg) ->
    N.of_nat (length rs0 + length rs1) < 99990 ->
    faults1 cfg rs0 rs1 (y_c2g_k y) (y_g2c_k y) ->
    N.of_nat (length rs0 + length rs1) * retry_delay (e_gw cfg) <= d ->
    let t := gw_now (y_gw y) in
    let i := gw_seq_next (y_gw y) in
    let hs := handle_set (cl_handlers (y_cl y)) topic in
    let m := MqPublish dup 1 retain topic mid payload in
    exists y1 y2 tr1 tr2,
      sys_step cfg y (SBpub m) = (y1, tr1) /\ sys_step cfg y1 (SAdv d) = (y2, tr2) /\
      tr1 ++ tr2 = SoBS t m :: traceR retain topic mid i payload hs (retry_delay (e_gw cfg)) rs0 rs1 t dup /\
      Quiet cfg y2 /\ gw_now (y_gw y2) = t + d /\ RegDone y y2 topic i.
Proof. exact ComposeLoss4.C16_new_topic_qos1_survives_any_loss_pattern. Qed.
Print Assumptions C16_new_topic_qos1_survives_any_loss_pattern.

Theorem C16_new_topic_loss_pattern_delivery :
  forall retain topic mid i payload h hs' rd rs1 rs0 T dp,
    cbs_of (traceR retain topic mid i payload (h :: hs') rd rs0 rs1 T dp) = repeat (h, topic, payload) (S (count_false rs1)) /\
    brs_of (traceR retain topic mid i payload (h :: hs') rd rs0 rs1 T dp) = [MqPuback mid] /\
    rets_of (traceR retain topic mid i payload (h :: hs') rd rs0 rs1 T dp) = [].
Proof. exact traceR_facts. Qed.
Print Assumptions C16_new_topic_loss_pattern_delivery.

(* ... and a QoS 2 message on a name without topic ID: the REGISTER step under any pattern rs0 of at most RetryCount
   failed rounds, followed by the (here lossless: faultsq) QoS 2 flow under the registered ID - exact trace traceRq;
   the handler runs exactly once, the broker receives exactly PUBREC then PUBCOMP (traceRq_facts); same registration
   on both sides.  (Losses in the QoS 2 phases AFTER a REGISTER step are covered by the end-to-end runs, not proved:
   C16_qos2_survives_any_loss_pattern is about short topic names.) *)
Theorem C16_new_topic_qos2_survives_register_losses :
  forall cfg y dup retain topic mid payload rs0 d,
    Quiet cfg y -> RegReady cfg y topic -> 1 <= mid < 65536 -> okb payload = true ->
    0 < retry_delay (e_gw cfg) ->
    N.of_nat (length rs0) <= retry_count (e_gw cfg) -> N.of_nat (length rs0) < 99990 ->
    faultsq cfg rs0 (y_c2g_k y) (y_g2c_k y) ->
    N.of_nat (length rs0) * retry_delay (e_gw cfg) <= d ->
    let t := gw_now (y_gw y) in
    let i := gw_seq_next (y_gw y) in
    let hs := handle_set (cl_handlers (y_cl y)) topic in
    let m := MqPublish dup 2 retain topic mid payload in
    exists y1 y2 tr1 tr2,
      sys_step cfg y (SBpub m) = (y1, tr1) /\ sys_step cfg y1 (SAdv d) = (y2, tr2) /\
      tr1 ++ tr2 = SoBS t m :: traceRq retain topic mid i payload hs (retry_delay (e_gw cfg)) rs0 t dup /\
      Quiet cfg y2 /\ gw_now (y_gw y2) = t + d /\ RegDone y y2 topic i.
Proof. exact ComposeLoss5.C16_new_topic_qos2_survives_register_losses. Qed.
Print Assumptions C16_new_topic_qos2_survives_register_losses.

Theorem C16_new_topic_qos2_delivery :
  forall retain topic mid i payload h hs' rd rs0 T dp,
    cbs_full (traceRq retain topic mid i payload (h :: hs') rd rs0 T dp) = [(h, topic, payload, 2, retain, dp, mid)] /\
    brs_of (traceRq retain topic mid i payload (h :: hs') rd rs0 T dp) = [MqPubrec mid; MqPubcomp mid] /\
    rets_of (traceRq retain topic mid i payload (h :: hs') rd rs0 T dp) = [].
Proof. exact traceRq_facts. Qed.
Print Assumptions C16_new_topic_qos2_delivery.
