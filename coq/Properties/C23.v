(* C23 — Every MQTT-SN datagram sent is well-formed.
   Statement only; proofs in Gateway/Sound_C23C24.v, Sound_C23C24_hist.v, Client/Sound_Client.v. *)
From stdpp Require Import base option list numbers fin_maps nmap.
From Verif.Base Require Import Bytes.
From Verif.Codec Require Import Packets Decode Encode.
From Verif.Topics Require Import Predefined.
From Verif.Gateway Require Import GwTypes GwStep GwWf GwRun Sound_C23C24 Sound_C23C24_hist.
From Verif.Client Require Import ClTypes ClStep Sound_Client.
From Verif.Checkers Require Import ChkCodec ChkGw ChkCl.
Open Scope N_scope.

(* dgram_ok dir dg (Checkers/ChkGw.v): the datagram decodes (decoder model of C20-C22) as a packet
   whose type is valid in direction dir, its length field equals its size, and the size is at most
   8192.  chk_C23 / chk_C23c require it of every datagram a gateway / client step writes.

   Gateway: every step of every history, for arbitrary client input and broker payloads of any
   size (snSend's size check ends the session instead of writing an oversized datagram), under a
   sane configuration and a conforming broker (wf_cfg', wf_event': see C24). *)
Theorem C23_gateway_checker_sound :
  forall cfg s ev, wf_cfg' cfg -> reach' cfg s -> wf_event' ev ->
    chk_C23 (obs_of_outs (snd (gw_step cfg s ev))) = [].
Proof. exact chk_C23_sound_partial'. Qed.
Print Assumptions C23_gateway_checker_sound.

Theorem C23_gateway_all_histories :
  forall cfg evs, wf_cfg' cfg -> Forall wf_event' evs ->
    run_all cfg (fun s ev => chk_C23 (obs_of_outs (snd (gw_step cfg s ev))) = []) (init_state cfg) evs.
Proof. exact chk_C23_all_histories. Qed.
Print Assumptions C23_gateway_all_histories.

(* Client library: every step of every history of API calls (any arguments a Go caller can pass),
   gateway datagrams and timer expiries, for a configuration with a non-empty client ID and
   credentials that fit a datagram (wf_cl_cfg). *)
Theorem C23_client_checker_sound :
  forall cfg s ev, wf_cl_cfg cfg -> cl_reach cfg s -> wf_cl_event ev ->
    chk_C23c (snd (cl_step cfg s ev)) = [].
Proof. exact chk_C23c_sound. Qed.
Print Assumptions C23_client_checker_sound.

Theorem C23_client_all_histories :
  forall cfg evs, wf_cl_cfg cfg -> Forall wf_cl_event evs ->
    cl_run_all cfg (fun s ev => chk_C23c (snd (cl_step cfg s ev)) = []) cl_init evs.
Proof. exact chk_C23c_history. Qed.
Print Assumptions C23_client_all_histories.

(* Non-vacuity: the former defects - CONNECT with keep-alive 0 is answered with a decodable
   CONNACK 'not supported'; a broker payload that does not fit is not written. *)
Definition c23_cfg : gw_cfg :=
  {| auth_enabled := false; cfg_user := None; cfg_pass := None; retry_delay := 1000; retry_count := 2;
     predefined := []; min_tid := 1; max_tid := 65534 |}.
Example C23_nonvacuous :
  sns (obs_of_outs (snd (gw_step c23_cfg (init_state c23_cfg) (EvSn (pack (Connect false true 1 0 [99; 49])))))) = [[3; 5; 3]] /\
  let s := snd (gw_run c23_cfg (init_state c23_cfg) [EvSn (pack (Connect false true 1 60 [99; 49])); EvMq (MqConnack false 0)]) in
  map (fun dg => len dg) (sns (obs_of_outs (snd (gw_step c23_cfg s (EvMq (MqPublish false 0 false [97; 98] 0 (repeat 7 9000))))))) = [2].
Proof. vm_compute. split; reflexivity. Qed.
