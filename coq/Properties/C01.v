(* C01 — Client PUBLISH reaches the broker unchanged.
   Statement only; proofs in Gateway/Sound_C01C03.v. *)
From stdpp Require Import base option list numbers fin_maps nmap.
From Verif.Base Require Import Bytes.
From Verif.Codec Require Import Packets Decode Encode.
From Verif.Topics Require Import Predefined.
From Verif.Gateway Require Import GwTypes GwStep GwWf GwRun Sound_C01C03.
From Verif.Checkers Require Import ChkCodec ChkGw.
Open Scope N_scope.

(* [denotes cfg s tit tid] (Checkers/ChkGw.v) is the specification of what a client topic ID
   denotes in state s: registered in this session (type 0), predefined for this client (type 1),
   the decoded two-byte name (type 2), nothing (type 3).  It is written independently of the
   handlers.  [accepts_publish] says whether the session relays client traffic at all
   (connected, or the QoS -1 exception of a disconnected client without authentication).

   From ANY running session state - hence after every registration / subscription history -
   a decodable PUBLISH the session accepts, whose topic ID denotes a name that an MQTT PUBLISH
   may carry, makes the step write exactly one MQTT PUBLISH: same DUP, retain, payload of any
   length, QoS (-1 becomes 0), message ID, and that name. *)
Theorem C01_forward_exact :
  forall cfg s dg dup q r tit tid mid data topic,
    gw_ended s = false -> gw_ending s = None ->
    read_dgram dg = Ok (Publish dup q r tit tid mid data) ->
    accepts_publish cfg s q tit = true ->
    denotes cfg s tit tid = Some topic ->
    has_wildcard topic = false ->
    (((q =? 1) || (q =? 2)) && (mid =? 0)) = false ->
    List.filter is_mq_publish (mqs (obs_of_outs (snd (gw_step cfg s (EvSn dg))))) =
    [wire (MqPublish dup (if q =? 3 then 0 else q) r topic mid data)].
Proof. exact Sound_C01C03.C01_forward_exact. Qed.
Print Assumptions C01_forward_exact.

(* A PUBLISH whose topic ID denotes nothing is never forwarded, whatever the state. *)
Theorem C01_never_forward_unknown :
  forall cfg s dg dup q r tit tid mid data,
    read_dgram dg = Ok (Publish dup q r tit tid mid data) ->
    denotes cfg s tit tid = None ->
    List.filter is_mq_publish (mqs (obs_of_outs (snd (gw_step cfg s (EvSn dg))))) = [].
Proof. exact Sound_C01C03.C01_never_forward_unknown. Qed.
Print Assumptions C01_never_forward_unknown.

(* The executable statement (chk_C01: the two cases above, plus: a PUBLISH the session does not
   accept, or one that has no valid MQTT translation, produces no MQTT PUBLISH) accepts every
   step of the model from every state, and every step of every history.  The same function is
   extracted and applied to the implementation's observations. *)
Theorem C01_checker_sound :
  forall cfg s ev, chk_C01 cfg s ev (obs_of_outs (snd (gw_step cfg s ev))) = [].
Proof. exact chk_C01_sound_all. Qed.
Print Assumptions C01_checker_sound.

Theorem C01_all_histories :
  forall cfg evs,
    run_all cfg (fun s ev => chk_C01 cfg s ev (obs_of_outs (snd (gw_step cfg s ev))) = []) (init_state cfg) evs.
Proof. exact chk_C01_all_histories. Qed.
Print Assumptions C01_all_histories.

(* Non-vacuity: a connected session with a registered topic forwards a QoS 1 PUBLISH on it. *)
Definition c01_cfg : gw_cfg :=
  {| auth_enabled := false; cfg_user := None; cfg_pass := None; retry_delay := 1000; retry_count := 2;
     predefined := []; min_tid := 1; max_tid := 65534 |}.
Definition c01_state : gw_state :=
  snd (gw_run c01_cfg (init_state c01_cfg)
         [EvSn [9; 4; 4; 1; 0; 60; 99; 108; 49]; EvMq (MqConnack false 0);
          EvSn (pack (Register 0 7 [97; 47; 98]))]).
Example C01_nonvacuous :
  denotes c01_cfg c01_state 0 1 = Some [97; 47; 98] /\
  accepts_publish c01_cfg c01_state 1 0 = true /\
  mqs (obs_of_outs (snd (gw_step c01_cfg c01_state (EvSn (pack (Publish false 1 true 0 1 9 [1; 2; 3])))))) =
  [MqPublish false 1 true [97; 47; 98] 9 [1; 2; 3]].
Proof. vm_compute. repeat split. Qed.
