(* Util/IdSeqProofs.v — properties of the IDSequence and TransactionStore models. *)
From stdpp Require Import base option list numbers fin_maps nmap.
From Coq Require Import Lia ZArith ZifyN ZifyNat ZifyBool.
From Verif.Base Require Import Bytes.
From Verif.Util Require Import IdSeq.
Open Scope N_scope.

Ltac Zify.zify_post_hook ::= Z.div_mod_to_equations.

(* ---------- arithmetic helpers ---------- *)

Lemma succ_mod (j n : N) : 0 < n ->
  (j + 1) mod n = if j mod n =? n - 1 then 0 else j mod n + 1.
Proof.
  intros Hn.
  pose proof (N.div_mod' j n) as Hdm.
  pose proof (N.mod_lt j n ltac:(lia)) as Hlt.
  set (q := j / n) in *. set (r := j mod n) in *.
  destruct (N.eqb_spec r (n - 1)) as [He|Hne].
  - symmetry. apply (N.mod_unique (j + 1) n (q + 1) 0); [lia|].
    rewrite N.mul_add_distr_l. lia.
  - symmetry. apply (N.mod_unique (j + 1) n q (r + 1)); lia.
Qed.

Lemma mod_eq_close (a b n : N) : 0 < n -> a < b -> b - a < n -> a mod n <> b mod n.
Proof.
  intros Hn Hab Hd He.
  pose proof (N.div_mod' a n) as Ha. pose proof (N.div_mod' b n) as Hb.
  rewrite <- He in Hb.
  set (qa := a / n) in *. set (qb := b / n) in *. set (r := a mod n) in *.
  assert (Hq : qa < qb \/ qb <= qa) by lia.
  destruct Hq as [Hq|Hq].
  - assert (n * (qa + 1) <= n * qb) by (apply N.mul_le_mono_l; lia).
    rewrite N.mul_add_distr_l in *. lia.
  - assert (n * qb <= n * qa) by (apply N.mul_le_mono_l; lia). lia.
Qed.

(* ---------- the sequence ---------- *)

(* state after j calls, and the result of the j-th call *)
Definition q_st (min max j : N) : idseq :=
  {| q_next := min + j mod (max - min + 1); q_min := min; q_max := max;
     q_ov := (0 <? j) && (j mod (max - min + 1) =? 0) |}.
Definition q_out (min max j : N) : N * bool :=
  (min + j mod (max - min + 1), (0 <? j) && (j mod (max - min + 1) =? 0)).

Lemma q_new_st (min max : N) : q_new min max = q_st min max 0.
Proof.
  unfold q_new, q_st. rewrite N.mod_0_l by lia. rewrite N.add_0_r. reflexivity.
Qed.

Lemma q_step_st (min max j : N) : min <= max -> max < 65536 ->
  q_step (q_st min max j) = (q_out min max j, q_st min max (j + 1)).
Proof.
  intros Hmm Hmax.
  assert (Hn : 0 < max - min + 1) by lia.
  pose proof (succ_mod j _ Hn) as Hs.
  pose proof (N.mod_lt j (max - min + 1) ltac:(lia)) as Hlt.
  unfold q_step, q_st, q_out. cbn [q_next q_min q_max q_ov].
  rewrite Hs. clear Hs.
  set (r := j mod (max - min + 1)) in *.
  f_equal.
  destruct (N.eqb_spec (min + r) max) as [He|Hne].
  - destruct (N.eqb_spec r (max - min + 1 - 1)) as [_|Hc]; [|lia].
    f_equal; [lia|].
    replace (0 <? j + 1) with true by lia. reflexivity.
  - destruct (N.eqb_spec r (max - min + 1 - 1)) as [Hc|_]; [lia|].
    f_equal.
    + unfold u16. rewrite N.mod_small by lia. lia.
    + replace (r + 1 =? 0) with false by lia. rewrite andb_false_r. reflexivity.
Qed.

Lemma q_run_nth_gen (min max : N) : min <= max -> max < 65536 ->
  forall (k i : nat) (j0 : N), (i < k)%nat ->
  nth_error (fst (q_run k (q_st min max j0))) i = Some (q_out min max (j0 + N.of_nat i)).
Proof.
  intros Hmm Hmax. induction k as [|k IH]; intros i j0 Hi; [lia|].
  cbn [q_run]. rewrite q_step_st by assumption.
  destruct (q_run k (q_st min max (j0 + 1))) as [rs c''] eqn:Hr.
  cbn [fst]. destruct i as [|i].
  - cbn [nth_error]. rewrite N.add_0_r. reflexivity.
  - cbn [nth_error]. specialize (IH i (j0 + 1) ltac:(lia)).
    rewrite Hr in IH. cbn [fst] in IH. rewrite IH. do 2 f_equal. lia.
Qed.

(* the j-th call (0-based) of Next() on a fresh sequence over [min,max] *)
Theorem q_run_nth : forall (min max : N) (k j : nat),
  min <= max -> max < 65536 -> (j < k)%nat ->
  nth_error (fst (q_run k (q_new min max))) j =
    Some (min + (N.of_nat j) mod (max - min + 1),
          (0 <? N.of_nat j) && ((N.of_nat j) mod (max - min + 1) =? 0)).
Proof.
  intros min max k j Hmm Hmax Hj.
  rewrite q_new_st, (q_run_nth_gen min max Hmm Hmax k j 0 Hj).
  rewrite N.add_0_l. reflexivity.
Qed.

(* no two calls within one cycle return the same ID *)
Theorem q_run_distinct_in_cycle : forall (min max : N) (k j1 j2 : nat) r1 r2,
  min <= max -> max < 65536 -> (j1 < j2)%nat -> (j2 < k)%nat -> (N.of_nat j2 - N.of_nat j1 < max - min + 1) ->
  nth_error (fst (q_run k (q_new min max))) j1 = Some r1 ->
  nth_error (fst (q_run k (q_new min max))) j2 = Some r2 -> fst r1 <> fst r2.
Proof.
  intros min max k j1 j2 r1 r2 Hmm Hmax H12 H2k Hd Hn1 Hn2.
  rewrite q_run_nth in Hn1 by (assumption || lia).
  rewrite q_run_nth in Hn2 by (assumption || lia).
  injection Hn1 as <-. injection Hn2 as <-. cbn [fst].
  pose proof (mod_eq_close (N.of_nat j1) (N.of_nat j2) (max - min + 1)
                ltac:(lia) ltac:(lia) Hd) as Hne.
  intros He. apply Hne. apply (N.add_cancel_l _ _ min). exact He.
Qed.

Lemma q_sched_gen : forall (sched : list N) (acc : list (N * (N * bool)) * idseq),
  let r := fold_left (fun acc th => match q_step (snd acc) with (r, c') => (fst acc ++ [(th, r)], c') end) sched acc in
  map snd (fst r) = map snd (fst acc) ++ fst (q_run (length sched) (snd acc)) /\
  snd r = snd (q_run (length sched) (snd acc)).
Proof.
  induction sched as [|th sched IH]; intros acc.
  - cbn. rewrite app_nil_r. split; reflexivity.
  - cbn [fold_left length q_run].
    destruct acc as [l c]. cbn [fst snd].
    destruct (q_step c) as [r c'] eqn:Hs.
    specialize (IH (l ++ [(th, r)], c')). cbn zeta in IH. cbn [fst snd] in IH.
    destruct IH as [IH1 IH2]. cbn zeta.
    destruct (q_run (length sched) c') as [rs c''] eqn:Hr. cbn [fst snd] in *.
    split; [|exact IH2].
    rewrite IH1, map_app. cbn [map snd]. rewrite <- app_assoc. reflexivity.
Qed.

(* any schedule of atomic Next() calls by any threads is the sequential history *)
Theorem q_sched_sequential : forall (c : idseq) (sched : list N),
  map snd (fst (q_run_sched c sched)) = fst (q_run (length sched) c) /\
  snd (q_run_sched c sched) = snd (q_run (length sched) c).
Proof.
  intros c sched. unfold q_run_sched.
  pose proof (q_sched_gen sched ([], c)) as H. cbn zeta in H. cbn [fst snd map app] in H.
  exact H.
Qed.

(* ---------- the store is two independent atomic maps ---------- *)

Theorem st_get_after_store : forall s id tag, fst (st_step (snd (st_step s (OpStore id tag))) (OpGet id)) = Some tag.
Proof. intros. cbn. apply lookup_insert. Qed.

Theorem st_get_other_key : forall s id id' tag, id <> id' ->
  fst (st_step (snd (st_step s (OpStore id tag))) (OpGet id')) = fst (st_step s (OpGet id')).
Proof. intros s id id' tag Hne. cbn. apply lookup_insert_ne. exact Hne. Qed.

Theorem st_get_after_delete : forall s id, fst (st_step (snd (st_step s (OpDelete id))) (OpGet id)) = None.
Proof. intros. cbn. apply lookup_delete. Qed.

Theorem st_delete_other_key : forall s id id', id <> id' ->
  fst (st_step (snd (st_step s (OpDelete id))) (OpGet id')) = fst (st_step s (OpGet id')).
Proof. intros s id id' Hne. cbn. apply lookup_delete_ne. exact Hne. Qed.

Theorem st_bytype_laws : forall s ty ty' tag,
  fst (st_step (snd (st_step s (OpStoreByType ty tag))) (OpGetByType ty)) = Some tag /\
  fst (st_step (snd (st_step s (OpDeleteByType ty))) (OpGetByType ty)) = None /\
  (ty <> ty' -> fst (st_step (snd (st_step s (OpStoreByType ty tag))) (OpGetByType ty')) = fst (st_step s (OpGetByType ty'))) /\
  (ty <> ty' -> fst (st_step (snd (st_step s (OpDeleteByType ty))) (OpGetByType ty')) = fst (st_step s (OpGetByType ty'))).
Proof.
  intros s ty ty' tag. cbn. repeat split.
  - apply lookup_insert.
  - apply lookup_delete.
  - intros Hne. apply lookup_insert_ne. exact Hne.
  - intros Hne. apply lookup_delete_ne. exact Hne.
Qed.

(* DeleteIf removes the entry exactly when it holds the given transaction, and touches nothing else *)
Theorem st_delete_if_laws : forall s id id' tag,
  (by_id s !! id = Some tag -> fst (st_step (snd (st_step s (OpDeleteIf id tag))) (OpGet id)) = None) /\
  (by_id s !! id <> Some tag -> snd (st_step s (OpDeleteIf id tag)) = s) /\
  (id <> id' -> fst (st_step (snd (st_step s (OpDeleteIf id tag))) (OpGet id')) = fst (st_step s (OpGet id'))).
Proof.
  intros s id id' tag. cbn. repeat split.
  - intros H. rewrite H, N.eqb_refl. cbn. apply lookup_delete.
  - intros H. destruct (by_id s !! id) as [t|] eqn:E; [|reflexivity].
    destruct (N.eqb_spec t tag) as [->|Hne]; [congruence|reflexivity].
  - intros Hne. destruct (by_id s !! id) as [t|]; [|reflexivity].
    destruct (t =? tag); [|reflexivity]. cbn. apply lookup_delete_ne. exact Hne.
Qed.

(* the two key spaces do not interact *)
Theorem st_spaces_independent : forall s o,
  (match o with OpStore _ _ | OpGet _ | OpDelete _ | OpDeleteIf _ _ => by_type (snd (st_step s o)) = by_type s
              | _ => by_id (snd (st_step s o)) = by_id s end).
Proof.
  intros s o. destruct o; try reflexivity.
  cbn. destruct (by_id s !! id) as [t|]; [destruct (t =? tag)|]; reflexivity.
Qed.

Print Assumptions q_run_nth.
Print Assumptions q_run_distinct_in_cycle.
Print Assumptions q_sched_sequential.
Print Assumptions st_get_after_store.
Print Assumptions st_get_other_key.
Print Assumptions st_get_after_delete.
Print Assumptions st_delete_if_laws.
Print Assumptions st_delete_other_key.
Print Assumptions st_bytype_laws.
Print Assumptions st_spaces_independent.
