(* Util/IdSeq.v — util.IDSequence (util/id_sequence.go) and transactions.TransactionStore
   (transactions/transaction_store.go) as sequential objects.  Every method body of the Go
   types runs entirely inside Lock()/defer Unlock() (checked by the lock-skeleton
   extractor on every run), so one method call is one atomic step. *)
From stdpp Require Import base option list numbers fin_maps nmap.
From Verif.Base Require Import Bytes.
Open Scope N_scope.

Record idseq := { q_next : N; q_min : N; q_max : N; q_ov : bool }.

(* NewIDSequence *)
Definition q_new (min max : N) : idseq := {| q_next := min; q_min := min; q_max := max; q_ov := false |}.

(* IDSequence.Next: (id, overflow) and the new state; next++ is uint16 arithmetic *)
Definition q_step (c : idseq) : (N * bool) * idseq :=
  let id := q_next c in
  ((id, q_ov c),
   if id =? q_max c
   then {| q_next := q_min c; q_min := q_min c; q_max := q_max c; q_ov := true |}
   else {| q_next := u16 (id + 1); q_min := q_min c; q_max := q_max c; q_ov := false |}).

Fixpoint q_run (k : nat) (c : idseq) : list (N * bool) * idseq :=
  match k with
  | O => ([], c)
  | S k' => match q_step c with (r, c') => match q_run k' c' with (rs, c'') => (r :: rs, c'') end end
  end.

(* ---- TransactionStore: two independent maps; values are opaque tags *)
Record store := { by_id : Nmap N; by_type : Nmap N }.
Definition st_new : store := {| by_id := ∅; by_type := ∅ |}.

Inductive st_op :=
| OpStore (id tag : N) | OpGet (id : N) | OpDelete (id : N) | OpDeleteIf (id tag : N)
| OpStoreByType (ty tag : N) | OpGetByType (ty : N) | OpDeleteByType (ty : N).

Definition st_step (s : store) (o : st_op) : option N * store :=
  match o with
  | OpStore id tag => (None, {| by_id := <[id := tag]> (by_id s); by_type := by_type s |})
  | OpGet id => (by_id s !! id, s)
  | OpDelete id => (None, {| by_id := delete id (by_id s); by_type := by_type s |})
  | OpDeleteIf id tag =>      (* DeleteIf: only when the slot holds this very transaction *)
    (None, match by_id s !! id with
           | Some t => if t =? tag then {| by_id := delete id (by_id s); by_type := by_type s |} else s
           | None => s end)
  | OpStoreByType ty tag => (None, {| by_id := by_id s; by_type := <[ty := tag]> (by_type s) |})
  | OpGetByType ty => (by_type s !! ty, s)
  | OpDeleteByType ty => (None, {| by_id := by_id s; by_type := delete ty (by_type s) |})
  end.

Fixpoint st_run (s : store) (ops : list st_op) : list (option N) * store :=
  match ops with
  | [] => ([], s)
  | o :: ops' => match st_step s o with (r, s') => match st_run s' ops' with (rs, s'') => (r :: rs, s'') end end
  end.

(* ---- concurrent use: any schedule of atomic method calls is a sequential history *)
(* a schedule assigns each executed call to a thread; the object only sees the sequence *)
Definition q_run_sched (c : idseq) (sched : list N) : list (N * (N * bool)) * idseq :=
  fold_left (fun acc th => match q_step (snd acc) with (r, c') => (fst acc ++ [(th, r)], c') end) sched ([], c).
