(* Extract/Extract.v — extraction of the executable model and the checkers to OCaml.
   ExtrOcamlBasic only: bool/option/unit/list/prod/sumbool/sumor/comparison map to the
   OCaml types; N, positive, Z, nat stay the extracted inductives.  No Extract Constant
   of our own.  Run from /verif/ocaml/gen (coqc writes the .ml/.mli into the cwd). *)
From Coq Require Import ExtrOcamlBasic.
From stdpp Require Import base option list numbers fin_maps nmap.
From Verif.Base Require Import Bytes.
From Verif.Topics Require Import Predefined.
From Verif.Codec Require Import Packets Decode Encode RefParse.
From Verif.Checkers Require Import ChkCodec ChkGw ChkGw2 ChkGw3 ChkGw4 ChkGw5 ChkGw6 ChkGw7 ChkCl ChkCl2 ChkCl3 ChkCl4 ChkCl5 ChkE2E.
From Verif.Gateway Require Import GwTypes GwStep Sound_C07C08C09 Sound_Timed.
From Verif.Match Require Import Match.
From Verif.Util Require Import IdSeq.
From Verif.Txn Require Import Txn.
From Verif.Cli Require Import Options.
From Verif.Client Require Import ClTypes ClStep ClKeepalive Sound_Client Sound_ClTimed Sound_KaGap.
From Verif.System Require Import Compose.

Definition nmap_empty : topic_map := ∅.
Definition nmap_insert (i : N) (n : bytes) (m : topic_map) : topic_map := <[i := n]> m.
Definition nmap_to_list {A} (m : Nmap A) : list (N * A) := map_to_list m.
Definition nmap_lookup (i : N) (m : topic_map) : option bytes := m !! i.

Extraction "model.ml"
  beq nmap_empty nmap_insert nmap_lookup nmap_to_list get_name get_ids get_id pd_add pd_merge
  read_packet read_dgram pack ref_parse ref_split wf_pkt pkt_eqb chk_C21 chk_C22 chk_short
  encode_short decode_short is_short_topic
  init_state gw_step gw_run chk_C14 chk_C01 chk_C23 chk_C24 obs_of_outs mqtt_valid
  chk_C03 chk_C04 chk_C07 chk_C08 chk_C09 chk_C11 chk_C02 mon_init mon_step c08_excluded c09_excluded
  cl_init cl_step cl_run handle_set match_route split join valid_filter
  q_new q_step q_run st_new st_step st_run txn_new txn_step txn_run
  parse_options tool_cfg gateway_starts client_tool_starts parse_line
  chk_C23c chk_C27 chk_C17 chk_C31c cmon_init cmon_step
  sys_init sys_step sys_run broker_init cl_next_deadline gw_next_deadline
  emon_init emon_step mon6_init mon6_step mon6r_init mon6r_step mon7_init mon7_step chk_C06c c34_excluded clock_ok adv_ok cl_fresh chk_C16 ka_init ka_step ka_run ko_cl kmon_init kmon_step kmon_run chk_C27b ka_user_ok ka_clock_ok.
