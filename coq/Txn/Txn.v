(* Txn/Txn.v — transactions.RetryTransaction / TimedTransaction on top of TransactionBase
   (transactions/*.go) as a timed state machine.  One event = one atomic region of the Go
   code: Success, Fail, Proceed, timeout() and the context watcher's stopTimer each run
   entirely under retryNumMutex (RetryTransaction) and finish()/Fail under the base mutex.
   EvFire models the body of the timer callback running at an arbitrary moment: a timer
   whose goroutine has already been started cannot be stopped, so timeout() may run after
   Success()/Fail()/Proceed() replaced or stopped the timer. *)
From Coq Require Import List NArith Bool Lia.
From Verif.Base Require Import Bytes.
Import ListNotations.
Open Scope N_scope.

Inductive terr := TeNil | TeTimeout | TeNoRetries | TeCb | TeTag (x : N).

Record txn_state := {
  t_retry : bool;            (* RetryTransaction (true) or TimedTransaction (false) *)
  t_delay : N;               (* retryDelay / timeout, ms *)
  t_count : N;               (* retryCount *)
  t_retry_num : N;
  t_timer : option N;        (* deadline of the armed timer *)
  t_data : N;
  t_done : bool;
  t_err : terr;
  t_finally : N;             (* how many times the finally callback ran *)
  t_callbacks : N;           (* how many times the retry callback ran *)
  t_cbfail : bool;           (* the retry callback returns an error *)
  t_watching : bool;         (* the context watcher goroutine is still alive *)
  t_now : N }.

Inductive txn_event :=
| EvProceed (n : N) | EvSuccess | EvFail (tag : N) | EvCbFail (b : bool) | EvCancel
| EvAdv (d : N)
| EvFire.                    (* stale or early run of the timer callback body *)

Inductive txn_out := OCallback (t data : N) | OFinally (t : N) | ODone (t : N).

Definition set_timer (s : txn_state) (tm : option N) : txn_state :=
  {| t_retry := t_retry s; t_delay := t_delay s; t_count := t_count s; t_retry_num := t_retry_num s;
     t_timer := tm; t_data := t_data s; t_done := t_done s; t_err := t_err s; t_finally := t_finally s;
     t_callbacks := t_callbacks s; t_cbfail := t_cbfail s; t_watching := t_watching s; t_now := t_now s |}.

(* NewRetryTransaction / NewTimedTransaction at time 0 *)
Definition txn_new (retry : bool) (delay count : N) : txn_state :=
  {| t_retry := retry; t_delay := delay; t_count := count; t_retry_num := 0;
     t_timer := if retry then None else Some delay; t_data := 0; t_done := false; t_err := TeNil;
     t_finally := 0; t_callbacks := 0; t_cbfail := false; t_watching := true; t_now := 0 |}.

(* TransactionBase.finish with err (first completion wins) + stopTimer *)
Definition finish (s : txn_state) (e : terr) : txn_state * list txn_out :=
  if t_done s then (set_timer s None, [])
  else ({| t_retry := t_retry s; t_delay := t_delay s; t_count := t_count s; t_retry_num := t_retry_num s;
           t_timer := None; t_data := t_data s; t_done := true; t_err := e; t_finally := t_finally s + 1;
           t_callbacks := t_callbacks s; t_cbfail := t_cbfail s; t_watching := false; t_now := t_now s |},
        [OFinally (t_now s); ODone (t_now s)]).

(* body of RetryTransaction.timeout / of the TimedTransaction timer function *)
Definition timer_body (s : txn_state) : txn_state * list txn_out :=
  if t_done s then (s, []) else
  if t_retry s then
    let n := t_retry_num s + 1 in
    let s1 := {| t_retry := true; t_delay := t_delay s; t_count := t_count s; t_retry_num := n;
                 t_timer := t_timer s; t_data := t_data s; t_done := false; t_err := t_err s;
                 t_finally := t_finally s; t_callbacks := t_callbacks s; t_cbfail := t_cbfail s;
                 t_watching := t_watching s; t_now := t_now s |} in
    if t_count s <? n then finish s1 TeNoRetries
    else
      let s2 := {| t_retry := true; t_delay := t_delay s; t_count := t_count s; t_retry_num := n;
                   t_timer := t_timer s; t_data := t_data s; t_done := false; t_err := t_err s;
                   t_finally := t_finally s; t_callbacks := t_callbacks s + 1; t_cbfail := t_cbfail s;
                   t_watching := t_watching s; t_now := t_now s |} in
      if t_cbfail s then
        match finish s2 TeCb with (s3, o) => (s3, OCallback (t_now s) (t_data s) :: o) end
      else (set_timer s2 (Some (t_now s + t_delay s)), [OCallback (t_now s) (t_data s)])
  else finish s TeTimeout.

Definition set_now (s : txn_state) (t : N) : txn_state :=
  {| t_retry := t_retry s; t_delay := t_delay s; t_count := t_count s; t_retry_num := t_retry_num s;
     t_timer := t_timer s; t_data := t_data s; t_done := t_done s; t_err := t_err s; t_finally := t_finally s;
     t_callbacks := t_callbacks s; t_cbfail := t_cbfail s; t_watching := t_watching s; t_now := t |}.

(* let time pass until t, firing the armed timer each time it becomes due *)
Fixpoint advance (fuel : nat) (s : txn_state) (t : N) : txn_state * list txn_out :=
  match fuel with
  | O => (set_now s t, [])
  | S fuel' =>
    match t_timer s with
    | Some d =>
      if d <=? t then
        match timer_body (set_timer (set_now s d) None) with
        | (s1, o1) => match advance fuel' s1 t with (s2, o2) => (s2, o1 ++ o2) end
        end
      else (set_now s t, [])
    | None => (set_now s t, [])
    end
  end.

Definition txn_step (s : txn_state) (ev : txn_event) : txn_state * list txn_out :=
  match ev with
  | EvProceed n =>
    if negb (t_retry s) || t_done s then (s, []) else
    ({| t_retry := true; t_delay := t_delay s; t_count := t_count s; t_retry_num := 0;
        t_timer := Some (t_now s + t_delay s); t_data := n; t_done := false; t_err := t_err s;
        t_finally := t_finally s; t_callbacks := t_callbacks s; t_cbfail := t_cbfail s;
        t_watching := t_watching s; t_now := t_now s |}, [])
  | EvSuccess => finish s TeNil
  | EvFail tag => finish s (TeTag tag)
  | EvCbFail b =>
    ({| t_retry := t_retry s; t_delay := t_delay s; t_count := t_count s; t_retry_num := t_retry_num s;
        t_timer := t_timer s; t_data := t_data s; t_done := t_done s; t_err := t_err s;
        t_finally := t_finally s; t_callbacks := t_callbacks s; t_cbfail := b;
        t_watching := t_watching s; t_now := t_now s |}, [])
  | EvCancel =>
    (* the watcher stops the timer once and exits; it is gone once the transaction is done *)
    if t_watching s then
      ({| t_retry := t_retry s; t_delay := t_delay s; t_count := t_count s; t_retry_num := t_retry_num s;
          t_timer := None; t_data := t_data s; t_done := t_done s; t_err := t_err s;
          t_finally := t_finally s; t_callbacks := t_callbacks s; t_cbfail := t_cbfail s;
          t_watching := false; t_now := t_now s |}, [])
    else (s, [])
  | EvAdv d => advance (S (S (N.to_nat (t_count s)))) s (t_now s + d)
  | EvFire => timer_body s
  end.

Fixpoint txn_run (s : txn_state) (evs : list txn_event) : list (list txn_out) * txn_state :=
  match evs with
  | [] => ([], s)
  | ev :: evs' =>
    match txn_step s ev with
    | (s', o) => match txn_run s' evs' with (os, s'') => (o :: os, s'') end
    end
  end.
