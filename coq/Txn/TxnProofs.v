(* Txn/TxnProofs.v — C18 (finally at most once, done is final) and C19 (exact budgets)
   for the transaction model of Txn/Txn.v. *)
From Coq Require Import List NArith Bool Lia ZArith ZifyN ZifyNat ZifyBool.
From Verif.Base Require Import Bytes.
From Verif.Txn Require Import Txn.
Import ListNotations.
Open Scope N_scope.

Ltac Zify.zify_post_hook ::= Z.div_mod_to_equations.

Definition outs_flat (os : list (list txn_out)) : list txn_out := concat os.
Definition is_finally (o : txn_out) := match o with OFinally _ => true | _ => false end.
Definition is_done (o : txn_out) := match o with ODone _ => true | _ => false end.
Definition is_callback (o : txn_out) := match o with OCallback _ _ => true | _ => false end.

Fixpoint callbacks_at (t0 delay data : N) (k : nat) (from : N) : list txn_out :=
  match k with O => [] | S k' => OCallback (t0 + from * delay) data :: callbacks_at t0 delay data k' (from + 1) end.

(* ---------- sanity checks of the statements on concrete values ---------- *)
Example chk_budget :
  txn_step (fst (txn_step (txn_new true 1000 2) (EvProceed 7))) (EvAdv 3000) =
  (fst (txn_step (fst (txn_step (txn_new true 1000 2) (EvProceed 7))) (EvAdv 3000)),
   callbacks_at 0 1000 7 2 1 ++ [OFinally 3000; ODone 3000]).
Proof. vm_compute. reflexivity. Qed.
Example chk_quiet :
  snd (txn_step (fst (txn_step (txn_new true 1000 2) (EvProceed 7))) (EvAdv 999)) = [].
Proof. vm_compute. reflexivity. Qed.
Example chk_additive :
  let s := fst (txn_step (txn_new true 1000 2) (EvProceed 7)) in
  let '(s1, o1) := txn_step s (EvAdv 1500) in
  let '(s2, o2) := txn_step s1 (EvAdv 2500) in
  let '(s3, o3) := txn_step s (EvAdv 4000) in o1 ++ o2 = o3 /\ s2 = s3.
Proof. vm_compute. split; reflexivity. Qed.
Example chk_timed :
  snd (txn_step (txn_new false 500 0) (EvAdv 500)) = [OFinally 500; ODone 500] /\
  snd (txn_step (txn_new false 500 0) (EvAdv 499)) = [].
Proof. vm_compute. split; reflexivity. Qed.

(* ====================================================================== *)
(* C18                                                                     *)
(* ====================================================================== *)

Definition Inv (s : txn_state) : Prop :=
  (t_done s = false /\ t_finally s = 0 /\ t_err s = TeNil) \/ (t_done s = true /\ t_finally s = 1).

Definition cnt (f : txn_out -> bool) (o : list txn_out) : N := N.of_nat (length (filter f o)).

Lemma cnt_app f a b : cnt f (a ++ b) = cnt f a + cnt f b.
Proof. unfold cnt. rewrite filter_app, app_length. lia. Qed.

Definition StepOK (s s' : txn_state) (o : list txn_out) : Prop :=
  Inv s' /\ cnt is_finally o + t_finally s = t_finally s' /\ cnt is_done o + t_finally s = t_finally s'.

Lemma StepOK_trans s s1 s2 o1 o2 :
  StepOK s s1 o1 -> (Inv s1 -> StepOK s1 s2 o2) -> StepOK s s2 (o1 ++ o2).
Proof.
  intros (Hi1 & Hf1 & Hd1) H2. destruct (H2 Hi1) as (Hi2 & Hf2 & Hd2).
  unfold StepOK. rewrite !cnt_app. repeat split; [assumption|lia|lia].
Qed.

Ltac inv_solve :=
  unfold StepOK, Inv, cnt in *; cbn -[N.add N.ltb N.leb] in *;
  intuition (try discriminate; try congruence; try lia).

Lemma finish_ok s e : Inv s -> StepOK s (fst (finish s e)) (snd (finish s e)).
Proof.
  intros HI. unfold finish. destruct s as [re de co rn ti da dn er fi cb cf wa no].
  cbn [t_done]. destruct dn; inv_solve.
Qed.

Lemma timer_body_ok s : Inv s -> StepOK s (fst (timer_body s)) (snd (timer_body s)).
Proof.
  intros HI. unfold timer_body, finish. destruct s as [re de co rn ti da dn er fi cb cf wa no].
  cbn [t_done t_retry t_count t_retry_num t_cbfail].
  destruct dn; [inv_solve|]. destruct re; [|inv_solve].
  destruct (co <? rn + 1); [inv_solve|]. destruct cf; inv_solve.
Qed.

Lemma advance_ok : forall fuel s t, Inv s -> StepOK s (fst (advance fuel s t)) (snd (advance fuel s t)).
Proof.
  induction fuel as [|fuel IH]; intros s t HI.
  - cbn [advance fst snd]. inv_solve.
  - cbn [advance]. destruct (t_timer s) as [d|]; [|cbn [fst snd]; inv_solve].
    destruct (d <=? t); [|cbn [fst snd]; inv_solve].
    pose proof (timer_body_ok (set_timer (set_now s d) None) HI) as H1.
    destruct (timer_body (set_timer (set_now s d) None)) as [s1 o1].
    pose proof (IH s1 t) as H2.
    destruct (advance fuel s1 t) as [s2 o2]. cbn [fst snd] in *.
    exact (StepOK_trans s s1 s2 o1 o2 H1 H2).
Qed.

Lemma step_ok s ev : Inv s -> StepOK s (fst (txn_step s ev)) (snd (txn_step s ev)).
Proof.
  intros HI. destruct ev as [n| |tag|b| |d|]; cbn [txn_step].
  - destruct (t_retry s); destruct (t_done s) eqn:Hdn; cbn [negb orb]; inv_solve.
  - apply finish_ok; assumption.
  - apply finish_ok; assumption.
  - inv_solve.
  - destruct (t_watching s); inv_solve.
  - apply advance_ok; assumption.
  - apply timer_body_ok; assumption.
Qed.

Lemma run_ok : forall evs s, Inv s ->
  Inv (snd (txn_run s evs)) /\
  cnt is_finally (outs_flat (fst (txn_run s evs))) + t_finally s = t_finally (snd (txn_run s evs)) /\
  cnt is_done (outs_flat (fst (txn_run s evs))) + t_finally s = t_finally (snd (txn_run s evs)).
Proof.
  induction evs as [|ev evs IH]; intros s HI.
  - cbn. repeat split; assumption.
  - cbn [txn_run]. pose proof (step_ok s ev HI) as (Hi1 & Hf1 & Hd1).
    destruct (txn_step s ev) as [s' o]. cbn [fst snd] in *.
    specialize (IH s' Hi1). destruct (txn_run s' evs) as [os s'']. cbn [fst snd] in *.
    destruct IH as (Hi2 & Hf2 & Hd2).
    unfold outs_flat in *. cbn [concat]. rewrite !cnt_app.
    repeat split; [assumption|lia|lia].
Qed.

Lemma Inv_new retry delay count : Inv (txn_new retry delay count).
Proof. left. cbn. repeat split. Qed.

Theorem finally_at_most_once : forall retry delay count evs,
  (length (filter is_finally (outs_flat (fst (txn_run (txn_new retry delay count) evs)))) <= 1)%nat /\
  (length (filter is_done (outs_flat (fst (txn_run (txn_new retry delay count) evs)))) <= 1)%nat /\
  t_finally (snd (txn_run (txn_new retry delay count) evs)) <= 1.
Proof.
  intros retry delay count evs.
  pose proof (run_ok evs _ (Inv_new retry delay count)) as (Hi & Hf & Hd).
  unfold cnt in *.
  assert (Hle : t_finally (snd (txn_run (txn_new retry delay count) evs)) <= 1).
  { destruct Hi as [(_ & H0 & _)|(_ & H1)]; lia. }
  cbn [txn_new t_finally] in Hf, Hd. repeat split; lia.
Qed.

Lemma advance_done : forall fuel s t, t_done s = true ->
  t_done (fst (advance fuel s t)) = true /\ t_err (fst (advance fuel s t)) = t_err s /\
  t_finally (fst (advance fuel s t)) = t_finally s /\ t_callbacks (fst (advance fuel s t)) = t_callbacks s /\
  snd (advance fuel s t) = [] /\ (t_timer s = None -> t_timer (fst (advance fuel s t)) = None).
Proof.
  induction fuel as [|fuel IH]; intros s t Hd.
  - cbn. repeat split; auto.
  - cbn [advance]. destruct (t_timer s) as [d|] eqn:Ht; [|cbn; repeat split; auto].
    destruct (d <=? t); [|cbn; repeat split; auto; try discriminate].
    unfold timer_body. cbn [t_done set_timer set_now]. rewrite Hd.
    specialize (IH (set_timer (set_now s d) None) t Hd).
    destruct (advance fuel (set_timer (set_now s d) None) t) as [s2 o2].
    cbn [fst snd t_err t_finally t_callbacks set_timer set_now] in *.
    destruct IH as (H1 & H2 & H3 & H4 & H5 & H6).
    repeat split; auto; try discriminate.
Qed.

(* once done, the state is frozen *)
Theorem done_is_final : forall s ev, t_done s = true ->
  let '(s', o) := txn_step s ev in
  t_done s' = true /\ t_err s' = t_err s /\ t_finally s' = t_finally s /\ t_callbacks s' = t_callbacks s /\
  filter is_callback o = [] /\ filter is_finally o = [] /\ filter is_done o = [] /\
  (t_timer s = None -> t_timer s' = None).
Proof.
  intros s ev Hd. destruct ev as [n| |tag|b| |d|]; cbn [txn_step].
  - rewrite Hd, orb_true_r. cbn. repeat split; auto.
  - unfold finish. rewrite Hd. cbn. repeat split; auto.
  - unfold finish. rewrite Hd. cbn. repeat split; auto.
  - cbn. repeat split; auto.
  - destruct (t_watching s); cbn; repeat split; auto.
  - pose proof (advance_done (S (S (N.to_nat (t_count s)))) s (t_now s + d) Hd) as H.
    destruct (advance (S (S (N.to_nat (t_count s)))) s (t_now s + d)) as [s' o].
    cbn [fst snd] in H. destruct H as (H1 & H2 & H3 & H4 & H5 & H6). subst o.
    cbn. repeat split; auto.
  - unfold timer_body. rewrite Hd. cbn. repeat split; auto.
Qed.

(* a transaction finishes with the error of its first completion *)
Theorem done_implies_finally_once : forall retry delay count evs,
  let s := snd (txn_run (txn_new retry delay count) evs) in
  (t_done s = true <-> t_finally s = 1) /\ (t_done s = false -> t_err s = TeNil).
Proof.
  intros retry delay count evs. cbn zeta.
  pose proof (run_ok evs _ (Inv_new retry delay count)) as (Hi & _ & _).
  destruct Hi as [(H1 & H2 & H3)|(H1 & H2)]; rewrite H1, H2.
  - repeat split; try discriminate; auto; try lia.
  - repeat split; auto. discriminate.
Qed.

(* ====================================================================== *)
(* C19                                                                     *)
(* ====================================================================== *)

Lemma advance_no_timer fuel s t : t_timer s = None -> advance fuel s t = (set_now s t, []).
Proof. intros H. destruct fuel; cbn [advance]; [reflexivity|]. rewrite H. reflexivity. Qed.

Lemma advance_retry_exact (delay t0 t : N) :
  forall (m fuel : nat) (s : txn_state) (from : N),
  (m + 1 <= fuel)%nat -> t_retry s = true -> t_done s = false -> t_cbfail s = false -> t_delay s = delay ->
  t_retry_num s + N.of_nat m = t_count s ->
  t_timer s = Some (t0 + from * delay) -> t0 + (from + N.of_nat m) * delay <= t ->
  snd (advance fuel s t) =
    callbacks_at t0 delay (t_data s) m from ++
      [OFinally (t0 + (from + N.of_nat m) * delay); ODone (t0 + (from + N.of_nat m) * delay)] /\
  t_done (fst (advance fuel s t)) = true /\ t_err (fst (advance fuel s t)) = TeNoRetries /\
  t_callbacks (fst (advance fuel s t)) = t_callbacks s + N.of_nat m.
Proof.
  induction m as [|m IH]; intros fuel s from Hfuel Hre Hdn Hcf Hde Hrn Hti Ht.
  - destruct fuel as [|fuel]; [lia|].
    destruct s as [re de co rn ti da dn er fi cb cf wa no].
    cbn [t_retry t_done t_cbfail t_delay t_retry_num t_count t_timer t_data t_callbacks] in *. subst.
    cbn [advance t_timer].
    replace (t0 + from * delay <=? t) with true by (symmetry; apply N.leb_le; nia).
    unfold timer_body. cbn [set_timer set_now t_done t_retry t_count t_retry_num t_cbfail t_delay t_timer
      t_data t_err t_finally t_callbacks t_watching t_now].
    replace (rn + N.of_nat 0 <? rn + 1) with true by (symmetry; apply N.ltb_lt; lia).
    unfold finish. cbn [t_done].
    rewrite advance_no_timer by reflexivity.
    cbn [fst snd callbacks_at app t_done t_err t_callbacks set_now].
    replace (from + N.of_nat 0) with from by lia.
    repeat split; auto. lia.
  - destruct fuel as [|fuel]; [lia|].
    destruct s as [re de co rn ti da dn er fi cb cf wa no].
    cbn [t_retry t_done t_cbfail t_delay t_retry_num t_count t_timer t_data t_callbacks] in *. subst.
    cbn [advance t_timer].
    replace (t0 + from * delay <=? t) with true by (symmetry; apply N.leb_le; nia).
    unfold timer_body. cbn [set_timer set_now t_done t_retry t_count t_retry_num t_cbfail t_delay t_timer
      t_data t_err t_finally t_callbacks t_watching t_now].
    replace (rn + N.of_nat (S m) <? rn + 1) with false by (symmetry; apply N.ltb_ge; lia).
    match goal with |- context [advance fuel ?s1 t] =>
      specialize (IH fuel s1 (from + 1)) end.
    cbn [set_timer t_retry t_done t_cbfail t_delay t_retry_num t_count t_timer t_data t_callbacks] in IH.
    destruct IH as (I1 & I2 & I3 & I4); try reflexivity; try lia.
    { f_equal. lia. }
    match goal with |- context [advance fuel ?s1 t] => destruct (advance fuel s1 t) as [s2 o2] end.
    cbn [fst snd] in *. subst o2.
    replace (from + 1 + N.of_nat m) with (from + N.of_nat (S m)) by lia.
    cbn [callbacks_at app]. repeat split; auto. lia.
Qed.

Theorem retry_budget_exact : forall (delay count n t0 d : N) (s : txn_state),
  0 < delay -> t_retry s = true -> t_done s = false -> t_cbfail s = false -> t_delay s = delay -> t_count s = count ->
  t_now s = t0 -> (count + 1) * delay <= d ->
  let s1 := fst (txn_step s (EvProceed n)) in
  let '(s2, o) := txn_step s1 (EvAdv d) in
  o = callbacks_at t0 delay n (N.to_nat count) 1 ++ [OFinally (t0 + (count + 1) * delay); ODone (t0 + (count + 1) * delay)] /\
  t_done s2 = true /\ t_err s2 = TeNoRetries /\ t_callbacks s2 = t_callbacks s + count.
Proof.
  intros delay count n t0 d s Hdelay Hre Hdn Hcf Hde Hco Hno Hd. cbn zeta.
  cbn [txn_step]. rewrite Hre, Hdn. cbn [negb orb fst].
  cbn [txn_step t_count t_now].
  match goal with |- context [advance ?f ?s1 ?t] =>
    pose proof (advance_retry_exact delay t0 t (N.to_nat count) f s1 1) as H end.
  cbn [t_retry t_done t_cbfail t_delay t_retry_num t_count t_timer t_data t_callbacks] in H.
  rewrite N2Nat.id in H.
  destruct H as (H1 & H2 & H3 & H4); try assumption; try reflexivity; try lia.
  { f_equal. lia. }
  match goal with |- context [advance ?f ?s1 ?t] => destruct (advance f s1 t) as [s2 o] end.
  cbn [fst snd] in *. subst o.
  replace (1 + count) with (count + 1) by lia.
  repeat split; auto.
Qed.

(* before the budget is used up nothing is final *)
Theorem retry_quiet_before_delay : forall (n d : N) (s : txn_state),
  t_retry s = true -> t_done s = false -> d < t_delay s ->
  let s1 := fst (txn_step s (EvProceed n)) in
  snd (txn_step s1 (EvAdv d)) = [] /\ t_done (fst (txn_step s1 (EvAdv d))) = false.
Proof.
  intros n d s Hre Hdn Hd. cbn zeta.
  cbn [txn_step]. rewrite Hre, Hdn. cbn [negb orb fst].
  cbn [txn_step t_count t_now advance t_timer].
  replace (t_now s + t_delay s <=? t_now s + d) with false by (symmetry; apply N.leb_gt; lia).
  cbn. split; reflexivity.
Qed.

(* ---------- fuel irrelevance and time additivity ---------- *)

(* an upper bound on the number of timer firings still possible *)
Definition rem (s : txn_state) : nat :=
  match t_timer s with
  | None => O
  | Some _ => if t_done s then 1%nat else if negb (t_retry s) then 1%nat else if t_cbfail s then 1%nat
              else S (N.to_nat (t_count s - t_retry_num s))
  end.

Definition fire (s : txn_state) (d : N) : txn_state * list txn_out :=
  timer_body (set_timer (set_now s d) None).

Ltac rec_simpl :=
  cbn [fst snd negb set_timer set_now t_done t_retry t_count t_retry_num t_cbfail t_delay t_timer
       t_data t_err t_finally t_callbacks t_watching t_now].

Lemma fire_rem s d d' : t_timer s = Some d' -> (S (rem (fst (fire s d))) <= rem s)%nat.
Proof.
  intros Ht. unfold fire, timer_body, finish, rem.
  destruct s as [re de co rn ti da dn er fi cb cf wa no]. cbn [t_timer] in Ht. subst ti.
  cbn [set_timer set_now t_done t_retry t_count t_retry_num t_cbfail t_delay t_timer
      t_data t_err t_finally t_callbacks t_watching t_now].
  destruct dn; [rec_simpl; lia|]. destruct re; [|rec_simpl; lia].
  destruct (N.ltb_spec co (rn + 1)) as [Hlt|Hge]; destruct cf; rec_simpl; lia.
Qed.

Lemma fire_count s d : t_count (fst (fire s d)) = t_count s.
Proof.
  unfold fire, timer_body, finish.
  destruct s as [re de co rn ti da dn er fi cb cf wa no].
  cbn [set_timer set_now t_done t_retry t_count t_retry_num t_cbfail t_delay t_timer
      t_data t_err t_finally t_callbacks t_watching t_now].
  destruct dn; [reflexivity|]. destruct re; [|reflexivity].
  destruct (co <? rn + 1); [reflexivity|]. destruct cf; reflexivity.
Qed.

Lemma advance_S fuel s t :
  advance (S fuel) s t =
  match t_timer s with
  | Some d => if d <=? t then (fst (advance fuel (fst (fire s d)) t), snd (fire s d) ++ snd (advance fuel (fst (fire s d)) t))
              else (set_now s t, [])
  | None => (set_now s t, [])
  end.
Proof.
  cbn [advance]. destruct (t_timer s) as [d|]; [|reflexivity].
  destruct (d <=? t); [|reflexivity]. unfold fire.
  destruct (timer_body (set_timer (set_now s d) None)) as [s1 o1]. cbn [fst snd].
  destruct (advance fuel s1 t) as [s2 o2]. reflexivity.
Qed.

Lemma rem_set_now s t : rem (set_now s t) = rem s.
Proof. reflexivity. Qed.

Lemma advance_now_irrel fuel s x t : advance fuel (set_now s x) t = advance fuel s t.
Proof. destruct fuel; reflexivity. Qed.

Lemma advance_fuel_irrel : forall f1 f2 s t, (rem s <= f1)%nat -> (rem s <= f2)%nat ->
  advance f1 s t = advance f2 s t.
Proof.
  induction f1 as [|f1 IH]; intros f2 s t H1 H2.
  - assert (Ht : t_timer s = None).
    { unfold rem in H1. destruct (t_timer s); [|reflexivity].
      destruct (t_done s), (negb (t_retry s)), (t_cbfail s); lia. }
    rewrite !advance_no_timer by assumption. reflexivity.
  - destruct f2 as [|f2].
    + assert (Ht : t_timer s = None).
      { unfold rem in H2. destruct (t_timer s); [|reflexivity].
        destruct (t_done s), (negb (t_retry s)), (t_cbfail s); lia. }
      rewrite !advance_no_timer by assumption. reflexivity.
    + rewrite !advance_S. destruct (t_timer s) as [d|] eqn:Ht; [|reflexivity].
      destruct (d <=? t); [|reflexivity].
      pose proof (fire_rem s d d Ht) as Hr.
      rewrite (IH f2 (fst (fire s d)) t) by lia. reflexivity.
Qed.

Lemma advance_now : forall fuel s t, t_now (fst (advance fuel s t)) = t.
Proof.
  induction fuel as [|fuel IH]; intros s t; [reflexivity|].
  rewrite advance_S. destruct (t_timer s) as [d|]; [|reflexivity].
  destruct (d <=? t); [|reflexivity]. cbn [fst]. apply IH.
Qed.

Lemma advance_count : forall fuel s t, t_count (fst (advance fuel s t)) = t_count s.
Proof.
  induction fuel as [|fuel IH]; intros s t; [reflexivity|].
  rewrite advance_S. destruct (t_timer s) as [d|]; [|reflexivity].
  destruct (d <=? t); [|reflexivity]. cbn [fst]. rewrite IH. apply fire_count.
Qed.

Lemma advance_rem : forall fuel s t, (rem (fst (advance fuel s t)) <= rem s)%nat.
Proof.
  induction fuel as [|fuel IH]; intros s t; [cbn [advance fst]; rewrite rem_set_now; lia|].
  rewrite advance_S. destruct (t_timer s) as [d|] eqn:Ht; [|cbn [fst]; rewrite rem_set_now; lia].
  destruct (d <=? t); [|cbn [fst]; rewrite rem_set_now; lia]. cbn [fst].
  pose proof (IH (fst (fire s d)) t). pose proof (fire_rem s d d Ht). lia.
Qed.

Lemma advance_split : forall f s t1 t2, t1 <= t2 -> (rem s <= f)%nat ->
  advance f s t2 =
    (fst (advance f (fst (advance f s t1)) t2), snd (advance f s t1) ++ snd (advance f (fst (advance f s t1)) t2)).
Proof.
  induction f as [|f IH]; intros s t1 t2 Hle Hrem.
  - reflexivity.
  - rewrite (advance_S f s t1), (advance_S f s t2).
    destruct (t_timer s) as [d|] eqn:Ht.
    2:{ cbn [fst snd app]. rewrite advance_now_irrel, advance_no_timer by assumption. reflexivity. }
    destruct (N.leb_spec d t1) as [H1|H1].
    + replace (d <=? t2) with true by (symmetry; apply N.leb_le; lia).
      cbn [fst snd].
      pose proof (fire_rem s d d Ht) as Hr.
      set (s' := fst (fire s d)) in *.
      assert (Hr' : (rem s' <= f)%nat) by lia.
      rewrite (IH s' t1 t2 Hle Hr').
      pose proof (advance_rem f s' t1) as Hr1.
      rewrite (advance_fuel_irrel (S f) f (fst (advance f s' t1)) t2) by lia.
      cbn [fst snd]. rewrite app_assoc. reflexivity.
    + cbn [fst snd app]. rewrite advance_now_irrel, (advance_S f s t2), Ht. destruct (d <=? t2); reflexivity.
Qed.

Lemma rem_bound s : (rem s <= S (S (N.to_nat (t_count s))))%nat.
Proof.
  unfold rem. destruct (t_timer s); [|lia].
  destruct (t_done s), (negb (t_retry s)), (t_cbfail s); lia.
Qed.

(* advancing in two steps equals advancing once (time additivity).  The hypotheses
   [t_retry s = true] and [0 < t_delay s] of the required statement are not needed. *)
Theorem advance_additive : forall (s : txn_state) (a b : N),
  t_retry s = true -> 0 < t_delay s ->
  let '(s1, o1) := txn_step s (EvAdv a) in
  let '(s2, o2) := txn_step s1 (EvAdv b) in
  let '(s3, o3) := txn_step s (EvAdv (a + b)) in
  o1 ++ o2 = o3 /\ s2 = s3.
Proof.
  intros s a b _ _. cbn [txn_step].
  set (f := S (S (N.to_nat (t_count s)))).
  pose proof (advance_split f s (t_now s + a) (t_now s + (a + b)) ltac:(lia) (rem_bound s)) as Hs.
  pose proof (advance_now f s (t_now s + a)) as Hn.
  pose proof (advance_count f s (t_now s + a)) as Hc.
  destruct (advance f s (t_now s + a)) as [s1 o1]. cbn [fst snd] in *.
  rewrite Hn, Hc. fold f.
  replace (t_now s + a + b) with (t_now s + (a + b)) by lia.
  destruct (advance f s1 (t_now s + (a + b))) as [s2 o2]. cbn [fst snd] in *.
  rewrite Hs. split; reflexivity.
Qed.

(* progress resets the budget *)
Theorem proceed_resets_budget : forall (n : N) (s : txn_state),
  t_retry s = true -> t_done s = false ->
  let s1 := fst (txn_step s (EvProceed n)) in
  t_retry_num s1 = 0 /\ t_timer s1 = Some (t_now s + t_delay s) /\ t_data s1 = n.
Proof.
  intros n s Hre Hdn. cbn zeta. cbn [txn_step]. rewrite Hre, Hdn. cbn. repeat split.
Qed.

(* a timed transaction fails with timeout exactly at its timeout unless completed before *)
Theorem timed_timeout_exact : forall (timeout d : N),
  0 < timeout ->
  (timeout <= d ->
     txn_step (txn_new false timeout 0) (EvAdv d) =
       (let s := txn_new false timeout 0 in
        fst (txn_step s (EvAdv d)), [OFinally timeout; ODone timeout]) /\
     t_err (fst (txn_step (txn_new false timeout 0) (EvAdv d))) = TeTimeout) /\
  (d < timeout -> snd (txn_step (txn_new false timeout 0) (EvAdv d)) = [] /\
                  t_done (fst (txn_step (txn_new false timeout 0) (EvAdv d))) = false).
Proof.
  intros timeout d Hpos. cbn zeta. unfold txn_step, txn_new. rec_simpl.
  change (N.to_nat 0) with 0%nat. replace (0 + d) with d by lia.
  cbn [advance]. rec_simpl.
  split; intros Hd.
  - replace (timeout <=? d) with true by (symmetry; apply N.leb_le; lia).
    unfold timer_body, finish. rec_simpl. cbn [advance]. rec_simpl. cbn [app].
    split; reflexivity.
  - replace (timeout <=? d) with false by (symmetry; apply N.leb_gt; lia).
    rec_simpl. split; reflexivity.
Qed.

Print Assumptions finally_at_most_once.
Print Assumptions done_is_final.
Print Assumptions done_implies_finally_once.
Print Assumptions retry_budget_exact.
Print Assumptions retry_quiet_before_delay.
Print Assumptions advance_additive.
Print Assumptions proceed_resets_budget.
Print Assumptions timed_timeout_exact.
