(* Checkers/ChkGw2.v — per-step statements of C03, C04, C07, C08, C09, C11 (see ChkGw.v for
   the conventions: state before the step, event, observations). *)
From stdpp Require Import base option list numbers fin_maps nmap.
From Verif.Base Require Import Bytes.
From Verif.Codec Require Import Packets Decode Encode.
From Verif.Topics Require Import Predefined.
From Verif.Gateway Require Import GwTypes GwStep.
From Verif.Checkers Require Import ChkCodec ChkGw.
Open Scope N_scope.

Definition sn_pkts (os : list obs) : list packet :=
  sns os ≫= (fun dg => match read_dgram dg with Ok p => [p] | _ => [] end).

Definition running (s : gw_state) : bool :=
  negb (gw_ended s) && match gw_ending s with None => true | Some _ => false end.

Definition connected (s : gw_state) : bool := negb (cstate_eqb (gw_st s) Disconnected).
Definition awake_for_output (s : gw_state) : bool := negb (cstate_eqb (gw_st s) Asleep).

Definition count {A} (f : A -> bool) (l : list A) : N := len (List.filter f l).

(* ------------------------------------------------------------------ C03 *)
Definition is_mq_subscribe m := match m with MqSubscribe _ _ _ => true | _ => false end.
Definition is_mq_unsubscribe m := match m with MqUnsubscribe _ _ => true | _ => false end.
Definition is_mq_pubrel m := match m with MqPubrel _ => true | _ => false end.
Definition is_mq_pingreq m := match m with MqPingreq => true | _ => false end.
Definition is_sn_pubrec p := match p with Pubrec _ => true | _ => false end.
Definition is_sn_pubcomp p := match p with Pubcomp _ => true | _ => false end.
Definition is_sn_unsuback p := match p with Unsuback _ => true | _ => false end.
Definition is_sn_suback p := match p with Suback _ _ _ _ => true | _ => false end.
Definition is_sn_pingresp p := match p with Pingresp => true | _ => false end.

(* the filter a client's SUBSCRIBE / UNSUBSCRIBE denotes *)
Definition filter_of (cfg : gw_cfg) (s : gw_state) (tit tid : N) (name : bytes) : option bytes :=
  match tit with
  | 0 => Some name
  | 1 => get_name (predefined cfg) (gw_client_id s) tid
  | 2 => Some (decode_short tid)
  | _ => None
  end.

Definition exactly (l : list mq_pkt) (f : mq_pkt -> bool) (m : mq_pkt) : bool :=
  match List.filter f l with [x] => mq_eqb x (wire m) | _ => false end.
Definition exactly_sn (l : list packet) (f : packet -> bool) (p : packet) : bool :=
  match List.filter f l with [x] => pkt_eqb x p | _ => false end.
Definition none_of {A} (l : list A) (f : A -> bool) : bool := len (List.filter f l) =? 0.

Definition chk_C03 (cfg : gw_cfg) (s : gw_state) (ev : gw_event) (os : list obs) : list N :=
  if negb (running s) then [] else
  let ms := mqs os in
  let ps := sn_pkts os in
  match ev with
  | EvSn dg =>
    if negb (connected s) then [] else
    match read_dgram dg with
    | Ok (Subscribe dup q tit mid tid name) =>
      if (2 <? q) || (mid =? 0) then (if none_of ms is_mq_subscribe then [] else [1]) else
      match filter_of cfg s tit tid name with
      | Some f =>
        if exactly ms is_mq_subscribe (MqSubscribe mid false [(f, q)]) then []
        else if none_of ms is_mq_subscribe &&
                (existsb (fun p => match p with Suback _ _ m rc => (m =? mid) && negb (rc =? RC_ACCEPTED) | _ => false end) ps ||
                 (* the refusing SUBACK of a sleeping client waits in the sleep buffer (C11) *)
                 (cstate_eqb (gw_st s) Asleep && (tit =? 0) && negb (has_wildcard name) &&
                  match snd (register_topic cfg s name) with None => true | Some _ => false end))
             then []   (* refused locally: topic IDs exhausted (C04) *)
             else [1]
      | None => if none_of ms is_mq_subscribe then [] else [1]
      end
    | Ok (Unsubscribe tit mid tid name) =>
      if mid =? 0 then (if none_of ms is_mq_unsubscribe then [] else [2]) else
      match filter_of cfg s tit tid name with
      | Some f => if exactly ms is_mq_unsubscribe (MqUnsubscribe mid [f]) then [] else [2]
      | None => if none_of ms is_mq_unsubscribe then [] else [2]
      end
    | Ok (Pubrel mid) =>
      if mid =? 0 then (if none_of ms is_mq_pubrel then [] else [3])
      else if exactly ms is_mq_pubrel (MqPubrel mid) then [] else [3]
    | Ok (Pingreq _) =>
      if cstate_eqb (gw_st s) Asleep then (if none_of ms is_mq_pingreq then [] else [4])
      else if exactly ms is_mq_pingreq MqPingreq then [] else [4]
    | Ok (Disconnect d) =>
      if d =? 0 then (if exactly ms is_mq_disconnect MqDisconnect then [] else [5]) else []
    | _ => []
    end
  | EvMq m =>
    if negb (awake_for_output s) then [] else
    match m with
    | MqPubrec mid => if exactly_sn ps is_sn_pubrec (Pubrec mid) then [] else [6]
    | MqPubcomp mid => if exactly_sn ps is_sn_pubcomp (Pubcomp mid) then [] else [7]
    | MqUnsuback mid => if exactly_sn ps is_sn_unsuback (Unsuback mid) then [] else [8]
    | MqPingresp =>
      if cstate_eqb (gw_st s) Active then (if exactly_sn ps is_sn_pingresp Pingresp then [] else [9])
      else (if none_of ps is_sn_pingresp then [] else [9])
    | MqSuback mid codes =>
      match get_by_id s mid, codes with
      | Some (_, TxSubscribe _ tid), [c] =>
        if c <=? 2 then (if exactly_sn ps is_sn_suback (Suback c tid mid RC_ACCEPTED) then [] else [10])
        else match List.filter is_sn_suback ps with
             | [Suback _ _ m rc] => if (m =? mid) && negb (rc =? RC_ACCEPTED) then [] else [10]
             | _ => [10]
             end
      | _, _ => []
      end
    | _ => []
    end
  | _ => []
  end.

(* ------------------------------------------------------------------ C04 *)
(* topic IDs the gateway tells the client in this step, with the names they denote *)
Definition handed_in_step (cfg : gw_cfg) (s : gw_state) (ev : gw_event) (os : list obs) : list (N * bytes) :=
  let ps := sn_pkts os in
  (* its own REGISTERs *)
  (ps ≫= (fun p => match p with Register tid _ name => [(tid, name)] | _ => [] end)) ++
  (* REGACK accepted, answering the client's REGISTER *)
  (match ev_packet ev with
   | Some (Register _ mid name) =>
     ps ≫= (fun p => match p with Regack tid m rc => if (m =? mid) && (rc =? RC_ACCEPTED) then [(tid, name)] else [] | _ => [] end)
   | _ => []
   end) ++
  (* SUBACK accepted with a non-zero topic ID, answering a SUBSCRIBE by (non-wildcard) name *)
  (match ev with
   | EvMq (MqSuback mid _) =>
     match get_by_id s mid with
     | Some (_, TxSubscribe _ tid0) =>
       match gw_registered s !! tid0 with
       | Some name =>
         ps ≫= (fun p => match p with Suback _ tid m rc => if (m =? mid) && (rc =? RC_ACCEPTED) && negb (tid =? 0) then [(tid, name)] else [] | _ => [] end)
       | None => []
       end
     | _ => []
     end
   | _ => []
   end).

Definition consistent_with (hist : list (N * bytes)) (i : N) (n : bytes) : bool :=
  forallb (fun e => negb (fst e =? i) || beq (snd e) n) hist.

Definition refused_registration (ev : gw_event) (os : list obs) : bool :=
  let ps := sn_pkts os in
  match ev_packet ev with
  | Some (Register _ mid _) =>
    existsb (fun p => match p with Regack _ m rc => (m =? mid) && negb (rc =? RC_ACCEPTED) | _ => false end) ps
  | _ => false
  end.

Definition chk_C04 (cfg : gw_cfg) (s : gw_state) (ev : gw_event) (os : list obs) : list N :=
  if negb (running s) then [] else
  let hs := handed_in_step cfg s ev os in
  (hs ≫= (fun e =>
     (if (1 <=? fst e) && (fst e <=? 65534) then [] else [1]) ++
     (match get_name (predefined cfg) (gw_client_id s) (fst e) with None => [] | Some _ => [2] end) ++
     (if consistent_with (gw_handed_out s) (fst e) (snd e) then [] else [3]))) ++
  (* the IDs told within one step are consistent among themselves *)
  (if forallb (fun e => consistent_with hs (fst e) (snd e)) hs then [] else [3]) ++
  (* after exhaustion nothing new is allocated: every ID told to the client was announced or
     allocated (e.g. for a SUBSCRIBE whose SUBACK is still due) before, registrations of unknown
     names are refused *)
  (if gw_no_more_tids s then
     (if forallb (fun e => existsb (fun h => (fst h =? fst e) && beq (snd h) (snd e)) (gw_handed_out s) ||
                           match gw_registered s !! fst e with Some n => beq n (snd e) | None => false end) hs then [] else [4])
   else []).

(* ------------------------------------------------------------------ C07 *)
Definition is_connack_accepted p := match p with Connack rc => rc =? RC_ACCEPTED | _ => false end.

Definition chk_C07 (cfg : gw_cfg) (s : gw_state) (ev : gw_event) (os : list obs) : list N :=
  if negb (running s) || gw_accepted s then [] else
  let ms := mqs os in
  let ps := sn_pkts os in
  (* CONNACK accepted only in the step that handles the broker's CONNACK(0) *)
  (if none_of ps is_connack_accepted then []
   else match ev with EvMq (MqConnack _ 0) => [] | _ => [1] end) ++
  (* nothing but the CONNECT of the exchange, the DISCONNECT answering a plain DISCONNECT, and the
     QoS -1 exception goes to the broker *)
  (ms ≫= (fun m =>
     match m with
     | MqConnect _ => []
     | MqDisconnect => match ev_packet ev with Some (Disconnect 0) => [] | _ => [2] end
     | MqPublish _ _ _ _ _ _ =>
       match ev_packet ev with
       | Some (Publish _ 3 _ tit _ _ _) =>
         if negb (auth_enabled cfg) && ((tit =? 1) || (tit =? 2)) then [] else [2]
       | _ => [2]
       end
     | _ => [2]
     end)).

(* ------------------------------------------------------------------ C08 *)
Definition creds_eq (c : mq_connect) (uflag : bool) (u : bytes) (pflag : bool) (p : bytes) : bool :=
  Bool.eqb (c_uflag c) uflag && Bool.eqb (c_pflag c) pflag &&
  beq (c_user c) (if uflag then u else []) && beq (c_pass c) (if pflag then p else []).

Definition cfg_creds_ok (cfg : gw_cfg) (c : mq_connect) : bool :=
  creds_eq c (match cfg_user cfg with Some _ => true | None => false end)
             (match cfg_user cfg with Some u => u | None => [] end)
             (match cfg_pass cfg with Some _ => true | None => false end)
             (match cfg_pass cfg with Some p => p | None => [] end).

Definition chk_C08 (cfg : gw_cfg) (s : gw_state) (ev : gw_event) (os : list obs) : list N :=
  if negb (running s) then [] else
  let ms := mqs os in
  let ps := sn_pkts os in
  (ms ≫= (fun m =>
     match m with
     | MqConnect c =>
       if auth_enabled cfg then
         (* the exchange must contain a well-formed PLAIN AUTH, whose credentials the CONNECT carries *)
         match ev_packet ev with
         | Some (Auth _ method data) =>
           match decode_plain data with
           | Some (u, p) => if beq method AUTH_PLAIN && creds_eq c true u true p then [] else [1]
           | None => [1]
           end
         | _ =>
           match gw_auth_seen s with
           | Some (u, p) => if creds_eq c true u true p then [] else [1]
           | None => [1]
           end
         end
       else if cfg_creds_ok cfg c then [] else [2]
     | _ => []
     end)) ++
  (* unknown AUTH method while an AUTH is awaited: CONNACK "not supported", no CONNECT *)
  (match ev_packet ev, get_connect s with
   | Some (Auth _ method _), Some (_, _, CxAuth) =>
     if beq method AUTH_PLAIN then []
     else if existsb (fun p => match p with Connack rc => rc =? RC_NOT_SUPPORTED | _ => false end) ps &&
             none_of ms (fun m => match m with MqConnect _ => true | _ => false end) then [] else [3]
   | _, _ => []
   end).

(* ------------------------------------------------------------------ C09 *)
Definition is_willtopicreq p := match p with WillTopicReq => true | _ => false end.
Definition is_willmsgreq p := match p with WillMsgReq => true | _ => false end.
Definition is_mq_connect m := match m with MqConnect _ => true | _ => false end.
Definition is_sn_connack p := match p with Connack _ => true | _ => false end.

Definition chk_C09 (cfg : gw_cfg) (s : gw_state) (ev : gw_event) (os : list obs) : list N :=
  if negb (running s) then [] else
  let ms := mqs os in
  let ps := sn_pkts os in
  let exch := get_connect s in
  (* WILLTOPICREQ: only for a CONNECT with the Will flag (directly, or once its AUTH arrived) *)
  (if none_of ps is_willtopicreq then [] else
     match ev_packet ev, exch with
     | Some (Connect true _ _ _ _), _ => if auth_enabled cfg then [1] else []
     | Some (Auth _ _ _), Some (_, mq, CxAuth) => if c_will mq then [] else [1]
     | _, _ => [1]
     end) ++
  (* WILLMSGREQ: only after a WILLTOPIC, while the will topic is awaited *)
  (if none_of ps is_willmsgreq then [] else
     match ev_packet ev, exch with
     | Some (WillTopic _ _ _), Some (_, _, CxWillTopic) => []
     | _, _ => [2]
     end) ++
  (* MQTT CONNECT: at most one per step, and only when the exchange is complete *)
  (match List.filter is_mq_connect ms with
   | [] => []
   | [MqConnect c] =>
     match ev_packet ev, exch with
     | Some (Connect w _ _ _ _), _ => if w || auth_enabled cfg then [3] else (if c_will c then [4] else [])
     | Some (Auth _ _ _), Some (_, mq, CxAuth) => if c_will mq then [3] else (if c_will c then [4] else [])
     | Some (WillMsg msg), Some (_, mq, CxWillMsg) =>
       (* carries the client's will topic, message, QoS and retain flag *)
       if c_will c && beq (c_wtopic c) (c_wtopic mq) && (c_wqos c =? c_wqos mq) &&
          Bool.eqb (c_wretain c) (c_wretain mq) && beq (c_wmsg c) msg then [] else [4]
     | _, _ => [3]
     end
   | _ => [3]
   end) ++
  (* CONNACK code table *)
  (match ev, List.filter is_sn_connack ps with
   | EvMq (MqConnack _ rc), [Connack code] =>
     if rc =? 0 then (if code =? RC_ACCEPTED then [] else [5]) else (if code =? RC_CONGESTION then [] else [5])
   | EvMq (MqConnack _ _), _ :: _ :: _ => [5]
   | EvSn _, [Connack code] =>
     match ev_packet ev with
     | Some (Connect _ _ _ 0 _) =>
       if cstate_eqb (gw_st s) Awake || cstate_eqb (gw_st s) Asleep then (if code =? RC_ACCEPTED then [] else [5])
       else (if code =? RC_NOT_SUPPORTED then [] else [5])
     | _ => []
     end
   | _, _ => []
   end).

(* ------------------------------------------------------------------ C11 *)
(* While the client is asleep nothing is sent to it, except in the step handling its PINGREQ
   (buffered packets in arrival order, then PINGRESP), its CONNECT (CONNACK) or its DISCONNECT. *)
(* what the wake-up writes: the buffered packets in arrival order, then PINGRESP.  A buffered
   packet that exceeds the transport maximum is not written awake or asleep (snSend fails with
   "packet too long" and the session ends, C23): the flush stops in front of it and the
   terminating session sends the awake client its DISCONNECT. *)
Fixpoint flush_expected (buf : list (option N * packet)) : list bytes :=
  match buf with
  | [] => [pack Pingresp]
  | (_, p) :: rest => if len (pack p) <=? MaxPacketLen then pack p :: flush_expected rest
                       else [pack (Disconnect 0)]   (* the session ends; the awake client is told (C13) *)
  end.

Definition chk_C11 (cfg : gw_cfg) (s : gw_state) (ev : gw_event) (os : list obs) : list N :=
  if negb (running s) || negb (cstate_eqb (gw_st s) Asleep) then [] else
  match ev_packet ev with
  | Some (Pingreq _) =>
    if beql (sns os) (flush_expected (gw_buffer s)) then [] else [2]
  | Some (Connect _ _ _ _ _) | Some (Disconnect _) => []
  | _ => if len (sns os) =? 0 then [] else [1]
  end.
