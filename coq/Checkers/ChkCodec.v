(* Checkers/ChkCodec.v — executable statements of C20, C21, C22 on one observation of
   the codec (what ReadPacket / Pack did on one input).  Extracted and applied to the
   implementation's observations; proved to accept the model's own behaviour. *)
From Verif.Base Require Import Bytes.
From Verif.Codec Require Import Packets Decode Encode RefParse.
Open Scope N_scope.

(* injective flattening of a packet, used for a decidable equality *)
Definition pfields (p : packet) : N * list N * list bytes :=
  match p with
  | Advertise g d => (0, [g; d], [])
  | SearchGw r => (1, [r], [])
  | GwInfo g a => (2, [g], [a])
  | Auth r m d => (3, [r], [m; d])
  | Connect w c pr d cid => (4, [N_of_bool w; N_of_bool c; pr; d], [cid])
  | Connack rc => (5, [rc], [])
  | WillTopicReq => (6, [], [])
  | WillTopic q r t => (7, [q; N_of_bool r], [t])
  | WillMsgReq => (8, [], [])
  | WillMsg m => (9, [], [m])
  | Register ti mi nm => (10, [ti; mi], [nm])
  | Regack ti mi rc => (11, [ti; mi; rc], [])
  | Publish dup q r tit ti mi d => (12, [N_of_bool dup; q; N_of_bool r; tit; ti; mi], [d])
  | Puback ti mi rc => (13, [ti; mi; rc], [])
  | Pubcomp mi => (14, [mi], [])
  | Pubrec mi => (15, [mi], [])
  | Pubrel mi => (16, [mi], [])
  | Subscribe dup q tit mi ti nm => (18, [N_of_bool dup; q; tit; mi; ti], [nm])
  | Suback q ti mi rc => (19, [q; ti; mi; rc], [])
  | Unsubscribe tit mi ti nm => (20, [tit; mi; ti], [nm])
  | Unsuback mi => (21, [mi], [])
  | Pingreq cid => (22, [], [cid])
  | Pingresp => (23, [], [])
  | Disconnect d => (24, [d], [])
  | WillTopicUpd q r t => (26, [q; N_of_bool r], [t])
  | WillTopicResp rc => (27, [rc], [])
  | WillMsgUpd m => (28, [], [m])
  | WillMsgResp rc => (29, [rc], [])
  end.

Fixpoint beql (a b : list bytes) : bool :=
  match a, b with
  | [], [] => true
  | x :: a', y :: b' => beq x y && beql a' b'
  | _, _ => false
  end.

Definition pkt_eqb (p q : packet) : bool :=
  match pfields p, pfields q with
  | (t1, n1, b1), (t2, n2, b2) => (t1 =? t2) && beq n1 n2 && beql b1 b2
  end.

(* ------------------------------------------------------------------ C21: legal ranges *)
Definition lt16 (x : N) : bool := x <? 65536.
Definition lt8 (x : N) : bool := x <? 256.
Definition okb (b : bytes) : bool := wf_bytesb b && (len b <=? MaxPayloadLength).
Definition okb1 (b : bytes) : bool := okb b && (0 <? len b).

Definition wf_pkt (p : packet) : bool :=
  match p with
  | Advertise g d => lt8 g && lt16 d
  | SearchGw r => lt8 r
  | GwInfo g a => lt8 g && okb a
  | Auth r m d => lt8 r && wf_bytesb m && (len m <=? 255) && okb d
  | Connect w c pr d cid => (pr =? 1) && lt16 d && okb1 cid
  | Connack rc => lt8 rc
  | WillTopicReq | WillMsgReq | Pingresp => true
  | WillTopic q r t | WillTopicUpd q r t =>
    (* an empty will topic is encoded without the flags octet, so it carries no flags *)
    match t with [] => (q =? 0) && negb r | _ => (q <? 4) && okb t end
  | WillMsg m | WillMsgUpd m => okb m
  | Register ti mi nm => lt16 ti && lt16 mi && okb1 nm
  | Regack ti mi rc | Puback ti mi rc => lt16 ti && lt16 mi && lt8 rc
  | Publish dup q r tit ti mi d => (q <? 4) && (tit <? 4) && lt16 ti && lt16 mi && okb d
  | Pubcomp mi | Pubrec mi | Pubrel mi | Unsuback mi => lt16 mi
  | Subscribe dup q tit mi ti nm =>
    (q <? 4) && lt16 mi &&
    (if tit =? 0 then (ti =? 0) && okb1 nm
     else ((tit =? 1) || (tit =? 2)) && lt16 ti && (len nm =? 0))
  | Suback q ti mi rc => (q <? 4) && lt16 ti && lt16 mi && lt8 rc
  | Unsubscribe tit mi ti nm =>
    lt16 mi &&
    (if tit =? 0 then (ti =? 0) && okb1 nm
     else ((tit =? 1) || (tit =? 2)) && lt16 ti && (len nm =? 0))
  | Pingreq cid => okb cid
  | Disconnect d => lt16 d
  | WillTopicResp rc | WillMsgResp rc => lt8 rc
  end.

(* announced length and header form of an encoded datagram *)
Definition announced_len (dg : bytes) : option N :=
  match dg with
  | b0 :: hi :: lo :: _ => if b0 =? 1 then Some (256 * hi + lo) else Some b0
  | b0 :: _ => if b0 =? 1 then None else Some b0
  | [] => None
  end.
Definition short_form (dg : bytes) : bool :=
  match dg with b0 :: _ => negb (b0 =? 1) | [] => false end.

(* C21 on one observation: packet p, the bytes Pack produced, what ReadPacket made of them.
   Result: failed clause numbers (empty = holds). *)
Definition chk_C21 (p : packet) (packed : bytes) (decoded : option packet) : list N :=
  if negb (wf_pkt p) then [] else
  (match decoded with Some q => if pkt_eqb p q then [] else [1] | None => [1] end) ++
  (match announced_len packed with Some l => if l =? len packed then [] else [2] | None => [2] end) ++
  (if Bool.eqb (short_form packed) (len packed <=? 255) then [] else [3]).

(* C22 on one observation: datagram raw decoded as p and p re-packed as repacked. *)
Definition chk_C22 (raw : bytes) (p : packet) (repacked : bytes) : list N :=
  (match ref_parse raw with Some q => if pkt_eqb p q then [] else [1] | None => [1] end) ++
  (match ref_split raw, ref_split repacked with
   | Some (t, body), Some (t', body') =>
     if (t =? t') && beq body' (mask_ignored t body) then [] else [2]
   | _, _ => [2]
   end).

(* short topics: bijection between 2-byte names and 16-bit IDs *)
Definition chk_short (i : N) : bool :=
  (encode_short (decode_short i) =? i) && wf_bytesb (decode_short i) && (len (decode_short i) =? 2).
