(* Checkers/ChkGw3.v — statements of C02 (per step) and of the timed properties C10, C12, C13,
   C34 as a monitor that is folded over a history next to the model.

   The monitor keeps only what the property texts speak about (when the client last sent
   something, what it announced, when a termination cause occurred, when the gateway last wrote
   to the broker); it reads the model state for the context the properties are conditioned on
   (is a connect exchange pending, is the client active / asleep).  It is extracted and fed with
   the implementation's observations; the theorems (Gateway/Sound_Timed.v) say what it reports
   on the model's own outputs. *)
From stdpp Require Import base option list numbers fin_maps nmap.
From Verif.Base Require Import Bytes.
From Verif.Codec Require Import Packets Decode Encode.
From Verif.Topics Require Import Predefined.
From Verif.Gateway Require Import GwTypes GwStep.
From Verif.Checkers Require Import ChkCodec ChkGw ChkGw2.
Open Scope N_scope.

(* ------------------------------------------------------------------ C02 (per step) *)

(* What the client knows a topic ID to denote: short names by decoding, predefined IDs by the
   shared configuration, and a normal topic ID only once the gateway told it (REGACK, accepted
   SUBACK, or a REGISTER of the gateway) AND the registration took effect (the client's own
   REGISTER was accepted / it accepted the gateway's REGISTER with a REGACK). *)
Definition client_resolves (cfg : gw_cfg) (s : gw_state) (tit tid : N) (topic : bytes) : bool :=
  match tit with
  | 0 => match gw_registered s !! tid with Some n => beq n topic | None => false end &&
         existsb (fun h => (fst h =? tid) && beq (snd h) topic) (gw_handed_out s)
  | 1 => match get_name (predefined cfg) (gw_client_id s) tid with Some n => beq n topic | None => false end
  | 2 => beq (decode_short tid) topic
  | _ => false
  end.

(* the one way the gateway model is known to fail C02 (clauses 6, 7 of chk_C02): a normal topic ID
   that denotes the name in the gateway's table but was never told to the client - allocated for
   a SUBSCRIBE by name whose SUBACK is still due (6) or was refused / timed out (7) *)
Definition unannounced (cfg : gw_cfg) (s : gw_state) (tit tid : N) (topic : bytes) : bool :=
  (tit =? 0) && match gw_registered s !! tid with Some n => beq n topic | None => false end &&
  negb (existsb (fun h => (fst h =? tid) && beq (snd h) topic) (gw_handed_out s)).
Definition subscribe_pending (s : gw_state) (tid : N) : bool :=
  existsb (fun gt => match snd gt with TxSubscribe _ t => t =? tid | _ => false end) (map_to_list (gw_objs s)).

Definition is_sn_publish p := match p with Publish _ _ _ _ _ _ _ => true | _ => false end.
Definition is_sn_register p := match p with Register _ _ _ => true | _ => false end.

Definition ending (s : gw_state) : bool :=
  gw_ended s || match gw_ending s with Some _ => true | None => false end.

(* s: state before, s': model state after the step *)
Definition chk_C02 (cfg : gw_cfg) (s s' : gw_state) (ev : gw_event) (os : list obs) : list N :=
  if negb (running s) || negb (cstate_eqb (gw_st s) Active) then [] else
  let ps := sn_pkts os in
  match ev with
  | EvMq (MqPublish dup q r topic mid payload) =>
    (* QoS 3 and an empty topic name are never sent by an MQTT 3.1.1 broker *)
    if (2 <? q) || (len topic =? 0) then [] else
    match List.filter is_sn_publish ps, List.filter is_sn_register ps with
    | [Publish _ q' r' tit tid _ data], [] =>
      (if (q' =? q) && Bool.eqb r' r && beq data payload then [] else [1]) ++
      (if client_resolves cfg s tit tid topic then []
       else if unannounced cfg s tit tid topic then (if subscribe_pending s tid then [6] else [7])
       else [2])
    | [], [Register tid _ name] =>
      (* a new topic ID is announced first; the PUBLISH follows the client's REGACK *)
      (if beq name topic then [] else [3]) ++
      (match gw_registered s !! tid with None => [] | Some _ => [3] end)
    | [], [] => if ending s' then [] else [4]     (* not delivered: only when the session gives up *)
    | _, _ => [4]
    end
  | EvSn dg =>
    match read_dgram dg with
    | Ok (Regack _ mid rc) =>
      match get_by_id s mid with
      | Some (_, TxBrokerPub _ _ AwaitRegack (RsSn (Register tid _ name)) (Some pub) _) =>
        if negb (rc =? RC_ACCEPTED) then [] else
        match pub, List.filter is_sn_publish ps with
        | Publish _ q r _ _ pmid data, [Publish _ q' r' tit' tid' pmid' data'] =>
          if (q' =? q) && Bool.eqb r' r && beq data' data && (tit' =? 0) && (tid' =? tid) && (pmid' =? pmid)
          then [] else [5]
        | _, [] => if ending s' then [] else [5]   (* too long for a datagram: the session gives up (C23) *)
        | _, _ => [5]
        end
      | _ => []
      end
    | _ => []
    end
  | _ => []
  end.

(* ------------------------------------------------------------------ the monitor *)

Record mon := {
  m_connect_by : option N;   (* C10: a connect exchange is pending; the session must be over by then *)
  m_end_by : option N;       (* C13: a termination cause occurred; Run must have returned by then *)
  m_sleep_dur : N;           (* ms the client announced in its last sleep DISCONNECT *)
  m_sleep_until : option N;  (* C34/C12: the client is asleep and due to wake up by then *)
  m_last_client : N;         (* when the client last sent a datagram *)
  m_last_mq : option N;      (* C12: when the gateway last wrote to the broker (since its CONNECT) *)
  m_ka : N;                  (* keep-alive of the last MQTT CONNECT written, ms *)
  m_client_ok : bool         (* C12: the client has met its obligations since that CONNECT *)
}.

Definition mon_init : mon := {|
  m_connect_by := None; m_end_by := None; m_sleep_dur := 0; m_sleep_until := None; m_last_client := 0;
  m_last_mq := None; m_ka := 0; m_client_ok := true |}.

Definition ob_time (o : obs) : N := match o with ObSn t _ | ObMq t _ _ | ObMqGarbage t | ObEnd t => t end.
Definition ended_by (os : list obs) (T : N) : bool :=
  existsb (fun o => match o with ObEnd t => t <=? T | _ => false end) os.
Definition has_end (os : list obs) : bool := existsb (fun o => match o with ObEnd _ => true | _ => false end) os.
Definition is_sn_disconnect p := match p with Disconnect _ => true | _ => false end.

(* the end of the time span a step covers *)
Definition step_end (s : gw_state) (ev : gw_event) : N :=
  match ev with EvAdvance d => gw_now s + d | _ => gw_now s end.

(* termination causes named by C13; Some true = the client's own plain DISCONNECT *)
Definition termination_cause (cfg : gw_cfg) (s : gw_state) (ev : gw_event) : option bool :=
  match ev with
  | EvShutdown | EvMqEof | EvMqRaw => Some false
  | EvSn dg =>
    match read_dgram dg with
    | Ok (Disconnect d) => if d =? 0 then Some true else if packet_legal cfg s (Disconnect d) then None else Some false
    | Ok p => if packet_legal cfg s p then None else Some false
    | _ => Some false
    end
  | _ => None
  end.

(* C12: has the client met its obligations at time tv (no packet of it between m_last_client and tv)? *)
Definition client_ok_at (s : gw_state) (m : mon) (tv : N) : bool :=
  m_client_ok m &&
  match gw_st s with
  | Active | Awake => tv <=? m_last_client m + m_ka m
  | Asleep => match m_sleep_until m with Some u => tv <=? u | None => false end
  | Disconnected => false
  end.

(* C12: walk the broker writes of one step in time order; L = last write so far.  A window of
   1.5 x keep-alive without a write is reported once (the window restarts). *)
Fixpoint c12_scan (s : gw_state) (m : mon) (L : N) (ts : list N) (t_end : N) : list N * N :=
  let w := (3 * m_ka m) / 2 in
  match ts with
  | [] => if (L + w <? t_end) && client_ok_at s m (L + w + 1) then ([match gw_st s with Active => 1 | Asleep => 2 | _ => 3 end], t_end)
          else ([], L)
  | t :: ts' =>
    let here := if (L + w <? t) && client_ok_at s m (L + w + 1) then [match gw_st s with Active => 1 | Asleep => 2 | _ => 3 end] else [] in
    let '(f, L') := c12_scan s m t ts' t_end in (here ++ f, L')
  end.

Definition mq_times (os : list obs) : list N := os ≫= (fun o => match o with ObMq t _ _ => [t] | _ => [] end).
Definition last_connect_ka (os : list obs) : option N :=
  fold_left (fun acc o => match o with ObMq _ (MqConnect c) _ => Some (c_keepalive c * 1000) | _ => acc end) os None.

(* failures are (property number, clause) *)
Definition mon_step (cfg : gw_cfg) (s s' : gw_state) (ev : gw_event) (os : list obs) (m : mon)
  : mon * list (N * N) :=
  let t0 := gw_now s in
  let t1 := step_end s ev in
  let is_adv := match ev with EvAdvance _ => true | _ => false end in
  let is_sn := match ev with EvSn _ => true | _ => false end in
  (* ---- C10: half-open connect exchange *)
  let f10 := match m_connect_by m with
             | Some T => if is_adv && (T <=? t1) && negb (ended_by os T) then [(10, 1)] else []
             | None => [] end in
  (* ---- C13: bounded termination, DISCONNECT to an active / awake client *)
  let cause := if running s then termination_cause cfg s ev else None in
  let f13a := match cause with
              | Some false =>
                let n := len (List.filter is_sn_disconnect (sn_pkts os)) in
                let want := match gw_st s with Active | Awake => 1 | _ => 0 end in
                if n =? want then [] else [(13, 1)]
              | _ => [] end in
  let f13b := match m_end_by m with
              | Some T => if is_adv && (T <=? t1) && negb (ended_by os T) then [(13, 2)] else []
              | None => [] end in
  (* ---- C34: nothing keeps the broker connection of a silent client alive: a write to the broker
          that no packet causes (timer-driven) happens only while the client sleeps as announced,
          or as one of the RetryCount retransmissions after the client's last packet *)
  let allowed := N.max (match m_sleep_until m with Some u => u | None => 0 end)
                       (m_last_client m + (retry_count cfg + 1) * retry_delay cfg) in
  let f34 := if is_adv && negb (ending s)
             then (if forallb (fun t => t <=? allowed) (mq_times os) then [] else [(34, 1)]) else [] in
  (* ---- C12: broker keep-alive *)
  let f12L := if is_adv && negb (ending s) && connected s && negb (m_ka m =? 0)
              then match m_last_mq m with
                   | Some L => let '(f, L') := c12_scan s m L (mq_times os) t1 in (map (fun c => (12, c)) f, Some L')
                   | None => ([], None)
                   end
              else ([], match mq_times os with [] => m_last_mq m | ts => Some (List.last ts 0) end) in
  (* ---- update *)
  let over := has_end os || gw_ended s' in
  let pending := match gw_connect s' with Some _ => true | None => false end in
  let connect_by := if over then None
                    else if pending then (if is_sn then Some (t0 + connectTransactionTimeout + connTimeout)
                                          else match m_connect_by m with Some T => Some T
                                               | None => Some (t0 + connectTransactionTimeout + connTimeout) end)
                    else None in
  let end_by := if over then None
                else match m_end_by m, cause with
                     | Some T, _ => Some T
                     | None, Some _ => Some (t0 + connTimeout)
                     | None, None => None end in
  let sleep_dur := match ev_packet ev with
                   | Some (Disconnect d) => if (0 <? d) && cstate_eqb (gw_st s') Asleep then d * 1000 else m_sleep_dur m
                   | _ => m_sleep_dur m end in
  let sleep_until := if cstate_eqb (gw_st s') Asleep
                     then (if is_sn then Some (t0 + sleep_dur) else m_sleep_until m)
                     else None in
  let client_ok0 := if is_sn
                    then m_client_ok m &&
                         match gw_st s with
                         | Active | Awake => t0 <=? m_last_client m + m_ka m
                         | Asleep => match m_sleep_until m with Some u => t0 <=? u | None => true end
                         | Disconnected => true end
                    else m_client_ok m in
  let '(ka, client_ok) := match last_connect_ka os with Some k => (k, true) | None => (m_ka m, client_ok0) end in
  ({| m_connect_by := connect_by; m_end_by := end_by; m_sleep_dur := sleep_dur; m_sleep_until := sleep_until;
      m_last_client := if is_sn then t0 else m_last_client m;
      m_last_mq := snd f12L; m_ka := ka; m_client_ok := client_ok |},
   f10 ++ f13a ++ f13b ++ f34 ++ fst f12L).

(* fold over a history: the model supplies states and (for the theorems) the observations *)
Fixpoint mon_run (cfg : gw_cfg) (s : gw_state) (m : mon) (evs : list gw_event) : list (N * N) :=
  match evs with
  | [] => []
  | ev :: evs' =>
    let '(s', outs) := gw_step cfg s ev in
    let '(m', f) := mon_step cfg s s' ev (obs_of_outs outs) m in
    f ++ mon_run cfg s' m' evs'
  end.

Definition only_props (ps : list N) (f : list (N * N)) : list (N * N) :=
  List.filter (fun pc => existsb (N.eqb (fst pc)) ps) f.
