(* Checkers/ChkCl.v — per-step statements of the client-library properties (C17, C23, C27, C31):
   state before the step, event, observed outputs. *)
From stdpp Require Import base option list numbers fin_maps nmap.
From Verif.Base Require Import Bytes.
From Verif.Codec Require Import Packets Decode Encode.
From Verif.Topics Require Import Predefined.
From Verif.Gateway Require Import GwTypes.
From Verif.Match Require Import Match.
From Verif.Client Require Import ClTypes ClStep.
From Verif.Checkers Require Import ChkCodec ChkGw.
Open Scope N_scope.

Definition c_sns (os : list cl_out) : list bytes := os ≫= (fun o => match o with CoSn _ dg => [dg] | _ => [] end).
Definition c_pkts (os : list cl_out) : list packet :=
  c_sns os ≫= (fun dg => match read_dgram dg with Ok p => [p] | _ => [] end).
Definition c_rets (os : list cl_out) : list (N * cres) := os ≫= (fun o => match o with CoRet _ id r => [(id, r)] | _ => [] end).
Definition c_cbs (os : list cl_out) : list (N * bytes) := os ≫= (fun o => match o with CoCb _ sub topic _ _ _ _ _ => [(sub, topic)] | _ => [] end).

Definition c_live (s : cl_state) : bool :=
  negb (cl_exited s) && match cl_cancelled s with None => true | Some _ => false end && negb (cl_conn_closed s).

Definition ev_pkt (ev : cl_event) : option packet :=
  match ev with CGw dg => match read_dgram dg with Ok p => Some p | _ => None end | _ => None end.

(* ------------------------------------------------------------------ C23 (client side) *)
Definition client_to_gw (t : N) : bool :=
  (t =? T_SEARCHGW) || (t =? T_AUTH) || (t =? T_CONNECT) || (t =? T_WILLTOPIC) || (t =? T_WILLMSG) ||
  (t =? T_REGISTER) || (t =? T_REGACK) || (t =? T_PUBLISH) || (t =? T_PUBACK) || (t =? T_PUBCOMP) ||
  (t =? T_PUBREC) || (t =? T_PUBREL) || (t =? T_SUBSCRIBE) || (t =? T_UNSUBSCRIBE) || (t =? T_PINGREQ) ||
  (t =? T_DISCONNECT) || (t =? T_WILLTOPICUPD) || (t =? T_WILLMSGUPD).
Definition chk_C23c (os : list cl_out) : list N := c_sns os ≫= dgram_ok client_to_gw.

(* ------------------------------------------------------------------ C27 *)
(* the PUBLISH being delivered in this step, if any: QoS 0/1 on receipt, QoS 2 on PUBREL *)
Definition delivered (cfg : cl_cfg) (s : cl_state) (ev : cl_event) : option (N * N) :=
  match ev_pkt ev with
  | Some (Publish _ q _ tit tid _ _) => if (q =? 0) || (q =? 1) then Some (tit, tid) else None
  | Some (Pubrel mid) =>
    match c_get_id s mid with
    | Some (_, CxBrokerPub2 _ (Publish _ _ _ tit tid _ _)) => Some (tit, tid)
    | _ => None
    end
  | _ => None
  end.

Definition chk_C27 (cfg : cl_cfg) (s : cl_state) (ev : cl_event) (os : list cl_out) : list N :=
  match c_cbs os with
  | [] => []
  | [(sub, topic)] =>
    match delivered cfg s ev with
    | Some (tit, tid) =>
      (* the topic handed to the callback is what the topic ID denotes for this client ... *)
      (match topic_for_publish cfg s tit tid with
       | Some t => if beq t topic then [] else [2]
       | None => [2]
       end) ++
      (* ... and the callback belongs to a current subscription whose filter matches it *)
      (if existsb (fun kh => (snd (snd kh) =? sub) && match_route (fst (snd kh)) (split topic)) (cl_handlers s)
       then [] else [1])
    | None => [3]                    (* a callback without a delivered PUBLISH *)
    end
  | _ => [4]                         (* more than one callback for one message *)
  end.

(* ------------------------------------------------------------------ C17 *)
Definition is_pubcomp_for (mid : N) (p : packet) : bool := match p with Pubcomp m => m =? mid | _ => false end.
Definition is_c_pubcomp (p : packet) : bool := match p with Pubcomp _ => true | _ => false end.

Definition chk_C17 (cfg : cl_cfg) (s : cl_state) (ev : cl_event) (os : list cl_out) : list N :=
  if negb (c_live s) then [] else
  let ps := c_pkts os in
  (* every PUBREL is answered with exactly one PUBCOMP of the same message ID *)
  (match ev_pkt ev with
   | Some (Pubrel mid) =>
     match List.filter is_c_pubcomp ps with
     | [Pubcomp m] => if m =? mid then [] else [3]
     | [] => (* allowed only when the message cannot be delivered at all (unknown topic) *)
       match c_get_id s mid with
       | Some (_, CxBrokerPub2 _ (Publish _ _ _ tit tid _ _)) =>
         match topic_for_publish cfg s tit tid with None => [] | Some _ => [3] end
       | Some _ => []                 (* the ID belongs to an exchange of the other direction: C06 *)
       | None => [3]
       end
     | _ => [3]
     end
   | _ => []
   end) ++
  (* a PUBLISH or SUBSCRIBE sent because a retry timer fired carries DUP *)
  (match ev with
   | CAdv _ =>
     ps ≫= (fun p => match p with
                     | Publish dup _ _ _ _ _ _ => if dup then [] else [2]
                     | Subscribe dup _ _ _ _ _ => if dup then [] else [2]
                     | _ => []
                     end)
   | _ => []
   end) ++
  (* Publish(QoS 1/2) returns nil only in the step that handles the gateway's accepting PUBACK /
     the PUBCOMP after a PUBREC, for its own message ID *)
  (c_rets os ≫= (fun ir =>
     match snd ir with
     | ROk =>
       let mine t := match t with CxRetry call kind _ _ _ _ _ => (call =? fst ir) && ((kind =? 3) || (kind =? 4)) | _ => false end in
       match List.filter (fun gt => mine (snd gt)) (map_to_list (cl_objs s)) with
       | [(_, CxRetry _ 3 key st _ _ _)] =>
         match ev_pkt ev with
         | Some (Puback _ mid rc) => if (mid =? key) && (rc =? RC_ACCEPTED) && ct_state_eqb st CtAwaitPuback then [] else [1]
         | _ => [1]
         end
       | [(_, CxRetry _ 4 key st _ _ _)] =>
         match ev_pkt ev with
         | Some (Pubcomp mid) => if (mid =? key) && ct_state_eqb st CtAwaitPubcomp then [] else [1]
         | _ => [1]
         end
       | _ => []
       end
     | _ => []
     end)).

(* ------------------------------------------------------------------ C31 (client side) *)
Fixpoint connect_then_auth (cfg : cl_cfg) (ps : list packet) : bool :=
  match ps with
  | [] => true
  | Connect _ _ _ _ _ :: rest =>
    match rest with
    | Auth _ method data :: rest' =>
      beq method [80; 76; 65; 73; 78] && beq data ([0] ++ k_user cfg ++ [0] ++ k_pass cfg) && connect_then_auth cfg rest'
    | _ => false
    end
  | Auth _ _ _ :: _ => false          (* an AUTH that does not follow a CONNECT *)
  | _ :: rest => connect_then_auth cfg rest
  end.

Definition chk_C31c (cfg : cl_cfg) (os : list cl_out) : list N :=
  let ps := c_pkts os in
  if len (k_user cfg) =? 0 then
    (if existsb (fun p => match p with Auth _ _ _ => true | _ => false end) ps then [1] else [])
  else (if connect_then_auth cfg ps then [] else [2]).
