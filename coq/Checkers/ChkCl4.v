(* Checkers/ChkCl4.v — C33 (keep-alive pings of the client library) as a monitor folded over a
   history next to the keep-alive model (Client/ClKeepalive.v) and fed with the implementation's
   outputs.  The model supplies the context the property speaks about: the client's state at every
   instant of the step (state changes with their times) and which API calls a keep-alive exchange
   interfered with.  Failures are (33, clause):
     clause 1  while the client is active (and alive) more than max(KeepAlive, RetryDelay) passes
               without a PINGREQ (a ping in progress is retransmitted on the retry schedule);
     clause 2  a PINGREQ without client ID (the keep-alive / Ping form; the wake-up ping of Sleep
               carries the client ID) is written while the client is asleep or disconnected and no
               Ping call of the API is in progress;
     clause 3  an API call fails whose exchange a keep-alive exchange interfered with: the PINGRESP a
               Sleep call waited for was consumed by the keep-alive ping, or the keep-alive ping took
               the store slot of a Ping call. *)
From stdpp Require Import base option list numbers fin_maps nmap.
From Verif.Base Require Import Bytes.
From Verif.Codec Require Import Packets Decode Encode.
From Verif.Topics Require Import Predefined.
From Verif.Gateway Require Import GwTypes.
From Verif.Match Require Import Match.
From Verif.Client Require Import ClTypes ClStep ClKeepalive.
From Verif.Checkers Require Import ChkCodec ChkGw ChkCl.
Open Scope N_scope.

Record kmon := { km_since : option N  (* the last PINGREQ, or the activation, of the current active period *) }.
Definition kmon_init : kmon := {| km_since := None |}.

Definition pingreq_kind (dg : bytes) : N :=     (* 0 none, 1 without client ID, 2 with *)
  match read_dgram dg with Ok (Pingreq []) => 1 | Ok (Pingreq _) => 2 | _ => 0 end.

Definition ko_changes (os : list ka_out) : list (N * cstate) :=
  os ≫= (fun o => match o with KoState t st => [(t, st)] | _ => [] end).

Fixpoint state_at (st0 : cstate) (chs : list (N * cstate)) (t : N) : cstate :=
  match chs with
  | [] => st0
  | (tc, st) :: r => if tc <=? t then state_at st r t else st0
  end.

Definition user_ping_pending (s : cl_state) : bool :=
  existsb (fun gt => match snd gt with CxRetry call 5 _ _ _ _ _ => negb (is_internal call) | _ => false end)
          (map_to_list (cl_objs s)).

Definition ka_bound (cfg : cl_cfg) : N := N.max (ka_period cfg) (k_rdelay cfg).

(* marks of one step in time order: false = a PINGREQ, true = a state change (to the given state) *)
Inductive mark := MkPing (t : N) | MkChg (t : N) (st : cstate).
Definition mark_time (m : mark) : N := match m with MkPing t => t | MkChg t _ => t end.
Fixpoint merge_marks (fuel : nat) (a b : list mark) : list mark :=
  match fuel with
  | O => a ++ b
  | S f =>
    match a, b with
    | [], _ => b
    | _, [] => a
    | x :: a', y :: b' => if mark_time y <=? mark_time x then y :: merge_marks f a b' else x :: merge_marks f a' b
    end
  end.

Definition gap_step (bound : N) (acc : option N * list (N * N)) (m : mark) : option N * list (N * N) :=
  let '(since, fails) := acc in
  match m with
  | MkPing t =>
    match since with
    | Some s0 => (Some t, fails ++ (if bound <? t - s0 then [(33, 1)] else []))
    | None => (None, fails)
    end
  | MkChg t st =>
    let late := match since with Some s0 => if bound <? t - s0 then [(33, 1)] else [] | None => [] end in
    (if cstate_eqb st Active then Some t else None, fails ++ late)
  end.

Definition kmon_step (cfg : cl_cfg) (k k' : ka_state) (mouts : list ka_out) (ev : cl_event) (ios : list cl_out) (m : kmon)
  : kmon * list (N * N) :=
  if k_keepalive cfg =? 0 then (m, []) else
  let t1 := match ev with CAdv d => cl_now (ka_cl k) + d | _ => cl_now (ka_cl k) end in
  let chs := ko_changes mouts in
  let st0 := ka_seen k in
  let sns := ios ≫= (fun o => match o with CoSn t dg => [(t, dg)] | _ => [] end) in
  (* clause 2 *)
  let user_ping := user_ping_pending (ka_cl k) || match ev with CCall _ APing => true | _ => false end in
  let f2 := sns ≫= (fun td =>
              if (pingreq_kind (snd td) =? 1) && negb user_ping &&
                 match state_at st0 chs (fst td) with Asleep | Disconnected => true | _ => false end
              then [(33, 2)] else []) in
  (* clause 1 *)
  let pings := sns ≫= (fun td => if 0 <? pingreq_kind (snd td) then [MkPing (fst td)] else []) in
  let marks := merge_marks (length pings + length chs) pings (map (fun c => MkChg (fst c) (snd c)) chs) in
  (* the clause speaks of a live client: what happens after the client's group was cancelled in this
     step (Disconnect, Close, a failed keep-alive ping, a DISCONNECT of the gateway) is not judged.
     cl_cancelled holds the time at which the receive loop exits, up to readTimeout after the instant
     of the cancellation: only marks that are certainly before the cancellation are kept *)
  let marks := match cl_cancelled (ka_cl k') with
               | Some te => List.filter (fun mk => mark_time mk + readTimeout <=? te) marks
               | None => marks end in
  let '(since, f1) := fold_left (gap_step (ka_bound cfg)) marks (km_since m, []) in
  let alive := negb (is_some (cl_cancelled (ka_cl k'))) && negb (cl_exited (ka_cl k')) in
  let '(since, f1) := if negb alive then (None, f1) else
                      match since with
                      | Some s0 => if ka_bound cfg <? t1 - s0 then (Some t1, f1 ++ [(33, 1)]) else (since, f1)
                      | None => (None, f1)
                      end in
  (* clause 3 *)
  let f3 := ios ≫= (fun o => match o with
                             | CoRet _ id r => if negb (match r with ROk => true | _ => false end) && existsb (N.eqb id) (ka_victims k')
                                               then [(33, 3)] else []
                             | _ => [] end) in
  ({| km_since := since |}, f1 ++ f2 ++ f3).

(* fold over a history: the model supplies the context and (for the theorems) the outputs *)
Fixpoint kmon_run (cfg : cl_cfg) (k : ka_state) (m : kmon) (evs : list cl_event) : list (N * N) :=
  match evs with
  | [] => []
  | ev :: evs' =>
    let '(k', o) := ka_step cfg k ev in
    let '(m', f) := kmon_step cfg k k' o ev (ko_cl o) m in
    f ++ kmon_run cfg k' m' evs'
  end.

(* the history stays inside the sequential model *)
Fixpoint ka_modelled (cfg : cl_cfg) (k : ka_state) (evs : list cl_event) : bool :=
  match evs with
  | [] => negb (ka_excl k)
  | ev :: evs' => negb (ka_excl k) && ka_modelled cfg (fst (ka_step cfg k ev)) evs'
  end.
