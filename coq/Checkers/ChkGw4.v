(* Checkers/ChkGw4.v — C06 in the gateway: a monitor of the exchanges of both directions, kept by
   message ID AND direction as the property demands, independent of the gateway's own store (which
   is keyed by message ID only).  It is folded over a history next to the model like the monitor of
   ChkGw3.v and fed with the implementation's observations. *)
From stdpp Require Import base option list numbers fin_maps nmap.
From Verif.Base Require Import Bytes.
From Verif.Codec Require Import Packets Decode Encode.
From Verif.Topics Require Import Predefined.
From Verif.Gateway Require Import GwTypes GwStep.
From Verif.Checkers Require Import ChkCodec ChkGw ChkGw2.
Open Scope N_scope.

Record mon6 := {
  x_cpub : list (N * N);        (* client QoS 1 PUBLISHes forwarded to the broker: message ID, until when the
                                   gateway waits for the broker's PUBACK *)
  x_csub : list (N * N);        (* client SUBSCRIBEs forwarded: message ID, until when *)
  x_bpub : list (N * N * N);    (* broker QoS 1/2 PUBLISHes written to the client: message ID, QoS, until when
                                   the gateway waits for the client's PUBACK / PUBREC *)
  x_breg : list (N * N);        (* broker QoS 1/2 PUBLISHes received: message ID, until when their exchange (REGISTER
                                   step included) can be in progress - used to recognise interference only *)
  x_csup : list N;              (* IDs of client exchanges in progress that superseded an earlier client exchange with
                                   the same ID which had not finished *)
  x_cint : list N;              (* IDs of client exchanges in progress during whose life a broker exchange used the same ID *)
  x_bint : list N               (* IDs of broker exchanges in progress during whose life a client exchange used the same ID *)
}.
Definition mon6_init : mon6 := {| x_cpub := []; x_csub := []; x_bpub := []; x_breg := []; x_csup := []; x_cint := []; x_bint := [] |}.
Definition memN (i : N) (l : list N) : bool := existsb (N.eqb i) l.

Definition live2 (t : N) (l : list (N * N)) : list (N * N) := List.filter (fun e => t <? snd e) l.
Definition live3 (t : N) (l : list (N * N * N)) : list (N * N * N) := List.filter (fun e => t <? snd e) l.
Definition has2 (m : N) (l : list (N * N)) : bool := existsb (fun e => fst e =? m) l.
Definition has3 (m q : N) (l : list (N * N * N)) : bool := existsb (fun e => (fst (fst e) =? m) && (snd (fst e) =? q)) l.
Definition any3 (m : N) (l : list (N * N * N)) : bool := existsb (fun e => fst (fst e) =? m) l.
Definition del2 (m : N) (l : list (N * N)) := List.filter (fun e => negb (fst e =? m)) l.
Definition del3 (m : N) (l : list (N * N * N)) := List.filter (fun e => negb (fst (fst e) =? m)) l.

Definition is_mq_puback_for (m : N) (p : mq_pkt) := match p with MqPuback i => i =? m | _ => false end.
Definition is_mq_pubrec_for (m : N) (p : mq_pkt) := match p with MqPubrec i => i =? m | _ => false end.
Definition is_sn_puback_for (m : N) (p : packet) := match p with Puback _ i _ => i =? m | _ => false end.
Definition is_sn_suback_for (m : N) (p : packet) := match p with Suback _ _ i _ => i =? m | _ => false end.

(* failures: clause c when an exchange of the other direction with the same message ID is in
   progress or was started (and possibly finished) during the life of this exchange (the
   interference the property is about), clause 20 + c when a client exchange superseded an earlier,
   unfinished client exchange with the same ID (whose end then removes the newer one's state),
   clause 10 + c otherwise *)
Definition mon6_step (cfg : gw_cfg) (s : gw_state) (ev : gw_event) (os : list obs) (m : mon6) : mon6 * list N :=
  let t0 := gw_now s in
  let ms := mqs os in
  let ps := sn_pkts os in
  let cpub := live2 t0 (x_cpub m) in
  let csub := live2 t0 (x_csub m) in
  let bpub := live3 t0 (x_bpub m) in
  let breg := live2 t0 (x_breg m) in
  let awake := running s && awake_for_output s in
  let cls (other : bool) (c : N) : list N := [if other then c else 10 + c] in
  let cls2 (other : bool) (i c : N) : list N := [if other then c else if memN i (x_csup m) then 20 + c else 10 + c] in
  let fails :=
    if negb (running s) then [] else
    match ev with
    | EvMq (MqPuback i) =>
      if has2 i cpub && awake && negb (existsb (is_sn_puback_for i) ps) then cls2 (any3 i bpub || has2 i breg || memN i (x_cint m)) i 1 else []
    | EvMq (MqSuback i codes) =>
      if has2 i csub && awake && (len codes =? 1) && negb (existsb (is_sn_suback_for i) ps) then cls2 (any3 i bpub || has2 i breg || memN i (x_cint m)) i 2 else []
    | EvSn dg =>
      match read_dgram dg with
      | Ok (Puback _ i rc) =>
        if has3 i 1 bpub && (rc =? RC_ACCEPTED) && negb (existsb (is_mq_puback_for i) ms) then cls (has2 i cpub || has2 i csub || memN i (x_bint m)) 3 else []
      | Ok (Pubrec i) =>
        if has3 i 2 bpub && negb (existsb (is_mq_pubrec_for i) ms) then cls (has2 i cpub || has2 i csub || memN i (x_bint m)) 4 else []
      | _ => []
      end
    | _ => []
    end in
  (* ---- update *)
  let cpub1 := match ev with EvMq (MqPuback i) => del2 i cpub | _ => cpub end in
  let csub1 := match ev with EvMq (MqSuback i _) => del2 i csub | _ => csub end in
  (* a broker PUBLISH that reuses the message ID of its own exchange in progress supersedes it (the
     property speaks of exchanges of the OTHER side and of finished or superseded ones) *)
  let bpub1 := match ev with
               | EvMq (MqPublish _ _ _ _ i _) => del3 i bpub
               | _ => match ev_packet ev with
                      | Some (Puback _ i _) | Some (Pubrec i) => del3 i bpub
                      | _ => bpub end
               end in
  let is_sn := match ev with EvSn _ => true | _ => false end in
  (* a new client exchange supersedes an unfinished earlier client exchange with the same ID: the property
     protects the exchange in progress (the new one), not the superseded one *)
  let newc0 := if is_sn then ms ≫= (fun p => match p with MqPublish _ 1 _ _ i _ => [i] | MqSubscribe i _ _ => [i] | _ => [] end) else [] in
  let keep (l : list (N * N)) := List.filter (fun e => negb (memN (fst e) newc0)) l in
  let cpub2 := if is_sn then
                 keep cpub1 ++ (ms ≫= (fun p => match p with MqPublish _ 1 _ _ i _ => [(i, t0 + retry_delay cfg)] | _ => [] end))
               else cpub1 in
  let csub2 := if is_sn then
                 keep csub1 ++ (ms ≫= (fun p => match p with MqSubscribe i _ _ => [(i, t0 + retry_delay cfg)] | _ => [] end))
               else csub1 in
  (* first transmissions written at once (not from the sleep buffer) in the step that handles the
     broker's PUBLISH or the client's REGACK *)
  (* ... of a connected session: a broker that publishes before its CONNACK (MQTT-3.2.0-1 forbids it) starts
     no exchange the property speaks about - the client's acknowledgement is an illegal packet then *)
  let direct := connected s &&
                match ev with
                | EvMq (MqPublish _ _ _ _ _ _) => true
                | EvSn _ => match ev_packet ev with Some (Regack _ _ _) => true | _ => false end
                | _ => false end in
  let bpub2 := if direct then
                 bpub1 ++ (ps ≫= (fun p => match p with
                                           | Publish false q _ _ _ i _ =>
                                             if (q =? 1) || (q =? 2) then [(i, q, t0 + (retry_count cfg + 1) * retry_delay cfg)] else []
                                           | _ => [] end))
               else bpub1 in
  let breg2 := match ev with
               | EvMq (MqPublish _ q _ _ i _) =>
                 if (q =? 1) || (q =? 2) then del2 i breg ++ [(i, t0 + 2 * (retry_count cfg + 1) * retry_delay cfg)] else breg
               | _ => breg end in
  let newc := if is_sn then ms ≫= (fun p => match p with MqPublish _ 1 _ _ i _ => [i] | MqSubscribe i _ _ => [i] | _ => [] end) else [] in
  let csup2 := List.filter (fun i => has2 i cpub2 || has2 i csub2)
                           (x_csup m ++ List.filter (fun i => has2 i cpub1 || has2 i csub1) newc) in
  let cint0 := List.filter (fun i => has2 i cpub1 || has2 i csub1) (x_cint m) in
  let bint0 := List.filter (fun i => any3 i bpub1) (x_bint m) in
  let both := List.filter (fun i => any3 i bpub2 || has2 i breg2) (map fst (cpub2 ++ csub2)) in
  ({| x_cpub := cpub2; x_csub := csub2; x_bpub := bpub2; x_breg := breg2; x_csup := csup2; x_cint := cint0 ++ both; x_bint := bint0 ++ both |}, fails).

Fixpoint mon6_run (cfg : gw_cfg) (s : gw_state) (m : mon6) (evs : list gw_event) : list N :=
  match evs with
  | [] => []
  | ev :: evs' =>
    let '(s', outs) := gw_step cfg s ev in
    let '(m', f) := mon6_step cfg s ev (obs_of_outs outs) m in
    f ++ mon6_run cfg s' m' evs'
  end.
