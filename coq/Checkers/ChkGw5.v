(* Checkers/ChkGw5.v — C16 in the gateway, per step: every step of a broker-publish exchange is
   relayed.  The context is the exchange the (model) store holds for the message ID:
     clause 7   the client's accepting PUBACK for a QoS 1 exchange awaiting it  -> MQTT PUBACK to the broker
     clause 8   the client's PUBREC for a QoS 2 exchange awaiting it            -> MQTT PUBREC
     clause 9   the client's PUBCOMP for a QoS 2 exchange awaiting it           -> MQTT PUBCOMP
     clause 10  the broker's PUBREL for a QoS 2 exchange awaiting it, client not asleep -> PUBREL to the client
   each with the same message ID, in the same step. *)
From stdpp Require Import base option list numbers fin_maps nmap.
From Verif.Base Require Import Bytes.
From Verif.Codec Require Import Packets Decode Encode.
From Verif.Topics Require Import Predefined.
From Verif.Gateway Require Import GwTypes GwStep.
From Verif.Checkers Require Import ChkCodec ChkGw ChkGw2.
Open Scope N_scope.

Definition bp_awaits (s : gw_state) (mid qos : N) (st : bp_state) : bool :=
  match get_by_id s mid with
  | Some (_, TxBrokerPub _ q st' _ _ _) => (q =? qos) && bp_state_eqb st' st
  | _ => false
  end.

Definition has_mq (f : mq_pkt -> bool) (os : list obs) : bool := existsb f (mqs os).
Definition has_sn (f : packet -> bool) (os : list obs) : bool := existsb f (sn_pkts os).

Definition chk_C16 (cfg : gw_cfg) (s : gw_state) (ev : gw_event) (os : list obs) : list N :=
  if negb (running s) then [] else
  match ev with
  | EvSn dg =>
    match read_dgram dg with
    | Ok p =>
      if negb (packet_legal cfg s p) then [] else
      match p with
      | Puback _ mid rc =>
        if bp_awaits s mid 1 AwaitPuback && (rc =? RC_ACCEPTED) &&
           negb (has_mq (fun m => match m with MqPuback i => i =? mid | _ => false end) os) then [7] else []
      | Pubrec mid =>
        if bp_awaits s mid 2 AwaitPubrec &&
           negb (has_mq (fun m => match m with MqPubrec i => i =? mid | _ => false end) os) then [8] else []
      | Pubcomp mid =>
        if bp_awaits s mid 2 AwaitPubcomp &&
           negb (has_mq (fun m => match m with MqPubcomp i => i =? mid | _ => false end) os) then [9] else []
      | _ => []
      end
    | _ => []
    end
  | EvMq (MqPubrel mid) =>
    if bp_awaits s mid 2 AwaitPubrel && awake_for_output s &&
       negb (has_sn (fun p => match p with Pubrel i => i =? mid | _ => false end) os) then [10] else []
  | _ => []
  end.
