(* Checkers/ChkCl5.v — C27, the "is delivered" half: a PUBLISH that a live client delivers (QoS 0/1
   on receipt, QoS 2 on PUBREL) whose resolved topic matches at least one current subscription
   invokes a callback in the same step (clause 5).  chk_C27 (ChkCl.v) is the "only matching
   callbacks" half. *)
From stdpp Require Import base option list numbers fin_maps nmap.
From Verif.Base Require Import Bytes.
From Verif.Codec Require Import Packets Decode Encode.
From Verif.Topics Require Import Predefined.
From Verif.Gateway Require Import GwTypes.
From Verif.Match Require Import Match.
From Verif.Client Require Import ClTypes ClStep.
From Verif.Checkers Require Import ChkCodec ChkGw ChkCl.
Open Scope N_scope.

Definition chk_C27b (cfg : cl_cfg) (s : cl_state) (ev : cl_event) (os : list cl_out) : list N :=
  if negb (c_live s) then [] else
  match delivered cfg s ev with
  | Some (tit, tid) =>
    match topic_for_publish cfg s tit tid with
    | Some t =>
      match handle_set (cl_handlers s) t, c_cbs os with
      | _ :: _, [] => [5]
      | _, _ => []
      end
    | None => []
    end
  | None => []
  end.
