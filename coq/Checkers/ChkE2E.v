(* Checkers/ChkE2E.v — C26 and C16 as a monitor folded over an end-to-end history next to the
   composed model (System/Compose.v); fed with the observations of the real client + real gateway
   (drv_e2e).  Failures are (property number, clause). *)
From stdpp Require Import base option list numbers fin_maps nmap.
From Verif.Base Require Import Bytes.
From Verif.Codec Require Import Packets Decode Encode.
From Verif.Topics Require Import Predefined.
From Verif.Gateway Require Import GwTypes GwStep.
From Verif.Match Require Import Match.
From Verif.Client Require Import ClTypes ClStep.
From Verif.System Require Import Compose.
From Verif.Checkers Require Import ChkCodec ChkGw.
Open Scope N_scope.

Definition lossless (cfg : e2e_cfg) : bool :=
  forallb (fun f => match f with FDeliver => true | _ => false end) (e_c2g cfg ++ e_g2c cfg).
Definition nfaults (cfg : e2e_cfg) : N :=
  len (List.filter (fun f => match f with FDeliver => false | _ => true end) (e_c2g cfg ++ e_g2c cfg)).

Definition so_brs (os : list sys_out) : list mq_pkt := os ≫= (fun o => match o with SoBR _ m => [m] | _ => [] end).
Definition so_bss (os : list sys_out) : list mq_pkt := os ≫= (fun o => match o with SoBS _ m => [m] | _ => [] end).
Definition so_rets (os : list sys_out) : list (N * cres) := os ≫= (fun o => match o with SoRet _ id r => [(id, r)] | _ => [] end).
Definition so_cbs (os : list sys_out) : list (bytes * bytes * N) :=
  os ≫= (fun o => match o with SoCb _ _ topic payload _ _ _ mid => [(topic, payload, mid)] | _ => [] end).
Definition so_g2c (os : list sys_out) : list bytes := os ≫= (fun o => match o with SoG2C _ _ dg => [dg] | _ => [] end).

Definition is_ok (r : cres) : bool := match r with ROk => true | _ => false end.

(* the MQTT packet that documents the effect of an API call at the broker *)
Definition effect_seen (cfg : e2e_cfg) (a : api) (brs : list mq_pkt) : bool :=
  let cl := e_cl cfg in
  let pre tid := get_name (k_predef cl) (k_cid cl) tid in
  let has (f : mq_pkt -> bool) := existsb f brs in
  match a with
  | AConnect => has (fun m => match m with MqConnect c => beq (c_cid c) (k_cid cl) | _ => false end)
  | ASubscribe t q => has (fun m => match m with MqSubscribe _ _ [(f, q')] => beq f t && (q' =? q) | _ => false end)
  | ASubPre tid q => match pre tid with
                     | Some t => has (fun m => match m with MqSubscribe _ _ [(f, q')] => beq f t && (q' =? q) | _ => false end)
                     | None => true end
  | APublish t q r p => has (fun m => match m with MqPublish _ q' r' t' _ p' => beq t' t && (q' =? if q =? 3 then 0 else q) && Bool.eqb r' r && beq p' p | _ => false end)
  | APubPre tid q r p => match pre tid with
                         | Some t => has (fun m => match m with MqPublish _ q' r' t' _ p' => beq t' t && (q' =? if q =? 3 then 0 else q) && Bool.eqb r' r && beq p' p | _ => false end)
                         | None => true end
  | AUnsub t => has (fun m => match m with MqUnsubscribe _ [f] => beq f t | _ => false end)
  | AUnsubPre tid => match pre tid with
                     | Some t => has (fun m => match m with MqUnsubscribe _ [f] => beq f t | _ => false end)
                     | None => true end
  | APing => has (fun m => match m with MqPingreq => true | _ => false end)
  | ADisconnect | AClose => has (fun m => match m with MqDisconnect => true | _ => false end)
  | ARegister _ | ASleep _ => true
  end.

(* may the call be expected to succeed?  (what "any sequence of API calls" can reasonably mean:
   the client is connected, published names are registered, QoS values exist) *)
Definition call_sensible (cfg : e2e_cfg) (y : sys) (a : api) : bool :=
  let c := y_cl y in
  let cl := e_cl cfg in
  match a with
  | AConnect => cstate_eqb (cl_st c) Disconnected
  | APublish t q _ _ => cstate_eqb (cl_st c) Active && (q <=? 3) &&
                        (is_short_topic t || match reg_lookup (cl_registered c) t with Some _ => true | None => false end)
  | APubPre tid q _ _ => cstate_eqb (cl_st c) Active && (q <=? 3) &&
                         match get_name (k_predef cl) (k_cid cl) tid with Some _ => true | None => false end
  | ASubscribe t q => cstate_eqb (cl_st c) Active && (q <=? 2) && negb (len t =? 0)
  | ASubPre tid q => cstate_eqb (cl_st c) Active && (q <=? 2) &&
                     match get_name (k_predef cl) (k_cid cl) tid with Some _ => true | None => false end
  | AUnsubPre tid => cstate_eqb (cl_st c) Active &&
                     match get_name (k_predef cl) (k_cid cl) tid with Some _ => true | None => false end
  | ARegister t | AUnsub t => cstate_eqb (cl_st c) Active && negb (len t =? 0) && negb (has_wildcard t && match a with ARegister _ => true | _ => false end)
  | APing => cstate_eqb (cl_st c) Active || cstate_eqb (cl_st c) Awake   (* awake: the gateway answers the PINGREQ of the sleeping session itself *)
  | ADisconnect | AClose => cstate_eqb (cl_st c) Active
  | ASleep _ => cstate_eqb (cl_st c) Active || cstate_eqb (cl_st c) Awake
  end.

Record pend_bpub := { pb_mid : N; pb_qos : N; pb_topic : bytes; pb_payload : bytes; pb_deadline : N;
                      pb_cb : N (* handler invocations so far *); pb_acked : bool }.

Record emon := {
  em_sleeps : list (N * N * N);        (* Sleep calls in progress: id, start, ms *)
  em_bpubs : list pend_bpub;           (* broker QoS 1/2 messages for an active client, lossy link *)
  em_tx : list (bytes * N)             (* C16: gateway datagrams written so far (as first written), count *)
}.
Definition emon_init : emon := {| em_sleeps := []; em_bpubs := []; em_tx := [] |}.

Definition strip_dup (dg : bytes) : bytes :=
  match read_dgram dg with
  | Ok (Publish _ q r tit tid mid d) => pack (Publish false q r tit tid mid d)
  | _ => dg
  end.
Definition has_dup_flag (dg : bytes) : bool :=
  match read_dgram dg with Ok (Publish d _ _ _ _ _ _) => d | _ => true end.
Definition retransmittable (dg : bytes) : bool :=
  match read_dgram dg with Ok (Publish _ q _ _ _ _ _) => negb (q =? 0) | Ok (Register _ _ _) | Ok (Pubrel _) => true | _ => false end.

Fixpoint tx_count (dg : bytes) (l : list (bytes * N)) : N :=
  match l with [] => 0 | (d, n) :: r => if beq d dg then n else tx_count dg r end.
Fixpoint tx_bump (dg : bytes) (l : list (bytes * N)) : list (bytes * N) :=
  match l with [] => [(dg, 1)] | (d, n) :: r => if beq d dg then (d, n + 1) :: r else (d, n) :: tx_bump dg r end.

Definition running_sys (y : sys) : bool := negb (gw_ended (y_gw y)) && negb (cl_exited (y_cl y)).

Definition handler_matches (c : cl_state) (topic : bytes) : bool :=
  match handle_set (cl_handlers c) topic with [] => false | _ => true end.

Definition emon_step (cfg : e2e_cfg) (y y' : sys) (ev : sys_event) (os : list sys_out) (m : emon) : emon * list (N * N) :=
  let t0 := gw_now (y_gw y) in
  let t1 := match ev with SAdv d => t0 + d | _ => t0 end in
  let ll := lossless cfg in
  let rets := so_rets os in
  let brs := so_brs os in
  let cbs := so_cbs os in
  let R := retry_count (e_gw cfg) in
  (* ---- C26 (lossless link): a sensible call succeeds at once with its documented effect at the broker *)
  let f26a := match ev with
              | SCall id a =>
                if ll && call_sensible cfg y a && negb (match a with ASleep _ => true | _ => false end) then
                  (if existsb (fun ir => (fst ir =? id) && is_ok (snd ir)) rets then [] else [(26, 1)]) ++
                  (if effect_seen cfg a brs || (match a with APing => true | _ => false end && cstate_eqb (cl_st (y_cl y)) Awake) then [] else [(26, 2)])
                else []
              | _ => [] end in
  (* a Sleep call returns nil once its wake-up cycle is over *)
  (* (also when it fails at once, in the step of the call itself) *)
  let sleeps0 := em_sleeps m ++ match ev with
                                | SCall id (ASleep ms) => if call_sensible cfg y (ASleep ms) then [(id, t0, ms)] else []
                                | _ => [] end in
  let f26s := rets ≫= (fun ir => if existsb (fun s => fst (fst s) =? fst ir) sleeps0 && negb (is_ok (snd ir)) && ll
                                 then [(26, 3)] else []) in
  (* every broker message for an active client with a matching subscription reaches its handler (lossless) *)
  let bmsgs := match ev with SBpub m => [m] | SBurst ms => ms | _ => [] end in
  let f26b := bmsgs ≫= (fun m => match m with
              | MqPublish _ q _ topic mid payload =>
                if ll && cstate_eqb (cl_st (y_cl y)) Active && handler_matches (y_cl y) topic && (q <=? 2) && running_sys y then
                  (let n := len (List.filter (fun c => beq (fst (fst c)) topic && beq (snd (fst c)) payload && ((q =? 0) || (snd c =? mid))) cbs) in
                   if (if q =? 0 then 1 <=? n else n =? 1) then [] else [(26, 4)])
                else []
              | _ => [] end) in
  (* ---- C16 safety: a gateway datagram written again is unchanged but for DUP, carries DUP, and is
          written at most RetryCount + 1 times *)
  (* a broker PUBLISH starts a new exchange: what was written for an earlier exchange with the same
     message ID (possibly the very same bytes) is not a first transmission of this one *)
  let bmids := bmsgs ≫= (fun m => match m with MqPublish _ _ _ _ mid _ => [mid] | _ => [] end) in
  let tx0 := List.filter (fun e => match read_dgram (fst e) with
                                   | Ok (Publish _ _ _ _ _ i _) | Ok (Pubrel i) => negb (existsb (N.eqb i) bmids)
                                   | _ => true end) (em_tx m) in
  let tx_step := fold_left (fun acc dg =>
                   let '(tx, f) := acc in
                   if negb (retransmittable dg) then (tx, f) else
                   let key := strip_dup dg in
                   let n := tx_count key tx in
                   (tx_bump key tx,
                    f ++ (if (0 <? n) && negb (has_dup_flag dg) then [(16, 2)] else [])
                      ++ (if R + 1 <=? n then [(16, 3)] else []))) (so_g2c os) (tx0, []) in
  (* ---- C16 liveness: within the retry budget a QoS 1/2 broker message for an active client is
          delivered (QoS 2: exactly once) and acknowledged to the broker *)
  let track := negb ll && (nfaults cfg <=? R) in
  let ncb_of (mid : N) (topic payload : bytes) :=
    len (List.filter (fun c => (snd c =? mid) && beq (fst (fst c)) topic && beq (snd (fst c)) payload) cbs) in
  let ack_of (q mid : N) :=
    existsb (fun b => match b with
                      | MqPuback i => (q =? 1) && (i =? mid)
                      | MqPubcomp i => (q =? 2) && (i =? mid)
                      | _ => false end) brs in
  let bp1 := map (fun p =>
               let ncb := ncb_of (pb_mid p) (pb_topic p) (pb_payload p) in
               let ack := ack_of (pb_qos p) (pb_mid p) in
               {| pb_mid := pb_mid p; pb_qos := pb_qos p; pb_topic := pb_topic p; pb_payload := pb_payload p;
                  pb_deadline := pb_deadline p; pb_cb := pb_cb p + ncb; pb_acked := pb_acked p || ack |}) (em_bpubs m) in
  let f16l := bp1 ≫= (fun p =>
                (if (pb_qos p =? 2) && (1 <? pb_cb p) then [(16, 4)] else []) ++
                (if pb_deadline p <? t1 then
                   (if pb_cb p =? 0 then [(16, 5)] else []) ++ (if pb_acked p then [] else [(16, 6)])
                 else [])) in
  (* a message is owed only while the client stays connected: a Disconnect / Close / Sleep call of the
     program or the end of the session releases what is still pending *)
  let released := negb (running_sys y') ||
                  match ev with SCall _ ADisconnect | SCall _ AClose | SCall _ (ASleep _) => true | _ => false end in
  let bp2 := if released then [] else List.filter (fun p => negb (pb_deadline p <? t1)) bp1 in
  let bp3 := bp2 ++ (bmsgs ≫= (fun m => match m with
             | MqPublish _ q _ topic mid payload =>
               if track && cstate_eqb (cl_st (y_cl y)) Active && handler_matches (y_cl y) topic && ((q =? 1) || (q =? 2)) && running_sys y
               then [{| pb_mid := mid; pb_qos := q; pb_topic := topic; pb_payload := payload;
                        pb_deadline := t0 + 4 * (R + 1) * (N.max (retry_delay (e_gw cfg)) (k_rdelay (e_cl cfg))) + 1000;
                        pb_cb := ncb_of mid topic payload; pb_acked := ack_of q mid |}]
               else []
             | _ => [] end)) in
  let sleeps2 := List.filter (fun s => negb (existsb (fun ir => fst ir =? fst (fst s)) rets)) sleeps0 in
  ({| em_sleeps := sleeps2; em_bpubs := bp3; em_tx := fst tx_step |},
   f26a ++ f26s ++ f26b ++ snd tx_step ++ f16l).

(* fold over a history: the composed model supplies states and (for the theorems) the observations *)
Fixpoint emon_run (cfg : e2e_cfg) (y : sys) (m : emon) (evs : list sys_event) : list (N * N) :=
  match evs with
  | [] => []
  | ev :: evs' =>
    let '(y', os) := sys_step cfg y ev in
    let '(m', f) := emon_step cfg y y' ev os m in
    f ++ emon_run cfg y' m' evs'
  end.
