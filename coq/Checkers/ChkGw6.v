(* Checkers/ChkGw6.v — C06 in the gateway, the REGISTER step of a broker PUBLISH exchange.

   mon6 (ChkGw4.v) opens a broker exchange when its PUBLISH is written.  A broker PUBLISH on a topic the
   client has no topic ID for starts with a REGISTER; the PUBLISH is written at the client's accepting
   REGACK.  mon6r books these REGISTER steps and demands the PUBLISH at the accepted REGACK of a step in
   progress - whatever acknowledgements (PUBACK / PUBREC / PUBCOMP, accepting or not) of EARLIER exchanges
   with the same message ID arrived meanwhile.  Definitions only; soundness: Gateway/Sound_C06r.v. *)
From stdpp Require Import base option list numbers fin_maps nmap.
From Verif.Base Require Import Bytes.
From Verif.Codec Require Import Packets Decode Encode.
From Verif.Topics Require Import Predefined.
From Verif.Gateway Require Import GwTypes GwStep.
From Verif.Checkers Require Import ChkCodec ChkGw ChkGw2 ChkGw4.
Open Scope N_scope.

(* one REGISTER step in progress *)
Record rentry := {
  re_mid : N;        (* message ID of the REGISTER (the broker's for QoS 1/2, the gateway's own for QoS 0) *)
  re_tid : N;        (* topic ID the REGISTER announces *)
  re_qos : N;        (* QoS of the broker's PUBLISH *)
  re_until : N;      (* until when the gateway retransmits the REGISTER and waits for the REGACK *)
  re_hit : bool      (* a client exchange with the same message ID was started during the step *)
}.
Record mon6r := { r_book : list rentry }.
Definition mon6r_init : mon6r := {| r_book := [] |}.

(* message IDs of the client exchanges a step starts (the MQTT packets mon6 opens x_cpub / x_csub on) *)
Definition cstart6 (p : mq_pkt) : list N :=
  match p with MqPublish _ 1 _ _ i _ => [i] | MqSubscribe i _ _ => [i] | _ => [] end.

(* the PUBLISH that completes the REGISTER step e *)
Definition is_pub_for (e : rentry) (p : packet) : bool :=
  match p with
  | Publish _ _ _ tit tid i _ => (tit =? TIT_REGISTERED) && (tid =? re_tid e) && ((re_qos e =? 0) || (i =? re_mid e))
  | _ => false
  end.

Definition hit_entry (e : rentry) : rentry :=
  {| re_mid := re_mid e; re_tid := re_tid e; re_qos := re_qos e; re_until := re_until e; re_hit := true |}.

(* m6: mon6's state before the step.  It is NOT consulted: mon6 forgets a client exchange when it
   completes, while what replaces the transaction of the REGISTER step is the START of a client exchange
   with the same message ID during the step, whether or not it is still in progress at the REGACK; the
   book keeps that fact itself (re_hit).  A client exchange that was already in progress when the broker's
   PUBLISH arrived does not disturb the REGISTER step (it is the one disturbed: mon6 clauses 1/2). *)
Definition mon6r_step (cfg : gw_cfg) (s : gw_state) (ev : gw_event) (os : list obs) (m6 : mon6) (m : mon6r)
  : mon6r * list N :=
  let t0 := gw_now s in
  let ms := mqs os in
  let ps := sn_pkts os in
  (* removal 1: the time of the step is over - the retry transaction gave up after retry_count
     retransmissions (fire: retry_count < n + 1 -> finish_obj) *)
  let book := List.filter (fun e => t0 <? re_until e) (r_book m) in
  (* failures: clause 5 when a client exchange with the same message ID was started during the step
     (its transaction took the store's slot of the message ID), 15 otherwise *)
  let fails :=
    if running s && awake_for_output s then
      match ev with
      | EvSn dg =>
        match read_dgram dg with
        | Ok (Regack tid i rc) =>
          if rc =? RC_ACCEPTED then
            book ≫= (fun e => if (re_mid e =? i) && (re_tid e =? tid) && negb (existsb (is_pub_for e) ps)
                              then [if re_hit e then 5 else 15] else [])
          else []
        | _ => []
        end
      | _ => []
      end
    else [] in
  (* removal 2: any REGACK with the message ID ends the step (bp_regack: a rejecting one finishes the
     transaction, an accepting one moves it on to the PUBLISH).
     removal 3: a broker PUBLISH of QoS 1/2 with the same message ID supersedes the step
     (handle_broker_publish stores the new transaction under the message ID; a QoS 0 PUBLISH has no
     message ID and takes a free one).
     No other removal: PUBACK / PUBREC / PUBCOMP / MQTT PUBACK / SUBACK / PUBREL with the message ID leave a
     transaction in AwaitRegack alone, CONNECT / DISCONNECT / PINGREQ of the client do not touch the
     store; a session that ended is not running (no clause). *)
  let book1 := match ev with
               | EvMq (MqPublish _ q _ _ i _) =>
                 if (q =? 1) || (q =? 2) then List.filter (fun e => negb (re_mid e =? i)) book else book
               | EvSn dg =>
                 match read_dgram dg with
                 | Ok (Regack _ i _) => List.filter (fun e => negb (re_mid e =? i)) book
                 | _ => book
                 end
               | _ => book
               end in
  (* interference: the client starts an exchange with the message ID of a step in progress *)
  let newc := match ev with EvSn _ => ms ≫= cstart6 | _ => [] end in
  let book2 := map (fun e => if memN (re_mid e) newc then hit_entry e else e) book1 in
  (* new steps: the REGISTERs written in the step that handles a broker PUBLISH, in a connected session
     (as for mon6's x_bpub: before its CONNACK the broker starts no exchange the property speaks about, the
     client's REGACK is an illegal packet then) and whose PUBLISH fits a datagram (the size is checked
     when the PUBLISH is written, at the REGACK: a PUBLISH that does not fit is never written, snSend
     fails with "packet too long" and the session ends, C23) *)
  let book3 := match ev with
               | EvMq (MqPublish dup q retain _ mid0 payload) =>
                 if connected s then
                   book2 ++ (ps ≫= (fun p => match p with
                                             | Register tid i _ =>
                                               if len (pack (Publish dup q retain TIT_REGISTERED tid mid0 payload)) <=? MaxPacketLen
                                               then [{| re_mid := i; re_tid := tid; re_qos := q;
                                                        re_until := t0 + (retry_count cfg + 1) * retry_delay cfg;
                                                        re_hit := false |}]
                                               else []
                                             | _ => [] end))
                 else book2
               | _ => book2
               end in
  ({| r_book := book3 |}, fails).

(* mon6 and mon6r side by side over a history; mon6r is fed with mon6's state before each step *)
Fixpoint mon6r_run (cfg : gw_cfg) (s : gw_state) (m6 : mon6) (m : mon6r) (evs : list gw_event) : list N :=
  match evs with
  | [] => []
  | ev :: evs' =>
    let '(s', outs) := gw_step cfg s ev in
    let os := obs_of_outs outs in
    let '(m', f) := mon6r_step cfg s ev os m6 m in
    let '(m6', _) := mon6_step cfg s ev os m6 in
    f ++ mon6r_run cfg s' m6' m' evs'
  end.
