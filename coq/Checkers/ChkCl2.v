(* Checkers/ChkCl2.v — timed statements about the client library as a monitor folded over a
   history next to the client model: C28 (every blocking API call returns within its bound; the
   client exits after Close or a DISCONNECT from the gateway) and the retry-budget half of C17
   (Publish QoS 1/2 returns nil only for an acknowledgement that arrived within the budget).

   The monitor keeps what the property texts speak about - when each call started, which bound
   its kind has, when its exchange last made progress - and reads the model state only to learn
   which message ID a call's exchange uses. *)
From stdpp Require Import base option list numbers fin_maps nmap.
From Verif.Base Require Import Bytes.
From Verif.Codec Require Import Packets Decode Encode.
From Verif.Topics Require Import Predefined.
From Verif.Gateway Require Import GwTypes.
From Verif.Match Require Import Match.
From Verif.Client Require Import ClTypes ClStep.
From Verif.Checkers Require Import ChkCodec ChkGw ChkCl.
Open Scope N_scope.

(* one retry budget: the first transmission plus RetryCount retransmissions, RetryDelay apart *)
Definition budget (cfg : cl_cfg) : N := (k_rcount cfg + 1) * k_rdelay cfg.

(* the bound of C28 for a call (ms from its start); the last term is the receive loop's poll
   interval, which a return through group.Wait() adds *)
Definition call_bound (cfg : cl_cfg) (a : api) : N :=
  (match a with
   | AConnect => (k_rcount cfg + 1) * k_ctimeout cfg
   | ARegister _ | ASubscribe _ _ | ASubPre _ _ | AUnsub _ | AUnsubPre _ | APing => budget cfg
   | APublish _ q _ _ | APubPre _ q _ _ => if q =? 2 then 2 * budget cfg else if q =? 1 then budget cfg else 0
   | ASleep ms => budget cfg + ms + maxPingrespWait
   | ADisconnect | AClose => budget cfg
   end) + readTimeout.

Record pending := { p_id : N; p_deadline : N; p_progress : N (* C17: last progress of the exchange *);
                    p_over : bool (* already reported as overdue *);
                    p_pub : bool (* a Publish with QoS 1 or 2 *) }.

Record cmon := {
  cm_calls : list pending;     (* API calls that have not returned yet *)
  cm_exit_by : option N        (* C28: Close was called / the gateway disconnected: the client must be gone by then *)
}.
Definition cmon_init : cmon := {| cm_calls := []; cm_exit_by := None |}.

Definition c_exits (os : list cl_out) : list N := os ≫= (fun o => match o with CoExit t => [t] | _ => [] end).
Definition c_ret_times (os : list cl_out) : list (N * N * cres) :=
  os ≫= (fun o => match o with CoRet t id r => [(id, t, r)] | _ => [] end).

Definition c_step_end (s : cl_state) (ev : cl_event) : N :=
  match ev with CAdv d => cl_now s + d | _ => cl_now s end.

(* the publish exchange of call id in the model state: (message ID, awaited acknowledgement) *)
Definition pub_exchange (s : cl_state) (id : N) : option (N * ct_state) :=
  match List.filter (fun gt => match snd gt with CxRetry call kind _ _ _ _ _ => (call =? id) && ((kind =? 3) || (kind =? 4)) | _ => false end)
                    (map_to_list (cl_objs s)) with
  | (_, CxRetry _ _ key st _ _ _) :: _ => Some (key, st)
  | _ => None
  end.

(* failures are (property number, clause) *)
Definition cmon_step (cfg : cl_cfg) (s : cl_state) (ev : cl_event) (os : list cl_out) (m : cmon)
  : cmon * list (N * N) :=
  let t0 := cl_now s in
  let t1 := c_step_end s ev in
  let live := negb (cl_exited s) && match cl_cancelled s with None => true | Some _ => false end in
  let rets := c_ret_times os in
  (* C28 (1): a call that returns, returns by its deadline; a call still pending when its deadline
     passes is a failure *)
  let late_ret := rets ≫= (fun r => match r with (id, t, _) =>
                     match List.filter (fun p => p_id p =? id) (cm_calls m) with
                     | p :: _ => if (t <=? p_deadline p) || p_over p then [] else [(28, 1)]
                     | [] => [] end end) in
  let returned id := existsb (fun r => match r with (id', _, _) => id' =? id end) rets in
  let overdue := cm_calls m ≫= (fun p => if negb (p_over p) && negb (returned (p_id p)) && (p_deadline p <? t1) then [(28, 1)] else []) in
  (* C17 (4): Publish returns nil only for an acknowledgement within the budget of the exchange's last progress *)
  let late_ok := rets ≫= (fun r => match r with (id, t, res) =>
                    match res, List.filter (fun p => p_id p =? id) (cm_calls m) with
                    | ROk, p :: _ => if negb (p_pub p) || (t <=? p_progress p + budget cfg) then [] else [(17, 4)]
                    | _, _ => [] end end) in
  (* C28 (2): the client is gone in time after Close / a DISCONNECT from the gateway *)
  let exit_fail := match cm_exit_by m with
                   | Some T => if (T <? t1) && negb (existsb (fun t => t <=? T) (c_exits os)) then [(28, 2)] else []
                   | None => [] end in
  (* ---- update *)
  let calls1 := map (fun p => if p_deadline p <? t1 then {| p_id := p_id p; p_deadline := p_deadline p; p_progress := p_progress p; p_over := true; p_pub := p_pub p |} else p)
                    (List.filter (fun p => negb (returned (p_id p))) (cm_calls m)) in
  (* progress of a QoS 2 publish: the first PUBREC for its message ID while PUBREC is awaited *)
  let calls2 := match ev_pkt ev with
                | Some (Pubrec mid) =>
                  map (fun p => match pub_exchange s (p_id p) with
                                | Some (key, CtAwaitPubrec) => if key =? mid then {| p_id := p_id p; p_deadline := p_deadline p; p_progress := t0; p_over := p_over p; p_pub := p_pub p |} else p
                                | _ => p end) calls1
                | _ => calls1 end in
  let calls3 := match ev with
                | CCall id a => if live && negb (returned id)
                                then calls2 ++ [{| p_id := id; p_deadline := t0 + call_bound cfg a; p_progress := t0; p_over := false;
                                                p_pub := match a with APublish _ q _ _ | APubPre _ q _ _ => (q =? 1) || (q =? 2) | _ => false end |}] else calls2
                | _ => calls2 end in
  let gone := match c_exits os with [] => cl_exited s | _ => true end in
  let exit_by :=
    if gone then None else
    match cm_exit_by m with
    | Some T => if T <? t1 then None else Some T
    | None =>
      match ev with
      | CCall _ AClose => if live then Some (t0 + budget cfg + readTimeout) else None
      | CGw dg => match read_dgram dg with
                  | Ok (Disconnect _) => if live && match cl_by_type s !! TY_DISCONNECT with None => true | Some _ => false end
                                         then Some (t0 + readTimeout) else None
                  | _ => None end
      | _ => None
      end
    end in
  ({| cm_calls := if gone then [] else calls3; cm_exit_by := exit_by |},
   late_ret ++ overdue ++ late_ok ++ exit_fail).

Fixpoint cmon_run (cfg : cl_cfg) (s : cl_state) (m : cmon) (evs : list cl_event) : list (N * N) :=
  match evs with
  | [] => []
  | ev :: evs' =>
    let '(s', outs) := cl_step cfg s ev in
    let '(m', f) := cmon_step cfg s ev outs m in
    f ++ cmon_run cfg s' m' evs'
  end.
