(* Checkers/ChkGw7.v — C07 as a property of the OBSERVED TRACE of a gateway session.

   chk_C07 (ChkGw2.v) judges one step with the model's state as context and is silent once the model's
   session is over.  mon7 needs no model state: it is a function of the configuration, the events and the
   observations only, so it also sees a gateway that keeps a never-connected session alive and relays
   traffic with no MQTT CONNECT at all.

   Property text: "A gateway session reports a client as connected (CONNACK accepted) and relays its
   traffic only after the broker has accepted an MQTT CONNECT sent for that client in the current
   session.  The only exception, when authentication is disabled, is a QoS -1 PUBLISH on a short or
   predefined topic.  Before that, any packet outside the connect exchange closes the session without
   anything being forwarded."

   Definitions only; soundness on the model: Gateway/Sound_C07t.v. *)
From stdpp Require Import base option list numbers fin_maps nmap.
From Verif.Base Require Import Bytes.
From Verif.Codec Require Import Packets Decode Encode.
From Verif.Topics Require Import Predefined.
From Verif.Gateway Require Import GwTypes GwStep.
From Verif.Checkers Require Import ChkCodec ChkGw ChkGw2.
Open Scope N_scope.

Record mon7 := {
  t_mqc : bool;   (* an MQTT CONNECT has been written to the broker in this history *)
  t_bok : bool    (* the broker has accepted one: an event EvMq (MqConnack _ 0) occurred *)
}.
Definition mon7_init : mon7 := {| t_mqc := false; t_bok := false |}.

(* the property's stated exception: the step handles a QoS -1 PUBLISH on a predefined or short topic
   while authentication is disabled *)
Definition qos_m1_step (cfg : gw_cfg) (ev : gw_event) : bool :=
  match ev with
  | EvSn dg =>
    match read_dgram dg with
    | Ok (Publish _ 3 _ tit _ _ _) => negb (auth_enabled cfg) && ((tit =? TIT_PREDEFINED) || (tit =? TIT_SHORT))
    | _ => false
    end
  | _ => false
  end.

Definition is_connack0 (ev : gw_event) : bool :=
  match ev with EvMq (MqConnack _ 0) => true | _ => false end.

(* the observations of one step in order; mqc: an MQTT CONNECT has been written so far.
   clause 8: something other than the CONNECT of the exchange (and the DISCONNECT that ends a session)
             goes to the broker while no MQTT CONNECT has been written - outside the QoS -1 exception;
   clause 9: CONNACK accepted is written to the client while the broker has accepted no MQTT CONNECT. *)
Fixpoint scan7 (exc bok mqc : bool) (os : list obs) : bool * list N :=
  match os with
  | [] => (mqc, [])
  | o :: os' =>
    let '(mqc1, f) :=
      match o with
      | ObMq _ p _ =>
        if is_mq_connect p then (true, [])
        else if is_mq_disconnect p then (mqc, [])
        else (mqc, if mqc || exc then [] else [8])
      | ObMqGarbage _ => (mqc, if mqc || exc then [] else [8])
      | ObSn _ dg =>
        (mqc, match read_dgram dg with
              | Ok (Connack rc) => if (rc =? RC_ACCEPTED) && negb bok then [9] else []
              | _ => []
              end)
      | ObEnd _ => (mqc, [])
      end in
    let '(mqc2, f') := scan7 exc bok mqc1 os' in
    (mqc2, f ++ f')
  end.

Definition mon7_step (cfg : gw_cfg) (ev : gw_event) (os : list obs) (m : mon7) : mon7 * list N :=
  let bok := t_bok m || is_connack0 ev in      (* updated with this step's event first *)
  let '(mqc, f) := scan7 (qos_m1_step cfg ev) bok (t_mqc m) os in
  ({| t_mqc := mqc; t_bok := bok |}, f).

(* folded over a history next to the model, which supplies the observations *)
Fixpoint mon7_run (cfg : gw_cfg) (s : gw_state) (m : mon7) (evs : list gw_event) : list N :=
  match evs with
  | [] => []
  | ev :: evs' =>
    let '(s', outs) := gw_step cfg s ev in
    let '(m', f) := mon7_step cfg ev (obs_of_outs outs) m in
    f ++ mon7_run cfg s' m' evs'
  end.
