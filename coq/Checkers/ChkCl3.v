(* Checkers/ChkCl3.v — C06 in the client library (per step): a QoS 2 PUBLISH from the gateway is
   answered with PUBREC of its message ID whatever exchanges the client itself has in progress
   under that message ID. *)
From stdpp Require Import base option list numbers fin_maps nmap.
From Verif.Base Require Import Bytes.
From Verif.Codec Require Import Packets Decode Encode.
From Verif.Topics Require Import Predefined.
From Verif.Gateway Require Import GwTypes.
From Verif.Match Require Import Match.
From Verif.Client Require Import ClTypes ClStep.
From Verif.Checkers Require Import ChkCodec ChkGw ChkCl.
Open Scope N_scope.

Definition is_pubrec_for (mid : N) (p : packet) : bool := match p with Pubrec m => m =? mid | _ => false end.

(* clause 7: the client's own exchange holds the message ID (the interference of the property);
   clause 17: no PUBREC for another reason *)
Definition chk_C06c (cfg : cl_cfg) (s : cl_state) (ev : cl_event) (os : list cl_out) : list N :=
  if negb (c_live s) then [] else
  match ev_pkt ev with
  | Some (Publish _ 2 _ _ _ mid _) =>
    if existsb (is_pubrec_for mid) (c_pkts os) then []
    else match c_get_id s mid with
         | Some (_, CxBrokerPub2 _ _) => [17]
         | Some _ => [7]
         | None => [17]
         end
  | _ => []
  end.
